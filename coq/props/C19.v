(* C19 — vector, composite and block structures agree with their components.
   Only statements; proofs live in Proofs.C19_BlocksProofs / Proofs.C19_CompositeProofs, the tie to the source in
   Dyn.C19Tie / Dyn.C19Bmat / Dyn.C19CompTie.  Theorems speak about the definitions REGENERATED from coo_data.py,
   element_vector.py, utils.py, assembly/__init__.py, abstract_basis.py, element_composite.py and (for the assembled
   data) bilinear_form.py. *)
From Coq Require Import List Arith Bool ZArith Ring_theory.
Import ListNotations.
Require Import Base.C01_Sums Model.C01_Assembly Proofs.C01_AssemblyProofs Model.C19_Blocks Proofs.C19_BlocksProofs.
Require Import Model.C19_Composite Proofs.C19_CompositeProofs.
Require Import Model.C19_CompBasis Proofs.C19_CompBasisProofs Proofs.C19_InverseProofs Model.C19_FormBlock Model.C19_Scatter.
Require Import Gen.C01Gen Dyn.C01Tie Gen.C19Gen Gen.C19Comp Dyn.C19Tie Dyn.C19Bmat Dyn.C19CompTie.

(* ---------- ElementVector: local index i of the vector element <-> (scalar basis function ind, component n) ---------- *)
Theorem C19_vector_decode : forall dim i, 0 < dim ->
  let '(ind, n) := gen_vector_decode dim i in ind = i / dim /\ n = i mod dim /\ n < dim /\ vector_encode dim (ind, n) = i.
Proof. exact gen_vector_decode_spec. Qed.

Theorem C19_vector_decode_bijection : forall dim Nb, 0 < dim ->
  (forall ind n, n < dim -> gen_vector_decode dim (vector_encode dim (ind, n)) = (ind, n)) /\
  (forall i, i < Nb * dim <-> fst (gen_vector_decode dim i) < Nb).
Proof. intros dim Nb Hd. split; [intros; now apply gen_vector_encode_decode | intros; now apply gen_vector_decode_range]. Qed.

(* the per-entity DOF counts of ElementVector(elem, dim) are dim times those of elem for each of the four entity kinds,
   for every component count dim and every spatial dimension edim (dim <> edim included): this is the layout
   fun K => dim * d K that C19_split_indices_vector and C19_interp_split_vector speak about *)
Theorem C19_vector_layout : forall (d : nat -> nat) dim edim K, K < 4 -> gen_vector_layout d dim edim K = dim * d K.
Proof. exact gen_vector_layout_spec. Qed.

(* ---------- skfem.utils.bmat: mat.blocks are the split points of the block columns ---------- *)
Theorem C19_bmat_blocks : forall widths, bmat_domain widths -> gen_bmat_blocks widths = prefix_sums widths.
Proof. exact gen_bmat_blocks_spec. Qed.


(* ---------- ElementComposite._deduce_bfun: for EVERY list of component layouts (nodal, edge, facet, interior counts per
   entity) and every reference cell (numbers of local entities), the local basis function sitting at kind K, local
   entity itr, slot o_{n,K} + r of the summed layout (= row order of Dofs) is basis function (K, itr, r) of component n.
   Together with C19_composite_decode_covers this is a bijection  i <-> (component, local index). ---------- *)
Theorem C19_composite_decode : forall ref ls n K itr r,
  n < length ls -> K < 4 -> itr < kcount ref K -> r < lay ls n K ->
  gen_deduce_bfun ref ls (whole_index ref ls n K itr r) = (n, comp_index ref ls n K itr r).
Proof. exact gen_deduce_bfun_spec. Qed.

(* ---------- Dofs row order vs split_indices: the global DOF of the composite / vector element in that row, on any cell,
   is split_indices[n][ the component's own global DOF of its row (K, itr, r) ] — every topology, numbering, layout ---------- *)
Theorem C19_split_indices_composite : forall tp ls n K itr r e,
  n < length ls -> K < 4 -> itr < length (conn tp K) -> r < lay ls n K ->
  e < length (nth itr (conn tp K) []) -> nth e (nth itr (conn tp K) []) 0 < G tp K ->
  nth (nth e (nth (row_index tp (lay ls n) K itr r) (gen_element_dofs tp (lay ls n)) []) 0) (gen_composite_split tp ls n) 0
  = nth e (nth (row_index tp (D_of ls) K itr (o_of ls n K + r)) (gen_element_dofs tp (D_of ls)) []) 0.
Proof. exact gen_split_compat_composite. Qed.

Theorem C19_split_indices_vector : forall tp d dim n K itr r e,
  n < dim -> K < 4 -> itr < length (conn tp K) -> r < d K ->
  e < length (nth itr (conn tp K) []) -> nth e (nth itr (conn tp K) []) 0 < G tp K ->
  nth (nth e (nth (row_index tp d K itr r) (gen_element_dofs tp d) []) 0) (gen_vector_split tp d dim n) 0
  = nth e (nth (row_index tp (fun K' => dim * d K') K itr (n + r * dim)) (gen_element_dofs tp (fun K' => dim * d K')) []) 0.
Proof. exact gen_split_compat_vector. Qed.

Section C19.
  Variable R : Type.
  Variables (rO rI : R) (radd rmul rsub : R -> R -> R) (ropp : R -> R).
  Variable Rth : ring_theory rO rI radd rmul rsub ropp (@eq R).
  Variable V W : Type.
  Notation basis := (basis R V).

  (* to_dense (a + b) = to_dense a + to_dense b *)
  Theorem C19_coo_add_dense : forall (a b : coo R) nr nc A B,
    c_shape a = [nr; nc] -> c_shape b = [nr; nc] -> length (c_indices a) = 2 -> length (c_indices b) = 2 ->
    gen_to_dense2 R rO radd a = Some A -> gen_to_dense2 R rO radd b = Some B ->
    exists C, gen_to_dense2 R rO radd (gen_coo_add R a b) = Some C /\
      forall r c, r < nr -> c < nc -> nth c (nth r C []) rO = radd (nth c (nth r A []) rO) (nth c (nth r B []) rO).
  Proof. exact (gen_coo_add_dense R rO rI radd rmul rsub ropp Rth). Qed.

  (* asm over lists / products of bases: the matrix of the sum of the elemental data is the sum of the matrices,
     for any number of summands *)
  Theorem C19_asm_list_sum : forall nr nc (l : list (coo R)) (c0 : coo R),
    good R rO radd nr nc c0 -> Forall (good R rO radd nr nc) l ->
    exists s, gen_coo_sum R (c0 :: l) = Some s /\ good R rO radd nr nc s /\
      forall r c, r < nr -> c < nc ->
        dentry R rO radd s r c = radd (dentry R rO radd c0 r c) (sum_over rO radd l (fun x => dentry R rO radd x r c)).
  Proof. exact (gen_coo_sum_dense R rO rI radd rmul rsub ropp Rth). Qed.

  (* tolocal_spec: for the data and the local shape that the regenerated BilinearForm._assemble produces, for all
     Nu, Nv (rectangular), all cell counts: local matrix e has entry [i][j] = K j i e — row = test function i,
     column = trial function j, like the global matrix.  (On the pinned tree: refuted, F10.) *)
  Theorem C19_tolocal_spec : forall form w (ub : basis) (vb0 : option basis),
    let vb := match vb0 with None => ub | Some b => b end in
    let Nu := bNbfun ub in let Nv := bNbfun vb in let nt := bnelems ub in
    wf_basis ub -> wf_basis vb -> bnelems vb = bnelems ub -> bnq vb = bnq ub -> 0 < Nu * Nv ->
    exists c L,
      gen_bilinear_assemble R rO radd rmul V W form w ub vb0 = Some c /\
      gen_tolocal R rO (c_data c) (c_local c) = Some L /\ length L = nt /\
      forall e i j, e < nt -> i < Nv -> j < Nu -> loc3 R rO L e i j = Kjie R rO radd rmul V W form w ub vb j i e.
  Proof. exact (gen_tolocal_spec R rO radd rmul V W). Qed.

  (* fromlocal (tolocal c) = c *)
  Theorem C19_fromlocal_tolocal : forall (data : list R) n0 n1 L, 0 < n0 * n1 ->
    gen_tolocal R rO data [n0; n1] = Some L -> gen_fromlocal R rO L (length data / (n0 * n1)) n0 n1 = data.
  Proof. exact (gen_fromlocal_tolocal R rO). Qed.

  (* COOData.dot is the product with the assembled (duplicates summed) matrix, stated for rectangular data (nr, nc):
     gen_dot_rows is the number of entries the source allocates for the result (len(x), which forces nr = nc, or shape[0]) *)
  Theorem C19_coo_dot : forall (c : coo R) (x : list R) nr nc A z,
    c_shape c = [nr; nc] -> length x = nc -> gen_dot_rows R c x = nr ->
    gen_to_dense2 R rO radd c = Some A -> gen_coo_dot R rO radd rmul c x [] = Some z ->
    z = matvec R rO radd rmul A x.
  Proof. exact (gen_coo_dot_spec R rO rI radd rmul rsub ropp Rth). Qed.

  (* ---------- interp_whole = stack (interp (split n)): every linear functional g of the interpolated composite field that
     reads only component n (g (inj n' x) = [n = n'] h x) equals h of the component's interpolant of x[split_indices[n]] ---------- *)
  Variables VV VC : Type.
  Variables (vadd : VV -> VV -> VV) (vscale : R -> VV -> VV) (vaddC : VC -> VC -> VC) (vscaleC : R -> VC -> VC).
  Variable inj : nat -> VV -> VC.

  Theorem C19_interp_split_composite : forall (tp : topo) (ref : layout) (ls : list layout) (C : C01_Assembly.basis R VC)
      (b : nat -> C01_Assembly.basis R VV) (n : nat) (g : VC -> R) (h : VV -> R) (w : nat -> R) e q,
    (forall K, K < 4 -> kcount ref K = length (conn tp K)) ->
    (forall K itr e, K < 4 -> itr < length (conn tp K) -> e < ncells tp ->
       e < length (nth itr (conn tp K) []) /\ nth e (nth itr (conn tp K) []) 0 < G tp K) ->
    bedofs C = gen_element_dofs tp (D_of ls) /\ bNbfun C = base_of ref (D_of ls) 4 ->
    (forall n, n < length ls -> bedofs (b n) = gen_element_dofs tp (lay ls n) /\ bNbfun (b n) = base_of ref (lay ls n) 4) ->
    (forall i e q, i < bNbfun C ->
       bB C i e q = inj (fst (gen_deduce_bfun ref ls i)) (bB (b (fst (gen_deduce_bfun ref ls i))) (snd (gen_deduce_bfun ref ls i)) e q)) ->
    n < length ls -> e < ncells tp ->
    (forall x y, g (vaddC x y) = radd (g x) (g y)) -> (forall s x, g (vscaleC s x) = rmul s (g x)) ->
    (forall x y, h (vadd x y) = radd (h x) (h y)) -> (forall s x, h (vscale s x) = rmul s (h x)) ->
    (forall n' x, g (inj n' x) = if Nat.eqb n n' then h x else rO) ->
    g (interp R rO VC vaddC vscaleC C w e q)
    = h (interp R rO VV vadd vscale (b n) (fun k => w (nth k (gen_composite_split tp ls n) 0)) e q).
  Proof. exact (gen_composite_interp_split R rO rI radd rmul rsub ropp Rth VV VC vadd vscale vaddC vscaleC inj). Qed.

  Theorem C19_interp_split_vector : forall (tp : topo) (ref : layout) (d : nat -> nat) (dim : nat) (Vb : C01_Assembly.basis R VC)
      (sb : C01_Assembly.basis R VV) (n : nat) (g : VC -> R) (h : VV -> R) (w : nat -> R) e q,
    0 < dim ->
    (forall K, K < 4 -> kcount ref K = length (conn tp K)) ->
    (forall K itr e, K < 4 -> itr < length (conn tp K) -> e < ncells tp ->
       e < length (nth itr (conn tp K) []) /\ nth e (nth itr (conn tp K) []) 0 < G tp K) ->
    bedofs Vb = gen_element_dofs tp (fun K => dim * d K) /\ bNbfun Vb = base_of ref d 4 * dim ->
    bedofs sb = gen_element_dofs tp d /\ bNbfun sb = base_of ref d 4 ->
    (forall i e q, i < bNbfun Vb ->
       bB Vb i e q = inj (snd (gen_vector_decode dim i)) (bB sb (fst (gen_vector_decode dim i)) e q)) ->
    n < dim -> e < ncells tp ->
    (forall x y, g (vaddC x y) = radd (g x) (g y)) -> (forall s x, g (vscaleC s x) = rmul s (g x)) ->
    (forall x y, h (vadd x y) = radd (h x) (h y)) -> (forall s x, h (vscale s x) = rmul s (h x)) ->
    (forall n' x, g (inj n' x) = if Nat.eqb n n' then h x else rO) ->
    g (interp R rO VC vaddC vscaleC Vb w e q)
    = h (interp R rO VV vadd vscale sb (fun k => w (nth k (gen_vector_split tp d dim n) 0)) e q).
  Proof. exact (gen_vector_interp_split R rO rI radd rmul rsub ropp Rth VV VC vadd vscale vaddC vscaleC inj). Qed.

  (* ---------- interp_whole = sum over the components of the component interpolants of x[split_indices[n]], placed in
     their slots — for every linear functional g of the tuple-valued field (composite_setting: the tables of the
     composite basis and of split_bases are the regenerated Dofs tables, the basis functions are placed by the
     regenerated _deduce_bfun) ---------- *)
  Theorem C19_interp_whole_is_sum : forall tp ref ls (C : C01_Assembly.basis R VC) (b : nat -> C01_Assembly.basis R VV)
      (g : VC -> R) (w : nat -> R) e q,
    composite_setting R VV VC inj tp ref ls C b -> e < ncells tp ->
    (forall x y, g (vaddC x y) = radd (g x) (g y)) -> (forall s x, g (vscaleC s x) = rmul s (g x)) ->
    g (interp R rO VC vaddC vscaleC C w e q)
    = sumn rO radd (length ls) (fun n =>
        sumn rO radd (bNbfun (b n)) (fun ind => rmul (w (nth (nth e (element_dofs (b n) ind) 0) (gen_composite_split tp ls n) 0))
                                                     (g (inj n (bB (b n) ind e q))))).
  Proof. exact (gen_composite_interp_sum R rO rI radd rmul rsub ropp Rth VV VC vaddC vscaleC inj). Qed.

  (* ---------- block_assembly: for coefficient vectors supported on the trial component bt and the test component a,
     v^T A_composite u = va^T A^{a,bt} ub with A^{a,bt} the matrix of the form with all other components zeroed,
     assembled (by the regenerated assembler of C01) on the component bases ---------- *)
  Theorem C19_block_assembly : forall tp ref ls (C : C01_Assembly.basis R VC) (b : nat -> C01_Assembly.basis R VV)
      (form : VC -> VC -> W -> R) (a bt : nat) (w : nat -> nat -> W) (uC vC ub va : nat -> R),
    composite_setting R VV VC inj tp ref ls C b ->
    (forall x y v w, form (vaddC x y) v w = radd (form x v w) (form y v w)) ->
    (forall s x v w, form (vscaleC s x) v w = rmul s (form x v w)) ->
    (forall u x y w, form u (vaddC x y) w = radd (form u x w) (form u y w)) ->
    (forall s u x w, form u (vscaleC s x) w = rmul s (form u x w)) ->
    (forall n x y, inj n (vadd x y) = vaddC (inj n x) (inj n y)) ->
    (forall n s x, inj n (vscale s x) = vscaleC s (inj n x)) ->
    a < length ls -> bt < length ls ->
    wf_basis C -> wf_basis (b a) -> wf_basis (b bt) ->
    bnelems C = ncells tp -> bnelems (b a) = ncells tp -> bnelems (b bt) = ncells tp ->
    bnq (b a) = bnq C -> bnq (b bt) = bnq C ->
    (forall e q, e < ncells tp -> q < bnq C -> bdx (b bt) e q = bdx C e q) ->
    gen_supported_on R rO tp ls uC bt ub -> gen_supported_on R rO tp ls vC a va ->
    exists cC AC cab Aab,
      gen_bilinear_assemble R rO radd rmul VC W form w C None = Some cC /\ gen_to_dense2 R rO radd cC = Some AC /\
      gen_bilinear_assemble R rO radd rmul VV W (fun x y w => form (inj bt x) (inj a y) w) w (b bt) (Some (b a)) = Some cab /\
      gen_to_dense2 R rO radd cab = Some Aab /\
      vAu R rO radd rmul vC AC uC (bN C) (bN C) = vAu R rO radd rmul va Aab ub (bN (b a)) (bN (b bt)).
  Proof. exact (gen_block_assembly R rO rI radd rmul rsub ropp Rth VV VC W vadd vscale vaddC vscaleC inj). Qed.

  (* ---------- CompositeBasis (b_0 * b_1 * ...): assembly = block matrix (bmat) of the component assemblies with block
     offsets N_0 + ... + N_{n-1}: for vectors supported on trial block bt and test block a,
     v^T A u = va^T A^{a,bt} ub, A^{a,bt} assembled on (b_bt, b_a) from the form with the other slots zero ---------- *)
  Theorem C19_compositebasis_blocks : forall (b0 : C01_Assembly.basis R VV) (rest : list (C01_Assembly.basis R VV))
      (form : VC -> VC -> W -> R) (a bt : nat) (w : nat -> nat -> W) (uC vC ub va : nat -> R),
    let bs := b0 :: rest in
    (forall n, n < length bs -> wf_basis (nth n bs b0) /\ bnelems (nth n bs b0) = bnelems b0 /\ bnq (nth n bs b0) = bnq b0) ->
    (forall x y v w, form (vaddC x y) v w = radd (form x v w) (form y v w)) ->
    (forall s x v w, form (vscaleC s x) v w = rmul s (form x v w)) ->
    (forall u x y w, form u (vaddC x y) w = radd (form u x w) (form u y w)) ->
    (forall s u x w, form u (vscaleC s x) w = rmul s (form u x w)) ->
    (forall n x y, inj n (vadd x y) = vaddC (inj n x) (inj n y)) ->
    (forall n s x, inj n (vscale s x) = vscaleC s (inj n x)) ->
    a < length bs -> bt < length bs ->
    (forall e q, e < bnelems b0 -> q < bnq b0 -> bdx (nth bt bs b0) e q = bdx b0 e q) ->
    cb_supported R rO VV b0 rest uC bt ub -> cb_supported R rO VV b0 rest vC a va ->
    exists C cC AC cab Aab,
      gen_composite_basis R VV VC inj b0 rest false = Some C /\
      bN C = psum (fun n => bN (nth n bs b0)) (length bs) /\
      gen_bilinear_assemble R rO radd rmul VC W form w C None = Some cC /\ gen_to_dense2 R rO radd cC = Some AC /\
      gen_bilinear_assemble R rO radd rmul VV W (fun x y w => form (inj bt x) (inj a y) w) w (nth bt bs b0) (Some (nth a bs b0)) = Some cab /\
      gen_to_dense2 R rO radd cab = Some Aab /\
      vAu R rO radd rmul vC AC uC (bN C) (bN C) = vAu R rO radd rmul va Aab ub (bN (nth a bs b0)) (bN (nth bt bs b0)).
  Proof. exact (gen_compositebasis_block_assembly R rO rI radd rmul rsub ropp Rth VV VC W vadd vscale vaddC vscaleC inj). Qed.

  (* the constructor rejects a basis with another number of cells or quadrature points (N19) *)
  Theorem C19_compositebasis_rejects : forall (b0 b1 : C01_Assembly.basis R VV) (rest : list (C01_Assembly.basis R VV)) eq,
    bnelems b1 <> bnelems b0 \/ bnq b1 <> bnq b0 -> gen_composite_basis R VV VC inj b0 (b1 :: rest) eq = None.
  Proof. exact (gen_composite_basis_rejects R VV VC inj). Qed.

  (* COOData.inverse = fromlocal (inv (tolocal ())): for ANY per-cell operation inv that keeps the local shape the local
     matrices of inverse(c) are inv of the local matrices of c, cell by cell (hence M * inv M = I blockwise whenever inv
     is a matrix inverse; numpy.linalg.inv itself is runtime) *)
  Theorem C19_inverse_spec : forall (inv : list (list R) -> list (list R)) (data : list R) n0 n1 L,
    0 < n0 * n1 -> gen_tolocal R rO data [n0; n1] = Some L ->
    (forall M, In M L -> length (inv M) = n0 /\ forall i, i < n0 -> length (nth i (inv M) []) = n1) ->
    exists d', gen_inverse_with R rO inv data [n0; n1] = Some d' /\ gen_tolocal R rO d' [n0; n1] = Some (map inv L).
  Proof. exact (gen_inverse_spec R rO). Qed.

  (* ---------- shared DOFs (equal_dofnum = True, the @ operator, N34): one numbering for all components, the matrix is the SUM
     over all (test a, trial b) of the component weak forms (each is va^T A^{a,b} ub by C01_bilinear_weak_form) ---------- *)
  Theorem C19_shared_dofs_matrix_is_sum : forall (form : VC -> VC -> W -> R),
    (forall x y v w, form (vaddC x y) v w = radd (form x v w) (form y v w)) ->
    (forall s x v w, form (vscaleC s x) v w = rmul s (form x v w)) ->
    (forall u x y w, form u (vaddC x y) w = radd (form u x w) (form u y w)) ->
    (forall s u x w, form u (vscaleC s x) w = rmul s (form u x w)) ->
    (forall n x y, inj n (vadd x y) = vaddC (inj n x) (inj n y)) ->
    (forall n s x, inj n (vscale s x) = vscaleC s (inj n x)) ->
    forall (b0 : C01_Assembly.basis R VV) (rest : list (C01_Assembly.basis R VV)) (w : nat -> nat -> W) (u v : nat -> R),
    let bs := b0 :: rest in
    (forall n, n < length bs -> wf_basis (nth n bs b0) /\ bnelems (nth n bs b0) = bnelems b0 /\ bnq (nth n bs b0) = bnq b0) ->
    (forall n, n < length bs -> bN (nth n bs b0) = bN b0) ->
    exists C cC AC,
      gen_composite_basis R VV VC inj b0 rest true = Some C /\ bN C = bN b0 /\
      gen_bilinear_assemble R rO radd rmul VC W form w C None = Some cC /\ gen_to_dense2 R rO radd cC = Some AC /\
      vAu R rO radd rmul v AC u (bN C) (bN C)
      = sumn rO radd (length bs) (fun a => sumn rO radd (length bs) (fun b =>
          integrate R rO radd rmul (bnelems b0) (bnq b0)
            (fun e q => form (inj b (interp R rO VV vadd vscale (nth b bs b0) u e q)) (inj a (interp R rO VV vadd vscale (nth a bs b0) v e q)) (w e q))
            (bdx b0))).
  Proof. exact (gen_shared_dofs_matrix_is_sum R rO rI radd rmul rsub ropp Rth VV VC W vadd vscale vaddC vscaleC inj). Qed.

  (* ---------- CompositeBasis matrix = ElementComposite matrix permuted by concatenate(split_indices): for coefficient vectors
     related by x_EC[split_indices[n][k]] = x_CB[N_0 + ... + N_{n-1} + k] the two quadratic forms agree ---------- *)
  Theorem C19_compositebasis_permutation : forall (form : VC -> VC -> W -> R),
    (forall x y v w, form (vaddC x y) v w = radd (form x v w) (form y v w)) ->
    (forall s x v w, form (vscaleC s x) v w = rmul s (form x v w)) ->
    (forall u x y w, form u (vaddC x y) w = radd (form u x w) (form u y w)) ->
    (forall s u x w, form u (vscaleC s x) w = rmul s (form u x w)) ->
    forall tp ref ls (CE : C01_Assembly.basis R VC) (b : nat -> C01_Assembly.basis R VV) (b0 : C01_Assembly.basis R VV)
           (rest : list (C01_Assembly.basis R VV)) (w : nat -> nat -> W) (uE vE uB vB : nat -> R),
    let bs := b0 :: rest in
    composite_setting R VV VC inj tp ref ls CE b ->
    (length bs = length ls /\ forall n, n < length bs -> nth n bs b0 = b n) ->
    (forall n, n < length bs -> wf_basis (nth n bs b0) /\ bnelems (nth n bs b0) = bnelems b0 /\ bnq (nth n bs b0) = bnq b0) ->
    (wf_basis CE /\ bnelems CE = bnelems b0 /\ bnq CE = bnq b0 /\ ncells tp = bnelems b0 /\
     (forall e q, e < bnelems b0 -> q < bnq b0 -> bdx CE e q = bdx b0 e q)) ->
    (forall n k, n < length bs -> k < bN (nth n bs b0) -> uE (nth k (gen_composite_split tp ls n) 0) = uB (psum (fun m => bN (nth m bs b0)) n + k)) ->
    (forall n k, n < length bs -> k < bN (nth n bs b0) -> vE (nth k (gen_composite_split tp ls n) 0) = vB (psum (fun m => bN (nth m bs b0)) n + k)) ->
    exists CB cE AE cB AB,
      gen_composite_basis R VV VC inj b0 rest false = Some CB /\
      gen_bilinear_assemble R rO radd rmul VC W form w CE None = Some cE /\ gen_to_dense2 R rO radd cE = Some AE /\
      gen_bilinear_assemble R rO radd rmul VC W form w CB None = Some cB /\ gen_to_dense2 R rO radd cB = Some AB /\
      vAu R rO radd rmul vE AE uE (bN CE) (bN CE) = vAu R rO radd rmul vB AB uB (bN CB) (bN CB).
  Proof. exact (gen_compositebasis_is_permuted_elementcomposite R rO rI radd rmul rsub ropp Rth VV VC W vaddC vscaleC inj). Qed.
End C19.

(* ---------- Form.block: the regenerated wrapper form.block(bt, a) (slot bt / a of the M trial / test fields, zeros() elsewhere)
   assembled on the component bases gives the (a, bt) block of the coupling matrix on the CompositeBasis ---------- *)
Section C19FormBlock.
  Variable R : Type.
  Variables (rO rI : R) (radd rmul rsub : R -> R -> R) (ropp : R -> R).
  Variable Rth : ring_theory rO rI radd rmul rsub ropp (@eq R).
  Variables V W : Type.
  Variables (vadd : V -> V -> V) (vscale : R -> V -> V) (vaddC : list V -> list V -> list V) (vscaleC : R -> list V -> list V).
  Variable vzero : V -> V.
  Variable M : nat.

  Theorem C19_form_block : forall (b0 : C01_Assembly.basis R V) (rest : list (C01_Assembly.basis R V)) (form : list V -> list V -> W -> R)
      (a bt : nat) (w : nat -> nat -> W) (uC vC ub va : nat -> R),
    let bs := b0 :: rest in
    (forall n, n < length bs -> wf_basis (nth n bs b0) /\ bnelems (nth n bs b0) = bnelems b0 /\ bnq (nth n bs b0) = bnq b0) ->
    (forall x y v w, form (vaddC x y) v w = radd (form x v w) (form y v w)) ->
    (forall s x v w, form (vscaleC s x) v w = rmul s (form x v w)) ->
    (forall u x y w, form u (vaddC x y) w = radd (form u x w) (form u y w)) ->
    (forall s u x w, form u (vscaleC s x) w = rmul s (form u x w)) ->
    (forall n x y, block_pad V vzero M n (vadd x y) = vaddC (block_pad V vzero M n x) (block_pad V vzero M n y)) ->
    (forall n s x, block_pad V vzero M n (vscale s x) = vscaleC s (block_pad V vzero M n x)) ->
    a < length bs -> bt < length bs ->
    (forall e q, e < bnelems b0 -> q < bnq b0 -> bdx (nth bt bs b0) e q = bdx b0 e q) ->
    cb_supported R rO V b0 rest uC bt ub -> cb_supported R rO V b0 rest vC a va ->
    exists C cC AC cab Aab,
      gen_composite_basis R V (list V) (block_pad V vzero M) b0 rest false = Some C /\
      gen_bilinear_assemble R rO radd rmul (list V) W form w C None = Some cC /\ gen_to_dense2 R rO radd cC = Some AC /\
      gen_bilinear_assemble R rO radd rmul V W (gen_form_block vzero form M [bt; a]) w (nth bt bs b0) (Some (nth a bs b0)) = Some cab /\
      gen_to_dense2 R rO radd cab = Some Aab /\
      vAu R rO radd rmul vC AC uC (bN C) (bN C) = vAu R rO radd rmul va Aab ub (bN (nth a bs b0)) (bN (nth bt bs b0)).
  Proof. exact (gen_form_block_assembly R rO rI radd rmul rsub ropp Rth V W vadd vscale vaddC vscaleC vzero M). Qed.
End C19FormBlock.

(* ---------- COOData.tolocal(basis=facet basis): scatter out[find] = local and per-cell sum over t2f ---------- *)
Theorem C19_facet_scatter : forall (R : Type) (zero : list (list R)) (add : list (list R) -> list (list R) -> list (list R)),
  (forall idx vals out k d, NoDup idx -> length vals = length idx -> (forall i, In i idx -> i < length out) -> k < length idx ->
     nth (nth k idx 0) (gen_scatter_set R idx vals out) d = nth k vals d) /\
  (forall idx vals i v out d, length vals = length idx -> i < length out ->
     nth i (gen_scatter_set R (idx ++ [i]) (vals ++ [v]) out) d = v) /\
  (forall idx vals f d out, ~ In f idx -> nth f (gen_scatter_set R idx vals out) d = nth f out d) /\
  (forall nfacets ncells find local t2f e d, e < ncells ->
     nth e (gen_facet_sum R zero add nfacets ncells find local t2f) d
     = fold_right add zero (map (fun row => nth (nth e row 0) (gen_scatter_set R find local (repeat zero nfacets)) zero) t2f)).
Proof. exact gen_facet_scatter_spec. Qed.

Print Assumptions C19_vector_decode.
Print Assumptions C19_vector_decode_bijection.
Print Assumptions C19_vector_layout.
Print Assumptions C19_bmat_blocks.
Print Assumptions C19_composite_decode.
Print Assumptions C19_split_indices_composite.
Print Assumptions C19_split_indices_vector.
Print Assumptions C19_coo_add_dense.
Print Assumptions C19_asm_list_sum.
Print Assumptions C19_tolocal_spec.
Print Assumptions C19_fromlocal_tolocal.
Print Assumptions C19_coo_dot.
Print Assumptions C19_interp_split_composite.
Print Assumptions C19_interp_split_vector.
Print Assumptions C19_interp_whole_is_sum.
Print Assumptions C19_block_assembly.
Print Assumptions C19_compositebasis_blocks.
Print Assumptions C19_compositebasis_rejects.
Print Assumptions C19_inverse_spec.
Print Assumptions C19_shared_dofs_matrix_is_sum.
Print Assumptions C19_compositebasis_permutation.
Print Assumptions C19_form_block.
Print Assumptions C19_facet_scatter.

(* ---------- non-vacuity: a rectangular (Nu = 2, Nv = 3), 2-cell, non-symmetric instance over Z ---------- *)
Definition exV := (Z * Z)%type.
Definition ex_form (u v : exV) (w : Z) : Z := (w * (fst u * snd v) + 2 * (snd u * fst v) + 3 * (fst u * fst v))%Z.
Definition ex_ub : basis Z exV :=
  mkBasis 4 2 2 2 [[0; 3]; [1; 0]]
          (fun j e q => (Z.of_nat (1 + j + 2 * e + q), Z.of_nat (2 + 3 * j + e)) : exV) (fun e q => Z.of_nat (1 + e + 2 * q)).
Definition ex_vb : basis Z exV :=
  mkBasis 5 3 2 2 [[4; 1]; [2; 2]; [0; 3]]
          (fun i e q => (Z.of_nat (7 + i * i + e), Z.of_nat (1 + i + 5 * q)) : exV) (fun e q => Z.of_nat (1 + e + 2 * q)).
Definition ex_w (e q : nat) : Z := Z.of_nat (1 + 3 * e + q).

Example C19_instance_tolocal :
  match gen_bilinear_assemble Z 0%Z Z.add Z.mul exV Z ex_form ex_w ex_ub (Some ex_vb) with
  | Some c => gen_tolocal Z 0%Z (c_data c) (c_local c)
  | None => None
  end = Some [[[332; 621]; [382; 714]; [506; 953]]; [[1320; 1880]; [1526; 2168]; [1936; 2768]]]%Z
  /\ wf_basis ex_ub /\ wf_basis ex_vb.
Proof. split; [vm_compute; reflexivity|]. split; apply wf_basisb_sound; reflexivity. Qed.
Print Assumptions C19_instance_tolocal.

(* P2 x P1 x P0 on a triangle: layouts (nodal, edge, facet, interior) = (1,0,1,0), (1,0,0,0), (0,0,0,1); 3 nodes, 3 facets *)
Example C19_instance_decode :
  map (gen_deduce_bfun [3; 0; 3; 1] [[1; 0; 1; 0]; [1; 0; 0; 0]; [0; 0; 0; 1]]) (seq 0 10)
  = [(0, 0); (1, 0); (0, 1); (1, 1); (0, 2); (1, 2); (0, 3); (0, 4); (0, 5); (2, 0)].
Proof. vm_compute. reflexivity. Qed.
Print Assumptions C19_instance_decode.
