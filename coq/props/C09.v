(* C09 — shape functions: the delivered derivative fields are the derivatives of the delivered value;
   nodal duality; partition of unity; duality of the lowest-order H(div)/H(curl) functionals.
   Only statements; the polynomials are REGENERATED from the real lbasis of /repo on every run
   (Gen.C09_Elements); soundness of the checkers in Proofs.C09_ElemProofs / Base.C09_Poly. *)
From Coq Require Import List Arith ZArith QArith Bool Ring_theory Setoid.
Import ListNotations.
Require Import Base.C09_Poly Base.C09_PolyQ Model.C09_Elem Proofs.C09_ElemProofs Gen.C09_Elements.

(* For every translated element class, every local basis function and EVERY point of EVERY commutative ring R
   that receives Q by a ring morphism (so: every rational point, every real point): each delivered
   gradient component is the formal partial derivative of the delivered value; div = sum_k d_k phi_k;
   curl = d_0 phi_1 - d_1 phi_0 (2-D) resp. the three components of the vector curl (3-D).
   (pderiv is the formal derivative: additive, Leibniz, d x_i/d x_k = delta_ik — theorems below; it is the
   true derivative in the sense of analysis by C09_deriv_is_derivative_R.) *)
Theorem C09_deriv_is_derivative :
  forall (R : Type) (rO rI : R) (radd rmul rsub : R -> R -> R) (ropp : R -> R) (req : R -> R -> Prop) (phi : Q -> R),
    Equivalence req -> ring_eq_ext radd rmul ropp req -> ring_theory rO rI radd rmul rsub ropp req ->
    ring_morph rO rI radd rmul rsub ropp req 0%Q 1%Q Qplus Qmult Qminus Qopp Qeq_bool phi ->
    forall e, In e all_elements -> forall b, In b (e_basis e) ->
      bfun_spec R rO rI radd rmul ropp req phi (e_dim e) b.
Proof.
  intros R rO rI radd rmul rsub ropp req phi H1 H2 H3 H4 e He.
  apply (deriv_ok_sound R rO rI radd rmul rsub ropp req phi H1 H2 H3 H4).
  exact (proj1 (Forall_forall _ _) all_deriv_ok e He).
Qed.
Print Assumptions C09_deriv_is_derivative.

(* the same at rational points, spelled out for the H1 family (the instance most readers want) *)
Theorem C09_gradient_is_gradient_Q :
  forall e, In e all_elements -> forall p grad, In (BH1 p grad) (e_basis e) ->
    length grad = e_dim e /\
    forall k, (k < e_dim e)%nat -> forall pt, qeval (nthp grad k) pt == qeval (pderiv k p) pt.
Proof.
  intros e He p grad Hb.
  exact (q_deriv_ok_sound e (proj1 (Forall_forall _ _) all_deriv_ok e He) _ Hb).
Qed.
Print Assumptions C09_gradient_is_gradient_Q.

(* nodal duality: for every H1-family class, every local index j the element gives a location x_j (finite
   doflocs row; there is at least one) and EVERY local index i: phi_i (x_j) = delta_ij *)
Theorem C09_nodal_duality : forall e, In e h1_elements -> duality_spec e.
Proof. intros e He. apply duality_ok_sound. exact (proj1 (Forall_forall _ _) h1_dual_ok e He). Qed.
Print Assumptions C09_nodal_duality.

(* partition of unity: the functions attached to located DOFs sum to one at every point of every ring over Q *)
Theorem C09_partition_of_unity :
  forall (R : Type) (rO rI : R) (radd rmul rsub : R -> R -> R) (ropp : R -> R) (req : R -> R -> Prop) (phi : Q -> R),
    Equivalence req -> ring_eq_ext radd rmul ropp req -> ring_theory rO rI radd rmul rsub ropp req ->
    ring_morph rO rI radd rmul rsub ropp req 0%Q 1%Q Qplus Qmult Qminus Qopp Qeq_bool phi ->
    forall e, In e h1_elements -> pou_spec R rO rI radd rmul req phi e.
Proof.
  intros R rO rI radd rmul rsub ropp req phi H1 H2 H3 H4 e He.
  apply (pou_ok_sound R rO rI radd rmul rsub ropp req phi H1 H2 H3 H4).
  exact (proj1 (Forall_forall _ _) h1_pou_ok e He).
Qed.
Print Assumptions C09_partition_of_unity.

(* lowest-order H(div) (facet fluxes, reference normals of refdom) and H(curl) (edge circulations, tangent
   v_b - v_a): (phi_i . c_j) restricted to entity j is the CONSTANT delta_ij * s_j with s_j = +-1, at every
   parameter value of the entity, in every ring over Q *)
Theorem C09_lowest_order_trace_duality :
  forall (R : Type) (rO rI : R) (radd rmul rsub : R -> R -> R) (ropp : R -> R) (req : R -> R -> Prop) (phi : Q -> R),
    Equivalence req -> ring_eq_ext radd rmul ropp req -> ring_theory rO rI radd rmul rsub ropp req ->
    ring_morph rO rI radd rmul rsub ropp req 0%Q 1%Q Qplus Qmult Qminus Qopp Qeq_bool phi ->
    forall e cube n signs fs, In (e, (cube, n, signs, fs)) lowest_order_elements ->
      trace_duality_spec R rO rI radd rmul req phi signs fs (e_basis e).
Proof.
  intros R rO rI radd rmul rsub ropp req phi H1 H2 H3 H4 e cube n signs fs He.
  apply (trace_duality_sound R rO rI radd rmul rsub ropp req phi H1 H2 H3 H4).
  exact (proj1 (Forall_forall _ _) lowest_tdual_ok _ He).
Qed.
Print Assumptions C09_lowest_order_trace_duality.

(* integral form: L_j (phi_i) = int_{entity j} phi_i . c_j = delta_ij * s_j * |reference parameter domain|
   (pint: exact integration of the normal form, Dirichlet's formula on simplices / product formula on cubes) *)
Theorem C09_lowest_order_functional_duality :
  forall e cube n signs fs, In (e, (cube, n, signs, fs)) lowest_order_elements ->
    functional_duality_spec cube n signs fs (e_basis e).
Proof.
  intros e cube n signs fs He. apply functional_duality_sound.
  exact (proj1 (Forall_forall _ _) lowest_fdual_ok _ He).
Qed.
Print Assumptions C09_lowest_order_functional_duality.

(* ElementGlobal family: every entry of the monomial derivative tables (_pbasis[diff], diff = d ++ [k]) is the
   k-th partial derivative of the entry _pbasis[d] — gradient, Hessian and all higher tables the class asks for *)
Theorem C09_global_derivative_tables :
  forall (R : Type) (rO rI : R) (radd rmul rsub : R -> R -> R) (ropp : R -> R) (req : R -> R -> Prop) (phi : Q -> R),
    Equivalence req -> ring_eq_ext radd rmul ropp req -> ring_theory rO rI radd rmul rsub ropp req ->
    ring_morph rO rI radd rmul rsub ropp req 0%Q 1%Q Qplus Qmult Qminus Qopp Qeq_bool phi ->
    forall nm t, In (nm, t) global_tables -> dtable_spec R rO rI radd rmul req phi t.
Proof.
  intros R rO rI radd rmul rsub ropp req phi H1 H2 H3 H4 nm t He.
  apply (dtable_ok_sound R rO rI radd rmul rsub ropp req phi H1 H2 H3 H4).
  exact (proj1 (Forall_forall _ _) global_tables_ok _ He).
Qed.
Print Assumptions C09_global_derivative_tables.

(* pderiv IS the formal derivative: additive, Leibniz, variables, constants (any ring over Q) *)
Theorem C09_pderiv_is_formal_derivative :
  forall (R : Type) (rO rI : R) (radd rmul rsub : R -> R -> R) (ropp : R -> R) (req : R -> R -> Prop) (phi : Q -> R),
    Equivalence req -> ring_eq_ext radd rmul ropp req -> ring_theory rO rI radd rmul rsub ropp req ->
    ring_morph rO rI radd rmul rsub ropp req 0%Q 1%Q Qplus Qmult Qminus Qopp Qeq_bool phi ->
    let ev := peval R rO rI radd rmul phi in
    (forall k p q pt, req (ev (pderiv k (padd p q)) pt) (radd (ev (pderiv k p) pt) (ev (pderiv k q) pt))) /\
    (forall k p q pt, req (ev (pderiv k (pmul p q)) pt)
                          (radd (rmul (ev (pderiv k p) pt) (ev q pt)) (rmul (ev p pt) (ev (pderiv k q) pt)))) /\
    (forall k i pt, req (ev (pderiv k (pvar i)) pt) (if Nat.eqb i k then rI else rO)) /\
    (forall k c pt, req (ev (pderiv k (pconst c)) pt) rO) /\
    (forall i pt, req (ev (pvar i) pt) (pt i)) /\
    (forall p q pt, req (ev (pmul p q) pt) (rmul (ev p pt) (ev q pt))) /\
    (forall p q pt, req (ev (padd p q) pt) (radd (ev p pt) (ev q pt))).
Proof.
  intros R rO rI radd rmul rsub ropp req phi H1 H2 H3 H4 ev. unfold ev.
  repeat split; intros.
  - apply (peval_pderiv_padd R rO rI radd rmul rsub ropp req phi H1 H2 H3).
  - apply (peval_pderiv_pmul R rO rI radd rmul rsub ropp req phi H1 H2 H3 H4).
  - apply (peval_pderiv_pvar R rO rI radd rmul rsub ropp req phi H1 H2 H3 H4).
  - apply (peval_pderiv_pconst R rO rI radd rmul req phi H1).
  - apply (peval_pvar R rO rI radd rmul rsub ropp req phi H1 H2 H3 H4).
  - apply (peval_pmul R rO rI radd rmul rsub ropp req phi H1 H2 H3 H4).
  - apply (peval_padd R rO rI radd rmul rsub ropp req phi H1 H2 H3).
Qed.
Print Assumptions C09_pderiv_is_formal_derivative.

(* non-vacuity: the lists are populated (43 classes translate on the pinned tree; the check records the
   exact names in the evidence), and one instance evaluated *)
Example C09_lists_populated :
  (40 <=? length all_elements)%nat = true /\ (28 <=? length h1_elements)%nat = true /\
  (7 <=? length lowest_order_elements)%nat = true /\ (10 <=? length global_tables)%nat = true.
Proof. vm_compute. repeat split; reflexivity. Qed.
Print Assumptions C09_lists_populated.
