(* C09 — shape functions: the delivered derivative fields are the derivatives of the delivered value;
   nodal duality; partition of unity; duality of the lowest-order H(div)/H(curl) functionals.
   Only statements; the polynomials are REGENERATED from the real lbasis of /repo on every run
   (Gen.C09_Elements); soundness of the checkers in Proofs.C09_ElemProofs / Base.C09_Poly. *)
From Coq Require Import List Arith ZArith QArith Bool Ring_theory Setoid.
Import ListNotations.
Require Import Base.C09_Poly Base.C09_PolyQ Model.C09_Elem Proofs.C09_ElemProofs Proofs.C09_ChainProofs.
Require Import Proofs.C09_PiolaProofs.
Require Import Gen.C09_Elements Gen.C09_T2 Dyn.C09Pull Dyn.C09Mapped.
From Coq Require Reals.
From Coquelicot Require Import Hierarchy Derive.
Require Import Base.C09_PolyReal Dyn.C09Real.

(* For every translated element class, every local basis function and EVERY point of EVERY commutative ring R
   that receives Q by a ring morphism (so: every rational point, every real point): each delivered
   gradient component is the formal partial derivative of the delivered value; div = sum_k d_k phi_k;
   curl = d_0 phi_1 - d_1 phi_0 (2-D) resp. the three components of the vector curl (3-D).
   (pderiv is the formal derivative: additive, Leibniz, d x_i/d x_k = delta_ik — theorems below; it is the
   true derivative in the sense of analysis by C09_deriv_is_derivative_R.) *)
Theorem C09_deriv_is_derivative :
  forall (R : Type) (rO rI : R) (radd rmul rsub : R -> R -> R) (ropp : R -> R) (req : R -> R -> Prop) (phi : Q -> R),
    Equivalence req -> ring_eq_ext radd rmul ropp req -> ring_theory rO rI radd rmul rsub ropp req ->
    ring_morph rO rI radd rmul rsub ropp req 0%Q 1%Q Qplus Qmult Qminus Qopp Qeq_bool phi ->
    forall e, In e all_elements -> forall b, In b (e_basis e) ->
      bfun_spec R rO rI radd rmul ropp req phi (e_dim e) b.
Proof.
  intros R rO rI radd rmul rsub ropp req phi H1 H2 H3 H4 e He.
  apply (deriv_ok_sound R rO rI radd rmul rsub ropp req phi H1 H2 H3 H4).
  exact (proj1 (Forall_forall _ _) all_deriv_ok e He).
Qed.
Print Assumptions C09_deriv_is_derivative.

(* the same at rational points, spelled out for the H1 family (the instance most readers want) *)
Theorem C09_gradient_is_gradient_Q :
  forall e, In e all_elements -> forall p grad, In (BH1 p grad) (e_basis e) ->
    length grad = e_dim e /\
    forall k, (k < e_dim e)%nat -> forall pt, qeval (nthp grad k) pt == qeval (pderiv k p) pt.
Proof.
  intros e He p grad Hb.
  exact (q_deriv_ok_sound e (proj1 (Forall_forall _ _) all_deriv_ok e He) _ Hb).
Qed.
Print Assumptions C09_gradient_is_gradient_Q.

(* nodal duality: for every H1-family class, every local index j the element gives a location x_j (finite
   doflocs row; there is at least one) and EVERY local index i: phi_i (x_j) = delta_ij *)
Theorem C09_nodal_duality : forall e, In e h1_elements -> duality_spec e.
Proof. intros e He. apply duality_ok_sound. exact (proj1 (Forall_forall _ _) h1_dual_ok e He). Qed.
Print Assumptions C09_nodal_duality.

(* partition of unity: the functions attached to located DOFs sum to one at every point of every ring over Q *)
Theorem C09_partition_of_unity :
  forall (R : Type) (rO rI : R) (radd rmul rsub : R -> R -> R) (ropp : R -> R) (req : R -> R -> Prop) (phi : Q -> R),
    Equivalence req -> ring_eq_ext radd rmul ropp req -> ring_theory rO rI radd rmul rsub ropp req ->
    ring_morph rO rI radd rmul rsub ropp req 0%Q 1%Q Qplus Qmult Qminus Qopp Qeq_bool phi ->
    forall e, In e h1_elements -> pou_spec R rO rI radd rmul req phi e.
Proof.
  intros R rO rI radd rmul rsub ropp req phi H1 H2 H3 H4 e He.
  apply (pou_ok_sound R rO rI radd rmul rsub ropp req phi H1 H2 H3 H4).
  exact (proj1 (Forall_forall _ _) h1_pou_ok e He).
Qed.
Print Assumptions C09_partition_of_unity.

(* lowest-order H(div) (facet fluxes, reference normals of refdom) and H(curl) (edge circulations, tangent
   v_b - v_a): (phi_i . c_j) restricted to entity j is the CONSTANT delta_ij * s_j with s_j = +-1, at every
   parameter value of the entity, in every ring over Q *)
Theorem C09_lowest_order_trace_duality :
  forall (R : Type) (rO rI : R) (radd rmul rsub : R -> R -> R) (ropp : R -> R) (req : R -> R -> Prop) (phi : Q -> R),
    Equivalence req -> ring_eq_ext radd rmul ropp req -> ring_theory rO rI radd rmul rsub ropp req ->
    ring_morph rO rI radd rmul rsub ropp req 0%Q 1%Q Qplus Qmult Qminus Qopp Qeq_bool phi ->
    forall e cube n signs fs, In (e, (cube, n, signs, fs)) lowest_order_elements ->
      trace_duality_spec R rO rI radd rmul req phi signs fs (e_basis e).
Proof.
  intros R rO rI radd rmul rsub ropp req phi H1 H2 H3 H4 e cube n signs fs He.
  apply (trace_duality_sound R rO rI radd rmul rsub ropp req phi H1 H2 H3 H4).
  exact (proj1 (Forall_forall _ _) lowest_tdual_ok _ He).
Qed.
Print Assumptions C09_lowest_order_trace_duality.

(* integral form: L_j (phi_i) = int_{entity j} phi_i . c_j = delta_ij * s_j * |reference parameter domain|
   (pint: exact integration of the normal form, Dirichlet's formula on simplices / product formula on cubes) *)
Theorem C09_lowest_order_functional_duality :
  forall e cube n signs fs, In (e, (cube, n, signs, fs)) lowest_order_elements ->
    functional_duality_spec cube n signs fs (e_basis e).
Proof.
  intros e cube n signs fs He. apply functional_duality_sound.
  exact (proj1 (Forall_forall _ _) lowest_fdual_ok _ He).
Qed.
Print Assumptions C09_lowest_order_functional_duality.

(* ElementGlobal family: every entry of the monomial derivative tables (_pbasis[diff], diff = d ++ [k]) is the
   k-th partial derivative of the entry _pbasis[d] — gradient, Hessian and all higher tables the class asks for *)
Theorem C09_global_derivative_tables :
  forall (R : Type) (rO rI : R) (radd rmul rsub : R -> R -> R) (ropp : R -> R) (req : R -> R -> Prop) (phi : Q -> R),
    Equivalence req -> ring_eq_ext radd rmul ropp req -> ring_theory rO rI radd rmul rsub ropp req ->
    ring_morph rO rI radd rmul rsub ropp req 0%Q 1%Q Qplus Qmult Qminus Qopp Qeq_bool phi ->
    forall nm t, In (nm, t) global_tables -> dtable_spec R rO rI radd rmul req phi t.
Proof.
  intros R rO rI radd rmul rsub ropp req phi H1 H2 H3 H4 nm t He.
  apply (dtable_ok_sound R rO rI radd rmul rsub ropp req phi H1 H2 H3 H4).
  exact (proj1 (Forall_forall _ _) global_tables_ok _ He).
Qed.
Print Assumptions C09_global_derivative_tables.

(* ElementGlobal family, the defining functionals: the REAL gdof of every class, run on symbolic vertices / recorders,
   is per local DOF exactly the functional its dofname denotes (value, the partial derivative with that multi-index,
   normal derivative at that edge) at the canonical location of the entity the DOF layout attaches it to (the vertex,
   the mean of the facet's vertices, the mean of all vertices), and that location is the doflocs row.  The basis is
   V^-1 of the matrix of these functionals on the monomials (numerical inverse: duality itself is oracle-checked). *)
Theorem C09_global_functionals_as_named : forall g, In g global_functionals -> gdof_spec g.
Proof. intros g Hg. apply gdof_ok_sound. exact (proj1 (Forall_forall _ _) global_gdof_ok g Hg). Qed.
Print Assumptions C09_global_functionals_as_named.

(* pderiv IS the formal derivative: additive, Leibniz, variables, constants (any ring over Q) *)
Theorem C09_pderiv_is_formal_derivative :
  forall (R : Type) (rO rI : R) (radd rmul rsub : R -> R -> R) (ropp : R -> R) (req : R -> R -> Prop) (phi : Q -> R),
    Equivalence req -> ring_eq_ext radd rmul ropp req -> ring_theory rO rI radd rmul rsub ropp req ->
    ring_morph rO rI radd rmul rsub ropp req 0%Q 1%Q Qplus Qmult Qminus Qopp Qeq_bool phi ->
    let ev := peval R rO rI radd rmul phi in
    (forall k p q pt, req (ev (pderiv k (padd p q)) pt) (radd (ev (pderiv k p) pt) (ev (pderiv k q) pt))) /\
    (forall k p q pt, req (ev (pderiv k (pmul p q)) pt)
                          (radd (rmul (ev (pderiv k p) pt) (ev q pt)) (rmul (ev p pt) (ev (pderiv k q) pt)))) /\
    (forall k i pt, req (ev (pderiv k (pvar i)) pt) (if Nat.eqb i k then rI else rO)) /\
    (forall k c pt, req (ev (pderiv k (pconst c)) pt) rO) /\
    (forall i pt, req (ev (pvar i) pt) (pt i)) /\
    (forall p q pt, req (ev (pmul p q) pt) (rmul (ev p pt) (ev q pt))) /\
    (forall p q pt, req (ev (padd p q) pt) (radd (ev p pt) (ev q pt))).
Proof.
  intros R rO rI radd rmul rsub ropp req phi H1 H2 H3 H4 ev. unfold ev.
  repeat split; intros.
  - apply (peval_pderiv_padd R rO rI radd rmul rsub ropp req phi H1 H2 H3).
  - apply (peval_pderiv_pmul R rO rI radd rmul rsub ropp req phi H1 H2 H3 H4).
  - apply (peval_pderiv_pvar R rO rI radd rmul rsub ropp req phi H1 H2 H3 H4).
  - apply (peval_pderiv_pconst R rO rI radd rmul req phi H1).
  - apply (peval_pvar R rO rI radd rmul rsub ropp req phi H1 H2 H3 H4).
  - apply (peval_pmul R rO rI radd rmul rsub ropp req phi H1 H2 H3 H4).
  - apply (peval_padd R rO rI radd rmul rsub ropp req phi H1 H2 H3).
Qed.
Print Assumptions C09_pderiv_is_formal_derivative.

(* ---- integrated-Legendre family ElementLinePp(p), ElementQuadP(p), p = 1..5 (bound: the list legendre_elements) ----
   The real lbasis and _reval_legendre are executed symbolically; the scale sqrt((2n-1)/2) of mode n is kept as a FORMAL
   indeterminate c_n (extra polynomial variable), so every identity below holds for every value of the scales, in
   particular the real ones; NumPy's float coefficients of Legendre(c).integ() (round-off ~1e-17) are snapped to the
   rational within 4e-16, so the statements are about the ideal coefficients and this family's tie to the source is
   the tolerance correspondence (1e-9) run by the check, not exact evaluation. *)
Theorem C09_legendre_deriv_is_derivative :
  forall (R : Type) (rO rI : R) (radd rmul rsub : R -> R -> R) (ropp : R -> R) (req : R -> R -> Prop) (phi : Q -> R),
    Equivalence req -> ring_eq_ext radd rmul ropp req -> ring_theory rO rI radd rmul rsub ropp req ->
    ring_morph rO rI radd rmul rsub ropp req 0%Q 1%Q Qplus Qmult Qminus Qopp Qeq_bool phi ->
    forall e, In e legendre_elements -> forall b, In b (e_basis e) ->
      bfun_spec R rO rI radd rmul ropp req phi (e_dim e) b.
Proof.
  intros R rO rI radd rmul rsub ropp req phi H1 H2 H3 H4 e He.
  apply (deriv_ok_sound R rO rI radd rmul rsub ropp req phi H1 H2 H3 H4).
  exact (proj1 (Forall_forall _ _) legendre_deriv_ok e He).
Qed.
Print Assumptions C09_legendre_deriv_is_derivative.

(* endpoint / vertex values: every basis function (vertex functions AND all integrated-Legendre modes) takes the value
   delta_ij at every located DOF (the endpoints resp. the four vertices), for EVERY value of the scales *)
Theorem C09_legendre_vertex_values :
  forall (R : Type) (rO rI : R) (radd rmul rsub : R -> R -> R) (ropp : R -> R) (req : R -> R -> Prop) (phi : Q -> R),
    Equivalence req -> ring_eq_ext radd rmul ropp req -> ring_theory rO rI radd rmul rsub ropp req ->
    ring_morph rO rI radd rmul rsub ropp req 0%Q 1%Q Qplus Qmult Qminus Qopp Qeq_bool phi ->
    forall e, In e legendre_elements -> duality_param_spec R rO rI radd rmul req phi e.
Proof.
  intros R rO rI radd rmul rsub ropp req phi H1 H2 H3 H4 e He.
  apply (duality_param_ok_sound R rO rI radd rmul rsub ropp req phi H1 H2 H3 H4).
  exact (proj1 (Forall_forall _ _) legendre_dual_ok e He).
Qed.
Print Assumptions C09_legendre_vertex_values.

Theorem C09_legendre_partition_of_unity :
  forall (R : Type) (rO rI : R) (radd rmul rsub : R -> R -> R) (ropp : R -> R) (req : R -> R -> Prop) (phi : Q -> R),
    Equivalence req -> ring_eq_ext radd rmul ropp req -> ring_theory rO rI radd rmul rsub ropp req ->
    ring_morph rO rI radd rmul rsub ropp req 0%Q 1%Q Qplus Qmult Qminus Qopp Qeq_bool phi ->
    forall e, In e legendre_elements -> pou_spec R rO rI radd rmul req phi e.
Proof.
  intros R rO rI radd rmul rsub ropp req phi H1 H2 H3 H4 e He.
  apply (pou_ok_sound R rO rI radd rmul rsub ropp req phi H1 H2 H3 H4).
  exact (proj1 (Forall_forall _ _) legendre_pou_ok e He).
Qed.
Print Assumptions C09_legendre_partition_of_unity.

(* ElementTriBDM1: polynomials in x, y and the indeterminate s standing for sqrt 3 (the real lbasis run with the module
   constants s_1, s_2 = 1/2 -+ s/6 re-evaluated from the source and arithmetic in Q(s)/(s^2 - 3); every emitted
   coefficient has degree <= 1 in s, so the identity below is a polynomial identity in (x, y, s) and holds in particular
   at s = sqrt 3).  Tie: tolerance correspondence with the numerical lbasis at s = sqrt 3. *)
Theorem C09_bdm1_div_is_divergence :
  forall (R : Type) (rO rI : R) (radd rmul rsub : R -> R -> R) (ropp : R -> R) (req : R -> R -> Prop) (phi : Q -> R),
    Equivalence req -> ring_eq_ext radd rmul ropp req -> ring_theory rO rI radd rmul rsub ropp req ->
    ring_morph rO rI radd rmul rsub ropp req 0%Q 1%Q Qplus Qmult Qminus Qopp Qeq_bool phi ->
    forall e, In e sqrt3_elements -> forall b, In b (e_basis e) ->
      bfun_spec R rO rI radd rmul ropp req phi (e_dim e) b.
Proof.
  intros R rO rI radd rmul rsub ropp req phi H1 H2 H3 H4 e He.
  apply (deriv_ok_sound R rO rI radd rmul rsub ropp req phi H1 H2 H3 H4).
  exact (proj1 (Forall_forall _ _) sqrt3_deriv_ok e He).
Qed.
Print Assumptions C09_bdm1_div_is_divergence.

(* ---- mapped derivatives (any non-degenerate affine cell) ---- *)

(* chain rule, for EVERY polynomial p in at most n variables, every affine map F(x) = b + A x of a d-dimensional
   space and every k < d:  d/dx_k (p o F) = sum_j A_jk (d_j p) o F   — in every commutative ring over Q *)
Theorem C09_chain_rule_affine :
  forall (R : Type) (rO rI : R) (radd rmul rsub : R -> R -> R) (ropp : R -> R) (req : R -> R -> Prop) (phi : Q -> R),
    Equivalence req -> ring_eq_ext radd rmul ropp req -> ring_theory rO rI radd rmul rsub ropp req ->
    ring_morph rO rI radd rmul rsub ropp req 0%Q 1%Q Qplus Qmult Qminus Qopp Qeq_bool phi ->
    forall (A : nat -> nat -> Q) (b : nat -> Q) (d : nat) (p : poly) (n k : nat) (pt : nat -> R),
      (k < d)%nat -> mono_len_le n p ->
      req (peval R rO rI radd rmul phi (pderiv k (psubst (aff_map A b d) p)) pt)
          (sumn R rO radd (fun j => rmul (phi (A j k))
                                         (peval R rO rI radd rmul phi (pderiv j p) (image R rO rI radd rmul phi A b d pt))) n).
Proof. exact chain_rule_affine. Qed.
Print Assumptions C09_chain_rule_affine.

(* H1 family on an affine cell with inverse map G(x) = c + B x (B = invDF): the gradient field gbasis delivers,
   i.e. the REGENERATED contraction einsum('ijkl,il->jkl', invDF, dphi) applied to the DELIVERED local gradient at
   the reference point G(x), is the gradient of the delivered value phi o G — for every translated class,
   every basis function, every B, c and every rational point x (2-D, 3-D, 1-D) *)
Theorem C09_h1_mapped_gradient_2d :
  forall e, In e all_elements -> e_dim e = 2%nat -> forall p grad, In (BH1 p grad) (e_basis e) ->
  forall (B : nat -> nat -> Q) (c x : nat -> Q) (j : nat), (j < 2)%nat ->
    qeval (pderiv j (psubst (aff_map B c 2) p)) x == gen_h1_grad2 B (fun i => qeval (nthp grad i) (qimage B c 2 x)) j.
Proof. exact h1_mapped_gradient2. Qed.
Print Assumptions C09_h1_mapped_gradient_2d.

Theorem C09_h1_mapped_gradient_3d :
  forall e, In e all_elements -> e_dim e = 3%nat -> forall p grad, In (BH1 p grad) (e_basis e) ->
  forall (B : nat -> nat -> Q) (c x : nat -> Q) (j : nat), (j < 3)%nat ->
    qeval (pderiv j (psubst (aff_map B c 3) p)) x == gen_h1_grad3 B (fun i => qeval (nthp grad i) (qimage B c 3 x)) j.
Proof. exact h1_mapped_gradient3. Qed.
Print Assumptions C09_h1_mapped_gradient_3d.

Theorem C09_h1_mapped_gradient_1d :
  forall e, In e all_elements -> e_dim e = 1%nat -> forall p grad, In (BH1 p grad) (e_basis e) ->
  forall (B : nat -> nat -> Q) (c x : nat -> Q),
    qeval (pderiv 0 (psubst (aff_map B c 1) p)) x == gen_h1_grad1 B (fun i => qeval (nthp grad i) (qimage B c 1 x)) 0%nat.
Proof. exact h1_mapped_gradient1. Qed.
Print Assumptions C09_h1_mapped_gradient_1d.

(* H(div), 2-D elements: divergence of the contravariant Piola value (regenerated einsum and scale) = delivered div *)
Theorem C09_hdiv_mapped_divergence_2d :
  forall e, In e all_elements -> e_dim e = 2%nat -> forall v dv, In (BHdiv v dv) (e_basis e) ->
  forall (A B : nat -> nat -> Q) (c x : nat -> Q) (absdet orient : Q),
    orient * orient == 1 -> ~ absdet == 0 ->
    B 0%nat 0%nat * A 0%nat 0%nat + B 0%nat 1%nat * A 1%nat 0%nat == 1 -> B 0%nat 0%nat * A 0%nat 1%nat + B 0%nat 1%nat * A 1%nat 1%nat == 0 ->
    B 1%nat 0%nat * A 0%nat 0%nat + B 1%nat 1%nat * A 1%nat 0%nat == 0 -> B 1%nat 0%nat * A 0%nat 1%nat + B 1%nat 1%nat * A 1%nat 1%nat == 1 ->
    let s := gen_hdiv_scale absdet orient in
    let val := piola_value2 A s (aff_map B c 2) (nthp v 0) (nthp v 1) in
    qeval (pderiv 0 (val 0%nat)) x + qeval (pderiv 1 (val 1%nat)) x == gen_hdiv_div (qeval dv (qimage B c 2 x)) absdet orient.
Proof. exact hdiv_mapped_divergence2. Qed.
Print Assumptions C09_hdiv_mapped_divergence_2d.

(* the polynomial piola_value2 IS the regenerated einsum('ijkl,jl,kl->ikl', DF, phi, scale) of the delivered values *)
Theorem C09_piola_value_is_generated_einsum :
  forall A s B c f0 f1 i x,
    qeval (piola_value2 A s (aff_map B c 2) f0 f1 i) x
    == gen_hdiv_value2 A (fun j => qeval (nth j [f0; f1] []) (qimage B c 2 x)) s i.
Proof. exact piola_value2_is_generated. Qed.
Print Assumptions C09_piola_value_is_generated_einsum.

(* H(div), 3-D elements, per class (ElementTetRT1, ElementHexRT1 on affine cells) *)
Theorem C09_hdiv_mapped_divergence_3d :
  forall e, In e all_elements -> e_dim e = 3%nat ->
  forall v dv, In (BHdiv v dv) (e_basis e) ->
  forall (A B : nat -> nat -> Q) (c x : nat -> Q) (absdet orient : Q),
    orient * orient == 1 -> ~ absdet == 0 ->
    B 0%nat 0%nat * A 0%nat 0%nat + B 0%nat 1%nat * A 1%nat 0%nat + B 0%nat 2%nat * A 2%nat 0%nat == 1 ->
    B 0%nat 0%nat * A 0%nat 1%nat + B 0%nat 1%nat * A 1%nat 1%nat + B 0%nat 2%nat * A 2%nat 1%nat == 0 ->
    B 0%nat 0%nat * A 0%nat 2%nat + B 0%nat 1%nat * A 1%nat 2%nat + B 0%nat 2%nat * A 2%nat 2%nat == 0 ->
    B 1%nat 0%nat * A 0%nat 0%nat + B 1%nat 1%nat * A 1%nat 0%nat + B 1%nat 2%nat * A 2%nat 0%nat == 0 ->
    B 1%nat 0%nat * A 0%nat 1%nat + B 1%nat 1%nat * A 1%nat 1%nat + B 1%nat 2%nat * A 2%nat 1%nat == 1 ->
    B 1%nat 0%nat * A 0%nat 2%nat + B 1%nat 1%nat * A 1%nat 2%nat + B 1%nat 2%nat * A 2%nat 2%nat == 0 ->
    B 2%nat 0%nat * A 0%nat 0%nat + B 2%nat 1%nat * A 1%nat 0%nat + B 2%nat 2%nat * A 2%nat 0%nat == 0 ->
    B 2%nat 0%nat * A 0%nat 1%nat + B 2%nat 1%nat * A 1%nat 1%nat + B 2%nat 2%nat * A 2%nat 1%nat == 0 ->
    B 2%nat 0%nat * A 0%nat 2%nat + B 2%nat 1%nat * A 1%nat 2%nat + B 2%nat 2%nat * A 2%nat 2%nat == 1 ->
    let s := gen_hdiv_scale absdet orient in
    let val := piola_value3 A s (aff_map B c 3) (nthp v 0) (nthp v 1) (nthp v 2) in
    qeval (pderiv 0 (val 0%nat)) x + qeval (pderiv 1 (val 1%nat)) x + qeval (pderiv 2 (val 2%nat)) x
    == gen_hdiv_div (qeval dv (qimage B c 3 x)) absdet orient.
Proof. exact hdiv_mapped_divergence3. Qed.
Print Assumptions C09_hdiv_mapped_divergence_3d.

(* H(div) 3-D and H(curl) 2-D, for ALL polynomial fields: div (A f o G s) = s (div f) o G when B A = I;
   curl (B^T f o G o) = o det(B) (curl f) o G; and the delivered scalings agree with them *)
Theorem C09_hdiv_piola_div_3d :
  forall (A B : nat -> nat -> Q) (c : nat -> Q) (s : Q) (f0 f1 f2 : poly) (x : nat -> Q),
  mono_len_le 3 f0 -> mono_len_le 3 f1 -> mono_len_le 3 f2 ->
  B 0%nat 0%nat * A 0%nat 0%nat + B 0%nat 1%nat * A 1%nat 0%nat + B 0%nat 2%nat * A 2%nat 0%nat == 1 ->
  B 0%nat 0%nat * A 0%nat 1%nat + B 0%nat 1%nat * A 1%nat 1%nat + B 0%nat 2%nat * A 2%nat 1%nat == 0 ->
  B 0%nat 0%nat * A 0%nat 2%nat + B 0%nat 1%nat * A 1%nat 2%nat + B 0%nat 2%nat * A 2%nat 2%nat == 0 ->
  B 1%nat 0%nat * A 0%nat 0%nat + B 1%nat 1%nat * A 1%nat 0%nat + B 1%nat 2%nat * A 2%nat 0%nat == 0 ->
  B 1%nat 0%nat * A 0%nat 1%nat + B 1%nat 1%nat * A 1%nat 1%nat + B 1%nat 2%nat * A 2%nat 1%nat == 1 ->
  B 1%nat 0%nat * A 0%nat 2%nat + B 1%nat 1%nat * A 1%nat 2%nat + B 1%nat 2%nat * A 2%nat 2%nat == 0 ->
  B 2%nat 0%nat * A 0%nat 0%nat + B 2%nat 1%nat * A 1%nat 0%nat + B 2%nat 2%nat * A 2%nat 0%nat == 0 ->
  B 2%nat 0%nat * A 0%nat 1%nat + B 2%nat 1%nat * A 1%nat 1%nat + B 2%nat 2%nat * A 2%nat 1%nat == 0 ->
  B 2%nat 0%nat * A 0%nat 2%nat + B 2%nat 1%nat * A 1%nat 2%nat + B 2%nat 2%nat * A 2%nat 2%nat == 1 ->
  qeval (pderiv 0 (piola_value3 A s (aff_map B c 3) f0 f1 f2 0)) x
  + qeval (pderiv 1 (piola_value3 A s (aff_map B c 3) f0 f1 f2 1)) x
  + qeval (pderiv 2 (piola_value3 A s (aff_map B c 3) f0 f1 f2 2)) x
  == s * (qeval (pderiv 0 f0) (qimage B c 3 x) + qeval (pderiv 1 f1) (qimage B c 3 x) + qeval (pderiv 2 f2) (qimage B c 3 x)).
Proof. exact hdiv_piola_div3. Qed.
Print Assumptions C09_hdiv_piola_div_3d.

Theorem C09_hcurl_covariant_curl_2d :
  (forall (B : nat -> nat -> Q) (c : nat -> Q) (o : Q) (f0 f1 : poly) (x : nat -> Q),
    mono_len_le 2 f0 -> mono_len_le 2 f1 ->
    qeval (pderiv 0 (cov_value2 B o (aff_map B c 2) f0 f1 1)) x - qeval (pderiv 1 (cov_value2 B o (aff_map B c 2) f0 f1 0)) x
    == o * (B 0%nat 0%nat * B 1%nat 1%nat - B 0%nat 1%nat * B 1%nat 0%nat)
         * (qeval (pderiv 0 f1) (qimage B c 2 x) - qeval (pderiv 1 f0) (qimage B c 2 x))) /\
  (forall dphi detDF orient detB : Q, detDF * detB == 1 -> gen_hcurl_curl2 dphi detDF orient == orient * detB * dphi) /\
  (forall B o c f0 f1 j x,
    qeval (cov_value2 B o (aff_map B c 2) f0 f1 j) x
    == gen_hcurl_value2 B (fun i => qeval (nth i [f0; f1] []) (qimage B c 2 x)) o j).
Proof. split; [exact hcurl_cov_curl2 | split; [exact hcurl_curl2_scale | exact cov_value2_is_generated]]. Qed.
Print Assumptions C09_hcurl_covariant_curl_2d.
(* H(curl), 3-D, for ALL polynomial fields: the three components of curl (B^T (f o G) o) equal o det(B) A (curl f) o G,
   A the inverse of B given by the cofactor relations (row_m(B) x row_i(B))_a = det(B) A_(a,l), (m,i,l) cyclic;
   the delivered curl (regenerated einsum with DF = A and scale 1/detDF * orient, detDF det(B) = 1) is that expression;
   cov_value3 is the regenerated einsum('ijkl,il,k->jkl', invDF, phi, orient) of the delivered values *)
Theorem C09_hcurl_covariant_curl_3d :
  (forall (A B : nat -> nat -> Q) (c : nat -> Q) (o detB : Q) (f0 f1 f2 : poly) (x : nat -> Q),
    mono_len_le 3 f0 -> mono_len_le 3 f1 -> mono_len_le 3 f2 ->
    B 1%nat 1%nat * B 2%nat 2%nat - B 1%nat 2%nat * B 2%nat 1%nat == detB * A 0%nat 0%nat ->
    B 2%nat 1%nat * B 0%nat 2%nat - B 2%nat 2%nat * B 0%nat 1%nat == detB * A 0%nat 1%nat ->
    B 0%nat 1%nat * B 1%nat 2%nat - B 0%nat 2%nat * B 1%nat 1%nat == detB * A 0%nat 2%nat ->
    qeval (pderiv 1 (cov_value3 B o (aff_map B c 3) f0 f1 f2 2)) x - qeval (pderiv 2 (cov_value3 B o (aff_map B c 3) f0 f1 f2 1)) x
    == o * detB * (A 0%nat 0%nat * curl_comp f0 f1 f2 0 (qimage B c 3 x) + A 0%nat 1%nat * curl_comp f0 f1 f2 1 (qimage B c 3 x)
                   + A 0%nat 2%nat * curl_comp f0 f1 f2 2 (qimage B c 3 x))) /\
  (forall (A B : nat -> nat -> Q) (c : nat -> Q) (o detB : Q) (f0 f1 f2 : poly) (x : nat -> Q),
    mono_len_le 3 f0 -> mono_len_le 3 f1 -> mono_len_le 3 f2 ->
    B 1%nat 2%nat * B 2%nat 0%nat - B 1%nat 0%nat * B 2%nat 2%nat == detB * A 1%nat 0%nat ->
    B 2%nat 2%nat * B 0%nat 0%nat - B 2%nat 0%nat * B 0%nat 2%nat == detB * A 1%nat 1%nat ->
    B 0%nat 2%nat * B 1%nat 0%nat - B 0%nat 0%nat * B 1%nat 2%nat == detB * A 1%nat 2%nat ->
    qeval (pderiv 2 (cov_value3 B o (aff_map B c 3) f0 f1 f2 0)) x - qeval (pderiv 0 (cov_value3 B o (aff_map B c 3) f0 f1 f2 2)) x
    == o * detB * (A 1%nat 0%nat * curl_comp f0 f1 f2 0 (qimage B c 3 x) + A 1%nat 1%nat * curl_comp f0 f1 f2 1 (qimage B c 3 x)
                   + A 1%nat 2%nat * curl_comp f0 f1 f2 2 (qimage B c 3 x))) /\
  (forall (A B : nat -> nat -> Q) (c : nat -> Q) (o detB : Q) (f0 f1 f2 : poly) (x : nat -> Q),
    mono_len_le 3 f0 -> mono_len_le 3 f1 -> mono_len_le 3 f2 ->
    B 1%nat 0%nat * B 2%nat 1%nat - B 1%nat 1%nat * B 2%nat 0%nat == detB * A 2%nat 0%nat ->
    B 2%nat 0%nat * B 0%nat 1%nat - B 2%nat 1%nat * B 0%nat 0%nat == detB * A 2%nat 1%nat ->
    B 0%nat 0%nat * B 1%nat 1%nat - B 0%nat 1%nat * B 1%nat 0%nat == detB * A 2%nat 2%nat ->
    qeval (pderiv 0 (cov_value3 B o (aff_map B c 3) f0 f1 f2 1)) x - qeval (pderiv 1 (cov_value3 B o (aff_map B c 3) f0 f1 f2 0)) x
    == o * detB * (A 2%nat 0%nat * curl_comp f0 f1 f2 0 (qimage B c 3 x) + A 2%nat 1%nat * curl_comp f0 f1 f2 1 (qimage B c 3 x)
                   + A 2%nat 2%nat * curl_comp f0 f1 f2 2 (qimage B c 3 x))) /\
  (forall (A : nat -> nat -> Q) (dphi : nat -> Q) (detDF orient detB : Q) (i : nat), detDF * detB == 1 ->
    gen_hcurl_curl3 A dphi (gen_hcurl_scale detDF orient) i
    == orient * detB * (A i 0%nat * dphi 0%nat + A i 1%nat * dphi 1%nat + A i 2%nat * dphi 2%nat)) /\
  (forall B o c f0 f1 f2 j x,
    qeval (cov_value3 B o (aff_map B c 3) f0 f1 f2 j) x
    == gen_hcurl_value3 B (fun i => qeval (nth i [f0; f1; f2] []) (qimage B c 3 x)) o j).
Proof.
  split; [exact hcurl_cov_curl3_0|]. split; [exact hcurl_cov_curl3_1|]. split; [exact hcurl_cov_curl3_2|].
  split; [exact hcurl_curl3_scale | exact cov_value3_is_generated].
Qed.
Print Assumptions C09_hcurl_covariant_curl_3d.
(* not proved (oracle only): the 3-D covariant curl on general cells *)

(* ---- general cells (multilinear quadrilaterals / hexahedra, curved second-order cells): per class, at every rational
   reference point X where the delivered Jacobian J is invertible with B = invDF, B J = I: the delivered global gradient
   g = einsum('ijkl,il->jkl', invDF, dphi) (regenerated) satisfies  J^T g = grad_ref phi (X), the TRUE reference gradient
   of the delivered value.  Since the delivered J is the derivative of the cell map F as polynomials
   (props/C10.v: C10_iso_J_is_derivative_of_F) and invDF J = I on it where det <> 0 (C10_iso_inverse_of_delivered_J), this
   is exactly the chain rule for phi = u o F, i.e. g is the gradient of u = phi o F^-1 — stated without the inverse map. ---- *)
Theorem C09_h1_gradient_general_cell_2d :
  forall e, In e all_elements -> e_dim e = 2%nat ->
  forall p grad, In (BH1 p grad) (e_basis e) ->
  forall (J B : nat -> nat -> Q) (X : nat -> Q),
    B 0%nat 0%nat * J 0%nat 0%nat + B 0%nat 1%nat * J 1%nat 0%nat == 1 ->
    B 0%nat 0%nat * J 0%nat 1%nat + B 0%nat 1%nat * J 1%nat 1%nat == 0 ->
    B 1%nat 0%nat * J 0%nat 0%nat + B 1%nat 1%nat * J 1%nat 0%nat == 0 ->
    B 1%nat 0%nat * J 0%nat 1%nat + B 1%nat 1%nat * J 1%nat 1%nat == 1 ->
    forall k, (k < 2)%nat ->
      J 0%nat k * gen_h1_grad2 B (fun i => qeval (nthp grad i) X) 0%nat + J 1%nat k * gen_h1_grad2 B (fun i => qeval (nthp grad i) X) 1%nat
      == qeval (pderiv k p) X.
Proof. exact h1_general_cell_gradient2. Qed.
Print Assumptions C09_h1_gradient_general_cell_2d.

Theorem C09_h1_gradient_general_cell_3d :
  forall e, In e all_elements -> e_dim e = 3%nat ->
  forall p grad, In (BH1 p grad) (e_basis e) ->
  forall (J B : nat -> nat -> Q) (X : nat -> Q),
    B 0%nat 0%nat * J 0%nat 0%nat + B 0%nat 1%nat * J 1%nat 0%nat + B 0%nat 2%nat * J 2%nat 0%nat == 1 ->
    B 0%nat 0%nat * J 0%nat 1%nat + B 0%nat 1%nat * J 1%nat 1%nat + B 0%nat 2%nat * J 2%nat 1%nat == 0 ->
    B 0%nat 0%nat * J 0%nat 2%nat + B 0%nat 1%nat * J 1%nat 2%nat + B 0%nat 2%nat * J 2%nat 2%nat == 0 ->
    B 1%nat 0%nat * J 0%nat 0%nat + B 1%nat 1%nat * J 1%nat 0%nat + B 1%nat 2%nat * J 2%nat 0%nat == 0 ->
    B 1%nat 0%nat * J 0%nat 1%nat + B 1%nat 1%nat * J 1%nat 1%nat + B 1%nat 2%nat * J 2%nat 1%nat == 1 ->
    B 1%nat 0%nat * J 0%nat 2%nat + B 1%nat 1%nat * J 1%nat 2%nat + B 1%nat 2%nat * J 2%nat 2%nat == 0 ->
    B 2%nat 0%nat * J 0%nat 0%nat + B 2%nat 1%nat * J 1%nat 0%nat + B 2%nat 2%nat * J 2%nat 0%nat == 0 ->
    B 2%nat 0%nat * J 0%nat 1%nat + B 2%nat 1%nat * J 1%nat 1%nat + B 2%nat 2%nat * J 2%nat 1%nat == 0 ->
    B 2%nat 0%nat * J 0%nat 2%nat + B 2%nat 1%nat * J 1%nat 2%nat + B 2%nat 2%nat * J 2%nat 2%nat == 1 ->
    forall k, (k < 3)%nat ->
      J 0%nat k * gen_h1_grad3 B (fun i => qeval (nthp grad i) X) 0%nat + J 1%nat k * gen_h1_grad3 B (fun i => qeval (nthp grad i) X) 1%nat + J 2%nat k * gen_h1_grad3 B (fun i => qeval (nthp grad i) X) 2%nat
      == qeval (pderiv k p) X.
Proof. exact h1_general_cell_gradient3. Qed.
Print Assumptions C09_h1_gradient_general_cell_3d.

(* ---- Piola maps on GENERAL cells (multilinear quadrilaterals / hexahedra, curved cells), pointwise and in reference
   quantities only (no inverse map).  At a reference point X: J = DF, H i j k (j <= k) = d_k J_ij = d_j J_ik the symmetric
   second derivatives of the cell map (C10_iso_J_is_derivative_of_F: the delivered J is the derivative of the polynomial
   map F, so its derivative is symmetric; Piola identity of the generated maps below).  For a field given in reference
   coordinates the chain rule d_k V_i = sum_j G_ij J_jk gives the global Jacobian G = (dV) adj(J) / det.
   Contravariant map, W = J phi = det * (J phi / det):  det^3 * div_global (J phi / det) = piola_div_lhs J H phi dphi.
   Per class, every rational X, every J and H:  that expression is det^2 * (delivered reference div at X), i.e.
   div_global of the delivered value = dphi / det — the formula gbasis delivers (with |det| orient, theorem hdiv_div_scale). ---- *)
Theorem C09_hdiv_general_cell_divergence :
  (forall e, In e all_elements -> e_dim e = 2%nat -> forall v dv, In (BHdiv v dv) (e_basis e) ->
   forall (J : nat -> nat -> Q) (H : nat -> nat -> nat -> Q) (X : nat -> Q),
     piola_div_lhs2 J H (fun j => qeval (nthp v j) X) (fun j k => qeval (pderiv k (nthp v j)) X) == det2 J * det2 J * qeval dv X) /\
  (forall e, In e all_elements -> e_dim e = 3%nat -> forall v dv, In (BHdiv v dv) (e_basis e) ->
   forall (J : nat -> nat -> Q) (H : nat -> nat -> nat -> Q) (X : nat -> Q),
     piola_div_lhs3 J H (fun j => qeval (nthp v j) X) (fun j k => qeval (pderiv k (nthp v j)) X) == det3 J * det3 J * qeval dv X).
Proof. split; [exact hdiv_general_cell_divergence2 | exact hdiv_general_cell_divergence3]. Qed.
Print Assumptions C09_hdiv_general_cell_divergence.

(* covariant map, 2-D H(curl) classes: U = adj(J)^T phi = det * J^-T phi; det^3 * curl_global (J^-T phi) = piola_curl_lhs2 =
   det^2 * (delivered reference curl): curl_global of the delivered value = dphi / det *)
Theorem C09_hcurl_general_cell_curl_2d :
  forall e, In e all_elements -> forall v cl, In (BHcurl2 v cl) (e_basis e) ->
  forall (J : nat -> nat -> Q) (H : nat -> nat -> nat -> Q) (X : nat -> Q),
    piola_curl_lhs2 J H (fun j => qeval (nthp v j) X) (fun j k => qeval (pderiv k (nthp v j)) X) == det2 J * det2 J * qeval cl X.
Proof. exact hcurl_general_cell_curl2. Qed.
Print Assumptions C09_hcurl_general_cell_curl_2d.

(* the multilinear cell maps F_j = sum_n node(n,j) phi_n built from the DELIVERED ElementQuad1 / ElementHex1 basis (node
   coordinates as further polynomial variables) satisfy the Piola identity sum_k d_k adj(DF)_(k,i) = 0 at every point and
   for every position of the nodes (in every ring over Q) *)
Theorem C09_cell_maps_piola_identity :
  forall (R : Type) (rO rI : R) (radd rmul rsub : R -> R -> R) (ropp : R -> R) (req : R -> R -> Prop) (phi : Q -> R),
    Equivalence req -> ring_eq_ext radd rmul ropp req -> ring_theory rO rI radd rmul rsub ropp req ->
    ring_morph rO rI radd rmul rsub ropp req 0%Q 1%Q Qplus Qmult Qminus Qopp Qeq_bool phi ->
    forall d F, In (d, F) cell_maps -> piola_identity_spec R rO rI radd rmul req phi d F.
Proof.
  intros R rO rI radd rmul rsub ropp req phi H1 H2 H3 H4 d F Hin.
  apply (piola_identity_sound R rO rI radd rmul rsub ropp req phi H1 H2 H3 H4).
  exact (proj1 (Forall_forall _ _) cell_maps_piola_ok _ Hin).
Qed.
Print Assumptions C09_cell_maps_piola_identity.

(* matrix Piola map of the Hellan-Herrmann-Johnson elements (ElementMatrix.gbasis, regenerated einsum), affine cells:
   the delivered value is c * J S J^T with c = 1/|det|^2, and its normal-normal component with the covariantly mapped
   normal B^T N (B J = I) is c * N^T S N — for every S, in particular the delivered S(X) of ElementTriHHJ0/1 *)
Theorem C09_matrix_piola_normal_normal :
  forall (J B S : nat -> nat -> Q) (N : nat -> Q) (c : Q),
  B 0%nat 0%nat * J 0%nat 0%nat + B 0%nat 1%nat * J 1%nat 0%nat == 1 ->
  B 0%nat 0%nat * J 0%nat 1%nat + B 0%nat 1%nat * J 1%nat 1%nat == 0 ->
  B 1%nat 0%nat * J 0%nat 0%nat + B 1%nat 1%nat * J 1%nat 0%nat == 0 ->
  B 1%nat 0%nat * J 0%nat 1%nat + B 1%nat 1%nat * J 1%nat 1%nat == 1 ->
  (B 0%nat 0%nat * N 0%nat + B 1%nat 0%nat * N 1%nat) * gen_matrix_value2 J S J c 0%nat 0%nat * (B 0%nat 0%nat * N 0%nat + B 1%nat 0%nat * N 1%nat) + (B 0%nat 0%nat * N 0%nat + B 1%nat 0%nat * N 1%nat) * gen_matrix_value2 J S J c 0%nat 1%nat * (B 0%nat 1%nat * N 0%nat + B 1%nat 1%nat * N 1%nat) + (B 0%nat 1%nat * N 0%nat + B 1%nat 1%nat * N 1%nat) * gen_matrix_value2 J S J c 1%nat 0%nat * (B 0%nat 0%nat * N 0%nat + B 1%nat 0%nat * N 1%nat) + (B 0%nat 1%nat * N 0%nat + B 1%nat 1%nat * N 1%nat) * gen_matrix_value2 J S J c 1%nat 1%nat * (B 0%nat 1%nat * N 0%nat + B 1%nat 1%nat * N 1%nat)
  == c * (N 0%nat * S 0%nat 0%nat * N 0%nat + N 0%nat * S 0%nat 1%nat * N 1%nat + N 1%nat * S 1%nat 0%nat * N 0%nat + N 1%nat * S 1%nat 1%nat * N 1%nat).
Proof. exact matrix_piola_normal_normal2. Qed.
Print Assumptions C09_matrix_piola_normal_normal.

(* ---- the derivative of analysis (Coquelicot): at every REAL point the delivered gradient component is the
   partial derivative of the delivered value; div / curl are sums / differences of such derivatives.
   Assumptions printed below: the classical axioms of the standard library's real numbers, nothing of ours. ---- *)
Theorem C09_deriv_is_derivative_R :
  forall e, In e all_elements -> forall p grad, In (BH1 p grad) (e_basis e) ->
  forall k, (k < e_dim e)%nat -> forall pt : nat -> Rdefinitions.R,
    is_derive (fun t : Rdefinitions.R => reval p (upd pt k t)) (pt k) (reval (nthp grad k) pt).
Proof. exact h1_grad_is_derive. Qed.
Print Assumptions C09_deriv_is_derivative_R.

Theorem C09_div_is_divergence_R :
  forall e, In e all_elements -> forall v dv, In (BHdiv v dv) (e_basis e) ->
  forall pt : nat -> Rdefinitions.R,
    reval dv pt = rsum Rdefinitions.R (Rdefinitions.IZR 0) Rdefinitions.Rplus
                       (fun k => Derive (fun t : Rdefinitions.R => reval (nthp v k) (upd pt k t)) (pt k)) (seq 0 (e_dim e)).
Proof. exact hdiv_div_is_divergence. Qed.
Print Assumptions C09_div_is_divergence_R.

Theorem C09_curl2_is_curl_R :
  forall e, In e all_elements -> forall v cl, In (BHcurl2 v cl) (e_basis e) ->
  forall pt : nat -> Rdefinitions.R,
    reval cl pt = Rdefinitions.Rminus (Derive (fun t : Rdefinitions.R => reval (nthp v 1) (upd pt 0 t)) (pt 0%nat))
                                      (Derive (fun t : Rdefinitions.R => reval (nthp v 0) (upd pt 1 t)) (pt 1%nat)).
Proof. exact hcurl2_curl_is_curl. Qed.
Print Assumptions C09_curl2_is_curl_R.

(* the bridge itself: formal partial derivative = partial derivative, every polynomial, every real point *)
Theorem C09_pderiv_is_derive :
  forall (p : poly) (k : nat) (pt : nat -> Rdefinitions.R),
    is_derive (fun t : Rdefinitions.R => reval p (upd pt k t)) (pt k) (reval (pderiv k p) pt).
Proof. exact pderiv_is_derive. Qed.
Print Assumptions C09_pderiv_is_derive.

(* non-vacuity: the lists are populated (43 classes translate on the pinned tree; the check records the
   exact names in the evidence), and one instance evaluated *)
Example C09_lists_populated :
  (40 <=? length all_elements)%nat = true /\ (28 <=? length h1_elements)%nat = true /\
  (7 <=? length lowest_order_elements)%nat = true /\ (10 <=? length global_tables)%nat = true.
Proof. vm_compute. repeat split; reflexivity. Qed.
Print Assumptions C09_lists_populated.
