(* C11 — derived mesh connectivity is coherent with the cell list.
   Only statements; proofs live in Base.C11_Unique / Proofs.C11_TopoProofs, the tie to the regenerated
   refdom tables in Dyn.C11Tie.  A mesh is its list of cells (one list of vertex numbers per cell, ANY
   numbering, ANY order); `indices` is a slot table (RefXxx.facets / RefXxx.edges). *)
From Coq Require Import List Arith ZArith Bool Sorted.
Import ListNotations.
Require Import Base.Corr Base.C11_Unique Model.C11_Topo Proofs.C11_TopoProofs Proofs.C11_EquivProofs Gen.C11Refdom Dyn.C11Tie.
Require Import Model.C07_Query Gen.C11Wrap Dyn.C11Wrap.

(* each facet / edge appears once, as a sorted tuple, the array is in strictly increasing lexicographic order *)
Theorem C11_entities_unique_sorted :
  forall cells indices : list (list nat),
    StronglySorted (lt lex_cmp) (entities true cells indices) /\
    NoDup (entities true cells indices) /\
    Forall (fun c => StronglySorted le c) (entities true cells indices) /\
    (forall c, In c (entities true cells indices) <->
               exists s e, s < length indices /\ e < length cells /\
                           c = sort_entity (slotv (nth s indices []) (nth e cells []))).
Proof.
  intros cells indices. destruct (entities_unique_sorted cells indices) as [H1 [H2 H3]].
  repeat split; try assumption; apply (in_entities cells indices).
Qed.
Print Assumptions C11_entities_unique_sorted.

(* t2f / t2e name, slot by slot, the entity spanned by the local vertices of that slot; entries are in range *)
Theorem C11_t2f_slotwise :
  forall (cells indices : list (list nat)) (s e : nat), s < length indices -> e < length cells ->
    nth e (nth s (mapping cells indices) []) 0 < length (entities true cells indices) /\
    nth (nth e (nth s (mapping cells indices) []) 0) (entities true cells indices) []
    = sort_entity (slotv (nth s indices []) (nth e cells [])).
Proof. intros cells indices s e Hs He. split; [exact (t2f_bound cells indices s e Hs He) | exact (t2f_slotwise cells indices s e Hs He)]. Qed.
Print Assumptions C11_t2f_slotwise.

(* ... and every entity number is used: the table is onto [0, n) (hypothesis of C04) *)
Theorem C11_t2f_onto :
  forall (cells indices : list (list nat)) (f : nat), f < length (entities true cells indices) ->
    exists s e, s < length indices /\ e < length cells /\ nth e (nth s (mapping cells indices) []) 0 = f.
Proof. exact t2f_onto. Qed.
Print Assumptions C11_t2f_onto.

Theorem C11_t2f_shape :
  forall cells indices : list (list nat),
    length (mapping cells indices) = length indices /\
    forall s, s < length indices -> length (nth s (mapping cells indices) []) = length cells.
Proof. exact mapping_shape. Qed.
Print Assumptions C11_t2f_shape.

(* two (slot, cell) entries carry the same number iff they span the same vertex set *)
Theorem C11_t2f_equal_iff_same_vertices :
  forall (cells indices : list (list nat)) (s e s' e' : nat),
    s < length indices -> e < length cells -> s' < length indices -> e' < length cells ->
    (nth e (nth s (mapping cells indices) []) 0 = nth e' (nth s' (mapping cells indices) []) 0 <->
     sort_entity (slotv (nth s indices []) (nth e cells [])) = sort_entity (slotv (nth s' indices []) (nth e' cells []))).
Proof. exact t2f_eq_iff. Qed.
Print Assumptions C11_t2f_equal_iff_same_vertices.

(* sort=False (hexahedra): same numbering; column j is the unsorted slot tuple of the first (slot, cell) spanning it *)
Theorem C11_unsorted_facets :
  forall (cells indices : list (list nat)) (j : nat), j < length (entities true cells indices) ->
    length (entities false cells indices) = length (entities true cells indices) /\
    sort_entity (nth j (entities false cells indices) []) = nth j (entities true cells indices) [] /\
    exists s e, s < length indices /\ e < length cells /\ t2f_at cells indices s e = j /\
      nth j (entities false cells indices) [] = slotv (nth s indices []) (nth e cells []) /\
      forall s' e', s' < length indices -> e' < length cells ->
        s' * length cells + e' < s * length cells + e -> t2f_at cells indices s' e' <> j.
Proof. exact entities_unsorted_spec. Qed.
Print Assumptions C11_unsorted_facets.

(* f2t has shape (2, nfacets); listed cells contain the facet; the second entry is -1 or a different cell *)
Theorem C11_f2t_sound :
  forall (cells indices : list (list nat)), 0 < length cells -> 0 < length indices ->
    length (f2t_of cells indices) = 2 /\
    length (nth 0 (f2t_of cells indices) []) = length (entities true cells indices) /\
    length (nth 1 (f2t_of cells indices) []) = length (entities true cells indices) /\
    forall f, f < length (entities true cells indices) ->
      exists e0, e0 < length cells /\ row0 (f2t_of cells indices) f = Z.of_nat e0 /\ contains cells indices f e0 /\
        (row1 (f2t_of cells indices) f = (-1)%Z \/
         exists e1, e1 < length cells /\ row1 (f2t_of cells indices) f = Z.of_nat e1 /\
                    contains cells indices f e1 /\ e1 <> e0).
Proof.
  intros cells indices Hc Hi. destruct (f2t_shape cells indices Hc Hi) as [A [B C]].
  repeat split; try assumption. exact (f2t_sound cells indices).
Qed.
Print Assumptions C11_f2t_sound.

(* For EVERY cell type of the library (slot tables regenerated from refdom.py), every list of cells with pairwise
   distinct vertices: if a facet lies in at most two cells, f2t lists EXACTLY the cells containing it, and the
   second entry is -1 iff exactly one cell contains it. *)
Theorem C11_f2t_exact_every_cell_type :
  forall (k : kind) (cells : list (list nat)) (f : nat),
    Forall (fun c => NoDup c /\ length c = k_nnodes k) cells ->
    f < length (entities true cells (k_facets k)) ->
    (row1 (f2t_of cells (k_facets k)) f = (-1)%Z <->
       forall e e', e < length cells -> e' < length cells ->
         contains cells (k_facets k) f e -> contains cells (k_facets k) f e' -> e = e') /\
    ((forall e1 e2 e3, e1 < length cells -> e2 < length cells -> e3 < length cells ->
        contains cells (k_facets k) f e1 -> contains cells (k_facets k) f e2 -> contains cells (k_facets k) f e3 ->
        e1 = e2 \/ e1 = e3 \/ e2 = e3) ->
     forall e, e < length cells ->
       (contains cells (k_facets k) f e <->
        (Z.of_nat e = row0 (f2t_of cells (k_facets k)) f \/ Z.of_nat e = row1 (f2t_of cells (k_facets k)) f))).
Proof.
  intros k cells f Hc Hf. pose proof (slots_injective_every_cell_type k cells Hc) as Hinj. split.
  - exact (f2t_boundary_iff cells (k_facets k) f Hinj Hf).
  - exact (f2t_exact cells (k_facets k) f Hinj Hf).
Qed.
Print Assumptions C11_f2t_exact_every_cell_type.

(* boundary facets / nodes, interior nodes: exactly the facets with a single neighbour, the vertices of those
   facets, and the rest; sorted; boundary and interior partition the range *)
Theorem C11_boundary_sets :
  forall (f2t : list (list Z)) (facets : list (list nat)) (nverts : nat),
    let bf := boundary_facets f2t in
    let bn := boundary_nodes facets bf in
    (forall f, In f bf <-> f < length (nth 1 f2t []) /\ row1 f2t f = (-1)%Z) /\
    StronglySorted Nat.lt bf /\
    (forall v, In v bn <-> exists f, In f bf /\ In v (nth f facets [])) /\
    StronglySorted (lt Nat.compare) bn /\
    (forall v, In v (interior_nodes nverts bn) <-> v < nverts /\ ~ In v bn) /\
    StronglySorted Nat.lt (interior_nodes nverts bn) /\
    (forall v, v < nverts -> (In v bn \/ In v (interior_nodes nverts bn)) /\
                             ~ (In v bn /\ In v (interior_nodes nverts bn))).
Proof.
  intros f2t facets nverts bf bn.
  split; [intros f; apply boundary_facets_spec|]. split; [apply boundary_facets_sorted|].
  split; [intros v; apply boundary_nodes_spec|]. split; [apply boundary_nodes_sorted|].
  split; [intros v; apply setdiff_range_spec|]. split; [apply setdiff_range_sorted|].
  intros v Hv. now apply boundary_interior_partition.
Qed.
Print Assumptions C11_boundary_sets.

(* 3-D boundary edges, for EVERY cell type (tetrahedra, hexahedra, wedges; tables regenerated from refdom.py) and every list
   of cells with pairwise distinct vertices: boundary_edges is exactly the set of numbers t2e[es][e] of the local edges es
   of a cell e that lie in a local facet s of e (edge slot contained in the facet slot) whose facet has a single neighbour;
   the result is strictly increasing *)
Theorem C11_boundary_edges_exact_every_cell_type :
  forall (k : kind) (cells : list (list nat)) (g : nat),
    0 < length cells -> Forall (fun c => NoDup c /\ length c = k_nnodes k) cells ->
    let t2f := mapping cells (k_facets k) in
    let t2e := mapping cells (k_edges k) in
    let f2t := f2t_of cells (k_facets k) in
    StronglySorted (lt Nat.compare) (boundary_edges (k_facets k) (k_edges k) t2f t2e f2t) /\
    (In g (boundary_edges (k_facets k) (k_edges k) t2f t2e f2t) <->
     exists f e s es, f < length (entities true cells (k_facets k)) /\ row1 f2t f = (-1)%Z /\
       e < length cells /\ s < length (k_facets k) /\ es < length (k_edges k) /\
       nth e (nth s t2f []) 0 = f /\ subset (nth es (k_edges k) []) (nth s (k_facets k) []) = true /\
       nth e (nth es t2e []) 0 = g).
Proof.
  intros k cells g Hnt Hc t2f t2e f2t. split; [apply boundary_edges_sorted|].
  apply (boundary_edges_exact cells (k_facets k) (k_edges k) g Hnt).
  - apply Nat.ltb_lt. apply facets_nonempty.
  - now apply slots_injective_every_cell_type.
Qed.
Print Assumptions C11_boundary_edges_exact_every_cell_type.

Theorem C11_boundary_interior_edges_partition :
  forall (nedges : nat) (be : list nat) (g : nat), g < nedges ->
    (In g be \/ In g (interior_edges nedges be)) /\ ~ (In g be /\ In g (interior_edges nedges be)).
Proof. exact boundary_interior_partition. Qed.
Print Assumptions C11_boundary_interior_edges_partition.

(* f2e = the mapping of build_entities(facets, boundary-refdom facets): it numbers, slot by slot, the entity array rebuilt from
   the facets; that array IS mesh.edges whenever both span the same set of vertex pairs (np.unique depends only on the set) *)
Theorem C11_f2e_slotwise :
  forall (facets bnd_idx cells edge_idx : list (list nat)) (s f : nat), s < length bnd_idx -> f < length facets ->
    nth (nth f (nth s (mapping facets bnd_idx) []) 0) (entities true facets bnd_idx) []
      = sort_entity (slotv (nth s bnd_idx []) (nth f facets [])) /\
    ((forall c, In c (keys facets bnd_idx) <-> In c (keys cells edge_idx)) ->
     entities true facets bnd_idx = entities true cells edge_idx).
Proof.
  intros facets bnd_idx cells edge_idx s f Hs Hf. split.
  - exact (t2f_slotwise facets bnd_idx s f Hs Hf).
  - exact (entities_ext facets bnd_idx cells edge_idx).
Qed.
Print Assumptions C11_f2e_slotwise.

(* ... and for tetrahedral meshes (tables regenerated from refdom.py) it always is: for EVERY list of cells with pairwise distinct
   vertices, f2e[s][f] is the number IN mesh.edges of the s-th side of facet f.  (Hexahedra: next theorem.) *)
Theorem C11_f2e_numbers_mesh_edges_tet :
  forall (cells : list (list nat)) (s f : nat),
    Forall (fun c => NoDup c /\ length c = tet_nnodes) cells ->
    let facets := entities tet_sortf cells tet_facets in
    entities true facets tet_bnd = entities true cells tet_edges /\
    (s < length tet_bnd -> f < length facets ->
     nth (nth f (nth s (mapping facets tet_bnd) []) 0) (entities true cells tet_edges) []
       = sort_entity (slotv (nth s tet_bnd []) (nth f facets []))).
Proof.
  intros cells s f Hc facets. unfold facets. rewrite tet_sorted_facets.
  assert (E : entities true (entities true cells tet_facets) tet_bnd = entities true cells tet_edges).
  { apply (f2e_numbers_mesh_edges cells tet_facets tet_edges tet_bnd tet_nnodes);
      [exact tet_bnd_all_pairs | exact tet_facets_have_three_vertices | exact tet_edges_distinct_vertices
      | exact tet_compose_ok | exact Hc]. }
  split; [exact E|]. intros Hs Hf. rewrite <- E. now apply t2f_slotwise.
Qed.
Print Assumptions C11_f2e_numbers_mesh_edges_tet.

(* hexahedral meshes (unsorted cyclic facets, tables regenerated from refdom.py): IF every cell lists the four vertices of each of its
   facets in the cyclic order of the stored facet column up to rotation / reversal (what conforming hexahedral meshes satisfy:
   checked on every generated mesh by the oracle), THEN the edge array rebuilt from the facets IS mesh.edges, so f2e[s][f] is the
   number in mesh.edges of side s of facet f *)
Theorem C11_f2e_numbers_mesh_edges_hex :
  forall (cells : list (list nat)) (s f : nat),
    (forall s' e, s' < length hex_facets -> e < length cells ->
       dihedral (nth (t2f_at cells hex_facets s' e) (entities hex_sortf cells hex_facets) [])
                (slotv (nth s' hex_facets []) (nth e cells []))) ->
    let facets := entities hex_sortf cells hex_facets in
    entities true facets hex_bnd = entities true cells hex_edges /\
    (s < length hex_bnd -> f < length facets ->
     nth (nth f (nth s (mapping facets hex_bnd) []) 0) (entities true cells hex_edges) []
       = sort_entity (slotv (nth s hex_bnd []) (nth f facets []))).
Proof.
  intros cells s f Hconf facets. unfold facets. revert Hconf. rewrite hex_unsorted_facets. intros Hconf.
  assert (E : entities true (entities false cells hex_facets) hex_bnd = entities true cells hex_edges).
  { apply f2e_numbers_mesh_edges_quad; [exact hex_bnd_cyclic | exact hex_compose_ok | exact Hconf]. }
  split; [exact E|]. intros Hs Hf. rewrite <- E. now apply t2f_slotwise.
Qed.
Print Assumptions C11_f2e_numbers_mesh_edges_hex.

(* the conformity hypothesis is satisfiable: two hexahedra sharing a facet, the second listing it rotated *)
Example C11_hex_conformity_instance :
  let cells := [[0; 1; 2; 3; 4; 5; 6; 7]; [8; 9; 10; 0; 11; 1; 2; 4]] in
  forallb (fun s => forallb (fun e =>
     let q := nth (t2f_at cells hex_facets s e) (entities hex_sortf cells hex_facets) [] in
     let q' := slotv (nth s hex_facets []) (nth e cells []) in
     match q with [a; b; c; d] => existsb (nats_eqb q') [[a; b; c; d]; [b; c; d; a]; [c; d; a; b]; [d; a; b; c];
                                                        [d; c; b; a]; [c; b; a; d]; [b; a; d; c]; [a; d; c; b]] | _ => false end)
     (seq 0 2)) (seq 0 6) = true /\
  length (entities true cells hex_facets) = 11.
Proof. vm_compute. split; reflexivity. Qed.
Print Assumptions C11_hex_conformity_instance.

(* entity keys (Mesh._sort_entities): plain sorting for slot tuples without repeated vertices (every slot of every cell type on
   cells with distinct vertices, except the padded triangles of wedges); the key of a padded triangle depends only on its vertex
   SET, so two wedges sharing a triangle share the facet whatever their local vertex order *)
Theorem C11_entity_key_independent_of_local_order :
  (forall l, NoDup l -> sort_entity l = isort l) /\
  (forall l x, In x (sort_entity l) <-> In x l) /\
  (forall l, StronglySorted le (sort_entity l)) /\
  (forall l1 l2 x1 x2, NoDup l1 -> NoDup l2 -> In x1 l1 -> In x2 l2 -> (forall v, In v l1 <-> In v l2) ->
     sort_entity (l1 ++ [x1]) = sort_entity (l2 ++ [x2])) /\
  (forall c1 c2 : list nat, NoDup c1 -> NoDup c2 -> length c1 = wedge_nnodes -> length c2 = wedge_nnodes ->
     forall s1 s2, (s1 = 3 \/ s1 = 4) -> (s2 = 3 \/ s2 = 4) ->
     (forall v, In v (slotv (nth s1 wedge_facets []) c1) <-> In v (slotv (nth s2 wedge_facets []) c2)) ->
     sort_entity (slotv (nth s1 wedge_facets []) c1) = sort_entity (slotv (nth s2 wedge_facets []) c2)).
Proof.
  split; [exact sort_entity_nodup|]. split; [exact sort_entity_in|]. split; [exact sort_entity_sorted|].
  split; [exact padded_key_depends_on_vertex_set|].
  intros c1 c2 N1 N2 L1 L2 s1 s2 H1 H2. destruct wedge_triangular_slots_are_padded as [P3 P4].
  assert (B : forall c : list nat, length c = wedge_nnodes -> (forall i, In i [0; 1; 2] -> i < length c) /\ (forall i, In i [3; 4; 5] -> i < length c)).
  { intros c L. rewrite L. unfold wedge_nnodes. split; intros i Hi; simpl in Hi; intuition (subst; repeat constructor). }
  assert (D : NoDup [0; 1; 2] /\ NoDup [3; 4; 5]) by (split; repeat constructor; simpl; intuition discriminate).
  destruct (B c1 L1) as [B13 B14]. destruct (B c2 L2) as [B23 B24]. destruct D as [D3 D4].
  destruct H1 as [-> | ->]; destruct H2 as [-> | ->]; rewrite ?P3, ?P4; intros Hs;
    apply padded_slot_key_vertex_set; try assumption; simpl; tauto.
Qed.
Print Assumptions C11_entity_key_independent_of_local_order.

(* INDEPENDENCE OF CELL ORDER: permuting the cells changes neither the facet / edge array nor the number a (slot, cell) pair gets
   (hence f2t, boundary sets ... are the same up to the permutation of the cell indices) — every slot table, every cell list *)
Theorem C11_cell_order_invariant :
  forall cells cells2 idx : list (list nat), Permutation.Permutation cells cells2 ->
    entities true cells2 idx = entities true cells idx /\
    forall s e e2, s < length idx -> e < length cells -> e2 < length cells2 -> nth e2 cells2 [] = nth e cells [] ->
      nth e2 (nth s (mapping cells2 idx) []) 0 = nth e (nth s (mapping cells idx) []) 0.
Proof. exact cell_order_invariant. Qed.
Print Assumptions C11_cell_order_invariant.

(* INDEPENDENCE OF VERTEX NUMBERING (set level), for every cell type of the library (facet and edge tables regenerated from refdom.py),
   every list of cells with pairwise distinct vertices and every injective renumbering p of the vertices: in the renumbered mesh
   (1) two (slot, cell) pairs name the same entity iff they did before (same incidence pattern, so the induced map on entity numbers
       is a bijection compatible with t2f / t2e);
   (2) the entity named by a (slot, cell) pair has exactly the renumbered vertices;
   (3) the cells containing an entity are the same, and an entity has a single neighbour (f2t[1] = -1, boundary) iff it had. *)
Theorem C11_renumbering_equivariant :
  forall (k : kind) (idx : list (list nat)) (p : nat -> nat) (cells : list (list nat)),
    idx = k_facets k \/ idx = k_edges k ->
    (forall a b, p a = p b -> a = b) ->
    Forall (fun c => NoDup c /\ length c = k_nnodes k) cells ->
    let cells' := map (map p) cells in
    forall s e, s < length idx -> e < length cells ->
      (forall s' e', s' < length idx -> e' < length cells ->
         (t2f_at cells' idx s e = t2f_at cells' idx s' e' <-> t2f_at cells idx s e = t2f_at cells idx s' e')) /\
      (forall v, In v (nth (t2f_at cells' idx s e) (entities true cells' idx) []) <->
                 exists u, In u (nth (t2f_at cells idx s e) (entities true cells idx) []) /\ v = p u) /\
      (forall e1, e1 < length cells ->
         (contains cells' idx (t2f_at cells' idx s e) e1 <-> contains cells idx (t2f_at cells idx s e) e1)) /\
      (slots_injective cells idx ->
       (row1 (f2t_of cells' idx) (t2f_at cells' idx s e) = (-1)%Z <-> row1 (f2t_of cells idx) (t2f_at cells idx s e) = (-1)%Z)).
Proof.
  intros k idx p cells Hidx Hinj Hc cells' s e Hs He.
  destruct (shape_every_cell_type k idx Hidx) as [HB HS].
  assert (Hlen : Forall (fun c => length c = k_nnodes k) cells).
  { rewrite Forall_forall in *. intros c Hin. now apply Hc. }
  assert (Hshape : forall ix c, In ix idx -> In c cells -> shape (slotv ix c)).
  { intros ix c Hix Hcin. rewrite Forall_forall in Hc. destruct (Hc c Hcin) as [N L]. now apply HS. }
  split; [|split; [|split]].
  - intros s' e' Hs' He'. now apply (relabel_incidence p Hinj cells idx (k_nnodes k) Hlen HB Hshape).
  - intros v. now apply (relabel_vertex_sets p cells idx (k_nnodes k) Hlen HB).
  - intros e1 He1. now apply (relabel_contains p Hinj cells idx (k_nnodes k) Hlen HB Hshape).
  - intros Hsi. now apply (relabel_boundary p Hinj cells idx (k_nnodes k) Hlen HB Hshape).
Qed.
Print Assumptions C11_renumbering_equivariant.

(* ... and GLOBALLY: sigma f := rank of the renumbered key of entity f in the entity array of the renumbered mesh is a BIJECTION of
   the entity numbers with  t2f' = sigma o t2f  (t2e likewise), the same number of entities, vertex sets mapped by p, the cells
   containing sigma f = the cells containing f, f2t'[1][sigma f] = -1 iff f2t[1][f] = -1 (boundary facets mapped onto boundary
   facets); composed with any permutation of the cells: a cell that is the renumbered copy of cell e has row entries sigma(t2f[s][e]). *)
Theorem C11_renumbering_global_bijection :
  forall (k : kind) (idx : list (list nat)) (p : nat -> nat) (cells cells2 : list (list nat)),
    idx = k_facets k \/ idx = k_edges k ->
    (forall a b, p a = p b -> a = b) ->
    Forall (fun c => NoDup c /\ length c = k_nnodes k) cells ->
    Permutation.Permutation (map (map p) cells) cells2 ->
    let cells' := map (map p) cells in
    let sg := sigma p cells idx in
    length (entities true cells2 idx) = length (entities true cells idx) /\
    (forall f, f < length (entities true cells idx) -> sg f < length (entities true cells2 idx)) /\
    (forall f g, f < length (entities true cells idx) -> g < length (entities true cells idx) -> sg f = sg g -> f = g) /\
    (forall f', f' < length (entities true cells2 idx) -> exists f, f < length (entities true cells idx) /\ sg f = f') /\
    (forall s e e2, s < length idx -> e < length cells -> e2 < length cells2 -> nth e2 cells2 [] = map p (nth e cells []) ->
       t2f_at cells2 idx s e2 = sg (t2f_at cells idx s e)) /\
    (forall f v, f < length (entities true cells idx) ->
       (In v (nth (sg f) (entities true cells2 idx) []) <-> exists u, In u (nth f (entities true cells idx) []) /\ v = p u)) /\
    (forall f, f < length (entities true cells idx) ->
       (forall e1, e1 < length cells -> (contains cells' idx (sg f) e1 <-> contains cells idx f e1)) /\
       (slots_injective cells idx ->
        (row1 (f2t_of cells' idx) (sg f) = (-1)%Z <-> row1 (f2t_of cells idx) f = (-1)%Z))).
Proof.
  intros k idx p cells cells2 Hidx Hinj Hc HP cells' sg.
  destruct (shape_every_cell_type k idx Hidx) as [HB HS].
  assert (Hlen : Forall (fun c => length c = k_nnodes k) cells).
  { rewrite Forall_forall in *. intros c Hin. now apply Hc. }
  assert (Hshape : forall ix c, In ix idx -> In c cells -> shape (slotv ix c)).
  { intros ix c Hix Hcin. rewrite Forall_forall in Hc. destruct (Hc c Hcin) as [N L]. now apply HS. }
  destruct (cell_order_invariant cells' cells2 idx HP) as [EE Hcell]. rewrite EE.
  destruct (sigma_bijection p Hinj cells idx (k_nnodes k) Hlen HB Hshape) as [B [I O]].
  split; [exact (sigma_length p Hinj cells idx (k_nnodes k) Hlen HB Hshape)|].
  split; [exact B|]. split; [exact I|]. split; [exact O|]. split; [|split].
  - intros s e e2 Hs He He2 Hn.
    assert (E1 : e < length cells') by (unfold cells'; now rewrite map_length).
    assert (E2 : nth e2 cells2 [] = nth e cells' []) by (unfold cells'; rewrite (nth_map_d (map p) cells e [] []) by exact He; exact Hn).
    rewrite (Hcell s e e2 Hs E1 He2 E2).
    now apply (sigma_t2f p Hinj cells idx (k_nnodes k) Hlen HB Hshape).
  - intros f v Hf. now apply (sigma_vertices p Hinj cells idx (k_nnodes k) Hlen HB Hshape).
  - intros f Hf. now apply (sigma_f2t p Hinj cells idx (k_nnodes k) Hlen HB Hshape).
Qed.
Print Assumptions C11_renumbering_global_bijection.

(* the incidence matrices p2f, p2t, p2e, e2t (model of the coo/csc construction after the wedge repair): p2f has shape
   (nfacets, nv), entries 0/1, and entry (f, v) = 1 exactly when v is a vertex of facet f; p2t / p2e are the same indicator for
   cells / edges without repeated vertices; e2t[e][g] is 0/1 and 1 exactly when both end points of edge g lie in cell e *)
Theorem C11_incidence_matrices :
  (forall (ents : list (list nat)) (nv : nat),
     length (incidence_01 ents nv) = length ents /\
     forall r v, r < length ents -> v < nv ->
       length (nth r (incidence_01 ents nv) []) = nv /\
       (nth v (nth r (incidence_01 ents nv) []) 0 = 1 <-> In v (nth r ents [])) /\
       (nth v (nth r (incidence_01 ents nv) []) 0 = 0 <-> ~ In v (nth r ents []))) /\
  (forall ents nv, Forall (fun c => NoDup c) ents -> incidence_count ents nv = incidence_01 ents nv) /\
  (forall cells edges e g, e < length cells -> g < length edges -> NoDup (nth e cells []) ->
     let x := nth g (nth e (e2t_matrix cells edges) []) 0 in
     (x = 0 \/ x = 1) /\
     (x = 1 <-> In (nth 0 (nth g edges []) 0) (nth e cells []) /\ In (nth 1 (nth g edges []) 0) (nth e cells []))).
Proof. split; [exact incidence_01_spec|]. split; [exact incidence_count_spec | exact e2t_spec]. Qed.
Print Assumptions C11_incidence_matrices.

(* the nodes of a mesh are its VERTICES (numbers below nvertices = max(t) + 1), also for second-order meshes that carry more
   points: every boundary node is a vertex, interior_nodes(nvertices) is exactly the set of vertices that are not boundary
   nodes, and the two sets partition [0, nvertices) *)
Theorem C11_nodes_are_vertices :
  forall (cells idx : list (list nat)) (f2t : list (list Z)),
    length (nth 1 f2t []) = length (entities true cells idx) ->
    let bn := boundary_nodes (entities true cells idx) (boundary_facets f2t) in
    let nv := nvertices cells in
    (forall v, In v bn -> v < nv) /\
    (forall v, In v (interior_nodes nv bn) <-> v < nv /\ ~ In v bn) /\
    (forall v, v < nv -> (In v bn \/ In v (interior_nodes nv bn)) /\ ~ (In v bn /\ In v (interior_nodes nv bn))).
Proof.
  intros cells idx f2t HL bn nv. split; [|split].
  - intros v Hv. apply boundary_nodes_spec in Hv. destruct Hv as [f [Hf Hin]].
    apply boundary_facets_spec in Hf. destruct Hf as [Hf _]. rewrite HL in Hf.
    exact (entity_vertices_below_nvertices cells idx f v Hin Hf).
  - intros v. apply setdiff_range_spec.
  - intros v Hv. now apply boundary_interior_partition.
Qed.
Print Assumptions C11_nodes_are_vertices.

(* ---- non-vacuity: two triangles sharing the edge {1,2}, one renumbered quadrilateral pair, a tetrahedron *)
Example C11_two_triangles :
  let tb := derive tri_sortf 4 [[0; 1; 2]; [3; 2; 1]] tri_facets in
  T_facets tb = [[0; 1]; [0; 2]; [1; 2]; [1; 3]; [2; 3]] /\
  T_t2f tb = [[0; 4]; [2; 2]; [1; 3]] /\
  T_f2t tb = [[0; 0; 0; 1; 1]; [-1; -1; 1; -1; -1]]%Z /\
  T_bfacets tb = [0; 1; 3; 4] /\ T_bnodes tb = [0; 1; 2; 3] /\ T_inodes tb = [].
Proof. vm_compute. repeat split. Qed.
Print Assumptions C11_two_triangles.

(* the hypotheses of C11_f2t_exact_every_cell_type are satisfiable (and its conclusion is not trivial) *)
Example C11_f2t_exact_hypotheses_hold :
  Forall (fun c => NoDup c /\ length c = k_nnodes Ktri) [[0; 1; 2]; [3; 2; 1]] /\
  2 < length (entities true [[0; 1; 2]; [3; 2; 1]] (k_facets Ktri)) /\
  contains [[0; 1; 2]; [3; 2; 1]] (k_facets Ktri) 2 0 /\ contains [[0; 1; 2]; [3; 2; 1]] (k_facets Ktri) 2 1.
Proof.
  split; [|split; [|split]].
  - repeat constructor; simpl; intuition discriminate.
  - vm_compute. repeat constructor.
  - exists 1. split; [vm_compute; repeat constructor | reflexivity].
  - exists 1. split; [vm_compute; repeat constructor | reflexivity].
Qed.
Print Assumptions C11_f2t_exact_hypotheses_hold.

(* ------------------------------------------------------------------ wrappers (pure plumbing), translated from the current source:
   the option handling of Mesh.facets_satisfying / nodes_satisfying / elements_satisfying (gen_* regenerated by the ast translator),
   composed with the boundary sets derived from the cell list, for ALL predicate sets and option values *)
Theorem C11_wrap_satisfying_options :
  forall (f2t : list (list Z)) (facets : list (list nat)) (pred : list nat) (bo ng : bool),
    let bf := boundary_facets f2t in
    let bn := boundary_nodes facets bf in
    gen_facets_satisfying pred bf bn bo ng = (if bo then inter pred bf else pred) /\
    gen_nodes_satisfying pred bf bn bo = (if bo then inter pred bn else pred) /\
    gen_elements_satisfying pred = pred /\
    (forall f, In f (gen_facets_satisfying pred bf bn bo ng) <->
               In f pred /\ (bo = true -> f < length (nth 1 f2t []) /\ row1 f2t f = (-1)%Z)) /\
    (forall v, In v (gen_nodes_satisfying pred bf bn bo) <->
               In v pred /\ (bo = true -> exists f, (f < length (nth 1 f2t []) /\ row1 f2t f = (-1)%Z) /\ In v (nth f facets []))).
Proof.
  intros f2t facets pred bo ng bf bn.
  split; [apply wrap11_facets|]. split; [apply wrap11_nodes|]. split; [apply wrap11_elements|].
  split; [intros f; apply wrap11_facets_exact | intros v; apply wrap11_nodes_exact].
Qed.
Print Assumptions C11_wrap_satisfying_options.
