(* C08 — Quadrature rules deliver their advertised degree on every reference cell.
   Only statements.  [table], [nmax], [excluded] are REGENERATED on every run by calling
   skfem.quadrature.get_quadrature (Gen.C08_All, Gen.C08_Data_...), the soundness of the Z checker and
   the tensor theorems are in Proofs.C08_RulesProofs / Proofs.C08_TensorProofs. *)
From Coq Require Import ZArith List QArith Qabs.
Require Import Model.C08_Rules Proofs.C08_RulesProofs Proofs.C08_TensorProofs Proofs.C08_FastProofs Proofs.C08_Explicit Gen.C08_All.
Import ListNotations.

(* THE PROPERTY (finite, bound stated: orders -2 .. nmax c).  For every reference cell c and every
   requested order n the call get_quadrature(c, n) either raises, or returns a rule r such that
     - every node lies in the closed reference cell (all coordinates of each simplex factor >= 0, sum <= 1),
     - for every monomial x^es whose total degree in the variables of each simplex factor is <= n
       (total degree on segment/triangle/tetrahedron, per direction on square/cube, (x,y)-total and z on
       the prism)   | sum_q w_q x_q^es  -  exact integral | <= 2^-45 ,
       in particular (es = 0) the weights sum to the measure of the cell.
   No order silently returns a weaker rule: whatever does not raise is exact to the requested order.
   [excluded] lists (cell, order) pairs that are recorded known findings AND refuted in this run; it is
   empty on a correct tree. *)
Theorem C08_rules_deliver_degree :
  forall (c : cellid) (n : Z), (-2 <= n <= nmax c)%Z -> excluded_b excluded c n = false ->
  exists b, lookup table c n = Some b /\
    match b with
    | Raises => True
    | Rule r =>
        (forall nd, In nd (toQ r) -> length (fst nd) = dim (cshape c) /\ in_cellQ (cshape c) (fst nd)) /\
        (forall es, length es = dim (cshape c) -> deg_ok (cshape c) (Z.to_nat n) es ->
           Qabs (qrule_sum (toQ r) es - exactQ (cshape c) es) <= 1 # (2 ^ 45))
    end.
Proof. exact all_rules_ok. Qed.
Print Assumptions C08_rules_deliver_degree.

(* in particular the weights of every returned rule sum to the measure of the reference cell
   (1, 1, 1/2, 1, 1/6, 1, 1/2 for point, segment, triangle, square, tetrahedron, cube, prism) *)
Theorem C08_weights_sum_to_measure :
  forall (c : cellid) (n : Z) (r : drule), lookup table c n = Some (Rule r) -> excluded_b excluded c n = false ->
  Qabs (qweight_sum (toQ r) - measureQ (cshape c)) <= 1 # (2 ^ 45).
Proof. exact (table_weights table excluded tol45 table_ok). Qed.
Print Assumptions C08_weights_sum_to_measure.

(* the same statement in the familiar closed forms (a! = pfact a):
   segment   int x^a            = 1/(a+1)                 for a <= n
   triangle  int x^a y^b        = a! b! / (a+b+2)!        for a+b <= n
   tetrahedron                    a! b! c! / (a+b+c+3)!   for a+b+c <= n
   square / cube                  1/((a+1)(b+1)(c+1))     for a, b, c <= n each
   prism                          a! b! / ((a+b+2)! (c+1)) for a+b <= n and c <= n *)
Theorem C08_explicit_forms :
  forall (n : Z) (r : drule),
  ((-2 <= n <= nmax CLine)%Z -> excluded_b excluded CLine n = false -> lookup table CLine n = Some (Rule r) ->
     forall a, (a <= Z.to_nat n)%nat -> Qabs (qrule_sum (toQ r) [a] - (1 # Pos.of_succ_nat a)) <= 1 # (2 ^ 45)) /\
  ((-2 <= n <= nmax CTri)%Z -> excluded_b excluded CTri n = false -> lookup table CTri n = Some (Rule r) ->
     forall a b, (a + b <= Z.to_nat n)%nat ->
     Qabs (qrule_sum (toQ r) [a; b] - (Zpos (pfact a * pfact b) # pfact (a + b + 2))) <= 1 # (2 ^ 45)) /\
  ((-2 <= n <= nmax CTet)%Z -> excluded_b excluded CTet n = false -> lookup table CTet n = Some (Rule r) ->
     forall a b c, (a + b + c <= Z.to_nat n)%nat ->
     Qabs (qrule_sum (toQ r) [a; b; c] - (Zpos (pfact a * pfact b * pfact c) # pfact (a + b + c + 3))) <= 1 # (2 ^ 45)) /\
  ((-2 <= n <= nmax CQuad)%Z -> excluded_b excluded CQuad n = false -> lookup table CQuad n = Some (Rule r) ->
     forall a b, (a <= Z.to_nat n)%nat -> (b <= Z.to_nat n)%nat ->
     Qabs (qrule_sum (toQ r) [a; b] - (1 # (Pos.of_succ_nat a * Pos.of_succ_nat b))) <= 1 # (2 ^ 45)) /\
  ((-2 <= n <= nmax CHex)%Z -> excluded_b excluded CHex n = false -> lookup table CHex n = Some (Rule r) ->
     forall a b c, (a <= Z.to_nat n)%nat -> (b <= Z.to_nat n)%nat -> (c <= Z.to_nat n)%nat ->
     Qabs (qrule_sum (toQ r) [a; b; c] - (1 # (Pos.of_succ_nat a * Pos.of_succ_nat b * Pos.of_succ_nat c))) <= 1 # (2 ^ 45)) /\
  ((-2 <= n <= nmax CWedge)%Z -> excluded_b excluded CWedge n = false -> lookup table CWedge n = Some (Rule r) ->
     forall a b c, (a + b <= Z.to_nat n)%nat -> (c <= Z.to_nat n)%nat ->
     Qabs (qrule_sum (toQ r) [a; b; c] - (Zpos (pfact a * pfact b) # (pfact (a + b + 2) * Pos.of_succ_nat c))) <= 1 # (2 ^ 45)).
Proof.
  intros n r. repeat split; intros _ Hx Hl.
  - exact (explicit_line _ _ _ (lookup_ok excluded tol45 table table_ok CLine n (Rule r) Hl Hx)).
  - exact (explicit_tri _ _ _ (lookup_ok excluded tol45 table table_ok CTri n (Rule r) Hl Hx)).
  - exact (explicit_tet _ _ _ (lookup_ok excluded tol45 table table_ok CTet n (Rule r) Hl Hx)).
  - exact (explicit_quad _ _ _ (lookup_ok excluded tol45 table table_ok CQuad n (Rule r) Hl Hx)).
  - exact (explicit_hex _ _ _ (lookup_ok excluded tol45 table table_ok CHex n (Rule r) Hl Hx)).
  - exact (explicit_wedge _ _ _ (lookup_ok excluded tol45 table table_ok CWedge n (Rule r) Hl Hx)).
Qed.
Print Assumptions C08_explicit_forms.

(* the orders listed in [raising] (printed in the evidence) are exactly reported as Raises *)
Theorem C08_raising_orders :
  forall c n, In (c, n) raising -> raises_b table c n = true.
Proof. exact raising_listed. Qed.
Print Assumptions C08_raising_orders.

(* Unbounded: the tensor product of ANY two rules that are exact for the monomials of degree <= n of
   their cells is exact on the product cell for all monomials of degree <= n per factor — the
   construction of the quadrilateral, hexahedron and prism rules (for every n, every rule). *)
Theorem C08_tensor_rule_exact :
  forall (R1 R2 : qrule) (s1 s2 : shape) (n : nat),
  (forall nd, In nd R1 -> length (fst nd) = dim s1) ->
  (forall es, length es = dim s1 -> deg_ok s1 n es -> qrule_sum R1 es == exactQ s1 es) ->
  (forall es, length es = dim s2 -> deg_ok s2 n es -> qrule_sum R2 es == exactQ s2 es) ->
  forall es, length es = dim (s1 ++ s2) -> deg_ok (s1 ++ s2) n es ->
    qrule_sum (tensorQ R1 R2) es == exactQ (s1 ++ s2) es.
Proof. exact tensor_rule_exact. Qed.
Print Assumptions C08_tensor_rule_exact.

(* ... and with defects e1, e2 of the factors the defect of the product is at most e1 + e2 + e1 e2 *)
Theorem C08_tensor_rule_exact_eps :
  forall (R1 R2 : qrule) (s1 s2 : shape) (n : nat) (e1 e2 : Q),
  (forall nd, In nd R1 -> length (fst nd) = dim s1) ->
  (forall es, length es = dim s1 -> deg_ok s1 n es -> Qabs (qrule_sum R1 es - exactQ s1 es) <= e1) ->
  (forall es, length es = dim s2 -> deg_ok s2 n es -> Qabs (qrule_sum R2 es - exactQ s2 es) <= e2) ->
  forall es, length es = dim (s1 ++ s2) -> deg_ok (s1 ++ s2) n es ->
    Qabs (qrule_sum (tensorQ R1 R2) es - exactQ (s1 ++ s2) es) <= e1 + e2 + e1 * e2.
Proof. exact tensor_rule_exact_eps. Qed.
Print Assumptions C08_tensor_rule_exact_eps.

(* a returned rule C that has exactly the nodes of the tensor product of two verified rules and whose
   weights differ from the exact products by at most delta in total inherits the bound (this is how
   the quadrilateral / hexahedron / prism entries of [table] are established) *)
Theorem C08_tensor_of_verified_factors :
  forall s1 s2 r1 r2 C n e1 e2 delta tol,
  rule_okQ s1 (toQ r1) n e1 -> rule_okQ s2 (toQ r2) n e2 ->
  tensor_check C r1 r2 delta = true -> tol_combine e1 e2 delta tol = true ->
  rule_okQ (s1 ++ s2) (toQ C) n tol.
Proof. exact tensor_close_ok. Qed.
Print Assumptions C08_tensor_of_verified_factors.

(* the boolean decision procedures run by vm_compute on every dumped rule (exact integer sums; the fast one with
   outward-rounded fixed-point powers, working precision Bp) are sound for the statement over Q *)
Theorem C08_checker_sound :
  forall s r n tol, check_rule s r n tol = true -> rule_okQ s (toQ r) n tol.
Proof. exact check_rule_sound. Qed.
Print Assumptions C08_checker_sound.
Theorem C08_fast_checker_sound :
  forall s r n tol Bp, icheck_rule s r n tol Bp = true -> rule_okQ s (toQ r) n tol.
Proof. exact icheck_rule_sound. Qed.
Print Assumptions C08_fast_checker_sound.

(* ---- non-vacuity *)
(* reference values: triangle integral of x*y is 1/24, tetrahedron measure 1/6, prism measure 1/2 *)
Example C08_exact_values :
  exactQ [2%nat] [1%nat; 1%nat] == 1 # 24 /\ measureQ [3%nat] == 1 # 6 /\ measureQ [2%nat; 1%nat] == 1 # 2
  /\ exactQ [1%nat; 1%nat; 1%nat] [1%nat; 2%nat; 3%nat] == 1 # 24.
Proof. repeat split; vm_compute; reflexivity. Qed.
Print Assumptions C08_exact_values.

(* the midpoint rule on the segment satisfies the hypotheses of the tensor theorem for n = 1, so does its square *)
Example C08_midpoint_instance :
  rule_okQ [1%nat] (toQ (mkR 2 1 [([1%Z], 1%Z)])) 1 0 /\
  rule_okQ [1%nat; 1%nat] (tensorQ (toQ (mkR 2 1 [([1%Z], 1%Z)])) (toQ (mkR 2 1 [([1%Z], 1%Z)]))) 1 (0 + 0 + 0 * 0).
Proof.
  assert (H : rule_okQ [1%nat] (toQ (mkR 2 1 [([1%Z], 1%Z)])) 1 0)
    by (apply check_rule_sound; vm_compute; reflexivity).
  split; [exact H|]. exact (tensor_rule_ok _ _ [1%nat] [1%nat] 1%nat 0 0 H H).
Qed.
Print Assumptions C08_midpoint_instance.

(* the domain is not empty and contains real rules *)
Example C08_domain_nonempty :
  (nmax CLine >= 40)%Z /\ (nmax CTri >= 19)%Z /\
  (exists r, lookup table CTri 2 = Some (Rule r) /\ length (nodes r) = 3%nat).
Proof. repeat split; try (vm_compute; discriminate). eexists. split; vm_compute; reflexivity. Qed.
Print Assumptions C08_domain_nonempty.
