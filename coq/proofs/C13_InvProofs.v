(* C13 — an adaptive (red-green-blue) step keeps "cells with pairwise distinct, existing vertices"; with the uniform
   step (Proofs.C12_InvProofs) this gives conformity along any history of refinements in 2-D. *)
From Coq Require Import List Arith Bool Lia.
Import ListNotations.
Require Import Base.C11_Unique Model.C11_Topo Proofs.C11_TopoProofs.
Require Import Model.C12_Refine Model.C12_Global Model.C13_Adaptive.
Require Import Proofs.C12_RefineProofs Proofs.C13_AdaptiveProofs Proofs.C12_GlobalProofs Proofs.C12_InvProofs.
Local Open Scope nat_scope.

Lemma count_app a b : count (a ++ b) = count a + count b.
Proof. unfold count. now rewrite filter_app, app_length. Qed.

Lemma firstn_S_nth (F : marks) f : f < length F -> firstn (S f) F = firstn f F ++ [nth f F false].
Proof.
  revert f; induction F as [|b F IH]; intros f H; simpl in H; [lia|]. destruct f as [|f]; [reflexivity|].
  simpl. f_equal. apply IH. lia.
Qed.

Lemma count_firstn_S F f : f < length F -> count (firstn (S f) F) = count (firstn f F) + (if mk F f then 1 else 0).
Proof. intros H. rewrite firstn_S_nth by exact H. rewrite count_app. unfold mk. destruct (nth f F false); reflexivity. Qed.

Lemma count_firstn_mono F n m : n <= m -> count (firstn n F) <= count (firstn m F).
Proof.
  intros H. replace m with (n + (m - n)) by lia. generalize (m - n) as d. clear. intros d.
  rewrite <- (firstn_skipn n (firstn (n + d) F)) at 1.
  rewrite firstn_firstn, Nat.min_l by lia. rewrite count_app. lia.
Qed.

Lemma count_firstn_le F n : count (firstn n F) <= count F.
Proof. rewrite <- (firstn_skipn n F) at 2. rewrite count_app. lia. Qed.

Lemma node_of_lt F nv f f' : f < f' -> f' <= length F -> mk F f = true -> node_of F nv f < node_of F nv f'.
Proof.
  intros Hlt Hle Hm. unfold node_of.
  pose proof (count_firstn_S F f ltac:(lia)) as HS. rewrite Hm in HS.
  pose proof (count_firstn_mono F (S f) f' ltac:(lia)). lia.
Qed.

Lemma node_of_inj F nv f f' : f < length F -> f' < length F -> mk F f = true -> mk F f' = true ->
  node_of F nv f = node_of F nv f' -> f = f'.
Proof.
  intros H1 H2 M1 M2 E. destruct (Nat.lt_trichotomy f f') as [L|[L|L]]; [|exact L|].
  - pose proof (node_of_lt F nv f f' L ltac:(lia) M1). lia.
  - pose proof (node_of_lt F nv f' f L ltac:(lia) M2). lia.
Qed.

Lemma node_of_bound F nv f : f < length F -> mk F f = true -> nv <= node_of F nv f < nv + count F.
Proof.
  intros H M. unfold node_of. pose proof (count_firstn_S F f H) as HS. rewrite M in HS.
  pose proof (count_firstn_le F (S f)). lia.
Qed.

Lemma new_points_length dim p facets F : length F = length facets -> length (new_points dim p facets F) = count F.
Proof.
  intros H. unfold new_points, count. rewrite map_length. revert facets H.
  induction F as [|b F IH]; intros [|x facets] H; simpl in *; try discriminate; [reflexivity|].
  injection H as H. destruct b; simpl; now rewrite IH.
Qed.

Lemma bools_eqb_eq a : forall b, bools_eqb a b = true -> a = b.
Proof.
  induction a as [|x a IH]; intros [|y b] H; simpl in H; try discriminate; [reflexivity|].
  apply andb_true_iff in H. destruct H as [H1 H2]. apply eqb_prop in H1. subst. f_equal. now apply IH.
Qed.

Lemma class_of_spec pats pt : class_of pats pt < length pats -> nth (class_of pats pt) pats [] = pt.
Proof.
  induction pats as [|q pats IH]; simpl; [lia|]. destruct (bools_eqb q pt) eqn:E.
  - intros _. now apply bools_eqb_eq.
  - intros H. apply IH. lia.
Qed.

Lemma in_grouped res flat cls cs c :
  In c (grouped res flat cls cs) -> exists ct x, In ct flat /\ In x (cls_filter cls (fst ct) cs) /\ c = res x (snd ct).
Proof.
  unfold grouped. rewrite in_concat. intros [blk [Hb Hc]]. apply in_map_iff in Hb. destruct Hb as [ct [<- Hct]].
  apply in_map_iff in Hc. destruct Hc as [x [<- Hx]]. now exists ct, x.
Qed.

Lemma in_cls_filter_class cls cid : forall cs x, length cls = length cs -> In x (cls_filter cls cid cs) ->
  exists k, k < length cs /\ nth k cs x = x /\ nth k cls 0 = cid.
Proof.
  unfold cls_filter. induction cls as [|c cls IH]; intros [|y cs] x Hl Hin; simpl in *; try discriminate; [destruct Hin|].
  injection Hl as Hl. destruct (Nat.eqb c cid) eqn:E; simpl in Hin.
  - destruct Hin as [->|Hin].
    + exists 0. apply Nat.eqb_eq in E. repeat split; [lia | exact E].
    + destruct (IH cs x Hl Hin) as [k [Hk [Hx Hc]]]. exists (S k). repeat split; [lia | exact Hx | exact Hc].
  - destruct (IH cs x Hl Hin) as [k [Hk [Hx Hc]]]. exists (S k). repeat split; [lia | exact Hx | exact Hc].
Qed.

Lemma in_flat_blocks blocks cid tpl :
  In (cid, tpl) (flat_blocks blocks) -> cid < length blocks /\ In tpl (snd (nth cid blocks ([], []))).
Proof.
  unfold flat_blocks. rewrite in_concat. intros [l [Hl Hin]]. apply in_map_iff in Hl. destruct Hl as [[i b] [<- Hib]].
  apply in_map_iff in Hin. destruct Hin as [t [E Ht]]. simpl in E. injection E as <- <-.
  destruct (In_nth _ _ (0, ([], [])) Hib) as [n [Hn En]]. rewrite combine_length, seq_length, Nat.min_id in Hn.
  rewrite combine_nth in En by now rewrite seq_length. injection En as Ei Eb. rewrite seq_nth in Ei by exact Hn. simpl in Ei.
  subst i. split; [exact Hn|]. rewrite Eb. exact Ht.
Qed.

(* the adaptive step: every cell of the red-green-blue result has three pairwise distinct, existing vertices *)
Theorem adaptive_step_ok blocks p cells rf F :
  slots_ok 3 rf = true -> length rf = 3 -> adapt_okb blocks = true ->
  cells_ok 3 (length p) cells -> length F = length (entities true cells rf) ->
  let s := split_elements blocks p (c11_tables cells rf) F in
  cells_ok 3 (length (as_p s)) (as_t s).
Proof.
  intros Hrf Hl3 Hok Hcells HF s. unfold s, split_elements. cbn [as_p as_t].
  set (tb := c11_tables cells rf). set (cs := mk_ctxs (tb_t tb) (tb_t2e tb) (tb_t2f tb)).
  set (cls := map (fun c => class_of (map fst blocks) (pattern F (cf c))) cs).
  rewrite app_length, new_points_length by exact HF.
  apply Forall_forall. intros c Hin. apply in_grouped in Hin. destruct Hin as [[cid tpl] [x [Hct [Hx ->]]]]. cbn [fst snd] in *.
  assert (Hlen : length cls = length cs) by apply map_length.
  destruct (in_cls_filter_class cls cid cs x Hlen Hx) as [k [Hk [Ex Ec]]].
  unfold cs in Hk. rewrite mk_ctxs_length in Hk. change (tb_t tb) with cells in Hk.
  assert (Exk : x = cell_ctx tb k). { rewrite <- Ex. unfold cs. now apply mk_ctxs_nth_eq. }
  subst x. destruct (in_flat_blocks blocks cid tpl Hct) as [Hcid Htpl].
  (* the pattern of cell k is that of its class *)
  assert (Hpat : pattern F (cf (cell_ctx tb k)) = fst (nth cid blocks ([], []))).
  { unfold cls in Ec. rewrite (nth_map' _ _ (cell_ctx tb k) 0) in Ec by (unfold cs; now rewrite mk_ctxs_length).
    unfold cs in Ec. rewrite mk_ctxs_nth_eq in Ec by exact Hk.
    rewrite <- Ec. rewrite <- (class_of_spec (map fst blocks)) at 1.
    - rewrite Ec. now rewrite (nth_map' fst blocks ([], []) []) by exact Hcid.
    - rewrite Ec, map_length. exact Hcid. }
  unfold adapt_okb in Hok. rewrite forallb_forall in Hok. specialize (Hok (nth cid blocks ([], [])) (nth_In _ _ Hcid)).
  apply andb_true_iff in Hok. destruct Hok as [Hp3 Hok]. apply Nat.eqb_eq in Hp3.
  rewrite forallb_forall in Hok. specialize (Hok tpl Htpl). rewrite !andb_true_iff in Hok. destruct Hok as [[Hnd Hlt] Hrs].
  apply nodup_nref_spec in Hnd. apply Nat.eqb_eq in Hlt. rewrite forallb_forall in Hrs.
  destruct (cell_k cells 3 (length p) Hcells k Hk) as [Hndc [Hlenc Hb]]. rewrite Forall_forall in Hb.
  pose proof (slots_injective_of_distinct cells rf 3 Hrf (cells_ok_distinct _ _ _ Hcells)) as IF.
  assert (Hcf : forall j, j < 3 -> nth j (cf (cell_ctx tb k)) 0 = t2f_at cells rf j k).
  { intros j Hj. unfold cell_ctx. cbn [cf]. unfold tb. apply c11_t2f_entry; [exact Hk | lia]. }
  assert (Hmk : forall j, j < 3 -> nth j (fst (nth cid blocks ([], []))) false = true ->
                mk F (t2f_at cells rf j k) = true /\ t2f_at cells rf j k < length F).
  { intros j Hj Hn. split.
    - rewrite <- Hpat in Hn. rewrite <- Hcf by exact Hj. rewrite <- nth_pattern; [exact Hn|].
      rewrite <- (pattern_length F), Hpat. lia.
    - rewrite HF. apply t2f_bound; lia. }
  assert (BV : forall i, i < 3 -> nth i (nth k cells []) 0 < length p) by (intros i Hi; apply Hb, nth_In; lia).
  unfold child_a. split; [|split].
  - apply NoDup_map_inj_on; [exact Hnd|]. intros r r' Hr Hr' E.
    pose proof (Hrs r Hr) as Or. pose proof (Hrs r' Hr') as Or'.
    destruct r as [i|?|j|], r' as [i'|?|j'|]; try discriminate; simpl in E;
      repeat match goal with H : (_ && _) = true |- _ => apply andb_true_iff in H; destruct H end;
      repeat match goal with H : (_ <? _) = true |- _ => apply Nat.ltb_lt in H end.
    + f_equal. apply (proj1 (NoDup_nth (nth k cells []) 0) Hndc); [lia | lia | exact E].
    + exfalso. rewrite Hcf in E by assumption. destruct (Hmk j' ltac:(assumption) ltac:(assumption)) as [M L].
      pose proof (node_of_bound F (length p) _ L M). pose proof (BV i ltac:(assumption)).
      change (cv (cell_ctx tb k)) with (nth k cells []) in E. lia.
    + exfalso. rewrite Hcf in E by assumption. destruct (Hmk j ltac:(assumption) ltac:(assumption)) as [M L].
      pose proof (node_of_bound F (length p) _ L M). pose proof (BV i' ltac:(assumption)).
      change (cv (cell_ctx tb k)) with (nth k cells []) in E. lia.
    + f_equal. rewrite !Hcf in E by assumption.
      destruct (Hmk j ltac:(assumption) ltac:(assumption)) as [M L]. destruct (Hmk j' ltac:(assumption) ltac:(assumption)) as [M' L'].
      apply (IF k j j' Hk); [lia | lia|]. exact (node_of_inj F (length p) _ _ L L' M M' E).
  - now rewrite map_length.
  - apply Forall_forall. intros v Hv. apply in_map_iff in Hv. destruct Hv as [r [<- Hr]]. pose proof (Hrs r Hr) as Or.
    destruct r as [i|?|j|]; try discriminate; simpl;
      repeat match goal with H : (_ && _) = true |- _ => apply andb_true_iff in H; destruct H end;
      repeat match goal with H : (_ <? _) = true |- _ => apply Nat.ltb_lt in H end.
    + pose proof (BV i ltac:(assumption)). change (cv (cell_ctx tb k)) with (nth k cells []). lia.
    + rewrite Hcf by assumption. destruct (Hmk j ltac:(assumption) ltac:(assumption)) as [M L].
      pose proof (node_of_bound F (length p) _ L M). lia.
Qed.

(* ------------------------------------------------------------------ histories *)
Inductive hstep : Type :=
| HUniform
| HAdaptive (reorder : list (list nat) -> list (list nat)) (F : marks).   (* _adaptive_sort_mesh, the marking after closure *)

Section History.
  Variables (blocks : list (list bool * list (list nref))) (rf : list (list nat)).
  Variable ustep : list point -> list (list nat) -> list point * list (list nat).     (* one uniform refinement *)
  Hypothesis Hrf : slots_ok 3 rf = true.
  Hypothesis Hl3 : length rf = 3.
  Hypothesis Hok : adapt_okb blocks = true.
  Hypothesis Hu : forall p t, cells_ok 3 (length p) t -> cells_ok 3 (length (fst (ustep p t))) (snd (ustep p t)).

  Definition apply_hstep (st : hstep) (pt : list point * list (list nat)) : list point * list (list nat) :=
    match st with
    | HUniform => ustep (fst pt) (snd pt)
    | HAdaptive reorder F =>
        let s := split_elements blocks (fst pt) (c11_tables (reorder (snd pt)) rf) F in (as_p s, as_t s)
    end.

  (* what an adaptive step may do: re-order the vertices inside the cells, mark any set of facets *)
  Definition hstep_valid (st : hstep) (pt : list point * list (list nat)) : Prop :=
    match st with
    | HUniform => True
    | HAdaptive reorder F =>
        (cells_ok 3 (length (fst pt)) (snd pt) -> cells_ok 3 (length (fst pt)) (reorder (snd pt))) /\
        length F = length (entities true (reorder (snd pt)) rf)
    end.

  Fixpoint history_valid (steps : list hstep) (pt : list point * list (list nat)) : Prop :=
    match steps with
    | [] => True
    | st :: r => hstep_valid st pt /\ history_valid r (apply_hstep st pt)
    end.

  Theorem history_cells_ok steps : forall pt, cells_ok 3 (length (fst pt)) (snd pt) -> history_valid steps pt ->
    let r := fold_left (fun pt st => apply_hstep st pt) steps pt in cells_ok 3 (length (fst r)) (snd r).
  Proof.
    induction steps as [|st steps IH]; intros pt H Hv; simpl; [exact H|].
    destruct Hv as [Hst Hv]. apply IH; [|exact Hv].
    destruct st as [|reorder F]; simpl in *.
    - now apply Hu.
    - destruct Hst as [Hre HF]. exact (adaptive_step_ok blocks (fst pt) (reorder (snd pt)) rf F Hrf Hl3 Hok (Hre H) HF).
  Qed.
End History.
