(* C11 — proofs about Model.C11_Topo, for every cell list and every slot table. *)
From Coq Require Import List Arith ZArith Lia Bool Sorted Permutation.
Import ListNotations.
Require Import Base.C11_Unique Base.Corr Model.C11_Topo.

(* ------------------------------------------------------------------ list plumbing *)
Lemma nth_firstn_lt {A} n : forall (l : list A) k d, k < n -> nth k (firstn n l) d = nth k l d.
Proof.
  induction n as [|n IH]; intros l k d H; [lia|].
  destruct l as [|x l]; [now destruct k|]. destruct k as [|k]; simpl; [reflexivity|]. apply IH. lia.
Qed.

Lemma nth_skipn_add {A} n : forall (l : list A) k d, nth k (skipn n l) d = nth (n + k) l d.
Proof.
  induction n as [|n IH]; intros l k d; [reflexivity|].
  destruct l as [|x l]; [now destruct k|]. simpl. apply IH.
Qed.

Lemma skipn_add {A} n : forall m (l : list A), skipn n (skipn m l) = skipn (m + n) l.
Proof.
  intros m. induction m as [|m IH]; intros l; [reflexivity|].
  destruct l as [|x l]; simpl; [now rewrite skipn_nil | apply IH].
Qed.

Lemma reshape_length nr nc : forall l, length (reshape nr nc l) = nr.
Proof. induction nr as [|r IH]; intros l; simpl; [reflexivity|]. now rewrite IH. Qed.

Lemma reshape_nth nr nc : forall l s, s < nr -> nth s (reshape nr nc l) [] = firstn nc (skipn (s * nc) l).
Proof.
  induction nr as [|r IH]; intros l s H; [lia|]. destruct s as [|s]; simpl; [reflexivity|].
  rewrite IH by lia. f_equal. rewrite skipn_add. f_equal; lia.
Qed.

Lemma reshape_entry nr nc l s e d : s < nr -> e < nc ->
  nth e (nth s (reshape nr nc l) []) d = nth (s * nc + e) l d.
Proof. intros Hs He. rewrite reshape_nth by exact Hs. rewrite nth_firstn_lt by exact He. apply nth_skipn_add. Qed.

Lemma reshape_row_length nr nc l s : length l = nr * nc -> s < nr -> length (nth s (reshape nr nc l) []) = nc.
Proof.
  intros Hl Hs. rewrite reshape_nth by exact Hs. rewrite firstn_length, skipn_length. nia.
Qed.

Lemma concat_reshape nr nc : forall l, length l = nr * nc -> concat (reshape nr nc l) = l.
Proof.
  induction nr as [|r IH]; intros l H; simpl in *.
  - symmetry. now apply length_zero_iff_nil.
  - rewrite IH; [apply firstn_skipn | rewrite skipn_length; lia].
Qed.

Lemma raw_keys_length cells indices : length (raw_keys cells indices) = length indices * length cells.
Proof.
  unfold raw_keys. induction indices as [|ix r IH]; simpl; [reflexivity|].
  now rewrite app_length, map_length, IH.
Qed.

Lemma raw_keys_nth cells : forall indices s e, s < length indices -> e < length cells ->
  nth (s * length cells + e) (raw_keys cells indices) [] = slotv (nth s indices []) (nth e cells []).
Proof.
  unfold raw_keys. induction indices as [|ix r IH]; intros s e Hs He; simpl in Hs; [lia|].
  simpl flat_map. destruct s as [|s].
  - simpl. rewrite app_nth1 by (now rewrite map_length). now rewrite (nth_map_d _ cells e [] []).
  - rewrite app_nth2 by (rewrite map_length; simpl; lia). rewrite map_length.
    replace (S s * length cells + e - length cells) with (s * length cells + e) by (simpl; lia).
    simpl nth. apply IH; [lia | exact He].
Qed.

Lemma pos_decomp nt ns p : p < ns * nt -> p / nt < ns /\ p mod nt < nt /\ p = (p / nt) * nt + p mod nt.
Proof.
  intros H. assert (Hnt : nt <> 0) by (intros ->; lia).
  split; [apply Nat.div_lt_upper_bound; [exact Hnt | lia]|].
  split; [now apply Nat.mod_upper_bound|]. rewrite (Nat.div_mod p nt Hnt) at 1. lia.
Qed.

Lemma pos_mod nt s e : e < nt -> (s * nt + e) mod nt = e.
Proof. intros H. rewrite Nat.add_comm, Nat.mod_add by lia. now apply Nat.mod_small. Qed.

Lemma pos_div nt s e : e < nt -> (s * nt + e) / nt = s.
Proof. intros H. rewrite Nat.add_comm, Nat.div_add by lia. rewrite Nat.div_small by exact H. reflexivity. Qed.

Lemma in_le_list_max l x : In x l -> x <= list_max l.
Proof.
  intros H. assert (G : Forall (fun k => k <= list_max l) l) by (now apply list_max_le).
  rewrite Forall_forall in G. now apply G.
Qed.

Lemma strongly_sorted_filter {A} (R : A -> A -> Prop) (p : A -> bool) l :
  StronglySorted R l -> StronglySorted R (filter p l).
Proof.
  induction 1 as [|x l Hs IH Hf]; simpl; [constructor|].
  destruct (p x); [|exact IH]. constructor; [exact IH|].
  rewrite Forall_forall in *. intros y Hy. apply filter_In in Hy. now apply Hf.
Qed.

Lemma seq_strongly_sorted n : forall a, StronglySorted Nat.lt (seq a n).
Proof.
  induction n as [|n IH]; intros a; simpl; constructor; [apply IH|].
  rewrite Forall_forall. intros y Hy. apply in_seq in Hy. lia.
Qed.

(* ------------------------------------------------------------------ Mesh._sort_entities on one column *)
Lemma dfd_cons2 x y r : drop_first_dup (x :: y :: r)
  = if x =? y then Some (x :: r) else option_map (cons x) (drop_first_dup (y :: r)).
Proof. reflexivity. Qed.

Lemma dfd_none l : NoDup l -> drop_first_dup l = None.
Proof.
  induction l as [|x [|y r] IH]; intros H; try reflexivity. rewrite dfd_cons2.
  inversion H as [|? ? Hx Hr]; subst. destruct (Nat.eqb_spec x y) as [->|_]; [exfalso; apply Hx; now left|].
  now rewrite (IH Hr).
Qed.

Lemma dfd_spec l : forall l', drop_first_dup l = Some l' ->
  hd 0 l' = hd 0 l /\ exists y, Permutation l (y :: l') /\ In y l'.
Proof.
  induction l as [|x [|y r] IH]; intros l' H; try discriminate. rewrite dfd_cons2 in H.
  destruct (Nat.eqb_spec x y) as [->|Hne].
  - inversion H; subst. split; [reflexivity|]. exists y. split; [apply Permutation_refl | now left].
  - destruct (drop_first_dup (y :: r)) as [r'|] eqn:E; simpl in H; [|discriminate]. inversion H; subst.
    destruct (IH r' eq_refl) as [_ [z [Hp Hz]]]. split; [reflexivity|]. exists z. split.
    + eapply Permutation_trans; [apply perm_skip, Hp | apply perm_swap].
    + now right.
Qed.

Lemma sort_entity_nodup l : NoDup l -> sort_entity l = isort l.
Proof.
  intros H. unfold sort_entity. rewrite dfd_none; [reflexivity|].
  eapply Permutation_NoDup; [apply isort_perm | exact H].
Qed.

Lemma sort_entity_in l x : In x (sort_entity l) <-> In x l.
Proof.
  unfold sort_entity. destruct (drop_first_dup (isort l)) as [s'|] eqn:E; [|apply isort_in].
  destruct (dfd_spec _ _ E) as [Hh [y [Hp Hy]]]. rewrite <- (isort_in l x). split.
  - intros [H|H].
    + subst x. rewrite <- Hh. destruct s' as [|z s']; [destruct Hy|]. simpl.
      eapply Permutation_in; [apply Permutation_sym, Hp | right; now left].
    + eapply Permutation_in; [apply Permutation_sym, Hp | now right].
  - intros H. apply (Permutation_in _ Hp) in H. destruct H as [<-|H]; right; assumption.
Qed.

Lemma sort_entity_sorted l : StronglySorted le (sort_entity l).
Proof.
  unfold sort_entity. pose proof (isort_strongly_sorted l) as Hs.
  destruct (drop_first_dup (isort l)) as [s'|] eqn:E; [|exact Hs].
  assert (G : forall s t, StronglySorted le s -> drop_first_dup s = Some t -> StronglySorted le t).
  { clear. induction s as [|x [|y r] IH]; intros t Hs H; try discriminate. rewrite dfd_cons2 in H.
    inversion Hs as [|? ? Hs' Hf]; subst. destruct (Nat.eqb_spec x y) as [->|Hne].
    - inversion H; subst. exact Hs'.
    - destruct (drop_first_dup (y :: r)) as [r'|] eqn:E; simpl in H; [|discriminate]. inversion H; subst.
      constructor; [now apply IH|]. destruct (dfd_spec _ _ E) as [_ [z [Hp Hz]]].
      rewrite Forall_forall in *. intros w Hw. apply Hf. eapply Permutation_in; [apply Permutation_sym, Hp | now right]. }
  pose proof (G _ _ Hs E) as Hs'. destruct (dfd_spec _ _ E) as [Hh _]. constructor; [exact Hs'|].
  rewrite <- Hh. destruct s' as [|z s']; [constructor|]. simpl. inversion Hs' as [|? ? _ Hf]; subst.
  constructor; [lia|]. rewrite Forall_forall in *. intros w Hw. specialize (Hf w Hw). lia.
Qed.

(* a padded tuple (distinct vertices, one of them repeated at the end: the wedge's [0, 1, 2, 0]) gets the key
   [smallest, sorted vertices ...], whatever vertex is repeated *)
Lemma sort_entity_padded l x : NoDup l -> In x l ->
  sort_entity (l ++ [x]) = hd 0 (isort l) :: isort l.
Proof.
  intros Hnd Hx. unfold sort_entity.
  destruct (drop_first_dup (isort (l ++ [x]))) as [s'|] eqn:E.
  - destruct (dfd_spec _ _ E) as [Hh [y [Hp Hy]]].
    assert (Hperm : Permutation (x :: l) (y :: s')).
    { eapply Permutation_trans; [|exact Hp]. eapply Permutation_trans; [|apply isort_perm].
      apply Permutation_cons_append. }
    assert (Hyx : y = x).
    { destruct (Nat.eq_dec y x) as [|Hne]; [assumption|]. exfalso.
      assert (H1 : In y (x :: l)) by (eapply Permutation_in; [apply Permutation_sym, Hperm | now left]).
      destruct H1 as [H1|H1]; [congruence|].
      (* y occurs twice in y :: s' but once in x :: l *)
      assert (Hc : count_occ Nat.eq_dec (x :: l) y = count_occ Nat.eq_dec (y :: s') y) by (now apply Permutation_count_occ).
      simpl in Hc. destruct (Nat.eq_dec x y) as [e|_]; [congruence|]. destruct (Nat.eq_dec y y) as [_|n]; [|congruence].
      assert (count_occ Nat.eq_dec l y = 1) by (apply NoDup_count_occ'; assumption).
      assert (count_occ Nat.eq_dec s' y > 0) by (now apply count_occ_In). lia. }
    subst y. apply Permutation_cons_inv in Hperm.
    assert (Es : s' = isort l).
    { apply sorted_perm_eq; [| apply isort_strongly_sorted |].
      - assert (G : StronglySorted le (hd 0 (isort (l ++ [x])) :: s')).
        { pose proof (sort_entity_sorted (l ++ [x])) as S. unfold sort_entity in S. now rewrite E in S. }
        now inversion G.
      - eapply Permutation_trans; [apply Permutation_sym, Hperm | apply isort_perm]. }
    rewrite <- Hh, Es. reflexivity.
  - exfalso. assert (Hn : NoDup (isort (l ++ [x]))).
    { clear -E. remember (isort (l ++ [x])) as s eqn:Hs. pose proof (isort_strongly_sorted (l ++ [x])) as S. rewrite <- Hs in S.
      clear Hs. induction s as [|a [|b r] IH]; [constructor | constructor; [intros [] | constructor] |].
      rewrite dfd_cons2 in E. destruct (Nat.eqb_spec a b) as [|Hne]; [discriminate|].
      destruct (drop_first_dup (b :: r)) eqn:E'; simpl in E; [discriminate|]. inversion S as [|? ? S' F]; subst.
      constructor; [|now apply IH]. rewrite Forall_forall in F. intros [Hab|Hin]; [congruence|].
      inversion S' as [|? ? _ F']; subst. rewrite Forall_forall in F'. specialize (F' a Hin).
      assert (b <= a) by exact F'. assert (a <= b) by (apply F; now left). lia. }
    assert (Hn' : NoDup (l ++ [x])) by (eapply Permutation_NoDup; [apply Permutation_sym, isort_perm | exact Hn]).
    apply NoDup_remove_2 in Hn'. apply Hn'. rewrite app_nil_r. exact Hx.
Qed.

(* the key of a padded triangle depends only on its vertex SET *)
Theorem padded_key_depends_on_vertex_set l1 l2 x1 x2 :
  NoDup l1 -> NoDup l2 -> In x1 l1 -> In x2 l2 -> (forall v, In v l1 <-> In v l2) ->
  sort_entity (l1 ++ [x1]) = sort_entity (l2 ++ [x2]).
Proof.
  intros N1 N2 H1 H2 Hs. rewrite !sort_entity_padded by assumption.
  assert (E : isort l1 = isort l2) by (apply isort_of_perm, NoDup_Permutation; assumption).
  now rewrite E.
Qed.

(* ------------------------------------------------------------------ build_entities *)
Definition keys (cells indices : list (list nat)) : list (list nat) := map sort_entity (raw_keys cells indices).
(* the sorted vertex tuple of local slot s of cell e *)
Definition key (cells indices : list (list nat)) (s e : nat) : list nat :=
  sort_entity (slotv (nth s indices []) (nth e cells [])).
Definition t2f_at (cells indices : list (list nat)) (s e : nat) : nat :=
  nth e (nth s (mapping cells indices) []) 0.

Section Entities.
  Variables cells indices : list (list nat).
  Notation nt := (length cells).
  Notation ns := (length indices).
  Notation E := (entities true cells indices).
  Notation ks := (keys cells indices).

  Lemma entities_true : E = uniq lex_cmp ks.
  Proof. reflexivity. Qed.

  Lemma mapping_eq : mapping cells indices = reshape ns nt (inverse lex_cmp ks).
  Proof. reflexivity. Qed.

  Lemma keys_length : length ks = ns * nt.
  Proof. unfold keys. now rewrite map_length, raw_keys_length. Qed.

  Lemma keys_nth s e : s < ns -> e < nt -> nth (s * nt + e) ks [] = key cells indices s e.
  Proof.
    intros Hs He. unfold keys, key.
    rewrite (nth_map_d sort_entity _ _ [] []) by (rewrite raw_keys_length; nia).
    now rewrite raw_keys_nth.
  Qed.

  Lemma t2f_at_eq s e : s < ns -> e < nt -> t2f_at cells indices s e = nth (s * nt + e) (inverse lex_cmp ks) 0.
  Proof. intros Hs He. unfold t2f_at. rewrite mapping_eq. now apply reshape_entry. Qed.

  Lemma mapping_shape : length (mapping cells indices) = ns /\
    forall s, s < ns -> length (nth s (mapping cells indices) []) = nt.
  Proof.
    rewrite mapping_eq. split; [apply reshape_length|]. intros s Hs.
    apply reshape_row_length; [|exact Hs]. now rewrite inverse_length, keys_length.
  Qed.

  Lemma concat_mapping : concat (mapping cells indices) = inverse lex_cmp ks.
  Proof. rewrite mapping_eq. apply concat_reshape. now rewrite inverse_length, keys_length. Qed.

  (* cell e, slot s: the entity numbered t2f[s][e] is the sorted vertex tuple of that slot *)
  Theorem t2f_slotwise s e : s < ns -> e < nt ->
    nth (t2f_at cells indices s e) E [] = key cells indices s e.
  Proof.
    intros Hs He. rewrite t2f_at_eq by assumption. rewrite entities_true.
    rewrite (inverse_correct _ lex_cmp lex_cmp_eq) by (rewrite keys_length; nia).
    now apply keys_nth.
  Qed.

  Theorem t2f_bound s e : s < ns -> e < nt -> t2f_at cells indices s e < length E.
  Proof.
    intros Hs He. rewrite t2f_at_eq by assumption. rewrite entities_true.
    apply (inverse_bound _ lex_cmp lex_cmp_eq). rewrite keys_length. nia.
  Qed.

  Theorem t2f_onto f : f < length E -> exists s e, s < ns /\ e < nt /\ t2f_at cells indices s e = f.
  Proof.
    intros Hf. rewrite entities_true in Hf.
    destruct (inverse_onto _ lex_cmp lex_cmp_eq lex_cmp_antisym lex_cmp_trans ks f Hf) as [k [Hk Hinv]].
    rewrite keys_length in Hk. destruct (pos_decomp _ _ _ Hk) as [H1 [H2 H3]].
    exists (k / nt), (k mod nt). repeat split; try assumption.
    rewrite t2f_at_eq by assumption. now rewrite <- H3.
  Qed.

  (* two (slot, cell) entries name the same entity iff they span the same vertex set *)
  Theorem t2f_eq_iff s e s' e' : s < ns -> e < nt -> s' < ns -> e' < nt ->
    (t2f_at cells indices s e = t2f_at cells indices s' e' <-> key cells indices s e = key cells indices s' e').
  Proof.
    intros Hs He Hs' He'. rewrite !t2f_at_eq by assumption.
    rewrite (inverse_eq_iff _ lex_cmp lex_cmp_eq ks _ _ []) by (rewrite keys_length; nia).
    now rewrite !keys_nth.
  Qed.

  Lemma in_entities c : In c E <-> exists s e, s < ns /\ e < nt /\ c = key cells indices s e.
  Proof.
    rewrite entities_true, (uniq_in _ lex_cmp lex_cmp_eq). split.
    - intros H. destruct (In_nth _ _ [] H) as [k [Hk Hn]]. rewrite keys_length in Hk.
      destruct (pos_decomp _ _ _ Hk) as [H1 [H2 H3]]. exists (k / nt), (k mod nt).
      repeat split; try assumption. rewrite <- keys_nth by assumption. now rewrite <- H3.
    - intros [s [e [Hs [He ->]]]]. rewrite <- keys_nth by assumption. apply nth_In. rewrite keys_length. nia.
  Qed.

  (* every entity once, each a sorted tuple, listed in strictly increasing lexicographic order *)
  Theorem entities_unique_sorted :
    StronglySorted (lt lex_cmp) E /\ NoDup E /\ Forall (fun c => StronglySorted le c) E.
  Proof.
    rewrite entities_true. split; [|split].
    - apply (uniq_strongly_sorted _ lex_cmp lex_cmp_antisym lex_cmp_trans).
    - apply (uniq_NoDup _ lex_cmp lex_cmp_eq lex_cmp_antisym lex_cmp_trans).
    - rewrite Forall_forall. intros c Hc. rewrite <- entities_true in Hc. apply in_entities in Hc.
      destruct Hc as [s [e [_ [_ ->]]]]. apply sort_entity_sorted.
  Qed.

  (* sort=False (hexahedra): column j is the UNSORTED slot tuple of the first (slot, cell) that spans entity j *)
  Theorem entities_unsorted_spec j : j < length E ->
    length (entities false cells indices) = length E /\
    sort_entity (nth j (entities false cells indices) []) = nth j E [] /\
    exists s e, s < ns /\ e < nt /\ t2f_at cells indices s e = j /\
      nth j (entities false cells indices) [] = slotv (nth s indices []) (nth e cells []) /\
      forall s' e', s' < ns -> e' < nt -> s' * nt + e' < s * nt + e -> t2f_at cells indices s' e' <> j.
  Proof.
    intros Hj.
    assert (Hfalse : entities false cells indices
                     = map (fun k => nth k (raw_keys cells indices) []) (first_index lex_cmp ks)) by reflexivity.
    rewrite Hfalse. clear Hfalse.
    rewrite map_length, first_index_length. rewrite entities_true in *.
    split; [reflexivity|].
    destruct (first_index_correct _ lex_cmp lex_cmp_eq ks j [] Hj) as [Hb [Hn Hfirst]].
    set (k := nth j (first_index lex_cmp ks) 0) in *.
    rewrite (nth_map_d _ (first_index lex_cmp ks) j 0 []) by (now rewrite first_index_length).
    fold k. rewrite keys_length in Hb. destruct (pos_decomp _ _ _ Hb) as [H1 [H2 H3]].
    assert (Hraw : nth k (raw_keys cells indices) [] = slotv (nth (k / nt) indices []) (nth (k mod nt) cells [])).
    { rewrite H3 at 1. now apply raw_keys_nth. }
    assert (Hk : nth k ks [] = sort_entity (nth k (raw_keys cells indices) [])).
    { unfold keys. apply (nth_map_d sort_entity _ _ [] []). rewrite raw_keys_length. lia. }
    split; [now rewrite <- Hk|].
    exists (k / nt), (k mod nt). repeat split; try assumption.
    - rewrite t2f_at_eq by assumption. rewrite <- H3.
      rewrite (inverse_nth _ lex_cmp ks k []) by (rewrite keys_length; lia). rewrite Hn.
      apply (index_of_NoDup _ lex_cmp lex_cmp_eq); [|exact Hj].
      apply (uniq_NoDup _ lex_cmp lex_cmp_eq lex_cmp_antisym lex_cmp_trans).
    - intros s' e' Hs' He' Hlt Heq. rewrite <- H3 in Hlt.
      apply (Hfirst _ Hlt). rewrite t2f_at_eq in Heq by assumption.
      rewrite <- Heq. symmetry. apply (inverse_correct _ lex_cmp lex_cmp_eq). rewrite keys_length. nia.
  Qed.
End Entities.

(* np.unique depends only on the set of keys: two slot tables / cell lists spanning the same set of sorted
   tuples give the SAME entity array (used for f2e: edges rebuilt from the facets are the mesh edges) *)
Theorem entities_ext cells1 idx1 cells2 idx2 :
  (forall c, In c (keys cells1 idx1) <-> In c (keys cells2 idx2)) ->
  entities true cells1 idx1 = entities true cells2 idx2.
Proof.
  intros H. rewrite !entities_true.
  now apply (uniq_ext _ lex_cmp lex_cmp_eq lex_cmp_antisym lex_cmp_trans).
Qed.

(* ------------------------------------------------------------------ build_inverse *)
Lemma first_pos_spec f e : In f e ->
  first_pos f e < length e /\ nth (first_pos f e) e 0 = f /\ forall k, k < first_pos f e -> nth k e 0 <> f.
Proof.
  intros H. unfold first_pos. split; [now apply (index_of_lt _ Nat.compare nat_cmp_eq)|].
  split; [now apply (index_of_nth _ Nat.compare nat_cmp_eq)|].
  intros k Hk. now apply (index_of_first _ Nat.compare nat_cmp_eq).
Qed.

Lemma last_pos_spec f e : In f e ->
  last_pos f e < length e /\ nth (last_pos f e) e 0 = f /\
  forall k, last_pos f e < k -> k < length e -> nth k e 0 <> f.
Proof.
  intros H. unfold last_pos. assert (Hr : In f (rev e)) by (now apply in_rev in H).
  pose proof (index_of_lt _ Nat.compare nat_cmp_eq f (rev e) Hr) as Hlt. rewrite rev_length in Hlt.
  set (i := index_of Nat.compare f (rev e)) in *.
  split; [lia|]. split.
  - pose proof (index_of_nth _ Nat.compare nat_cmp_eq f (rev e) 0 Hr) as Hn. fold i in Hn.
    rewrite rev_nth in Hn by exact Hlt. replace (length e - i - 1) with (length e - S i) by lia. exact Hn.
  - intros k Hk1 Hk2 Heq.
    assert (Hj : length e - S k < i) by lia.
    apply (index_of_first _ Nat.compare nat_cmp_eq f (rev e) 0 _ Hj).
    rewrite rev_nth by lia. replace (length e - S (length e - S k)) with k by lia. exact Heq.
Qed.

Definition row0 (f2t : list (list Z)) (f : nat) : Z := nth f (nth 0 f2t []) 0%Z.
Definition row1 (f2t : list (list Z)) (f : nat) : Z := nth f (nth 1 f2t []) 0%Z.

Lemma build_inverse_rows nt mp :
  let e := concat mp in
  length (nth 0 (build_inverse nt mp) []) = S (list_max e) /\
  length (nth 1 (build_inverse nt mp) []) = S (list_max e) /\
  forall f, In f e ->
    row0 (build_inverse nt mp) f = Z.of_nat (first_pos f e mod nt) /\
    row1 (build_inverse nt mp) f = if first_pos f e mod nt =? last_pos f e mod nt then (-1)%Z
                                    else Z.of_nat (last_pos f e mod nt).
Proof.
  intros e. unfold build_inverse, inverse_rows, row0, row1. fold e.
  remember (S (list_max e)) as n eqn:Hdefn. cbv beta iota zeta.
  set (r0 := map (fun f => if memb Nat.compare f e then first_pos f e mod nt else 0) (seq 0 n)).
  set (r1 := map (fun f => if memb Nat.compare f e then last_pos f e mod nt else 0) (seq 0 n)).
  assert (L0 : length r0 = n) by (unfold r0; now rewrite map_length, seq_length).
  assert (L1 : length r1 = n) by (unfold r1; now rewrite map_length, seq_length).
  simpl nth. split; [rewrite map_length; lia|]. split; [rewrite map_length, combine_length; lia|].
  intros f Hf. assert (Hn : f < n) by (rewrite Hdefn; apply in_le_list_max in Hf; lia).
  assert (Hm : memb Nat.compare f e = true) by (now apply (memb_in _ Nat.compare nat_cmp_eq)).
  assert (E0 : nth f r0 0 = first_pos f e mod nt) by (unfold r0; rewrite nth_seq_map by exact Hn; now rewrite Hm).
  assert (E1 : nth f r1 0 = last_pos f e mod nt) by (unfold r1; rewrite nth_seq_map by exact Hn; now rewrite Hm).
  split.
  - rewrite (nth_map_d Z.of_nat r0 f 0 0%Z) by lia. now rewrite E0.
  - rewrite (nth_map_d _ (combine r0 r1) f (0, 0) 0%Z) by (rewrite combine_length; lia).
    rewrite combine_nth by lia. simpl. now rewrite E0, E1.
Qed.

(* the facet-to-cell table of a cell list *)
Definition f2t_of (cells indices : list (list nat)) : list (list Z) :=
  build_inverse (length cells) (mapping cells indices).

(* cell e has entity f in one of its local slots *)
Definition contains (cells indices : list (list nat)) (f e : nat) : Prop :=
  exists s, s < length indices /\ t2f_at cells indices s e = f.

Section Inverse.
  Variables cells indices : list (list nat).
  Notation nt := (length cells).
  Notation ns := (length indices).
  Notation E := (entities true cells indices).
  Notation ks := (keys cells indices).
  Notation IX := (inverse lex_cmp ks).
  Notation F2T := (f2t_of cells indices).

  Lemma IX_length : length IX = ns * nt.
  Proof. now rewrite inverse_length, keys_length. Qed.

  Lemma IX_at s e : s < ns -> e < nt -> nth (s * nt + e) IX 0 = t2f_at cells indices s e.
  Proof. intros Hs He. symmetry. now apply t2f_at_eq. Qed.

  Lemma in_IX f : f < length E -> In f IX.
  Proof.
    intros Hf. destruct (t2f_onto cells indices f Hf) as [s [e [Hs [He Heq]]]].
    rewrite <- Heq, <- IX_at by assumption. apply nth_In. rewrite IX_length. nia.
  Qed.

  Lemma pos_contains p f : p < ns * nt -> nth p IX 0 = f -> contains cells indices f (p mod nt).
  Proof.
    intros Hp Hn. destruct (pos_decomp _ _ _ Hp) as [H1 [H2 H3]]. exists (p / nt). split; [exact H1|].
    rewrite <- IX_at by assumption. now rewrite <- H3.
  Qed.

  Theorem f2t_shape : 0 < nt -> 0 < ns ->
    length F2T = 2 /\ length (nth 0 F2T []) = length E /\ length (nth 1 F2T []) = length E.
  Proof.
    intros Hnt Hns. unfold f2t_of.
    destruct (build_inverse_rows nt (mapping cells indices)) as [L0 [L1 _]].
    rewrite concat_mapping in L0, L1.
    assert (Hmax : S (list_max IX) = length E).
    { assert (Hne : 0 < length E).
      { destruct E eqn:HE; [|simpl; lia]. exfalso.
        assert (Hin : In (key cells indices 0 0) E) by (apply in_entities; exists 0, 0; repeat split; assumption).
        rewrite HE in Hin. destruct Hin. }
      assert (Hle : list_max IX <= length E - 1).
      { apply list_max_le. rewrite Forall_forall. intros x Hx. destruct (In_nth _ _ 0 Hx) as [k [Hk Hn]].
        rewrite IX_length in Hk. destruct (pos_decomp _ _ _ Hk) as [H1 [H2 H3]].
        rewrite <- Hn, H3, IX_at by assumption. pose proof (t2f_bound cells indices _ _ H1 H2). lia. }
      assert (Hge : length E - 1 <= list_max IX) by (apply in_le_list_max, in_IX; lia).
      lia. }
    split; [|split]; [| now rewrite L0 | now rewrite L1].
    unfold build_inverse. destruct (inverse_rows nt (concat (mapping cells indices))). reflexivity.
  Qed.

  (* the cells listed for f do contain f; the second differs from the first *)
  Theorem f2t_sound f : f < length E ->
    (exists e0, e0 < nt /\ row0 F2T f = Z.of_nat e0 /\ contains cells indices f e0 /\
       (row1 F2T f = (-1)%Z \/
        exists e1, e1 < nt /\ row1 F2T f = Z.of_nat e1 /\ contains cells indices f e1 /\ e1 <> e0)).
  Proof.
    intros Hf. pose proof (in_IX f Hf) as Hin.
    destruct (build_inverse_rows nt (mapping cells indices)) as [_ [_ Hrows]].
    rewrite concat_mapping in Hrows. destruct (Hrows f Hin) as [R0 R1]. fold F2T in R0, R1.
    destruct (first_pos_spec f IX Hin) as [A1 [A2 _]]. destruct (last_pos_spec f IX Hin) as [B1 [B2 _]].
    rewrite IX_length in A1, B1.
    exists (first_pos f IX mod nt). split; [apply (pos_decomp _ _ _ A1)|]. split; [exact R0|].
    split; [now apply pos_contains|].
    rewrite R1. destruct (Nat.eqb_spec (first_pos f IX mod nt) (last_pos f IX mod nt)) as [Heq|Hne]; [now left|].
    right. exists (last_pos f IX mod nt). split; [apply (pos_decomp _ _ _ B1)|]. split; [reflexivity|].
    split; [now apply pos_contains | congruence].
  Qed.

  (* H1: the slots of one cell are pairwise different entities *)
  Definition slots_injective : Prop :=
    forall e s s', e < nt -> s < ns -> s' < ns ->
      t2f_at cells indices s e = t2f_at cells indices s' e -> s = s'.

  (* -1  <=>  exactly one cell contains the facet (existence is f2t_sound) *)
  Theorem f2t_boundary_iff f : slots_injective -> f < length E ->
    (row1 F2T f = (-1)%Z <->
     forall e e', e < nt -> e' < nt -> contains cells indices f e -> contains cells indices f e' -> e = e').
  Proof.
    intros Hinj Hf. pose proof (in_IX f Hf) as Hin.
    destruct (build_inverse_rows nt (mapping cells indices)) as [_ [_ Hrows]].
    rewrite concat_mapping in Hrows. destruct (Hrows f Hin) as [_ R1]. fold F2T in R1.
    destruct (first_pos_spec f IX Hin) as [A1 [A2 A3]]. destruct (last_pos_spec f IX Hin) as [B1 [B2 B3]].
    rewrite IX_length in A1, B1.
    set (p0 := first_pos f IX) in *. set (p1 := last_pos f IX) in *.
    destruct (pos_decomp _ _ _ A1) as [A4 [A5 A6]]. destruct (pos_decomp _ _ _ B1) as [B4 [B5 B6]].
    rewrite R1. split.
    - intros Hm1. destruct (Nat.eqb_spec (p0 mod nt) (p1 mod nt)) as [Hc|Hc]; [|lia].
      assert (Hs : p0 / nt = p1 / nt).
      { apply (Hinj (p0 mod nt)); try assumption.
        rewrite <- IX_at by assumption. rewrite <- A6, A2.
        rewrite Hc. rewrite <- IX_at by assumption. now rewrite <- B6, B2. }
      assert (Hp : p0 = p1) by (rewrite A6, B6, Hs, Hc; reflexivity).
      assert (Huniq : forall e, e < nt -> contains cells indices f e -> e = p0 mod nt).
      { intros e He [s [Hs' Hc']]. rewrite <- IX_at in Hc' by assumption.
        assert (Hq : s * nt + e < ns * nt) by nia.
        assert (Hge : p0 <= s * nt + e).
        { destruct (le_lt_dec p0 (s * nt + e)) as [|Hlt]; [assumption|]. exfalso. exact (A3 _ Hlt Hc'). }
        assert (Hle : s * nt + e <= p1).
        { destruct (le_lt_dec (s * nt + e) p1) as [|Hlt]; [assumption|]. exfalso.
          apply (B3 _ Hlt); [rewrite IX_length; exact Hq | exact Hc']. }
        assert (Heq : s * nt + e = p0) by lia. rewrite <- Heq. symmetry. now apply pos_mod. }
      intros e e' He He' Ce Ce'. rewrite (Huniq e He Ce), (Huniq e' He' Ce'). reflexivity.
    - intros Hone. assert (Hc : p0 mod nt = p1 mod nt).
      { apply Hone; try assumption; now apply pos_contains. }
      apply Nat.eqb_eq in Hc. now rewrite Hc.
  Qed.

  (* under "at most two cells per facet" the table lists EXACTLY the cells containing the facet *)
  Theorem f2t_exact f : slots_injective -> f < length E ->
    (forall e1 e2 e3, e1 < nt -> e2 < nt -> e3 < nt ->
       contains cells indices f e1 -> contains cells indices f e2 -> contains cells indices f e3 ->
       e1 = e2 \/ e1 = e3 \/ e2 = e3) ->
    forall e, e < nt ->
      (contains cells indices f e <-> (Z.of_nat e = row0 F2T f \/ Z.of_nat e = row1 F2T f)).
  Proof.
    intros Hinj Hf Htwo e He.
    destruct (f2t_sound f Hf) as [e0 [He0 [R0 [C0 Hsnd]]]]. split.
    - intros Ce. destruct Hsnd as [Hm1 | [e1 [He1 [R1 [C1 Hne]]]]].
      + left. rewrite R0. f_equal.
        apply (proj1 (f2t_boundary_iff f Hinj Hf) Hm1); assumption.
      + destruct (Htwo e e0 e1 He He0 He1 Ce C0 C1) as [H|[H|H]].
        * left. now rewrite R0, H.
        * right. now rewrite R1, H.
        * exfalso. now apply Hne.
    - intros [H|H].
      + rewrite R0 in H. apply Nat2Z.inj in H. now subst.
      + destruct Hsnd as [Hm1 | [e1 [He1 [R1 [C1 Hne]]]]]; [rewrite Hm1 in H; lia|].
        rewrite R1 in H. apply Nat2Z.inj in H. now subst.
  Qed.
End Inverse.

(* ------------------------------------------------------------------ H1 from "cell vertices pairwise distinct" *)
Lemma existsb_eqb_in i b : existsb (Nat.eqb i) b = true <-> In i b.
Proof.
  rewrite existsb_exists. split.
  - intros [x [Hx He]]. apply Nat.eqb_eq in He. now subst.
  - intros H. exists i. split; [exact H | apply Nat.eqb_refl].
Qed.

Lemma subset_spec a b : subset a b = true <-> (forall i, In i a -> In i b).
Proof.
  unfold subset. rewrite forallb_forall. split; intros H i Hi.
  - apply existsb_eqb_in. now apply H.
  - apply existsb_eqb_in. now apply H.
Qed.

Lemma pairwise_distinct_nth l : pairwise_distinct l = true ->
  forall s s', s < s' -> s' < length l ->
    subset (nth s l []) (nth s' l []) && subset (nth s' l []) (nth s l []) = false.
Proof.
  induction l as [|a r IH]; intros H s s' Hlt Hlen; simpl in Hlen; [lia|].
  simpl in H. apply andb_true_iff in H. destruct H as [Ha Hr].
  destruct s' as [|s']; [lia|]. destruct s as [|s].
  - simpl. rewrite forallb_forall in Ha. apply negb_true_iff. apply Ha. apply nth_In. lia.
  - simpl. apply IH; [exact Hr | lia | lia].
Qed.

Lemma slot_keys_differ c ix1 ix2 : NoDup c ->
  (forall i, In i ix1 -> i < length c) -> (forall i, In i ix2 -> i < length c) ->
  subset ix1 ix2 && subset ix2 ix1 = false ->
  sort_entity (slotv ix1 c) <> sort_entity (slotv ix2 c).
Proof.
  intros Hnd B1 B2 Hsub Heq.
  assert (G : forall a b, (forall i, In i a -> i < length c) -> (forall i, In i b -> i < length c) ->
              sort_entity (slotv a c) = sort_entity (slotv b c) -> subset a b = true).
  { intros a b Ba Bb Hab. apply subset_spec. intros i Hi.
    assert (Hin : In (nth i c 0) (sort_entity (slotv a c))).
    { apply sort_entity_in. unfold slotv. apply in_map_iff. now exists i. }
    rewrite Hab in Hin. apply (proj1 (sort_entity_in _ _)) in Hin. unfold slotv in Hin. apply in_map_iff in Hin.
    destruct Hin as [j [Hj Hjb]].
    assert (j = i). { apply (proj1 (NoDup_nth c 0) Hnd); [now apply Bb | now apply Ba | exact Hj]. }
    now subst. }
  rewrite (G ix1 ix2 B1 B2 Heq), (G ix2 ix1 B2 B1 (eq_sym Heq)) in Hsub. discriminate.
Qed.

(* slot tables that pass slots_ok + cells with pairwise distinct vertices  ==>  H1 *)
Theorem slots_injective_of_distinct cells indices nn :
  slots_ok nn indices = true ->
  Forall (fun c => NoDup c /\ length c = nn) cells ->
  slots_injective cells indices.
Proof.
  intros Hok Hcells e s s' He Hs Hs' Heq.
  apply (t2f_eq_iff cells indices s e s' e Hs He Hs' He) in Heq. unfold key in Heq.
  unfold slots_ok in Hok. apply andb_true_iff in Hok. destruct Hok as [Hb Hp].
  rewrite Forall_forall in Hcells. destruct (Hcells (nth e cells []) (nth_In _ _ He)) as [Hnd Hlen].
  assert (Hbound : forall k, k < length indices -> forall i, In i (nth k indices []) -> i < length (nth e cells [])).
  { intros k Hk i Hi. rewrite Hlen. rewrite forallb_forall in Hb.
    specialize (Hb (nth k indices []) (nth_In _ _ Hk)). rewrite forallb_forall in Hb.
    apply Nat.ltb_lt. now apply Hb. }
  destruct (Nat.lt_trichotomy s s') as [Hlt|[Heq'|Hgt]]; [|exact Heq'|]; exfalso.
  - pose proof (pairwise_distinct_nth _ Hp s s' Hlt Hs') as Hd.
    exact (slot_keys_differ _ _ _ Hnd (Hbound s Hs) (Hbound s' Hs') Hd Heq).
  - pose proof (pairwise_distinct_nth _ Hp s' s Hgt Hs) as Hd.
    exact (slot_keys_differ _ _ _ Hnd (Hbound s' Hs') (Hbound s Hs) Hd (eq_sym Heq)).
Qed.

(* ------------------------------------------------------------------ boundary / interior sets *)
Theorem boundary_facets_spec f2t f :
  In f (boundary_facets f2t) <-> f < length (nth 1 f2t []) /\ row1 f2t f = (-1)%Z.
Proof.
  unfold boundary_facets, row1. rewrite filter_In, in_seq, Z.eqb_eq. intuition lia.
Qed.

Theorem boundary_facets_sorted f2t : StronglySorted Nat.lt (boundary_facets f2t).
Proof. apply strongly_sorted_filter, seq_strongly_sorted. Qed.

Theorem boundary_nodes_spec facets bf v :
  In v (boundary_nodes facets bf) <-> exists f, In f bf /\ In v (nth f facets []).
Proof.
  unfold boundary_nodes. rewrite (uniq_in _ Nat.compare nat_cmp_eq), in_flat_map. reflexivity.
Qed.

Theorem boundary_nodes_sorted facets bf : StronglySorted (lt Nat.compare) (boundary_nodes facets bf).
Proof. apply (uniq_strongly_sorted _ Nat.compare nat_cmp_antisym nat_cmp_trans). Qed.

Theorem setdiff_range_spec n b v : In v (setdiff_range n b) <-> v < n /\ ~ In v b.
Proof.
  unfold setdiff_range. rewrite filter_In, in_seq, negb_true_iff.
  rewrite <- (memb_in _ Nat.compare nat_cmp_eq). destruct (memb Nat.compare v b); intuition (try lia; try discriminate).
Qed.

Theorem setdiff_range_sorted n b : StronglySorted Nat.lt (setdiff_range n b).
Proof. apply strongly_sorted_filter, seq_strongly_sorted. Qed.

(* boundary and interior sets partition [0, n) whenever the boundary set lies in the range *)
Theorem boundary_interior_partition n b v : v < n ->
  (In v b \/ In v (setdiff_range n b)) /\ ~ (In v b /\ In v (setdiff_range n b)).
Proof.
  intros Hv. rewrite setdiff_range_spec. split.
  - destruct (memb Nat.compare v b) eqn:E.
    + left. now apply (memb_in _ Nat.compare nat_cmp_eq).
    + right. split; [exact Hv|]. intros H. apply (memb_in _ Nat.compare nat_cmp_eq) in H. congruence.
  - tauto.
Qed.

(* ------------------------------------------------------------------ boundary edges (3-D) *)
Theorem boundary_edges_spec facet_idx edge_idx t2f t2e f2t g :
  In g (boundary_edges facet_idx edge_idx t2f t2e f2t) <->
  exists f es s, In f (boundary_facets f2t) /\ es < length edge_idx /\ s < length facet_idx /\
    nth (Z.to_nat (row0 f2t f)) (nth s t2f []) 0 = f /\
    subset (nth es edge_idx []) (nth s facet_idx []) = true /\
    g = nth (Z.to_nat (row0 f2t f)) (nth es t2e []) 0.
Proof.
  unfold boundary_edges. rewrite (uniq_in _ Nat.compare nat_cmp_eq), in_flat_map. fold (row0 f2t). split.
  - intros [f [Hf Hg]]. apply in_flat_map in Hg. destruct Hg as [es [Hes Hg]]. apply in_seq in Hes.
    fold (row0 f2t f) in Hg.
    destruct (existsb _ _) eqn:Ex in Hg; [|destruct Hg].
    destruct Hg as [Hg|[]]. apply existsb_exists in Ex. destruct Ex as [s [Hs Hc]]. apply in_seq in Hs.
    apply andb_true_iff in Hc. destruct Hc as [Hc1 Hc2]. apply Nat.eqb_eq in Hc1.
    exists f, es, s. repeat split; try assumption; try lia; try (now symmetry).
  - intros [f [es [s [Hf [Hes [Hs [Hc1 [Hc2 Hg]]]]]]]]. exists f. split; [exact Hf|].
    apply in_flat_map. exists es. split; [apply in_seq; lia|]. fold (row0 f2t f).
    assert (Ex : existsb (fun s0 => (nth (Z.to_nat (row0 f2t f)) (nth s0 t2f []) 0 =? f)
                                     && subset (nth es edge_idx []) (nth s0 facet_idx [])) (seq 0 (length facet_idx)) = true).
    { apply existsb_exists. exists s. split; [apply in_seq; lia|]. apply andb_true_iff. split; [now apply Nat.eqb_eq | exact Hc2]. }
    rewrite Ex. left. now symmetry.
Qed.

Theorem boundary_edges_sorted facet_idx edge_idx t2f t2e f2t :
  StronglySorted (lt Nat.compare) (boundary_edges facet_idx edge_idx t2f t2e f2t).
Proof. unfold boundary_edges. apply (uniq_strongly_sorted _ Nat.compare nat_cmp_antisym nat_cmp_trans). Qed.

(* Mesh level: the boundary edges are EXACTLY the numbers t2e[es][e] of the local edges es of a cell e that lie in a local
   facet s (edge slot contained in facet slot) whose facet t2f[s][e] has a single neighbour *)
Theorem boundary_edges_exact cells facet_idx edge_idx g :
  0 < length cells -> 0 < length facet_idx -> slots_injective cells facet_idx ->
  (In g (boundary_edges facet_idx edge_idx (mapping cells facet_idx) (mapping cells edge_idx) (f2t_of cells facet_idx)) <->
   exists f e s es, f < length (entities true cells facet_idx) /\ row1 (f2t_of cells facet_idx) f = (-1)%Z /\
     e < length cells /\ s < length facet_idx /\ es < length edge_idx /\
     t2f_at cells facet_idx s e = f /\ subset (nth es edge_idx []) (nth s facet_idx []) = true /\
     t2f_at cells edge_idx es e = g).
Proof.
  intros Hnt Hns Hinj. rewrite boundary_edges_spec.
  destruct (f2t_shape cells facet_idx Hnt Hns) as [_ [_ L1]]. split.
  - intros [f [es [s [Hf [Hes [Hs [Hc1 [Hc2 Hg]]]]]]]]. apply boundary_facets_spec in Hf. destruct Hf as [Hfl Hm1].
    rewrite L1 in Hfl. destruct (f2t_sound cells facet_idx f Hfl) as [e0 [He0 [R0 _]]].
    rewrite R0, Nat2Z.id in Hc1, Hg. exists f, e0, s, es. repeat split; try assumption. now symmetry.
  - intros [f [e [s [es [Hfl [Hm1 [He [Hs [Hes [Hc1 [Hc2 Hg]]]]]]]]]]].
    destruct (f2t_sound cells facet_idx f Hfl) as [e0 [He0 [R0 [C0 _]]]].
    assert (Ce : contains cells facet_idx f e) by (exists s; now split).
    assert (Heq : e = e0) by (apply (proj1 (f2t_boundary_iff cells facet_idx f Hinj Hfl) Hm1); assumption).
    subst e0. exists f, es, s. rewrite R0, Nat2Z.id. repeat split; try assumption.
    + apply boundary_facets_spec. split; [now rewrite L1 | exact Hm1].
    + now symmetry.
Qed.

(* ------------------------------------------------------------------ f2e numbers mesh.edges (triangular facets) *)
(* plain-sort versions of keys / entities: what build_entities computes when no slot tuple has a repeated vertex *)
Definition keys0 (cells indices : list (list nat)) : list (list nat) := map isort (raw_keys cells indices).
Definition ent0 (cells indices : list (list nat)) : list (list nat) := uniq lex_cmp (keys0 cells indices).

Lemma same2_perm a b : same2 a b = true -> Permutation a b.
Proof.
  unfold same2. intros H. apply orb_true_iff in H. destruct H as [H|H]; apply nats_eqb_eq in H; subst.
  - apply Permutation_refl.
  - apply Permutation_sym, Permutation_rev.
Qed.

Lemma slotv_compose fs b c : (forall i, In i b -> i < length fs) -> slotv b (slotv fs c) = slotv (compose fs b) c.
Proof.
  intros H. unfold slotv, compose. rewrite map_map. apply map_ext_in. intros i Hi.
  now rewrite (nth_map_d _ fs i 0 0) by (now apply H).
Qed.

Lemma isort_slotv_perm ix ix' c : Permutation ix ix' -> isort (slotv ix c) = isort (slotv ix' c).
Proof. intros H. apply isort_of_perm. unfold slotv. now apply Permutation_map. Qed.

Lemma isort_swap x y : isort [x; y] = isort [y; x].
Proof. apply isort_of_perm. apply perm_swap. Qed.

Definition tri_pairs (q : list nat) : list (list nat) := map (fun b => isort (slotv b q)) [[0; 1]; [1; 2]; [0; 2]].

Lemma perm3 (a b c : nat) q : Permutation [a; b; c] q ->
  q = [a; b; c] \/ q = [a; c; b] \/ q = [b; a; c] \/ q = [b; c; a] \/ q = [c; a; b] \/ q = [c; b; a].
Proof.
  intros H. pose proof (Permutation_length H) as L. destruct q as [|x [|y [|z [|w q]]]]; simpl in L; try discriminate.
  assert (Ha : In a [x; y; z]) by (eapply Permutation_in; [exact H | now left]).
  simpl in Ha. destruct Ha as [->|[->|[->|[]]]].
  - apply Permutation_cons_inv in H. apply Permutation_length_2_inv in H. destruct H as [H|H]; inversion H; subst; auto 8.
  - assert (H' : Permutation [a; b; c] [a; x; z]) by (eapply Permutation_trans; [exact H | apply perm_swap]).
    apply Permutation_cons_inv in H'. apply Permutation_length_2_inv in H'. destruct H' as [H'|H']; inversion H'; subst; auto 8.
  - assert (H' : Permutation [a; b; c] [a; x; y]).
    { eapply Permutation_trans; [exact H|]. eapply Permutation_trans; [apply perm_skip, perm_swap | apply perm_swap]. }
    apply Permutation_cons_inv in H'. apply Permutation_length_2_inv in H'. destruct H' as [H'|H']; inversion H'; subst; auto 8.
Qed.

(* the three vertex pairs of a triangle do not depend on the order of its vertices *)
Lemma tri_pairs_perm q q' x : length q = 3 -> Permutation q q' -> In x (tri_pairs q) -> In x (tri_pairs q').
Proof.
  intros L P. destruct q as [|a [|b [|c [|d q]]]]; simpl in L; try discriminate.
  Opaque isort.
  destruct (perm3 a b c q' P) as [->|[->|[->|[->|[->| ->]]]]]; unfold tri_pairs, slotv; simpl;
    rewrite ?(isort_swap b a), ?(isort_swap c b), ?(isort_swap c a); tauto.
  Transparent isort.
Qed.

Lemma in_keys C idx x : In x (keys0 C idx) <-> exists ix c, In ix idx /\ In c C /\ x = isort (slotv ix c).
Proof.
  unfold keys0, raw_keys. rewrite in_map_iff. split.
  - intros [k [Hx Hk]]. apply in_flat_map in Hk. destruct Hk as [ix [Hix Hk]]. apply in_map_iff in Hk.
    destruct Hk as [c [Hk Hc]]. exists ix, c. subst. now repeat split.
  - intros [ix [c [Hix [Hc ->]]]]. exists (slotv ix c). split; [reflexivity|]. apply in_flat_map. exists ix.
    split; [exact Hix|]. apply in_map_iff. now exists c.
Qed.

Lemma in_entities' C idx x : In x (ent0 C idx) <-> In x (keys0 C idx).
Proof. apply (uniq_in _ lex_cmp lex_cmp_eq). Qed.

Theorem f2e_numbers_mesh_edges0 cells facet_idx edge_idx bnd :
  bnd = [[0; 1]; [1; 2]; [0; 2]] ->
  Forall (fun fs => length fs = 3) facet_idx ->
  compose_ok facet_idx bnd edge_idx = true ->
  ent0 (ent0 cells facet_idx) bnd = ent0 cells edge_idx.
Proof.
  intros Hb Hlen Hok. apply (uniq_ext _ lex_cmp lex_cmp_eq lex_cmp_antisym lex_cmp_trans). intros x.
  unfold compose_ok in Hok. apply andb_true_iff in Hok. destruct Hok as [Ok1 Ok2].
  rewrite forallb_forall in Ok1, Ok2. rewrite Forall_forall in Hlen.
  assert (Htp : forall q, In x (map (fun b => isort (slotv b q)) bnd) <-> In x (tri_pairs q)) by (intros q; rewrite Hb; reflexivity).
  rewrite !in_keys. split.
  - intros [b [F [Hbin [HF ->]]]]. apply in_entities', in_keys in HF. destruct HF as [fs [c [Hfs [Hc ->]]]].
    assert (L : length (isort (slotv fs c)) = 3) by (rewrite isort_length; unfold slotv; rewrite map_length; now apply Hlen).
    assert (Hin : In (isort (slotv b (isort (slotv fs c)))) (tri_pairs (slotv fs c))).
    { apply (tri_pairs_perm (isort (slotv fs c)) (slotv fs c)); [exact L | apply Permutation_sym, isort_perm|].
      apply Htp. apply in_map_iff. now exists b. }
    apply Htp in Hin. apply in_map_iff in Hin. destruct Hin as [b' [Heq Hb']].
    specialize (Ok1 fs Hfs). rewrite forallb_forall in Ok1. specialize (Ok1 b' Hb'). apply andb_true_iff in Ok1.
    destruct Ok1 as [Bnd Ex]. rewrite forallb_forall in Bnd. apply existsb_exists in Ex. destruct Ex as [es [Hes Hsame]].
    exists es, c. split; [exact Hes|]. split; [exact Hc|]. rewrite <- Heq.
    rewrite slotv_compose by (intros i Hi; apply Nat.ltb_lt; now apply Bnd).
    apply isort_slotv_perm. now apply same2_perm.
  - intros [es [c [Hes [Hc ->]]]]. specialize (Ok2 es Hes). apply existsb_exists in Ok2. destruct Ok2 as [fs [Hfs Ex]].
    apply existsb_exists in Ex. destruct Ex as [b' [Hb' Hsame]].
    assert (Bnd : forall i, In i b' -> i < length fs).
    { specialize (Ok1 fs Hfs). rewrite forallb_forall in Ok1. specialize (Ok1 b' Hb'). apply andb_true_iff in Ok1.
      destruct Ok1 as [Bnd _]. rewrite forallb_forall in Bnd. intros i Hi. apply Nat.ltb_lt. now apply Bnd. }
    assert (E1 : isort (slotv es c) = isort (slotv b' (slotv fs c))).
    { rewrite slotv_compose by exact Bnd. apply isort_slotv_perm, Permutation_sym. now apply same2_perm. }
    assert (L : length (slotv fs c) = 3) by (unfold slotv; rewrite map_length; now apply Hlen).
    assert (Hin : In (isort (slotv es c)) (tri_pairs (isort (slotv fs c)))).
    { apply (tri_pairs_perm (slotv fs c) (isort (slotv fs c))); [exact L | apply isort_perm|].
      apply Htp. apply in_map_iff. exists b'. split; [now symmetry | exact Hb']. }
    apply Htp in Hin. apply in_map_iff in Hin. destruct Hin as [b [Heq Hbin]].
    exists b, (isort (slotv fs c)). split; [exact Hbin|]. split; [|now symmetry].
    apply in_entities', in_keys. exists fs, c. now repeat split.
Qed.

(* bridge: with pairwise distinct vertices in every slot tuple, build_entities IS the plain-sort version *)
Lemma entities_is_ent0 cells idx :
  (forall ix c, In ix idx -> In c cells -> NoDup (slotv ix c)) -> entities true cells idx = ent0 cells idx.
Proof.
  intros H. rewrite entities_true. unfold ent0, keys, keys0. f_equal. apply map_ext_in. intros k Hk.
  unfold raw_keys in Hk. apply in_flat_map in Hk. destruct Hk as [ix [Hix Hk]]. apply in_map_iff in Hk.
  destruct Hk as [c [<- Hc]]. apply sort_entity_nodup. now apply H.
Qed.

Lemma slotv_NoDup ix c : NoDup c -> NoDup ix -> (forall i, In i ix -> i < length c) -> NoDup (slotv ix c).
Proof.
  intros Hc Hix Hb. unfold slotv. induction ix as [|i ix IH]; simpl; constructor.
  - intros Hin. apply in_map_iff in Hin. destruct Hin as [j [Hj Hjin]]. inversion Hix as [|? ? Hni _]; subst.
    apply Hni. assert (j = i); [|now subst].
    apply (proj1 (NoDup_nth c 0) Hc); [apply Hb; now right | apply Hb; now left | exact Hj].
  - inversion Hix; subst. apply IH; [assumption|]. intros j Hj. apply Hb. now right.
Qed.

(* tetrahedral-type tables (triangular facets whose three sides are the boundary slots) and cells with pairwise distinct
   vertices: the edge array rebuilt from the facets IS the edge array of the cells *)
Theorem f2e_numbers_mesh_edges cells facet_idx edge_idx bnd nn :
  bnd = [[0; 1]; [1; 2]; [0; 2]] ->
  Forall (fun fs => length fs = 3 /\ NoDup fs /\ forall i, In i fs -> i < nn) facet_idx ->
  Forall (fun es => NoDup es /\ forall i, In i es -> i < nn) edge_idx ->
  compose_ok facet_idx bnd edge_idx = true ->
  Forall (fun c => NoDup c /\ length c = nn) cells ->
  entities true (entities true cells facet_idx) bnd = entities true cells edge_idx.
Proof.
  intros Hb Hf He Hok Hc. rewrite Forall_forall in Hf, He, Hc.
  assert (E1 : entities true cells facet_idx = ent0 cells facet_idx).
  { apply entities_is_ent0. intros ix c Hix Hcin. destruct (Hf ix Hix) as [_ [N B]]. destruct (Hc c Hcin) as [Nc Lc].
    apply slotv_NoDup; [exact Nc | exact N | now rewrite Lc]. }
  assert (E2 : entities true cells edge_idx = ent0 cells edge_idx).
  { apply entities_is_ent0. intros ix c Hix Hcin. destruct (He ix Hix) as [N B]. destruct (Hc c Hcin) as [Nc Lc].
    apply slotv_NoDup; [exact Nc | exact N | now rewrite Lc]. }
  assert (E3 : entities true (ent0 cells facet_idx) bnd = ent0 (ent0 cells facet_idx) bnd).
  { apply entities_is_ent0. intros b F Hbin HF. apply in_entities', in_keys in HF. destruct HF as [fs [c [Hfs [Hcin ->]]]].
    destruct (Hf fs Hfs) as [L [N B]]. destruct (Hc c Hcin) as [Nc Lc].
    assert (NF : NoDup (isort (slotv fs c))).
    { eapply Permutation_NoDup; [apply isort_perm|]. apply slotv_NoDup; [exact Nc | exact N | now rewrite Lc]. }
    assert (LF : length (isort (slotv fs c)) = 3) by (rewrite isort_length; unfold slotv; now rewrite map_length).
    subst bnd. apply slotv_NoDup; [exact NF | | rewrite LF].
    - destruct Hbin as [<-|[<-|[<-|[]]]]; repeat constructor; simpl; intuition discriminate.
    - intros i Hi. destruct Hbin as [<-|[<-|[<-|[]]]]; simpl in Hi; intuition lia. }
  rewrite E1, E3, E2. apply f2e_numbers_mesh_edges0; [exact Hb | | exact Hok].
  rewrite Forall_forall. intros fs Hfs. now apply Hf.
Qed.

(* a padded slot (three distinct local vertices, one of them repeated at the end) on cells with distinct vertices: the key depends
   only on the vertex SET of the slot *)
Theorem padded_slot_key_vertex_set c1 c2 tri1 x1 tri2 x2 :
  NoDup c1 -> NoDup c2 -> NoDup tri1 -> NoDup tri2 -> In x1 tri1 -> In x2 tri2 ->
  (forall i, In i tri1 -> i < length c1) -> (forall i, In i tri2 -> i < length c2) ->
  (forall v, In v (slotv (tri1 ++ [x1]) c1) <-> In v (slotv (tri2 ++ [x2]) c2)) ->
  sort_entity (slotv (tri1 ++ [x1]) c1) = sort_entity (slotv (tri2 ++ [x2]) c2).
Proof.
  intros N1 N2 T1 T2 I1 I2 B1 B2 Hs.
  assert (E : forall tri x c, slotv (tri ++ [x]) c = slotv tri c ++ [nth x c 0]) by (intros; unfold slotv; now rewrite map_app).
  assert (M : forall tri x c, In x tri -> In (nth x c 0) (slotv tri c)) by (intros tri x c H; unfold slotv; exact (in_map (fun i => nth i c 0) tri x H)).
  rewrite !E in *. apply padded_key_depends_on_vertex_set; try (now apply slotv_NoDup); try (now apply M).
  intros v. specialize (Hs v). rewrite !in_app_iff in Hs. simpl in Hs. split; intros Hv.
  - destruct (proj1 Hs (or_introl Hv)) as [H|[<-|[]]]; [exact H | now apply M].
  - destruct (proj2 Hs (or_introl Hv)) as [H|[<-|[]]]; [exact H | now apply M].
Qed.
