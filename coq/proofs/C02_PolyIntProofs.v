(* C02 — proofs about Model.C02_PolyInt: exact integration is linear and is the closed form on monomials;
   the discrete integral of a polynomial by a rule that is exact to within tol on the monomials of its
   advertised degree differs from the exact integral by at most (sum of |coefficients|) * tol; the discrete
   integral is the point-by-point sum; composition with an affine map does not raise the total degree. *)
From Coq Require Import List Arith ZArith QArith Qabs Bool Lia Lqa.
Require Import Base.Corr Base.C09_Poly Base.C09_PolyQ Model.C08_Rules Proofs.C08_RulesProofs Model.C02_PolyInt.
Import ListNotations.

(* ================================================================== exact integration is linear *)

Lemma pint_app s p q : pint s (p ++ q) == pint s p + pint s q.
Proof. induction p as [|t p IH]; simpl; [ring|]. rewrite IH. ring. Qed.

Lemma pint_padd s p q : pint s (padd p q) == pint s p + pint s q.
Proof. apply pint_app. Qed.

Lemma pint_pscale s c p : pint s (pscale c p) == c * pint s p.
Proof. induction p as [|t p IH]; simpl; [ring|]. rewrite IH. ring. Qed.

Lemma pint_popp s p : pint s (popp p) == - pint s p.
Proof. unfold popp. rewrite pint_pscale. ring. Qed.

Lemma pint_psub s p q : pint s (psub p q) == pint s p - pint s q.
Proof. unfold psub. rewrite pint_padd, pint_popp. ring. Qed.

Lemma pint_psum s l : pint s (psum l) == fold_right (fun p acc => pint s p + acc) 0 l.
Proof. unfold psum. induction l as [|p l IH]; simpl; [reflexivity|]. rewrite pint_app, IH. reflexivity. Qed.

(* ... and it is the closed form on monomials *)
Lemma pint_monomial s c m : pint s [(c, m)] == c * exactQ s (pad (dim s) m).
Proof. simpl. unfold mint. ring. Qed.

Lemma pint_const s c : pint s (pconst c) == c * measureQ s.
Proof. unfold pconst. rewrite pint_monomial. unfold pad, measureQ. simpl. rewrite Nat.sub_0_r. reflexivity. Qed.

(* ================================================================== quadrature error of a polynomial *)

Lemma deg_okb_sound : forall s n es, deg_okb s n es = true -> deg_ok s n es.
Proof.
  induction s as [|d s IH]; intros n es H; simpl in *; [exact I|].
  apply andb_true_iff in H. destruct H as [H1 H2]. split; [now apply Nat.leb_le|now apply IH].
Qed.

Lemma pad_length d m : (length m <= d)%nat -> length (pad d m) = d.
Proof. intros H. unfold pad. rewrite app_length, repeat_length. lia. Qed.

Lemma tol_nonneg s R n tol : rule_okQ s R n tol -> 0 <= tol.
Proof.
  intros [_ H]. apply Qle_trans with (Qabs (qrule_sum R (repeat O (dim s)) - exactQ s (repeat O (dim s)))).
  - apply Qabs_nonneg.
  - apply H; [apply repeat_length|apply deg_ok_zeros].
Qed.

Theorem quad_error s R n tol p : rule_okQ s R n tol -> poly_ok s n p = true ->
  Qabs (qrule_int R (dim s) p - pint s p) <= l1 p * tol.
Proof.
  intros HR Hp. pose proof (tol_nonneg s R n tol HR) as Ht. destruct HR as [_ HR].
  induction p as [|t p IH].
  - cbn [qrule_int pint l1]. apply Qabs_Qle_condition. split; lra.
  - simpl in Hp. apply andb_true_iff in Hp. destruct Hp as [H1 H2]. specialize (IH H2).
    unfold term_ok in H1. apply andb_true_iff in H1. destruct H1 as [Hl Hd].
    apply Nat.leb_le in Hl. apply deg_okb_sound in Hd.
    pose proof (HR (pad (dim s) (snd t)) (pad_length _ _ Hl) Hd) as Hs.
    cbn [qrule_int pint l1]. unfold mint.
    set (S := qrule_sum R (pad (dim s) (snd t))) in *. set (I := exactQ s (pad (dim s) (snd t))) in *.
    set (A := qrule_int R (dim s) p) in *. set (B := pint s p) in *. set (c := fst t).
    assert (E : c * S + A - (c * I + B) == c * (S - I) + (A - B)) by ring. rewrite E.
    eapply Qle_trans; [apply Qabs_triangle|].
    rewrite Qabs_Qmult.
    assert (E2 : (Qabs c + l1 p) * tol == Qabs c * tol + l1 p * tol) by ring. rewrite E2.
    apply Qplus_le_compat; [|exact IH].
    rewrite (Qmult_comm (Qabs c) (Qabs (S - I))), (Qmult_comm (Qabs c) tol).
    apply Qmult_le_compat_r; [exact Hs|apply Qabs_nonneg].
Qed.

(* ================================================================== the discrete integral, point by point *)

Lemma rpow_qpow x e : rpow Q 1 Qmult x e = qpow x e.
Proof. induction e as [|e IH]; simpl; [reflexivity|]. rewrite IH. reflexivity. Qed.

Lemma meval_shift : forall m (f g : nat -> Q) i, (forall j, f (S j) = g j) ->
  meval Q 1 Qmult m f (S i) = meval Q 1 Qmult m g i.
Proof.
  induction m as [|e m IH]; intros f g i H; simpl; [reflexivity|].
  rewrite H. rewrite (IH f g (S i) H). reflexivity.
Qed.

Lemma qmono_meval k : forall m pt, (length m <= length pt)%nat ->
  qmono pt (m ++ repeat O k) == meval Q 1 Qmult m (lpt pt) 0.
Proof.
  induction m as [|e m IH]; intros pt H.
  - simpl. apply qmono_zeros.
  - destruct pt as [|x pt]; [simpl in H; lia|]. simpl in H.
    change (qpow x e * qmono pt (m ++ repeat O k) == rpow Q 1 Qmult x e * meval Q 1 Qmult m (lpt (x :: pt)) 1).
    assert (E1 : meval Q 1 Qmult m (lpt (x :: pt)) 1 = meval Q 1 Qmult m (lpt pt) 0)
      by (apply meval_shift; intros j; reflexivity).
    rewrite E1. assert (E2 := IH pt ltac:(lia)). rewrite E2. rewrite <- (rpow_qpow x e). reflexivity.
Qed.

Lemma qrule_sum_apply R es : qrule_sum R es == qrule_apply R (fun pt => qmono pt es).
Proof. induction R as [|nd R IH]; simpl; [reflexivity|]. rewrite IH. reflexivity. Qed.

Lemma qrule_apply_ext R f g : (forall nd, In nd R -> f (fst nd) == g (fst nd)) ->
  qrule_apply R f == qrule_apply R g.
Proof.
  induction R as [|nd R IH]; intros H; simpl; [reflexivity|].
  rewrite (H nd (or_introl eq_refl)), IH by (intros; apply H; now right). reflexivity.
Qed.

Lemma qrule_apply_lin R c f g :
  qrule_apply R (fun pt => c * f pt + g pt) == c * qrule_apply R f + qrule_apply R g.
Proof. induction R as [|nd R IH]; simpl; [ring|]. rewrite IH. ring. Qed.

(* sum over terms of c_t * (sum_q w_q x_q^m_t)  =  sum_q w_q * p(x_q) *)
Theorem qrule_int_pointwise R d p :
  (forall nd, In nd R -> length (fst nd) = d) ->
  (forall t, In t p -> (length (snd t) <= d)%nat) ->
  qrule_int R d p == qrule_apply R (fun pt => qeval p (lpt pt)).
Proof.
  intros HR. induction p as [|t p IH]; intros Hp.
  - simpl. induction R as [|nd R IHR]; simpl; [reflexivity|].
    rewrite <- IHR by (intros; apply HR; now right). unfold qeval. simpl. ring.
  - simpl. rewrite IH by (intros; apply Hp; now right).
    rewrite qrule_sum_apply.
    rewrite <- qrule_apply_lin. apply qrule_apply_ext. intros nd Hnd.
    unfold qeval. simpl. unfold teval. unfold pad.
    rewrite <- (HR nd Hnd). rewrite qmono_meval; [reflexivity|].
    rewrite (HR nd Hnd). apply Hp. now left.
Qed.

(* ================================================================== degrees: affine pull-back *)

Lemma mdeg_mono_mul : forall a b, mdeg (mono_mul a b) = (mdeg a + mdeg b)%nat.
Proof.
  unfold mdeg. induction a as [|x a IH]; intros [|y b]; simpl; try lia. rewrite IH. lia.
Qed.

Lemma pdeg_app p q : pdeg (p ++ q) = Nat.max (pdeg p) (pdeg q).
Proof. induction p as [|t p IH]; simpl; [reflexivity|]. rewrite IH. lia. Qed.

Lemma pdeg_pscale c p : pdeg (pscale c p) = pdeg p.
Proof. induction p as [|t p IH]; simpl; [reflexivity|]. rewrite IH. reflexivity. Qed.

Lemma pdeg_tmul t q : (pdeg (tmul t q) <= mdeg (snd t) + pdeg q)%nat.
Proof.
  unfold tmul. induction q as [|u q IH]; simpl; [lia|]. rewrite mdeg_mono_mul. lia.
Qed.

Lemma pdeg_pmul p q : (pdeg (pmul p q) <= pdeg p + pdeg q)%nat.
Proof.
  unfold pmul. induction p as [|t p IH]; simpl; [lia|].
  rewrite pdeg_app. pose proof (pdeg_tmul t q). lia.
Qed.

Lemma pdeg_ppow p n : (pdeg (C09_Poly.ppow p n) <= n * pdeg p)%nat.
Proof.
  induction n as [|n IH]; simpl; [lia|]. pose proof (pdeg_pmul p (C09_Poly.ppow p n)). lia.
Qed.

Lemma pdeg_mono_subst F : (forall j, (pdeg (F j) <= 1)%nat) ->
  forall m i, (pdeg (mono_subst F m i) <= mdeg m)%nat.
Proof.
  intros HF. induction m as [|e m IH]; intros i; simpl; [lia|].
  pose proof (pdeg_pmul (C09_Poly.ppow (F i) e) (mono_subst F m (S i))) as H1.
  pose proof (pdeg_ppow (F i) e) as H2. specialize (IH (S i)). specialize (HF i).
  unfold mdeg in *. simpl. nia.
Qed.

(* deg (p o F) <= deg p for every tuple F of polynomials of degree <= 1 (affine maps, any dimension) *)
Theorem pullback_degree F p : (forall j, (pdeg (F j) <= 1)%nat) -> (pdeg (psubst F p) <= pdeg p)%nat.
Proof.
  intros HF. unfold psubst. induction p as [|t p IH]; simpl; [lia|].
  rewrite pdeg_app, pdeg_pscale. pose proof (pdeg_mono_subst F HF (snd t) 0). lia.
Qed.

Theorem product_degree a b m : (pdeg a <= m)%nat -> (pdeg b <= m)%nat -> (pdeg (pmul a b) <= 2 * m)%nat.
Proof. intros Ha Hb. pose proof (pdeg_pmul a b). lia. Qed.

(* ================================================================== generated reference elements *)

Lemma forallb_In {A} (f : A -> bool) l : forallb f l = true -> forall x, In x l -> f x = true.
Proof. intros H. apply forallb_forall. exact H. Qed.

(* for a generated element whose booleans evaluate to true: every pair of shape functions is integrated by
   every rule that is good for the order (order maxdeg) to within l1(phi_i phi_j) * tol of the exact
   reference mass entry int phi_i phi_j (whose rational value is the literal re_mass) *)
Theorem refelem_mass_close order e : refelem_ok order e = true ->
  qmat_eqb (mass_ref (re_shape e) (re_vals e)) (re_mass e) = true /\
  forall R tol, rule_okQ (re_shape e) R (order (re_maxdeg e)) tol ->
  forall a b, In a (re_vals e) -> In b (re_vals e) ->
    Qabs (qrule_int R (dim (re_shape e)) (pmul a b) - pint (re_shape e) (pmul a b)) <= l1 (pmul a b) * tol.
Proof.
  intros H. unfold refelem_ok in H. apply andb_true_iff in H. destruct H as [H1 H2].
  split; [exact H1|]. intros R tol HR a b Ha Hb.
  apply (quad_error _ R (order (re_maxdeg e)) tol _ HR).
  unfold products_ok in H2.
  exact (forallb_In _ _ (forallb_In _ _ H2 a Ha) b Hb).
Qed.

(* ================================================================== pint does not depend on the representation *)

Lemma pfacts_app_zeros es k : pfacts (es ++ repeat O k) = pfacts es.
Proof.
  induction es as [|e es IH]; simpl.
  - induction k as [|k IHk]; simpl; [reflexivity|]. rewrite IHk. reflexivity.
  - rewrite IH. reflexivity.
Qed.

Lemma list_sum_app_zeros es k : list_sum (es ++ repeat O k) = list_sum es.
Proof.
  rewrite list_sum_app. assert (H : list_sum (repeat O k) = O) by (induction k; simpl; auto). lia.
Qed.

Lemma simplexQ_app_zeros d es k : simplexQ d (es ++ repeat O k) = simplexQ d es.
Proof. unfold simplexQ. rewrite pfacts_app_zeros, list_sum_app_zeros. reflexivity. Qed.

Lemma firstn_zeros a k : firstn a (repeat O k) = repeat O (Nat.min a k).
Proof. revert k. induction a as [|a IH]; intros [|k]; simpl; auto. rewrite IH. reflexivity. Qed.

Lemma exactQ_app_zeros : forall s es k, exactQ s (es ++ repeat O k) = exactQ s es.
Proof.
  induction s as [|d s IH]; intros es k; [reflexivity|].
  change (simplexQ d (firstn d (es ++ repeat O k)) * exactQ s (skipn d (es ++ repeat O k))
          = simplexQ d (firstn d es) * exactQ s (skipn d es)).
  rewrite firstn_app, skipn_app, firstn_zeros, skipn_zeros.
  rewrite simplexQ_app_zeros, IH. reflexivity.
Qed.

Lemma mint_exactQ s m : mint s m = exactQ s m.
Proof. unfold mint, pad. apply exactQ_app_zeros. Qed.

Lemma mono_trim_spec : forall m, exists k, m = mono_trim m ++ repeat O k.
Proof.
  induction m as [|e m [k IH]]; [exists O; reflexivity|]. simpl.
  destruct e as [|e].
  - destruct (mono_trim m) as [|x t] eqn:E.
    + exists (S k). simpl in *. rewrite IH at 1. reflexivity.
    + exists k. simpl. rewrite IH at 1. reflexivity.
  - exists k. simpl. rewrite IH at 1. reflexivity.
Qed.

Lemma mint_trim s m : mint s (mono_trim m) = mint s m.
Proof.
  rewrite !mint_exactQ. destruct (mono_trim_spec m) as [k E]. rewrite E at 2.
  symmetry. apply exactQ_app_zeros.
Qed.

Lemma pint_insert s c m p : pint s (insert_term c m p) == c * mint s m + pint s p.
Proof.
  induction p as [|[d m'] p IH]; [cbn [insert_term pint fst snd]; ring|].
  cbn [insert_term]. destruct (mono_cmp m m') eqn:E; cbn [pint fst snd].
  - apply mono_cmp_eq in E. subst. rewrite Qred_correct. ring.
  - ring.
  - rewrite IH. ring.
Qed.

Lemma pint_filter_nonzero s p : pint s (filter nonzero_term p) == pint s p.
Proof.
  induction p as [|t p IH]; [reflexivity|].
  cbn [filter]. unfold nonzero_term at 1. destruct (Qeq_bool (fst t) 0) eqn:E; cbn [negb pint].
  - apply Qeq_bool_eq in E. rewrite IH, E. ring.
  - rewrite IH. reflexivity.
Qed.

(* normalisation (sorting, merging equal monomials, trimming exponent lists, dropping zero terms) keeps the integral *)
Theorem pint_pnorm s p : pint s (pnorm p) == pint s p.
Proof.
  unfold pnorm. rewrite pint_filter_nonzero.
  induction p as [|t p IH]; [reflexivity|].
  cbn [fold_right pint]. rewrite pint_insert, mint_trim, IH. reflexivity.
Qed.

(* two representations of the same polynomial (peqb) have the same integral over every cell *)
Theorem pint_peqb s p q : peqb p q = true -> pint s p == pint s q.
Proof.
  unfold peqb, pis_zero. intros H. destruct (pnorm (psub p q)) as [|t r] eqn:E; [|discriminate].
  assert (H0 : pint s (psub p q) == 0) by (rewrite <- pint_pnorm, E; reflexivity).
  rewrite pint_psub in H0. lra.
Qed.

(* ================================================================== the discrete integral is linear; load vectors *)

Lemma qrule_int_app R d p q : qrule_int R d (p ++ q) == qrule_int R d p + qrule_int R d q.
Proof. induction p as [|t p IH]; simpl; [ring|]. rewrite IH. ring. Qed.

Lemma qrule_int_pscale R d c p : qrule_int R d (pscale c p) == c * qrule_int R d p.
Proof. induction p as [|t p IH]; simpl; [ring|]. rewrite IH. ring. Qed.

(* load vector entries for monomial data x^m (any polynomial data by linearity: pint_padd / pint_pscale /
   qrule_int_app / qrule_int_pscale): a rule good for order n integrates x^m phi_i to within l1 * tol of the exact
   reference entry, for all listed monomials and shape functions whose products lie within order n *)
Theorem load_close s R n tol vals ms : rule_okQ s R n tol -> load_products_ok s n vals ms = true ->
  forall m a, In m ms -> In a vals ->
  Qabs (qrule_int R (dim s) (pmul [(1, m)] a) - pint s (pmul [(1, m)] a)) <= l1 (pmul [(1, m)] a) * tol.
Proof.
  intros HR H m a Hm Ha. apply (quad_error s R n tol _ HR).
  unfold load_products_ok in H. exact (forallb_In _ _ (forallb_In _ _ H m Hm) a Ha).
Qed.
