(* C01 — proofs about Model.C01_Assembly: the COO triplets produced by the (serial) assembly loops, and the
   weak-form identities  v^T A u = a(u_h, v_h),  b^T v = l(v_h),  s = J  over an arbitrary commutative ring. *)
From Coq Require Import List Arith Bool Lia Ring Ring_theory.
Import ListNotations.
Require Import Base.C01_Sums Model.C01_Assembly.

(* ====================================================================== list lemmas *)

Lemma length_flat_map_const {A B} (g : A -> list B) m l :
  (forall x, In x l -> length (g x) = m) -> length (flat_map g l) = length l * m.
Proof.
  induction l as [|a l IH]; intros H; simpl; [reflexivity|].
  rewrite app_length, H by (left; reflexivity). rewrite IH; [lia|]. intros x Hx. apply H. now right.
Qed.

Lemma firstn_app_exact {A} (p s : list A) : firstn (length p) (p ++ s) = p.
Proof. rewrite firstn_app, Nat.sub_diag, firstn_all. simpl. apply app_nil_r. Qed.

Lemma skipn_app_exact {A} (p s : list A) : skipn (length p) (p ++ s) = s.
Proof. rewrite skipn_app, Nat.sub_diag, skipn_all. reflexivity. Qed.

Lemma slice_set_fill {A} (p v s : list A) z m lo hi :
  length v = m -> lo = length p -> hi = length p + m ->
  slice_set lo hi v (p ++ repeat z m ++ s) = Some (p ++ v ++ s).
Proof.
  intros Hv -> ->. unfold slice_set. rewrite !app_length, repeat_length.
  rewrite (Nat.min_l (length p)) by lia. rewrite (Nat.min_l (length p + m)) by lia.
  rewrite Nat.max_r by lia. replace (length p + m - length p) with m by lia.
  rewrite Hv, Nat.eqb_refl. f_equal. rewrite firstn_app_exact. f_equal. f_equal.
  replace (length p + m) with (length (p ++ repeat z m)) by (rewrite app_length, repeat_length; reflexivity).
  rewrite app_assoc. apply skipn_app_exact.
Qed.

Lemma nth_map_seq0 {B} (f : nat -> B) n k d : k < n -> nth k (map f (seq 0 n)) d = f k.
Proof.
  intros H. rewrite (nth_indep _ d (f 0)) by (rewrite map_length, seq_length; lia).
  rewrite map_nth, seq_nth by lia. reflexivity.
Qed.

Lemma nth_flat_const {A B} (g : A -> list B) m : forall l x y d da,
  (forall a, In a l -> length (g a) = m) -> x < length l -> y < m ->
  nth (x * m + y) (flat_map g l) d = nth y (g (nth x l da)) d.
Proof.
  induction l as [|a l IH]; intros x y d da Hlen Hx Hy; simpl in Hx; [lia|].
  assert (Ha : length (g a) = m) by (apply Hlen; now left).
  destruct x as [|x]; simpl.
  - apply app_nth1. lia.
  - rewrite app_nth2 by lia. replace (m + x * m + y - length (g a)) with (x * m + y) by lia.
    apply IH; [|lia|lia]. intros b Hb. apply Hlen. now right.
Qed.

Lemma fold_left_ext_all {A B} (f g : A -> B -> A) : (forall a x, f a x = g a x) ->
  forall l a0, fold_left f l a0 = fold_left g l a0.
Proof. intros H. induction l as [|x l IH]; intros a0; simpl; [reflexivity|]. now rewrite H, IH. Qed.

(* ---------- loops ---------- *)
Lemma for_list_inv {S} (P : nat -> S -> Prop) (body : nat -> S -> option S) : forall n start st,
  P start st ->
  (forall i s, start <= i < start + n -> P i s -> exists s', body i s = Some s' /\ P (Datatypes.S i) s') ->
  exists s', for_list (seq start n) body st = Some s' /\ P (start + n) s'.
Proof.
  induction n as [|n IH]; intros start st H0 Hstep; simpl.
  - exists st. split; [reflexivity|]. now rewrite Nat.add_0_r.
  - destruct (Hstep start st ltac:(lia) H0) as [s1 [E1 P1]]. rewrite E1. simpl.
    destruct (IH (Datatypes.S start) s1 P1) as [s' [E' P']].
    + intros i s Hi. apply Hstep. lia.
    + exists s'. split; [exact E'|]. now replace (start + Datatypes.S n) with (Datatypes.S start + n) by lia.
Qed.

Lemma for_range_inv {S} (P : nat -> S -> Prop) (body : nat -> S -> option S) n st :
  P 0 st ->
  (forall i s, i < n -> P i s -> exists s', body i s = Some s' /\ P (Datatypes.S i) s') ->
  exists s', for_range n body st = Some s' /\ P n s'.
Proof.
  intros H0 Hstep. unfold for_range.
  destruct (for_list_inv P body n 0 st H0) as [s' [E P']].
  - intros i s Hi. apply Hstep. lia.
  - exists s'. split; [exact E | exact P'].
Qed.

Lemma for_list_ext {S} (b1 b2 : nat -> S -> option S) : forall l st,
  (forall i s, In i l -> b1 i s = b2 i s) -> for_list l b1 st = for_list l b2 st.
Proof.
  induction l as [|i l IH]; intros st H; simpl; [reflexivity|].
  rewrite H by (now left). destruct (b2 i st) as [s|]; simpl; [|reflexivity].
  apply IH. intros k s' Hk. apply H. now right.
Qed.

Lemma for_range_ext {S} (b1 b2 : nat -> S -> option S) n st :
  (forall i s, i < n -> b1 i s = b2 i s) -> for_range n b1 st = for_range n b2 st.
Proof. intros H. apply for_list_ext. intros i s Hi. apply in_seq in Hi. apply H. lia. Qed.

(* ====================================================================== filling a flat array pair by pair *)
Section Fill.
  Context {A : Type}.
  Variable z : A.
  Variable vec : nat -> nat -> list A.
  Variables Nu Nv nt : nat.
  Hypothesis Hlen : forall j i, j < Nu -> i < Nv -> length (vec j i) = nt.

  Definition full2 : list A := flat_map (fun j => flat_map (vec j) (seq 0 Nv)) (seq 0 Nu).
  Definition filled2 (j i : nat) : list A :=
    flat_map (fun j' => flat_map (vec j') (seq 0 Nv)) (seq 0 j) ++ flat_map (vec j) (seq 0 i).
  Definition part2 (j i : nat) : list A := filled2 j i ++ repeat z ((Nu * Nv - (j * Nv + i)) * nt).

  Lemma row_length j : j < Nu -> length (flat_map (vec j) (seq 0 Nv)) = Nv * nt.
  Proof.
    intros Hj. rewrite (length_flat_map_const _ nt), seq_length; [reflexivity|].
    intros i Hi. apply in_seq in Hi. apply Hlen; lia.
  Qed.

  Lemma filled2_length j i : j <= Nu -> i <= Nv -> (j = Nu -> i = 0) -> length (filled2 j i) = (j * Nv + i) * nt.
  Proof.
    intros Hj Hi Hend. unfold filled2. rewrite app_length.
    rewrite (length_flat_map_const _ (Nv * nt)), seq_length.
    - destruct i as [|i'].
      + simpl. lia.
      + assert (j < Nu) by (destruct (Nat.eq_dec j Nu) as [E|E]; [specialize (Hend E); lia | lia]).
        rewrite (length_flat_map_const _ nt), seq_length; [lia|].
        intros x Hx. apply in_seq in Hx. apply Hlen; lia.
    - intros x Hx. apply in_seq in Hx. apply row_length. lia.
  Qed.

  Lemma part2_start : part2 0 0 = repeat z (Nu * Nv * nt).
  Proof. unfold part2, filled2. simpl. now rewrite Nat.sub_0_r. Qed.

  Lemma part2_row_end j : part2 j Nv = part2 (S j) 0.
  Proof.
    unfold part2, filled2. rewrite seq_S, flat_map_app. simpl. rewrite !app_nil_r.
    f_equal. f_equal. f_equal. lia.
  Qed.

  Lemma part2_end : part2 Nu 0 = full2.
  Proof.
    unfold part2, filled2, full2. simpl. rewrite Nat.add_0_r, Nat.sub_diag. simpl. now rewrite !app_nil_r.
  Qed.

  Lemma part2_step j i lo hi : j < Nu -> i < Nv -> lo = (j * Nv + i) * nt -> hi = lo + nt ->
    slice_set lo hi (vec j i) (part2 j i) = Some (part2 j (S i)).
  Proof.
    intros Hj Hi -> ->. unfold part2.
    assert (Hcnt : (Nu * Nv - (j * Nv + i)) * nt = nt + (Nu * Nv - (j * Nv + S i)) * nt) by nia.
    rewrite Hcnt, repeat_app.
    rewrite (slice_set_fill (filled2 j i) (vec j i) _ z nt).
    - f_equal. unfold filled2. rewrite seq_S, flat_map_app. simpl. rewrite app_nil_r.
      now rewrite <- !app_assoc.
    - apply Hlen; assumption.
    - rewrite filled2_length; [reflexivity | lia | lia | lia].
    - rewrite filled2_length; [reflexivity | lia | lia | lia].
  Qed.

  Lemma full2_length : length full2 = Nu * Nv * nt.
  Proof.
    unfold full2. rewrite (length_flat_map_const _ (Nv * nt)), seq_length; [lia|].
    intros x Hx. apply in_seq in Hx. apply row_length. lia.
  Qed.

  Lemma full2_nth j i e d : j < Nu -> i < Nv -> e < nt ->
    nth ((j * Nv + i) * nt + e) full2 d = nth e (vec j i) d.
  Proof.
    intros Hj Hi He. unfold full2.
    replace ((j * Nv + i) * nt + e) with (j * (Nv * nt) + (i * nt + e)) by lia.
    rewrite (nth_flat_const _ (Nv * nt) _ j (i * nt + e) d 0).
    - rewrite seq_nth by lia. simpl.
      rewrite (nth_flat_const _ nt _ i e d 0).
      + now rewrite seq_nth by lia.
      + intros a Ha. apply in_seq in Ha. apply Hlen; lia.
      + rewrite seq_length. lia.
      + lia.
    - intros a Ha. apply in_seq in Ha. apply row_length. lia.
    - rewrite seq_length. lia.
    - nia.
  Qed.
End Fill.

(* one-index version (LinearForm) as the instance Nu = 1 *)

(* ====================================================================== the assembly model *)
Section Proofs.
  Variable R : Type.
  Variables (rO rI : R) (radd rmul rsub : R -> R -> R) (ropp : R -> R).
  Variable Rth : ring_theory rO rI radd rmul rsub ropp (@eq R).
  Add Ring RingC01Asm : Rth.
  Variable V W : Type.
  Variables (vadd : V -> V -> V) (vscale : R -> V -> V).

  Notation "a [+] b" := (radd a b) (at level 50, left associativity).
  Notation "a [*] b" := (rmul a b) (at level 40, left associativity).
  Notation basis := (basis R V).
  Notation Sn := (sumn rO radd).
  Notation interp := (interp R rO V vadd vscale).

  (* the local matrix entry: kernel value for trial j, test i on cell e *)
  Definition Kjie (form : V -> V -> W -> R) (w : nat -> nat -> W) (ub vb : basis) (j i e : nat) : R :=
    Sn (bnq ub) (fun q => form (bB ub j e q) (bB vb i e q) (w e q) [*] bdx ub e q).

  Lemma bilinear_kernel_length form u v w dx nt nq :
    length (bilinear_kernel R rO radd rmul V W form u v w dx nt nq) = nt.
  Proof. unfold bilinear_kernel, sum_axis1. now rewrite map_length, seq_length. Qed.

  Lemma bilinear_kernel_nth form (ub vb : basis) w j i e : e < bnelems ub ->
    nth e (bilinear_kernel R rO radd rmul V W form (bB ub j) (bB vb i) w (bdx ub) (bnelems ub) (bnq ub)) rO
    = Kjie form w ub vb j i e.
  Proof. intros He. unfold bilinear_kernel, sum_axis1. now rewrite nth_map_seq0. Qed.

  (* ---------- the triplets of BilinearForm._assemble ---------- *)
  Theorem bilinear_assemble_entries form w (ub : basis) (vb0 : option basis) :
    let vb := match vb0 with None => ub | Some b => b end in
    let Nu := bNbfun ub in let Nv := bNbfun vb in let nt := bnelems ub in
    wf_basis ub -> wf_basis vb -> bnelems vb = bnelems ub -> bnq vb = bnq ub ->
    exists rows cols data,
      bilinear_assemble R rO radd rmul V W form w ub vb0
        = Some (mkCoo [rows; cols] data [bN vb; bN ub] [Nv; Nu]) /\
      length rows = Nu * Nv * nt /\ length cols = Nu * Nv * nt /\ length data = Nu * Nv * nt /\
      forall j i e, j < Nu -> i < Nv -> e < nt ->
        nth ((j * Nv + i) * nt + e) rows 0 = nth e (element_dofs vb i) 0 /\
        nth ((j * Nv + i) * nt + e) cols 0 = nth e (element_dofs ub j) 0 /\
        nth ((j * Nv + i) * nt + e) data rO = Kjie form w ub vb j i e.
  Proof.
    intros vb Nu Nv nt Hu Hv Hnt Hnq.
    set (rvec := fun (j i : nat) => element_dofs vb i).
    set (cvec := fun (j i : nat) => element_dofs ub j).
    set (dvec := fun (j i : nat) =>
           bilinear_kernel R rO radd rmul V W form (bB ub j) (bB vb i) w (bdx ub) nt (bnq ub)).
    assert (Hr : forall j i, j < Nu -> i < Nv -> length (rvec j i) = nt).
    { intros j i _ Hi. unfold rvec. destruct Hv as [_ Hv]. destruct (Hv i Hi) as [L _]. now rewrite L. }
    assert (Hc : forall j i, j < Nu -> i < Nv -> length (cvec j i) = nt).
    { intros j i Hj _. unfold cvec. destruct Hu as [_ Hu]. now destruct (Hu j Hj) as [L _]. }
    assert (Hd : forall j i, j < Nu -> i < Nv -> length (dvec j i) = nt).
    { intros. apply bilinear_kernel_length. }
    exists (full2 rvec Nu Nv), (full2 cvec Nu Nv), (full2 dvec Nu Nv).
    split.
    - unfold bilinear_assemble.
      assert (Hguard : (match vb0 with None => false | Some b => negb (bnq ub =? bnq b) end) = false).
      { destruct vb0 as [b|]; [|reflexivity]. subst vb. simpl in Hnq. rewrite Hnq, Nat.eqb_refl. reflexivity. }
      rewrite Hguard. fold vb. fold Nu. fold Nv. fold nt.
      set (P := fun (j : nat) (st : st3 R) =>
                  st = (mkNd3 Nu Nv nt (part2 rO dvec Nu Nv nt j 0), part2 0 rvec Nu Nv nt j 0,
                        part2 0 cvec Nu Nv nt j 0)).
      match goal with |- bind (for_range Nu ?body ?st0) _ = _ =>
        destruct (for_range_inv P body Nu st0) as [s' [E Ps]] end.
      + unfold P, nd3_zeros. now rewrite !part2_start.
      + intros j s Hj Pj. unfold P in Pj. subst s.
        set (Q := fun (i : nat) (st : st3 R) =>
                    st = (mkNd3 Nu Nv nt (part2 rO dvec Nu Nv nt j i), part2 0 rvec Nu Nv nt j i,
                          part2 0 cvec Nu Nv nt j i)).
        match goal with |- exists s', for_range Nv ?body ?st0 = _ /\ _ =>
          destruct (for_range_inv Q body Nv st0) as [s' [E Qs]] end.
        * reflexivity.
        * intros i s Hi Qi. unfold Q in Qi. subst s. cbv beta iota.
          rewrite (part2_step 0 rvec Nu Nv nt Hr j i) by (try assumption; try reflexivity; nia).
          cbv beta iota delta [bind].
          rewrite (part2_step 0 cvec Nu Nv nt Hc j i) by (try assumption; try reflexivity; nia).
          cbv beta iota.
          unfold nd3_set_row. cbn [nd_d0 nd_d1 nd_d2 nd_buf].
          destruct (Nat.ltb_spec j Nu); [|lia]. destruct (Nat.ltb_spec i Nv); [|lia]. cbn [andb].
          fold (dvec j i).
          rewrite (part2_step rO dvec Nu Nv nt Hd j i) by (try assumption; reflexivity).
          cbv beta iota. eexists. split; [reflexivity|]. reflexivity.
        * exists s'. split; [exact E|]. unfold Q in Qs. unfold P. rewrite Qs. now rewrite !part2_row_end.
      + rewrite E. unfold P in Ps. subst s'. cbv beta iota delta [bind]. unfold flattenC. cbn [nd_buf].
        now rewrite !part2_end.
    - rewrite (full2_length rvec Nu Nv nt Hr), (full2_length cvec Nu Nv nt Hc), (full2_length dvec Nu Nv nt Hd).
      split; [reflexivity|]. split; [reflexivity|]. split; [reflexivity|].
      intros j i e Hj Hi He.
      rewrite (full2_nth rvec Nu Nv nt Hr), (full2_nth cvec Nu Nv nt Hc), (full2_nth dvec Nu Nv nt Hd) by assumption.
      split; [reflexivity|]. split; [reflexivity|].
      unfold dvec, nt. now apply bilinear_kernel_nth.
  Qed.

  (* ---------- dense conversion: v^T A u as a sum over the triplets ---------- *)
  Lemma forallb_nth_lt (l : list nat) n : (forall k, k < length l -> nth k l 0 < n) -> forallb (fun r => r <? n) l = true.
  Proof.
    intros H. apply forallb_forall. intros x Hx. destruct (In_nth l x 0 Hx) as [k [Hk E]].
    apply Nat.ltb_lt. rewrite <- E. now apply H.
  Qed.

  Lemma dense2_vAu rows cols data nr nc :
    length rows = length data -> length cols = length data ->
    (forall k, k < length data -> nth k rows 0 < nr) -> (forall k, k < length data -> nth k cols 0 < nc) ->
    exists A, dense2 R rO radd rows cols data nr nc = Some A /\
      forall v u, vAu R rO radd rmul v A u nr nc
                  = Sn (length data) (fun k => v (nth k rows 0) [*] nth k data rO [*] u (nth k cols 0)).
  Proof.
    intros Lr Lc Hr Hc. unfold dense2.
    rewrite Lr, Lc, !Nat.eqb_refl. rewrite forallb_nth_lt by (now rewrite Lr). rewrite forallb_nth_lt by (now rewrite Lc).
    cbn [andb]. eexists. split; [reflexivity|]. intros v u. unfold vAu.
    (* expand the matrix entry and push the factors inside *)
    transitivity (Sn nr (fun r => Sn nc (fun c => Sn (length data) (fun k =>
        if nth k rows 0 =? r then (if nth k cols 0 =? c then v r [*] nth k data rO [*] u c else rO) else rO)))).
    { apply sumn_ext. intros r Hr'. apply sumn_ext. intros c Hc'.
      rewrite nth_map_seq0 by assumption. rewrite nth_map_seq0 by assumption.
      rewrite <- (sumn_scale_l R rO rI radd rmul rsub ropp Rth).
      rewrite <- (sumn_scale_r R rO rI radd rmul rsub ropp Rth).
      apply sumn_ext. intros k Hk. destruct (nth k rows 0 =? r); [destruct (nth k cols 0 =? c)|]; ring. }
    (* bring the sum over triplets outside *)
    transitivity (Sn nr (fun r => Sn (length data) (fun k => Sn nc (fun c =>
        if nth k rows 0 =? r then (if nth k cols 0 =? c then v r [*] nth k data rO [*] u c else rO) else rO)))).
    { apply sumn_ext. intros r _. apply (sumn_exchange R rO rI radd rmul rsub ropp Rth). }
    rewrite (sumn_exchange R rO rI radd rmul rsub ropp Rth).
    apply sumn_ext. intros k Hk.
    transitivity (Sn nr (fun r => if nth k rows 0 =? r then v r [*] nth k data rO [*] u (nth k cols 0) else rO)).
    { apply sumn_ext. intros r _. destruct (nth k rows 0 =? r).
      - apply (sumn_delta R rO rI radd rmul rsub ropp Rth nc (nth k cols 0)
                 (fun c => v r [*] nth k data rO [*] u c)). now apply Hc.
      - apply (sumn_zero R rO rI radd rmul rsub ropp Rth). }
    apply (sumn_delta R rO rI radd rmul rsub ropp Rth nr (nth k rows 0)
             (fun r => v r [*] nth k data rO [*] u (nth k cols 0))). now apply Hr.
  Qed.

  Lemma dense1_bv rows data nr :
    length rows = length data -> (forall k, k < length data -> nth k rows 0 < nr) ->
    exists b, dense1 R rO radd rows data nr = Some b /\
      forall v, bv R rO radd rmul b v nr = Sn (length data) (fun k => nth k data rO [*] v (nth k rows 0)).
  Proof.
    intros Lr Hr. unfold dense1. rewrite Lr, Nat.eqb_refl. rewrite forallb_nth_lt by (now rewrite Lr).
    cbn [andb]. eexists. split; [reflexivity|]. intros v. unfold bv.
    transitivity (Sn nr (fun r => Sn (length data) (fun k =>
        if nth k rows 0 =? r then nth k data rO [*] v r else rO))).
    { apply sumn_ext. intros r Hr'. rewrite nth_map_seq0 by assumption.
      rewrite <- (sumn_scale_r R rO rI radd rmul rsub ropp Rth).
      apply sumn_ext. intros k Hk. destruct (nth k rows 0 =? r); ring. }
    rewrite (sumn_exchange R rO rI radd rmul rsub ropp Rth).
    apply sumn_ext. intros k Hk.
    apply (sumn_delta R rO rI radd rmul rsub ropp Rth nr (nth k rows 0) (fun r => nth k data rO [*] v r)).
    now apply Hr.
  Qed.

  (* ---------- interpolation is the linear combination of the basis functions ---------- *)
  Lemma interp_linear (g : V -> R) (b : basis) (u : nat -> R) e q :
    (forall a c, g (vadd a c) = g a [+] g c) -> (forall s a, g (vscale s a) = s [*] g a) ->
    g (interp b u e q) = Sn (bNbfun b) (fun j => u (nth e (element_dofs b j) 0) [*] g (bB b j e q)).
  Proof.
    intros Hadd Hsc. unfold C01_Assembly.interp.
    set (term := fun i => vscale (u (nth e (element_dofs b i) 0)) (bB b i e q)).
    assert (G : forall l acc, g (fold_left (fun out i => vadd out (term i)) l acc)
                              = g acc [+] sum_over rO radd l (fun j => u (nth e (element_dofs b j) 0) [*] g (bB b j e q))).
    { induction l as [|i l IH]; intros acc; simpl.
      - unfold sum_over. simpl. ring.
      - rewrite IH, Hadd. unfold term. rewrite Hsc. unfold sum_over. simpl. ring. }
    rewrite G, Hsc. unfold sumn, sum_over. ring.
  Qed.

  (* ---------- re-ordering of nested sums ---------- *)
  Lemma sum4_reorder a b c d (T : nat -> nat -> nat -> nat -> R) :
    Sn a (fun j => Sn b (fun i => Sn c (fun e => Sn d (fun q => T j i e q))))
    = Sn c (fun e => Sn d (fun q => Sn a (fun j => Sn b (fun i => T j i e q)))).
  Proof.
    transitivity (Sn a (fun j => Sn c (fun e => Sn b (fun i => Sn d (fun q => T j i e q))))).
    { apply sumn_ext. intros j _. apply (sumn_exchange R rO rI radd rmul rsub ropp Rth). }
    rewrite (sumn_exchange R rO rI radd rmul rsub ropp Rth).
    apply sumn_ext. intros e _.
    transitivity (Sn a (fun j => Sn d (fun q => Sn b (fun i => T j i e q)))).
    { apply sumn_ext. intros j _. apply (sumn_exchange R rO rI radd rmul rsub ropp Rth). }
    apply (sumn_exchange R rO rI radd rmul rsub ropp Rth).
  Qed.

  Lemma sum3_reorder b c d (T : nat -> nat -> nat -> R) :
    Sn b (fun i => Sn c (fun e => Sn d (fun q => T i e q)))
    = Sn c (fun e => Sn d (fun q => Sn b (fun i => T i e q))).
  Proof.
    rewrite (sumn_exchange R rO rI radd rmul rsub ropp Rth).
    apply sumn_ext. intros e _. apply (sumn_exchange R rO rI radd rmul rsub ropp Rth).
  Qed.

  (* ---------- the weak form, bilinear ---------- *)
  Section Bilinear.
    Variable form : V -> V -> W -> R.
    Hypothesis form_add_u : forall a b v w, form (vadd a b) v w = form a v w [+] form b v w.
    Hypothesis form_scale_u : forall s a v w, form (vscale s a) v w = s [*] form a v w.
    Hypothesis form_add_v : forall u a b w, form u (vadd a b) w = form u a w [+] form u b w.
    Hypothesis form_scale_v : forall s u a w, form u (vscale s a) w = s [*] form u a w.

    Theorem bilinear_weak_form w (ub : basis) (vb0 : option basis) (u v : nat -> R) :
      let vb := match vb0 with None => ub | Some b => b end in
      wf_basis ub -> wf_basis vb -> bnelems vb = bnelems ub -> bnq vb = bnq ub ->
      exists c A,
        bilinear_assemble R rO radd rmul V W form w ub vb0 = Some c /\
        to_dense2 R rO radd c = Some A /\
        vAu R rO radd rmul v A u (bN vb) (bN ub)
        = integrate R rO radd rmul (bnelems ub) (bnq ub)
            (fun e q => form (interp ub u e q) (interp vb v e q) (w e q)) (bdx ub).
    Proof.
      intros vb Hu Hv Hnt Hnq.
      destruct (bilinear_assemble_entries form w ub vb0 Hu Hv Hnt Hnq)
        as [rows [cols [data [E [Lr [Lc [Ld Hent]]]]]]].
      fold vb in E, Lr, Lc, Ld, Hent.
      set (Nu := bNbfun ub) in *. set (Nv := bNbfun vb) in *. set (nt := bnelems ub) in *.
      assert (Hrange : forall k, k < Nu * Nv * nt -> exists j i e, j < Nu /\ i < Nv /\ e < nt /\ k = (j * Nv + i) * nt + e).
      { intros k Hk. assert (0 < nt) by nia. assert (0 < Nv) by nia.
        exists (k / nt / Nv), ((k / nt) mod Nv), (k mod nt).
        pose proof (Nat.div_mod k nt ltac:(lia)). pose proof (Nat.mod_upper_bound k nt ltac:(lia)).
        pose proof (Nat.div_mod (k / nt) Nv ltac:(lia)). pose proof (Nat.mod_upper_bound (k / nt) Nv ltac:(lia)).
        assert (k / nt < Nu * Nv) by (apply Nat.div_lt_upper_bound; nia).
        assert (k / nt / Nv < Nu) by (apply Nat.div_lt_upper_bound; nia).
        repeat split; try assumption. nia. }
      destruct (dense2_vAu rows cols data (bN vb) (bN ub)) as [A [EA HA]].
      - now rewrite Lr, Ld.
      - now rewrite Lc, Ld.
      - intros k Hk. rewrite Ld in Hk. destruct (Hrange k Hk) as [j [i [e [Hj [Hi [He ->]]]]]].
        destruct (Hent j i e Hj Hi He) as [-> _]. destruct Hv as [_ Hv]. destruct (Hv i Hi) as [_ Hb].
        apply Hb. now rewrite Hnt.
      - intros k Hk. rewrite Ld in Hk. destruct (Hrange k Hk) as [j [i [e [Hj [Hi [He ->]]]]]].
        destruct (Hent j i e Hj Hi He) as [_ [-> _]]. destruct Hu as [_ Hu]. destruct (Hu j Hj) as [_ Hb].
        now apply Hb.
      - exists (mkCoo [rows; cols] data [bN vb; bN ub] [Nv; Nu]), A.
        split; [exact E|]. split; [exact EA|].
        rewrite HA, Ld.
        (* left: sum over triplets -> sum over (j, i, e, q) *)
        set (T := fun j i e q => u (nth e (element_dofs ub j) 0) [*] (v (nth e (element_dofs vb i) 0)
                    [*] (form (bB ub j e q) (bB vb i e q) (w e q) [*] bdx ub e q))).
        transitivity (Sn Nu (fun j => Sn Nv (fun i => Sn nt (fun e => Sn (bnq ub) (fun q => T j i e q))))).
        { rewrite (sumn_prod R rO rI radd rmul rsub ropp Rth (Nu * Nv) nt).
          rewrite (sumn_prod R rO rI radd rmul rsub ropp Rth Nu Nv).
          apply sumn_ext. intros j Hj. apply sumn_ext. intros i Hi. apply sumn_ext. intros e He.
          destruct (Hent j i e Hj Hi He) as [-> [-> ->]]. unfold Kjie.
          rewrite <- (sumn_scale_l R rO rI radd rmul rsub ropp Rth).
          rewrite <- (sumn_scale_r R rO rI radd rmul rsub ropp Rth).
          apply sumn_ext. intros q _. unfold T. ring. }
        rewrite sum4_reorder. unfold integrate.
        apply sumn_ext. intros e He. apply sumn_ext. intros q Hq.
        rewrite (interp_linear (fun a => form a (interp vb v e q) (w e q)) ub u e q)
          by (intros; first [apply form_add_u | apply form_scale_u]).
        rewrite <- (sumn_scale_r R rO rI radd rmul rsub ropp Rth).
        apply sumn_ext. intros j Hj.
        rewrite (interp_linear (fun a => form (bB ub j e q) a (w e q)) vb v e q)
          by (intros; first [apply form_add_v | apply form_scale_v]).
        fold Nv.
        rewrite <- (sumn_scale_l R rO rI radd rmul rsub ropp Rth).
        rewrite <- (sumn_scale_r R rO rI radd rmul rsub ropp Rth).
        apply sumn_ext. intros i Hi. unfold T. ring.
    Qed.
  End Bilinear.

  (* ---------- LinearForm ---------- *)
  Definition Kie (form : V -> W -> R) (w : nat -> nat -> W) (vb : basis) (i e : nat) : R :=
    Sn (bnq vb) (fun q => form (bB vb i e q) (w e q) [*] bdx vb e q).

  Theorem linear_assemble_entries form w (vb : basis) :
    let Nv := bNbfun vb in let nt := bnelems vb in
    wf_basis vb ->
    exists rows data,
      linear_assemble R rO radd rmul V W form w vb = Some (mkCoo [rows] data [bN vb] [Nv]) /\
      length rows = Nv * nt /\ length data = Nv * nt /\
      forall i e, i < Nv -> e < nt ->
        nth (i * nt + e) rows 0 = nth e (element_dofs vb i) 0 /\
        nth (i * nt + e) data rO = Kie form w vb i e.
  Proof.
    intros Nv nt Hv.
    set (rvec := fun (j i : nat) => element_dofs vb i).
    set (dvec := fun (j i : nat) => linear_kernel R rO radd rmul V W form (bB vb i) w (bdx vb) nt (bnq vb)).
    assert (Hr : forall j i, j < 1 -> i < Nv -> length (rvec j i) = nt).
    { intros j i _ Hi. unfold rvec. destruct Hv as [_ Hv]. now destruct (Hv i Hi) as [L _]. }
    assert (Hd : forall j i, j < 1 -> i < Nv -> length (dvec j i) = nt).
    { intros. unfold dvec, linear_kernel, sum_axis1. now rewrite map_length, seq_length. }
    exists (full2 rvec 1 Nv), (full2 dvec 1 Nv). split.
    - unfold linear_assemble. fold Nv. fold nt.
      set (Q := fun (i : nat) (st : list R * list nat) =>
                  st = (part2 rO dvec 1 Nv nt 0 i, part2 0 rvec 1 Nv nt 0 i)).
      match goal with |- bind (for_range Nv ?body ?st0) _ = _ =>
        destruct (for_range_inv Q body Nv st0) as [s' [E Qs]] end.
      + unfold Q. rewrite !part2_start. now rewrite Nat.mul_1_l.
      + intros i s Hi Qi. unfold Q in Qi. subst s. cbv beta iota.
        rewrite (part2_step 0 rvec 1 Nv nt Hr 0 i) by (try assumption; try reflexivity; lia).
        cbv beta iota delta [bind]. fold (dvec 0 i).
        rewrite (part2_step rO dvec 1 Nv nt Hd 0 i) by (try assumption; try reflexivity; lia).
        cbv beta iota. eexists. split; reflexivity.
      + rewrite E. unfold Q in Qs. subst s'. cbv beta iota delta [bind].
        now rewrite !part2_row_end, !part2_end.
    - rewrite (full2_length rvec 1 Nv nt Hr), (full2_length dvec 1 Nv nt Hd).
      split; [lia|]. split; [lia|]. intros i e Hi He.
      replace (i * nt + e) with ((0 * Nv + i) * nt + e) by lia.
      rewrite (full2_nth rvec 1 Nv nt Hr), (full2_nth dvec 1 Nv nt Hd) by (try assumption; lia).
      split; [reflexivity|]. unfold dvec, linear_kernel, sum_axis1. now rewrite nth_map_seq0.
  Qed.

  Section Linear.
    Variable form : V -> W -> R.
    Hypothesis form_add : forall a b w, form (vadd a b) w = form a w [+] form b w.
    Hypothesis form_scale : forall s a w, form (vscale s a) w = s [*] form a w.

    Theorem linear_weak_form w (vb : basis) (v : nat -> R) :
      wf_basis vb ->
      exists c b,
        linear_assemble R rO radd rmul V W form w vb = Some c /\
        to_dense1 R rO radd c = Some b /\
        bv R rO radd rmul b v (bN vb)
        = integrate R rO radd rmul (bnelems vb) (bnq vb) (fun e q => form (interp vb v e q) (w e q)) (bdx vb).
    Proof.
      intros Hv. destruct (linear_assemble_entries form w vb Hv) as [rows [data [E [Lr [Ld Hent]]]]].
      set (Nv := bNbfun vb) in *. set (nt := bnelems vb) in *.
      assert (Hrange : forall k, k < Nv * nt -> exists i e, i < Nv /\ e < nt /\ k = i * nt + e).
      { intros k Hk. assert (0 < nt) by nia. exists (k / nt), (k mod nt).
        pose proof (Nat.div_mod k nt ltac:(lia)). pose proof (Nat.mod_upper_bound k nt ltac:(lia)).
        assert (k / nt < Nv) by (apply Nat.div_lt_upper_bound; nia). repeat split; try assumption. nia. }
      destruct (dense1_bv rows data (bN vb)) as [b [Eb Hb]].
      - now rewrite Lr, Ld.
      - intros k Hk. rewrite Ld in Hk. destruct (Hrange k Hk) as [i [e [Hi [He ->]]]].
        destruct (Hent i e Hi He) as [-> _]. destruct Hv as [_ Hv]. destruct (Hv i Hi) as [_ Hlt]. now apply Hlt.
      - exists (mkCoo [rows] data [bN vb] [Nv]), b. split; [exact E|]. split; [exact Eb|].
        rewrite Hb, Ld.
        set (T := fun i e q => v (nth e (element_dofs vb i) 0) [*] (form (bB vb i e q) (w e q) [*] bdx vb e q)).
        transitivity (Sn Nv (fun i => Sn nt (fun e => Sn (bnq vb) (fun q => T i e q)))).
        { rewrite (sumn_prod R rO rI radd rmul rsub ropp Rth Nv nt).
          apply sumn_ext. intros i Hi. apply sumn_ext. intros e He.
          destruct (Hent i e Hi He) as [-> ->]. unfold Kie.
          rewrite <- (sumn_scale_r R rO rI radd rmul rsub ropp Rth).
          apply sumn_ext. intros q _. unfold T. ring. }
        rewrite sum3_reorder. unfold integrate.
        apply sumn_ext. intros e He. apply sumn_ext. intros q Hq.
        rewrite (interp_linear (fun a => form a (w e q)) vb v e q)
          by (intros; first [apply form_add | apply form_scale]).
        fold Nv. rewrite <- (sumn_scale_r R rO rI radd rmul rsub ropp Rth).
        apply sumn_ext. intros i Hi. unfold T. ring.
    Qed.
  End Linear.

  (* ---------- Functional ---------- *)
  Theorem functional_value (W' : Type) (form : W' -> R) (w : nat -> nat -> W') (b : basis) :
    to_scalar R rO radd (functional_assemble R rO radd rmul V W' form w b)
    = integrate R rO radd rmul (bnelems b) (bnq b) (fun e q => form (w e q)) (bdx b).
  Proof.
    unfold to_scalar, functional_assemble, functional_elemental, integrate. cbn [c_data sum_list fold_right].
    unfold sumn at 2. fold (sum_list rO radd). ring.
  Qed.

  (* ---------- restriction to a list of cells / facets: just another table ---------- *)
  Lemma subset_edofs (b : basis) tind i k : k < length tind ->
    nth k (element_dofs (subset_basis b tind) i) 0 = nth (nth k tind 0) (element_dofs b i) 0.
  Proof.
    intros Hk. unfold element_dofs, subset_basis. cbn [bedofs].
    destruct (Nat.lt_ge_cases i (length (bedofs b))) as [Hi|Hi].
    - rewrite (nth_indep _ [] (gather 0 [] tind)) by (now rewrite map_length).
      rewrite (map_nth (fun row => gather 0 row tind)). unfold gather.
      rewrite (nth_indep _ 0 (nth 0 (nth i (bedofs b) []) 0)) by (now rewrite map_length).
      rewrite (map_nth (fun t => nth t (nth i (bedofs b) []) 0)). reflexivity.
    - rewrite !(nth_overflow _ []) by (try rewrite map_length; assumption).
      now destruct k; destruct (nth _ tind 0).
  Qed.

  Theorem subset_basis_wf (b : basis) tind :
    wf_basis b -> (forall t, In t tind -> t < bnelems b) -> wf_basis (subset_basis b tind).
  Proof.
    intros [HL Hb] Ht. split.
    - unfold subset_basis. cbn [bedofs bNbfun]. now rewrite map_length.
    - intros i Hi. cbn [subset_basis bNbfun] in Hi. split.
      + unfold element_dofs, subset_basis. cbn [bedofs bnelems].
        rewrite (nth_indep _ [] (gather 0 [] tind)) by (rewrite map_length; lia).
        rewrite (map_nth (fun row => gather 0 row tind)). unfold gather. now rewrite map_length.
      + intros e He. cbn [subset_basis bnelems bN] in *. rewrite subset_edofs by assumption.
        destruct (Hb i Hi) as [_ Hlt]. apply Hlt. apply Ht. now apply nth_In.
  Qed.

  Theorem subset_basis_interp (b : basis) tind u k q : k < length tind ->
    interp (subset_basis b tind) u k q = interp b u (nth k tind 0) q.
  Proof.
    intros Hk. unfold C01_Assembly.interp. cbn [subset_basis bNbfun bB].
    rewrite !subset_edofs by assumption.
    apply fold_left_ext_all. intros out i. now rewrite subset_edofs.
  Qed.
End Proofs.

(* ====================================================================== consequences *)
Section Consequences.
  Variable R : Type.
  Variables (rO rI : R) (radd rmul rsub : R -> R -> R) (ropp : R -> R).
  Variable Rth : ring_theory rO rI radd rmul rsub ropp (@eq R).
  Variable V W : Type.
  Variables (vadd : V -> V -> V) (vscale : R -> V -> V).
  Notation "a [+] b" := (radd a b) (at level 50, left associativity).
  Notation "a [*] b" := (rmul a b) (at level 40, left associativity).
  Notation basis := (basis R V).
  Notation interp := (interp R rO V vadd vscale).

  Variable form : V -> V -> W -> R.
  Hypothesis form_add_u : forall a b v w, form (vadd a b) v w = form a v w [+] form b v w.
  Hypothesis form_scale_u : forall s a v w, form (vscale s a) v w = s [*] form a v w.
  Hypothesis form_add_v : forall u a b w, form u (vadd a b) w = form u a w [+] form u b w.
  Hypothesis form_scale_v : forall s u a w, form u (vscale s a) w = s [*] form u a w.

  Lemma integrate_ext nt nq g h dx dx' :
    (forall e q, e < nt -> q < nq -> g e q = h e q) -> (forall e q, e < nt -> q < nq -> dx e q = dx' e q) ->
    integrate R rO radd rmul nt nq g dx = integrate R rO radd rmul nt nq h dx'.
  Proof.
    intros Hg Hdx. unfold integrate. apply sumn_ext. intros e He. apply sumn_ext. intros q Hq.
    now rewrite Hg, Hdx.
  Qed.

  (* the three form types and interpolation are mutually consistent: with the SAME integrand and the same
     parameter function w,  v^T A u  =  b_u^T v  =  J,  where b_u is the linear form v |-> form(u_h, v) (u_h
     entering as a pre-interpolated field) and J the functional of form(u_h, v_h). *)
  Theorem forms_consistent w (ub vb : basis) (u v : nat -> R) :
    wf_basis ub -> wf_basis vb -> bnelems vb = bnelems ub -> bnq vb = bnq ub ->
    (forall e q, e < bnelems ub -> q < bnq ub -> bdx vb e q = bdx ub e q) ->
    exists c A cl b,
      bilinear_assemble R rO radd rmul V W form w ub (Some vb) = Some c /\ to_dense2 R rO radd c = Some A /\
      linear_assemble R rO radd rmul V (V * W) (fun a p => form (fst p) a (snd p))
                      (fun e q => (interp ub u e q, w e q)) vb = Some cl /\ to_dense1 R rO radd cl = Some b /\
      vAu R rO radd rmul v A u (bN vb) (bN ub) = bv R rO radd rmul b v (bN vb) /\
      vAu R rO radd rmul v A u (bN vb) (bN ub)
      = to_scalar R rO radd (functional_assemble R rO radd rmul V (V * V * W)
            (fun p => form (fst (fst p)) (snd (fst p)) (snd p))
            (fun e q => (interp ub u e q, interp vb v e q, w e q)) ub).
  Proof.
    intros Hu Hv Hnt Hnq Hdx.
    destruct (bilinear_weak_form R rO rI radd rmul rsub ropp Rth V W vadd vscale form
                form_add_u form_scale_u form_add_v form_scale_v w ub (Some vb) u v Hu Hv Hnt Hnq)
      as [c [A [E [EA HA]]]].
    destruct (linear_weak_form R rO rI radd rmul rsub ropp Rth V (V * W) vadd vscale
                (fun a p => form (fst p) a (snd p))
                (fun a b p => form_add_v (fst p) a b (snd p)) (fun s a p => form_scale_v s (fst p) a (snd p))
                (fun e q => (interp ub u e q, w e q)) vb v Hv) as [cl [b [El [Eb Hb]]]].
    exists c, A, cl, b. repeat (split; [assumption|]). split.
    - rewrite HA, Hb. rewrite Hnt, Hnq. cbn [fst snd]. apply integrate_ext; [reflexivity|].
      intros e q He Hq. symmetry. now apply Hdx.
    - rewrite HA, (functional_value R rO rI radd rmul rsub ropp Rth V). reflexivity.
  Qed.

  (* cell subsets (elements=...), facet bases, side = 0/1: the restricted bases are just other tables, and the
     identity holds with the sums running over the listed cells *)
  Theorem bilinear_weak_form_subset w (ub vb : basis) (tu tv : list nat) (u v : nat -> R) :
    wf_basis ub -> wf_basis vb -> bnq vb = bnq ub -> length tv = length tu ->
    (forall t, In t tu -> t < bnelems ub) -> (forall t, In t tv -> t < bnelems vb) ->
    exists c A,
      bilinear_assemble R rO radd rmul V W form w (subset_basis ub tu) (Some (subset_basis vb tv)) = Some c /\
      to_dense2 R rO radd c = Some A /\
      vAu R rO radd rmul v A u (bN vb) (bN ub)
      = integrate R rO radd rmul (length tu) (bnq ub)
          (fun k q => form (interp ub u (nth k tu 0) q) (interp vb v (nth k tv 0) q) (w k q))
          (fun k q => bdx ub (nth k tu 0) q).
  Proof.
    intros Hu Hv Hnq Hlen Htu Htv.
    destruct (bilinear_weak_form R rO rI radd rmul rsub ropp Rth V W vadd vscale form
                form_add_u form_scale_u form_add_v form_scale_v w (subset_basis ub tu)
                (Some (subset_basis vb tv)) u v
                (subset_basis_wf R V ub tu Hu Htu) (subset_basis_wf R V vb tv Hv Htv) Hlen Hnq)
      as [c [A [E [EA HA]]]].
    exists c, A. split; [exact E|]. split; [exact EA|].
    cbn [subset_basis bN bnelems bnq bdx] in HA. rewrite HA.
    apply integrate_ext; [|reflexivity]. intros k q Hk _.
    rewrite !subset_basis_interp by (try rewrite Hlen; assumption). reflexivity.
  Qed.
End Consequences.

(* the boolean well-formedness test used on concrete tables is sound *)
Lemma wf_basisb_sound {R V} (b : basis R V) : wf_basisb b = true -> wf_basis b.
Proof.
  unfold wf_basisb, wf_basis. intros H. apply andb_true_iff in H. destruct H as [HL HF].
  apply Nat.eqb_eq in HL. split; [exact HL|]. intros i Hi.
  rewrite forallb_forall in HF. unfold element_dofs.
  assert (Hin : In (nth i (bedofs b) []) (bedofs b)) by (apply nth_In; lia).
  specialize (HF _ Hin). apply andb_true_iff in HF. destruct HF as [H1 H2]. apply Nat.eqb_eq in H1.
  split; [exact H1|]. intros e He. rewrite forallb_forall in H2. apply Nat.ltb_lt. apply H2. apply nth_In. lia.
Qed.
