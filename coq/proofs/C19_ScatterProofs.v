From Coq Require Import List Arith Bool Lia.
Import ListNotations.
Require Import Model.C19_Blocks Proofs.C19_BlocksProofs Model.C19_Scatter.

Lemma nth_map_seq_d' {B} (f : nat -> B) n k d : k < n -> nth k (map f (seq 0 n)) d = f k.
Proof.
  intros H. rewrite (nth_indep _ d (f 0)) by (rewrite map_length, seq_length; lia).
  rewrite map_nth, seq_nth by lia. reflexivity.
Qed.

Lemma combine_app' {A B} : forall (l1 l2 : list A) (m1 m2 : list B), length l1 = length m1 ->
  combine (l1 ++ l2) (m1 ++ m2) = combine l1 m1 ++ combine l2 m2.
Proof.
  induction l1 as [|a l1 IH]; intros l2 [|b m1] m2 H; simpl in *; try discriminate; [reflexivity|]. f_equal. apply IH. lia.
Qed.

Section ScatterProofs.
  Variable A : Type.
  Variables (zero : A) (add : A -> A -> A).

  Lemma scatter_length idx vals : forall out, length (scatter_set A idx vals out) = length out.
  Proof.
    unfold scatter_set. generalize (combine idx vals). intros l. induction l as [|kv l IH]; intros out; simpl; [reflexivity|].
    rewrite IH. apply set_nth_length.
  Qed.

  (* a facet that is not listed keeps its (zero) entry *)
  Lemma scatter_other idx vals f d : ~ In f idx -> forall out, nth f (scatter_set A idx vals out) d = nth f out d.
  Proof.
    unfold scatter_set. revert vals. induction idx as [|i idx IH]; intros vals Hf out; [reflexivity|].
    destruct vals as [|v vals]; [reflexivity|]. simpl. rewrite IH by (intros H; apply Hf; now right).
    unfold set_nth. destruct (Nat.ltb_spec i (length out)); [|reflexivity].
    assert (f <> i) by (intros ->; apply Hf; now left).
    destruct (Nat.lt_ge_cases f i).
    - rewrite app_nth1 by (rewrite firstn_length; lia). now apply nth_firstn_lt'.
    - rewrite app_nth2 by (rewrite firstn_length; lia). rewrite firstn_length, Nat.min_l by lia.
      destruct (f - i) as [|p] eqn:E; [lia|]. cbn [nth]. rewrite nth_skipn'. f_equal. lia.
  Qed.

  (* listed facets: with distinct indices entry find[k] holds local[k] *)
  Theorem scatter_nth idx : forall vals out k d, NoDup idx -> length vals = length idx ->
    (forall i, In i idx -> i < length out) -> k < length idx ->
    nth (nth k idx 0) (scatter_set A idx vals out) d = nth k vals d.
  Proof.
    induction idx as [|i idx IH]; intros vals out k d Hnd Hl Hb Hk; simpl in Hk; [lia|].
    destruct vals as [|v vals]; [discriminate|]. inversion Hnd as [|? ? Hni Hnd']; subst.
    unfold scatter_set. simpl combine. simpl fold_left. fold (scatter_set A idx vals (set_nth i v out)).
    destruct k as [|k]; simpl nth.
    - rewrite scatter_other by exact Hni. rewrite set_nth_nth by (apply Hb; now left). now rewrite Nat.eqb_refl.
    - apply IH; [exact Hnd' | simpl in Hl; lia | | lia].
      intros j Hj. rewrite set_nth_length. apply Hb. now right.
  Qed.

  (* repeated facets: the last assignment stays *)
  Theorem scatter_last_wins idx vals i v out d : length vals = length idx -> i < length out ->
    nth i (scatter_set A (idx ++ [i]) (vals ++ [v]) out) d = v.
  Proof.
    intros Hl Hi. unfold scatter_set. rewrite combine_app' by (symmetry; exact Hl). rewrite fold_left_app. simpl.
    rewrite set_nth_nth by (fold (scatter_set A idx vals out); now rewrite scatter_length). now rewrite Nat.eqb_refl.
  Qed.

  (* the per-cell sum: cell e collects, over its facets t2f[itr][e], the local matrix of that facet if it is listed, zero otherwise *)
  Theorem facet_sum_spec nfacets ncells find local t2f e d : e < ncells ->
    nth e (facet_sum A zero add nfacets ncells find local t2f) d
    = fold_right add zero (map (fun row => nth (nth e row 0) (scatter_set A find local (repeat zero nfacets)) zero) t2f).
  Proof. intros He. unfold facet_sum. cbv zeta. now rewrite nth_map_seq_d'. Qed.
End ScatterProofs.
