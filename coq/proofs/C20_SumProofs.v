(* C20 — laws of the einsum combinators for EVERY extent n (finite-sum algebra in a commutative ring). *)
From Coq Require Import List Arith Bool Lia Ring.
Require Import Base.C20_Ring Model.C20_Tensor Proofs.C20_NonlinProofs.

Section Laws.
  Context {R : Type} {ops : FOps R}.
  Hypothesis Rth : ring_theory f0 f1 fadd fmul fsub fopp (@eq R).
  Add Ring Rring20u : Rth.
  Open Scope F_scope.

  Lemma es_i_i_comm n (u v : vec R) : es_i_i n u v = es_i_i n v u.
  Proof. unfold es_i_i. apply (fsum_ext n). intros k _. ring. Qed.

  Lemma es_i_i_bilinear n (u v w : vec R) (c : R) :
    es_i_i n (fun i => c * u i + w i) v = c * es_i_i n u v + es_i_i n w v.
  Proof.
    unfold es_i_i. rewrite (Rmul_comm Rth c), (fsum_scale_r Rth), <- (fsum_plus Rth).
    apply (fsum_ext n). intros k _. ring.
  Qed.

  (* A : B = tr(A^T B) *)
  Lemma ddot_is_trace n (A B : mat R) :
    es_ij_ij n A B = es_ii n (es_ij_jk__ik n (es_ij__ji A) B).
  Proof. unfold es_ij_ij, es_ii, es_ij_jk__ik, es_ij__ji. apply (fsum_exchange Rth). Qed.

  Lemma ddot_comm n (A B : mat R) : es_ij_ij n A B = es_ij_ij n B A.
  Proof. unfold es_ij_ij. apply (fsum_ext n). intros i _. apply (fsum_ext n). intros j _. ring. Qed.

  (* (A B) x = A (B x) *)
  Lemma matvec_assoc n (A B : mat R) (x : vec R) i :
    es_ij_j__i n (es_ij_jk__ik n A B) x i = es_ij_j__i n A (es_ij_j__i n B x) i.
  Proof.
    unfold es_ij_j__i, es_ij_jk__ik.
    rewrite (fsum_ext n _ (fun k => fsum n (fun j => A i j * B j k * x k))).
    2:{ intros k _. apply (fsum_scale_r Rth). }
    rewrite (fsum_exchange Rth). apply (fsum_ext n). intros j _.
    rewrite (Rmul_comm Rth (A i j)), (fsum_scale_r Rth). apply (fsum_ext n). intros k _. ring.
  Qed.

  (* (A B)^T = B^T A^T *)
  Lemma transpose_product n (A B : mat R) i k :
    es_ij__ji (es_ij_jk__ik n A B) i k = es_ij_jk__ik n (es_ij__ji B) (es_ij__ji A) i k.
  Proof. unfold es_ij__ji, es_ij_jk__ik. apply (fsum_ext n). intros j _. ring. Qed.

  (* multiplication by the diagonal matrix w I *)
  Lemma matvec_diag n (w : R) (x : vec R) i : i < n ->
    es_ij_j__i n (fun a b => if Nat.eqb a b then w else 0) x i = w * x i.
  Proof. intros Hi. unfold es_ij_j__i. apply (fsum_delta Rth n i w x Hi). Qed.

  (* tr(u v^T) = u . v ,  (u v^T) x = (v . x) u *)
  Lemma trace_outer n (u v : vec R) : es_ii n (es_i_j__ij u v) = es_i_i n u v.
  Proof. reflexivity. Qed.
  Lemma outer_matvec n (u v x : vec R) i : es_ij_j__i n (es_i_j__ij u v) x i = u i * es_i_i n v x.
  Proof.
    unfold es_ij_j__i, es_i_j__ij, es_i_i. rewrite (Rmul_comm Rth (u i)), (fsum_scale_r Rth).
    apply (fsum_ext n). intros j _. ring.
  Qed.
  Lemma trace_transpose_n n (T : mat R) : es_ii n (es_ij__ji T) = es_ii n T.
  Proof. reflexivity. Qed.
End Laws.
