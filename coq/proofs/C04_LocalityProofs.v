(* C04 — matrix locality on top of group D's assembly model (Model.C01_Assembly / Proofs.C01_AssemblyProofs):
   the dense matrix of BilinearForm.assemble has shape (N_test, N_trial) and is zero at (r, c) unless some integrated
   cell carries r among its test DOFs and c among its trial DOFs. *)
From Coq Require Import List Arith Lia Bool Ring.
Import ListNotations.
Require Import Base.C01_Sums Model.C01_Assembly Proofs.C01_AssemblyProofs.

Section Locality.
  Variable R : Type.
  Variables (rO rI : R) (radd rmul rsub : R -> R -> R) (ropp : R -> R).
  Variable Rth : ring_theory rO rI radd rmul rsub ropp (@eq R).
  Variable V W : Type.
  Notation basis := (basis R V).

  Theorem matrix_locality (form : V -> V -> W -> R) (w : nat -> nat -> W) (ub : basis) (vb0 : option basis) :
    let vb := match vb0 with None => ub | Some b => b end in
    wf_basis ub -> wf_basis vb -> bnelems vb = bnelems ub -> bnq vb = bnq ub ->
    exists c A,
      bilinear_assemble R rO radd rmul V W form w ub vb0 = Some c /\
      to_dense2 R rO radd c = Some A /\
      c_shape c = [bN vb; bN ub] /\ length A = bN vb /\
      (forall r, r < bN vb -> length (nth r A []) = bN ub) /\
      forall r cc, r < bN vb -> cc < bN ub ->
        (forall j i e, j < bNbfun ub -> i < bNbfun vb -> e < bnelems ub ->
           nth e (element_dofs vb i) 0 = r -> nth e (element_dofs ub j) 0 = cc -> False) ->
        nth cc (nth r A []) rO = rO.
  Proof.
    intros vb Hu Hv Hnt Hnq.
    destruct (bilinear_assemble_entries R rO radd rmul V W form w ub vb0 Hu Hv Hnt Hnq)
      as [rows [cols [data [E [Lr [Lc [Ld Hent]]]]]]].
    fold vb in E, Lr, Lc, Ld, Hent.
    set (Nu := bNbfun ub) in *. set (Nv := bNbfun vb) in *. set (nt := bnelems ub) in *.
    assert (Hrange : forall k, k < Nu * Nv * nt -> exists j i e, j < Nu /\ i < Nv /\ e < nt /\ k = (j * Nv + i) * nt + e).
    { intros k Hk. assert (0 < nt) by nia. assert (0 < Nv) by nia.
      exists (k / nt / Nv), ((k / nt) mod Nv), (k mod nt).
      pose proof (Nat.div_mod k nt ltac:(lia)). pose proof (Nat.mod_upper_bound k nt ltac:(lia)).
      pose proof (Nat.div_mod (k / nt) Nv ltac:(lia)). pose proof (Nat.mod_upper_bound (k / nt) Nv ltac:(lia)).
      assert (k / nt < Nu * Nv) by (apply Nat.div_lt_upper_bound; nia).
      assert (k / nt / Nv < Nu) by (apply Nat.div_lt_upper_bound; nia).
      repeat split; try assumption. nia. }
    assert (Br : forall k, k < length rows -> nth k rows 0 < bN vb).
    { intros k Hk. rewrite Lr in Hk. destruct (Hrange k Hk) as [j [i [e [Hj [Hi [He ->]]]]]].
      destruct (Hent j i e Hj Hi He) as [-> _]. destruct Hv as [_ Hv]. destruct (Hv i Hi) as [_ Hb].
      apply Hb. now rewrite Hnt. }
    assert (Bc : forall k, k < length cols -> nth k cols 0 < bN ub).
    { intros k Hk. rewrite Lc in Hk. destruct (Hrange k Hk) as [j [i [e [Hj [Hi [He ->]]]]]].
      destruct (Hent j i e Hj Hi He) as [_ [-> _]]. destruct Hu as [_ Hu]. destruct (Hu j Hj) as [_ Hb]. now apply Hb. }
    eexists. eexists. split; [exact E|]. unfold to_dense2. cbn [c_shape c_indices c_data nth]. unfold dense2.
    rewrite Lr, Lc, Ld, !Nat.eqb_refl, (forallb_nth_lt rows _ Br), (forallb_nth_lt cols _ Bc). cbn [andb].
    split; [reflexivity|]. split; [reflexivity|]. split; [now rewrite map_length, seq_length|]. split.
    - intros r Hr. rewrite (nth_map_seq0 _ (bN vb) r []) by exact Hr. now rewrite map_length, seq_length.
    - intros r cc Hr Hc Hno. rewrite (nth_map_seq0 _ (bN vb) r []) by exact Hr.
      rewrite (nth_map_seq0 _ (bN ub) cc rO) by exact Hc.
      transitivity (sumn rO radd (Nu * Nv * nt) (fun _ => rO)); [|apply (sumn_zero R rO rI radd rmul rsub ropp Rth)].
      apply sumn_ext. intros k Hk.
      destruct (Hrange k Hk) as [j [i [e [Hj [Hi [He ->]]]]]]. destruct (Hent j i e Hj Hi He) as [-> [-> _]].
      destruct (Nat.eqb_spec (nth e (element_dofs vb i) 0) r) as [E1|]; [|reflexivity].
      destruct (Nat.eqb_spec (nth e (element_dofs ub j) 0) cc) as [E2|]; [|reflexivity].
      exfalso. exact (Hno j i e Hj Hi He E1 E2).
  Qed.
End Locality.

(* the per-cell table of Dofs.__init__ (C04 model, offset 0) is a well-formed basis table for the assembler: Nbfun rows of
   nelems entries, all < N = total *)
Require Import Base.C11_Unique Model.C04_Dofs Proofs.C04_DofsProofs.

Theorem dofs_basis_wf (R V : Type) dim nd ed fd id nv ne nf nt t t2e t2f nq (B : nat -> nat -> nat -> V) (dx : nat -> nat -> R) :
  wf dim fd nv ne nf nt t t2e t2f ->
  let D := dofs_init dim nd ed fd id 0 nv ne nf nt t t2e t2f in
  wf_basis (mkBasis (total dim nd ed fd id nv ne nf nt) (length (D_element D)) nt nq (D_element D) B dx).
Proof.
  intros [Hfd [Ht [Ht2e Ht2f]]] D. unfold wf_basis. cbn [bedofs bNbfun bnelems bN]. split; [reflexivity|].
  intros i Hi. unfold element_dofs. cbn [bedofs].
  destruct (row_decompose dim nd ed fd id 0 nv ne nf nt t t2e t2f Hfd i Hi) as [kd [s [k [Hs [Hk ->]]]]].
  pose proof (element_row_length dim nd ed fd id 0 nv ne nf nt t t2e t2f Hfd Ht Ht2e Ht2f kd s k Hs Hk) as L.
  split; [exact L|]. intros e He.
  assert (Hin : In (nth e (nth (rowpos dim nd ed fd t t2e t2f kd s k) (D_element D) []) 0) (concat (D_element D))).
  { apply in_concat. exists (nth (rowpos dim nd ed fd t t2e t2f kd s k) (D_element D) []).
    split; [apply nth_In; exact Hi | apply nth_In; unfold D; rewrite L; exact He]. }
  apply (element_in_range dim nd ed fd id 0 nv ne nf nt t t2e t2f Hfd Ht Ht2e Ht2f) in Hin. lia.
Qed.
