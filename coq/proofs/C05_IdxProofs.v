(* C05 — pure list facts behind the row-zeroing index arithmetic of skfem.utils.enforce:
   the positions  repeat(start, count) + (arange(sum count) - repeat(cumsum(count) - count, count))
   are, for EVERY list of starts and non-negative counts (zero counts included), the concatenation of the
   ranges [start_k, start_k + count_k). *)
From Coq Require Import List ZArith Bool Lia.
Import ListNotations.
Require Import Base.C05_Np.
Local Open Scope Z_scope.

(* the specification: concatenated ranges *)
Definition blocks (s c : list Z) : list Z := concat (map2 (fun x n => seqZ x (Z.to_nat n)) s c).

(* positions of the stored entries of the rows D of a CSR matrix with row pointer ip *)
Definition ipz (ip : list Z) (d : Z) : Z := nth (Z.to_nat d) ip 0.
Definition row_positions (ip : list Z) (D : list Z) : list Z :=
  concat (map (fun d => seqZ (ipz ip d) (Z.to_nat (ipz ip (d + 1) - ipz ip d))) D).

Lemma zsum_nonneg c : Forall (fun n => 0 <= n) c -> 0 <= zsum c.
Proof. induction 1; simpl; lia. Qed.

Lemma repeat_each_cons x a n c : repeat_each (x :: a) (n :: c) = repeat x (Z.to_nat n) ++ repeat_each a c.
Proof. reflexivity. Qed.

Lemma repeat_each_length a c :
  length a = length c -> Forall (fun n => 0 <= n) c -> length (repeat_each a c) = Z.to_nat (zsum c).
Proof.
  revert c; induction a as [|x a IH]; intros [|n c] Hl Hc; simpl in Hl; try congruence; [reflexivity|].
  rewrite repeat_each_cons, app_length, repeat_length. inversion Hc; subst.
  rewrite IH by (auto; congruence). simpl zsum. pose proof (zsum_nonneg c H2). lia.
Qed.

(* one block: x + ((a0 + k + t) - a0) for t = 0..n-1 *)
Lemma block_offsets x a0 k n :
  map2 Z.add (repeat x n) (map2 Z.sub (seqZ (a0 + k) n) (repeat a0 n)) = seqZ (x + k) n.
Proof.
  revert k; induction n as [|n IH]; intros k; simpl; [reflexivity|].
  f_equal; [lia|]. replace (a0 + k + 1) with (a0 + (k + 1)) by lia.
  replace (x + k + 1) with (x + (k + 1)) by lia. apply IH.
Qed.

(* the repaired arithmetic of enforce, for every accumulator (so that the induction goes through) *)
Lemma offsets_blocks_from acc s c :
  length s = length c -> Forall (fun n => 0 <= n) c ->
  map2 Z.add (repeat_each s c)
       (map2 Z.sub (seqZ acc (Z.to_nat (zsum c))) (repeat_each (map2 Z.sub (cumsum_from acc c) c) c))
  = blocks s c.
Proof.
  revert acc c; induction s as [|x s IH]; intros acc [|n c] Hl Hc; simpl in Hl; try congruence; [reflexivity|].
  inversion Hc as [|n' c' Hn Hc']; subst.
  simpl cumsum_from. simpl map2 at 3. rewrite !repeat_each_cons.
  simpl zsum. pose proof (zsum_nonneg c Hc') as Hz.
  rewrite Z2Nat.inj_add by lia. rewrite seqZ_app.
  rewrite (map2_app Z.sub) by (now rewrite seqZ_length, repeat_length).
  rewrite (map2_app Z.add) by (rewrite repeat_length, map2_length; now rewrite seqZ_length, ?repeat_length).
  unfold blocks. simpl map2. simpl concat. f_equal.
  - replace (acc + n - n) with acc by lia.
    pose proof (block_offsets x acc 0 (Z.to_nat n)) as E. rewrite !Z.add_0_r in E. exact E.
  - rewrite Z2Nat.id by lia. apply IH; [congruence | assumption].
Qed.

Lemma offsets_blocks s c :
  length s = length c -> Forall (fun n => 0 <= n) c ->
  map2 Z.add (repeat_each s c)
       (map2 Z.sub (seqZ 0 (Z.to_nat (zsum c))) (repeat_each (map2 Z.sub (cumsum_from 0 c) c) c))
  = blocks s c.
Proof. apply offsets_blocks_from. Qed.

(* the starts/counts read off the row pointer *)
Lemma blocks_row_positions ip D :
  blocks (map (fun d => ipz ip d) D) (map2 Z.sub (map (fun d => ipz ip (d + 1)) D) (map (fun d => ipz ip d) D))
  = row_positions ip D.
Proof.
  unfold blocks, row_positions. rewrite map2_maps. rewrite map2_map_l, map2_map_r, map2_same. reflexivity.
Qed.

Lemma in_row_positions ip D k :
  In k (row_positions ip D) <-> exists d, In d D /\ ipz ip d <= k < ipz ip (d + 1).
Proof.
  unfold row_positions. rewrite in_concat. split.
  - intros (l & Hl & Hk). apply in_map_iff in Hl. destruct Hl as (d & <- & Hd).
    apply in_seqZ in Hk. exists d. split; [assumption|]. lia.
  - intros (d & Hd & Hk). exists (seqZ (ipz ip d) (Z.to_nat (ipz ip (d + 1) - ipz ip d))).
    split; [apply in_map_iff; eauto|]. apply in_seqZ. lia.
Qed.
