(* C05 — enforce and condense describe the same solutions: with diag = 1 a vector solves the enforced system iff it
   carries x on D and its restriction to I solves the condensed system (so solving the enforced system and
   solving the condensed one agree whenever either is uniquely solvable). *)
From Coq Require Import List ZArith Bool Arith Lia Ring.
Import ListNotations.
Require Import Base.C05_Np Model.C05_BC Proofs.C05_IdxProofs Proofs.C05_CondenseProofs Proofs.C05_EnforceProofs.

Section Equiv.
  Context {R : Type} (o : ring_ops R).
  Hypothesis Rth : ring_theory (r0 o) (r1 o) (radd o) (rmul o) (rsub o) (ropp o) (@eq R).
  Add Ring Rring4 : Rth.
  Variable posf : list Z -> list Z -> option (list Z).
  Hypothesis posf_ok : posf_correct posf.

  Lemma csr_rows_in_range n (A : csr R) : csr_valid n A -> rows_in_range n (csr_rows A).
  Proof.
    intros HA r Hr cv Hcv. pose proof (csr_nrows_valid n A (csr_valid_weaken n A HA)) as Hn.
    unfold csr_rows in Hr. apply in_map_iff in Hr. destruct Hr as (i & <- & Hi). apply in_seq in Hi.
    destruct HA as (_ & _ & _ & Hrng & _). apply (Hrng i); [lia | assumption].
  Qed.

  Lemma row_dot_agree (r : list (nat * R)) (y y' : list R) :
    (forall cv, In cv r -> vnth o y (fst cv) = vnth o y' (fst cv)) -> row_dot o r y = row_dot o r y'.
  Proof.
    induction r as [|cv r IH]; intros H; simpl; [reflexivity|].
    rewrite (H cv (or_introl eq_refl)), IH; [reflexivity|]. intros c Hc. apply H. now right.
  Qed.

  Theorem enforce_condense_equivalent n (A : csr R) (b x y : list R) I D :
    csr_valid n A -> length b = n -> length x = n -> length y = n -> split_ok n I D ->
    ((forall i, i < n -> row_dot o (mrow (enforced_rows o A D (r1 o)) i) y = vnth o (enforce_rhs o b x D) i) <->
     (forall d, In d D -> vnth o y d = vnth o x d) /\
     matvec o (condense_A (csr_rows A) I) (vsel o y I) = condense_b o (csr_rows A) b x I D).
  Proof.
    intros HA Hb Hx Hy HS. pose proof HS as (NI & ND & BI & BD & P).
    pose proof (csr_nrows_valid n A (csr_valid_weaken n A HA)) as Hn.
    rewrite (enforce_solution_iff o Rth posf posf_ok n A b x D (r1 o) y HA Hb ND BD).
    assert (Hone : forall d, rmul o (r1 o) (vnth o y d) = vnth o y d) by (intros; ring).
    split.
    - intros [H1 H2]. split.
      + intros d Hd. rewrite <- (Hone d). now apply H1.
      + apply (condense_complete_core o Rth n); auto using csr_rows_in_range.
        * intros d Hd. rewrite <- (Hone d). now apply H1.
        * intros i Hi. rewrite vnth_matvec, mrow_csr_rows by (rewrite Hn; auto).
          apply H2; [auto|]. intros Hd. apply (P i (BI i Hi)) in Hi. tauto.
    - intros [H1 H2]. split.
      + intros d Hd. rewrite Hone. now apply H1.
      + intros i Hi Hni. assert (HiI : In i I) by (apply (P i Hi); assumption).
        destruct (condense_expand_sound_core o Rth n (csr_rows A) b x I D (vsel o y I) Hx
                    (csr_rows_in_range n A HA) HS (vsel_length o y I) H2) as (_ & _ & H3).
        specialize (H3 i HiI). rewrite vnth_matvec, mrow_csr_rows in H3 by (rewrite Hn; auto).
        rewrite <- H3. apply row_dot_agree. intros cv Hcv.
        assert (Hc : fst cv < n) by (destruct HA as (_ & _ & _ & Hrng & _); now apply (Hrng i)).
        unfold expand. destruct (In_dec_nat (fst cv) I) as [Hin|Hnin].
        * destruct (In_nth I (fst cv) 0 Hin) as (p & Hp & E). rewrite <- E.
          rewrite (vset_at o) by (auto using vsel_length; intros j Hj; rewrite Hx; auto).
          symmetry. now apply vnth_vsel.
        * rewrite vset_notin by assumption. apply H1. destruct (In_dec_nat (fst cv) D) as [H|H]; [assumption|].
          exfalso. apply Hnin. now apply (P (fst cv) Hc).
  Qed.
End Equiv.
