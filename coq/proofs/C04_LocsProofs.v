(* C04 — soundness of the per-class location checkers of Model.C04_Locs. *)
From Coq Require Import List Arith ZArith QArith Bool Lia Permutation Setoid Sorted.
Import ListNotations.
Require Import Base.C11_Unique Model.C04_Locs.
Local Open Scope nat_scope.

Lemma qs_eqb_sound a : forall b, qs_eqb a b = true -> Forall2 Qeq a b.
Proof.
  induction a as [|x a IH]; intros [|y b] H; simpl in H; try discriminate; constructor.
  - apply andb_true_iff in H. now apply Qeq_bool_eq.
  - apply andb_true_iff in H. now apply IH.
Qed.

Lemma q_same_eq a b : q_same a b = true -> a = b.
Proof.
  unfold q_same. intros H. apply andb_true_iff in H. destruct H as [H1 H2]. apply Z.eqb_eq in H1. apply Pos.eqb_eq in H2.
  destruct a, b. simpl in *. now subst.
Qed.

(* the location is a convex combination of the reference vertices of ITS entity only *)
Definition on_entity (d : nat) (refp : list (list Q)) (r : lrow) : Prop :=
  length (lr_w r) = length (lr_verts r) /\ lr_verts r <> [] /\
  Forall (fun q => (0 <= q)%Q) (lr_w r) /\ (qsum (lr_w r) == 1)%Q /\
  Forall2 Qeq (comb d (lr_w r) (map (fun v => nth v refp []) (lr_verts r))) (lr_x r).

Theorem row_on_entity_sound d refp r : row_on_entity d refp r = true -> on_entity d refp r.
Proof.
  unfold row_on_entity, on_entity. intros H. apply andb_true_iff in H. destruct H as [H H5]. apply andb_true_iff in H.
  destruct H as [H H4]. apply andb_true_iff in H. destruct H as [H H3]. apply andb_true_iff in H. destruct H as [H1 H2].
  split; [now apply Nat.eqb_eq|]. split.
  - intros E. rewrite E in H2. discriminate.
  - split; [|split; [now apply Qeq_bool_eq | now apply qs_eqb_sound]].
    rewrite Forall_forall. rewrite forallb_forall in H3. intros q Hq. apply Qle_bool_iff. now apply H3.
Qed.

(* equal weights: the combination does not depend on the ORDER in which the entity's vertices are listed *)
Lemma qsum_perm l l' : Permutation l l' -> (qsum l == qsum l')%Q.
Proof.
  induction 1 as [|x l l' _ IH|x y l|l l' l'' _ IH1 _ IH2]; simpl.
  - reflexivity.
  - now rewrite IH.
  - ring.
  - now rewrite IH1.
Qed.

Lemma comb_repeat d a : forall pts j, j < d ->
  (nth j (comb d (repeat a (length pts)) pts) 0 == qsum (map (fun p => a * nth j p 0) pts))%Q.
Proof.
  intros pts j Hj. unfold comb. rewrite nth_seq_map by exact Hj.
  induction pts as [|p pts IH]; simpl; [reflexivity|]. unfold qsum in *. simpl. now rewrite IH.
Qed.

Theorem equal_weights_order_independent d a pts pts' j : Permutation pts pts' -> j < d ->
  (nth j (comb d (repeat a (length pts)) pts) 0 == nth j (comb d (repeat a (length pts')) pts') 0)%Q.
Proof.
  intros P Hj. rewrite !comb_repeat by exact Hj. apply qsum_perm. now apply Permutation_map.
Qed.

Lemma all_equal_repeat w : all_equal w = true -> w = repeat (hd 0%Q w) (length w).
Proof.
  destruct w as [|a r]; [reflexivity|]. simpl. intros H. f_equal. rewrite forallb_forall in H.
  induction r as [|b r IH]; [reflexivity|]. simpl. rewrite <- (q_same_eq a b) by (apply H; now left). f_equal.
  apply IH. intros x Hx. apply H. now right.
Qed.

(* what a class certificate establishes *)
Definition class_spec (c : lclass) : Prop :=
  (forall r, In r (lc_rows c) -> on_entity (lc_dim c) (lc_refp c) r) /\
  (lc_sym c = 2 -> forall r, In r (lc_rows c) -> shared r = true ->
     (* mapped through any first-order map (vertex coordinates P), from two cells listing the entity's vertices in any two orders *)
     forall (P : nat -> list Q) (g g' : list nat) j, Permutation g g' -> length g = length (lr_verts r) -> j < lc_dim c ->
       (nth j (comb (lc_dim c) (lr_w r) (map P g)) 0 == nth j (comb (lc_dim c) (lr_w r) (map P g')) 0)%Q) /\
  (lc_sym c = 1 -> forall r r', In r (lc_rows c) -> In r' (lc_rows c) -> shared r = true ->
     lr_kind r' = lr_kind r -> lr_k r' = lr_k r ->
     (* on cells whose local order is the global order both cells list the entity's vertices increasingly, i.e. identically,
        and the k-th DOF of that kind of entity has the same weights on every slot *)
     increasing (lr_verts r) = true /\ Forall2 Qeq (lr_w r') (lr_w r)).

Theorem lclass_ok_sound c : lclass_ok c = true -> class_spec c.
Proof.
  unfold lclass_ok, class_spec. intros H. apply andb_true_iff in H. destruct H as [H Hs]. apply andb_true_iff in H.
  destruct H as [H1 _]. rewrite forallb_forall in H1. split; [|split].
  - intros r Hr. apply row_on_entity_sound. now apply H1.
  - intros E r Hr Hsh P g g' j HP HL Hj. rewrite E in Hs. rewrite forallb_forall in Hs. specialize (Hs r Hr).
    rewrite Hsh in Hs. simpl in Hs. pose proof (all_equal_repeat _ Hs) as Ew.
    destruct (row_on_entity_sound _ _ _ (H1 r Hr)) as [Lw _].
    rewrite Ew. set (a := hd 0%Q (lr_w r)).
    assert (E1 : length (lr_w r) = length (map P g)) by (rewrite map_length; lia).
    assert (E2 : length (lr_w r) = length (map P g')) by (rewrite map_length, <- (Permutation_length HP); lia).
    transitivity (nth j (comb (lc_dim c) (repeat a (length (map P g))) (map P g)) 0%Q); [now rewrite <- E1|].
    transitivity (nth j (comb (lc_dim c) (repeat a (length (map P g'))) (map P g')) 0%Q); [|now rewrite <- E2].
    apply equal_weights_order_independent; [now apply Permutation_map | exact Hj].
  - intros E r r' Hr Hr' Hsh Hk Hkk. rewrite E in Hs. rewrite forallb_forall in Hs. specialize (Hs r Hr). rewrite Hsh in Hs.
    simpl in Hs. apply andb_true_iff in Hs. destruct Hs as [Hi Hall]. split; [exact Hi|]. rewrite forallb_forall in Hall.
    specialize (Hall r' Hr'). rewrite Hk, Hkk, !Nat.eqb_refl in Hall. simpl in Hall. now apply qs_eqb_sound.
Qed.
