(* C19 — CompositeBasis: the assembled matrix of a coupling form on `b_0 * b_1 * ...` is, block by block (offsets
   N_0 + ... + N_{n-1}), the matrix of the form with the other components zeroed assembled on the component bases. *)
From Coq Require Import List Arith Bool Lia Ring Ring_theory.
Import ListNotations.
Require Import Base.C01_Sums Model.C01_Assembly Proofs.C01_AssemblyProofs Model.C19_Blocks Model.C19_Composite.
Require Import Proofs.C19_BlocksProofs Proofs.C19_CompositeProofs Model.C19_CompBasis.

Lemma psum_decompose (len : nat -> nat) : forall M i, i < psum len M -> exists n j, n < M /\ j < len n /\ i = psum len n + j.
Proof.
  induction M as [|M IH]; intros i Hi; [unfold psum in Hi; simpl in Hi; lia|].
  rewrite psum_S in Hi. destruct (Nat.lt_ge_cases i (psum len M)) as [Hl|Hge].
  - destruct (IH i Hl) as [n [j [Hn [Hj E]]]]. exists n, j. repeat split; [lia | exact Hj | exact E].
  - exists M, (i - psum len M). repeat split; lia.
Qed.

Lemma psum_mono len n M : n <= M -> psum len n <= psum len M.
Proof. induction 1 as [|M _ IH]; [lia|]. rewrite psum_S. lia. Qed.

Lemma fold_map_list_seq {A} (g : A -> nat) (l : list A) (d : A) :
  fold_right Nat.add 0 (map g l) = psum (fun k => g (nth k l d)) (length l).
Proof. unfold psum. rewrite (map_nth_seq g l d (length l) (le_n _)). now rewrite firstn_all. Qed.

Section CB.
  Variable R : Type.
  Variables (rO rI : R) (radd rmul rsub : R -> R -> R) (ropp : R -> R).
  Variable Rth : ring_theory rO rI radd rmul rsub ropp (@eq R).
  Add Ring RingC19CB : Rth.
  Notation Sn := (sumn rO radd).
  Variables V VC W : Type.
  Variables (vadd : V -> V -> V) (vscale : R -> V -> V) (vaddC : VC -> VC -> VC) (vscaleC : R -> VC -> VC).
  Variable inj : nat -> V -> VC.
  Variable b0 : basis R V.
  Variable rest : list (basis R V).
  Notation bs := (b0 :: rest).
  Notation M := (length bs).
  Notation comp n := (nth n bs b0).
  Notation Nb := (fun n => bNbfun (nth n bs b0)).
  Notation NN := (fun n => bN (nth n bs b0)).
  Hypothesis Hwf : forall n, n < M -> wf_basis (comp n) /\ bnelems (comp n) = bnelems b0 /\ bnq (comp n) = bnq b0.

  Lemma cb_init_ok : exists C, composite_basis R V VC inj b0 rest false = Some C /\
    bN C = psum NN M /\ bNbfun C = psum Nb M /\ bnelems C = bnelems b0 /\ bnq C = bnq b0 /\ bdx C = bdx b0 /\
    bedofs C = cb_edofs R V b0 bs false /\
    (forall i e q, bB C i e q = let '(n, j) := nth i (cb_funs R V b0 bs) (0, 0) in inj n (bB (comp n) j e q)).
  Proof.
    unfold composite_basis.
    assert (G : forallb (fun b => (bnq b =? bnq b0) && (bnelems b =? bnelems b0)) bs = true).
    { apply forallb_forall. intros b Hb. destruct (In_nth bs b b0 Hb) as [n [Hn E]]. subst b.
      destruct (Hwf n Hn) as [_ [E1 E2]]. now rewrite E1, E2, !Nat.eqb_refl. }
    rewrite G. eexists. split; [reflexivity|]. cbn [bN bNbfun bnelems bnq bdx bedofs bB].
    repeat split.
    - unfold cb_N. apply (fold_map_list_seq (@bN R V) bs b0).
    - unfold cb_Nbfun. apply (fold_map_list_seq (@bNbfun R V) bs b0).
  Qed.

  Lemma cb_edofs_row n j : n < M -> j < Nb n ->
    nth (psum Nb n + j) (cb_edofs R V b0 bs false) [] = map (Nat.add (psum NN n)) (nth j (bedofs (comp n)) []).
  Proof.
    intros Hn Hj. unfold cb_edofs.
    set (f := fun n0 => map (map (Nat.add (cb_offset R V b0 bs false n0))) (bedofs (nth n0 bs b0))).
    assert (Hlen : forall k, k < M -> length (f k) = Nb k).
    { intros k Hk. unfold f. rewrite map_length. destruct (Hwf k Hk) as [[HL _] _]. exact HL. }
    assert (E : psum Nb n = sumlen f (firstn n (seq 0 M))).
    { rewrite firstn_seq by lia. unfold sumlen, psum. apply fold_add_map_ext. intros x Hx. apply in_seq in Hx.
      symmetry. apply Hlen. lia. }
    rewrite E. rewrite (nth_flat_map_offset f (seq 0 M) n j [] 0).
    - rewrite seq_nth by lia. unfold f. cbn [Nat.add].
      rewrite (nth_indep _ [] (map (Nat.add (cb_offset R V b0 bs false n)) [])) by (rewrite map_length; destruct (Hwf n Hn) as [[HL _] _]; lia).
      rewrite (map_nth (map (Nat.add (cb_offset R V b0 bs false n)))). reflexivity.
    - rewrite seq_length. exact Hn.
    - rewrite seq_nth by lia. cbn [Nat.add]. rewrite Hlen by exact Hn. exact Hj.
  Qed.

  Lemma cb_funs_nth n j : n < M -> j < Nb n -> nth (psum Nb n + j) (cb_funs R V b0 bs) (0, 0) = (n, j).
  Proof.
    intros Hn Hj. unfold cb_funs.
    set (f := fun n0 => map (fun j0 => (n0, j0)) (seq 0 (bNbfun (nth n0 bs b0)))).
    assert (E : psum Nb n = sumlen f (firstn n (seq 0 M))).
    { rewrite firstn_seq by lia. unfold sumlen, psum. apply fold_add_map_ext. intros x _. unfold f.
      now rewrite map_length, seq_length. }
    rewrite E. rewrite (nth_flat_map_offset f (seq 0 M) n j (0, 0) 0).
    - rewrite seq_nth by lia. unfold f. cbn [Nat.add]. now rewrite nth_map_seq0.
    - rewrite seq_length. exact Hn.
    - rewrite seq_nth by lia. unfold f. cbn [Nat.add]. now rewrite map_length, seq_length.
  Qed.

  Lemma cb_entry (C : basis R VC) n j e : bedofs C = cb_edofs R V b0 bs false -> n < M -> j < Nb n -> e < bnelems b0 ->
    nth e (element_dofs C (psum Nb n + j)) 0 = psum NN n + nth e (element_dofs (comp n) j) 0.
  Proof.
    intros HE Hn Hj He. unfold C01_Assembly.element_dofs at 1. rewrite HE, cb_edofs_row by assumption.
    destruct (Hwf n Hn) as [[_ Hrow] [Hnt _]]. destruct (Hrow j Hj) as [HL _]. unfold C01_Assembly.element_dofs in *.
    rewrite (nth_indep _ 0 (psum NN n + 0)) by (rewrite map_length, HL; lia).
    now rewrite (map_nth (Nat.add (psum NN n))).
  Qed.

  Lemma cb_wf (C : basis R VC) : composite_basis R V VC inj b0 rest false = Some C -> wf_basis C.
  Proof.
    intros EC. destruct cb_init_ok as [C' [E' [HN [HNb [Hnt [_ [_ [HE _]]]]]]]]. rewrite EC in E'. inversion E'; subst C'; clear E'.
    split.
    - rewrite HE, HNb. unfold cb_edofs. rewrite flat_map_length_sumlen. unfold sumlen, psum. apply fold_add_map_ext.
      intros x Hx. apply in_seq in Hx. rewrite map_length. destruct (Hwf x ltac:(lia)) as [[HL _] _]. exact HL.
    - intros i Hi. rewrite HNb in Hi. destruct (psum_decompose Nb M i Hi) as [n [j [Hn [Hj ->]]]].
      destruct (Hwf n Hn) as [[_ Hrow] [Hntn _]]. destruct (Hrow j Hj) as [HL Hlt]. split.
      + unfold C01_Assembly.element_dofs. rewrite HE, cb_edofs_row by assumption. rewrite map_length. unfold C01_Assembly.element_dofs in HL. now rewrite HL, Hnt.
      + intros e He. rewrite Hnt in He. rewrite cb_entry by assumption. rewrite HN.
        assert (nth e (element_dofs (comp n) j) 0 < NN n) by (apply Hlt; now rewrite Hntn).
        pose proof (psum_mono NN (S n) M ltac:(lia)). rewrite psum_S in *. lia.
  Qed.

  (* a coefficient vector supported on block bn *)
  Definition cb_supported (x : nat -> R) (bn : nat) (xb : nat -> R) : Prop :=
    forall n d, n < M -> d < NN n -> x (psum NN n + d) = if Nat.eqb bn n then xb d else rO.

  Lemma cb_interp_supported (C : basis R VC) (g : VC -> R) x bn xb e q :
    composite_basis R V VC inj b0 rest false = Some C -> bn < M -> e < bnelems b0 -> cb_supported x bn xb ->
    (forall a c, g (vaddC a c) = radd (g a) (g c)) -> (forall s a, g (vscaleC s a) = rmul s (g a)) ->
    g (interp R rO VC vaddC vscaleC C x e q)
    = Sn (Nb bn) (fun j => rmul (xb (nth e (element_dofs (comp bn) j) 0)) (g (inj bn (bB (comp bn) j e q)))).
  Proof.
    intros EC Hbn He Hsup Hga Hgs.
    destruct cb_init_ok as [C' [E' [HN [HNb [Hnt [_ [_ [HE HBf]]]]]]]]. rewrite EC in E'. inversion E'; subst C'; clear E'.
    rewrite (interp_linear R rO rI radd rmul rsub ropp Rth VC vaddC vscaleC g C x e q Hga Hgs).
    rewrite HNb, (sumn_blocks R rO rI radd rmul rsub ropp Rth).
    rewrite <- (sumn_select R rO rI radd rmul rsub ropp Rth M bn
                  (fun n => Sn (Nb n) (fun j => rmul (xb (nth e (element_dofs (comp n) j) 0)) (g (inj n (bB (comp n) j e q))))) Hbn).
    apply sumn_ext. intros n Hn.
    destruct (Hwf n Hn) as [[_ Hrow] [Hntn _]].
    destruct (Nat.eqb_spec bn n) as [<-|Hne].
    - apply sumn_ext. intros j Hj. rewrite cb_entry by assumption. rewrite HBf, cb_funs_nth by assumption.
      destruct (Hrow j Hj) as [_ Hlt]. rewrite (Hsup bn _ Hbn (Hlt e ltac:(now rewrite Hntn))). now rewrite Nat.eqb_refl.
    - rewrite (sumn_ext R rO radd _ _ (fun _ => rO)); [apply (sumn_zero R rO rI radd rmul rsub ropp Rth)|].
      intros j Hj. rewrite cb_entry by assumption. destruct (Hrow j Hj) as [_ Hlt].
      rewrite (Hsup n _ Hn (Hlt e ltac:(now rewrite Hntn))). destruct (Nat.eqb_spec bn n); [contradiction | ring].
  Qed.

  Variable form : VC -> VC -> W -> R.
  Hypothesis form_add_u : forall x y v w, form (vaddC x y) v w = radd (form x v w) (form y v w).
  Hypothesis form_scale_u : forall s x v w, form (vscaleC s x) v w = rmul s (form x v w).
  Hypothesis form_add_v : forall u x y w, form u (vaddC x y) w = radd (form u x w) (form u y w).
  Hypothesis form_scale_v : forall s u x w, form u (vscaleC s x) w = rmul s (form u x w).
  Hypothesis inj_add : forall n x y, inj n (vadd x y) = vaddC (inj n x) (inj n y).
  Hypothesis inj_scale : forall n s x, inj n (vscale s x) = vscaleC s (inj n x).

  Theorem compositebasis_block_assembly (a bt : nat) (w : nat -> nat -> W) (uC vC ub va : nat -> R) :
    a < M -> bt < M -> (forall e q, e < bnelems b0 -> q < bnq b0 -> bdx (comp bt) e q = bdx b0 e q) ->
    cb_supported uC bt ub -> cb_supported vC a va ->
    exists C cC AC cab Aab,
      composite_basis R V VC inj b0 rest false = Some C /\ bN C = psum NN M /\
      bilinear_assemble R rO radd rmul VC W form w C None = Some cC /\ to_dense2 R rO radd cC = Some AC /\
      bilinear_assemble R rO radd rmul V W (fun x y w => form (inj bt x) (inj a y) w) w (comp bt) (Some (comp a)) = Some cab /\
      to_dense2 R rO radd cab = Some Aab /\
      vAu R rO radd rmul vC AC uC (bN C) (bN C) = vAu R rO radd rmul va Aab ub (bN (comp a)) (bN (comp bt)).
  Proof.
    intros Ha Hbt Hdx Hsu Hsv.
    destruct cb_init_ok as [C [EC [HN [HNb [Hnt [Hnq [Hdxc [HE HBf]]]]]]]].
    pose proof (cb_wf C EC) as WC.
    destruct (Hwf a Ha) as [Wa [Na Qa]]. destruct (Hwf bt Hbt) as [Wbt [Nbt Qbt]].
    destruct (bilinear_weak_form R rO rI radd rmul rsub ropp Rth VC W vaddC vscaleC form
                form_add_u form_scale_u form_add_v form_scale_v w C None uC vC WC WC eq_refl eq_refl) as [cC [AC [E1 [E2 H1]]]].
    destruct (bilinear_weak_form R rO rI radd rmul rsub ropp Rth V W vadd vscale (fun x y w0 => form (inj bt x) (inj a y) w0)
                (fun x y v w0 => eq_trans (f_equal (fun z => form z (inj a v) w0) (inj_add bt x y)) (form_add_u _ _ _ _))
                (fun s x v w0 => eq_trans (f_equal (fun z => form z (inj a v) w0) (inj_scale bt s x)) (form_scale_u _ _ _ _))
                (fun u x y w0 => eq_trans (f_equal (fun z => form (inj bt u) z w0) (inj_add a x y)) (form_add_v _ _ _ _))
                (fun s u x w0 => eq_trans (f_equal (fun z => form (inj bt u) z w0) (inj_scale a s x)) (form_scale_v _ _ _ _))
                w (comp bt) (Some (comp a)) ub va Wbt Wa (eq_trans Na (eq_sym Nbt)) (eq_trans Qa (eq_sym Qbt))) as [cab [Aab [E3 [E4 H2]]]].
    exists C, cC, AC, cab, Aab. repeat (split; [assumption|]).
    cbv zeta in H1, H2. rewrite H1, H2. rewrite Hnt, Hnq, Nbt, Qbt, Hdxc.
    unfold integrate. apply sumn_ext. intros e He. apply sumn_ext. intros q Hq.
    rewrite (Hdx e q He Hq). f_equal.
    rewrite (cb_interp_supported C (fun X => form X (interp R rO VC vaddC vscaleC C vC e q) (w e q)) uC bt ub e q EC Hbt He Hsu)
      by (intros; first [apply form_add_u | apply form_scale_u]).
    rewrite <- (interp_linear R rO rI radd rmul rsub ropp Rth V vadd vscale
                  (fun x => form (inj bt x) (interp R rO VC vaddC vscaleC C vC e q) (w e q)) (comp bt) ub e q).
    2:{ intros x y. rewrite inj_add. apply form_add_u. }
    2:{ intros s x. rewrite inj_scale. apply form_scale_u. }
    rewrite (cb_interp_supported C (fun Y => form (inj bt (interp R rO V vadd vscale (comp bt) ub e q)) Y (w e q)) vC a va e q EC Ha He Hsv)
      by (intros; first [apply form_add_v | apply form_scale_v]).
    rewrite <- (interp_linear R rO rI radd rmul rsub ropp Rth V vadd vscale
                  (fun y => form (inj bt (interp R rO V vadd vscale (comp bt) ub e q)) (inj a y) (w e q)) (comp a) va e q).
    2:{ intros x y. rewrite inj_add. apply form_add_v. }
    2:{ intros s x. rewrite inj_scale. apply form_scale_v. }
    reflexivity.
  Qed.
End CB.

(* ====================================================================== general offsets (equal_dofnum or not), interpolation as a
   sum over the components, shared DOFs, and the permutation to the ElementComposite numbering *)
Section CBgen.
  Variable R : Type.
  Variables (rO rI : R) (radd rmul rsub : R -> R -> R) (ropp : R -> R).
  Variable Rth : ring_theory rO rI radd rmul rsub ropp (@eq R).
  Add Ring RingC19CBg : Rth.
  Notation Sn := (sumn rO radd).
  Variables V VC W : Type.
  Variables (vadd : V -> V -> V) (vscale : R -> V -> V) (vaddC : VC -> VC -> VC) (vscaleC : R -> VC -> VC).
  Variable inj : nat -> V -> VC.
  Variable b0 : basis R V.
  Variable rest : list (basis R V).
  Variable eq : bool.
  Notation bs := (b0 :: rest).
  Notation M := (length bs).
  Notation comp n := (nth n bs b0).
  Notation Nb := (fun n => bNbfun (nth n bs b0)).
  Notation off := (cb_offset R V b0 bs eq).
  Hypothesis Hwf : forall n, n < M -> wf_basis (comp n) /\ bnelems (comp n) = bnelems b0 /\ bnq (comp n) = bnq b0.

  Lemma cbg_init : exists C, composite_basis R V VC inj b0 rest eq = Some C /\
    bN C = cb_N R V b0 bs eq /\ bNbfun C = psum Nb M /\ bnelems C = bnelems b0 /\ bnq C = bnq b0 /\ bdx C = bdx b0 /\
    bedofs C = cb_edofs R V b0 bs eq /\
    (forall i e q, bB C i e q = let '(n, j) := nth i (cb_funs R V b0 bs) (0, 0) in inj n (bB (comp n) j e q)).
  Proof.
    unfold composite_basis.
    assert (G : forallb (fun b => (bnq b =? bnq b0) && (bnelems b =? bnelems b0)) bs = true).
    { apply forallb_forall. intros b Hb. destruct (In_nth bs b b0 Hb) as [n [Hn E]]. subst b.
      destruct (Hwf n Hn) as [_ [E1 E2]]. now rewrite E1, E2, !Nat.eqb_refl. }
    rewrite G. eexists. split; [reflexivity|]. cbn [bN bNbfun bnelems bnq bdx bedofs bB].
    repeat split. unfold cb_Nbfun. apply (fold_map_list_seq (@bNbfun R V) bs b0).
  Qed.

  Lemma cbg_edofs_row n j : n < M -> j < Nb n ->
    nth (psum Nb n + j) (cb_edofs R V b0 bs eq) [] = map (Nat.add (off n)) (nth j (bedofs (comp n)) []).
  Proof.
    intros Hn Hj. unfold cb_edofs.
    set (f := fun n0 => map (map (Nat.add (cb_offset R V b0 bs eq n0))) (bedofs (nth n0 bs b0))).
    assert (Hlen : forall k, k < M -> length (f k) = Nb k).
    { intros k Hk. unfold f. rewrite map_length. destruct (Hwf k Hk) as [[HL _] _]. exact HL. }
    assert (E : psum Nb n = sumlen f (firstn n (seq 0 M))).
    { rewrite firstn_seq by lia. unfold sumlen, psum. apply fold_add_map_ext. intros x Hx. apply in_seq in Hx.
      symmetry. apply Hlen. lia. }
    rewrite E. rewrite (nth_flat_map_offset f (seq 0 M) n j [] 0).
    - rewrite seq_nth by lia. unfold f. cbn [Nat.add].
      rewrite (nth_indep _ [] (map (Nat.add (off n)) [])) by (rewrite map_length; destruct (Hwf n Hn) as [[HL _] _]; lia).
      rewrite (map_nth (map (Nat.add (off n)))). reflexivity.
    - rewrite seq_length. exact Hn.
    - rewrite seq_nth by lia. cbn [Nat.add]. rewrite Hlen by exact Hn. exact Hj.
  Qed.

  Lemma cbg_entry (C : basis R VC) n j e : bedofs C = cb_edofs R V b0 bs eq -> n < M -> j < Nb n -> e < bnelems b0 ->
    nth e (element_dofs C (psum Nb n + j)) 0 = off n + nth e (element_dofs (comp n) j) 0.
  Proof.
    intros HE Hn Hj He. unfold C01_Assembly.element_dofs at 1. rewrite HE, cbg_edofs_row by assumption.
    destruct (Hwf n Hn) as [[_ Hrow] [Hnt _]]. destruct (Hrow j Hj) as [HL _]. unfold C01_Assembly.element_dofs in *.
    rewrite (nth_indep _ 0 (off n + 0)) by (rewrite map_length, HL; lia).
    now rewrite (map_nth (Nat.add (off n))).
  Qed.

  (* interpolation on the CompositeBasis: every component interpolates its own slice x[off_n + .] (the whole x when the DOFs
     are shared) and is placed in its slot *)
  Lemma cbg_interp_sum (C : basis R VC) (g : VC -> R) x e q :
    composite_basis R V VC inj b0 rest eq = Some C -> e < bnelems b0 ->
    (forall a c, g (vaddC a c) = radd (g a) (g c)) -> (forall s a, g (vscaleC s a) = rmul s (g a)) ->
    g (interp R rO VC vaddC vscaleC C x e q)
    = Sn M (fun n => Sn (Nb n) (fun j => rmul (x (off n + nth e (element_dofs (comp n) j) 0)) (g (inj n (bB (comp n) j e q))))).
  Proof.
    intros EC He Hga Hgs.
    destruct cbg_init as [C' [E' [_ [HNb [_ [_ [_ [HE HBf]]]]]]]]. rewrite EC in E'. inversion E'; subst C'; clear E'.
    rewrite (interp_linear R rO rI radd rmul rsub ropp Rth VC vaddC vscaleC g C x e q Hga Hgs).
    rewrite HNb, (sumn_blocks R rO rI radd rmul rsub ropp Rth).
    apply sumn_ext. intros n Hn. apply sumn_ext. intros j Hj.
    rewrite cbg_entry by assumption. rewrite HBf. now rewrite (cb_funs_nth R V b0 rest n j Hn Hj).
  Qed.

  Hypothesis inj_add : forall n x y, inj n (vadd x y) = vaddC (inj n x) (inj n y).
  Hypothesis inj_scale : forall n s x, inj n (vscale s x) = vscaleC s (inj n x).

  Corollary cbg_interp_components (C : basis R VC) (g : VC -> R) x e q :
    composite_basis R V VC inj b0 rest eq = Some C -> e < bnelems b0 ->
    (forall a c, g (vaddC a c) = radd (g a) (g c)) -> (forall s a, g (vscaleC s a) = rmul s (g a)) ->
    g (interp R rO VC vaddC vscaleC C x e q)
    = Sn M (fun n => g (inj n (interp R rO V vadd vscale (comp n) (fun k => x (off n + k)) e q))).
  Proof.
    intros EC He Hga Hgs. rewrite (cbg_interp_sum C g x e q EC He Hga Hgs). apply sumn_ext. intros n Hn.
    symmetry. apply (interp_linear R rO rI radd rmul rsub ropp Rth V vadd vscale (fun y => g (inj n y)) (comp n) (fun k => x (off n + k)) e q).
    - intros a c. rewrite inj_add. apply Hga.
    - intros s a. rewrite inj_scale. apply Hgs.
  Qed.
End CBgen.

Section SharedAndPermuted.
  Variable R : Type.
  Variables (rO rI : R) (radd rmul rsub : R -> R -> R) (ropp : R -> R).
  Variable Rth : ring_theory rO rI radd rmul rsub ropp (@eq R).
  Add Ring RingC19SP : Rth.
  Notation Sn := (sumn rO radd).
  Variables V VC W : Type.
  Variables (vadd : V -> V -> V) (vscale : R -> V -> V) (vaddC : VC -> VC -> VC) (vscaleC : R -> VC -> VC).
  Variable inj : nat -> V -> VC.
  Variable b0 : basis R V.
  Variable rest : list (basis R V).
  Notation bs := (b0 :: rest).
  Notation M := (length bs).
  Notation comp n := (nth n bs b0).
  Notation Nb := (fun n => bNbfun (nth n bs b0)).
  Notation NN := (fun n => bN (nth n bs b0)).
  Hypothesis Hwf : forall n, n < M -> wf_basis (comp n) /\ bnelems (comp n) = bnelems b0 /\ bnq (comp n) = bnq b0.
  Variable form : VC -> VC -> W -> R.
  Hypothesis form_add_u : forall x y v w, form (vaddC x y) v w = radd (form x v w) (form y v w).
  Hypothesis form_scale_u : forall s x v w, form (vscaleC s x) v w = rmul s (form x v w).
  Hypothesis form_add_v : forall u x y w, form u (vaddC x y) w = radd (form u x w) (form u y w).
  Hypothesis form_scale_v : forall s u x w, form u (vscaleC s x) w = rmul s (form u x w).
  Hypothesis inj_add : forall n x y, inj n (vadd x y) = vaddC (inj n x) (inj n y).
  Hypothesis inj_scale : forall n s x, inj n (vscale s x) = vscaleC s (inj n x).

  Lemma integrate_sumn nt nq K (G : nat -> nat -> nat -> R) dx :
    integrate R rO radd rmul nt nq (fun e q => Sn K (fun a => G a e q)) dx = Sn K (fun a => integrate R rO radd rmul nt nq (G a) dx).
  Proof.
    unfold integrate.
    transitivity (Sn nt (fun e => Sn K (fun a => Sn nq (fun q => rmul (G a e q) (dx e q))))).
    { apply sumn_ext. intros e _. rewrite (sumn_exchange R rO rI radd rmul rsub ropp Rth K nq).
      apply sumn_ext. intros q _. now rewrite (sumn_scale_r R rO rI radd rmul rsub ropp Rth). }
    apply (sumn_exchange R rO rI radd rmul rsub ropp Rth).
  Qed.

  (* ---------- shared DOFs (equal_dofnum = True, the @ operator): all components use the same numbers, the matrix is the
     SUM over all (test a, trial b) of the component-block weak forms (each of which is va^T A^{a,b} ub by C01) ---------- *)
  Theorem shared_dofs_matrix_is_sum (w : nat -> nat -> W) (u v : nat -> R) :
    (forall n, n < M -> bN (comp n) = bN b0) ->
    exists C cC AC,
      composite_basis R V VC inj b0 rest true = Some C /\ bN C = bN b0 /\
      bilinear_assemble R rO radd rmul VC W form w C None = Some cC /\ to_dense2 R rO radd cC = Some AC /\
      vAu R rO radd rmul v AC u (bN C) (bN C)
      = Sn M (fun a => Sn M (fun b =>
          integrate R rO radd rmul (bnelems b0) (bnq b0)
            (fun e q => form (inj b (interp R rO V vadd vscale (comp b) u e q)) (inj a (interp R rO V vadd vscale (comp a) v e q)) (w e q))
            (bdx b0))).
  Proof.
    intros HN.
    destruct (cbg_init R V VC inj b0 rest true Hwf) as [C [EC [HNc [HNb [Hnt [Hnq [Hdx [HE HBf]]]]]]]].
    assert (WC : wf_basis C).
    { split.
      - rewrite HE, HNb. unfold cb_edofs. rewrite flat_map_length_sumlen. unfold sumlen, psum. apply fold_add_map_ext.
        intros x Hx. apply in_seq in Hx. rewrite map_length. destruct (Hwf x ltac:(lia)) as [[HL _] _]. exact HL.
      - intros i Hi. rewrite HNb in Hi. destruct (psum_decompose Nb M i Hi) as [n [j [Hn [Hj ->]]]].
        destruct (Hwf n Hn) as [[_ Hrow] [Hntn _]]. destruct (Hrow j Hj) as [HL Hlt]. split.
        + unfold C01_Assembly.element_dofs. rewrite HE, (cbg_edofs_row R V b0 rest true Hwf n j Hn Hj). rewrite map_length.
          unfold C01_Assembly.element_dofs in HL. now rewrite HL, Hnt.
        + intros e He. rewrite Hnt in He. rewrite (cbg_entry R V VC b0 rest true Hwf C n j e HE Hn Hj He).
          rewrite HNc. cbn [cb_offset cb_N Nat.add]. rewrite <- (HN n Hn). apply Hlt. now rewrite Hntn. }
    destruct (bilinear_weak_form R rO rI radd rmul rsub ropp Rth VC W vaddC vscaleC form
                form_add_u form_scale_u form_add_v form_scale_v w C None u v WC WC eq_refl eq_refl) as [cC [AC [E1 [E2 H1]]]].
    exists C, cC, AC. split; [exact EC|]. split; [exact HNc|]. split; [exact E1|]. split; [exact E2|].
    cbv zeta in H1. rewrite H1, Hnt, Hnq, Hdx.
    set (F := fun a b e q => form (inj b (interp R rO V vadd vscale (comp b) u e q))
                                   (inj a (interp R rO V vadd vscale (comp a) v e q)) (w e q)).
    symmetry.
    transitivity (Sn M (fun a => integrate R rO radd rmul (bnelems b0) (bnq b0) (fun e q => Sn M (fun b => F a b e q)) (bdx b0))).
    { apply sumn_ext. intros a _. symmetry. apply (integrate_sumn (bnelems b0) (bnq b0) M (fun b e q => F a b e q)). }
    rewrite <- (integrate_sumn (bnelems b0) (bnq b0) M (fun a e q => Sn M (fun b => F a b e q)) (bdx b0)).
    symmetry. unfold F.
    unfold integrate. apply sumn_ext. intros e He. apply sumn_ext. intros q Hq. f_equal.
    rewrite (cbg_interp_components R rO rI radd rmul rsub ropp Rth V VC vadd vscale vaddC vscaleC inj b0 rest true Hwf inj_add inj_scale C
               (fun Y => form (interp R rO VC vaddC vscaleC C u e q) Y (w e q)) v e q EC He)
      by (intros; first [apply form_add_v | apply form_scale_v]).
    apply sumn_ext. intros a Ha.
    rewrite (cbg_interp_components R rO rI radd rmul rsub ropp Rth V VC vadd vscale vaddC vscaleC inj b0 rest true Hwf inj_add inj_scale C
               (fun X => form X (inj a (interp R rO V vadd vscale (comp a) (fun k => v (cb_offset R V b0 bs true a + k)) e q)) (w e q)) u e q EC He)
      by (intros; first [apply form_add_u | apply form_scale_u]).
    reflexivity.
  Qed.
End SharedAndPermuted.
