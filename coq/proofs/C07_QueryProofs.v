(* C07 — proofs about Model.C07_Query on top of the numbering theorems of C04. *)
From Coq Require Import List Arith Lia Bool Sorted.
Import ListNotations.
Require Import Base.C11_Unique Model.C04_Dofs Model.C07_Query Proofs.C04_DofsProofs.

(* ------------------------------------------------------------------ generic pieces *)
Lemma sub_in blk rows ix d :
  In d (sub blk rows ix) <-> exists r j, In r rows /\ In j ix /\ d = nth j (nth r blk []) 0.
Proof.
  unfold sub. rewrite in_flat_map. split.
  - intros [r [Hr Hd]]. apply in_map_iff in Hd. destruct Hd as [j [Hd Hj]]. exists r, j. now repeat split.
  - intros [r [j [Hr [Hj Hd]]]]. exists r. split; [exact Hr|]. apply in_map_iff. exists j. now split.
Qed.

Lemma existsb_eqb x l : existsb (Nat.eqb x) l = true <-> In x l.
Proof.
  rewrite existsb_exists. split.
  - intros [y [Hy He]]. apply Nat.eqb_eq in He. now subst.
  - intros H. exists x. split; [exact H | apply Nat.eqb_refl].
Qed.

Lemma inter_in a b x : In x (inter a b) <-> In x a /\ In x b.
Proof. unfold inter. rewrite filter_In, existsb_eqb. reflexivity. Qed.

Lemma union1d_in a b x : In x (union1d a b) <-> In x a \/ In x b.
Proof. unfold union1d. rewrite (uniq_in _ Nat.compare nat_cmp_eq), in_app_iff. reflexivity. Qed.

(* rows selected by name: row i of a block of n rows whose name is dofnames[i + off] *)
Lemma rows_named_in skip dofnames names off n i :
  In i (rows_named skip dofnames names off n) <->
  i < n /\ (In (nth (i + off) dofnames 0) names <-> skip = false).
Proof.
  unfold rows_named, name_in. rewrite filter_In, in_seq.
  set (nm := nth (i + off) dofnames 0).
  assert (E : existsb (Nat.eqb nm) names = true <-> In nm names) by apply existsb_eqb.
  destruct (existsb (Nat.eqb nm) names); destruct skip; simpl; destruct E as [E1 E2];
    split; intros [H1 H2]; (split; [lia|]); try discriminate; try tauto.
  - destruct H2 as [H2 _]. specialize (H2 (E1 eq_refl)). discriminate.
  - split; [intros H; specialize (E2 H); discriminate | intros H; discriminate].
Qed.

Lemma complement_in N d x : In x (complement N d) <-> x < N /\ ~ In x d.
Proof.
  unfold complement. rewrite filter_In, in_seq, negb_true_iff. rewrite <- existsb_eqb.
  destruct (existsb (Nat.eqb x) d); intuition (try lia; try discriminate).
Qed.

Lemma complement_sorted N d : StronglySorted Nat.lt (complement N d).
Proof. unfold complement. apply Proofs.C11_TopoProofs.strongly_sorted_filter, Proofs.C11_TopoProofs.seq_strongly_sorted. Qed.

(* ------------------------------------------------------------------ flatten *)
Definition rows_of (v : view) (kd : kind) : list nat :=
  match kd with Nodal => V_nodal_rows v | Edge => V_edge_rows v | Facet => V_facet_rows v | Interior => V_interior_rows v end.
Definition ix_of (v : view) (kd : kind) : list nat :=
  match kd with Nodal => V_nodal_ix v | Edge => V_edge_ix v | Facet => V_facet_ix v | Interior => V_interior_ix v end.
Definition blk_of (D : dofs) (kd : kind) : list (list nat) :=
  match kd with Nodal => D_nodal D | Edge => D_edge D | Facet => D_facet D | Interior => D_interior D end.

Theorem flatten_in D v d :
  In d (flatten D v) <-> exists kd r j, In r (rows_of v kd) /\ In j (ix_of v kd) /\ d = nth j (nth r (blk_of D kd) []) 0.
Proof.
  unfold flatten. rewrite (uniq_in _ Nat.compare nat_cmp_eq), !in_app_iff, !sub_in. split.
  - intros [H|[H|[H|H]]]; destruct H as [r [j H]];
      [exists Nodal | exists Facet | exists Edge | exists Interior]; exists r, j; exact H.
  - intros [kd [r [j H]]]. destruct kd; simpl in H; [left | right; right; left | right; left | right; right; right];
      exists r, j; exact H.
Qed.

Theorem flatten_sorted D v : StronglySorted (lt Nat.compare) (flatten D v).
Proof. unfold flatten. apply (uniq_strongly_sorted _ Nat.compare nat_cmp_antisym nat_cmp_trans). Qed.

(* flatten depends only on the SETS of indices and rows: selectors that denote the same set agree *)
Theorem flatten_ext D v w :
  (forall kd x, In x (ix_of v kd) <-> In x (ix_of w kd)) ->
  (forall kd x, In x (rows_of v kd) <-> In x (rows_of w kd)) ->
  flatten D v = flatten D w.
Proof.
  intros Hi Hr. apply (strongly_sorted_ext _ Nat.compare nat_cmp_eq nat_cmp_trans); try apply flatten_sorted.
  intros d. rewrite !flatten_in. split; intros [kd [r [j [H1 [H2 H3]]]]]; exists kd, r, j;
    (split; [now apply Hr | split; [now apply Hi | exact H3]]).
Qed.

(* ------------------------------------------------------------------ on the numbering of C04 *)
Section OnModel.
  Variables dim nd ed fd id off nv ne nf nt : nat.
  Variables t t2e t2f : list (list nat).
  Notation D := (dofs_init dim nd ed fd id off nv ne nf nt t t2e t2f).
  Notation enc := (encode dim nd ed fd id off nv ne nf nt).
  Notation cnt' := (cnt dim nd ed fd id).
  Notation nent' := (nent nv ne nf nt).
  Hypothesis Hfd : 0 < fd -> 2 <= dim.

  Lemma blk_model kd : blk_of D kd = block (cnt' kd) (nent' kd) (koff dim nd ed fd id off nv ne nf nt kd).
  Proof.
    destruct (blocks_of_model dim nd ed fd id off nv ne nf nt t t2e t2f Hfd) as [B1 [B2 [B3 B4]]].
    destruct kd; simpl; assumption.
  Qed.

  Lemma blk_rows kd : length (blk_of D kd) = cnt' kd.
  Proof. rewrite blk_model. apply block_length. Qed.

  (* a view whose rows are component numbers and whose indices are entity numbers *)
  Definition view_ok (v : view) : Prop :=
    forall kd, (forall r, In r (rows_of v kd) -> r < cnt' kd) /\ (forall j, In j (ix_of v kd) -> j < nent' kd).

  (* flatten of such a view = the strictly sorted list of exactly the codes (kind, entity, k) with k among the rows
     and the entity among the indices of its kind *)
  Theorem flatten_codes v d : view_ok v ->
    (In d (flatten D v) <->
     exists kd ent k, In k (rows_of v kd) /\ In ent (ix_of v kd) /\ valid dim nd ed fd id nv ne nf nt kd ent k /\ d = enc kd ent k).
  Proof.
    intros Hv. rewrite flatten_in. split.
    - intros [kd [r [j [Hr [Hj Hd]]]]]. destruct (Hv kd) as [Br Bj]. specialize (Br r Hr). specialize (Bj j Hj).
      exists kd, j, r. repeat split; try assumption. rewrite Hd, blk_model. rewrite block_entry by assumption. reflexivity.
    - intros [kd [ent [k [Hk [He [[Be Bk] Hd]]]]]]. exists kd, k, ent. repeat split; try assumption.
      rewrite Hd, blk_model. rewrite block_entry by assumption. reflexivity.
  Qed.
End OnModel.

(* ------------------------------------------------------------------ the queries *)
Lemma cols_of_in T ix x : In x (cols_of T ix) <-> exists row j, In row T /\ In j ix /\ x = nth j row 0.
Proof.
  unfold cols_of. rewrite in_flat_map. split.
  - intros [row [Hr Hx]]. apply in_map_iff in Hx. destruct Hx as [j [Hx Hj]]. exists row, j. now repeat split.
  - intros [row [j [Hr [Hj Hx]]]]. exists row. split; [exact Hr|]. apply in_map_iff. exists j. now split.
Qed.

Lemma expand_facets_spec facets f2e dim3 ix :
  (forall v, In v (fst (expand_facets facets f2e dim3 ix)) <-> exists f, In f ix /\ In v (nth f facets [])) /\
  (forall g, In g (snd (expand_facets facets f2e dim3 ix)) <->
             dim3 = true /\ exists row f, In row f2e /\ In f ix /\ g = nth f row 0).
Proof.
  unfold expand_facets. simpl. split.
  - intros v. rewrite (uniq_in _ Nat.compare nat_cmp_eq), in_flat_map. reflexivity.
  - intros g. destruct dim3.
    + rewrite (uniq_in _ Nat.compare nat_cmp_eq), cols_of_in. tauto.
    + simpl. split; [tauto | intros [H _]; discriminate].
Qed.

(* rows of a view built by a query: the components whose name is not skipped *)
Definition row_selected (D : dofs) (dofnames : list nat) (offs : offsets) (skip : bool) (names : list nat) (kd : kind) (k : nat) : Prop :=
  let '(of_, oe, oi) := offs in
  k < length (blk_of D kd) /\
  (In (nth (k + match kd with Nodal => 0 | Facet => of_ | Edge => oe | Interior => oi end) dofnames 0) names <-> skip = false).

Lemma names_to_rows_spec D dofnames offs skip names ixs kd k :
  In k (rows_of (mk_view ixs (names_to_rows D dofnames offs skip names)) kd) <-> row_selected D dofnames offs skip names kd k.
Proof.
  destruct ixs as [[[i1 i2] i3] i4]. destruct offs as [[of_ oe] oi]. unfold names_to_rows, mk_view, row_selected.
  destruct kd; simpl; apply rows_named_in.
Qed.

Lemma mk_view_ix ixs r kd :
  ix_of (mk_view ixs r) kd = let '(i1, i2, i3, i4) := ixs in match kd with Nodal => i1 | Facet => i2 | Edge => i3 | Interior => i4 end.
Proof. destruct ixs as [[[i1 i2] i3] i4]. destruct r as [[[r1 r2] r3] r4]. destruct kd; reflexivity. Qed.

(* keep / drop = intersection of the rows with the named / not named rows; indices untouched *)
Theorem keep_spec D dofnames offs v names kd :
  ix_of (keep D dofnames offs v names) kd = ix_of v kd /\
  forall k, In k (rows_of (keep D dofnames offs v names) kd) <->
            In k (rows_of v kd) /\ row_selected D dofnames offs false names kd k.
Proof.
  unfold keep, with_rows, names_to_rows, row_selected. destruct offs as [[of_ oe] oi].
  destruct kd; simpl; (split; [reflexivity|]); intros k; rewrite inter_in, rows_named_in; reflexivity.
Qed.

Theorem drop_spec D dofnames offs v names kd :
  ix_of (drop D dofnames offs v names) kd = ix_of v kd /\
  forall k, In k (rows_of (drop D dofnames offs v names) kd) <->
            In k (rows_of v kd) /\ row_selected D dofnames offs true names kd k.
Proof.
  unfold drop, with_rows, names_to_rows, row_selected. destruct offs as [[of_ oe] oi].
  destruct kd; simpl; (split; [reflexivity|]); intros k; rewrite inter_in, rows_named_in; reflexivity.
Qed.

Theorem view_or_spec a b kd :
  rows_of (view_or a b) kd = rows_of a kd /\
  forall x, In x (ix_of (view_or a b) kd) <-> In x (ix_of a kd) \/ In x (ix_of b kd).
Proof. destruct kd; simpl; (split; [reflexivity|]); intros x; apply union1d_in. Qed.

(* which entities a query selects, per kind *)
Definition facet_selected (facets f2e : list (list nat)) (dim3 : bool) (F : list nat) (kd : kind) (ent : nat) : Prop :=
  match kd with
  | Nodal => exists f, In f F /\ In ent (nth f facets [])                             (* a vertex of a selected facet *)
  | Edge => dim3 = true /\ exists row f, In row f2e /\ In f F /\ ent = nth f row 0    (* an edge of a selected facet (3-D) *)
  | Facet => In ent F                                                                (* a selected facet *)
  | Interior => False
  end.

Definition element_selected (t t2e t2f : list (list nat)) (E : list nat) (kd : kind) (ent : nat) : Prop :=
  match kd with
  | Nodal => exists row e, In row t /\ In e E /\ ent = nth e row 0
  | Edge => exists row e, In row t2e /\ In e E /\ ent = nth e row 0
  | Facet => exists row e, In row t2f /\ In e E /\ ent = nth e row 0
  | Interior => In ent E
  end.

Lemma facet_view_ix D dofnames offs nd ed fd facets f2e dim3 F skip kd ent :
  In ent (ix_of (get_facet_dofs D dofnames offs nd ed fd facets f2e dim3 F skip) kd) <->
  match kd with Nodal => nd <> 0 | Edge => ed <> 0 | Facet => fd <> 0 | Interior => True end /\
  facet_selected facets f2e dim3 F kd ent.
Proof.
  unfold get_facet_dofs. destruct (expand_facets_spec facets f2e dim3 F) as [S1 S2].
  destruct (expand_facets facets f2e dim3 F) as [vs es] eqn:Ex. simpl fst in S1. simpl snd in S2.
  rewrite mk_view_ix. destruct kd; simpl.
  - destruct (Nat.eqb_spec nd 0); [simpl; intuition | rewrite S1; intuition].
  - destruct (Nat.eqb_spec ed 0); [simpl; intuition | rewrite S2; intuition].
  - destruct (Nat.eqb_spec fd 0); [simpl; intuition | intuition].
  - intuition.
Qed.

Lemma element_view_ix D dofnames offs nd ed fd t t2e t2f E skip kd ent :
  In ent (ix_of (get_element_dofs D dofnames offs nd ed fd t t2e t2f E skip) kd) <->
  match kd with Nodal => nd <> 0 | Edge => ed <> 0 | Facet => fd <> 0 | Interior => True end /\
  element_selected t t2e t2f E kd ent.
Proof.
  unfold get_element_dofs. rewrite mk_view_ix. destruct kd; simpl.
  - destruct (Nat.eqb_spec nd 0); [simpl; intuition | rewrite (uniq_in _ Nat.compare nat_cmp_eq), cols_of_in; intuition].
  - destruct (Nat.eqb_spec ed 0); [simpl; intuition | rewrite (uniq_in _ Nat.compare nat_cmp_eq), cols_of_in; intuition].
  - destruct (Nat.eqb_spec fd 0); [simpl; intuition | rewrite (uniq_in _ Nat.compare nat_cmp_eq), cols_of_in; intuition].
  - intuition.
Qed.

Section Queries.
  Variables dim nd ed fd id off nv ne nf nt : nat.
  Variables t t2e t2f : list (list nat).
  Notation D := (dofs_init dim nd ed fd id off nv ne nf nt t t2e t2f).
  Notation enc := (encode dim nd ed fd id off nv ne nf nt).
  Notation cnt' := (cnt dim nd ed fd id).
  Hypothesis Hfd : 0 < fd -> 2 <= dim.
  Variable dofnames : list nat.
  Variable offs : offsets.

  Lemma valid_kind_count kd ent k : valid dim nd ed fd id nv ne nf nt kd ent k ->
    match kd with Nodal => nd <> 0 | Edge => ed <> 0 | Facet => fd <> 0 | Interior => True end.
  Proof.
    intros [_ Hk]. destruct kd; simpl in Hk; try exact I; try lia.
    unfold eff_ed in Hk. destruct ((dim =? 3) && (0 <? ed)); lia.
  Qed.

  (* get_facet_dofs(F).flatten() is the strictly sorted list of EXACTLY the numbers whose decode (kind, entity, k) is a vertex
     of / an edge of (3-D) / a facet in F, with a component k that is not skipped *)
  Theorem facet_query_exact facets f2e dim3 F skip d :
    (forall f, In f F -> f < nf) ->
    (forall f v, In f F -> In v (nth f facets []) -> v < nv) ->
    (forall row f, In row f2e -> In f F -> nth f row 0 < ne) ->
    (In d (flatten D (get_facet_dofs D dofnames offs nd ed fd facets f2e dim3 F skip)) <->
     exists kd ent k, valid dim nd ed fd id nv ne nf nt kd ent k /\ d = enc kd ent k /\
                      row_selected D dofnames offs true skip kd k /\ facet_selected facets f2e dim3 F kd ent).
  Proof.
    intros BF Bv Be.
    assert (Hok : view_ok dim nd ed fd id nv ne nf nt (get_facet_dofs D dofnames offs nd ed fd facets f2e dim3 F skip)).
    { intros kd. split.
      - intros r Hr. unfold get_facet_dofs in Hr. destruct (expand_facets facets f2e dim3 F) as [vs es].
        apply names_to_rows_spec in Hr. unfold row_selected in Hr. destruct offs as [[of_ oe] oi].
        destruct Hr as [Hr _]. now rewrite (blk_rows dim nd ed fd id off nv ne nf nt t t2e t2f Hfd) in Hr.
      - intros j Hj. apply facet_view_ix in Hj. destruct Hj as [_ Hj]. destruct kd; simpl in Hj |- *.
        + destruct Hj as [f [Hf Hv]]. now apply (Bv f).
        + destruct Hj as [_ [row [f [Hrow [Hf ->]]]]]. now apply Be.
        + now apply BF.
        + destruct Hj. }
    rewrite (flatten_codes dim nd ed fd id off nv ne nf nt t t2e t2f Hfd _ d Hok). split.
    - intros [kd [ent [k [Hk [He [Hv Hd]]]]]]. exists kd, ent, k. split; [exact Hv|]. split; [exact Hd|]. split.
      + unfold get_facet_dofs in Hk. destruct (expand_facets facets f2e dim3 F) as [vs es]. now apply names_to_rows_spec in Hk.
      + apply facet_view_ix in He. tauto.
    - intros [kd [ent [k [Hv [Hd [Hr Hs]]]]]]. exists kd, ent, k. split; [|split; [|split; [exact Hv | exact Hd]]].
      + unfold get_facet_dofs. destruct (expand_facets facets f2e dim3 F) as [vs es]. now apply names_to_rows_spec.
      + apply facet_view_ix. split; [exact (valid_kind_count kd ent k Hv) | exact Hs].
  Qed.

  Theorem element_query_exact E skip d :
    (forall e, In e E -> e < nt) ->
    (forall row e, In row t -> In e E -> nth e row 0 < nv) ->
    (forall row e, In row t2e -> In e E -> nth e row 0 < ne) ->
    (forall row e, In row t2f -> In e E -> nth e row 0 < nf) ->
    (In d (flatten D (get_element_dofs D dofnames offs nd ed fd t t2e t2f E skip)) <->
     exists kd ent k, valid dim nd ed fd id nv ne nf nt kd ent k /\ d = enc kd ent k /\
                      row_selected D dofnames offs true skip kd k /\ element_selected t t2e t2f E kd ent).
  Proof.
    intros BE Bt Bte Btf.
    assert (Hok : view_ok dim nd ed fd id nv ne nf nt (get_element_dofs D dofnames offs nd ed fd t t2e t2f E skip)).
    { intros kd. split.
      - intros r Hr. unfold get_element_dofs in Hr. apply names_to_rows_spec in Hr. unfold row_selected in Hr.
        destruct offs as [[of_ oe] oi]. destruct Hr as [Hr _].
        now rewrite (blk_rows dim nd ed fd id off nv ne nf nt t t2e t2f Hfd) in Hr.
      - intros j Hj. apply element_view_ix in Hj. destruct Hj as [_ Hj]. destruct kd; simpl in Hj |- *.
        + destruct Hj as [row [e [Hrow [He ->]]]]. now apply Bt.
        + destruct Hj as [row [e [Hrow [He ->]]]]. now apply Bte.
        + destruct Hj as [row [e [Hrow [He ->]]]]. now apply Btf.
        + now apply BE. }
    rewrite (flatten_codes dim nd ed fd id off nv ne nf nt t t2e t2f Hfd _ d Hok). split.
    - intros [kd [ent [k [Hk [He [Hv Hd]]]]]]. exists kd, ent, k. split; [exact Hv|]. split; [exact Hd|]. split.
      + unfold get_element_dofs in Hk. now apply names_to_rows_spec in Hk.
      + apply element_view_ix in He. tauto.
    - intros [kd [ent [k [Hv [Hd [Hr Hs]]]]]]. exists kd, ent, k. split; [|split; [|split; [exact Hv | exact Hd]]].
      + unfold get_element_dofs. now apply names_to_rows_spec.
      + apply element_view_ix. split; [exact (valid_kind_count kd ent k Hv) | exact Hs].
  Qed.

  Theorem vertex_query_exact nodes skip d :
    (forall v, In v nodes -> v < nv) ->
    (In d (flatten D (get_vertex_dofs D dofnames offs nodes skip)) <->
     exists ent k, valid dim nd ed fd id nv ne nf nt Nodal ent k /\ d = enc Nodal ent k /\
                   row_selected D dofnames offs true skip Nodal k /\ In ent nodes).
  Proof.
    intros Bn.
    assert (Hok : view_ok dim nd ed fd id nv ne nf nt (get_vertex_dofs D dofnames offs nodes skip)).
    { intros kd. split.
      - intros r Hr. unfold get_vertex_dofs in Hr. apply names_to_rows_spec in Hr. unfold row_selected in Hr.
        destruct offs as [[of_ oe] oi]. destruct Hr as [Hr _].
        now rewrite (blk_rows dim nd ed fd id off nv ne nf nt t t2e t2f Hfd) in Hr.
      - intros j Hj. unfold get_vertex_dofs in Hj. rewrite mk_view_ix in Hj. destruct kd; simpl in Hj; try destruct Hj.
        now apply Bn. }
    rewrite (flatten_codes dim nd ed fd id off nv ne nf nt t t2e t2f Hfd _ d Hok). split.
    - intros [kd [ent [k [Hk [He [Hv Hd]]]]]]. unfold get_vertex_dofs in He. rewrite mk_view_ix in He.
      destruct kd; simpl in He; try destruct He. exists ent, k. split; [exact Hv|]. split; [exact Hd|]. split; [|exact He].
      unfold get_vertex_dofs in Hk. now apply names_to_rows_spec in Hk.
    - intros [ent [k [Hv [Hd [Hr Hs]]]]]. exists Nodal, ent, k. split; [|split; [|split; [exact Hv | exact Hd]]].
      + unfold get_vertex_dofs. now apply names_to_rows_spec.
      + unfold get_vertex_dofs. rewrite mk_view_ix. exact Hs.
  Qed.
End Queries.

(* ------------------------------------------------------------------ selectors *)
(* one level of a collection: sorted union of the parts *)
Lemma normalize_coll n dflt all_ok tags l r :
  normalize n dflt all_ok tags (SColl l) = Some r ->
  StronglySorted (lt Nat.compare) r /\
  (forall s, In s l -> exists a, normalize n dflt all_ok tags s = Some a) /\
  (forall x, In x r <-> exists s a, In s l /\ normalize n dflt all_ok tags s = Some a /\ In x a).
Proof.
  intros H. cbn [normalize] in H.
  set (go := fix go (l : list sel) : option (list nat) :=
               match l with
               | [] => Some []
               | x :: r => match normalize n dflt all_ok tags x, go r with
                           | Some a, Some b => Some (a ++ b)
                           | _, _ => None
                           end
               end) in H.
  assert (G : forall l c, go l = Some c ->
              (forall s, In s l -> exists a, normalize n dflt all_ok tags s = Some a) /\
              (forall x, In x c <-> exists s a, In s l /\ normalize n dflt all_ok tags s = Some a /\ In x a)).
  { clear. induction l as [|s l IH]; intros c Hc; simpl in Hc.
    - inversion Hc; subst. split; [intros s []|]. intros x. split; [intros [] | intros [s [a [[] _]]]].
    - destruct (normalize n dflt all_ok tags s) as [a|] eqn:Es; [|discriminate].
      destruct (go l) as [b|] eqn:Eg; [|discriminate]. inversion Hc; subst. destruct (IH b eq_refl) as [I1 I2]. split.
      + intros s' [<-|Hs']; [now exists a | now apply I1].
      + intros x. rewrite in_app_iff, I2. split.
        * intros [Hx | [s' [a' [Hs' [Ha' Hx]]]]]; [exists s, a; repeat split; [now left | exact Es | exact Hx]|].
          exists s', a'. repeat split; [now right | exact Ha' | exact Hx].
        * intros [s' [a' [[<-|Hs'] [Ha' Hx]]]]; [left; congruence | right; exists s', a'; now repeat split]. }
  destruct (go l) as [c|] eqn:Eg; [|discriminate]. simpl in H. inversion H; subst. destruct (G l c Eg) as [G1 G2].
  split; [apply (uniq_strongly_sorted _ Nat.compare nat_cmp_antisym nat_cmp_trans)|]. split; [exact G1|].
  intros x. rewrite (uniq_in _ Nat.compare nat_cmp_eq). apply G2.
Qed.

Lemma normalize_empty_coll n dflt all_ok tags : normalize n dflt all_ok tags (SColl []) = Some [].
Proof. reflexivity. Qed.

Lemma normalize_leaves n dflt all_ok tags :
  (forall i, normalize n dflt all_ok tags (SInt i) = Some [i]) /\
  (forall l, normalize n dflt all_ok tags (SArr l) = Some l) /\
  normalize n dflt all_ok tags SDefault = dflt /\
  (forall p x, exists r, normalize n dflt all_ok tags (SPred p) = Some r /\ (In x r <-> x < n /\ p x = true)) /\
  (forall k, normalize n dflt all_ok tags (STag k) = tags k).
Proof.
  repeat split; try reflexivity. intros p x. exists (filter p (seq 0 n)). split; [reflexivity|].
  rewrite filter_In, in_seq. intuition lia.
Qed.

(* ------------------------------------------------------------------ the per-name dictionaries *)
Lemma dedup_in l x : In x (dedup l) <-> In x l.
Proof.
  induction l as [|y l IH]; simpl; [reflexivity|]. rewrite filter_In, IH, negb_true_iff, Nat.eqb_neq.
  destruct (Nat.eq_dec x y) as [->|Hne]; [tauto|]. split.
  - intros [H|[H _]]; [left; now symmetry | now right].
  - intros [H|H]; [left; exact H | right; split; [exact H | exact Hne]].
Qed.

Lemma dedup_NoDup l : NoDup (dedup l).
Proof.
  induction l as [|y l IH]; simpl; constructor.
  - rewrite filter_In, negb_true_iff, Nat.eqb_neq. tauto.
  - now apply NoDup_filter.
Qed.

(* the keys are exactly the names of the selected rows (each once); the value of a key is made of exactly the DOFs of the selected
   entities in the selected rows THAT CARRY THAT NAME *)
Theorem by_name_spec blk rows ix off dofnames :
  let nm := fun r => nth (r + off) dofnames 0 in
  NoDup (map fst (by_name blk rows ix off dofnames)) /\
  (forall n, In n (map fst (by_name blk rows ix off dofnames)) <-> exists r, In r rows /\ nm r = n) /\
  (forall n l, In (n, l) (by_name blk rows ix off dofnames) ->
     forall d, In d l <-> exists r j, In r rows /\ nm r = n /\ In j ix /\ d = nth j (nth r blk []) 0).
Proof.
  intros nm. unfold by_name. fold nm. rewrite map_map. simpl. rewrite map_id. split; [apply dedup_NoDup|]. split.
  - intros n. rewrite dedup_in, in_map_iff. split; intros [r [H1 H2]]; exists r; tauto.
  - intros n l Hin d. apply in_map_iff in Hin. destruct Hin as [n' [Heq _]]. inversion Heq; subst n' l. clear Heq.
    rewrite in_flat_map. split.
    + intros [r [Hr Hd]]. cbv beta delta [nm] in Hd |- *. revert Hd.
      destruct (Nat.eqb_spec (nth (r + off) dofnames 0) n) as [E|E]; intros Hd; [|destruct Hd].
      apply in_map_iff in Hd. destruct Hd as [j [Hd Hj]]. exists r, j. now repeat split.
    + intros [r [j [Hr [E [Hj Hd]]]]]. exists r. split; [exact Hr|]. cbv beta delta [nm] in E |- *. rewrite (proj2 (Nat.eqb_eq _ _) E).
      apply in_map_iff. exists j. now split.
Qed.

(* ------------------------------------------------------------------ re-tagging *)
Theorem with_tags_lookup old new k :
  tag_lookup (with_tags old new) k = match tag_lookup new k with Some v => Some v | None => tag_lookup old k end.
Proof.
  unfold tag_lookup, with_tags. induction new as [|[k' v] new IH]; simpl; [reflexivity|].
  destruct (Nat.eqb k' k); [reflexivity | exact IH].
Qed.

(* the last definition of a name in the history is the one in force; names never redefined keep their first definition *)
Theorem tag_history_last hist new k :
  tag_lookup (tag_history (hist ++ [new])) k
  = match tag_lookup new k with Some v => Some v | None => tag_lookup (tag_history hist) k end.
Proof. unfold tag_history. rewrite fold_left_app. simpl. apply with_tags_lookup. Qed.

(* the empty list of names: keep / all select no row (of any kind), drop / skip remove none *)
Lemma rows_named_empty skip dofnames off n :
  rows_named skip dofnames [] off n = if skip then seq 0 n else [].
Proof.
  unfold rows_named, name_in. simpl. destruct skip; simpl.
  - induction (seq 0 n) as [|x l IH]; simpl; [reflexivity | now rewrite IH].
  - induction (seq 0 n) as [|x l IH]; simpl; [reflexivity | exact IH].
Qed.

Lemma inter_nil a : inter a [] = [].
Proof. unfold inter. induction a as [|x a IH]; simpl; [reflexivity | exact IH]. Qed.

Theorem keep_empty_names D dofnames offs v : flatten D (keep D dofnames offs v []) = [].
Proof.
  unfold keep, with_rows, names_to_rows. destruct offs as [[of_ oe] oi]. rewrite !rows_named_empty.
  unfold flatten. cbn [V_nodal_rows V_facet_rows V_edge_rows V_interior_rows V_nodal_ix V_facet_ix V_edge_ix V_interior_ix].
  rewrite !inter_nil. reflexivity.
Qed.

(* the complement of several sets is the complement of their UNION *)
Theorem complement_many_in N Ds x : In x (complement_many N Ds) <-> x < N /\ forall D, In D Ds -> ~ In x D.
Proof.
  unfold complement_many. rewrite complement_in, in_concat. split; intros [H1 H2]; (split; [exact H1|]).
  - intros D HD Hx. apply H2. now exists D.
  - intros [D [HD Hx]]. exact (H2 D HD Hx).
Qed.
