(* C01 — proofs about Model.C01_Trilinear: triplets (quadruplets) of TrilinearForm._assemble and the weak form
   sum_abc T_abc w_a v_b u_c = sum_e sum_q f(u_h, v_h, w_h, p) dx  for forms linear in each of the three argument functions. *)
From Coq Require Import List Arith Bool Lia Ring Ring_theory.
Import ListNotations.
Require Import Base.C01_Sums Model.C01_Assembly Proofs.C01_AssemblyProofs Model.C01_Trilinear.

Lemma divmod_pair k j Nv : j < Nv -> (k * Nv + j) / Nv = k /\ (k * Nv + j) mod Nv = j.
Proof.
  intros H. split.
  - rewrite Nat.div_add_l by lia. rewrite Nat.div_small by lia. lia.
  - rewrite Nat.add_comm, Nat.mod_add by lia. apply Nat.mod_small. exact H.
Qed.

Lemma nd4_step {A} (z : A) (vec : nat -> nat -> list A) Nu Nv Nw nt k j i v :
  (forall x i, x < Nu * Nv -> i < Nw -> length (vec x i) = nt) ->
  k < Nu -> j < Nv -> i < Nw -> v = vec (k * Nv + j) i ->
  nd4_set_row k j i v (mkNd4 Nu Nv Nw nt (part2 z vec (Nu * Nv) Nw nt (k * Nv + j) i))
  = Some (mkNd4 Nu Nv Nw nt (part2 z vec (Nu * Nv) Nw nt (k * Nv + j) (S i))).
Proof.
  intros Hlen Hk Hj Hi ->. unfold nd4_set_row. cbn [n4_d0 n4_d1 n4_d2 n4_d3 n4_buf].
  destruct (Nat.ltb_spec k Nu); [|lia]. destruct (Nat.ltb_spec j Nv); [|lia]. destruct (Nat.ltb_spec i Nw); [|lia].
  cbn [andb]. rewrite (part2_step z vec (Nu * Nv) Nw nt Hlen (k * Nv + j) i) by (try reflexivity; nia).
  reflexivity.
Qed.

Section TriProofs.
  Variable R : Type.
  Variables (rO rI : R) (radd rmul rsub : R -> R -> R) (ropp : R -> R).
  Variable Rth : ring_theory rO rI radd rmul rsub ropp (@eq R).
  Add Ring RingC01Tri : Rth.
  Variable V W : Type.
  Variables (vadd : V -> V -> V) (vscale : R -> V -> V).
  Notation "a [+] b" := (radd a b) (at level 50, left associativity).
  Notation "a [*] b" := (rmul a b) (at level 40, left associativity).
  Notation basis := (basis R V).
  Notation Sn := (sumn rO radd).
  Notation interp := (interp R rO V vadd vscale).

  Definition Kkjie (form : V -> V -> V -> W -> R) (p : nat -> nat -> W) (ub vb wb : basis) (k j i e : nat) : R :=
    Sn (bnq ub) (fun q => form (bB ub k e q) (bB vb j e q) (bB wb i e q) (p e q) [*] bdx ub e q).

  Theorem trilinear_assemble_entries form p (ub : basis) (vb0 wb0 : option basis) :
    let vb := match vb0 with None => ub | Some b => b end in
    let wb := match wb0 with None => ub | Some b => b end in
    let Nu := bNbfun ub in let Nv := bNbfun vb in let Nw := bNbfun wb in let nt := bnelems ub in
    wf_basis ub -> wf_basis vb -> wf_basis wb -> bnelems vb = nt -> bnelems wb = nt ->
    exists mats rows cols data,
      trilinear_assemble R rO radd rmul V W form p ub vb0 wb0
        = Some (mkCoo [mats; rows; cols] data [bN wb; bN vb; bN ub] [Nw; Nv; Nu]) /\
      length mats = Nu * Nv * Nw * nt /\ length rows = Nu * Nv * Nw * nt /\ length cols = Nu * Nv * Nw * nt /\
      length data = Nu * Nv * Nw * nt /\
      forall k j i e, k < Nu -> j < Nv -> i < Nw -> e < nt ->
        let pos := ((k * Nv + j) * Nw + i) * nt + e in
        nth pos mats 0 = nth e (element_dofs wb i) 0 /\
        nth pos rows 0 = nth e (element_dofs vb j) 0 /\
        nth pos cols 0 = nth e (element_dofs ub k) 0 /\
        nth pos data rO = Kkjie form p ub vb wb k j i e.
  Proof.
    intros vb wb Nu Nv Nw nt Hu Hv Hw Hntv Hntw.
    set (mvec := fun (x i : nat) => element_dofs wb i).
    set (rvec := fun (x i : nat) => element_dofs vb (x mod Nv)).
    set (cvec := fun (x i : nat) => element_dofs ub (x / Nv)).
    set (dvec := fun (x i : nat) =>
           trilinear_kernel R rO radd rmul V W form (bB ub (x / Nv)) (bB vb (x mod Nv)) (bB wb i) p (bdx ub) nt (bnq ub)).
    assert (Hxm : forall x, x < Nu * Nv -> x / Nv < Nu /\ x mod Nv < Nv).
    { intros x Hx. assert (0 < Nv) by nia. split; [apply Nat.div_lt_upper_bound; nia | apply Nat.mod_upper_bound; lia]. }
    assert (Hm : forall x i, x < Nu * Nv -> i < Nw -> length (mvec x i) = nt).
    { intros x i _ Hi. unfold mvec. destruct Hw as [_ Hw]. destruct (Hw i Hi) as [L _]. now rewrite L. }
    assert (Hr : forall x i, x < Nu * Nv -> i < Nw -> length (rvec x i) = nt).
    { intros x i Hx _. unfold rvec. destruct Hv as [_ Hv]. destruct (Hv (x mod Nv) (proj2 (Hxm x Hx))) as [L _]. now rewrite L. }
    assert (Hc : forall x i, x < Nu * Nv -> i < Nw -> length (cvec x i) = nt).
    { intros x i Hx _. unfold cvec. destruct Hu as [_ Hu]. now destruct (Hu (x / Nv) (proj1 (Hxm x Hx))) as [L _]. }
    assert (Hd : forall x i, x < Nu * Nv -> i < Nw -> length (dvec x i) = nt).
    { intros. unfold dvec, trilinear_kernel, sum_axis1. now rewrite map_length, seq_length. }
    exists (full2 mvec (Nu * Nv) Nw), (full2 rvec (Nu * Nv) Nw), (full2 cvec (Nu * Nv) Nw), (full2 dvec (Nu * Nv) Nw).
    split.
    - unfold trilinear_assemble. fold vb. fold wb. fold Nu. fold Nv. fold Nw. fold nt.
      set (ST := fun (x i : nat) =>
                   (mkNd4 Nu Nv Nw nt (part2 rO dvec (Nu * Nv) Nw nt x i), mkNd4 Nu Nv Nw nt (part2 0 rvec (Nu * Nv) Nw nt x i),
                    mkNd4 Nu Nv Nw nt (part2 0 cvec (Nu * Nv) Nw nt x i), mkNd4 Nu Nv Nw nt (part2 0 mvec (Nu * Nv) Nw nt x i)) : st4 R).
      match goal with |- bind (for_range Nu ?body ?st0) _ = _ =>
        destruct (for_range_inv (fun k st => st = ST (k * Nv) 0) body Nu st0) as [s' [E Ps]] end.
      + unfold ST, nd4_zeros. simpl Nat.mul. rewrite !part2_start.
        replace (Nu * Nv * Nw * nt) with (Nu * Nv * Nw * nt) by reflexivity. reflexivity.
      + intros k s Hk ->.
        match goal with |- exists s', for_range Nv ?body ?st0 = _ /\ _ =>
          destruct (for_range_inv (fun j st => st = ST (k * Nv + j) 0) body Nv st0) as [s' [E Qs]] end.
        * now rewrite Nat.add_0_r.
        * intros j s Hj ->.
          match goal with |- exists s', for_range Nw ?body ?st0 = _ /\ _ =>
            destruct (for_range_inv (fun i st => st = ST (k * Nv + j) i) body Nw st0) as [s' [E Ws]] end.
          -- reflexivity.
          -- intros i s Hi ->. unfold ST. cbv beta iota.
             destruct (divmod_pair k j Nv Hj) as [Ed Em].
             rewrite (nd4_step 0 mvec Nu Nv Nw nt k j i (element_dofs wb i) Hm Hk Hj Hi eq_refl). cbv beta iota delta [bind].
             rewrite (nd4_step 0 rvec Nu Nv Nw nt k j i (element_dofs vb j) Hr Hk Hj Hi) by (unfold rvec; now rewrite Em). cbv beta iota.
             rewrite (nd4_step 0 cvec Nu Nv Nw nt k j i (element_dofs ub k) Hc Hk Hj Hi) by (unfold cvec; now rewrite Ed). cbv beta iota.
             rewrite (nd4_step rO dvec Nu Nv Nw nt k j i (trilinear_kernel R rO radd rmul V W form (bB ub k) (bB vb j) (bB wb i) p (bdx ub) nt (bnq ub)) Hd Hk Hj Hi) by (unfold dvec; now rewrite Ed, Em). cbv beta iota.
             eexists. split; reflexivity.
          -- exists s'. split; [exact E|]. rewrite Ws. unfold ST. rewrite !part2_row_end.
             replace (S (k * Nv + j)) with (k * Nv + S j) by lia. reflexivity.
        * exists s'. split; [exact E|]. rewrite Qs. now replace (k * Nv + Nv) with (S k * Nv) by lia.
      + rewrite E, Ps. unfold ST. cbv beta iota delta [bind]. unfold flatten4. cbn [n4_buf]. now rewrite !part2_end.
    - rewrite (full2_length mvec (Nu * Nv) Nw nt Hm), (full2_length rvec (Nu * Nv) Nw nt Hr),
        (full2_length cvec (Nu * Nv) Nw nt Hc), (full2_length dvec (Nu * Nv) Nw nt Hd).
      repeat (split; [reflexivity|]).
      intros k j i e Hk Hj Hi He pos. unfold pos.
      assert (Hx : k * Nv + j < Nu * Nv) by nia.
      rewrite (full2_nth mvec (Nu * Nv) Nw nt Hm), (full2_nth rvec (Nu * Nv) Nw nt Hr),
        (full2_nth cvec (Nu * Nv) Nw nt Hc), (full2_nth dvec (Nu * Nv) Nw nt Hd) by assumption.
      destruct (divmod_pair k j Nv Hj) as [Ed Em].
      unfold mvec, rvec, cvec, dvec. rewrite Ed, Em. repeat (split; [reflexivity|]).
      unfold trilinear_kernel, sum_axis1. now rewrite nth_map_seq0.
  Qed.

  (* ---------- the 3-tensor of the triplets, contracted with three vectors ---------- *)
  Lemma dense3_contract i0 i1 i2 data n0 n1 n2 :
    length i0 = length data -> length i1 = length data -> length i2 = length data ->
    (forall k, k < length data -> nth k i0 0 < n0) -> (forall k, k < length data -> nth k i1 0 < n1) ->
    (forall k, k < length data -> nth k i2 0 < n2) ->
    exists T, dense3 R rO radd i0 i1 i2 data n0 n1 n2 = Some T /\
      forall w v u, contract3 R rO radd rmul T w v u n0 n1 n2
                    = Sn (length data) (fun k => nth k data rO [*] w (nth k i0 0) [*] v (nth k i1 0) [*] u (nth k i2 0)).
  Proof.
    intros L0 L1 L2 H0 H1 H2. unfold dense3.
    rewrite L0, L1, L2, !Nat.eqb_refl.
    rewrite (forallb_nth_lt i0 n0) by (now rewrite L0). rewrite (forallb_nth_lt i1 n1) by (now rewrite L1).
    rewrite (forallb_nth_lt i2 n2) by (now rewrite L2).
    cbn [andb]. eexists. split; [reflexivity|]. intros w v u. unfold contract3.
    set (X := fun k a b c => nth k data rO [*] w a [*] v b [*] u c).
    transitivity (Sn n0 (fun a => Sn n1 (fun b => Sn n2 (fun c => Sn (length data) (fun k =>
        if nth k i0 0 =? a then (if nth k i1 0 =? b then (if nth k i2 0 =? c then X k a b c else rO) else rO) else rO))))).
    { apply sumn_ext. intros a Ha. apply sumn_ext. intros b Hb. apply sumn_ext. intros c Hc.
      rewrite nth_map_seq0 by assumption. rewrite nth_map_seq0 by assumption. rewrite nth_map_seq0 by assumption.
      rewrite <- !(sumn_scale_r R rO rI radd rmul rsub ropp Rth).
      apply sumn_ext. intros k Hk. unfold X.
      destruct (nth k i0 0 =? a); [destruct (nth k i1 0 =? b); [destruct (nth k i2 0 =? c)|]|]; ring. }
    transitivity (Sn (length data) (fun k => Sn n0 (fun a => Sn n1 (fun b => Sn n2 (fun c =>
        if nth k i0 0 =? a then (if nth k i1 0 =? b then (if nth k i2 0 =? c then X k a b c else rO) else rO) else rO))))).
    { transitivity (Sn n0 (fun a => Sn n1 (fun b => Sn (length data) (fun k => Sn n2 (fun c =>
        if nth k i0 0 =? a then (if nth k i1 0 =? b then (if nth k i2 0 =? c then X k a b c else rO) else rO) else rO))))).
      { apply sumn_ext. intros a _. apply sumn_ext. intros b _. apply (sumn_exchange R rO rI radd rmul rsub ropp Rth). }
      transitivity (Sn n0 (fun a => Sn (length data) (fun k => Sn n1 (fun b => Sn n2 (fun c =>
        if nth k i0 0 =? a then (if nth k i1 0 =? b then (if nth k i2 0 =? c then X k a b c else rO) else rO) else rO))))).
      { apply sumn_ext. intros a _. apply (sumn_exchange R rO rI radd rmul rsub ropp Rth). }
      apply (sumn_exchange R rO rI radd rmul rsub ropp Rth). }
    apply sumn_ext. intros k Hk.
    transitivity (Sn n0 (fun a => if nth k i0 0 =? a then X k a (nth k i1 0) (nth k i2 0) else rO)).
    { apply sumn_ext. intros a _. destruct (nth k i0 0 =? a).
      - transitivity (Sn n1 (fun b => if nth k i1 0 =? b then X k a b (nth k i2 0) else rO)).
        + apply sumn_ext. intros b _. destruct (nth k i1 0 =? b).
          * apply (sumn_delta R rO rI radd rmul rsub ropp Rth n2 (nth k i2 0) (fun c => X k a b c)). now apply H2.
          * apply (sumn_zero R rO rI radd rmul rsub ropp Rth).
        + apply (sumn_delta R rO rI radd rmul rsub ropp Rth n1 (nth k i1 0) (fun b => X k a b (nth k i2 0))). now apply H1.
      - rewrite (sumn_ext R rO radd _ _ (fun _ => rO)); [apply (sumn_zero R rO rI radd rmul rsub ropp Rth)|].
        intros b _. apply (sumn_zero R rO rI radd rmul rsub ropp Rth). }
    apply (sumn_delta R rO rI radd rmul rsub ropp Rth n0 (nth k i0 0) (fun a => X k a (nth k i1 0) (nth k i2 0))). now apply H0.
  Qed.

  Lemma sum5_reorder a b c d g (T : nat -> nat -> nat -> nat -> nat -> R) :
    Sn a (fun k => Sn b (fun j => Sn c (fun i => Sn d (fun e => Sn g (fun q => T k j i e q)))))
    = Sn d (fun e => Sn g (fun q => Sn a (fun k => Sn b (fun j => Sn c (fun i => T k j i e q))))).
  Proof.
    transitivity (Sn a (fun k => Sn d (fun e => Sn g (fun q => Sn b (fun j => Sn c (fun i => T k j i e q)))))).
    { apply sumn_ext. intros k _. apply (sum4_reorder R rO rI radd rmul rsub ropp Rth b c d g (fun j i e q => T k j i e q)). }
    rewrite (sumn_exchange R rO rI radd rmul rsub ropp Rth). apply sumn_ext. intros e _.
    apply (sumn_exchange R rO rI radd rmul rsub ropp Rth).
  Qed.

  Section Weak.
    Variable form : V -> V -> V -> W -> R.
    Hypothesis add_u : forall a b v w p, form (vadd a b) v w p = form a v w p [+] form b v w p.
    Hypothesis scale_u : forall s a v w p, form (vscale s a) v w p = s [*] form a v w p.
    Hypothesis add_v : forall u a b w p, form u (vadd a b) w p = form u a w p [+] form u b w p.
    Hypothesis scale_v : forall s u a w p, form u (vscale s a) w p = s [*] form u a w p.
    Hypothesis add_w : forall u v a b p, form u v (vadd a b) p = form u v a p [+] form u v b p.
    Hypothesis scale_w : forall s u v a p, form u v (vscale s a) p = s [*] form u v a p.

    Theorem trilinear_weak_form p (ub : basis) (vb0 wb0 : option basis) (u v w : nat -> R) :
      let vb := match vb0 with None => ub | Some b => b end in
      let wb := match wb0 with None => ub | Some b => b end in
      wf_basis ub -> wf_basis vb -> wf_basis wb -> bnelems vb = bnelems ub -> bnelems wb = bnelems ub ->
      exists c T,
        trilinear_assemble R rO radd rmul V W form p ub vb0 wb0 = Some c /\
        to_dense3 R rO radd c = Some T /\
        contract3 R rO radd rmul T w v u (bN wb) (bN vb) (bN ub)
        = integrate R rO radd rmul (bnelems ub) (bnq ub)
            (fun e q => form (interp ub u e q) (interp vb v e q) (interp wb w e q) (p e q)) (bdx ub).
    Proof.
      intros vb wb Hu Hv Hw Hntv Hntw.
      destruct (trilinear_assemble_entries form p ub vb0 wb0 Hu Hv Hw Hntv Hntw)
        as [mats [rows [cols [data [E [Lm [Lr [Lc [Ld Hent]]]]]]]]].
      fold vb in E, Lm, Lr, Lc, Ld, Hent. fold wb in E, Lm, Lr, Lc, Ld, Hent.
      set (Nu := bNbfun ub) in *. set (Nv := bNbfun vb) in *. set (Nw := bNbfun wb) in *. set (nt := bnelems ub) in *.
      assert (Hrange : forall x, x < Nu * Nv * Nw * nt -> exists k j i e, k < Nu /\ j < Nv /\ i < Nw /\ e < nt /\
                          x = ((k * Nv + j) * Nw + i) * nt + e).
      { intros x Hx. assert (0 < nt) by nia. assert (0 < Nw) by nia. assert (0 < Nv) by nia.
        exists (x / nt / Nw / Nv), ((x / nt / Nw) mod Nv), ((x / nt) mod Nw), (x mod nt).
        pose proof (Nat.div_mod x nt ltac:(lia)). pose proof (Nat.mod_upper_bound x nt ltac:(lia)).
        pose proof (Nat.div_mod (x / nt) Nw ltac:(lia)). pose proof (Nat.mod_upper_bound (x / nt) Nw ltac:(lia)).
        pose proof (Nat.div_mod (x / nt / Nw) Nv ltac:(lia)). pose proof (Nat.mod_upper_bound (x / nt / Nw) Nv ltac:(lia)).
        assert (x / nt < Nu * Nv * Nw) by (apply Nat.div_lt_upper_bound; nia).
        assert (x / nt / Nw < Nu * Nv) by (apply Nat.div_lt_upper_bound; nia).
        assert (x / nt / Nw / Nv < Nu) by (apply Nat.div_lt_upper_bound; nia).
        repeat split; try assumption. nia. }
      destruct (dense3_contract mats rows cols data (bN wb) (bN vb) (bN ub)) as [T [ET HT]].
      - now rewrite Lm, Ld.
      - now rewrite Lr, Ld.
      - now rewrite Lc, Ld.
      - intros x Hx. rewrite Ld in Hx. destruct (Hrange x Hx) as [k [j [i [e [Hk [Hj [Hi [He ->]]]]]]]].
        destruct (Hent k j i e Hk Hj Hi He) as [-> _]. destruct Hw as [_ Hw]. destruct (Hw i Hi) as [_ Hb]. apply Hb. now rewrite Hntw.
      - intros x Hx. rewrite Ld in Hx. destruct (Hrange x Hx) as [k [j [i [e [Hk [Hj [Hi [He ->]]]]]]]].
        destruct (Hent k j i e Hk Hj Hi He) as [_ [-> _]]. destruct Hv as [_ Hv]. destruct (Hv j Hj) as [_ Hb]. apply Hb. now rewrite Hntv.
      - intros x Hx. rewrite Ld in Hx. destruct (Hrange x Hx) as [k [j [i [e [Hk [Hj [Hi [He ->]]]]]]]].
        destruct (Hent k j i e Hk Hj Hi He) as [_ [_ [-> _]]]. destruct Hu as [_ Hu]. destruct (Hu k Hk) as [_ Hb]. now apply Hb.
      - exists (mkCoo [mats; rows; cols] data [bN wb; bN vb; bN ub] [Nw; Nv; Nu]), T.
        split; [exact E|]. split; [exact ET|]. rewrite HT, Ld.
        set (TT := fun k j i e q => u (nth e (element_dofs ub k) 0) [*] (v (nth e (element_dofs vb j) 0) [*]
                     (w (nth e (element_dofs wb i) 0) [*] (form (bB ub k e q) (bB vb j e q) (bB wb i e q) (p e q) [*] bdx ub e q)))).
        transitivity (Sn Nu (fun k => Sn Nv (fun j => Sn Nw (fun i => Sn nt (fun e => Sn (bnq ub) (fun q => TT k j i e q)))))).
        { rewrite (sumn_prod R rO rI radd rmul rsub ropp Rth (Nu * Nv * Nw) nt).
          rewrite (sumn_prod R rO rI radd rmul rsub ropp Rth (Nu * Nv) Nw).
          rewrite (sumn_prod R rO rI radd rmul rsub ropp Rth Nu Nv).
          apply sumn_ext. intros k Hk. apply sumn_ext. intros j Hj. apply sumn_ext. intros i Hi. apply sumn_ext. intros e He.
          destruct (Hent k j i e Hk Hj Hi He) as [-> [-> [-> ->]]]. unfold Kkjie.
          rewrite <- !(sumn_scale_r R rO rI radd rmul rsub ropp Rth).
          apply sumn_ext. intros q _. unfold TT. ring. }
        rewrite sum5_reorder. unfold integrate.
        apply sumn_ext. intros e He. apply sumn_ext. intros q Hq.
        rewrite (interp_linear R rO rI radd rmul rsub ropp Rth V vadd vscale
                   (fun a => form a (interp vb v e q) (interp wb w e q) (p e q)) ub u e q)
          by (intros; first [apply add_u | apply scale_u]).
        rewrite <- (sumn_scale_r R rO rI radd rmul rsub ropp Rth).
        apply sumn_ext. intros k Hk.
        rewrite (interp_linear R rO rI radd rmul rsub ropp Rth V vadd vscale
                   (fun a => form (bB ub k e q) a (interp wb w e q) (p e q)) vb v e q)
          by (intros; first [apply add_v | apply scale_v]).
        fold Nv. rewrite <- (sumn_scale_l R rO rI radd rmul rsub ropp Rth), <- (sumn_scale_r R rO rI radd rmul rsub ropp Rth).
        apply sumn_ext. intros j Hj.
        rewrite (interp_linear R rO rI radd rmul rsub ropp Rth V vadd vscale
                   (fun a => form (bB ub k e q) (bB vb j e q) a (p e q)) wb w e q)
          by (intros; first [apply add_w | apply scale_w]).
        fold Nw. rewrite <- !(sumn_scale_l R rO rI radd rmul rsub ropp Rth), <- (sumn_scale_r R rO rI radd rmul rsub ropp Rth).
        apply sumn_ext. intros i Hi. unfold TT. ring.
    Qed.
  End Weak.
End TriProofs.
