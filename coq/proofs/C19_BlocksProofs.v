(* C19 — proofs about Model.C19_Blocks, part 1: COOData algebra, local matrices, dot, bmat offsets,
   ElementVector decoding. *)
From Coq Require Import List Arith Bool Lia Ring Ring_theory.
Import ListNotations.
Require Import Base.C01_Sums Model.C01_Assembly Proofs.C01_AssemblyProofs Model.C19_Blocks.

(* ====================================================================== ElementVector decoding *)
Theorem vector_decode_spec dim i : 0 < dim ->
  let '(ind, n) := vector_decode dim i in ind = i / dim /\ n = i mod dim /\ n < dim /\ vector_encode dim (ind, n) = i.
Proof.
  intros Hd. unfold vector_decode, vector_encode. cbn [fst snd].
  pose proof (Nat.div_mod i dim ltac:(lia)) as E. pose proof (Nat.mod_upper_bound i dim ltac:(lia)) as U.
  repeat split; nia.
Qed.

Theorem vector_encode_decode dim ind n : n < dim -> vector_decode dim (vector_encode dim (ind, n)) = (ind, n).
Proof.
  intros Hn. unfold vector_decode, vector_encode. cbn [fst snd].
  assert (E : (ind * dim + n) / dim = ind).
  { rewrite Nat.div_add_l by lia. rewrite Nat.div_small by lia. lia. }
  rewrite E. f_equal. nia.
Qed.

Theorem vector_decode_range dim Nb i : 0 < dim -> (i < Nb * dim <-> fst (vector_decode dim i) < Nb).
Proof.
  intros Hd. unfold vector_decode. cbn [fst].
  pose proof (Nat.div_mod i dim ltac:(lia)). pose proof (Nat.mod_upper_bound i dim ltac:(lia)).
  split; intros Hlt.
  - apply Nat.div_lt_upper_bound; lia.
  - nia.
Qed.

(* ====================================================================== bmat block offsets *)
Lemma bmat_fold_fixed : forall ws sizes acc,
  fst (fold_left (fun (st : list nat * nat) w => let '(sizes, diff) := st in
                    let s := w + diff in (sizes ++ [s], s)) ws (sizes, acc))
  = sizes ++ (fix go (a : nat) (l : list nat) := match l with [] => [] | w :: r => (w + a) :: go (w + a) r end) acc ws.
Proof.
  induction ws as [|w ws IH]; intros sizes acc; simpl.
  - now rewrite app_nil_r.
  - rewrite IH. now rewrite <- app_assoc.
Qed.

Lemma prefix_sums_from_firstn : forall ws acc,
  prefix_sums_from acc ws
  = (fix go (a : nat) (l : list nat) := match l with [] => [] | w :: r => (w + a) :: go (w + a) r end)
      acc (firstn (length ws - 1) ws).
Proof.
  induction ws as [|w ws IH]; intros acc; [reflexivity|].
  destruct ws as [|w2 ws']; [reflexivity|].
  change (prefix_sums_from acc (w :: w2 :: ws')) with ((acc + w) :: prefix_sums_from (acc + w) (w2 :: ws')).
  rewrite IH. simpl length. replace (S (S (length ws')) - 1) with (S (length (w2 :: ws') - 1)) by (simpl; lia).
  cbn [firstn]. replace (w + acc) with (acc + w) by lia. reflexivity.
Qed.

Theorem bmat_blocks_fixed_spec : forall widths, bmat_blocks_with (fun _ s => s) widths = prefix_sums widths.
Proof.
  intros widths. unfold bmat_blocks_with, prefix_sums. rewrite bmat_fold_fixed. simpl.
  symmetry. apply prefix_sums_from_firstn.
Qed.

Theorem bmat_blocks_accum_small : forall widths, length widths <= 3 ->
  bmat_blocks_with (fun d s => d + s) widths = prefix_sums widths.
Proof.
  intros [|a [|b [|c [|d rest]]]] H; simpl in H; try lia; unfold bmat_blocks_with, prefix_sums; simpl;
    repeat (first [reflexivity | apply (f_equal2 (@cons nat)); [lia|]]).
Qed.

Theorem bmat_blocks_accum_refuted : exists widths, bmat_blocks_with (fun d s => d + s) widths <> prefix_sums widths.
Proof. exists [2; 3; 4; 5]. vm_compute. discriminate. Qed.

(* ====================================================================== COOData *)
Section CooProofs.
  Variable R : Type.
  Variables (rO rI : R) (radd rmul rsub : R -> R -> R) (ropp : R -> R).
  Variable Rth : ring_theory rO rI radd rmul rsub ropp (@eq R).
  Add Ring RingC19Coo : Rth.
  Notation "a [+] b" := (radd a b) (at level 50, left associativity).
  Notation "a [*] b" := (rmul a b) (at level 40, left associativity).
  Notation Sn := (sumn rO radd).

  (* entry (r, c) of the dense matrix of a triplet list *)
  Definition entry (rows cols : list nat) (data : list R) (r c : nat) : R :=
    Sn (length data) (fun k => if nth k rows 0 =? r then if nth k cols 0 =? c then nth k data rO else rO else rO).

  Lemma dense2_entry rows cols data nr nc A r c :
    dense2 R rO radd rows cols data nr nc = Some A -> r < nr -> c < nc ->
    nth c (nth r A []) rO = entry rows cols data r c.
  Proof.
    unfold dense2. destruct (_ && _); [|discriminate]. intros E Hr Hc. inversion E; subst A; clear E.
    rewrite nth_map_seq0 by assumption. rewrite nth_map_seq0 by assumption. reflexivity.
  Qed.

  Lemma entry_app r1 c1 d1 r2 c2 d2 r c :
    length r1 = length d1 -> length c1 = length d1 ->
    entry (r1 ++ r2) (c1 ++ c2) (d1 ++ d2) r c = entry r1 c1 d1 r c [+] entry r2 c2 d2 r c.
  Proof.
    intros L1 L2. unfold entry. rewrite app_length.
    rewrite (sumn_split R rO rI radd rmul rsub ropp Rth). f_equal.
    - apply sumn_ext. intros k Hk. rewrite !app_nth1 by lia. reflexivity.
    - apply sumn_ext. intros k Hk. rewrite !app_nth2 by lia.
      replace (length d1 + k - length r1) with k by lia. replace (length d1 + k - length c1) with k by lia.
      replace (length d1 + k - length d1) with k by lia. reflexivity.
  Qed.

  Lemma forallb_app_true {A} (p : A -> bool) l1 l2 : forallb p (l1 ++ l2) = forallb p l1 && forallb p l2.
  Proof. apply forallb_app. Qed.

  (* to_dense(a + b) = to_dense a + to_dense b  (same global shape) *)
  Theorem coo_add_dense (a b : coo R) nr nc A B :
    c_shape a = [nr; nc] -> c_shape b = [nr; nc] -> length (c_indices a) = 2 -> length (c_indices b) = 2 ->
    to_dense2 R rO radd a = Some A -> to_dense2 R rO radd b = Some B ->
    exists C, to_dense2 R rO radd (coo_add R a b) = Some C /\
      c_shape (coo_add R a b) = [nr; nc] /\ length (c_indices (coo_add R a b)) = 2 /\
      forall r c, r < nr -> c < nc -> nth c (nth r C []) rO = nth c (nth r A []) rO [+] nth c (nth r B []) rO.
  Proof.
    intros Sa Sb La Lb Ea Eb.
    destruct a as [ia da sa la]. destruct b as [ib db sb lb]. cbn [c_shape c_indices c_data] in *. subst sa sb.
    destruct ia as [|ra [|ca [|x ia]]]; try discriminate. destruct ib as [|rb [|cb [|y ib]]]; try discriminate.
    unfold to_dense2 in *. cbn [c_shape c_indices c_data coo_add map2 nth] in *.
    rewrite !Nat.max_id.
    assert (Ha := Ea). assert (Hb := Eb). unfold dense2 in Ha, Hb.
    destruct ((length ra =? length da) && (length ca =? length da) && forallb (fun r => r <? nr) ra
              && forallb (fun c => c <? nc) ca) eqn:Ga; [|discriminate].
    destruct ((length rb =? length db) && (length cb =? length db) && forallb (fun r => r <? nr) rb
              && forallb (fun c => c <? nc) cb) eqn:Gb; [|discriminate].
    apply andb_true_iff in Ga. destruct Ga as [Ga Ga4]. apply andb_true_iff in Ga. destruct Ga as [Ga Ga3].
    apply andb_true_iff in Ga. destruct Ga as [Ga1 Ga2].
    apply andb_true_iff in Gb. destruct Gb as [Gb Gb4]. apply andb_true_iff in Gb. destruct Gb as [Gb Gb3].
    apply andb_true_iff in Gb. destruct Gb as [Gb1 Gb2].
    apply Nat.eqb_eq in Ga1, Ga2, Gb1, Gb2.
    assert (G : dense2 R rO radd (ra ++ rb) (ca ++ cb) (da ++ db) nr nc <> None).
    { unfold dense2. rewrite !app_length, Ga1, Ga2, Gb1, Gb2, !Nat.eqb_refl, !forallb_app, Ga3, Ga4, Gb3, Gb4.
      discriminate. }
    destruct (dense2 R rO radd (ra ++ rb) (ca ++ cb) (da ++ db) nr nc) as [C|] eqn:EC; [|contradiction].
    exists C. split; [reflexivity|]. split; [reflexivity|]. split; [reflexivity|].
    intros r c Hr Hc.
    rewrite (dense2_entry _ _ _ _ _ _ r c EC Hr Hc), (dense2_entry _ _ _ _ _ _ r c Ea Hr Hc),
      (dense2_entry _ _ _ _ _ _ r c Eb Hr Hc).
    now apply entry_app.
  Qed.

  (* ---- local matrices *)
  Lemma tolocal_F_spec data n0 n1 L : tolocal_F R rO data [n0; n1] = Some L -> 0 < n0 * n1 ->
    let nt := length data / (n0 * n1) in
    length L = nt /\ nt * (n0 * n1) = length data /\
    forall e i j, e < nt -> i < n0 -> j < n1 -> loc3 R rO L e i j = nth (e + nt * (i + n0 * j)) data rO.
  Proof.
    unfold tolocal_F. intros E Hm. destruct (Nat.eqb_spec (n0 * n1) 0) as [Z|_]; [lia|].
    destruct (Nat.eqb_spec (length data / (n0 * n1) * (n0 * n1)) (length data)) as [Hd|]; [|discriminate].
    inversion E; subst L; clear E. cbv zeta. split; [now rewrite map_length, seq_length|]. split; [exact Hd|].
    intros e i j He Hi Hj. unfold loc3.
    rewrite (nth_indep _ [] (map (fun i0 => map (fun j0 => nth (e + length data / (n0 * n1) * (i0 + n0 * j0)) data rO) (seq 0 n1)) (seq 0 n0)))
      by (rewrite map_length, seq_length; lia).
    rewrite nth_map_seq0 by assumption.
    rewrite (nth_indep _ [] (map (fun j0 => nth (e + length data / (n0 * n1) * (i + n0 * j0)) data rO) (seq 0 n1)))
      by (rewrite map_length, seq_length; lia).
    rewrite nth_map_seq0 by assumption. now rewrite nth_map_seq0.
  Qed.

  Lemma tolocal_Cmove_spec data n0 n1 L : tolocal_Cmove R rO data [n0; n1] = Some L -> 0 < n0 * n1 ->
    let nt := length data / (n0 * n1) in
    length L = nt /\ nt * (n0 * n1) = length data /\
    forall e i j, e < nt -> i < n0 -> j < n1 -> loc3 R rO L e i j = nth ((i * n1 + j) * nt + e) data rO.
  Proof.
    unfold tolocal_Cmove. intros E Hm. destruct (Nat.eqb_spec (n0 * n1) 0) as [Z|_]; [lia|].
    destruct (Nat.eqb_spec (length data / (n0 * n1) * (n0 * n1)) (length data)) as [Hd|]; [|discriminate].
    inversion E; subst L; clear E. cbv zeta. split; [now rewrite map_length, seq_length|]. split; [exact Hd|].
    intros e i j He Hi Hj. unfold loc3.
    rewrite (nth_indep _ [] (map (fun i0 => map (fun j0 => nth ((i0 * n1 + j0) * (length data / (n0 * n1)) + e) data rO) (seq 0 n1)) (seq 0 n0)))
      by (rewrite map_length, seq_length; lia).
    rewrite nth_map_seq0 by assumption.
    rewrite (nth_indep _ [] (map (fun j0 => nth ((i * n1 + j0) * (length data / (n0 * n1)) + e) data rO) (seq 0 n1)))
      by (rewrite map_length, seq_length; lia).
    rewrite nth_map_seq0 by assumption. now rewrite nth_map_seq0.
  Qed.

  Lemma list_ext_nth (l1 l2 : list R) : length l1 = length l2 ->
    (forall k, k < length l1 -> nth k l1 rO = nth k l2 rO) -> l1 = l2.
  Proof. intros HL H. apply (nth_ext l1 l2 rO rO HL H). Qed.

  (* fromlocal(tolocal c) = c *)
  Theorem fromlocal_tolocal_F data n0 n1 L : 0 < n0 * n1 -> tolocal_F R rO data [n0; n1] = Some L ->
    fromlocal_F R rO L (length data / (n0 * n1)) n0 n1 = data.
  Proof.
    intros Hm E. destruct (tolocal_F_spec data n0 n1 L E Hm) as [HL [Hd Hloc]].
    set (nt := length data / (n0 * n1)) in *.
    apply list_ext_nth.
    - unfold fromlocal_F. rewrite map_length, seq_length. lia.
    - intros k Hk. unfold fromlocal_F in *. rewrite map_length, seq_length in Hk.
      rewrite nth_map_seq0 by assumption.
      assert (0 < nt) by nia. assert (0 < n0) by nia.
      pose proof (Nat.div_mod k nt ltac:(lia)). pose proof (Nat.mod_upper_bound k nt ltac:(lia)).
      pose proof (Nat.div_mod (k / nt) n0 ltac:(lia)). pose proof (Nat.mod_upper_bound (k / nt) n0 ltac:(lia)).
      assert (Hdd : k / (nt * n0) = k / nt / n0) by (now rewrite Nat.div_div by lia).
      assert (k / nt < n0 * n1) by (apply Nat.div_lt_upper_bound; nia).
      assert (k / nt / n0 < n1) by (apply Nat.div_lt_upper_bound; nia).
      rewrite Hloc by (try assumption; rewrite Hdd; assumption).
      f_equal. rewrite Hdd. nia.
  Qed.

  Theorem fromlocal_tolocal_Cmove data n0 n1 L : 0 < n0 * n1 -> tolocal_Cmove R rO data [n0; n1] = Some L ->
    fromlocal_Cmove R rO L (length data / (n0 * n1)) n0 n1 = data.
  Proof.
    intros Hm E. destruct (tolocal_Cmove_spec data n0 n1 L E Hm) as [HL [Hd Hloc]].
    set (nt := length data / (n0 * n1)) in *.
    apply list_ext_nth.
    - unfold fromlocal_Cmove. rewrite map_length, seq_length. lia.
    - intros k Hk. unfold fromlocal_Cmove in *. rewrite map_length, seq_length in Hk.
      rewrite nth_map_seq0 by assumption.
      assert (0 < nt) by nia. assert (0 < n1) by nia.
      pose proof (Nat.div_mod k nt ltac:(lia)). pose proof (Nat.mod_upper_bound k nt ltac:(lia)).
      pose proof (Nat.div_mod (k / nt) n1 ltac:(lia)). pose proof (Nat.mod_upper_bound (k / nt) n1 ltac:(lia)).
      assert (k / nt < n0 * n1) by (apply Nat.div_lt_upper_bound; nia).
      assert (k / nt / n1 < n0) by (apply Nat.div_lt_upper_bound; nia).
      rewrite Hloc by assumption.
      f_equal. nia.
  Qed.

  (* ---- dot: the matrix-vector product of the assembled (dense) matrix, with the D entries kept *)
  Lemma set_nth_length {A} k (v : A) l : length (set_nth k v l) = length l.
  Proof.
    unfold set_nth. destruct (Nat.ltb_spec k (length l)); [|reflexivity].
    rewrite app_length, firstn_length.
    change (length (v :: skipn (S k) l)) with (S (length (skipn (S k) l))). rewrite skipn_length. lia.
  Qed.

  Lemma nth_firstn_lt' {A} : forall k (l : list A) m d, m < k -> nth m (firstn k l) d = nth m l d.
  Proof.
    induction k as [|k IH]; intros l m d H; [lia|]. destruct l as [|x l]; [reflexivity|].
    destruct m as [|m]; [reflexivity|]. simpl. apply IH. lia.
  Qed.

  Lemma nth_skipn' {A} : forall k (l : list A) p d, nth p (skipn k l) d = nth (k + p) l d.
  Proof.
    induction k as [|k IH]; intros l p d; [reflexivity|]. destruct l as [|x l]; [now destruct p|]. simpl. apply IH.
  Qed.

  Lemma set_nth_nth {A} k (v : A) l d m : k < length l ->
    nth m (set_nth k v l) d = if m =? k then v else nth m l d.
  Proof.
    intros Hk. unfold set_nth. destruct (Nat.ltb_spec k (length l)); [|lia].
    destruct (Nat.eqb_spec m k) as [->|Hne].
    - rewrite app_nth2 by (rewrite firstn_length; lia). rewrite firstn_length, Nat.min_l by lia.
      now rewrite Nat.sub_diag.
    - destruct (Nat.lt_ge_cases m k).
      + rewrite app_nth1 by (rewrite firstn_length; lia). apply nth_firstn_lt'. assumption.
      + rewrite app_nth2 by (rewrite firstn_length; lia). rewrite firstn_length, Nat.min_l by lia.
        destruct (m - k) as [|p] eqn:Ep; [lia|]. cbn [nth]. rewrite nth_skipn'. f_equal. lia.
  Qed.

  (* rectangular: data of shape (nr, nc), x of length nc, result of length nr *)
  Theorem coo_dot_n_spec (c : coo R) (x : list R) nr nc A z :
    c_shape c = [nr; nc] -> length x = nc -> to_dense2 R rO radd c = Some A -> coo_dot_n R rO radd rmul nr c x [] = Some z ->
    z = matvec R rO radd rmul A x.
  Proof.
    intros Sc Lx EA Ez. unfold to_dense2 in EA. rewrite Sc in EA. unfold coo_dot_n in Ez.
    destruct (_ && _) in Ez; [|discriminate]. simpl in Ez. inversion Ez; subst z; clear Ez.
    assert (HA := EA). unfold dense2 in HA. destruct (_ && _) in HA; [|discriminate].
    inversion HA; subst A; clear HA. unfold matvec. rewrite map_map. rewrite Lx.
    apply map_ext_in. intros r Hr. apply in_seq in Hr.
    transitivity (Sn nc (fun cc => Sn (length (c_data c)) (fun k =>
       if nth k (nth 0 (c_indices c) []) 0 =? r then
         (if nth k (nth 1 (c_indices c) []) 0 =? cc then nth k (c_data c) rO [*] nth cc x rO else rO) else rO))).
    - rewrite (sumn_exchange R rO rI radd rmul rsub ropp Rth). apply sumn_ext. intros k Hk.
      destruct (nth k (nth 0 (c_indices c) []) 0 =? r).
      + destruct (Nat.lt_ge_cases (nth k (nth 1 (c_indices c) []) 0) nc) as [Hc|Hc].
        * symmetry. apply (sumn_delta R rO rI radd rmul rsub ropp Rth nc _
                            (fun cc => nth k (c_data c) rO [*] nth cc x rO) Hc).
        * rewrite (nth_overflow x) by lia.
          rewrite (sumn_delta_out R rO rI radd rmul rsub ropp Rth nc _
                     (fun cc => nth k (c_data c) rO [*] nth cc x rO) Hc). ring.
      + symmetry. apply (sumn_zero R rO rI radd rmul rsub ropp Rth).
    - apply sumn_ext. intros cc Hcc. rewrite nth_map_seq0 by assumption.
      rewrite <- (sumn_scale_r R rO rI radd rmul rsub ropp Rth). apply sumn_ext. intros k Hk.
      destruct (_ =? r); [destruct (_ =? cc)|]; ring.
  Qed.

  Theorem coo_dot_spec (c : coo R) (x : list R) n A z :
    c_shape c = [n; n] -> length x = n -> to_dense2 R rO radd c = Some A -> coo_dot R rO radd rmul c x [] = Some z ->
    z = matvec R rO radd rmul A x.
  Proof. intros Sc Lx EA Ez. unfold coo_dot in Ez. rewrite Lx in Ez. exact (coo_dot_n_spec c x n n A z Sc Lx EA Ez). Qed.

  (* ---- the local matrices of an assembled bilinear form: with data laid out as BilinearForm._assemble does
     (position (j*Nv+i)*nt+e holds K j i e) and the declared local shape (Nv, Nu), the F-order reshape returns
     L[e][i][j] = K j i e : row = test function, column = trial function, like the global matrix *)
  Theorem tolocal_F_entries (data : list R) Nu Nv nt (K : nat -> nat -> nat -> R) :
    length data = Nu * Nv * nt -> 0 < Nu * Nv ->
    (forall j i e, j < Nu -> i < Nv -> e < nt -> nth ((j * Nv + i) * nt + e) data rO = K j i e) ->
    exists L, tolocal_F R rO data [Nv; Nu] = Some L /\ length L = nt /\
      forall e i j, e < nt -> i < Nv -> j < Nu -> loc3 R rO L e i j = K j i e.
  Proof.
    intros Hd Hm HK.
    assert (Hnt : length data / (Nv * Nu) = nt).
    { rewrite Hd. replace (Nu * Nv * nt) with (nt * (Nv * Nu)) by lia. apply Nat.div_mul. lia. }
    assert (G : tolocal_F R rO data [Nv; Nu] <> None).
    { unfold tolocal_F. destruct (Nat.eqb_spec (Nv * Nu) 0); [lia|]. rewrite Hnt.
      destruct (Nat.eqb_spec (nt * (Nv * Nu)) (length data)); [discriminate | lia]. }
    destruct (tolocal_F R rO data [Nv; Nu]) as [L|] eqn:E; [|contradiction].
    exists L. split; [reflexivity|].
    destruct (tolocal_F_spec data Nv Nu L E ltac:(lia)) as [HL [_ Hloc]]. rewrite Hnt in *.
    split; [exact HL|]. intros e i j He Hi Hj. rewrite Hloc by assumption.
    replace (e + nt * (i + Nv * j)) with ((j * Nv + i) * nt + e) by nia. now apply HK.
  Qed.

  (* the moveaxis / C-order variant of the pinned tree does NOT have this property: already for a square local
     matrix Nu = Nv = 2 on one cell it returns the transpose (and for Nu <> Nv a scrambled matrix) *)
  Lemma tolocal_Cmove_transposes (a b c d : R) : b <> c ->
    exists L, tolocal_Cmove R rO [a; b; c; d] [2; 2] = Some L /\
              loc3 R rO L 0 0 1 <> nth ((1 * 2 + 0) * 1 + 0) [a; b; c; d] rO.
  Proof. intros H. eexists. split; [reflexivity|]. cbn. exact H. Qed.

  (* ---- asm over lists of bases: the dense matrix of the sum is the sum of the dense matrices *)
  Definition dentry (x : coo R) (r c : nat) : R :=
    match to_dense2 R rO radd x with Some A => nth c (nth r A []) rO | None => rO end.

  Definition good (nr nc : nat) (x : coo R) : Prop :=
    c_shape x = [nr; nc] /\ length (c_indices x) = 2 /\ to_dense2 R rO radd x <> None.

  Lemma coo_add_good nr nc a b : good nr nc a -> good nr nc b ->
    good nr nc (coo_add R a b) /\
    forall r c, r < nr -> c < nc -> dentry (coo_add R a b) r c = dentry a r c [+] dentry b r c.
  Proof.
    intros [Sa [La Da]] [Sb [Lb Db]].
    destruct (to_dense2 R rO radd a) as [A|] eqn:EA; [|contradiction].
    destruct (to_dense2 R rO radd b) as [B|] eqn:EB; [|contradiction].
    destruct (coo_add_dense a b nr nc A B Sa Sb La Lb EA EB) as [C [EC [SC [LC HC]]]].
    split.
    - split; [exact SC|]. split; [exact LC|]. rewrite EC. discriminate.
    - intros r c Hr Hc. unfold dentry. rewrite EC, EA, EB. now apply HC.
  Qed.

  Theorem coo_sum_dense nr nc : forall (l : list (coo R)) (c0 : coo R),
    good nr nc c0 -> Forall (good nr nc) l ->
    good nr nc (fold_left (coo_add R) l c0) /\
    forall r c, r < nr -> c < nc ->
      dentry (fold_left (coo_add R) l c0) r c = dentry c0 r c [+] sum_over rO radd l (fun x => dentry x r c).
  Proof.
    induction l as [|x l IH]; intros c0 G0 Gl.
    - split; [exact G0|]. intros. unfold sum_over. simpl. ring.
    - inversion Gl as [|? ? Gx Gl']; subst. destruct (coo_add_good nr nc c0 x G0 Gx) as [G1 H1].
      destruct (IH (coo_add R c0 x) G1 Gl') as [G2 H2]. split; [exact G2|].
      intros r c Hr Hc. simpl. rewrite H2, H1 by assumption. unfold sum_over. simpl. ring.
  Qed.
End CooProofs.
