(* C12 — lemmas about the uniform-refinement model that do not depend on the generated templates:
   index structure of the new connectivity (all mesh sizes), tag propagation, coordinates. *)
From Coq Require Import List Arith Bool Lia ZArith QArith.
Import ListNotations.
Require Import Model.C12_Refine.
Local Open Scope nat_scope.

(* ------------------------------------------------------------------ list helpers *)
Lemma nth_concat_at {A} (d : A) (L : list (list A)) :
  forall b k, k < length (nth b L []) ->
    nth (length (concat (firstn b L)) + k) (concat L) d = nth k (nth b L []) d.
Proof.
  induction L as [|l L IH]; intros b k Hk.
  - destruct b; simpl in Hk; lia.
  - destruct b as [|b]; simpl in *.
    + now rewrite app_nth1.
    + rewrite app_length, <- Nat.add_assoc, app_nth2 by lia.
      replace (length l + (length (concat (firstn b L)) + k) - length l)
        with (length (concat (firstn b L)) + k) by lia.
      now apply IH.
Qed.

Lemma length_concat_uniform {A} (n : nat) (L : list (list A)) :
  (forall l, In l L -> length l = n) -> length (concat L) = length L * n.
Proof.
  induction L as [|l L IH]; intros H; simpl; [reflexivity|].
  rewrite app_length, IH.
  - rewrite (H l) by (simpl; auto). lia.
  - intros l' Hl'. apply H. now right.
Qed.

Lemma firstn_In {A} (x : A) n l : In x (firstn n l) -> In x l.
Proof.
  revert l; induction n as [|n IH]; intros [|y l] H; simpl in *; try contradiction.
  destruct H as [H|H]; [now left | right; now apply IH].
Qed.

Lemma nth_concat_uniform {A} (d : A) (n : nat) (L : list (list A)) :
  (forall l, In l L -> length l = n) ->
  forall j k, j < length L -> k < n -> nth (k + j * n) (concat L) d = nth k (nth j L []) d.
Proof.
  intros H j k Hj Hk.
  assert (Hlen : length (concat (firstn j L)) = j * n).
  { rewrite (length_concat_uniform n).
    - rewrite firstn_length. f_equal. lia.
    - intros l Hl. apply H. eapply firstn_In; eauto. }
  rewrite Nat.add_comm, <- Hlen. apply nth_concat_at.
  rewrite (H (nth j L [])); [exact Hk | now apply nth_In].
Qed.

Lemma nth_map' {A B} (f : A -> B) (l : list A) (dA : A) (dB : B) k :
  k < length l -> nth k (map f l) dB = f (nth k l dA).
Proof.
  revert k; induction l as [|x l IH]; intros [|k] H; simpl in *; try lia; auto.
  apply IH. lia.
Qed.

(* ------------------------------------------------------------------ block layout: child j of cell k *)
Lemma block_length o cs tpl : length (block o cs tpl) = length cs.
Proof. unfold block. now rewrite map_length. Qed.

Theorem refine_t_length o tpls cs : length (refine_t o tpls cs) = length tpls * length cs.
Proof.
  unfold refine_t. rewrite (length_concat_uniform (length cs)).
  - now rewrite map_length.
  - intros l Hl. apply in_map_iff in Hl. destruct Hl as [tpl [<- _]]. apply block_length.
Qed.

(* the cell with index k + j*nt of the refined mesh is child j of cell k (generic fallback of Mesh.refined) *)
Theorem refine_t_nth o tpls cs j k dT dc :
  j < length tpls -> k < length cs ->
  nth (fallback_index (length cs) j k) (refine_t o tpls cs) [] = child o (nth k cs dc) (nth j tpls dT).
Proof.
  intros Hj Hk. unfold fallback_index, refine_t.
  rewrite (nth_concat_uniform [] (length cs)).
  - rewrite (nth_map' (block o cs) tpls dT []) by exact Hj.
    unfold block. now rewrite (nth_map' _ cs dc []) by exact Hk.
  - intros l Hl. apply in_map_iff in Hl. destruct Hl as [tpl [<- _]]. apply block_length.
  - now rewrite map_length.
  - exact Hk.
Qed.

(* ------------------------------------------------------------------ interleaved layout (MeshLine1) *)
Lemma flat_map_uniform_nth {A B} (f : A -> list B) (n : nat) (l : list A) (dA : A) (dB : B) :
  (forall x, length (f x) = n) ->
  forall k j, k < length l -> j < n -> nth (n * k + j) (flat_map f l) dB = nth j (f (nth k l dA)) dB.
Proof.
  intros Hf. induction l as [|x l IH]; intros k j Hk Hj; simpl in *; [lia|].
  destruct k as [|k].
  - rewrite Nat.mul_0_r. simpl. rewrite app_nth1; [reflexivity | rewrite Hf; exact Hj].
  - rewrite app_nth2 by (rewrite Hf; lia). rewrite Hf.
    replace (n * S k + j - n) with (n * k + j) by lia. apply IH; lia.
Qed.

Theorem refine_t_interleaved_length o tpls cs :
  length (refine_t_interleaved o tpls cs) = length tpls * length cs.
Proof.
  unfold refine_t_interleaved. induction cs as [|c cs IH]; simpl; [lia|].
  rewrite app_length, map_length, IH. lia.
Qed.

Theorem refine_t_interleaved_nth o tpls cs j k dT dc :
  j < length tpls -> k < length cs ->
  nth (interleaved_index (length tpls) j k) (refine_t_interleaved o tpls cs) []
  = child o (nth k cs dc) (nth j tpls dT).
Proof.
  intros Hj Hk. unfold interleaved_index, refine_t_interleaved.
  rewrite (flat_map_uniform_nth _ (length tpls) cs dc []); try assumption.
  - now rewrite (nth_map' _ tpls dT []) by exact Hj.
  - intros x. now rewrite map_length.
Qed.

(* ------------------------------------------------------------------ tag propagation *)
Lemma insert_nat_In x y l : In y (insert_nat x l) <-> y = x \/ In y l.
Proof.
  induction l as [|z l IH]; simpl; [intuition|].
  destruct (x <=? z); simpl; [intuition|]. rewrite IH. intuition.
Qed.

Lemma sort_nat_In y l : In y (sort_nat l) <-> In y l.
Proof.
  induction l as [|x l IH]; simpl; [reflexivity|].
  rewrite insert_nat_In, IH. intuition.
Qed.

Lemma sort_nat_length l : length (sort_nat l) = length l.
Proof.
  induction l as [|x l IH]; simpl; [reflexivity|].
  rewrite <- IH. generalize (sort_nat l). intros s. induction s as [|z s IHs]; simpl; [reflexivity|].
  destruct (x <=? z); simpl; auto.
Qed.

(* the propagated tag is exactly the set of the N children of the tagged cells *)
Theorem propagate_spec idx N ixs c :
  In c (propagate idx N ixs) <-> exists j k, j < N /\ In k ixs /\ c = idx j k.
Proof.
  unfold propagate. rewrite sort_nat_In, in_flat_map. split.
  - intros [j [Hj Hc]]. apply in_seq in Hj. apply in_map_iff in Hc. destruct Hc as [k [<- Hk]].
    exists j, k. repeat split; auto; lia.
  - intros [j [k [Hj [Hk ->]]]]. exists j. split; [apply in_seq; lia | now apply in_map].
Qed.

Theorem propagate_length idx N ixs : length (propagate idx N ixs) = N * length ixs.
Proof.
  unfold propagate. rewrite sort_nat_length.
  assert (H : forall s, length (flat_map (fun j => map (idx j) ixs) s) = length s * length ixs).
  { induction s as [|j s IHs]; simpl; [reflexivity|]. rewrite app_length, map_length, IHs. lia. }
  rewrite H, seq_length. reflexivity.
Qed.

(* ------------------------------------------------------------------ contexts *)
Lemma mk_ctxs_from_length k t t2e t2f : length (mk_ctxs_from k t t2e t2f) = length t.
Proof. revert k t2e t2f; induction t as [|v t IH]; intros; simpl; auto. Qed.

Lemma mk_ctxs_length t t2e t2f : length (mk_ctxs t t2e t2f) = length t.
Proof. apply mk_ctxs_from_length. Qed.

Lemma mk_ctxs_from_nth k0 t t2e t2f k d :
  k < length t ->
  let c := nth k (mk_ctxs_from k0 t t2e t2f) d in
  cv c = nth k t [] /\ ce c = nth k t2e [] /\ cf c = nth k t2f [] /\ ck c = k0 + k.
Proof.
  revert k0 t2e t2f k; induction t as [|v t IH]; intros k0 t2e t2f k Hk; simpl in Hk; [lia|].
  destruct k as [|k]; simpl.
  - repeat split; try lia; [destruct t2e | destruct t2f]; reflexivity.
  - specialize (IH (S k0) (tl t2e) (tl t2f) k ltac:(lia)). simpl in IH.
    destruct IH as [H1 [H2 [H3 H4]]]. repeat split; auto.
    + rewrite H2. destruct t2e; [destruct k|]; reflexivity.
    + rewrite H3. destruct t2f; [destruct k|]; reflexivity.
    + lia.
Qed.

Lemma mk_ctxs_nth t t2e t2f k d :
  k < length t ->
  let c := nth k (mk_ctxs t t2e t2f) d in
  cv c = nth k t [] /\ ce c = nth k t2e [] /\ cf c = nth k t2f [] /\ ck c = k.
Proof. intros H. apply (mk_ctxs_from_nth 0 t t2e t2f k d H). Qed.

Lemma mk_ctxs_nth_eq tb k d :
  k < length (tb_t tb) -> nth k (mk_ctxs (tb_t tb) (tb_t2e tb) (tb_t2f tb)) d = cell_ctx tb k.
Proof.
  intros H. pose proof (mk_ctxs_nth (tb_t tb) (tb_t2e tb) (tb_t2f tb) k d H) as Hn. simpl in Hn.
  destruct (nth k (mk_ctxs (tb_t tb) (tb_t2e tb) (tb_t2f tb)) d) as [a b c e]. simpl in Hn.
  destruct Hn as [-> [-> [-> ->]]]. reflexivity.
Qed.

(* ------------------------------------------------------------------ tetrahedra: class-grouped blocks *)
Lemma nth_filter_rank {A} (P : A -> bool) (d : A) l :
  forall k, k < length l -> P (nth k l d) = true ->
    nth (length (filter P (firstn k l))) (filter P l) d = nth k l d.
Proof.
  induction l as [|x l IH]; intros k Hk HP; simpl in Hk; [lia|].
  destruct k as [|k]; simpl in *.
  - now rewrite HP.
  - destruct (P x); simpl; apply IH; auto; lia.
Qed.

Lemma filter_rank_lt {A} (P : A -> bool) (d : A) l :
  forall k, k < length l -> P (nth k l d) = true ->
    length (filter P (firstn k l)) < length (filter P l).
Proof.
  induction l as [|x l IH]; intros k Hk HP; simpl in Hk; [lia|].
  destruct k as [|k]; simpl in *.
  - rewrite HP. simpl. lia.
  - specialize (IH k ltac:(lia) HP). destruct (P x); simpl; lia.
Qed.

Lemma filter_combine_fst_length (cls : list nat) (cs : list cctx) c :
  length cls = length cs ->
  length (filter (fun p : nat * cctx => Nat.eqb (fst p) c) (combine cls cs)) = count_cls cls c.
Proof.
  unfold count_cls. revert cs; induction cls as [|x cls IH]; intros [|y cs] H; simpl in *; try lia; auto.
  rewrite (Nat.eqb_sym c x). destruct (Nat.eqb x c); simpl; rewrite IH; auto.
Qed.

Lemma cls_filter_length cls c cs : length cls = length cs -> length (cls_filter cls c cs) = count_cls cls c.
Proof. intros H. unfold cls_filter. rewrite map_length. now apply filter_combine_fst_length. Qed.

Lemma firstn_combine {A B} (a : list A) (b : list B) n :
  firstn n (combine a b) = combine (firstn n a) (firstn n b).
Proof.
  revert a b; induction n as [|n IH]; intros [|x a] [|y b]; simpl; auto. now rewrite IH.
Qed.

Lemma cls_filter_nth cls cs k dc :
  length cls = length cs -> k < length cs ->
  nth (rank_in_cls cls k) (cls_filter cls (nth k cls 0) cs) dc = nth k cs dc.
Proof.
  intros Hl Hk. unfold cls_filter, rank_in_cls.
  set (P := fun p : nat * cctx => Nat.eqb (fst p) (nth k cls 0)).
  assert (Hn : nth k (combine cls cs) (0, dc) = (nth k cls 0, nth k cs dc)) by apply combine_nth, Hl.
  assert (Hr : count_cls (firstn k cls) (nth k cls 0) = length (filter P (firstn k (combine cls cs)))).
  { rewrite firstn_combine. unfold P. rewrite filter_combine_fst_length; [reflexivity|].
    rewrite !firstn_length. lia. }
  rewrite Hr.
  rewrite (nth_map' snd _ (0, dc) dc).
  - rewrite (nth_filter_rank P (0, dc)).
    + now rewrite Hn.
    + rewrite combine_length. lia.
    + rewrite Hn. unfold P. simpl. apply Nat.eqb_refl.
  - apply (filter_rank_lt P (0, dc)).
    + rewrite combine_length. lia.
    + rewrite Hn. unfold P. simpl. apply Nat.eqb_refl.
Qed.

Lemma count_cls_total cls :
  Forall (fun c => c < 3) cls -> count_cls cls 0 + count_cls cls 1 + count_cls cls 2 = length cls.
Proof.
  unfold count_cls. induction cls as [|x cls IH]; intros H; simpl; [reflexivity|].
  inversion H as [|? ? Hx Hc]; subst. specialize (IH Hc).
  destruct x as [|[|[|x]]]; simpl in *; try lia.
Qed.

Lemma length_concat_app {A} (l1 l2 : list (list A)) :
  length (concat (l1 ++ l2)) = length (concat l1) + length (concat l2).
Proof. now rewrite concat_app, app_length. Qed.

Lemma length_concat_map {A B} (g : A -> list B) l :
  length (concat (map g l)) = list_sum (map (fun x => length (g x)) l).
Proof. induction l as [|x l IH]; simpl; [reflexivity|]. now rewrite app_length, IH. Qed.

Lemma rank_lt_count cls k : k < length cls -> rank_in_cls cls k < count_cls cls (nth k cls 0).
Proof.
  unfold rank_in_cls, count_cls. revert k. induction cls as [|x cls IH]; intros k Hk; simpl in *; [lia|].
  destruct k as [|k]; simpl.
  - rewrite Nat.eqb_refl. simpl. lia.
  - specialize (IH k ltac:(lia)). destruct (Nat.eqb (nth k cls 0) x); simpl; lia.
Qed.

Lemma nth_firstn_lt {A} (d : A) n : forall j l, j < n -> nth j (firstn n l) d = nth j l d.
Proof.
  induction n as [|n IH]; intros j l H; [lia|].
  destruct l as [|x l]; [destruct j; reflexivity|]. destruct j as [|j]; simpl; [reflexivity|].
  apply IH. lia.
Qed.

Lemma firstn_seq0 n m : n <= m -> firstn n (seq 0 m) = seq 0 n.
Proof.
  generalize 0 as s. revert m. induction n as [|n IH]; intros m s H; [reflexivity|].
  destruct m as [|m]; [lia|]. simpl. f_equal. apply IH. lia.
Qed.

Section TetBlocks.
  Variables (o : offs) (tpls : list (list nref)) (cls : list nat) (cs : list cctx).
  Hypothesis HT : length tpls = 16.
  Hypothesis Hl : length cls = length cs.
  Hypothesis Hc : Forall (fun c => c < 3) cls.

  Let inner (i : nat) := block o (cls_filter cls (i mod 3) cs) (nth (4 + i) tpls []).

  Lemma tet_blocks_eq : tet_blocks o tpls cls cs = map (block o cs) (firstn 4 tpls) ++ map inner (seq 0 12).
  Proof. reflexivity. Qed.

  Lemma corner_len : length (map (block o cs) (firstn 4 tpls)) = 4.
  Proof. rewrite map_length, firstn_length. lia. Qed.

  Lemma tet_blocks_nth_corner j : j < 4 -> nth j (tet_blocks o tpls cls cs) [] = block o cs (nth j tpls []).
  Proof.
    intros Hj. rewrite tet_blocks_eq, app_nth1 by (rewrite corner_len; exact Hj).
    rewrite (nth_map' _ _ [] []) by (rewrite firstn_length; lia).
    f_equal. now apply nth_firstn_lt.
  Qed.

  Lemma tet_blocks_nth_inner i : i < 12 -> nth (4 + i) (tet_blocks o tpls cls cs) [] = inner i.
  Proof.
    intros Hi. rewrite tet_blocks_eq, app_nth2 by (rewrite corner_len; lia). rewrite corner_len.
    replace (4 + i - 4) with i by lia.
    rewrite (nth_map' _ _ 0 []) by (rewrite seq_length; exact Hi). now rewrite seq_nth by exact Hi.
  Qed.

  Lemma inner_length i : length (inner i) = count_cls cls (i mod 3).
  Proof. unfold inner. rewrite block_length. now apply cls_filter_length. Qed.

  Lemma tet_prefix_corner j : j <= 4 -> length (concat (firstn j (tet_blocks o tpls cls cs))) = j * length cs.
  Proof.
    intros Hj. rewrite tet_blocks_eq, firstn_app, corner_len.
    replace (j - 4) with 0 by lia. rewrite firstn_O, app_nil_r.
    rewrite (length_concat_uniform (length cs)).
    - rewrite firstn_length, corner_len. f_equal. lia.
    - intros l H. apply firstn_In in H. apply in_map_iff in H. destruct H as [tpl [<- _]]. apply block_length.
  Qed.

  Lemma tet_prefix_inner i : i <= 12 ->
    length (concat (firstn (4 + i) (tet_blocks o tpls cls cs)))
    = 4 * length cs + list_sum (map (fun x => count_cls cls (x mod 3)) (seq 0 i)).
  Proof.
    intros Hi. rewrite tet_blocks_eq, firstn_app, corner_len.
    replace (4 + i - 4) with i by lia.
    rewrite firstn_all2 by (rewrite corner_len; lia).
    rewrite length_concat_app. f_equal.
    - rewrite (length_concat_uniform (length cs)); [now rewrite corner_len|].
      intros l H. apply in_map_iff in H. destruct H as [tpl [<- _]]. apply block_length.
    - rewrite firstn_map, (firstn_seq0 i 12 Hi).
      rewrite length_concat_map. apply f_equal. apply map_ext. intros x. apply inner_length.
  Qed.

  (* MeshTet1._uniform: new_t[j][k] is the index of child j of cell k, for every diagonal choice *)
  Theorem refine_t_tet_nth j k dc :
    j < 8 -> k < length cs ->
    nth (tet_child_index cls j k) (refine_t_tet o tpls cls cs) []
    = child o (nth k cs dc) (tet_tpl tpls j (nth k cls 0)).
  Proof.
    intros Hj Hk.
    pose proof (count_cls_total cls Hc) as Htot.
    assert (Hck : nth k cls 0 < 3).
    { rewrite Forall_forall in Hc. apply Hc. apply nth_In. lia. }
    unfold refine_t_tet, tet_child_index, tet_tpl.
    destruct (j <? 4) eqn:Hj4.
    - apply Nat.ltb_lt in Hj4.
      replace (k + j * length cls) with (length (concat (firstn j (tet_blocks o tpls cls cs))) + k)
        by (rewrite tet_prefix_corner by lia; lia).
      rewrite nth_concat_at.
      + rewrite tet_blocks_nth_corner by exact Hj4. unfold block. now rewrite (nth_map' _ cs dc []) by exact Hk.
      + rewrite tet_blocks_nth_corner by exact Hj4. now rewrite block_length.
    - apply Nat.ltb_ge in Hj4.
      pose proof (rank_lt_count cls k ltac:(lia)) as Hrank.
      set (c := nth k cls 0) in *.
      set (i := 3 * (j - 4) + c).
      assert (Hi : i < 12) by (unfold i; lia).
      assert (Him : i mod 3 = c).
      { unfold i. rewrite Nat.add_comm, Nat.mul_comm, Nat.mod_add by lia. apply Nat.mod_small; lia. }
      replace (4 + 3 * (j - 4) + c) with (4 + i) by (unfold i; lia).
      assert (Hpre : length (concat (firstn (4 + i) (tet_blocks o tpls cls cs)))
                     = j * length cls + lower_count cls c).
      { rewrite tet_prefix_inner by lia. unfold i. rewrite Hl.
        destruct j as [|[|[|[|[|[|[|[|j]]]]]]]]; try lia;
          destruct c as [|[|[|c']]]; try lia; simpl; lia. }
      rewrite <- Hpre.
      rewrite nth_concat_at.
      + rewrite tet_blocks_nth_inner by exact Hi. unfold inner. rewrite Him. unfold block.
        rewrite (nth_map' _ _ dc []) by (rewrite cls_filter_length by exact Hl; exact Hrank).
        f_equal. now apply cls_filter_nth.
      + rewrite tet_blocks_nth_inner by exact Hi. rewrite inner_length, Him. exact Hrank.
  Qed.

  Theorem refine_t_tet_length : length (refine_t_tet o tpls cls cs) = 8 * length cs.
  Proof.
    pose proof (count_cls_total cls Hc) as Htot.
    unfold refine_t_tet.
    rewrite <- (firstn_all (tet_blocks o tpls cls cs)).
    replace (length (tet_blocks o tpls cls cs)) with (4 + 12)
      by (rewrite tet_blocks_eq, app_length, corner_len, map_length, seq_length; reflexivity).
    rewrite tet_prefix_inner by lia. simpl. lia.
  Qed.
End TetBlocks.

(* ------------------------------------------------------------------ coordinates *)
Theorem refine_p_old dim blocks p tb i d :
  i < length p -> nth i (refine_p dim blocks p tb) d = nth i p d.
Proof. intros H. unfold refine_p. now rewrite app_nth1. Qed.

Theorem refine_p_prefix dim blocks p tb : firstn (length p) (refine_p dim blocks p tb) = p.
Proof.
  unfold refine_p. rewrite firstn_app, Nat.sub_diag, firstn_all. simpl. now rewrite app_nil_r.
Qed.

Lemma pblock_eval_length dim p tb b :
  length (pblock_eval dim p tb b) = length (ent_of tb (match b with PMean e | PScaled _ e => e end)).
Proof. destruct b; simpl; now rewrite map_length. Qed.

Lemma flat_map_nth_at {A B} (f : A -> list B) (dB : B) (dA : A) (L : list A) :
  forall b i, b < length L -> i < length (f (nth b L dA)) ->
    nth (length (flat_map f (firstn b L)) + i) (flat_map f L) dB = nth i (f (nth b L dA)) dB.
Proof.
  induction L as [|x L IH]; intros b i Hb Hi; simpl in Hb; [lia|].
  destruct b as [|b]; simpl in *.
  - now rewrite app_nth1.
  - rewrite app_length, <- Nat.add_assoc, app_nth2 by lia.
    replace (length (f x) + (length (flat_map f (firstn b L)) + i) - length (f x))
      with (length (flat_map f (firstn b L)) + i) by lia.
    apply IH; [lia | exact Hi].
Qed.

(* the b-th block of new coordinates starts after p and the earlier blocks *)
Theorem refine_p_block dim blocks p tb b i d :
  b < length blocks ->
  i < length (pblock_eval dim p tb (nth b blocks (PMean KC))) ->
  nth (length p + length (flat_map (pblock_eval dim p tb) (firstn b blocks)) + i) (refine_p dim blocks p tb) d
  = nth i (pblock_eval dim p tb (nth b blocks (PMean KC))) d.
Proof.
  intros Hb Hi. unfold refine_p. rewrite <- Nat.add_assoc, app_nth2 by lia.
  replace (length p + (length (flat_map (pblock_eval dim p tb) (firstn b blocks)) + i) - length p)
    with (length (flat_map (pblock_eval dim p tb) (firstn b blocks)) + i) by lia.
  now apply flat_map_nth_at.
Qed.

(* ------------------------------------------------------------------ refined(k): counts, old vertices *)
Section RefinedK.
  Variable step : list point -> tables -> list point * list (list nat).
  Variable tabs : list (list nat) -> tables.
  Variable N : nat.
  Hypothesis step_cells : forall p t, length (snd (step p (tabs t))) = N * length t.
  Hypothesis step_prefix : forall p t, firstn (length p) (fst (step p (tabs t))) = p.

  Theorem refined_k_cells k p t : length (snd (refined_k step tabs k p t)) = N ^ k * length t.
  Proof.
    revert p t; induction k as [|k IH]; intros p t; simpl; [lia|].
    destruct (step p (tabs t)) as [p' t'] eqn:E. rewrite IH.
    pose proof (step_cells p t) as H. rewrite E in H. simpl in H. rewrite H. lia.
  Qed.

  Lemma firstn_prefix_trans {A} (a b c : list A) :
    firstn (length a) b = a -> firstn (length b) c = b -> firstn (length a) c = a.
  Proof.
    intros H1 H2. rewrite <- H2 in H1.
    rewrite firstn_firstn in H1.
    assert (Hle : length a <= length b).
    { rewrite <- H1 at 1. rewrite firstn_length. lia. }
    now rewrite Nat.min_l in H1 by exact Hle.
  Qed.

  (* old vertices keep index and position through any number of refinements *)
  Theorem refined_k_old_vertices k p t : firstn (length p) (fst (refined_k step tabs k p t)) = p.
  Proof.
    revert p t; induction k as [|k IH]; intros p t; simpl; [apply firstn_all|].
    destruct (step p (tabs t)) as [p' t'] eqn:E.
    pose proof (step_prefix p t) as H. rewrite E in H. simpl in H.
    eapply firstn_prefix_trans; [exact H | apply IH].
  Qed.
End RefinedK.

(* ------------------------------------------------------------------ one step, assembled *)
Theorem uniform_block_children s dim p tb j k :
  j < length (sp_tpls s) -> k < length (tb_t tb) ->
  length (snd (uniform_block s dim p tb)) = length (sp_tpls s) * length (tb_t tb) /\
  nth (fallback_index (length (tb_t tb)) j k) (snd (uniform_block s dim p tb)) []
  = child (offs_of s p tb) (cell_ctx tb k) (nth j (sp_tpls s) []).
Proof.
  intros Hj Hk. unfold uniform_block. simpl. split.
  - now rewrite refine_t_length, mk_ctxs_length.
  - rewrite <- (mk_ctxs_length (tb_t tb) (tb_t2e tb) (tb_t2f tb)).
    rewrite (refine_t_nth _ _ _ j k [] (cell_ctx tb k)) by (rewrite ?mk_ctxs_length; assumption).
    now rewrite mk_ctxs_nth_eq by exact Hk.
Qed.

Theorem uniform_line_children s p tb j k :
  j < length (sp_tpls s) -> k < length (tb_t tb) ->
  length (snd (uniform_line s p tb)) = length (sp_tpls s) * length (tb_t tb) /\
  nth (interleaved_index (length (sp_tpls s)) j k) (snd (uniform_line s p tb)) []
  = child (offs_of s p tb) (cell_ctx tb k) (nth j (sp_tpls s) []).
Proof.
  intros Hj Hk. unfold uniform_line. simpl. split.
  - now rewrite refine_t_interleaved_length, mk_ctxs_length.
  - rewrite (refine_t_interleaved_nth _ _ _ j k [] (cell_ctx tb k)) by (rewrite ?mk_ctxs_length; assumption).
    now rewrite mk_ctxs_nth_eq by exact Hk.
Qed.

(* the line map must be the interleaved one: stated so that the generated map can be plugged in *)
Theorem uniform_line_children_via (submap : nat -> nat -> nat -> nat) :
  (forall nt j k, submap nt j k = interleaved_index 2 j k) ->
  forall s p tb j k, length (sp_tpls s) = 2 -> j < 2 -> k < length (tb_t tb) ->
    nth (submap (length (tb_t tb)) j k) (snd (uniform_line s p tb)) []
    = child (offs_of s p tb) (cell_ctx tb k) (nth j (sp_tpls s) []).
Proof.
  intros Hsub s p tb j k Hl Hj Hk. rewrite Hsub, <- Hl.
  apply uniform_line_children; [rewrite Hl; exact Hj | exact Hk].
Qed.

Theorem uniform_tet_children s diags comps classes p tb j k :
  length (sp_tpls s) = 16 -> j < 8 -> k < length (tb_t tb) ->
  let r := uniform_tet s diags comps classes p tb in
  let cls := snd r in
  Forall (fun c => c < 3) cls ->
  length (snd (fst r)) = 8 * length (tb_t tb) /\
  nth (tet_child_index cls j k) (snd (fst r)) []
  = child (offs_of s p tb) (cell_ctx tb k) (tet_tpl (sp_tpls s) j (nth k cls 0)).
Proof.
  intros HT Hj Hk r cls Hc. unfold r, uniform_tet in *. simpl in *.
  assert (Hl : length cls = length (mk_ctxs (tb_t tb) (tb_t2e tb) (tb_t2f tb))) by (unfold cls; now rewrite map_length).
  split.
  - rewrite refine_t_tet_length; auto. now rewrite mk_ctxs_length.
  - fold cls. rewrite (refine_t_tet_nth _ _ _ _ HT Hl Hc j k (cell_ctx tb k)) by (rewrite ?mk_ctxs_length; assumption).
    now rewrite mk_ctxs_nth_eq by exact Hk.
Qed.

(* refined(k) for the block-layout classes *)
Section RefinedKBlock.
  Variables (s : spec) (dim : nat) (tabs : list (list nat) -> tables).
  Hypothesis tabs_t : forall t, tb_t (tabs t) = t.

  Theorem refined_k_block k p t :
    length (snd (refined_k (uniform_block s dim) tabs k p t)) = length (sp_tpls s) ^ k * length t /\
    firstn (length p) (fst (refined_k (uniform_block s dim) tabs k p t)) = p.
  Proof.
    split.
    - apply refined_k_cells. intros p0 t0. unfold uniform_block. simpl.
      now rewrite refine_t_length, mk_ctxs_length, tabs_t.
    - apply refined_k_old_vertices. intros p0 t0. apply refine_p_prefix.
  Qed.

  Theorem refined_k_line k p t :
    length (snd (refined_k (uniform_line s) tabs k p t)) = length (sp_tpls s) ^ k * length t /\
    firstn (length p) (fst (refined_k (uniform_line s) tabs k p t)) = p.
  Proof.
    split.
    - apply refined_k_cells. intros p0 t0. unfold uniform_line. simpl.
      now rewrite refine_t_interleaved_length, mk_ctxs_length, tabs_t.
    - apply refined_k_old_vertices. intros p0 t0. apply refine_p_prefix.
  Qed.
End RefinedKBlock.

(* the new coordinates: block b of the coordinate array starts at length p + (sizes of the earlier tables) *)
Definition bkind (b : pblock) : ekind := match b with PMean e | PScaled _ e => e end.

Lemma flat_map_pblock_length dim p tb bl :
  length (flat_map (pblock_eval dim p tb) bl) = list_sum (map (fun b => length (ent_of tb (bkind b))) bl).
Proof.
  induction bl as [|b bl IH]; simpl; [reflexivity|].
  rewrite app_length, IH. rewrite (pblock_eval_length dim p tb b). reflexivity.
Qed.

Theorem refine_p_entity dim blocks p tb b i :
  b < length blocks -> i < length (ent_of tb (bkind (nth b blocks (PMean KC)))) ->
  nth (length p + list_sum (map (fun b => length (ent_of tb (bkind b))) (firstn b blocks)) + i)
      (refine_p dim blocks p tb) []
  = match nth b blocks (PMean KC) with
    | PMean e => ent_mean dim p (nth i (ent_of tb e) [])
    | PScaled sc e => ent_scaled sc dim p (nth i (ent_of tb e) [])
    end.
Proof.
  intros Hb Hi. rewrite <- (flat_map_pblock_length dim p tb).
  rewrite refine_p_block by (try exact Hb; rewrite pblock_eval_length; exact Hi).
  destruct (nth b blocks (PMean KC)) as [e|sc e]; cbn [pblock_eval bkind] in *.
  - now rewrite (nth_map' (ent_mean dim p) _ [] []) by exact Hi.
  - now rewrite (nth_map' (ent_scaled sc dim p) _ [] []) by exact Hi.
Qed.

(* distinct (child number, cell) pairs have distinct positions: a tag cannot bleed into another cell's children *)
Theorem fallback_index_injective nt j k j' k' :
  k < nt -> k' < nt -> fallback_index nt j k = fallback_index nt j' k' -> j = j' /\ k = k'.
Proof.
  unfold fallback_index. intros Hk Hk' H.
  assert (Hj : j = j').
  { destruct (Nat.lt_trichotomy j j') as [Hlt|[Heq|Hgt]]; [|exact Heq|]; exfalso; nia. }
  subst j'. split; [reflexivity | lia].
Qed.

Theorem interleaved_index_injective N j k j' k' :
  j < N -> j' < N -> interleaved_index N j k = interleaved_index N j' k' -> j = j' /\ k = k'.
Proof.
  unfold interleaved_index. intros Hj Hj' H.
  assert (Hk : k = k').
  { destruct (Nat.lt_trichotomy k k') as [Hlt|[Heq|Hgt]]; [|exact Heq|]; exfalso; nia. }
  subst k'. split; [lia | reflexivity].
Qed.

(* ------------------------------------------------------------------ Mesh.refined: the dispatch *)
Lemma nonzero_spec mask k : In k (nonzero mask) <-> nth k mask false = true.
Proof.
  unfold nonzero. rewrite filter_In, in_seq. split; [tauto|]. intros H. split; [|exact H].
  destruct (Nat.lt_ge_cases k (length mask)) as [L|L]; [lia|]. rewrite nth_overflow in H by exact L. discriminate.
Qed.

Section Dispatch.
  Context {M : Type} (ustep : M -> M) (adapt : list nat -> M -> M).

  (* scalar n: exactly n passes; n <= 0: the mesh itself; counts add up *)
  Theorem refined_scalar_nonpos n m : (n <= 0)%Z -> refined_dispatch ustep adapt (RScalar n) m = m.
  Proof. intros H. simpl. replace (Z.to_nat n) with 0 by lia. reflexivity. Qed.

  Theorem refined_scalar_succ n m : (0 <= n)%Z ->
    refined_dispatch ustep adapt (RScalar (n + 1)) m = ustep (refined_dispatch ustep adapt (RScalar n) m).
  Proof. intros H. simpl. replace (Z.to_nat (n + 1)) with (S (Z.to_nat n)) by lia. reflexivity. Qed.

  Theorem refined_scalar_add a b m : (0 <= a)%Z -> (0 <= b)%Z ->
    refined_dispatch ustep adapt (RScalar (a + b)) m
    = refined_dispatch ustep adapt (RScalar b) (refined_dispatch ustep adapt (RScalar a) m).
  Proof.
    intros Ha Hb. simpl. replace (Z.to_nat (a + b)) with (Z.to_nat b + Z.to_nat a) by lia.
    generalize (Z.to_nat b) as nb. intros nb. induction nb as [|nb IH]; simpl; [reflexivity | now rewrite IH].
  Qed.

  (* index collections are handed to _adaptive unchanged; a mask selects exactly its true positions *)
  Theorem refined_index ix m : refined_dispatch ustep adapt (RIndex ix) m = adapt ix m.
  Proof. reflexivity. Qed.

  Theorem refined_mask mask m :
    refined_dispatch ustep adapt (RMask mask) m = refined_dispatch ustep adapt (RIndex (nonzero mask)) m /\
    (forall k, In k (nonzero mask) <-> nth k mask false = true).
  Proof. split; [reflexivity | apply nonzero_spec]. Qed.
End Dispatch.
