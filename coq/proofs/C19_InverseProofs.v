(* C19 — COOData.inverse = fromlocal (inv (tolocal ())): the bookkeeping is exact for ANY per-cell operation inv that keeps the
   local shape; numpy.linalg.inv itself is runtime. *)
From Coq Require Import List Arith Bool Lia.
Import ListNotations.
Require Import Base.C01_Sums Model.C01_Assembly Proofs.C01_AssemblyProofs Model.C19_Blocks Proofs.C19_BlocksProofs.

Section Inverse.
  Variable R : Type.
  Variable rO : R.

  Definition shaped (L : list (list (list R))) (nt n0 n1 : nat) : Prop :=
    length L = nt /\ forall e, e < nt -> length (nth e L []) = n0 /\ forall i, i < n0 -> length (nth i (nth e L []) []) = n1.

  Lemma nth_map_seq_d {B} (f : nat -> B) n k d : k < n -> nth k (map f (seq 0 n)) d = f k.
  Proof. apply nth_map_seq0. Qed.

  (* tolocal (fromlocal L) = L for a well-shaped (nt, n0, n1) array *)
  Theorem tolocal_fromlocal_F L nt n0 n1 : 0 < n0 * n1 -> shaped L nt n0 n1 ->
    tolocal_F R rO (fromlocal_F R rO L nt n0 n1) [n0; n1] = Some L.
  Proof.
    intros Hm [HL Hsh]. unfold tolocal_F.
    assert (Hlen : length (fromlocal_F R rO L nt n0 n1) = nt * n0 * n1) by (unfold fromlocal_F; now rewrite map_length, seq_length).
    rewrite Hlen. destruct (Nat.eqb_spec (n0 * n1) 0) as [Z|_]; [lia|].
    assert (Hd : nt * n0 * n1 / (n0 * n1) = nt) by (replace (nt * n0 * n1) with (nt * (n0 * n1)) by lia; apply Nat.div_mul; lia).
    rewrite Hd. destruct (Nat.eqb_spec (nt * (n0 * n1)) (nt * n0 * n1)) as [_|Hne]; [|lia].
    f_equal. symmetry. apply (nth_ext _ _ [] []).
    - rewrite map_length, seq_length. exact HL.
    - intros e He. rewrite HL in He. rewrite nth_map_seq0 by exact He.
      destruct (Hsh e He) as [H0 H1]. apply (nth_ext _ _ [] []).
      + rewrite map_length, seq_length. exact H0.
      + intros i Hi. rewrite H0 in Hi. rewrite nth_map_seq0 by exact Hi.
        apply (nth_ext _ _ rO rO).
        * rewrite map_length, seq_length. now apply H1.
        * intros j Hj. rewrite (H1 i Hi) in Hj. rewrite nth_map_seq0 by exact Hj.
          unfold fromlocal_F. assert (Hx : i + n0 * j < n0 * n1) by nia.
          assert (Hy : nt * (i + n0 * j) + nt <= nt * (n0 * n1)) by nia.
          assert (Hk : e + nt * (i + n0 * j) < nt * n0 * n1) by nia.
          rewrite nth_map_seq0 by exact Hk. unfold loc3.
          assert (E1 : (e + nt * (i + n0 * j)) mod nt = e).
          { symmetry. apply (Nat.mod_unique _ _ (i + n0 * j)); lia. }
          assert (E2 : (e + nt * (i + n0 * j)) / nt = i + n0 * j).
          { symmetry. apply (Nat.div_unique _ _ _ e); lia. }
          assert (E3 : (e + nt * (i + n0 * j)) / (nt * n0) = j).
          { symmetry. apply (Nat.div_unique _ _ _ (e + nt * i)); nia. }
          rewrite E1, E2, E3.
          assert (E4 : (i + n0 * j) mod n0 = i).
          { symmetry. apply (Nat.mod_unique _ _ j); lia. }
          now rewrite E4.
  Qed.

  Lemma tolocal_F_shaped data n0 n1 L : 0 < n0 * n1 -> tolocal_F R rO data [n0; n1] = Some L ->
    shaped L (length data / (n0 * n1)) n0 n1.
  Proof.
    intros Hm E. unfold tolocal_F in E. destruct (Nat.eqb_spec (n0 * n1) 0); [lia|].
    destruct (Nat.eqb_spec (length data / (n0 * n1) * (n0 * n1)) (length data)); [|discriminate].
    inversion E; subst L; clear E. split; [now rewrite map_length, seq_length|].
    intros e0 He. rewrite nth_map_seq0 by exact He. split; [now rewrite map_length, seq_length|].
    intros i Hi. rewrite nth_map_seq0 by exact Hi. now rewrite map_length, seq_length.
  Qed.

  (* COOData.inverse: the local matrices of inverse(c) are inv applied to the local matrices of c, cell by cell *)
  Theorem inverse_tolocal (inv : list (list R) -> list (list R)) data n0 n1 L :
    0 < n0 * n1 -> tolocal_F R rO data [n0; n1] = Some L ->
    (forall M, In M L -> length (inv M) = n0 /\ forall i, i < n0 -> length (nth i (inv M) []) = n1) ->
    tolocal_F R rO (fromlocal_F R rO (map inv L) (length L) n0 n1) [n0; n1] = Some (map inv L).
  Proof.
    intros Hm E Hinv. apply tolocal_fromlocal_F; [exact Hm|]. split; [now rewrite map_length|].
    intros e He. rewrite (nth_indep _ [] (inv [])) by (now rewrite map_length). rewrite map_nth.
    apply Hinv. now apply nth_In.
  Qed.

  (* whatever relation the per-cell operation establishes (for numpy.linalg.inv: M * inv M = I), it holds between
     local matrix e of c and local matrix e of inverse(c) *)
  Corollary inverse_blockwise (inv : list (list R) -> list (list R)) (P : list (list R) -> list (list R) -> Prop) data n0 n1 L L' :
    0 < n0 * n1 -> tolocal_F R rO data [n0; n1] = Some L ->
    (forall M, In M L -> length (inv M) = n0 /\ forall i, i < n0 -> length (nth i (inv M) []) = n1) ->
    (forall M, In M L -> P M (inv M)) ->
    tolocal_F R rO (fromlocal_F R rO (map inv L) (length L) n0 n1) [n0; n1] = Some L' ->
    length L' = length L /\ forall e, e < length L -> P (nth e L []) (nth e L' []).
  Proof.
    intros Hm E Hinv HP E'. rewrite (inverse_tolocal inv data n0 n1 L Hm E Hinv) in E'. inversion E'; subst L'.
    split; [now rewrite map_length|]. intros e He.
    rewrite (nth_indep (map inv L) [] (inv [])) by (now rewrite map_length). rewrite map_nth. apply HP. now apply nth_In.
  Qed.
End Inverse.
