(* C10 — strictly convex quadrilaterals: sign statements drawn from the polynomial identities of Gen.C10GenPoly
   (det J = bilinear interpolant of the four corner-triangle determinants; nu . (P_k - G) = - corner determinant). *)
From Coq Require Import List Arith Bool Lia QArith Lqa.
Import ListNotations.
Require Import Base.C09_Poly Base.C09_PolyQ Base.C20_Ring Model.C10_IsoPoly Proofs.C10_IsoPolyProofs Proofs.C14_QuadProofs.
Local Close Scope Q_scope.

Definition std_flags : list (bool * bool) := [(false, false); (true, false); (true, true); (false, true)].

(* the corner-triangle determinant at vertex k of the cycle 0 1 2 3: orient(P_k, P_next, P_prev) — group I's [orient] *)
Definition corner_det (pt : nat -> Q) (k : nat) : Q :=
  orient (pt (node_var 2 k 0)) (pt (node_var 2 k 1))
         (pt (node_var 2 ((k + 1) mod 4) 0)) (pt (node_var 2 ((k + 1) mod 4) 1))
         (pt (node_var 2 ((k + 3) mod 4) 0)) (pt (node_var 2 ((k + 3) mod 4) 1)).

Local Notation E_psub := (peval_psub Q 0%Q 1%Q Qplus Qmult Qminus Qopp Qeq (fun x => x) Q_Setoid Qreqe Qsrt Qidmorph).
Local Notation E_pmul := (peval_pmul Q 0%Q 1%Q Qplus Qmult Qminus Qopp Qeq (fun x => x) Q_Setoid Qreqe Qsrt Qidmorph).
Local Notation E_padd := (peval_padd Q 0%Q 1%Q Qplus Qmult Qminus Qopp Qeq (fun x => x) Q_Setoid Qreqe Qsrt).
Local Notation E_pvar := (peval_pvar Q 0%Q 1%Q Qplus Qmult Qminus Qopp Qeq (fun x => x) Q_Setoid Qreqe Qsrt Qidmorph).
Local Notation E_pconst := (peval_pconst Q 0%Q 1%Q Qplus Qmult Qminus Qopp Qeq (fun x => x) Q_Setoid Qreqe Qsrt Qidmorph).
Local Notation E_popp := (peval_popp Q 0%Q 1%Q Qplus Qmult Qminus Qopp Qeq (fun x => x) Q_Setoid Qreqe Qsrt Qidmorph).

Lemma q_orient_poly a b c pt :
  Qeq (qeval (orient_poly a b c) pt)
      (orient (pt (node_var 2 a 0)) (pt (node_var 2 a 1)) (pt (node_var 2 b 0)) (pt (node_var 2 b 1))
              (pt (node_var 2 c 0)) (pt (node_var 2 c 1))).
Proof. unfold orient_poly, qeval, orient. rewrite !E_psub, !E_pmul, !E_psub, !E_pvar. ring. Qed.

Lemma q_corner_poly k pt : Qeq (qeval (corner_poly k) pt) (corner_det pt k).
Proof. unfold corner_poly, corner_det. apply q_orient_poly. Qed.

Lemma q_wpoly c pt :
  Qeq (qeval (wpoly c) pt) ((if fst c then pt 0%nat else 1 - pt 0%nat) * (if snd c then pt 1%nat else 1 - pt 1%nat))%Q.
Proof.
  destruct c as [[|] [|]]; unfold wpoly, qeval; simpl fst; simpl snd; rewrite E_pmul;
    repeat (rewrite E_psub || rewrite E_pvar); cbv [pconst peval teval meval fst snd]; ring.
Qed.

Lemma lin_pos (a b t : Q) : Qlt 0 a -> Qlt 0 b -> Qle 0 t -> Qle t 1 -> Qlt 0 (a * (1 - t) + b * t)%Q.
Proof. intros Ha Hb H0 H1. destruct (Qlt_le_dec t (1 # 2)) as [H|H]; nra. Qed.

Lemma bil_pos (A B C D x y : Q) : Qlt 0 A -> Qlt 0 B -> Qlt 0 C -> Qlt 0 D -> Qle 0 x -> Qle x 1 -> Qle 0 y -> Qle y 1 ->
  Qlt 0 (A * ((1 - x) * (1 - y)) + B * (x * (1 - y)) + C * (x * y) + D * ((1 - x) * y))%Q.
Proof.
  intros HA HB HC HD Hx0 Hx1 Hy0 Hy1.
  pose proof (lin_pos A B x HA HB Hx0 Hx1) as P1. pose proof (lin_pos D C x HD HC Hx0 Hx1) as P2.
  pose proof (lin_pos _ _ y P1 P2 Hy0 Hy1) as P.
  assert (E : Qeq (A * ((1 - x) * (1 - y)) + B * (x * (1 - y)) + C * (x * y) + D * ((1 - x) * y))
                  ((A * (1 - x) + B * x) * (1 - y) + (D * (1 - x) + C * x) * y)%Q) by ring.
  rewrite E. exact P.
Qed.

Theorem quad_detJ_positive det dphis :
  all_equal (detJ_pairs det dphis std_flags) = true ->
  forall (pt : nat -> Q) (s : Q), Qeq (s * s) 1 -> (forall k, k < 4 -> Qlt 0 (s * corner_det pt k)) ->
    Qle 0 (pt 0%nat) -> Qle (pt 0%nat) 1 -> Qle 0 (pt 1%nat) -> Qle (pt 1%nat) 1 ->
    Qlt 0 (s * qeval (detJ_poly det dphis) pt).
Proof.
  intros H pt s Hs Hc Hx0 Hx1 Hy0 Hy1.
  assert (E : Qeq (qeval (detJ_poly det dphis) pt) (qeval (bilin_poly 0 std_flags) pt)).
  { apply q_peqb_sound. apply (all_equal_In _ H). left. reflexivity. }
  rewrite E. unfold std_flags, bilin_poly. unfold qeval at 1.
  rewrite !E_padd, !E_pmul.
  change (peval Q 0%Q 1%Q Qplus Qmult (fun x => x) (corner_poly 0) pt) with (qeval (corner_poly 0) pt).
  change (peval Q 0%Q 1%Q Qplus Qmult (fun x => x) (corner_poly 1) pt) with (qeval (corner_poly 1) pt).
  change (peval Q 0%Q 1%Q Qplus Qmult (fun x => x) (corner_poly 2) pt) with (qeval (corner_poly 2) pt).
  change (peval Q 0%Q 1%Q Qplus Qmult (fun x => x) (corner_poly 3) pt) with (qeval (corner_poly 3) pt).
  change (peval Q 0%Q 1%Q Qplus Qmult (fun x => x) (wpoly (false, false)) pt) with (qeval (wpoly (false, false)) pt).
  change (peval Q 0%Q 1%Q Qplus Qmult (fun x => x) (wpoly (true, false)) pt) with (qeval (wpoly (true, false)) pt).
  change (peval Q 0%Q 1%Q Qplus Qmult (fun x => x) (wpoly (true, true)) pt) with (qeval (wpoly (true, true)) pt).
  change (peval Q 0%Q 1%Q Qplus Qmult (fun x => x) (wpoly (false, true)) pt) with (qeval (wpoly (false, true)) pt).
  rewrite !q_corner_poly, !q_wpoly. simpl fst; simpl snd. simpl (peval Q 0%Q 1%Q Qplus Qmult (fun x => x) [] pt).
  pose proof (Hc 0%nat ltac:(lia)) as H0. pose proof (Hc 1%nat ltac:(lia)) as H1.
  pose proof (Hc 2%nat ltac:(lia)) as H2. pose proof (Hc 3%nat ltac:(lia)) as H3.
  set (a := corner_det pt 0) in *. set (b := corner_det pt 1) in *. set (c := corner_det pt 2) in *. set (d := corner_det pt 3) in *.
  set (x := pt 0%nat) in *. set (y := pt 1%nat) in *.
  assert (Hsum : Qeq (s * (a * ((1 - x) * (1 - y)) + (b * (x * (1 - y)) + (c * (x * y) + (d * ((1 - x) * y) + 0)))))
                     ((s * a) * ((1 - x) * (1 - y)) + (s * b) * (x * (1 - y)) + (s * c) * (x * y) + (s * d) * ((1 - x) * y))%Q) by ring.
  rewrite Hsum. clear Hsum E.
  apply bil_pos; assumption.
Qed.

Theorem quad_normal_outward adj dphis psis outward :
  forallb (fun fo => all_equal (outward_pairs adj dphis psis fo)) outward = true ->
  forall (pt : nat -> Q) (s : Q), (forall k, k < 4 -> Qlt 0 (s * corner_det pt k)) ->
    forall fo, In fo outward -> forall km, In km (snd fo) -> snd km < 4 ->
      Qlt (s * qeval (nu_dot_to_vertex adj dphis psis (fst fo) (fst km)) pt) 0.
Proof.
  intros H pt s Hc fo Hfo km Hkm Hm. rewrite forallb_forall in H. specialize (H fo Hfo).
  assert (E : Qeq (qeval (nu_dot_to_vertex adj dphis psis (fst fo) (fst km)) pt) (qeval (popp (corner_poly (snd km))) pt)).
  { apply q_peqb_sound. apply (all_equal_In _ H). unfold outward_pairs.
    apply (in_map (fun km => (nu_dot_to_vertex adj dphis psis (fst fo) (fst km), popp (corner_poly (snd km)))) (snd fo) km Hkm). }
  rewrite E. unfold qeval at 1. rewrite E_popp.
  change (peval Q 0%Q 1%Q Qplus Qmult (fun x => x) (corner_poly (snd km)) pt) with (qeval (corner_poly (snd km)) pt).
  rewrite q_corner_poly. pose proof (Hc (snd km) Hm) as Hd.
  set (dd := corner_det pt (snd km)) in *. nra.
Qed.

(* the four corner determinants in group I's form (C14_quad_split_tiles): orient of the sorted triples *)
Lemma corner_dets_are_C14_hypotheses (pt : nat -> Q) :
  let X k := pt (node_var 2 k 0) in let Y k := pt (node_var 2 k 1) in
  Qeq (corner_det pt 0) (orient (X 0%nat) (Y 0%nat) (X 1%nat) (Y 1%nat) (X 3%nat) (Y 3%nat)) /\
  Qeq (corner_det pt 1) (orient (X 0%nat) (Y 0%nat) (X 1%nat) (Y 1%nat) (X 2%nat) (Y 2%nat)) /\
  Qeq (corner_det pt 2) (orient (X 1%nat) (Y 1%nat) (X 2%nat) (Y 2%nat) (X 3%nat) (Y 3%nat)) /\
  Qeq (corner_det pt 3) (orient (X 0%nat) (Y 0%nat) (X 2%nat) (Y 2%nat) (X 3%nat) (Y 3%nat)).
Proof. intros X Y. unfold corner_det, orient, X, Y. simpl Nat.modulo. repeat split; ring. Qed.
