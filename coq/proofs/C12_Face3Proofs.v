(* C12 — global conformity at FACE level for triangular faces (tetrahedra): with the tables of Mesh.build_entities (C11) the
   four triangles that the children of a cell leave on its local face a are a function of the face alone — its vertex tuple
   facets[f] and the mesh's edge array (edge nodes are numbered offE + edge number, and an edge number is the position of the
   sorted vertex pair in the edge array).  Hence two cells sharing a face leave the same pieces on it. *)
From Coq Require Import List Arith Bool Lia Permutation.
Import ListNotations.
Require Import Base.Corr Base.C11_Unique Model.C11_Topo Proofs.C11_TopoProofs.
Require Import Model.C12_Refine Model.C13_Adaptive Model.C12_Global Proofs.C12_RefineProofs Proofs.C12_GlobalProofs Proofs.C12_InvProofs.
Local Open Scope nat_scope.

Lemma lidx_nth l : NoDup l -> forall i, i < length l -> lidx (nth i l []) l = i.
Proof.
  induction l as [|y l IH]; intros Hnd i Hi; simpl in Hi; [lia|]. inversion Hnd as [|? ? Hny Hnd']; subst.
  destruct i as [|i]; simpl.
  - assert (E : nats_eqb y y = true) by now apply nats_eqb_eq. now rewrite E.
  - destruct (nats_eqb (nth i l []) y) eqn:E.
    + apply nats_eqb_eq in E. exfalso. apply Hny. rewrite <- E. apply nth_In. lia.
    + f_equal. apply IH; [exact Hnd' | lia].
Qed.

Lemma find_slot_spec re i j : forall b, find_slot re i j b - b < length re ->
  b <= find_slot re i j b /\ (nth (find_slot re i j b - b) re [] = [i; j] \/ nth (find_slot re i j b - b) re [] = [j; i]).
Proof.
  induction re as [|s r IH]; intros b H; simpl in *; [lia|].
  destruct (nats_eqb s [i; j] || nats_eqb s [j; i]) eqn:E.
  - rewrite Nat.sub_diag. split; [lia|]. apply orb_true_iff in E. destruct E as [E|E]; apply nats_eqb_eq in E; auto.
  - assert (Hge : S b <= find_slot r i j (S b)).
    { clear. revert b. induction r as [|s r IH]; intros b; simpl; [lia|]. destruct (_ || _); [lia|]. specialize (IH (S b)). lia. }
    destruct (IH (S b)) as [H1 H2]; [lia|].
    replace (find_slot r i j (S b) - b) with (S (find_slot r i j (S b) - S b)) by lia. simpl. split; [lia | exact H2].
Qed.

Lemma eslot_spec re i j : eslot re i j < length re ->
  nth (eslot re i j) re [] = [i; j] \/ nth (eslot re i j) re [] = [j; i].
Proof.
  unfold eslot. intros H. destruct (find_slot_spec re i j 0) as [_ H2]; [lia|]. now rewrite Nat.sub_0_r in H2.
Qed.

(* the pieces are a symmetric function of the three vertices, when the edge node is a symmetric function of its two ends *)
Ltac p3 := first [ apply Permutation_refl | apply perm_swap | apply perm_skip, perm_swap
                 | (eapply perm_trans; [apply perm_swap | apply perm_skip, perm_swap])
                 | (eapply perm_trans; [apply perm_skip, perm_swap | apply perm_swap])
                 | (eapply perm_trans; [apply perm_swap | eapply perm_trans; [apply perm_skip, perm_swap | apply perm_swap]]) ].
Ltac canon l l' := replace (isort l) with (isort l') by (apply isort_of_perm; p3).

Lemma tri_pieces_perm (M : nat -> nat -> nat) : (forall a b, M a b = M b a) ->
  forall x y z q, Permutation [x; y; z] q ->
  forall e, In e (tri_pieces (nth 0 q 0) (nth 1 q 0) (nth 2 q 0)
                             (M (nth 0 q 0) (nth 1 q 0)) (M (nth 0 q 0) (nth 2 q 0)) (M (nth 1 q 0) (nth 2 q 0)))
            <-> In e (tri_pieces x y z (M x y) (M x z) (M y z)).
Proof.
  intros Hs x y z q Hp e. apply perm3 in Hp.
  destruct Hp as [ E | [ E | [ E | [ E | [ E | E ] ] ] ] ]; subst q; cbn [nth];
    rewrite ?(Hs y x), ?(Hs z x), ?(Hs z y); set (A := M x y); set (B := M x z); set (C := M y z);
    unfold tri_pieces; cbn [In].
  - tauto.
  - canon [x; B; A] [x; A; B]. canon [B; A; C] [A; B; C]. tauto.
  - canon [z; C; B] [z; B; C]. canon [A; C; B] [A; B; C]. tauto.
  - canon [y; C; A] [y; A; C]. canon [z; C; B] [z; B; C]. canon [C; A; B] [A; B; C]. tauto.
  - canon [x; B; A] [x; A; B]. canon [y; C; A] [y; A; C]. canon [B; C; A] [A; B; C]. tauto.
  - canon [z; C; B] [z; B; C]. canon [y; C; A] [y; A; C]. canon [x; B; A] [x; A; B]. canon [C; B; A] [A; B; C]. tauto.
Qed.

Section Face3.
  Variables (cells rf re : list (list nat)) (nn : nat).
  Hypothesis Hfe : face_edges_okb nn rf re = true.
  Hypothesis Hcells : Forall (fun c => NoDup c /\ length c = nn) cells.
  Let tb := c11_tables3 cells rf re.
  Variable oE : nat.
  Let M (a b : nat) : nat := oE + lidx (isort [a; b]) (tb_edges tb).

  Lemma M_sym a b : M a b = M b a.
  Proof. unfold M. now rewrite (isort_swap a b). Qed.

  (* the node on the edge joining local vertices i, j of cell k depends only on the two vertex numbers *)
  Lemma edge_node k i j : k < length cells -> i < nn -> j < nn -> i <> j -> eslot re i j < length re ->
    oE + nth (eslot re i j) (ce (cell_ctx tb k)) 0 = M (nth i (nth k cells []) 0) (nth j (nth k cells []) 0).
  Proof.
    intros Hk Hi Hj Hij Hb. unfold M. f_equal.
    rewrite Forall_forall in Hcells. destruct (Hcells (nth k cells []) (nth_In _ _ Hk)) as [Hnd Hlen].
    set (b := eslot re i j) in *.
    assert (Ece : nth b (ce (cell_ctx tb k)) 0 = t2f_at cells re b k).
    { unfold cell_ctx. cbn [ce]. unfold tb, c11_tables3. cbn [tb_t2e]. apply c11_entry; assumption. }
    rewrite Ece. change (tb_edges tb) with (entities true cells re).
    assert (Hne : nth i (nth k cells []) 0 <> nth j (nth k cells []) 0).
    { intros E. apply Hij. apply (proj1 (NoDup_nth (nth k cells []) 0) Hnd); [lia | lia | exact E]. }
    assert (Hkey : nth (t2f_at cells re b k) (entities true cells re) []
                   = isort [nth i (nth k cells []) 0; nth j (nth k cells []) 0]).
    { rewrite (t2f_slotwise cells re b k Hb Hk). unfold key.
      destruct (eslot_spec re i j Hb) as [E|E]; fold b in E; rewrite E; unfold slotv; cbn [map];
        rewrite sort_entity_nodup.
      - reflexivity.
      - constructor; [intros [H|[]]; now apply Hne | constructor; [intros [] | constructor]].
      - apply isort_swap.
      - constructor; [intros [H|[]]; apply Hne; now symmetry | constructor; [intros [] | constructor]]. }
    rewrite <- Hkey. symmetry. apply lidx_nth.
    - destruct (entities_unique_sorted cells re) as [_ [Hn _]]. exact Hn.
    - now apply t2f_bound.
  Qed.

  (* for EVERY cell k and local face a: the four triangles left on that face are those of the face number f = t2f[k][a] *)
  Theorem face_pieces_global k a : k < length cells -> a < length rf ->
    forall e, In e (resolved_face_pieces rf re oE (cell_ctx tb k) a)
              <-> In e (face_trace3 (tb_edges tb) oE (nth (nth a (cf (cell_ctx tb k)) 0) (tb_facets tb) [])).
  Proof.
    intros Hk Ha e.
    unfold face_edges_okb in Hfe. rewrite forallb_forall in Hfe. specialize (Hfe (nth a rf []) (nth_In _ _ Ha)).
    destruct (nth a rf []) as [|i0 [|i1 [|i2 [|]]]] eqn:Elf; try discriminate.
    rewrite !andb_true_iff, !negb_true_iff, !Nat.eqb_neq, !Nat.ltb_lt in Hfe.
    destruct Hfe as [[[[[[[[N01 N02] N12] B0] B1] B2] S01] S02] S12].
    pose proof Hcells as Hc'. rewrite Forall_forall in Hc'. destruct (Hc' (nth k cells []) (nth_In _ _ Hk)) as [Hnd Hlen].
    set (x := nth i0 (nth k cells []) 0). set (y := nth i1 (nth k cells []) 0). set (z := nth i2 (nth k cells []) 0).
    assert (Dxy : x <> y) by (intros E; apply N01; apply (proj1 (NoDup_nth (nth k cells []) 0) Hnd); [lia | lia | exact E]).
    assert (Dxz : x <> z) by (intros E; apply N02; apply (proj1 (NoDup_nth (nth k cells []) 0) Hnd); [lia | lia | exact E]).
    assert (Dyz : y <> z) by (intros E; apply N12; apply (proj1 (NoDup_nth (nth k cells []) 0) Hnd); [lia | lia | exact E]).
    (* cell side *)
    assert (EL : resolved_face_pieces rf re oE (cell_ctx tb k) a = tri_pieces x y z (M x y) (M x z) (M y z)).
    { unfold resolved_face_pieces. rewrite Elf. cbn [nth]. change (cv (cell_ctx tb k)) with (nth k cells []). fold x y z.
      rewrite (edge_node k i0 i1 Hk B0 B1 N01 S01), (edge_node k i0 i2 Hk B0 B2 N02 S02), (edge_node k i1 i2 Hk B1 B2 N12 S12).
      reflexivity. }
    (* face side *)
    assert (Ef : nth a (cf (cell_ctx tb k)) 0 = t2f_at cells rf a k).
    { unfold cell_ctx. cbn [cf]. unfold tb, c11_tables3. cbn [tb_t2f]. apply c11_entry; assumption. }
    assert (EF : nth (nth a (cf (cell_ctx tb k)) 0) (tb_facets tb) [] = isort [x; y; z]).
    { rewrite Ef. change (tb_facets tb) with (entities true cells rf). rewrite (t2f_slotwise cells rf a k Ha Hk). unfold key.
      rewrite Elf. unfold slotv. cbn [map]. fold x y z. apply sort_entity_nodup.
      constructor; [intros [H|[H|[]]]; [now apply Dxy | now apply Dxz]|].
      constructor; [intros [H|[]]; now apply Dyz | constructor; [intros [] | constructor]]. }
    rewrite EL, EF. unfold face_trace3. cbv zeta.
    symmetry. exact (tri_pieces_perm M M_sym x y z (isort [x; y; z]) (isort_perm [x; y; z]) e).
  Qed.

  (* two cells sharing a face leave the same four triangles on it *)
  Theorem shared_face_same_pieces k1 a1 k2 a2 :
    k1 < length cells -> a1 < length rf -> k2 < length cells -> a2 < length rf ->
    nth a1 (cf (cell_ctx tb k1)) 0 = nth a2 (cf (cell_ctx tb k2)) 0 ->
    forall e, In e (resolved_face_pieces rf re oE (cell_ctx tb k1) a1) <-> In e (resolved_face_pieces rf re oE (cell_ctx tb k2) a2).
  Proof.
    intros H1 H2 H3 H4 Heq e. rewrite (face_pieces_global k1 a1 H1 H2), (face_pieces_global k2 a2 H3 H4). now rewrite Heq.
  Qed.
End Face3.

(* ------------------------------------------------------------------ quadrilateral faces (hexahedra) *)
Require Import Proofs.C11_EquivProofs.

Lemma isort4_swap24 x p n r : isort [x; p; n; r] = isort [x; r; n; p].
Proof.
  apply isort_of_perm. apply perm_skip.
  eapply perm_trans; [apply perm_swap|]. eapply perm_trans; [apply perm_skip, perm_swap|]. apply perm_swap.
Qed.

(* the pieces are invariant under rotation and reversal of the cyclic vertex tuple *)
Lemma quad_pieces_dihedral (M : nat -> nat -> nat) n : (forall a b, M a b = M b a) ->
  forall q q', dihedral q q' ->
  forall e, In e (quad_pieces (nth 0 q' 0) (nth 1 q' 0) (nth 2 q' 0) (nth 3 q' 0)
                    (M (nth 0 q' 0) (nth 1 q' 0)) (M (nth 1 q' 0) (nth 2 q' 0)) (M (nth 2 q' 0) (nth 3 q' 0)) (M (nth 3 q' 0) (nth 0 q' 0)) n)
            <-> In e (quad_pieces (nth 0 q 0) (nth 1 q 0) (nth 2 q 0) (nth 3 q 0)
                    (M (nth 0 q 0) (nth 1 q 0)) (M (nth 1 q 0) (nth 2 q 0)) (M (nth 2 q 0) (nth 3 q 0)) (M (nth 3 q 0) (nth 0 q 0)) n).
Proof.
  intros Hs q q' Hd e. destruct q as [|a [|b [|c [|d [|z q]]]]]; simpl in Hd; try tauto.
  destruct Hd as [<-|[<-|[<-|[<-|[<-|[<-|[<-|[<-|[]]]]]]]]]; cbn [nth];
    rewrite ?(Hs b a), ?(Hs c b), ?(Hs d c), ?(Hs a d); unfold quad_pieces; cbn [In];
    rewrite ?(isort4_swap24 a (M d a) n (M a b)), ?(isort4_swap24 b (M a b) n (M b c)),
            ?(isort4_swap24 c (M b c) n (M c d)), ?(isort4_swap24 d (M c d) n (M d a)); tauto.
Qed.

Section Face4.
  Variables (cells rf re : list (list nat)) (nn : nat).
  Hypothesis Hfe : qface_edges_okb nn rf re = true.
  Hypothesis Hcells : Forall (fun c => NoDup c /\ length c = nn) cells.
  (* conformity of the hexahedral mesh (the hypothesis of C11_f2e_numbers_mesh_edges_hex): every cell lists the vertices of each of
     its faces in the cyclic order of the stored (unsorted) facet column, up to rotation / reversal *)
  Hypothesis Hconf : forall s e, s < length rf -> e < length cells ->
    dihedral (nth (t2f_at cells rf s e) (entities false cells rf) []) (slotv (nth s rf []) (nth e cells [])).
  Let tb := c11_tables3 cells rf re.
  Variables oE oF : nat.
  Let M (a b : nat) : nat := oE + lidx (isort [a; b]) (tb_edges tb).

  Theorem qface_pieces_global k a : k < length cells -> a < length rf ->
    let f := nth a (cf (cell_ctx tb k)) 0 in
    forall e, In e (resolved_qface_pieces rf re oE oF (cell_ctx tb k) a)
              <-> In e (face_trace4 (tb_edges tb) oE oF f (nth f (entities false cells rf) [])).
  Proof.
    intros Hk Ha f e.
    unfold qface_edges_okb in Hfe. rewrite forallb_forall in Hfe. specialize (Hfe (nth a rf []) (nth_In _ _ Ha)).
    destruct (nth a rf []) as [|i0 [|i1 [|i2 [|i3 [|]]]]] eqn:Elf; try discriminate.
    rewrite !andb_true_iff, !Nat.ltb_lt in Hfe.
    destruct Hfe as [[[[[[[[Hnd4 B0] B1] B2] B3] S01] S12] S23] S30].
    apply nodup_nref_spec in Hnd4.
    assert (Hne : forall i j, In (NV i) [NV i0; NV i1; NV i2; NV i3] -> In (NV j) [NV i0; NV i1; NV i2; NV i3] -> True) by auto.
    assert (N01 : i0 <> i1 /\ i1 <> i2 /\ i2 <> i3 /\ i3 <> i0).
    { inversion Hnd4 as [|? ? H0 Hr]; subst. inversion Hr as [|? ? H1 Hr2]; subst. inversion Hr2 as [|? ? H2 Hr3]; subst.
      simpl in H0, H1, H2. repeat split; intros E; subst; intuition. }
    destruct N01 as [N01 [N12 [N23 N30]]].
    assert (Ef : f = t2f_at cells rf a k).
    { unfold f, cell_ctx. cbn [cf]. unfold tb, c11_tables3. cbn [tb_t2f]. apply c11_entry; assumption. }
    set (q' := slotv [i0; i1; i2; i3] (nth k cells [])).
    assert (EL : resolved_qface_pieces rf re oE oF (cell_ctx tb k) a
                 = quad_pieces (nth 0 q' 0) (nth 1 q' 0) (nth 2 q' 0) (nth 3 q' 0)
                     (M (nth 0 q' 0) (nth 1 q' 0)) (M (nth 1 q' 0) (nth 2 q' 0)) (M (nth 2 q' 0) (nth 3 q' 0)) (M (nth 3 q' 0) (nth 0 q' 0))
                     (oF + f)).
    { unfold resolved_qface_pieces. rewrite Elf. cbn [nth]. change (cv (cell_ctx tb k)) with (nth k cells []).
      unfold q', slotv. cbn [map nth]. fold f. unfold tb.
      rewrite (edge_node cells rf re nn Hcells oE k i0 i1 Hk B0 B1 N01 S01), (edge_node cells rf re nn Hcells oE k i1 i2 Hk B1 B2 N12 S12),
              (edge_node cells rf re nn Hcells oE k i2 i3 Hk B2 B3 N23 S23), (edge_node cells rf re nn Hcells oE k i3 i0 Hk B3 B0 N30 S30).
      reflexivity. }
    rewrite EL. unfold face_trace4. cbv zeta. fold M.
    pose proof (Hconf a k Ha Hk) as Hd. rewrite Elf in Hd. fold q' in Hd. rewrite <- Ef in Hd.
    apply (quad_pieces_dihedral M (oF + f)); [|exact Hd].
    intros x y. unfold M. now rewrite (isort_swap x y).
  Qed.

  Theorem shared_qface_same_pieces k1 a1 k2 a2 :
    k1 < length cells -> a1 < length rf -> k2 < length cells -> a2 < length rf ->
    nth a1 (cf (cell_ctx tb k1)) 0 = nth a2 (cf (cell_ctx tb k2)) 0 ->
    forall e, In e (resolved_qface_pieces rf re oE oF (cell_ctx tb k1) a1) <-> In e (resolved_qface_pieces rf re oE oF (cell_ctx tb k2) a2).
  Proof.
    intros H1 H2 H3 H4 Heq e. rewrite (qface_pieces_global k1 a1 H1 H2), (qface_pieces_global k2 a2 H3 H4). cbv zeta. now rewrite Heq.
  Qed.
End Face4.
