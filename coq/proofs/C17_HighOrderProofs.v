(* C17 — proofs about Model.C17_HighOrder: Mesh.__post_init__ keeps the coordinates of every node slot and is the
   identity on canonically ordered meshes. *)
From Coq Require Import List Arith Bool ZArith Lia Sorted.
Import ListNotations.
Require Import Base.Corr Model.C18_Surgery Proofs.C18_SurgeryProofs Model.C17_HighOrder.

Section PostInitProofs.
  Context {P : Type}.
  Variables (zero : P) (M ncols : nat) (p : list P) (t : mat nat) (edofs_hi : mat nat).
  Local Notation uniq := (hi_uniq M t).
  Local Notation dl0 := (hi_doflocs0 zero M p t).
  Local Notation dl := (hi_doflocs zero M ncols p t edofs_hi).
  Local Notation idx := (flattenF ncols edofs_hi).
  Local Notation src := (flattenF ncols (skipn M t)).

  Lemma dl0_low i : i < length uniq -> nth i dl0 zero = nth (nth i uniq 0) p zero.
  Proof.
    intros Hi. unfold hi_doflocs0. rewrite app_nth1 by (unfold gather; rewrite map_length; exact Hi).
    unfold gather. apply (map_nth_in (fun k => nth k p zero) uniq i 0 zero). exact Hi.
  Qed.

  (* vertex slots: the vertex in slot (r, e), r < M, keeps its coordinates, provided the numbers of the higher-order
     nodes do not collide with vertex numbers *)
  Theorem postinit_vertices r e :
    Forall (fun k => length uniq <= k) idx ->
    r < length (firstn M t) -> e < length (nth r (firstn M t) []) ->
    nth (nth e (nth r (hi_t M t) []) 0) dl zero = nth (nth e (nth r (firstn M t) []) 0) p zero.
  Proof.
    intros Hhi Hr He. unfold hi_doflocs.
    assert (Hlt := reix_range (firstn M t) r e Hr He). fold (hi_vertex_rows M t) in Hlt.
    rewrite scatter_untouched.
    - unfold hi_t, hi_vertex_rows. rewrite dl0_low by exact Hlt.
      rewrite (reix_t_nth (firstn M t) r e Hr He).
      f_equal. exact (proj2 (reix_table_inverse (firstn M t) _ (in_flat (firstn M t) r e Hr He))).
    - intros Hin. rewrite Forall_forall in Hhi. specialize (Hhi _ Hin). unfold hi_t, hi_uniq, hi_vertex_rows in *. lia.
  Qed.

  (* higher-order slots: node number idx[k] receives the coordinates of external node src[k], provided slots that share
     a node number carry equal coordinates (shared edge / face nodes coincide) *)
  Theorem postinit_high k :
    length src = length idx -> k < length idx -> nth k idx 0 < length dl0 ->
    (forall k', k' < length idx -> nth k' idx 0 = nth k idx 0 -> nth (nth k' src 0) p zero = nth (nth k src 0) p zero) ->
    nth (nth k idx 0) dl zero = nth (nth k src 0) p zero.
  Proof.
    intros Hl Hk Hb Hc. unfold hi_doflocs. apply scatter_consistent.
    - unfold gather. rewrite map_length. exact Hl.
    - exact Hb.
    - intros k' Hk' He. unfold gather. rewrite (map_nth_in (fun i => nth i p zero) src k' 0 zero) by lia. apply Hc; assumption.
    - left. apply nth_In. exact Hk.
  Qed.

  (* round trip: on a mesh that already is in the canonical order (vertices numbered 0 .. nv-1 first, the higher-order
     rows of t ARE the element's DOF numbers, every number nv .. N-1 occurs, N = |p|) the reordering is the identity *)
  Theorem postinit_identity (nv : nat) :
    uniq = seq 0 nv -> edofs_hi = skipn M t -> length p = S (list_max (concat t)) -> nv <= length p ->
    Forall (fun k => nv <= k) src -> (forall i, nv <= i < length p -> In i src) ->
    hi_t M t = firstn M t /\ dl = p.
  Proof.
    intros Hu He Hlen Hnv Hhi Hcov. split.
    - unfold hi_t, reix_t. transitivity (map (fun row : list nat => row) (firstn M t)); [|apply map_id].
      apply map_ext_in. intros row Hrow.
      transitivity (map (fun v : nat => v) row); [|apply map_id]. apply map_ext_in. intros v Hv.
      assert (Hin : In v (concat (firstn M t))) by (apply in_concat; exists row; split; assumption).
      destruct (reix_table_inverse (firstn M t) v Hin) as [H1 H2].
      fold (hi_vertex_rows M t) in H1, H2. fold uniq in H1, H2. rewrite Hu in H1, H2.
      rewrite seq_length in H1. rewrite seq_nth in H2 by exact H1. exact H2.
    - assert (Hl0 : length dl0 = length p).
      { unfold hi_doflocs0. rewrite app_length, repeat_length. unfold gather. rewrite map_length.
        fold uniq. rewrite Hu, seq_length. lia. }
      assert (Hl : length dl = length p) by (unfold hi_doflocs; rewrite scatter_length; exact Hl0).
      apply (nth_ext _ _ zero zero Hl). intros i Hi. rewrite Hl in Hi.
      destruct (Nat.lt_ge_cases i nv) as [Hlow|Hhigh].
      + unfold hi_doflocs. rewrite scatter_untouched.
        * rewrite dl0_low by (rewrite Hu, seq_length; exact Hlow). rewrite Hu, seq_nth by exact Hlow. reflexivity.
        * rewrite He. intros Hin. rewrite Forall_forall in Hhi. specialize (Hhi _ Hin). lia.
      + assert (Hin : In i src) by (apply Hcov; lia).
        destruct (In_nth _ _ 0 Hin) as [k [Hk Hik]].
        assert (Hidx : idx = src) by (rewrite He; reflexivity).
        rewrite <- Hik. rewrite <- Hidx at 1. rewrite postinit_high.
        * reflexivity.
        * rewrite Hidx. reflexivity.
        * rewrite Hidx. exact Hk.
        * rewrite Hidx, Hik, Hl0. exact Hi.
        * intros k' Hk' Hek. rewrite Hidx in Hek. rewrite Hek. reflexivity.
  Qed.
End PostInitProofs.
