(* C05 — enforce: for every ring, every valid CSR matrix (empty rows, explicit zeros, unsorted columns,
   unsymmetric patterns; no duplicate entry inside a row), every set D of row numbers in any order:
   if the position arithmetic returns the union of the row ranges [indptr d, indptr (d+1)), then exactly
   the stored values of the rows in D are zeroed, those rows become diag * e_d, every other stored entry
   is untouched, the right-hand side carries x on D, and the solution set is that of the original
   equations outside D together with diag * y_d = x_d. *)
From Coq Require Import List ZArith Bool Arith Lia Ring.
Import ListNotations.
Require Import Base.C05_Np Model.C05_BC Proofs.C05_IdxProofs Proofs.C05_CondenseProofs.

(* ------------------------------------------------------------------ generic list facts *)
Lemma nth_firstn_lt {X} (l : list X) m t d : t < m -> nth t (firstn m l) d = nth t l d.
Proof.
  revert m t; induction l as [|x l IH]; intros m t H; [now rewrite firstn_nil|].
  destruct m as [|m]; [lia|]. destruct t as [|t]; simpl; [reflexivity|]. apply IH. lia.
Qed.
Lemma nth_firstn_ge {X} (l : list X) m t d : m <= t -> nth t (firstn m l) d = d.
Proof. intros H. apply nth_overflow. rewrite firstn_length. lia. Qed.
Lemma nth_skipn {X} (l : list X) lo t d : nth t (skipn lo l) d = nth (lo + t) l d.
Proof.
  revert l; induction lo as [|lo IH]; intros l; [reflexivity|].
  destruct l as [|x l]; simpl; [now destruct t | apply IH].
Qed.
Lemma nth_slice {X} (l : list X) lo hi t d :
  nth t (slice l lo hi) d = if t <? hi - lo then nth (lo + t) l d else d.
Proof.
  unfold slice. destruct (t <? hi - lo) eqn:E.
  - apply Nat.ltb_lt in E. rewrite nth_firstn_lt by assumption. apply nth_skipn.
  - apply Nat.ltb_ge in E. now apply nth_firstn_ge.
Qed.
Lemma slice_length {X} (l : list X) lo hi : length (slice l lo hi) = Nat.min (hi - lo) (length l - lo).
Proof. unfold slice. now rewrite firstn_length, skipn_length. Qed.

Lemma slice_ext {X} (l l' : list X) lo hi d :
  length l = length l' -> (forall t, lo <= t < hi -> nth t l d = nth t l' d) -> slice l lo hi = slice l' lo hi.
Proof.
  intros Hl H. apply (nth_ext _ _ d d); [now rewrite !slice_length, Hl|].
  intros t Ht. rewrite !nth_slice. destruct (t <? hi - lo) eqn:E; [|reflexivity].
  apply Nat.ltb_lt in E. apply H. lia.
Qed.

Lemma nth_const_map {X Y} (c : Y) (l : list X) t : nth t (map (fun _ => c) l) c = c.
Proof. revert t; induction l; intros [|t]; simpl; auto. Qed.

Lemma combine_map_r {X Y Z} (g : Y -> Z) (a : list X) (b : list Y) :
  combine a (map g b) = map (fun p => (fst p, g (snd p))) (combine a b).
Proof. revert b; induction a as [|x a IH]; intros [|y b]; simpl; auto. now rewrite IH. Qed.

Lemma nth_map2_seq {X Y} (f : nat -> X -> Y) (M : list X) s i dM dY :
  i < length M -> nth i (map2 f (seq s (length M)) M) dY = f (s + i) (nth i M dM).
Proof.
  revert s i; induction M as [|x M IH]; intros s i H; simpl in H; [lia|].
  simpl. destruct i as [|i]; [now rewrite Nat.add_0_r|]. rewrite IH by lia. f_equal. lia.
Qed.
Lemma map2_seq_length {X Y} (f : nat -> X -> Y) (M : list X) s : length (map2 f (seq s (length M)) M) = length M.
Proof. rewrite map2_length; rewrite seq_length; reflexivity. Qed.

(* a[ks] = c *)
Lemma fold_upd_const_length {X} (c : X) ks a : length (fold_left (fun acc k => upd acc k c) ks a) = length a.
Proof. revert a; induction ks as [|k ks IH]; intros a; simpl; [reflexivity|]. now rewrite IH, upd_length. Qed.
Lemma fold_upd_const_notin {X} (c : X) ks a j d :
  ~ In j ks -> nth j (fold_left (fun acc k => upd acc k c) ks a) d = nth j a d.
Proof.
  revert a; induction ks as [|k ks IH]; intros a H; simpl; [reflexivity|].
  rewrite IH by (simpl in H; tauto). rewrite nth_upd.
  destruct (Nat.eqb j k) eqn:E; [|reflexivity]. apply Nat.eqb_eq in E. subst. simpl in H. tauto.
Qed.
Lemma fold_upd_const_in {X} (c : X) ks a j d :
  In j ks -> j < length a -> nth j (fold_left (fun acc k => upd acc k c) ks a) d = c.
Proof.
  revert a; induction ks as [|k ks IH]; intros a H Hj; simpl in *; [tauto|].
  destruct (in_dec Nat.eq_dec j ks) as [Hin|Hnin].
  - apply IH; [assumption | now rewrite upd_length].
  - rewrite fold_upd_const_notin by assumption. destruct H as [->|H]; [|tauto].
    rewrite nth_upd, Nat.eqb_refl. apply Nat.ltb_lt in Hj. now rewrite Hj.
Qed.

Section Enforce.
  Context {R : Type} (o : ring_ops R).
  Hypothesis Rth : ring_theory (r0 o) (r1 o) (radd o) (rmul o) (rsub o) (ropp o) (@eq R).
  Add Ring Rring2 : Rth.
  Local Notation "a [+] b" := (radd o a b) (at level 50, left associativity).
  Local Notation "a [*] b" := (rmul o a b) (at level 40, left associativity).
  Local Notation zero := (r0 o).

  (* ---------------------------------------------------------------- validity of the storage *)
  Definition ip_valid (n : nat) (ip : list Z) : Prop :=
    length ip = S n /\ (0 <= nth 0 ip 0)%Z /\ forall i, i < n -> (nth i ip 0 <= nth (S i) ip 0)%Z.
  (* storage validity without any assumption on duplicate entries *)
  Definition csr_valid0 (n : nat) (A : csr R) : Prop :=
    ip_valid n (indptr A) /\ length (indices A) = length (data A) /\
    (nth n (indptr A) 0 <= Z.of_nat (length (data A)))%Z /\
    (forall i, i < n -> forall cv, In cv (csr_row A i) -> fst cv < n).
  Definition csr_valid (n : nat) (A : csr R) : Prop :=
    ip_valid n (indptr A) /\ length (indices A) = length (data A) /\
    (nth n (indptr A) 0 <= Z.of_nat (length (data A)))%Z /\
    (forall i, i < n -> forall cv, In cv (csr_row A i) -> fst cv < n) /\
    (forall i, i < n -> NoDup (map fst (csr_row A i))).
  Lemma csr_valid_weaken n A : csr_valid n A -> csr_valid0 n A.
  Proof. intros (H1 & H2 & H3 & H4 & _). split; [exact H1|]. split; [exact H2|]. split; [exact H3 | exact H4]. Qed.


  Lemma ip_mono n ip i j : ip_valid n ip -> i <= j -> j <= n -> (nth i ip 0 <= nth j ip 0)%Z.
  Proof.
    intros (_ & _ & Hm) Hij. induction Hij as [|j Hij IH]; intros Hj; [lia|].
    specialize (Hm j). lia.
  Qed.
  Lemma ip_nonneg n ip i : ip_valid n ip -> i <= n -> (0 <= nth i ip 0)%Z.
  Proof. intros H Hi. pose proof (ip_mono n ip 0 i H) as Hm. destruct H as (_ & Hz & _). lia. Qed.
  Lemma ipn_mono n ip i j : ip_valid n ip -> i <= j -> j <= n -> ipn ip i <= ipn ip j.
  Proof. intros H Hij Hj. unfold ipn. pose proof (ip_mono n ip i j H Hij Hj). lia. Qed.

  (* membership in the union of row ranges, in nat terms *)
  Lemma in_positions_nat n ip D k :
    ip_valid n ip -> (forall d, In d D -> d < n) ->
    (In (Z.of_nat k) (row_positions ip (map Z.of_nat D)) <-> exists d, In d D /\ ipn ip d <= k < ipn ip (S d)).
  Proof.
    intros Hv HD. rewrite in_row_positions. split.
    - intros (dz & Hdz & Hk). apply in_map_iff in Hdz. destruct Hdz as (d & <- & Hd). exists d. split; [assumption|].
      unfold ipz in Hk. rewrite Nat2Z.id in Hk. replace (Z.to_nat (Z.of_nat d + 1)) with (S d) in Hk by lia.
      unfold ipn. specialize (HD d Hd). pose proof (ip_nonneg n ip d Hv). pose proof (ip_nonneg n ip (S d) Hv). lia.
    - intros (d & Hd & Hk). exists (Z.of_nat d). split; [now apply in_map|].
      unfold ipz. rewrite Nat2Z.id. replace (Z.to_nat (Z.of_nat d + 1)) with (S d) by lia.
      unfold ipn in Hk. specialize (HD d Hd). pose proof (ip_nonneg n ip d Hv). pose proof (ip_nonneg n ip (S d) Hv). lia.
  Qed.

  (* ---------------------------------------------------------------- step 1: the zeroed value array *)
  Definition zeroed_data (ip : list Z) (D : list nat) (dat : list R) : list R :=
    fold_left (fun acc k => upd acc k zero) (map Z.to_nat (row_positions ip (map Z.of_nat D))) dat.

  Lemma scatter_positions_ok n (A : csr R) D :
    csr_valid0 n A -> (forall d, In d D -> d < n) ->
    np_scatter_const (data A) (row_positions (indptr A) (map Z.of_nat D)) zero
    = Some (zeroed_data (indptr A) D (data A)).
  Proof.
    intros (Hv & Hl & Hlast & _) HD. unfold np_scatter_const, zeroed_data.
    rewrite (mapM_ok _ Z.to_nat); [reflexivity|].
    intros k Hk. apply norm_index_ok. apply in_row_positions in Hk. destruct Hk as (dz & Hdz & Hk).
    apply in_map_iff in Hdz. destruct Hdz as (d & <- & Hd). specialize (HD d Hd).
    unfold ipz in Hk. rewrite Nat2Z.id in Hk. replace (Z.to_nat (Z.of_nat d + 1)) with (S d) in Hk by lia.
    pose proof (ip_nonneg n _ d Hv). pose proof (ip_mono n _ (S d) n Hv). lia.
  Qed.

  (* exactly the union of the constrained rows' ranges is zeroed, nothing else is touched *)
  Theorem zeroed_data_spec n (A : csr R) D k :
    csr_valid0 n A -> (forall d, In d D -> d < n) ->
    length (zeroed_data (indptr A) D (data A)) = length (data A) /\
    ((exists d, In d D /\ ipn (indptr A) d <= k < ipn (indptr A) (S d)) ->
       nth k (zeroed_data (indptr A) D (data A)) zero = zero) /\
    (~ (exists d, In d D /\ ipn (indptr A) d <= k < ipn (indptr A) (S d)) ->
       nth k (zeroed_data (indptr A) D (data A)) zero = nth k (data A) zero).
  Proof.
    intros HA HD. pose proof HA as (Hv & Hl & Hlast & _). unfold zeroed_data. split; [apply fold_upd_const_length|]. split.
    - intros Hex. assert (Hin : In k (map Z.to_nat (row_positions (indptr A) (map Z.of_nat D)))).
      { apply in_map_iff. exists (Z.of_nat k). split; [apply Nat2Z.id|]. now apply (in_positions_nat n). }
      destruct (Nat.lt_ge_cases k (length (data A))) as [Hk|Hk].
      + now apply fold_upd_const_in.
      + apply nth_overflow. now rewrite fold_upd_const_length.
    - intros Hnex. apply fold_upd_const_notin. intros Hin. apply Hnex.
      apply in_map_iff in Hin. destruct Hin as (kz & Hkz & Hin).
      assert (Hk0 : (0 <= kz)%Z).
      { apply in_row_positions in Hin. destruct Hin as (dz & Hdz & Hk).
        apply in_map_iff in Hdz. destruct Hdz as (d & <- & Hd). unfold ipz in Hk. rewrite Nat2Z.id in Hk.
        pose proof (ip_nonneg n _ d Hv). specialize (HD d Hd). lia. }
      apply (in_positions_nat n (indptr A) D k Hv HD). replace (Z.of_nat k) with kz by lia. exact Hin.
  Qed.

  (* ---------------------------------------------------------------- step 2: rows of the zeroed matrix *)
  Definition zeroed_csr (A : csr R) (D : list nat) : csr R :=
    {| indptr := indptr A; indices := indices A; data := zeroed_data (indptr A) D (data A) |}.

  Lemma zeroed_row_in n (A : csr R) D i :
    csr_valid0 n A -> (forall d, In d D -> d < n) -> In i D ->
    csr_row (zeroed_csr A D) i = map (fun cv => (fst cv, zero)) (csr_row A i).
  Proof.
    intros HA HD Hi. unfold csr_row, zeroed_csr. simpl.
    change (fun cv : nat * R => (fst cv, zero)) with (fun cv : nat * R => (fst cv, (fun _ : R => zero) (snd cv))).
    rewrite <- (combine_map_r (fun _ : R => zero)). f_equal.
    apply (nth_ext _ _ zero zero).
    - rewrite map_length, !slice_length. destruct (zeroed_data_spec n A D 0 HA HD) as (Hl & _). now rewrite Hl.
    - intros t _. rewrite nth_const_map, nth_slice. destruct (t <? _) eqn:E; [|reflexivity].
      apply Nat.ltb_lt in E. destruct (zeroed_data_spec n A D (ipn (indptr A) i + t) HA HD) as (_ & Hz & _).
      apply Hz. exists i. split; [assumption | lia].
  Qed.

  Lemma zeroed_row_out n (A : csr R) D i :
    csr_valid0 n A -> (forall d, In d D -> d < n) -> i < n -> ~ In i D ->
    csr_row (zeroed_csr A D) i = csr_row A i.
  Proof.
    intros HA HD Hin Hi. unfold csr_row, zeroed_csr. simpl. f_equal.
    destruct (zeroed_data_spec n A D 0 HA HD) as (Hl & _).
    apply (slice_ext _ _ _ _ zero); [assumption|]. intros t Ht.
    destruct (zeroed_data_spec n A D t HA HD) as (_ & _ & Hnz). apply Hnz.
    intros (d & Hd & Hk). destruct HA as (Hv & _). specialize (HD d Hd).
    destruct (Nat.lt_trichotomy d i) as [Hlt|[Heq|Hgt]].
    - pose proof (ipn_mono n _ (S d) i Hv). lia.
    - subst. tauto.
    - pose proof (ipn_mono n _ (S i) d Hv). lia.
  Qed.

  (* ---------------------------------------------------------------- step 3: diagonal() / setdiag *)
  Definition unit_vec (j : nat) : list R := repeat zero j ++ [r1 o].
  Lemma vnth_unit j c : vnth o (unit_vec j) c = if Nat.eqb c j then r1 o else zero.
  Proof.
    unfold vnth, unit_vec. destruct (Nat.lt_trichotomy c j) as [H|[H|H]].
    - rewrite app_nth1 by (rewrite repeat_length; lia). rewrite nth_repeat.
      destruct (Nat.eqb c j) eqn:E; [apply Nat.eqb_eq in E; lia | reflexivity].
    - subst. rewrite app_nth2 by (rewrite repeat_length; lia). rewrite repeat_length, Nat.sub_diag, Nat.eqb_refl. reflexivity.
    - rewrite nth_overflow by (rewrite app_length, repeat_length; simpl; lia).
      destruct (Nat.eqb c j) eqn:E; [apply Nat.eqb_eq in E; lia | reflexivity].
  Qed.
  (* the dense entry (sum of the stored duplicates) is the row applied to a unit vector *)
  Lemma dense_entry_as_dot r j : dense_entry o r j = row_dot o r (unit_vec j).
  Proof.
    induction r as [|[c v] r IH]; simpl; [reflexivity|]. rewrite vnth_unit, IH.
    destruct (Nat.eqb c j); ring.
  Qed.

  Lemma has_col_In (r : list (nat * R)) i : has_col r i = true <-> In i (map fst r).
  Proof.
    unfold has_col. rewrite existsb_exists, in_map_iff. split.
    - intros (cv & H & E). apply Nat.eqb_eq in E. eauto.
    - intros (cv & E & H). exists cv. split; [assumption | now apply Nat.eqb_eq].
  Qed.
  Lemma has_col_false (r : list (nat * R)) i : has_col r i = false <-> ~ In i (map fst r).
  Proof. rewrite <- has_col_In. destruct (has_col r i); split; congruence. Qed.

  Lemma row_dot_nocol r i y y' :
    (forall c, c <> i -> vnth o y c = vnth o y' c) -> ~ In i (map fst r) -> row_dot o r y = row_dot o r y'.
  Proof.
    intros Hy. induction r as [|[c v] r IH]; intros H; simpl in *; [reflexivity|].
    rewrite IH by tauto. rewrite (Hy c) by (intros ->; tauto). reflexivity.
  Qed.
  Lemma dense_entry_nocol r i : ~ In i (map fst r) -> dense_entry o r i = zero.
  Proof.
    induction r as [|[c v] r IH]; intros H; simpl in *; [reflexivity|].
    destruct (Nat.eqb c i) eqn:E; [apply Nat.eqb_eq in E; tauto | apply IH; tauto].
  Qed.
  Lemma dense_entry_unique r i v : NoDup (map fst r) -> In (i, v) r -> dense_entry o r i = v.
  Proof.
    induction r as [|[c w] r IH]; intros ND H; simpl in *; [tauto|]. inversion ND as [|c' l' Hc ND']; subst.
    destruct H as [H|H].
    - inversion H; subst. rewrite Nat.eqb_refl, dense_entry_nocol by assumption. ring.
    - destruct (Nat.eqb c i) eqn:E.
      + apply Nat.eqb_eq in E. subst. exfalso. apply Hc. apply in_map_iff. exists (i, v). auto.
      + now apply IH.
  Qed.

  (* setdiag with the row's own diagonal value: every stored entry keeps its place and value; a missing
     diagonal entry is inserted as an explicit zero *)
  Lemma setdiag_row_same r i :
    NoDup (map fst r) ->
    setdiag_row i (dense_entry o r i) r = r \/
    (has_col r i = false /\ setdiag_row i (dense_entry o r i) r = r ++ [(i, zero)]).
  Proof.
    intros ND. unfold setdiag_row. destruct (has_col r i) eqn:E.
    - left. rewrite <- (map_id r) at 2. apply map_ext_in. intros [c w] Hcw. simpl.
      destruct (Nat.eqb c i) eqn:Ec; [|reflexivity]. apply Nat.eqb_eq in Ec. subst.
      now rewrite (dense_entry_unique r i w).
    - right. split; [reflexivity|]. apply has_col_false in E. now rewrite dense_entry_nocol.
  Qed.

  Definition zero_row (r : list (nat * R)) : list (nat * R) := map (fun cv => (fst cv, zero)) r.
  Lemma zero_row_cols r : map fst (zero_row r) = map fst r.
  Proof. unfold zero_row. rewrite map_map. reflexivity. Qed.
  Lemma row_dot_zero_row r y : row_dot o (zero_row r) y = zero.
  Proof. induction r as [|[c v] r IH]; simpl; [reflexivity|]. fold (zero_row r). rewrite IH. ring. Qed.

  Lemma row_dot_replace_zero r i v y :
    NoDup (map fst r) ->
    row_dot o (map (fun cv : nat * R => if Nat.eqb (fst cv) i then (i, v) else cv) (zero_row r)) y
    = if has_col r i then v [*] vnth o y i else zero.
  Proof.
    induction r as [|[c w] r IH]; intros ND; [reflexivity|]. inversion ND as [|c' l' Hc ND']; subst.
    simpl. fold (zero_row r). rewrite IH by assumption.
    destruct (Nat.eqb c i) eqn:E; simpl.
    - apply Nat.eqb_eq in E. subst. apply has_col_false in Hc. rewrite Hc. ring.
    - destruct (has_col r i); ring.
  Qed.

  (* a zeroed row with the diagonal set to v acts as  y |-> v * y_i *)
  Lemma row_dot_setdiag_zero r i v y :
    NoDup (map fst r) -> row_dot o (setdiag_row i v (zero_row r)) y = v [*] vnth o y i.
  Proof.
    intros ND. unfold setdiag_row.
    assert (Hc : has_col (zero_row r) i = has_col r i).
    { destruct (has_col r i) eqn:E.
      - apply has_col_In. rewrite zero_row_cols. now apply has_col_In.
      - apply has_col_false. rewrite zero_row_cols. now apply has_col_false. }
    rewrite Hc. destruct (has_col r i) eqn:E.
    - rewrite row_dot_replace_zero, E by assumption. reflexivity.
    - rewrite (row_dot_app o Rth), row_dot_zero_row. simpl. ring.
  Qed.

  (* ---------------------------------------------------------------- step 4: the matrix returned by enforce *)
  Lemma vset_const_length (y : list R) I c : length (vset_const y I c) = length y.
  Proof. apply fold_upd_const_length. Qed.
  Lemma vset_const_in (y : list R) I c i : In i I -> i < length y -> vnth o (vset_const y I c) i = c.
  Proof. intros. unfold vnth, vset_const. now apply fold_upd_const_in. Qed.
  Lemma vset_const_notin (y : list R) I c i : ~ In i I -> vnth o (vset_const y I c) i = vnth o y i.
  Proof. intros. unfold vnth, vset_const. now apply fold_upd_const_notin. Qed.

  Lemma mdiag_length (M : list (list (nat * R))) : length (mdiag o M) = length M.
  Proof. apply map2_seq_length. Qed.
  Lemma vnth_mdiag (M : list (list (nat * R))) i : i < length M -> vnth o (mdiag o M) i = dense_entry o (mrow M i) i.
  Proof. intros H. unfold vnth, mdiag, mrow. now rewrite (nth_map2_seq _ M 0 i []). Qed.
  Lemma mrow_msetdiag (M : list (list (nat * R))) d i :
    i < length M -> length d = length M -> mrow (msetdiag o M d) i = setdiag_row i (vnth o d i) (mrow M i).
  Proof.
    intros H Hd. unfold mrow, msetdiag. rewrite (nth_map2_seq _ M 0 i []) by assumption. simpl.
    assert (E : (i <? length d) = true) by (apply Nat.ltb_lt; lia). now rewrite E.
  Qed.
  Lemma msetdiag_length (M : list (list (nat * R))) d : length (msetdiag o M d) = length M.
  Proof. apply map2_seq_length. Qed.

  Lemma csr_nrows_valid n (A : csr R) : csr_valid0 n A -> csr_nrows A = n.
  Proof. intros ((Hl & _) & _). unfold csr_nrows. now rewrite Hl. Qed.
  Lemma mrow_csr_rows (A : csr R) i : i < csr_nrows A -> mrow (csr_rows A) i = csr_row A i.
  Proof.
    intros H. unfold mrow, csr_rows. rewrite (nth_indep _ _ (csr_row A 0)) by now rewrite map_length, seq_length.
    rewrite map_nth, seq_nth by assumption. reflexivity.
  Qed.

  Variable posf : list Z -> list Z -> option (list Z).
  (* what the tie lemma establishes for the arithmetic regenerated from the source *)
  Definition posf_correct : Prop :=
    forall n ip (D : list nat), ip_valid n ip -> (forall d, In d D -> d < n) ->
      posf ip (map Z.of_nat D) = Some (row_positions ip (map Z.of_nat D)).
  Hypothesis posf_ok : posf_correct.

  Lemma enforce_zeroed_ok n (A : csr R) D :
    csr_valid0 n A -> (forall d, In d D -> d < n) -> enforce_zeroed o posf A D = Some (zeroed_csr A D).
  Proof.
    intros HA HD. unfold enforce_zeroed. rewrite (posf_ok n) by (auto; apply HA). simpl.
    rewrite (scatter_positions_ok n) by assumption. reflexivity.
  Qed.

  Definition enforced_rows (A : csr R) (D : list nat) (diag : R) : list (list (nat * R)) :=
    enforce_diag o (csr_rows (zeroed_csr A D)) D diag.

  Theorem enforce_matrix_spec n (A : csr R) D diag :
    csr_valid n A -> (forall d, In d D -> d < n) ->
    enforce_matrix o posf A D diag = Some (enforced_rows A D diag) /\
    length (enforced_rows A D diag) = n /\
    (forall d, In d D -> forall y, row_dot o (mrow (enforced_rows A D diag) d) y = diag [*] vnth o y d) /\
    (forall i, i < n -> ~ In i D ->
       mrow (enforced_rows A D diag) i = csr_row A i \/
       (has_col (csr_row A i) i = false /\ mrow (enforced_rows A D diag) i = csr_row A i ++ [(i, zero)])).
  Proof.
    intros HA HD. pose proof (csr_valid_weaken n A HA) as HA0.
    assert (Hn : csr_nrows (zeroed_csr A D) = n) by (unfold csr_nrows; simpl; apply (csr_nrows_valid n A HA0)).
    assert (Hlen : @length (list (nat * R)) (csr_rows (zeroed_csr A D)) = n) by (unfold csr_rows; now rewrite map_length, seq_length, Hn).
    split; [|split; [|split]].
    - unfold enforce_matrix. rewrite (enforce_zeroed_ok n) by assumption. reflexivity.
    - unfold enforced_rows, enforce_diag. now rewrite msetdiag_length.
    - intros d Hd y. pose proof (HD d Hd) as Hdn. unfold enforced_rows, enforce_diag.
      rewrite mrow_msetdiag by (rewrite ?vset_const_length, ?mdiag_length; lia).
      rewrite vset_const_in by (rewrite ?mdiag_length; auto; lia).
      rewrite mrow_csr_rows by lia. rewrite (zeroed_row_in n) by auto.
      apply row_dot_setdiag_zero. destruct HA as (_ & _ & _ & _ & HN). now apply HN.
    - intros i Hi Hni. unfold enforced_rows, enforce_diag.
      rewrite mrow_msetdiag by (rewrite ?vset_const_length, ?mdiag_length; lia).
      rewrite vset_const_notin by assumption. rewrite vnth_mdiag by lia.
      rewrite mrow_csr_rows by lia. rewrite (zeroed_row_out n) by assumption.
      apply setdiag_row_same. destruct HA as (_ & _ & _ & _ & HN). now apply HN.
  Qed.

  (* dense form: a constrained row is diag * e_d *)
  Corollary enforce_matrix_dense n (A : csr R) D diag d j :
    csr_valid n A -> (forall d, In d D -> d < n) -> In d D ->
    dense_entry o (mrow (enforced_rows A D diag) d) j = if Nat.eqb d j then diag else zero.
  Proof.
    intros HA HD Hd. destruct (enforce_matrix_spec n A D diag HA HD) as (_ & _ & Hrow & _).
    rewrite dense_entry_as_dot, (Hrow d Hd), vnth_unit. destruct (Nat.eqb d j); ring.
  Qed.

  (* rows outside D: same action on every vector, every stored entry still there *)
  Corollary enforce_matrix_untouched n (A : csr R) D diag i :
    csr_valid n A -> (forall d, In d D -> d < n) -> i < n -> ~ In i D ->
    (forall cv, In cv (csr_row A i) -> In cv (mrow (enforced_rows A D diag) i)) /\
    (forall y, row_dot o (mrow (enforced_rows A D diag) i) y = row_dot o (csr_row A i) y).
  Proof.
    intros HA HD Hi Hni. destruct (enforce_matrix_spec n A D diag HA HD) as (_ & _ & _ & Hout).
    destruct (Hout i Hi Hni) as [E|[_ E]]; rewrite E.
    - split; auto.
    - split; [intros cv H; apply in_or_app; now left|]. intros y. rewrite (row_dot_app o Rth). simpl. ring.
  Qed.

  (* the whole call with a vector right-hand side, both call forms *)
  Theorem enforce_spec n (A : csr R) (b x : list R) Isel Dsel diag :
    csr_valid n A -> length b = n ->
    (forall S, Isel = Some S -> given_ok n S) -> (forall S, Dsel = Some S -> given_ok n S) ->
    (exists S, (Isel = Some S /\ Dsel = None) \/ (Isel = None /\ Dsel = Some S)) ->
    exists I D, init_bc n Isel Dsel = Some (I, D) /\ split_ok n I D /\
      enforce o posf A b x Isel Dsel diag = Some (enforced_rows A D diag, enforce_rhs o b x D) /\
      length (enforce_rhs o b x D) = n /\
      (forall d, In d D -> vnth o (enforce_rhs o b x D) d = vnth o x d) /\
      (forall i, ~ In i D -> vnth o (enforce_rhs o b x D) i = vnth o b i).
  Proof.
    intros HA Hb HI HD (S & Hsel).
    assert (Hex : exists I D, init_bc n Isel Dsel = Some (I, D)).
    { destruct Hsel as [[-> ->]|[-> ->]]; simpl; eauto. }
    destruct Hex as (I & D & E). exists I, D. split; [assumption|].
    assert (HS : split_ok n I D) by (eapply init_bc_split; eauto).
    split; [assumption|]. destruct HS as (NI & ND & BI & BD & P).
    split; [|split; [|split]].
    - unfold enforce. rewrite (csr_nrows_valid n A (csr_valid_weaken n A HA)), E. simpl.
      destruct (enforce_matrix_spec n A D diag HA BD) as (-> & _). reflexivity.
    - unfold enforce_rhs. now rewrite vset_length.
    - intros d Hd. unfold enforce_rhs. destruct (In_nth D d 0 Hd) as (p & Hp & <-).
      rewrite (vset_at o);
        [now apply vnth_vsel | assumption | unfold vsel; now rewrite map_length | intros j Hj; rewrite Hb; auto | assumption].
    - intros i Hi. unfold enforce_rhs. now apply vset_notin.
  Qed.

  (* solution set: the enforced system says  diag * y_d = x_d  on D  and the ORIGINAL equations elsewhere *)
  Theorem enforce_solution_iff n (A : csr R) (b x : list R) D diag (y : list R) :
    csr_valid n A -> length b = n -> NoDup D -> (forall d, In d D -> d < n) ->
    ((forall i, i < n -> row_dot o (mrow (enforced_rows A D diag) i) y = vnth o (enforce_rhs o b x D) i) <->
     (forall d, In d D -> diag [*] vnth o y d = vnth o x d) /\
     (forall i, i < n -> ~ In i D -> row_dot o (csr_row A i) y = vnth o b i)).
  Proof.
    intros HA Hb ND HD.
    destruct (enforce_matrix_spec n A D diag HA HD) as (_ & _ & Hin & _).
    assert (Hrhs_in : forall d, In d D -> vnth o (enforce_rhs o b x D) d = vnth o x d).
    { intros d Hd. unfold enforce_rhs. destruct (In_nth D d 0 Hd) as (p & Hp & <-).
      rewrite (vset_at o);
        [now apply vnth_vsel | assumption | unfold vsel; now rewrite map_length | intros j Hj; rewrite Hb; auto | assumption]. }
    assert (Hrhs_out : forall i, ~ In i D -> vnth o (enforce_rhs o b x D) i = vnth o b i).
    { intros i Hi. unfold enforce_rhs. now apply vset_notin. }
    split.
    - intros H. split.
      + intros d Hd. rewrite <- (Hin d Hd y), <- (Hrhs_in d Hd). apply H. auto.
      + intros i Hi Hni. destruct (enforce_matrix_untouched n A D diag i HA HD Hi Hni) as (_ & E).
        rewrite <- E, <- (Hrhs_out i Hni). now apply H.
    - intros [H1 H2] i Hi. destruct (in_dec Nat.eq_dec i D) as [Hd|Hni].
      + rewrite (Hin i Hd y), (Hrhs_in i Hd). now apply H1.
      + destruct (enforce_matrix_untouched n A D diag i HA HD Hi Hni) as (_ & E).
        rewrite E, (Hrhs_out i Hni). now apply H2.
  Qed.

  (* matrix right-hand side (mass matrix): reduced by the same call with diag = 0: its constrained rows vanish *)
  Theorem enforce_mass n (A B : csr R) Isel Dsel diag :
    csr_valid n A -> csr_valid n B ->
    (forall S, Isel = Some S -> given_ok n S) -> (forall S, Dsel = Some S -> given_ok n S) ->
    (exists S, (Isel = Some S /\ Dsel = None) \/ (Isel = None /\ Dsel = Some S)) ->
    exists I D, init_bc n Isel Dsel = Some (I, D) /\
      enforce_eig o posf A B Isel Dsel diag = Some (enforced_rows A D diag, enforced_rows B D zero) /\
      (forall d, In d D -> forall y, row_dot o (mrow (enforced_rows A D diag) d) y = diag [*] vnth o y d) /\
      (forall d, In d D -> forall y, row_dot o (mrow (enforced_rows B D zero) d) y = zero) /\
      (forall d, In d D -> forall j, dense_entry o (mrow (enforced_rows B D zero) d) j = zero) /\
      (forall i, i < n -> ~ In i D -> forall y,
          row_dot o (mrow (enforced_rows A D diag) i) y = row_dot o (csr_row A i) y /\
          row_dot o (mrow (enforced_rows B D zero) i) y = row_dot o (csr_row B i) y).
  Proof.
    intros HA HB HI HD (S & Hsel).
    assert (Hex : exists I D, init_bc n Isel Dsel = Some (I, D)).
    { destruct Hsel as [[-> ->]|[-> ->]]; simpl; eauto. }
    destruct Hex as (I & D & E). exists I, D. split; [assumption|].
    assert (HS : split_ok n I D) by (eapply init_bc_split; eauto).
    destruct HS as (NI & ND & BI & BD & P).
    destruct (enforce_matrix_spec n A D diag HA BD) as (EA & _ & HinA & _).
    destruct (enforce_matrix_spec n B D zero HB BD) as (EB & _ & HinB & _).
    split; [|split; [|split; [|split]]].
    - unfold enforce_eig. rewrite (csr_nrows_valid n A (csr_valid_weaken n A HA)), E. simpl. rewrite EA. simpl. rewrite EB. reflexivity.
    - exact HinA.
    - intros d Hd y. rewrite (HinB d Hd y). ring.
    - intros d Hd j. rewrite dense_entry_as_dot, (HinB d Hd). ring.
    - intros i Hi Hni y. split.
      + now destruct (enforce_matrix_untouched n A D diag i HA BD Hi Hni) as (_ & ->).
      + now destruct (enforce_matrix_untouched n B D zero i HB BD Hi Hni) as (_ & ->).
  Qed.
End Enforce.
