(* C03_TraceProofs — soundness of the trace checkers of Model.C03_Trace (part (c) of C03), at every parameter
   value of the facet and in every commutative ring over Q; and the Piola flux identity. *)
From Coq Require Import List Arith ZArith QArith Qfield Bool Lia Ring Ring_theory Setoid Morphisms.
Import ListNotations.
Require Import Base.C09_Poly Base.C09_PolyQ Model.C09_Elem Proofs.C09_ElemProofs Model.C03_Trace.

Lemma pos_of_some i l m : pos_of i l = Some m -> (m < length l)%nat /\ nth m l 0%nat = i.
Proof.
  revert m. induction l as [|j l IH]; intros m H; simpl in H; [discriminate|].
  destruct (Nat.eqb_spec i j) as [->|Hne].
  - inversion H; subst. simpl. split; [lia | reflexivity].
  - destruct (pos_of i l) as [m'|]; [|discriminate]. inversion H; subst.
    destruct (IH m' eq_refl) as [Hm Hn]. simpl. split; [lia | exact Hn].
Qed.

Lemma pos_of_none i l : pos_of i l = None -> ~ In i l.
Proof.
  induction l as [|j l IH]; intros H; simpl in *; [tauto|].
  destruct (Nat.eqb_spec i j) as [->|Hne]; [discriminate|].
  destruct (pos_of i l); [discriminate|]. intros [Hj|Hin]; [congruence | now apply IH].
Qed.

Section TraceSound.
  Variable R : Type.
  Variables (rO rI : R) (radd rmul rsub : R -> R -> R) (ropp : R -> R) (req : R -> R -> Prop).
  Variable phi : Q -> R.
  Hypothesis Rsth : Equivalence req.
  Hypothesis Reqe : ring_eq_ext radd rmul ropp req.
  Hypothesis Rth : ring_theory rO rI radd rmul rsub ropp req.
  Hypothesis Rphi : ring_morph rO rI radd rmul rsub ropp req 0%Q 1%Q Qplus Qmult Qminus Qopp Qeq_bool phi.

  Add Ring Rring3 : Rth (setoid Rsth Reqe).
  Notation "a == b" := (req a b) (at level 70, no associativity).
  Notation "a * b" := (rmul a b).
  Notation pev := (peval R rO rI radd rmul phi).
  Local Instance req_equiv3 : Equivalence req := Rsth.
  Local Instance radd_proper3 : Proper (req ==> req ==> req) radd := Radd_ext Reqe.
  Local Instance rmul_proper3 : Proper (req ==> req ==> req) rmul := Rmul_ext Reqe.

  Let peqb_s := peqb_sound R rO rI radd rmul rsub ropp req phi Rsth Reqe Rth Rphi.
  Let zero_s := pis_zero_sound R rO rI radd rmul rsub ropp req phi Rsth Reqe Rth Rphi.
  Let ev_pscale := peval_pscale R rO rI radd rmul rsub ropp req phi Rsth Reqe Rth Rphi.
  Let ev_psubstn := peval_psubstn R rO rI radd rmul rsub ropp req phi Rsth Reqe Rth Rphi.

  Definition polys_agree (l1 l2 : list poly) : Prop :=
    Forall2 (fun a b => forall pt, pev a pt == pev b pt) l1 l2.

  Lemma polys_eqb_sound l1 : forall l2, polys_eqb l1 l2 = true -> polys_agree l1 l2.
  Proof.
    induction l1 as [|p l1 IH]; intros [|q l2] H; simpl in H; try discriminate; [constructor|].
    apply andb_true_iff in H. destruct H as [H1 H2]. constructor; [exact (peqb_s _ _ H1) | now apply IH].
  Qed.

  (* what the trace polynomial of an H1 function IS: the function evaluated along the parametrised facet *)
  Lemma trace_h1_meaning sl p g s :
    Forall2 (fun c v => pev c s == v) (trace_comps sl (BH1 p g))
            [pev p (at_param R rO rI radd rmul phi (s_param sl) s)].
  Proof. simpl. constructor; [|constructor]. rewrite ev_psubstn. reflexivity. Qed.

  (* what the trace polynomials of a vector-valued function are: (phi . c)(F(s)) for each listed vector c *)
  Lemma trace_vec_meaning sl v c s :
    pev (trace_dot (s_param sl) v c) s == rdot R rO rI radd rmul phi v c (at_param R rO rI radd rmul phi (s_param sl) s).
  Proof. apply (pev_trace_dot R rO rI radd rmul rsub ropp req phi Rsth Reqe Rth Rphi). Qed.

  Definition slot_spec (bs : list bfun) (psi : list (list poly)) (sl : slot) : Prop :=
    length (s_attached sl) = length psi /\ length (s_signs sl) = length psi /\
    (forall s, In s (s_signs sl) -> Qeq s 1%Q \/ Qeq s (Qopp 1%Q)) /\
    forall i, (i < length bs)%nat ->
      let tc := trace_comps sl (nth i bs (BMat [])) in
      (~ In i (s_attached sl) -> forall c, In c tc -> forall s, pev c s == rO) /\
      (forall m, (m < length psi)%nat -> nth m (s_attached sl) 0%nat = i -> pos_of i (s_attached sl) = Some m ->
         Forall2 (fun c q => forall s, pev c s == phi (nth m (s_signs sl) 0%Q) * pev q s) tc (nth m psi [])).

  Theorem slot_ok_sound bs psi sl : slot_ok bs psi sl = true -> slot_spec bs psi sl.
  Proof.
    unfold slot_ok. intros H. apply andb_true_iff in H. destruct H as [H Hf].
    apply andb_true_iff in H. destruct H as [H Hs]. apply andb_true_iff in H. destruct H as [Hl1 Hl2].
    apply Nat.eqb_eq in Hl1. apply Nat.eqb_eq in Hl2.
    split; [exact Hl1|]. split; [exact Hl2|].
    split; [exact (is_sign_spec _ Hs)|].
    intros i Hi. pose proof (forallb_seq _ _ Hf i Hi) as E. cbv beta zeta in E. cbv zeta. split.
    - intros Hnin c Hc s. revert E. destruct (pos_of i (s_attached sl)) as [m|] eqn:Ep; intros E.
      + apply pos_of_some in Ep. destruct Ep as [Hm Hn]. exfalso. apply Hnin. rewrite <- Hn. now apply nth_In.
      + rewrite forallb_forall in E. exact (zero_s _ (E c Hc) s).
    - intros m Hm Hn Ep. revert E. rewrite Ep. intros E. apply polys_eqb_sound in E.
      revert E. generalize (trace_comps sl (nth i bs (BMat []))) (nth m psi []).
      intros l1 l2. revert l2. induction l1 as [|c l1 IH]; intros [|q l2] E; simpl in E; inversion E; subst; constructor.
      + intros s. rewrite (H2 s). apply ev_pscale.
      + now apply IH.
  Qed.

  Definition traces_spec (bs : list bfun) (psi : list (list poly)) (slots : list slot) : Prop :=
    slots <> [] /\ forall sl, In sl slots -> slot_spec bs psi sl.

  Theorem traces_ok_sound bs psi slots : traces_ok bs psi slots = true -> traces_spec bs psi slots.
  Proof.
    unfold traces_ok. intros H. apply andb_true_iff in H. destruct H as [Hne Hf]. split.
    - destruct slots; [discriminate | discriminate].
    - intros sl Hin. rewrite forallb_forall in Hf. apply slot_ok_sound. now apply Hf.
  Qed.

  (* symmetries of the reference facet: psi_m o g = psi_(perm m) at every parameter value *)
  Definition sym_spec (psi : list (list poly)) (g : fsym) : Prop :=
    length (y_perm g) = length psi /\
    forall m, (m < length psi)%nat ->
      Forall2 (fun a b => forall s, pev a (fun k => pev (nthp (y_map g) k) s) == pev b s)
              (nth m psi []) (nth (nth m (y_perm g) 0%nat) psi []).

  Theorem sym_ok_sound psi g : sym_ok psi g = true -> sym_spec psi g.
  Proof.
    unfold sym_ok. intros H. apply andb_true_iff in H. destruct H as [Hl Hf]. apply Nat.eqb_eq in Hl.
    split; [exact Hl|]. intros m Hm. pose proof (forallb_seq _ _ Hf m Hm) as E. cbv beta in E.
    apply polys_eqb_sound in E. revert E.
    generalize (nth m psi []) (nth (nth m (y_perm g) 0%nat) psi []). intros l1.
    induction l1 as [|a l1 IH]; intros [|b l2] E; simpl in E; inversion E; subst; constructor.
    - intros s. rewrite <- (H2 s). symmetry. apply ev_psubstn.
    - now apply IH.
  Qed.

  Definition telem_traces_spec (t : telem) : Prop := traces_spec (e_basis (t_elem t)) (t_psi t) (t_slots t).
  Definition telem_syms_spec (t : telem) : Prop :=
    (forall sl, In sl (t_slots t) -> forall s, In s (s_signs sl) -> Qeq s 1%Q) /\
    t_syms t <> [] /\ forall g, In g (t_syms t) -> sym_spec (t_psi t) g.

  Theorem telem_syms_ok_sound t : telem_syms_ok t = true -> telem_syms_spec t.
  Proof.
    unfold telem_syms_ok. intros H. apply andb_true_iff in H. destruct H as [H Hy].
    apply andb_true_iff in H. destruct H as [Hp Hne]. split; [|split].
    - intros sl Hsl s Hs. unfold signs_all_plus in Hp. rewrite forallb_forall in Hp.
      specialize (Hp sl Hsl). rewrite forallb_forall in Hp. apply Qeq_bool_eq. now apply Hp.
    - destruct (t_syms t); [discriminate | discriminate].
    - intros g Hg. unfold syms_ok in Hy. rewrite forallb_forall in Hy. apply sym_ok_sound. now apply Hy.
  Qed.

End TraceSound.

(* per-slot signs do not depend on the slot *)
Lemma qlist_eqb_sound a : forall b, qlist_eqb a b = true -> Forall2 Qeq a b.
Proof.
  induction a as [|x a IH]; intros [|y b] H; simpl in H; try discriminate; constructor.
  - apply andb_true_iff in H. now apply Qeq_bool_eq.
  - apply andb_true_iff in H. now apply IH.
Qed.

Lemma Forall2_Qeq_refl (l : list Q) : Forall2 Qeq l l.
Proof. induction l; constructor; [reflexivity | assumption]. Qed.

Theorem signs_uniform_sound slots : signs_uniform slots = true ->
  forall s1 s2, In s1 slots -> In s2 slots -> Forall2 Qeq (s_signs s1) (s_signs s2).
Proof.
  destruct slots as [|s0 rest]; intros H s1 s2 H1 H2; [contradiction|].
  simpl in H. rewrite forallb_forall in H.
  assert (Hall : forall s, In s (s0 :: rest) -> Forall2 Qeq (s_signs s0) (s_signs s)).
  { intros s [<-|Hs]; [|now apply qlist_eqb_sound, H].
    apply Forall2_Qeq_refl. }
  pose proof (Hall s1 H1) as A1. pose proof (Hall s2 H2) as A2.
  clear - A1 A2. revert A2. generalize (s_signs s2). induction A1 as [|x y l l' Hxy A1 IH]; intros l2 A2; inversion A2; subst; constructor.
  - rewrite <- Hxy. assumption.
  - now apply IH.
Qed.

(* ---- Piola flux identity: (A phi) . (A^-T n) = phi . n whenever invA A = I  (2-D and 3-D, over Q;
   the scalar factors 1/|det| of the contravariant map and |det| of the normal/area element cancel) ---- *)
Theorem piola_flux_2d (a11 a12 a21 a22 b11 b12 b21 b22 p1 p2 n1 n2 s : Q) :
  b11 * a11 + b12 * a21 == 1 -> b11 * a12 + b12 * a22 == 0 ->
  b21 * a11 + b22 * a21 == 0 -> b21 * a12 + b22 * a22 == 1 ->
  ((a11 * p1 + a12 * p2) * s) * (b11 * n1 + b21 * n2) + ((a21 * p1 + a22 * p2) * s) * (b12 * n1 + b22 * n2)
  == s * (p1 * n1 + p2 * n2).
Proof.
  intros H11 H12 H21 H22.
  transitivity (s * (p1 * n1 * (b11 * a11 + b12 * a21) + p2 * n1 * (b11 * a12 + b12 * a22)
                     + p1 * n2 * (b21 * a11 + b22 * a21) + p2 * n2 * (b21 * a12 + b22 * a22))); [ring|].
  rewrite H11, H12, H21, H22. ring.
Qed.

Theorem piola_flux_3d (a11 a12 a13 a21 a22 a23 a31 a32 a33 b11 b12 b13 b21 b22 b23 b31 b32 b33 p1 p2 p3 n1 n2 n3 s : Q) :
  b11 * a11 + b12 * a21 + b13 * a31 == 1 -> b11 * a12 + b12 * a22 + b13 * a32 == 0 -> b11 * a13 + b12 * a23 + b13 * a33 == 0 ->
  b21 * a11 + b22 * a21 + b23 * a31 == 0 -> b21 * a12 + b22 * a22 + b23 * a32 == 1 -> b21 * a13 + b22 * a23 + b23 * a33 == 0 ->
  b31 * a11 + b32 * a21 + b33 * a31 == 0 -> b31 * a12 + b32 * a22 + b33 * a32 == 0 -> b31 * a13 + b32 * a23 + b33 * a33 == 1 ->
  ((a11 * p1 + a12 * p2 + a13 * p3) * s) * (b11 * n1 + b21 * n2 + b31 * n3)
  + ((a21 * p1 + a22 * p2 + a23 * p3) * s) * (b12 * n1 + b22 * n2 + b32 * n3)
  + ((a31 * p1 + a32 * p2 + a33 * p3) * s) * (b13 * n1 + b23 * n2 + b33 * n3)
  == s * (p1 * n1 + p2 * n2 + p3 * n3).
Proof.
  intros H11 H12 H13 H21 H22 H23 H31 H32 H33.
  transitivity (s * (p1 * n1 * (b11 * a11 + b12 * a21 + b13 * a31) + p2 * n1 * (b11 * a12 + b12 * a22 + b13 * a32)
                     + p3 * n1 * (b11 * a13 + b12 * a23 + b13 * a33)
                     + p1 * n2 * (b21 * a11 + b22 * a21 + b23 * a31) + p2 * n2 * (b21 * a12 + b22 * a22 + b23 * a32)
                     + p3 * n2 * (b21 * a13 + b22 * a23 + b23 * a33)
                     + p1 * n3 * (b31 * a11 + b32 * a21 + b33 * a31) + p2 * n3 * (b31 * a12 + b32 * a22 + b33 * a32)
                     + p3 * n3 * (b31 * a13 + b32 * a23 + b33 * a33))); [ring|].
  rewrite H11, H12, H13, H21, H22, H23, H31, H32, H33. ring.
Qed.
