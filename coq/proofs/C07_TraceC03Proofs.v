(* C07 — trace support instantiated on group F's trace lemma (Model.C03_Trace / Proofs.C03_TraceProofs): for an element whose
   regenerated polynomials pass C03's trace checker, the abstract hypothesis "unattached local basis functions have zero trace"
   of trace_support is DISCHARGED, given a boolean check that C03's attached local indices are rows of attached (kind, slot)s. *)
From Coq Require Import List Arith ZArith QArith Bool Lia Ring Ring_theory Setoid Morphisms.
Import ListNotations.
Require Import Base.C09_Poly Base.C09_PolyQ Model.C09_Elem Model.C03_Trace Proofs.C03_TraceProofs.
Require Import Base.C11_Unique Model.C11_Topo Model.C04_Dofs Model.C07_Query Proofs.C04_DofsProofs Proofs.C07_QueryProofs
               Proofs.C07_TraceProofs.
Local Open Scope nat_scope.

(* (kind, local slot) attached to the closure of local facet sidx, from the refdom tables *)
Definition att_of (facet_idx edge_idx : list (list nat)) (sidx : nat) (kd : kind) (s' : nat) : bool :=
  match kd with
  | Nodal => existsb (Nat.eqb s') (nth sidx facet_idx [])
  | Edge => subset (nth s' edge_idx []) (nth sidx facet_idx [])
  | Facet => s' =? sidx
  | Interior => false
  end.

(* every local index C03 lists as attached to local facet sidx is the row of some component k of an attached (kind, slot),
   for the row layout of C04 (nn vertex slots, nes edge slots, nfs facet slots) *)
Definition attached_ok (dim nd ed fd id nn nes nfs : nat) (facet_idx edge_idx : list (list nat)) (sidx : nat)
           (attached : list nat) : bool :=
  let ede := eff_ed dim ed in
  forallb (fun i =>
    existsb (fun kd =>
      existsb (fun s' =>
        existsb (fun k =>
          att_of facet_idx edge_idx sidx kd s' &&
          (i =? match kd with
                | Nodal => s' * nd + k
                | Edge => nn * nd + (s' * ede + k)
                | Facet => nn * nd + (nes * ede + (s' * fd + k))
                | Interior => nn * nd + (nes * ede + (nfs * fd + k))
                end))
          (seq 0 (cnt dim nd ed fd id kd)))
        (seq 0 (match kd with Nodal => nn | Edge => nes | Facet => nfs | Interior => 1 end)))
      [Nodal; Edge; Facet; Interior]) attached.

Section OnC03.
  Variable R : Type.
  Variables (rO rI : R) (radd rmul rsub : R -> R -> R) (ropp : R -> R) (req : R -> R -> Prop).
  Variable phi : Q -> R.
  Hypothesis Rsth : Equivalence req.
  Hypothesis Reqe : ring_eq_ext radd rmul ropp req.
  Hypothesis Rth : ring_theory rO rI radd rmul rsub ropp req.
  Hypothesis Rphi : ring_morph rO rI radd rmul rsub ropp req 0%Q 1%Q Qplus Qmult Qminus Qopp Qeq_bool phi.
  Add Ring RringC07 : Rth (setoid Rsth Reqe).
  Notation pev := (peval R rO rI radd rmul phi).
  Local Instance req_equivC07 : Equivalence req := Rsth.

  Variable te : telem.
  Hypothesis Hspec : telem_traces_spec R rO rI radd rmul req phi te.

  Variables dim nd ed fd id nv ne nf nt : nat.
  Variables t t2e t2f : list (list nat).
  Notation D := (dofs_init dim nd ed fd id 0 nv ne nf nt t t2e t2f).
  Hypothesis Hwf : wf dim fd nv ne nf nt t t2e t2f.
  Variables facet_idx edge_idx : list (list nat).
  Hypothesis Lt : length t2f = length facet_idx.
  Hypothesis Lnb : length (D_element D) = length (e_basis (t_elem te)).

  Variable sidx : nat.                         (* the local facet *)
  Variable sl : slot.
  Hypothesis Hsl : In sl (t_slots te).
  Hypothesis Hatt : attached_ok dim nd ed fd id (length t) (length t2e) (length t2f) facet_idx edge_idx sidx (s_attached sl) = true.

  Variables (ci : nat) (sp : nat -> R).        (* which trace component, at which point of the facet *)
  Definition tr03 (r : nat) : R := pev (nth ci (trace_comps sl (nth r (e_basis (t_elem te)) (BMat []))) []) sp.

  Lemma tr03_zero_or_attached r : r < length (D_element D) ->
    req (tr03 r) rO \/ exists kd s' k, s' < nslots t t2e t2f kd /\ k < cnt dim nd ed fd id kd /\
                                      r = rowpos dim nd ed fd t t2e t2f kd s' k /\ att_of facet_idx edge_idx sidx kd s' = true.
  Proof.
    intros Hr. destruct Hspec as [_ Hall]. destruct (Hall sl Hsl) as [_ [_ [_ Hi]]]. rewrite Lnb in Hr.
    destruct (Hi r Hr) as [Hun _]. cbv zeta in Hun.
    destruct (in_dec Nat.eq_dec r (s_attached sl)) as [Hin|Hnin].
    - right. unfold attached_ok in Hatt. rewrite forallb_forall in Hatt. specialize (Hatt r Hin).
      apply existsb_exists in Hatt. destruct Hatt as [kd [_ H1]]. apply existsb_exists in H1. destruct H1 as [s' [Hs' H2]].
      apply existsb_exists in H2. destruct H2 as [k [Hk H3]]. apply andb_true_iff in H3. destruct H3 as [Ha Heq].
      apply Nat.eqb_eq in Heq. apply in_seq in Hs'. apply in_seq in Hk. exists kd, s', k.
      split; [destruct kd; simpl in *; lia|]. split; [lia|]. split; [|exact Ha]. destruct kd; exact Heq.
    - left. unfold tr03. destruct (Nat.lt_ge_cases ci (length (trace_comps sl (nth r (e_basis (t_elem te)) (BMat []))))) as [Hc|Hc].
      + apply (Hun Hnin). now apply nth_In.
      + rewrite nth_overflow by exact Hc. reflexivity.
  Qed.

  Variable dofnames : list nat.
  Variable offs : offsets.
  Variables facets f2e : list (list nat).
  Variable dim3 : bool.
  Variable F : list nat.
  Hypothesis BF : forall f, In f F -> f < nf.
  Hypothesis Bv : forall f v, In f F -> In v (nth f facets []) -> v < nv.
  Hypothesis Be : forall row f, In row f2e -> In f F -> nth f row 0 < ne.
  Variable e : nat.
  Hypothesis He : e < nt.
  Hypothesis closure : forall kd s', att_of facet_idx edge_idx sidx kd s' = true -> s' < nslots t t2e t2f kd ->
    facet_selected facets f2e dim3 F kd (slot_ent t t2e t2f kd s' e).

  (* the trace component ci at the facet point sp of sum_d w(d) phi_d, seen from cell e through its local facet sidx *)
  Definition trace03 (w : nat -> R) : R :=
    trace_s R rO radd rmul dim nd ed fd id nv ne nf nt t t2e t2f e tr03 w.

  Theorem trace_support_c03 (w w' : nat -> R) :
    (forall d, In d (flatten D (get_facet_dofs D dofnames offs nd ed fd facets f2e dim3 F [])) -> w d = w' d) ->
    req (trace03 w) (trace03 w').
  Proof.
    intros Hag. unfold trace03.
    apply (trace_support_setoid R rO radd rmul req) with (att := att_of facet_idx edge_idx sidx)
      (dofnames := dofnames) (offs := offs) (facets := facets) (f2e := f2e) (dim3 := dim3) (F := F); try assumption.
    - intros x. reflexivity.
    - intros x y H. now symmetry.
    - intros x y z H1 H2. now transitivity y.
    - intros a a' b b' H1 H2. now apply (Radd_ext Reqe).
    - intros x z Hz. transitivity (rmul x rO); [apply (Rmul_ext Reqe); [reflexivity | exact Hz] | ring].
    - exact tr03_zero_or_attached.
  Qed.
End OnC03.

(* ------------------------------------------------------------------ one element class *)
Record tclass := mkTclass {
  tc_t : telem;                                   (* C03's traced element (polynomials regenerated from the real lbasis) *)
  tc_dim : nat; tc_nd : nat; tc_ed : nat; tc_fd : nat; tc_id : nat;     (* cell dimension and DOF counts of the class *)
  tc_nn : nat; tc_facets : list (list nat); tc_edges : list (list nat) (* refdom: vertices, facet slots, edge slots ([] unless 3-D) *)
}.

Definition dslot : slot := mkSlot [] [] [] [].

Definition tclass_ok (c : tclass) : bool :=
  let nes := length (tc_edges c) in let nfs := length (tc_facets c) in
  (length (e_basis (t_elem (tc_t c))) =? tc_nn c * tc_nd c + nes * eff_ed (tc_dim c) (tc_ed c) + nfs * tc_fd c + tc_id c) &&
  (length (t_slots (tc_t c)) =? nfs) &&
  forallb (fun si => attached_ok (tc_dim c) (tc_nd c) (tc_ed c) (tc_fd c) (tc_id c) (tc_nn c) nes nfs (tc_facets c) (tc_edges c) si
                                 (s_attached (nth si (t_slots (tc_t c)) dslot)))
          (seq 0 (length (t_slots (tc_t c)))).

Theorem trace_support_class (c : tclass) :
  tclass_ok c = true -> telem_traces_ok (tc_t c) = true ->
  forall (R : Type) (rO rI : R) (radd rmul rsub : R -> R -> R) (ropp : R -> R) (req : R -> R -> Prop) (phi : Q -> R),
    Equivalence req -> ring_eq_ext radd rmul ropp req -> ring_theory rO rI radd rmul rsub ropp req ->
    ring_morph rO rI radd rmul rsub ropp req 0%Q 1%Q Qplus Qmult Qminus Qopp Qeq_bool phi ->
  forall nv ne nf nt t t2e t2f,
    wf (tc_dim c) (tc_fd c) nv ne nf nt t t2e t2f ->
    length t = tc_nn c -> length t2e = length (tc_edges c) -> length t2f = length (tc_facets c) ->
  forall dofnames offs facets f2e dim3 F,
    (forall f, In f F -> f < nf) -> (forall f v, In f F -> In v (nth f facets []) -> v < nv) ->
    (forall row f, In row f2e -> In f F -> nth f row 0 < ne) ->
  forall e sidx, e < nt -> sidx < length (tc_facets c) ->
    (forall kd s', att_of (tc_facets c) (tc_edges c) sidx kd s' = true -> s' < nslots t t2e t2f kd ->
       facet_selected facets f2e dim3 F kd (slot_ent t t2e t2f kd s' e)) ->
  forall (ci : nat) (sp : nat -> R) (w w' : nat -> R),
    let D := dofs_init (tc_dim c) (tc_nd c) (tc_ed c) (tc_fd c) (tc_id c) 0 nv ne nf nt t t2e t2f in
    (forall d, In d (flatten D (get_facet_dofs D dofnames offs (tc_nd c) (tc_ed c) (tc_fd c) facets f2e dim3 F [])) -> w d = w' d) ->
    req (trace03 R rO rI radd rmul phi (tc_t c) (tc_dim c) (tc_nd c) (tc_ed c) (tc_fd c) (tc_id c) nv ne nf nt t t2e t2f
                 (nth sidx (t_slots (tc_t c)) dslot) ci sp e w)
        (trace03 R rO rI radd rmul phi (tc_t c) (tc_dim c) (tc_nd c) (tc_ed c) (tc_fd c) (tc_id c) nv ne nf nt t t2e t2f
                 (nth sidx (t_slots (tc_t c)) dslot) ci sp e w').
Proof.
  intros Hok Htr R rO rI radd rmul rsub ropp req phi H1 H2 H3 H4 nv ne nf nt t t2e t2f Hwf Lt Le Lf
         dofnames offs facets f2e dim3 F BF Bv Be e sidx He Hs Hcl ci sp w w' D Hag.
  unfold tclass_ok in Hok. apply andb_true_iff in Hok. destruct Hok as [Hok Hall]. apply andb_true_iff in Hok.
  destruct Hok as [Hlen Hns]. apply Nat.eqb_eq in Hlen, Hns. rewrite forallb_forall in Hall.
  assert (Hs' : sidx < length (t_slots (tc_t c))) by (now rewrite Hns).
  pose proof (traces_ok_sound R rO rI radd rmul rsub ropp req phi H1 H2 H3 H4 _ _ _ Htr) as Hspec.
  assert (Lnb : length (D_element D) = length (e_basis (t_elem (tc_t c)))).
  { unfold D. destruct Hwf as [Hfd _]. rewrite (element_rows _ _ _ _ _ _ _ _ _ _ _ _ _ Hfd), Lt, Le, Lf, Hlen. reflexivity. }
  assert (Hin : In (nth sidx (t_slots (tc_t c)) dslot) (t_slots (tc_t c))) by (now apply nth_In).
  assert (Hatt : attached_ok (tc_dim c) (tc_nd c) (tc_ed c) (tc_fd c) (tc_id c) (length t) (length t2e) (length t2f)
                   (tc_facets c) (tc_edges c) sidx (s_attached (nth sidx (t_slots (tc_t c)) dslot)) = true).
  { rewrite Lt, Le, Lf. apply Hall. apply in_seq. lia. }
  exact (trace_support_c03 R rO rI radd rmul rsub ropp req phi H1 H2 H3 (tc_t c) Hspec
           (tc_dim c) (tc_nd c) (tc_ed c) (tc_fd c) (tc_id c) nv ne nf nt t t2e t2f Hwf (tc_facets c) (tc_edges c) Lf Lnb
           sidx _ Hin Hatt ci sp dofnames offs facets f2e dim3 F BF Bv Be e He Hcl w w' Hag).
Qed.
