From Coq Require Import List Arith Bool Lia.
Import ListNotations.
Require Import Model.C19_FormBlock.

(* the flat argument list built by the comprehension `for k in range(2) for j in range(M)` splits into the trial and test tuples *)
Lemma flat_args_split {V} (f g : nat -> V) M :
  firstn M (map f (seq 0 M) ++ map g (seq 0 M) ++ []) = map f (seq 0 M) /\
  skipn M (map f (seq 0 M) ++ map g (seq 0 M) ++ []) = map g (seq 0 M).
Proof.
  assert (L : length (map f (seq 0 M)) = M) by now rewrite map_length, seq_length.
  split.
  - rewrite firstn_app, L, Nat.sub_diag. simpl. rewrite app_nil_r. apply firstn_all2. lia.
  - rewrite skipn_app, L, Nat.sub_diag. simpl. rewrite app_nil_r. rewrite skipn_all2 by lia. reflexivity.
Qed.

Require Import Base.C01_Sums Model.C01_Assembly Proofs.C01_AssemblyProofs.

(* the assembler only applies the integrand pointwise: pointwise equal integrands give the same COO data *)
Lemma bilinear_assemble_form_ext R rO radd rmul V W (f1 f2 : V -> V -> W -> R) w ub vb0 :
  (forall x y p, f1 x y p = f2 x y p) ->
  bilinear_assemble R rO radd rmul V W f1 w ub vb0 = bilinear_assemble R rO radd rmul V W f2 w ub vb0.
Proof.
  intros H. unfold bilinear_assemble. cbv zeta.
  assert (EK : forall bu bv dx nt nq, bilinear_kernel R rO radd rmul V W f1 bu bv w dx nt nq
                                      = bilinear_kernel R rO radd rmul V W f2 bu bv w dx nt nq).
  { intros. unfold bilinear_kernel, sum_axis1. apply map_ext. intros e. apply sumn_ext. intros q _. now rewrite H. }
  destruct (match vb0 with Some b => negb (bnq ub =? bnq b) | None => false end); [reflexivity|]. f_equal.
  apply for_range_ext. intros j s _. apply for_range_ext. intros i [[d r] c] _. now rewrite EK.
Qed.
