(* C08 — the general statement (product of simplices, exponent lists) unfolded for the seven reference
   cells into the familiar closed forms. *)
From Coq Require Import ZArith List QArith Qabs Bool Arith Lia.
Require Import Base.Corr Model.C08_Rules Proofs.C08_RulesProofs Proofs.C08_TensorProofs.
Import ListNotations.

Lemma line_value a : simplexQ 1 [a] == 1 # Pos.of_succ_nat a.
Proof.
  unfold simplexQ, Qeq. simpl pfacts. simpl list_sum. simpl Qnum. simpl Qden.
  replace (a + 0 + 1)%nat with (S a) by lia. rewrite pfact_succ, Pos.mul_1_r, Zpos_P_of_succ_nat.
  rewrite Nat2Z.inj_succ. ring.
Qed.

Lemma exact_line a : exactQ [1%nat] [a] == 1 # Pos.of_succ_nat a.
Proof. unfold exactQ. simpl firstn. simpl skipn. rewrite line_value. ring. Qed.

Lemma exact_tri a b : exactQ [2%nat] [a; b] == Zpos (pfact a * pfact b) # pfact (a + b + 2).
Proof.
  unfold exactQ, simplexQ. simpl firstn. simpl skipn. simpl pfacts. simpl list_sum.
  rewrite Pos.mul_1_r, Nat.add_0_r. ring.
Qed.

Lemma exact_tet a b c : exactQ [3%nat] [a; b; c] == Zpos (pfact a * pfact b * pfact c) # pfact (a + b + c + 3).
Proof.
  unfold exactQ, simplexQ. simpl firstn. simpl skipn. simpl pfacts. simpl list_sum.
  rewrite Pos.mul_1_r, Nat.add_0_r, Pos.mul_assoc, Nat.add_assoc. ring.
Qed.

Lemma exact_quad a b : exactQ [1%nat; 1%nat] [a; b] == 1 # (Pos.of_succ_nat a * Pos.of_succ_nat b).
Proof.
  unfold exactQ. simpl firstn. simpl skipn. rewrite !line_value. unfold Qeq, Qmult. simpl.
  rewrite !Pos.mul_1_r. reflexivity.
Qed.

Lemma exact_hex a b c :
  exactQ [1%nat; 1%nat; 1%nat] [a; b; c] == 1 # (Pos.of_succ_nat a * Pos.of_succ_nat b * Pos.of_succ_nat c).
Proof.
  unfold exactQ. simpl firstn. simpl skipn. rewrite !line_value. unfold Qeq, Qmult. simpl.
  rewrite !Pos.mul_1_r, Pos.mul_assoc. reflexivity.
Qed.

Lemma exact_wedge a b c :
  exactQ [2%nat; 1%nat] [a; b; c] == Zpos (pfact a * pfact b) # (pfact (a + b + 2) * Pos.of_succ_nat c).
Proof.
  unfold exactQ. simpl firstn. simpl skipn. rewrite line_value.
  unfold simplexQ. simpl pfacts. simpl list_sum. rewrite Pos.mul_1_r, Nat.add_0_r.
  unfold Qeq, Qmult. simpl. rewrite !Pos.mul_1_r. reflexivity.
Qed.

Section Explicit.
  Variables (R : qrule) (n : nat) (tol : Q).

  Theorem explicit_line : rule_okQ [1%nat] R n tol -> forall a, (a <= n)%nat ->
    Qabs (qrule_sum R [a] - (1 # Pos.of_succ_nat a)) <= tol.
  Proof.
    intros [_ H] a Ha. rewrite <- exact_line. apply H; [reflexivity|]. simpl. split; [lia|exact I].
  Qed.

  Theorem explicit_tri : rule_okQ [2%nat] R n tol -> forall a b, (a + b <= n)%nat ->
    Qabs (qrule_sum R [a; b] - (Zpos (pfact a * pfact b) # pfact (a + b + 2))) <= tol.
  Proof.
    intros [_ H] a b Hab. rewrite <- exact_tri. apply H; [reflexivity|]. simpl. split; [lia|exact I].
  Qed.

  Theorem explicit_tet : rule_okQ [3%nat] R n tol -> forall a b c, (a + b + c <= n)%nat ->
    Qabs (qrule_sum R [a; b; c] - (Zpos (pfact a * pfact b * pfact c) # pfact (a + b + c + 3))) <= tol.
  Proof.
    intros [_ H] a b c Habc. rewrite <- exact_tet. apply H; [reflexivity|]. simpl. split; [lia|exact I].
  Qed.

  Theorem explicit_quad : rule_okQ [1%nat; 1%nat] R n tol -> forall a b, (a <= n)%nat -> (b <= n)%nat ->
    Qabs (qrule_sum R [a; b] - (1 # (Pos.of_succ_nat a * Pos.of_succ_nat b))) <= tol.
  Proof.
    intros [_ H] a b Ha Hb. rewrite <- exact_quad. apply H; [reflexivity|]. simpl. repeat split; lia.
  Qed.

  Theorem explicit_hex : rule_okQ [1%nat; 1%nat; 1%nat] R n tol ->
    forall a b c, (a <= n)%nat -> (b <= n)%nat -> (c <= n)%nat ->
    Qabs (qrule_sum R [a; b; c] - (1 # (Pos.of_succ_nat a * Pos.of_succ_nat b * Pos.of_succ_nat c))) <= tol.
  Proof.
    intros [_ H] a b c Ha Hb Hc. rewrite <- exact_hex. apply H; [reflexivity|]. simpl. repeat split; lia.
  Qed.

  Theorem explicit_wedge : rule_okQ [2%nat; 1%nat] R n tol ->
    forall a b c, (a + b <= n)%nat -> (c <= n)%nat ->
    Qabs (qrule_sum R [a; b; c] - (Zpos (pfact a * pfact b) # (pfact (a + b + 2) * Pos.of_succ_nat c))) <= tol.
  Proof.
    intros [_ H] a b c Hab Hc. rewrite <- exact_wedge. apply H; [reflexivity|]. simpl. repeat split; lia.
  Qed.
End Explicit.
