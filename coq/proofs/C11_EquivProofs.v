(* C11 — independence of vertex numbering and cell order, as theorems (set level). *)
From Coq Require Import List Arith ZArith Lia Bool Sorted Permutation FinFun.
Import ListNotations.
Require Import Base.C11_Unique Model.C11_Topo Proofs.C11_TopoProofs.

Lemma in_keys_gen C idx x : In x (keys C idx) <-> exists ix c, In ix idx /\ In c C /\ x = sort_entity (slotv ix c).
Proof.
  unfold keys, raw_keys. rewrite in_map_iff. split.
  - intros [k [Hx Hk]]. apply in_flat_map in Hk. destruct Hk as [ix [Hix Hk]]. apply in_map_iff in Hk.
    destruct Hk as [c [Hk Hc]]. exists ix, c. subst. now repeat split.
  - intros [ix [c [Hix [Hc ->]]]]. exists (slotv ix c). split; [reflexivity|]. apply in_flat_map. exists ix.
    split; [exact Hix|]. apply in_map_iff. now exists c.
Qed.

(* ------------------------------------------------------------------ cell order *)
(* permuting the cells changes neither the entity array nor the number a (slot, cell) pair gets *)
Theorem cell_order_invariant cells cells2 idx :
  Permutation cells cells2 ->
  entities true cells2 idx = entities true cells idx /\
  forall s e e2, s < length idx -> e < length cells -> e2 < length cells2 -> nth e2 cells2 [] = nth e cells [] ->
    t2f_at cells2 idx s e2 = t2f_at cells idx s e.
Proof.
  intros P.
  assert (E : entities true cells2 idx = entities true cells idx).
  { apply entities_ext. intros k. rewrite !in_keys_gen. split; intros [ix [c [H1 [H2 H3]]]]; exists ix, c;
      (split; [exact H1|]); (split; [|exact H3]);
      [eapply Permutation_in; [apply Permutation_sym, P | exact H2] | eapply Permutation_in; [exact P | exact H2]]. }
  split; [exact E|]. intros s e e2 Hs He He2 Hc.
  pose proof (t2f_slotwise cells2 idx s e2 Hs He2) as S2. pose proof (t2f_slotwise cells idx s e Hs He) as S1.
  pose proof (t2f_bound cells2 idx s e2 Hs He2) as B2. pose proof (t2f_bound cells idx s e Hs He) as B1.
  rewrite E in S2, B2. unfold key in S1, S2. rewrite Hc in S2.
  destruct (entities_unique_sorted cells idx) as [_ [Hnd _]].
  apply (proj1 (NoDup_nth (entities true cells idx) []) Hnd); [exact B2 | exact B1 | now rewrite S1, S2].
Qed.

(* ------------------------------------------------------------------ vertex relabelling *)
(* slot tuples of valid meshes: pairwise distinct vertices, or distinct vertices padded with one of them (wedge triangles) *)
Definition shape (l : list nat) : Prop := NoDup l \/ exists l0 x, l = l0 ++ [x] /\ NoDup l0 /\ In x l0.

Lemma shape_map (p : nat -> nat) l : (forall a b, p a = p b -> a = b) -> shape l -> shape (map p l).
Proof.
  intros Hinj [H | [l0 [x [-> [N I]]]]].
  - left. now apply (Injective_map_NoDup (f := p)).
  - right. exists (map p l0), (p x). rewrite map_app. split; [reflexivity|]. split; [now apply (Injective_map_NoDup (f := p)) | now apply in_map].
Qed.

(* for such tuples of equal length the key is a complete invariant of the vertex SET *)
Lemma key_eq_iff l1 l2 : shape l1 -> shape l2 -> length l1 = length l2 ->
  (sort_entity l1 = sort_entity l2 <-> (forall v, In v l1 <-> In v l2)).
Proof.
  intros S1 S2 L. split.
  - intros E v. rewrite <- (sort_entity_in l1 v), <- (sort_entity_in l2 v). now rewrite E.
  - intros Hs. destruct S1 as [N1 | [a [x [-> [Na Ix]]]]]; destruct S2 as [N2 | [b [y [-> [Nb Iy]]]]].
    + rewrite !sort_entity_nodup by assumption. apply isort_of_perm. now apply NoDup_Permutation.
    + exfalso. rewrite app_length in L. simpl in L.
      assert (Hinc : incl l1 b).
      { intros v Hv. apply Hs in Hv. apply in_app_iff in Hv. destruct Hv as [Hv|[<-|[]]]; assumption. }
      pose proof (NoDup_incl_length N1 Hinc). lia.
    + exfalso. rewrite app_length in L. simpl in L.
      assert (Hinc : incl l2 a).
      { intros v Hv. apply Hs in Hv. apply in_app_iff in Hv. destruct Hv as [Hv|[<-|[]]]; assumption. }
      pose proof (NoDup_incl_length N2 Hinc). lia.
    + apply padded_key_depends_on_vertex_set; try assumption. intros v. specialize (Hs v).
      rewrite !in_app_iff in Hs. simpl in Hs. split; intros Hv.
      * destruct (proj1 Hs (or_introl Hv)) as [H|[<-|[]]]; assumption.
      * destruct (proj2 Hs (or_introl Hv)) as [H|[<-|[]]]; assumption.
Qed.

Lemma slotv_map (p : nat -> nat) ix c : (forall i, In i ix -> i < length c) -> slotv ix (map p c) = map p (slotv ix c).
Proof.
  intros H. unfold slotv. rewrite map_map. apply map_ext_in. intros i Hi.
  now rewrite (nth_map_d p c i 0 0) by (now apply H).
Qed.

Section Relabel.
  Variable p : nat -> nat.                         (* the new number of every vertex *)
  Hypothesis p_inj : forall a b, p a = p b -> a = b.
  Variables cells idx : list (list nat).
  Variable nn : nat.
  Hypothesis Hlen : Forall (fun c => length c = nn) cells.
  Hypothesis Hidx : Forall (fun ix => forall i, In i ix -> i < nn) idx.
  Hypothesis Hshape : forall ix c, In ix idx -> In c cells -> shape (slotv ix c).
  Notation cells' := (map (map p) cells).
  Notation nt := (length cells).
  Notation ns := (length idx).

  Lemma key_relabel s e : s < ns -> e < nt ->
    key cells' idx s e = sort_entity (map p (slotv (nth s idx []) (nth e cells []))).
  Proof.
    intros Hs He. unfold key. rewrite (nth_map_d (map p) cells e [] []) by exact He.
    rewrite slotv_map; [reflexivity|]. rewrite Forall_forall in Hlen, Hidx.
    rewrite (Hlen _ (nth_In _ _ He)). apply Hidx. now apply nth_In.
  Qed.

  Lemma keys_relabel_iff s e s' e' : s < ns -> e < nt -> s' < ns -> e' < nt ->
    (key cells' idx s e = key cells' idx s' e' <-> key cells idx s e = key cells idx s' e').
  Proof.
    intros Hs He Hs' He'. rewrite !key_relabel by assumption. unfold key.
    set (l1 := slotv (nth s idx []) (nth e cells [])). set (l2 := slotv (nth s' idx []) (nth e' cells [])).
    assert (S1 : shape l1) by (apply Hshape; now apply nth_In).
    assert (S2 : shape l2) by (apply Hshape; now apply nth_In).
    destruct (Nat.eq_dec (length l1) (length l2)) as [L|L].
    - rewrite (key_eq_iff _ _ (shape_map p _ p_inj S1) (shape_map p _ p_inj S2)) by (now rewrite !map_length).
      rewrite (key_eq_iff _ _ S1 S2 L). split; intros H v.
      + split; intros Hv.
        * apply (in_map p) in Hv. apply H in Hv. apply in_map_iff in Hv. destruct Hv as [u [Hu Hin]]. apply p_inj in Hu. now subst.
        * apply (in_map p) in Hv. apply H in Hv. apply in_map_iff in Hv. destruct Hv as [u [Hu Hin]]. apply p_inj in Hu. now subst.
      + rewrite !in_map_iff. split; intros [u [Hu Hin]]; exists u; (split; [exact Hu | now apply H]).
    - split; intros H; exfalso; apply L.
      + assert (H' : length (sort_entity (map p l1)) = length (sort_entity (map p l2))) by now rewrite H.
        assert (G : forall l, shape l -> length (sort_entity l) = length l).
        { intros l [N | [l0 [x [-> [N I]]]]].
          - rewrite sort_entity_nodup by exact N. apply isort_length.
          - rewrite sort_entity_padded by assumption. simpl. rewrite isort_length, app_length. simpl. lia. }
        rewrite !G in H' by (now apply shape_map). now rewrite !map_length in H'.
      + assert (H' : length (sort_entity l1) = length (sort_entity l2)) by now rewrite H.
        assert (G : forall l, shape l -> length (sort_entity l) = length l).
        { intros l [N | [l0 [x [-> [N I]]]]].
          - rewrite sort_entity_nodup by exact N. apply isort_length.
          - rewrite sort_entity_padded by assumption. simpl. rewrite isort_length, app_length. simpl. lia. }
        now rewrite !G in H' by assumption.
  Qed.

  Lemma nt' : length cells' = nt.
  Proof. apply map_length. Qed.

  (* 1. the incidence pattern is the same: two (slot, cell) pairs name the same entity after relabelling iff they did before *)
  Theorem relabel_incidence s e s' e' : s < ns -> e < nt -> s' < ns -> e' < nt ->
    (t2f_at cells' idx s e = t2f_at cells' idx s' e' <-> t2f_at cells idx s e = t2f_at cells idx s' e').
  Proof.
    intros Hs He Hs' He'.
    rewrite (t2f_eq_iff cells' idx s e s' e') by (rewrite ?nt'; assumption).
    rewrite (t2f_eq_iff cells idx s e s' e') by assumption. now apply keys_relabel_iff.
  Qed.

  (* 2. the entity named by (slot, cell) after relabelling has the relabelled vertex set *)
  Theorem relabel_vertex_sets s e v : s < ns -> e < nt ->
    (In v (nth (t2f_at cells' idx s e) (entities true cells' idx) []) <->
     exists u, In u (nth (t2f_at cells idx s e) (entities true cells idx) []) /\ v = p u).
  Proof.
    intros Hs He. rewrite (t2f_slotwise cells' idx s e) by (rewrite ?nt'; assumption).
    rewrite (t2f_slotwise cells idx s e) by assumption. rewrite key_relabel by assumption. unfold key.
    rewrite sort_entity_in, in_map_iff. split; intros [u [H1 H2]]; exists u; rewrite sort_entity_in in *; now split.
  Qed.

  (* 3. cells containing an entity, hence "exactly one neighbour" (boundary), correspond *)
  Theorem relabel_contains s e e1 : s < ns -> e < nt -> e1 < nt ->
    (contains cells' idx (t2f_at cells' idx s e) e1 <-> contains cells idx (t2f_at cells idx s e) e1).
  Proof.
    intros Hs He He1. unfold contains. split; intros [s1 [Hs1 H]]; exists s1; (split; [exact Hs1|]).
    - now apply (relabel_incidence s1 e1 s e).
    - now apply (relabel_incidence s1 e1 s e).
  Qed.

  Theorem relabel_boundary s e : s < ns -> e < nt -> slots_injective cells idx ->
    (row1 (f2t_of cells' idx) (t2f_at cells' idx s e) = (-1)%Z <-> row1 (f2t_of cells idx) (t2f_at cells idx s e) = (-1)%Z).
  Proof.
    intros Hs He Hinj.
    assert (Hinj' : slots_injective cells' idx).
    { intros e0 s1 s2 He0 Hs1 Hs2 H. rewrite nt' in He0. apply (Hinj e0 s1 s2 He0 Hs1 Hs2). now apply (relabel_incidence s1 e0 s2 e0). }
    rewrite (f2t_boundary_iff cells' idx _ Hinj') by (apply t2f_bound; rewrite ?nt'; assumption).
    rewrite (f2t_boundary_iff cells idx _ Hinj) by (now apply t2f_bound). rewrite nt'.
    split; intros H e1 e2 H1 H2 C1 C2; apply (H e1 e2 H1 H2).
    - now apply relabel_contains. - now apply relabel_contains.
    - now apply relabel_contains. - now apply relabel_contains.
  Qed.
End Relabel.

(* ------------------------------------------------------------------ the shape hypothesis from the slot tables *)
Lemma nodupb_sound l : nodupb l = true -> NoDup l.
Proof.
  induction l as [|x r IH]; simpl; intros H; constructor; apply andb_true_iff in H; destruct H as [H1 H2].
  - apply negb_true_iff in H1. intros Hin. assert (E : existsb (Nat.eqb x) r = true); [|congruence].
    apply existsb_exists. exists x. split; [exact Hin | apply Nat.eqb_refl].
  - now apply IH.
Qed.

Theorem slot_shape_sound ix c : slot_shape_ok ix = true -> NoDup c -> (forall i, In i ix -> i < length c) -> shape (slotv ix c).
Proof.
  intros H Nc B. unfold slot_shape_ok in H. apply orb_true_iff in H. destruct H as [H|H].
  - left. apply slotv_NoDup; [exact Nc | now apply nodupb_sound | exact B].
  - apply andb_true_iff in H. destruct H as [H H3]. apply andb_true_iff in H. destruct H as [H1 H2].
    assert (Hne : ix <> []) by (intros ->; discriminate).
    pose proof (app_removelast_last 0 Hne) as E. set (a := removelast ix) in *. set (x := last ix 0) in *.
    assert (Hx : In x a). { apply existsb_exists in H2. destruct H2 as [y [Hy Hxy]]. apply Nat.eqb_eq in Hxy. rewrite Hxy. exact Hy. }
    right. exists (slotv a c), (nth x c 0). split; [rewrite E; unfold slotv; now rewrite map_app|]. split.
    + apply slotv_NoDup; [exact Nc | now apply nodupb_sound|]. intros i Hi. apply B. rewrite E. apply in_app_iff. now left.
    + unfold slotv. exact (in_map (fun i => nth i c 0) a x Hx).
Qed.

(* ------------------------------------------------------------------ the induced bijection on entity numbers *)
Lemma sort_entity_perm l l' : Permutation l l' -> sort_entity l = sort_entity l'.
Proof. intros H. unfold sort_entity. now rewrite (isort_of_perm l l' H). Qed.

(* relabelling commutes with taking the key: key(p(key l)) = key(p(l)) *)
Lemma sort_entity_map_idem (p : nat -> nat) l : (forall a b, p a = p b -> a = b) -> shape l ->
  sort_entity (map p (sort_entity l)) = sort_entity (map p l).
Proof.
  intros Hinj [N | [l0 [x [-> [N I]]]]].
  - rewrite (sort_entity_nodup l N). apply sort_entity_perm, Permutation_map, Permutation_sym, isort_perm.
  - rewrite (sort_entity_padded l0 x N I). rewrite map_app. simpl map.
    assert (N' : NoDup (map p l0)) by (now apply (Injective_map_NoDup (f := p))).
    rewrite (sort_entity_padded (map p l0) (p x) N' (in_map p l0 x I)).
    set (h := hd 0 (isort l0)).
    assert (Hh : In h l0).
    { unfold h. destruct (isort l0) as [|z r] eqn:E.
      - destruct l0; [destruct I|]. pose proof (isort_length (n :: l0)) as L. rewrite E in L. discriminate.
      - simpl. apply isort_in. rewrite E. now left. }
    assert (N2 : NoDup (map p (isort l0))).
    { apply (Injective_map_NoDup (f := p)); [exact Hinj|]. eapply Permutation_NoDup; [apply isort_perm | exact N]. }
    rewrite (sort_entity_perm (p h :: map p (isort l0)) (map p (isort l0) ++ [p h])) by apply Permutation_cons_append.
    rewrite (sort_entity_padded (map p (isort l0)) (p h) N2) by (apply in_map, isort_in, Hh).
    assert (E : isort (map p (isort l0)) = isort (map p l0)) by (apply isort_of_perm, Permutation_map, Permutation_sym, isort_perm).
    now rewrite E.
Qed.

Lemma map_inj_in_NoDup {A B} (f : A -> B) l :
  (forall x y, In x l -> In y l -> f x = f y -> x = y) -> NoDup l -> NoDup (map f l).
Proof.
  induction l as [|a l IH]; intros Hinj Hnd; simpl; constructor; inversion Hnd as [|? ? Hna Hnd']; subst.
  - intros Hin. apply in_map_iff in Hin. destruct Hin as [y [Hy Hyin]]. apply Hna.
    assert (y = a) by (apply Hinj; [now right | now left | exact Hy]). now subst.
  - apply IH; [|exact Hnd']. intros x y Hx Hy. apply Hinj; now right.
Qed.

Section Global.
  Variable p : nat -> nat.
  Hypothesis p_inj : forall a b, p a = p b -> a = b.
  Variables cells idx : list (list nat).
  Variable nn : nat.
  Hypothesis Hlen : Forall (fun c => length c = nn) cells.
  Hypothesis Hidx : Forall (fun ix => forall i, In i ix -> i < nn) idx.
  Hypothesis Hshape : forall ix c, In ix idx -> In c cells -> shape (slotv ix c).
  Notation cells' := (map (map p) cells).
  Notation nt := (length cells).
  Notation ns := (length idx).
  Notation E := (entities true cells idx).
  Notation E' := (entities true cells' idx).

  (* sigma: the number, in the relabelled mesh, of the entity with old number f = rank of its relabelled key *)
  Definition sigma (f : nat) : nat := index_of lex_cmp (sort_entity (map p (nth f E []))) E'.

  Theorem sigma_t2f s e : s < ns -> e < nt -> t2f_at cells' idx s e = sigma (t2f_at cells idx s e).
  Proof.
    intros Hs He. unfold sigma. rewrite (t2f_slotwise cells idx s e Hs He). unfold key.
    rewrite sort_entity_map_idem; [|exact p_inj | apply Hshape; now apply nth_In].
    rewrite <- (key_relabel p cells idx nn Hlen Hidx s e Hs He).
    rewrite <- (t2f_slotwise cells' idx s e) by (rewrite ?map_length; assumption).
    symmetry. apply (index_of_NoDup _ lex_cmp lex_cmp_eq).
    - apply (entities_unique_sorted cells' idx).
    - apply t2f_bound; rewrite ?map_length; assumption.
  Qed.

  (* sigma is a bijection [0, n) -> [0, n') *)
  Theorem sigma_bijection :
    (forall f, f < length E -> sigma f < length E') /\
    (forall f g, f < length E -> g < length E -> sigma f = sigma g -> f = g) /\
    (forall f', f' < length E' -> exists f, f < length E /\ sigma f = f').
  Proof.
    split; [|split].
    - intros f Hf. destruct (t2f_onto cells idx f Hf) as [s [e [Hs [He <-]]]]. rewrite <- sigma_t2f by assumption.
      apply t2f_bound; rewrite ?map_length; assumption.
    - intros f g Hf Hg H. destruct (t2f_onto cells idx f Hf) as [s [e [Hs [He <-]]]].
      destruct (t2f_onto cells idx g Hg) as [s' [e' [Hs' [He' <-]]]]. rewrite <- !sigma_t2f in H by assumption.
      now apply (relabel_incidence p p_inj cells idx nn Hlen Hidx Hshape s e s' e').
    - intros f' Hf'. destruct (t2f_onto cells' idx f' Hf') as [s [e [Hs [He Heq]]]]. rewrite map_length in He.
      exists (t2f_at cells idx s e). split; [now apply t2f_bound | now rewrite <- sigma_t2f].
  Qed.

  Theorem sigma_length : length E' = length E.
  Proof.
    destruct sigma_bijection as [B [I O]].
    assert (H1 : length E' <= length E).
    { (* onto: the image of [0,n) under sigma covers [0,n') *)
      assert (Hinc : incl (seq 0 (length E')) (map sigma (seq 0 (length E)))).
      { intros f' Hf'. apply in_seq in Hf'. destruct (O f' ltac:(lia)) as [f [Hf <-]]. apply in_map, in_seq. lia. }
      pose proof (NoDup_incl_length (seq_NoDup _ _) Hinc) as L. now rewrite seq_length, map_length, seq_length in L. }
    assert (H2 : length E <= length E').
    { assert (Hnd : NoDup (map sigma (seq 0 (length E)))).
      { apply map_inj_in_NoDup; [|apply seq_NoDup]. intros x y Hx Hy. apply in_seq in Hx, Hy. apply I; lia. }
      assert (Hinc : incl (map sigma (seq 0 (length E))) (seq 0 (length E'))).
      { intros y Hy. apply in_map_iff in Hy. destruct Hy as [x [<- Hx]]. apply in_seq in Hx. apply in_seq. split; [lia|]. apply B. lia. }
      pose proof (NoDup_incl_length Hnd Hinc) as L. now rewrite map_length, !seq_length in L. }
    lia.
  Qed.

  (* f2t: the cells containing sigma f are the cells containing f; single-neighbour status is preserved *)
  Theorem sigma_f2t f : f < length E ->
    (forall e1, e1 < nt -> (contains cells' idx (sigma f) e1 <-> contains cells idx f e1)) /\
    (slots_injective cells idx ->
     (row1 (f2t_of cells' idx) (sigma f) = (-1)%Z <-> row1 (f2t_of cells idx) f = (-1)%Z)).
  Proof.
    intros Hf. destruct (t2f_onto cells idx f Hf) as [s [e [Hs [He <-]]]]. rewrite <- sigma_t2f by assumption. split.
    - intros e1 He1. now apply (relabel_contains p p_inj cells idx nn Hlen Hidx Hshape).
    - intros Hinj. now apply (relabel_boundary p p_inj cells idx nn Hlen Hidx Hshape).
  Qed.

  (* the vertex set of entity sigma f is the image of the vertex set of f *)
  Theorem sigma_vertices f v : f < length E ->
    (In v (nth (sigma f) E' []) <-> exists u, In u (nth f E []) /\ v = p u).
  Proof.
    intros Hf. destruct (t2f_onto cells idx f Hf) as [s [e [Hs [He <-]]]]. rewrite <- sigma_t2f by assumption.
    now apply (relabel_vertex_sets p cells idx nn Hlen Hidx).
  Qed.
End Global.

(* ------------------------------------------------------------------ f2e numbers mesh.edges: quadrilateral (unsorted, cyclic) facets *)
Definition quad_pairs (q : list nat) : list (list nat) :=
  map (fun b => sort_entity (slotv b q)) [[0; 1]; [1; 2]; [2; 3]; [0; 3]].

(* q' lists the four vertices of q in the same cyclic order up to rotation / reversal *)
Definition dihedral (q q' : list nat) : Prop :=
  match q with
  | [a; b; c; d] => In q' [[a; b; c; d]; [b; c; d; a]; [c; d; a; b]; [d; a; b; c];
                           [d; c; b; a]; [c; b; a; d]; [b; a; d; c]; [a; d; c; b]]
  | _ => False
  end.

Lemma se_swap x y : sort_entity [x; y] = sort_entity [y; x].
Proof. apply sort_entity_perm, perm_swap. Qed.

Lemma quad_pairs_dihedral q q' x : dihedral q q' -> (In x (quad_pairs q') <-> In x (quad_pairs q)).
Proof.
  destruct q as [|a [|b [|c [|d [|z q]]]]]; simpl; try tauto.
  Opaque sort_entity.
  intros [<-|[<-|[<-|[<-|[<-|[<-|[<-|[<-|[]]]]]]]]]; unfold quad_pairs, slotv; simpl;
    rewrite ?(se_swap b a), ?(se_swap c b), ?(se_swap d c), ?(se_swap d a); tauto.
  Transparent sort_entity.
Qed.

Theorem f2e_numbers_mesh_edges_quad cells facet_idx edge_idx bnd :
  bnd = [[0; 1]; [1; 2]; [2; 3]; [0; 3]] ->
  compose_ok facet_idx bnd edge_idx = true ->
  (* conformity: every cell lists the vertices of each of its facets in the cyclic order of the stored facet column, up to
     rotation / reversal *)
  (forall s e, s < length facet_idx -> e < length cells ->
     dihedral (nth (t2f_at cells facet_idx s e) (entities false cells facet_idx) []) (slotv (nth s facet_idx []) (nth e cells []))) ->
  entities true (entities false cells facet_idx) bnd = entities true cells edge_idx.
Proof.
  intros Hb Hok Hconf. apply entities_ext. intros x.
  unfold compose_ok in Hok. apply andb_true_iff in Hok. destruct Hok as [Ok1 Ok2]. rewrite forallb_forall in Ok1, Ok2.
  assert (Bnd : forall fs b, In fs facet_idx -> In b bnd -> (forall i, In i b -> i < length fs) /\
                 exists es, In es edge_idx /\ same2 (compose fs b) es = true).
  { intros fs b Hfs Hbb. specialize (Ok1 fs Hfs). rewrite forallb_forall in Ok1. specialize (Ok1 b Hbb).
    apply andb_true_iff in Ok1. destruct Ok1 as [B Ex]. rewrite forallb_forall in B. split.
    - intros i Hi. apply Nat.ltb_lt. now apply B.
    - apply existsb_exists in Ex. destruct Ex as [es [H1 H2]]. now exists es. }
  assert (Htp : forall q, In x (map (fun b => sort_entity (slotv b q)) bnd) <-> In x (quad_pairs q)) by (intros q; rewrite Hb; reflexivity).
  rewrite !in_keys_gen. split.
  - intros [b [F [Hbin [HF ->]]]]. destruct (In_nth _ _ [] HF) as [j [Hj HFj]].
    assert (Hj' : j < length (entities true cells facet_idx)).
    { destruct (entities true cells facet_idx) as [|k0 r] eqn:E0.
      - exfalso. unfold entities in Hj, E0. unfold build_entities in Hj, E0. simpl in Hj, E0.
        rewrite map_length, first_index_length in Hj. unfold keys in *. rewrite E0 in Hj. simpl in Hj. lia.
      - rewrite <- E0. destruct (entities_unsorted_spec cells facet_idx 0) as [L _]; [rewrite E0; simpl; lia|]. now rewrite <- L. }
    destruct (entities_unsorted_spec cells facet_idx j Hj') as [_ [_ [s [e [Hs [He [_ [Hcol _]]]]]]]].
    rewrite <- HFj, Hcol.
    destruct (Bnd (nth s facet_idx []) b (nth_In _ _ Hs) Hbin) as [Bb [es [Hes Hsame]]].
    exists es, (nth e cells []). split; [exact Hes|]. split; [now apply nth_In|].
    rewrite slotv_compose by exact Bb. apply sort_entity_perm. unfold slotv. apply Permutation_map. now apply same2_perm.
  - intros [es [c [Hes [Hc ->]]]]. destruct (In_nth _ _ [] Hc) as [e [He Hce]].
    specialize (Ok2 es Hes). apply existsb_exists in Ok2. destruct Ok2 as [fs [Hfs Ex]].
    apply existsb_exists in Ex. destruct Ex as [b' [Hb' Hsame]]. destruct (In_nth _ _ [] Hfs) as [s [Hs Hfss]].
    destruct (Bnd fs b' Hfs Hb') as [Bb _].
    assert (E1 : sort_entity (slotv es c) = sort_entity (slotv b' (slotv fs c))).
    { rewrite slotv_compose by exact Bb. apply sort_entity_perm. unfold slotv. apply Permutation_map, Permutation_sym. now apply same2_perm. }
    assert (Hin : In (sort_entity (slotv es c)) (quad_pairs (slotv fs c))).
    { apply Htp. apply in_map_iff. exists b'. split; [now symmetry | exact Hb']. }
    specialize (Hconf s e Hs He). rewrite Hfss, Hce in Hconf.
    apply (quad_pairs_dihedral _ _ _ Hconf) in Hin. apply Htp in Hin. apply in_map_iff in Hin. destruct Hin as [b [Heq Hbin]].
    exists b, (nth (t2f_at cells facet_idx s e) (entities false cells facet_idx) []). split; [exact Hbin|]. split; [|now symmetry].
    apply nth_In. destruct (entities_unsorted_spec cells facet_idx (t2f_at cells facet_idx s e)) as [L _]; [now apply t2f_bound|].
    rewrite L. now apply t2f_bound.
Qed.

(* ------------------------------------------------------------------ incidence matrices *)
Lemma count_in_pos v c : 0 < count_in v c <-> In v c.
Proof.
  unfold count_in. induction c as [|x c IH]; simpl; [split; [lia | tauto]|].
  destruct (Nat.eqb_spec v x) as [->|Hne]; simpl; [split; [now left | lia]|].
  rewrite IH. split; [now right | intros [H|H]; [congruence | exact H]].
Qed.

Lemma count_in_nodup v c : NoDup c -> count_in v c = if existsb (Nat.eqb v) c then 1 else 0.
Proof.
  unfold count_in. induction 1 as [|x c Hx Hnd IH]; simpl; [reflexivity|].
  destruct (Nat.eqb_spec v x) as [->|Hne]; simpl; [|exact IH].
  assert (E : filter (Nat.eqb x) c = []).
  { clear IH Hnd. induction c as [|y c IHc]; simpl; [reflexivity|]. destruct (Nat.eqb_spec x y) as [->|_].
    - exfalso. apply Hx. now left.
    - apply IHc. intros H. apply Hx. now right. }
  now rewrite E.
Qed.

Lemma incidence_entry (f : nat -> list nat -> nat) ents nv r v : r < length ents -> v < nv ->
  nth v (nth r (map (fun c => map (fun v => f v c) (seq 0 nv)) ents) []) 0 = f v (nth r ents []).
Proof. intros Hr Hv. rewrite (nth_map_d _ ents r [] []) by exact Hr. now rewrite nth_seq_map. Qed.

(* p2f (and p2t / p2e on cells / edges without repeated vertices): shape, entries 0/1, entry = 1 exactly at the members *)
Theorem incidence_01_spec ents nv :
  length (incidence_01 ents nv) = length ents /\
  forall r v, r < length ents -> v < nv ->
    length (nth r (incidence_01 ents nv) []) = nv /\
    (nth v (nth r (incidence_01 ents nv) []) 0 = 1 <-> In v (nth r ents [])) /\
    (nth v (nth r (incidence_01 ents nv) []) 0 = 0 <-> ~ In v (nth r ents [])).
Proof.
  unfold incidence_01. split; [now rewrite map_length|]. intros r v Hr Hv.
  split; [rewrite (nth_map_d _ ents r [] []) by exact Hr; now rewrite map_length, seq_length|].
  rewrite (incidence_entry (fun v c => if 0 <? count_in v c then 1 else 0)) by assumption.
  rewrite <- count_in_pos. destruct (Nat.ltb_spec 0 (count_in v (nth r ents []))); split; split; intros; try lia; try reflexivity.
Qed.

Theorem incidence_count_spec ents nv : Forall (fun c => NoDup c) ents ->
  incidence_count ents nv = incidence_01 ents nv.
Proof.
  intros H. unfold incidence_count, incidence_01. apply map_ext_in. intros c Hc. apply map_ext. intros v.
  rewrite Forall_forall in H. rewrite (count_in_nodup v c (H c Hc)).
  destruct (existsb (Nat.eqb v) c); reflexivity.
Qed.

Theorem e2t_spec cells edges e g : e < length cells -> g < length edges -> NoDup (nth e cells []) ->
  let x := nth g (nth e (e2t_matrix cells edges) []) 0 in
  (x = 0 \/ x = 1) /\
  (x = 1 <-> In (nth 0 (nth g edges []) 0) (nth e cells []) /\ In (nth 1 (nth g edges []) 0) (nth e cells [])).
Proof.
  intros He Hg Hn x. unfold x, e2t_matrix. rewrite (nth_map_d _ cells e [] []) by exact He.
  rewrite (nth_map_d _ edges g [] 0) by exact Hg. rewrite !(count_in_nodup _ _ Hn).
  pose proof (existsb_eqb_in (nth 0 (nth g edges []) 0) (nth e cells [])) as Ha.
  pose proof (existsb_eqb_in (nth 1 (nth g edges []) 0) (nth e cells [])) as Hb.
  destruct (existsb (Nat.eqb (nth 0 (nth g edges []) 0)) (nth e cells []));
    destruct (existsb (Nat.eqb (nth 1 (nth g edges []) 0)) (nth e cells [])); simpl; intuition (try lia; try discriminate).
Qed.

(* ------------------------------------------------------------------ the nodes of a mesh are its vertices *)
Theorem entity_vertices_below_nvertices cells idx f v :
  In v (nth f (entities true cells idx) []) -> f < length (entities true cells idx) -> v < nvertices cells.
Proof.
  intros Hv Hf. assert (Hin : In (nth f (entities true cells idx) []) (entities true cells idx)) by (now apply nth_In).
  apply in_entities in Hin. destruct Hin as [s [e [Hs [He Hk]]]]. rewrite Hk in Hv. unfold key in Hv.
  apply (proj1 (sort_entity_in _ _)) in Hv. unfold slotv in Hv. apply in_map_iff in Hv. destruct Hv as [i [Hv _]]. subst v.
  unfold nvertices. apply Nat.lt_succ_r.
  destruct (Nat.lt_ge_cases i (length (nth e cells []))) as [Hi|Hi].
  - apply in_le_list_max. apply in_concat. exists (nth e cells []). split; [now apply nth_In | now apply nth_In].
  - rewrite nth_overflow by exact Hi. lia.
Qed.
