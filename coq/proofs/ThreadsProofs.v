From Coq Require Import List Arith Lia Permutation Bool.
Import ListNotations.
Require Import Model.Threads.

(* ---------- array_split ---------- *)
Lemma split_sizes_concat {A} szs : forall l : list A,
  list_sum szs = length l -> concat (split_sizes szs l) = l.
Proof.
  induction szs as [|s rest IH]; intros l H; simpl in *.
  - symmetry in H. apply length_zero_iff_nil in H. now subst.
  - rewrite IH.
    + apply firstn_skipn.
    + rewrite skipn_length. lia.
Qed.

Lemma sum_sizes_aux q r : forall n start,
  list_sum (map (fun c => q + (if c <? r then 1 else 0)) (seq start n))
  = n * q + (Nat.min (start + n) r - Nat.min start r).
Proof.
  induction n as [|n IH]; intros start; simpl.
  - lia.
  - rewrite IH. destruct (Nat.ltb_spec start r); lia.
Qed.

Lemma sum_sizes L k : 0 < k -> list_sum (sizes L k) = L.
Proof.
  intros Hk. unfold sizes. rewrite sum_sizes_aux. simpl.
  pose proof (Nat.mod_upper_bound L k ltac:(lia)).
  pose proof (Nat.div_mod L k ltac:(lia)).
  rewrite Nat.min_r by lia. nia.
Qed.

Theorem array_split_concat {A} k (l : list A) : 0 < k -> concat (array_split k l) = l.
Proof. intros Hk. apply split_sizes_concat. now apply sum_sizes. Qed.

Lemma split_sizes_length {A} szs : forall l : list A, length (split_sizes szs l) = length szs.
Proof. induction szs; intros; simpl; auto. Qed.

Theorem array_split_length {A} k (l : list A) : length (array_split k l) = k.
Proof. unfold array_split. rewrite split_sizes_length. unfold sizes. now rewrite map_length, seq_length. Qed.

Lemma nth_map_seq {B} (f : nat -> B) k c d : c < k -> nth c (map f (seq 0 k)) d = f c.
Proof.
  intros H. rewrite (nth_indep _ d (f 0)) by (rewrite map_length, seq_length; lia).
  rewrite map_nth, seq_nth by lia. reflexivity.
Qed.

(* chunk sizes differ by at most one and are non-increasing: the numpy contract *)
Theorem array_split_chunk_len {A} k (l : list A) c : 0 < k -> c < k ->
  length (nth c (array_split k l) []) = length l / k + (if c <? length l mod k then 1 else 0).
Proof.
  intros Hk Hc. unfold array_split.
  assert (G : forall szs (l0 : list A) c0, list_sum szs = length l0 -> c0 < length szs ->
              length (nth c0 (split_sizes szs l0) []) = nth c0 szs 0).
  { induction szs as [|s rest IH]; intros l0 c0 Hs Hlt; simpl in *; [lia|].
    destruct c0.
    - rewrite firstn_length. lia.
    - apply IH; [rewrite skipn_length; lia | lia]. }
  rewrite G.
  - unfold sizes. now rewrite nth_map_seq.
  - now apply sum_sizes.
  - unfold sizes. rewrite map_length, seq_length. lia.
Qed.

(* ---------- the pair list ---------- *)
Lemma in_pairs Nu Nv i j : In (i, j) (pairs Nu Nv) <-> i < Nv /\ j < Nu.
Proof.
  unfold pairs. rewrite in_flat_map. split.
  - intros [j' [Hj Hin]]. apply in_map_iff in Hin. destruct Hin as [i' [Heq Hi]].
    inversion Heq; subst. apply in_seq in Hj, Hi. lia.
  - intros [Hi Hj]. exists j. split; [apply in_seq; lia|].
    apply in_map_iff. exists i. split; [reflexivity | apply in_seq; lia].
Qed.

Lemma NoDup_flat_map_seq {B} (f : nat -> list B) n : forall st,
  (forall j, NoDup (f j)) ->
  (forall j j' x, In x (f j) -> In x (f j') -> j = j') ->
  NoDup (flat_map f (seq st n)).
Proof.
  induction n as [|n IH]; intros st Hnd Hdisj; simpl; [constructor|].
  assert (A : forall l1 l2 : list B, NoDup l1 -> NoDup l2 -> (forall x, In x l1 -> ~ In x l2) -> NoDup (l1 ++ l2)).
  { induction l1 as [|a l1 IH1]; intros l2 H1 H2 H; simpl; auto.
    inversion H1; subst. constructor.
    - rewrite in_app_iff. intros [Hc|Hc]; [contradiction | apply (H a); simpl; auto].
    - apply IH1; auto. intros x Hx. apply H. now right. }
  apply A; auto.
  intros x Hx Hin. apply in_flat_map in Hin. destruct Hin as [j' [Hj' Hx']].
  apply in_seq in Hj'. pose proof (Hdisj st j' x Hx Hx'). lia.
Qed.

Lemma pairs_NoDup Nu Nv : NoDup (pairs Nu Nv).
Proof.
  unfold pairs. apply NoDup_flat_map_seq.
  - intros j. apply FinFun.Injective_map_NoDup; [|apply seq_NoDup].
    intros a b H. now inversion H.
  - intros j j' [a b] H1 H2. apply in_map_iff in H1, H2.
    destruct H1 as [? [E1 _]], H2 as [? [E2 _]]. inversion E1; inversion E2; subst. congruence.
Qed.

Lemma pairs_length Nu Nv : length (pairs Nu Nv) = Nu * Nv.
Proof.
  unfold pairs.
  assert (G : forall st, length (flat_map (fun j => map (fun i => (i, j)) (seq 0 Nv)) (seq st Nu)) = Nu * Nv).
  { induction Nu as [|Nu IH]; intros st; simpl; auto.
    rewrite app_length, map_length, seq_length, IH. reflexivity. }
  apply G.
Qed.

(* ---------- interleavings ---------- *)
Lemma Forall_nil_concat {X} (ws : list (list X)) : Forall (fun w => w = []) ws -> concat ws = [].
Proof. induction 1; simpl; subst; auto. Qed.

Theorem interleaving_perm {X} (ws : list (list X)) tr :
  interleaving ws tr -> Permutation (concat ws) tr.
Proof.
  induction 1 as [ws H | pre x w post tr H IH].
  - now rewrite Forall_nil_concat.
  - rewrite concat_app in *. simpl in *.
    rewrite <- IH. rewrite <- Permutation_middle. reflexivity.
Qed.

Lemma pop_nth_spec {X} n : forall (ws : list (list X)) x ws',
  pop_nth n ws = Some (x, ws') ->
  exists pre w post, ws = pre ++ (x :: w) :: post /\ ws' = pre ++ w :: post.
Proof.
  induction n as [|n IH]; intros [|w rest] x ws' H; simpl in H; try discriminate.
  - destruct w as [|y w']; [discriminate|]. inversion H; subst.
    exists [], w', rest. split; reflexivity.
  - destruct (pop_nth n rest) as [[y rest']|] eqn:E; [|discriminate].
    inversion H; subst. destruct (IH _ _ _ E) as [pre [w0 [post [H1 H2]]]]; subst.
    exists (w :: pre), w0, post. split; reflexivity.
Qed.

Theorem run_schedule_sound {X} sched : forall (ws : list (list X)) tr,
  run_schedule sched ws = Some tr -> interleaving ws tr.
Proof.
  induction sched as [|n sched IH]; intros ws tr H; simpl in H.
  - destruct (forallb _ ws) eqn:E; [|discriminate]. inversion H; subst.
    constructor. rewrite forallb_forall in E. apply Forall_forall. intros w Hw.
    specialize (E w Hw). now destruct w.
  - destruct (pop_nth n ws) as [[x ws']|] eqn:E; [|discriminate].
    destruct (run_schedule sched ws') as [tr'|] eqn:E2; [|discriminate].
    inversion H; subst.
    destruct (pop_nth_spec _ _ _ _ E) as [pre [w [post [H1 H2]]]]; subst.
    constructor. now apply IH.
Qed.

(* completeness of the executable scheduler: every interleaving is the trace of some schedule, so the
   schedules the correspondence draws range over exactly the executions the property quantifies over *)
Lemma pop_nth_at {X} (pre : list (list X)) x w post :
  pop_nth (length pre) (pre ++ (x :: w) :: post) = Some (x, pre ++ w :: post).
Proof.
  induction pre as [|p pre IH]; simpl; [reflexivity|]. now rewrite IH.
Qed.

Theorem run_schedule_complete {X} : forall (ws : list (list X)) tr,
  interleaving ws tr -> exists sched, run_schedule sched ws = Some tr /\ length sched = length tr.
Proof.
  intros ws tr H. induction H as [ws Hall | pre x w post tr _ [sched [IH Hlen]]].
  - exists []. split; [|reflexivity]. simpl.
    replace (forallb _ ws) with true; [reflexivity|]. symmetry. apply forallb_forall.
    intros w Hw. rewrite Forall_forall in Hall. now rewrite (Hall w Hw).
  - exists (length pre :: sched). split; [|simpl; now rewrite Hlen].
    simpl. rewrite pop_nth_at, IH. reflexivity.
Qed.

(* ---------- writes to distinct slots commute ---------- *)
Section Sched.
Variable V : Type.

Lemma slot_eqb_eq (a b : slot) : slot_eqb a b = true <-> a = b.
Proof.
  unfold slot_eqb. destruct a, b; simpl. rewrite Bool.andb_true_iff, !Nat.eqb_eq.
  split; [intros [-> ->]; reflexivity | intros H; inversion H; auto].
Qed.

Lemma run_spec (ws : list (slot * V)) : NoDup (map fst ws) -> forall s x,
  run ws s x = match find (fun w => slot_eqb x (fst w)) ws with
               | Some w => Some (snd w) | None => s x end.
Proof.
  induction ws as [|w ws IH]; intros Hnd s x; simpl; auto.
  inversion Hnd as [|? ? Hnotin Hnd']; subst.
  unfold run in *. simpl. rewrite IH by assumption.
  destruct (slot_eqb x (fst w)) eqn:E.
  - apply slot_eqb_eq in E. subst x.
    destruct (find _ ws) eqn:F.
    + apply find_some in F. destruct F as [Hin Heq]. apply slot_eqb_eq in Heq.
      exfalso. apply Hnotin. rewrite Heq. now apply in_map.
    + unfold write. rewrite (proj2 (slot_eqb_eq _ _) eq_refl). reflexivity.
  - destruct (find _ ws); auto. unfold write. now rewrite E.
Qed.

Lemma find_perm (ws ws' : list (slot * V)) x :
  Permutation ws ws' -> NoDup (map fst ws) ->
  find (fun w => slot_eqb x (fst w)) ws = find (fun w => slot_eqb x (fst w)) ws'.
Proof.
  intros P. induction P as [|x0 l l' P IH|x0 y l|l l' l'' P1 IH1 P2 IH2]; intros Hnd; simpl; auto.
  - inversion Hnd; subst. destruct (slot_eqb x (fst x0)); auto.
  - inversion Hnd as [|? ? H1 H2]; subst. inversion H2 as [|? ? H3 H4]; subst.
    destruct (slot_eqb x (fst x0)) eqn:Ey, (slot_eqb x (fst y)) eqn:Ex; auto.
    apply slot_eqb_eq in Ey, Ex. exfalso. apply H1. left. congruence.
  - rewrite IH1 by assumption. apply IH2.
    eapply Permutation_NoDup; [apply Permutation_map; eassumption | assumption].
Qed.

(* every reordering of the same writes — in particular every interleaving of the workers *)
Theorem schedule_independent (ws ws' : list (slot * V)) s :
  Permutation ws ws' -> NoDup (map fst ws) -> forall x, run ws' s x = run ws s x.
Proof.
  intros P Hnd x.
  rewrite !run_spec; auto.
  - now rewrite (find_perm ws ws' x P Hnd).
  - eapply Permutation_NoDup; [apply Permutation_map; eassumption | assumption].
Qed.

Variable K : nat -> nat -> V.

Lemma serial_steps_pairs Nu Nv : serial_steps K Nu Nv = map (step K) (pairs Nu Nv).
Proof.
  unfold serial_steps, pairs.
  assert (G : forall st, flat_map (fun j => map (fun i => ((j, i), K j i)) (seq 0 Nv)) (seq st Nu)
            = map (step K) (flat_map (fun j => map (fun i => (i, j)) (seq 0 Nv)) (seq st Nu))).
  { induction Nu as [|Nu IH]; intros st; simpl; auto.
    rewrite map_app, map_map, IH. reflexivity. }
  apply G.
Qed.

Lemma step_slots_NoDup Nu Nv : NoDup (map fst (map (step K) (pairs Nu Nv))).
Proof.
  rewrite map_map. apply FinFun.Injective_map_NoDup; [|apply pairs_NoDup].
  intros [a b] [c d] H. unfold step in H. simpl in H. inversion H; subst. reflexivity.
Qed.

Lemma concat_map_map {A B} (f : A -> B) (ls : list (list A)) :
  concat (map (map f) ls) = map f (concat ls).
Proof. induction ls; simpl; auto. now rewrite map_app, IHls. Qed.

(* workers together perform exactly the serial steps, each once *)
Theorem workers_cover_once k Nu Nv : 0 < k ->
  concat (worker_steps K k Nu Nv) = serial_steps K Nu Nv /\
  NoDup (map fst (concat (worker_steps K k Nu Nv))).
Proof.
  intros Hk. unfold worker_steps. rewrite concat_map_map, array_split_concat by assumption.
  split; [now rewrite serial_steps_pairs | apply step_slots_NoDup].
Qed.

Theorem threaded_equals_serial k Nu Nv tr (s : store V) : 0 < k ->
  interleaving (worker_steps K k Nu Nv) tr ->
  forall x, run tr s x = run (serial_steps K Nu Nv) s x.
Proof.
  intros Hk Hil x. apply interleaving_perm in Hil.
  destruct (workers_cover_once k Nu Nv Hk) as [Hc Hnd]. rewrite Hc in *.
  apply schedule_independent; assumption.
Qed.

Theorem threaded_flatten_equals_serial k Nu Nv tr (s : store V) : 0 < k ->
  interleaving (worker_steps K k Nu Nv) tr ->
  flatten Nu Nv (run tr s) = flatten Nu Nv (run (serial_steps K Nu Nv) s).
Proof.
  intros Hk Hil. unfold flatten. apply flat_map_ext. intros j. apply map_ext. intros i.
  now apply threaded_equals_serial with (k := k).
Qed.

(* and the serial loop fills slot (j,i) with K j i, for all j < Nu, i < Nv, nothing else *)
Theorem serial_fills Nu Nv (s : store V) j i :
  run (serial_steps K Nu Nv) s (j, i) = if (j <? Nu) && (i <? Nv) then Some (K j i) else s (j, i).
Proof.
  rewrite serial_steps_pairs, run_spec by apply step_slots_NoDup.
  destruct (find _ _) as [w|] eqn:F.
  - apply find_some in F. destruct F as [Hin Heq]. apply slot_eqb_eq in Heq.
    apply in_map_iff in Hin. destruct Hin as [[i' j'] [Hw Hin]]. subst w. unfold step in *; simpl in *.
    inversion Heq; subst. apply in_pairs in Hin.
    destruct Hin as [H1 H2]. apply Nat.ltb_lt in H1, H2. now rewrite H1, H2.
  - destruct (j <? Nu) eqn:Ej, (i <? Nv) eqn:Ei; simpl; auto.
    apply Nat.ltb_lt in Ej, Ei. exfalso.
    assert (Hin : In (step K (i, j)) (map (step K) (pairs Nu Nv))).
    { apply in_map. apply in_pairs. lia. }
    apply (find_none _ _ F) in Hin. unfold step in Hin. simpl in Hin.
    now rewrite (proj2 (slot_eqb_eq _ _) eq_refl) in Hin.
Qed.

(* end to end for the threaded path: under EVERY interleaving slot (j,i) ends up holding K j i for j<Nu, i<Nv
   and every other slot of the store is left as it was *)
Theorem threaded_fills k Nu Nv tr (s : store V) j i : 0 < k ->
  interleaving (worker_steps K k Nu Nv) tr ->
  run tr s (j, i) = if (j <? Nu) && (i <? Nv) then Some (K j i) else s (j, i).
Proof.
  intros Hk Hil. rewrite (threaded_equals_serial k Nu Nv tr s Hk Hil). apply serial_fills.
Qed.

End Sched.

(* ---------- exceptions: threaded assembly raises exactly when serial assembly does ---------- *)
Lemma existsb_concat {A} (f : A -> bool) (ls : list (list A)) :
  existsb f (concat ls) = existsb (existsb f) ls.
Proof. induction ls as [|l ls IH]; simpl; auto. now rewrite existsb_app, IH. Qed.

Theorem threaded_raises_iff_serial {V} (K : nat -> nat -> option V) k Nu Nv : 0 < k ->
  threaded_raises K k Nu Nv = serial_raises K Nu Nv.
Proof.
  intros Hk. unfold threaded_raises, serial_raises.
  rewrite <- existsb_concat, array_split_concat by assumption. reflexivity.
Qed.
