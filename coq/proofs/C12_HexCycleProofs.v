(* C12 — hexahedra: the cyclic-order conformity hypothesis of C11 (every cell lists the vertices of a face in the same cycle up
   to rotation / reversal) is preserved by one uniform refinement step.  Hence the face-level conformity theorem for hexahedra
   holds at every level of refined(k). *)
From Coq Require Import List Arith Bool Lia Permutation.
Import ListNotations.
Require Import Base.Corr Base.C11_Unique Model.C11_Topo Proofs.C11_TopoProofs Proofs.C11_EquivProofs.
Require Import Model.C12_Refine Model.C13_Adaptive Model.C12_Global Proofs.C12_RefineProofs Proofs.C12_GlobalProofs
               Proofs.C12_InvProofs Proofs.C12_Face3Proofs.
Local Open Scope nat_scope.

(* ------------------------------------------------------------------ the dihedral relation on 4-cycles *)
Definition dih {A} (q q' : list A) : Prop := In q' (dihedral_forms q).

Lemma dih_iff (q q' : list nat) : dih q q' <-> dihedral q q'.
Proof. unfold dih, dihedral, dihedral_forms. destruct q as [|a [|b [|c [|d [|x q]]]]]; simpl; tauto. Qed.

Lemma dih_refl {A} (a b c d : A) : dih [a; b; c; d] [a; b; c; d].
Proof. unfold dih. simpl. auto. Qed.

Lemma dih_sym {A} (q q' : list A) : dih q q' -> dih q' q.
Proof.
  unfold dih. destruct q as [|a [|b [|c [|d [|x q]]]]]; simpl; try tauto.
  intros [<-|[<-|[<-|[<-|[<-|[<-|[<-|[<-|[]]]]]]]]]; simpl; auto 10.
Qed.

Lemma dih_trans {A} (q q' q'' : list A) : dih q q' -> dih q' q'' -> dih q q''.
Proof.
  unfold dih. destruct q as [|a [|b [|c [|d [|x q]]]]]; simpl; try tauto.
  intros [<-|[<-|[<-|[<-|[<-|[<-|[<-|[<-|[]]]]]]]]]; simpl; intros H; repeat (destruct H as [<-|H]; [auto 10|]); destruct H.
Qed.

Lemma dih_map {A B} (f : A -> B) (q q' : list A) : dih q q' -> dih (map f q) (map f q').
Proof.
  unfold dih. destruct q as [|a [|b [|c [|d [|x q]]]]]; simpl; try tauto.
  intros [<-|[<-|[<-|[<-|[<-|[<-|[<-|[<-|[]]]]]]]]]; simpl; auto 10.
Qed.

Lemma nrefs_eqb_eq a : forall b, nrefs_eqb a b = true -> a = b.
Proof.
  unfold nrefs_eqb. induction a as [|x a IH]; intros [|y b] H; simpl in H; try discriminate; [reflexivity|].
  apply andb_true_iff in H. destruct H as [H1 H2]. apply nref_eqb_true in H1. subst. f_equal. now apply IH.
Qed.

Lemma dihedral_nref_spec q q' : dihedral_nref q q' = true -> dih q q'.
Proof.
  unfold dihedral_nref, dih. rewrite existsb_exists. intros [x [Hx He]]. apply nrefs_eqb_eq in He. now subst.
Qed.

(* the two neighbours of a vertex in a cycle are the same in every rotation / reversal of the cycle *)
Lemma dih_neighbours (q q' : list nat) j j' : NoDup q -> length q = 4 -> dih q q' -> j < 4 -> j' < 4 -> nth j q 0 = nth j' q' 0 ->
  (nth ((j' + 1) mod 4) q' 0 = nth ((j + 1) mod 4) q 0 /\ nth ((j' + 3) mod 4) q' 0 = nth ((j + 3) mod 4) q 0) \/
  (nth ((j' + 1) mod 4) q' 0 = nth ((j + 3) mod 4) q 0 /\ nth ((j' + 3) mod 4) q' 0 = nth ((j + 1) mod 4) q 0).
Proof.
  intros Hnd Hl Hd Hj Hj' E. destruct q as [|a [|b [|c [|d [|x q]]]]]; simpl in Hl; try discriminate.
  assert (Dab : a <> b /\ a <> c /\ a <> d /\ b <> c /\ b <> d /\ c <> d).
  { inversion Hnd as [|? ? H1 R1]; subst. inversion R1 as [|? ? H2 R2]; subst. inversion R2 as [|? ? H3 R3]; subst.
    simpl in *. intuition. }
  destruct Dab as [D1 [D2 [D3 [D4 [D5 D6]]]]].
  unfold dih in Hd. simpl in Hd.
  destruct Hd as [<-|[<-|[<-|[<-|[<-|[<-|[<-|[<-|[]]]]]]]]];
    destruct j as [|[|[|[|j]]]]; try lia; destruct j' as [|[|[|[|j']]]]; try lia; simpl in E |- *;
    try (exfalso; congruence); auto.
Qed.

(* pairwise form of the conformity hypothesis: two (slot, cell) pairs spanning the same vertex set list it in the same cycle *)
Definition conf (cells rf : list (list nat)) : Prop :=
  forall s e s' e', s < length rf -> e < length cells -> s' < length rf -> e' < length cells ->
    sort_entity (slotv (nth s rf []) (nth e cells [])) = sort_entity (slotv (nth s' rf []) (nth e' cells [])) ->
    dih (slotv (nth s rf []) (nth e cells [])) (slotv (nth s' rf []) (nth e' cells [])).

(* it is equivalent to the hypothesis of C11_f2e_numbers_mesh_edges_hex *)
Lemma conf_c11 cells rf : (forall s, s < length rf -> length (nth s rf []) = 4) -> conf cells rf ->
  forall s e, s < length rf -> e < length cells ->
    dihedral (nth (t2f_at cells rf s e) (entities false cells rf) []) (slotv (nth s rf []) (nth e cells [])).
Proof.
  intros H4 Hc s e Hs He. apply dih_iff.
  pose proof (t2f_bound cells rf s e Hs He) as Hb.
  destruct (entities_unsorted_spec cells rf _ Hb) as [_ [_ [s0 [e0 [Hs0 [He0 [Et [Eq _]]]]]]]].
  rewrite Eq. apply Hc; try assumption.
  apply (t2f_eq_iff cells rf s0 e0 s e Hs0 He0 Hs He). exact Et.
Qed.

Lemma c11_conf cells rf :
  (forall s e, s < length rf -> e < length cells ->
     dihedral (nth (t2f_at cells rf s e) (entities false cells rf) []) (slotv (nth s rf []) (nth e cells []))) ->
  conf cells rf.
Proof.
  intros H s e s' e' Hs He Hs' He' Hk.
  apply (t2f_eq_iff cells rf s e s' e' Hs He Hs' He') in Hk.
  pose proof (H s e Hs He) as D1. pose proof (H s' e' Hs' He') as D2. rewrite <- Hk in D2.
  apply dih_iff in D1. apply dih_iff in D2. eapply dih_trans; [apply dih_sym; exact D1 | exact D2].
Qed.

Section HexStep.
  Variables (cells rf re : list (list nat)) (nn np : nat) (tpls : list (list nref)).
  Hypothesis Hrf : slots_ok nn rf = true.
  Hypothesis Hre : slots_ok nn re = true.
  Hypothesis Hqf : qface_edges_okb nn rf re = true.
  Hypothesis Hcells : cells_ok nn np cells.
  Hypothesis Htp : tpls_okb nn (length re) (length rf) tpls = true.
  Hypothesis Hsame : hex_same_parent_ok rf tpls = true.
  Hypothesis Hbnd : hex_boundary_ok rf re tpls = true.
  Hypothesis Hconf : conf cells rf.
  Let tb := c11_tables3 cells rf re.
  Notation nE := (length (entities true cells re)).
  Notation nF := (length (entities true cells rf)).
  Let o := canon_offs np nE nF.
  Let res (k : nat) (r : nref) : nat := resolve o (cell_ctx tb k) r.
  Let nok (r : nref) : Prop := nref_inb nn (length re) (length rf) r = true.

  Lemma Hdist : Forall (fun c => NoDup c /\ length c = nn) cells.
  Proof. exact (cells_ok_distinct _ _ _ Hcells). Qed.

  Lemma nok_ok r : nok r -> nref_ok cells rf re nn nE nF (length cells) r.
  Proof.
    unfold nok, nref_inb, nref_ok. destruct r; intros H; try (apply Nat.ltb_lt in H); auto.
  Qed.

  Lemma res_inj k r r' : k < length cells -> nok r -> nok r' -> res k r = res k r' -> r = r'.
  Proof.
    intros Hk H1 H2 E. destruct (tables_of_c11_3 cells rf re) as [Ht [HF HE]].
    exact (resolve_inj cells rf re nn np Hrf Hre Hcells tb Ht HF HE nE nF (length cells) k r r' Hk (nok_ok r H1) (nok_ok r' H2) E).
  Qed.

  (* values: which range, which entity *)
  Lemma res_val k r : k < length cells -> nok r ->
    match r with
    | NV i => res k r = nth i (nth k cells []) 0 /\ res k r < np
    | NE j => res k r = np + t2f_at cells re j k /\ t2f_at cells re j k < nE
    | NF j => res k r = np + nE + t2f_at cells rf j k /\ t2f_at cells rf j k < nF
    | NC => res k r = np + nE + nF + k
    end.
  Proof.
    intros Hk Hr. unfold nok, nref_inb in Hr. unfold res, resolve, o, canon_offs, cell_ctx. cbn [cv ce cf ck offE offF offC].
    destruct r as [i|j|j|]; try apply Nat.ltb_lt in Hr.
    - split; [reflexivity|]. destruct (cell_k cells nn np Hcells k Hk) as [_ [Hl Hb]]. rewrite Forall_forall in Hb.
      apply Hb, nth_In. lia.
    - unfold tb, c11_tables3. cbn [tb_t2e]. rewrite c11_entry by assumption. split; [reflexivity | now apply t2f_bound].
    - unfold tb, c11_tables3. cbn [tb_t2f]. rewrite c11_entry by assumption. split; [reflexivity | now apply t2f_bound].
    - reflexivity.
  Qed.

  (* equal node numbers in two cells: same kind of node, same entity *)
  Lemma res_kind k1 r1 k2 r2 : k1 < length cells -> k2 < length cells -> nok r1 -> nok r2 -> res k1 r1 = res k2 r2 ->
    match r1, r2 with
    | NV i, NV i' => nth i (nth k1 cells []) 0 = nth i' (nth k2 cells []) 0
    | NE j, NE j' => t2f_at cells re j k1 = t2f_at cells re j' k2
    | NF j, NF j' => t2f_at cells rf j k1 = t2f_at cells rf j' k2
    | NC, NC => k1 = k2
    | _, _ => False
    end.
  Proof.
    intros H1 H2 O1 O2 E. pose proof (res_val k1 r1 H1 O1) as V1. pose proof (res_val k2 r2 H2 O2) as V2.
    destruct r1, r2; cbn beta iota in V1, V2; repeat match goal with H : _ /\ _ |- _ => destruct H end; lia.
  Qed.

  Lemma tpl_facts tpl : In tpl tpls -> length tpl = nn /\ forall r, In r tpl -> nok r.
  Proof.
    intros Hin. pose proof Htp as H0. unfold tpls_okb in H0. rewrite forallb_forall in H0. specialize (H0 tpl Hin).
    rewrite !andb_true_iff in H0. destruct H0 as [[_ Hb] Hl]. apply Nat.eqb_eq in Hl. split; [exact Hl|].
    rewrite forallb_forall in Hb. exact Hb.
  Qed.

  Lemma rf_bound s i : s < length rf -> In i (nth s rf []) -> i < nn.
  Proof.
    intros Hs Hi. pose proof Hrf as H0. unfold slots_ok in H0. apply andb_true_iff in H0. destruct H0 as [Hb _].
    rewrite forallb_forall in Hb. specialize (Hb (nth s rf []) (nth_In rf [] Hs)). rewrite forallb_forall in Hb.
    apply Nat.ltb_lt. now apply Hb.
  Qed.

  (* the vertex cycle of face s of a child = the template's cycle, resolved *)
  Lemma child_face k tpl s : In tpl tpls -> s < length rf ->
    slotv (nth s rf []) (child o (cell_ctx tb k) tpl) = map (res k) (face_cycle rf tpl s) /\
    (forall r, In r (face_cycle rf tpl s) -> nok r).
  Proof.
    intros Ht Hs. destruct (tpl_facts tpl Ht) as [Hl Hok]. split.
    - unfold slotv, face_cycle, child. rewrite map_map. apply map_ext_in. intros i Hi.
      rewrite (nth_map' _ tpl NC 0); [reflexivity|]. rewrite Hl. now apply (rf_bound s).
    - intros r Hr. unfold face_cycle in Hr. apply in_map_iff in Hr. destruct Hr as [i [<- Hi]]. apply Hok, nth_In.
      rewrite Hl. now apply (rf_bound s).
  Qed.

  Lemma in_all_child_faces tpl s : In tpl tpls -> s < length rf -> In (face_cycle rf tpl s) (all_child_faces rf tpls).
  Proof.
    intros Ht Hs. unfold all_child_faces. apply in_flat_map. exists tpl. split; [exact Ht|]. apply in_map. apply in_seq. lia.
  Qed.

  (* canonical cycle of the piece at corner j of local face a, resolved in cell k: corner x, node of the edge x-next, face node,
     node of the edge prev-x; the edge nodes are functions of the end points *)
  Let M (a b : nat) : nat := np + lidx (isort [a; b]) (tb_edges tb).

  Lemma canon_resolved k a j : k < length cells -> a < length rf -> j < 4 ->
    let q := slotv (nth a rf []) (nth k cells []) in
    map (res k) (canon_cycle rf re a j)
    = [nth j q 0; M (nth j q 0) (nth ((j + 1) mod 4) q 0); np + nE + t2f_at cells rf a k; M (nth ((j + 3) mod 4) q 0) (nth j q 0)]
    /\ NoDup q /\ length q = 4 /\ (forall r, In r (canon_cycle rf re a j) -> nok r).
  Proof.
    intros Hk Ha Hj q.
    pose proof Hqf as H0. unfold qface_edges_okb in H0. rewrite forallb_forall in H0. specialize (H0 (nth a rf []) (nth_In rf [] Ha)).
    destruct (nth a rf []) as [|i0 [|i1 [|i2 [|i3 [|]]]]] eqn:Elf; try discriminate.
    rewrite !andb_true_iff, !Nat.ltb_lt in H0. destruct H0 as [[[[[[[[Hnd4 B0] B1] B2] B3] S01] S12] S23] S30].
    apply nodup_nref_spec in Hnd4.
    assert (N : i0 <> i1 /\ i1 <> i2 /\ i2 <> i3 /\ i3 <> i0 /\ i0 <> i2 /\ i1 <> i3).
    { inversion Hnd4 as [|? ? H1 R1]; subst. inversion R1 as [|? ? H2 R2]; subst. inversion R2 as [|? ? H3 R3]; subst.
      simpl in H1, H2, H3. repeat split; intros E; subst; intuition. }
    destruct N as [N01 [N12 [N23 [N30 [N02 N13]]]]].
    destruct (cell_k cells nn np Hcells k Hk) as [Hndc [Hlc _]].
    assert (Hq : q = [nth i0 (nth k cells []) 0; nth i1 (nth k cells []) 0; nth i2 (nth k cells []) 0; nth i3 (nth k cells []) 0])
      by (unfold q; try rewrite Elf; reflexivity).
    assert (Hndq : NoDup q).
    { unfold q. try rewrite Elf. apply slotv_NoDup; [exact Hndc | | rewrite Hlc; intros i [<-|[<-|[<-|[<-|[]]]]]; assumption].
      repeat constructor; simpl; intuition. }
    split; [|split; [exact Hndq | split; [rewrite Hq; reflexivity|]]].
    - unfold canon_cycle. rewrite Elf. cbn [map].
      assert (EN : forall i i', i < nn -> i' < nn -> i <> i' -> eslot re i i' < length re ->
                   res k (NE (eslot re i i')) = M (nth i (nth k cells []) 0) (nth i' (nth k cells []) 0)).
      { intros i i' Hi Hi' Hne Hsl. unfold res, resolve, o, canon_offs. cbn [offE]. unfold M.
        exact (edge_node cells rf re nn Hdist np k i i' Hk Hi Hi' Hne Hsl). }
      assert (EF : res k (NF a) = np + nE + t2f_at cells rf a k).
      { unfold res, resolve, o, canon_offs, cell_ctx. cbn [offF cf]. unfold tb, c11_tables3. cbn [tb_t2f]. now rewrite c11_entry. }
      assert (EV : forall i, res k (NV i) = nth i (nth k cells []) 0) by reflexivity.
      rewrite Hq. destruct j as [|[|[|[|j]]]]; try lia; cbn [nth Nat.modulo Nat.divmod Nat.add fst snd Nat.sub];
        rewrite EF, EV, !EN by (assumption || (intros E; symmetry in E; contradiction)); reflexivity.
    - intros r Hr. unfold canon_cycle in Hr. rewrite Elf in Hr. unfold nok, nref_inb.
      assert (Hlt : forall jj, jj < 4 -> nth jj [i0; i1; i2; i3] 0 < nn) by (intros [|[|[|[|jj]]]] H; simpl; lia).
      destruct Hr as [<-|[<-|[<-|[<-|[]]]]]; apply Nat.ltb_lt.
      + apply Hlt. exact Hj.
      + destruct j as [|[|[|[|j]]]]; try lia; simpl; assumption.
      + exact Ha.
      + destruct j as [|[|[|[|j]]]]; try lia; simpl; assumption.
  Qed.

  Lemma M_symm a b : M a b = M b a.
  Proof. unfold M. now rewrite (isort_swap a b). Qed.

  Lemma existsb_nc s : existsb (nref_eqb NC) s = true <-> In NC s.
  Proof.
    rewrite existsb_exists. split.
    - intros [x [Hx E]]. apply nref_eqb_true in E. now subst.
    - intros H. exists NC. split; [exact H | reflexivity].
  Qed.

  (* a face that has no cell node: some corner piece of some parent face *)
  Lemma boundary_face tpl s : In tpl tpls -> s < length rf -> ~ In NC (face_cycle rf tpl s) ->
    exists a j, a < length rf /\ j < 4 /\ dih (canon_cycle rf re a j) (face_cycle rf tpl s).
  Proof.
    intros Ht Hs Hnc. pose proof Hbnd as H0. unfold hex_boundary_ok in H0. rewrite forallb_forall in H0.
    specialize (H0 _ (in_all_child_faces tpl s Ht Hs)). apply orb_true_iff in H0. destruct H0 as [H0|H0].
    - exfalso. apply Hnc. now apply existsb_nc.
    - rewrite existsb_exists in H0. destruct H0 as [a [Ha H0]]. rewrite existsb_exists in H0. destruct H0 as [j [Hj H0]].
      apply in_seq in Ha, Hj. exists a, j. repeat split; try lia. now apply dihedral_nref_spec.
  Qed.

  (* THE STEP: two faces of children (of any two cells) spanning the same vertex set list it in the same cycle *)
  Theorem children_conf k1 tpl1 s1 k2 tpl2 s2 :
    k1 < length cells -> In tpl1 tpls -> s1 < length rf -> k2 < length cells -> In tpl2 tpls -> s2 < length rf ->
    let L1 := slotv (nth s1 rf []) (child o (cell_ctx tb k1) tpl1) in
    let L2 := slotv (nth s2 rf []) (child o (cell_ctx tb k2) tpl2) in
    sort_entity L1 = sort_entity L2 -> dih L1 L2.
  Proof.
    intros Hk1 Ht1 Hs1 Hk2 Ht2 Hs2 L1 L2 Hkey.
    destruct (child_face k1 tpl1 s1 Ht1 Hs1) as [E1 O1]. destruct (child_face k2 tpl2 s2 Ht2 Hs2) as [E2 O2].
    set (c1 := face_cycle rf tpl1 s1) in *. set (c2 := face_cycle rf tpl2 s2) in *.
    assert (Hset : forall v, In v L1 <-> In v L2).
    { intros v. rewrite <- (sort_entity_in L1 v), <- (sort_entity_in L2 v). now rewrite Hkey. }
    unfold L1, L2 in *. rewrite E1, E2 in *. clear E1 E2.
    (* a cell node on one side forces the same parent on the other *)
    assert (NCside : forall ka ca kb cb, ka < length cells -> kb < length cells -> (forall r, In r ca -> nok r) -> (forall r, In r cb -> nok r) ->
              (forall v, In v (map (res ka) ca) -> In v (map (res kb) cb)) -> In NC ca -> In NC cb /\ ka = kb).
    { intros ka ca kb cb Hka Hkb Oa Ob Hsub Hin.
      assert (Hv : In (res ka NC) (map (res kb) cb)) by (apply Hsub, in_map, Hin).
      apply in_map_iff in Hv. destruct Hv as [r [Er Hr]].
      pose proof (res_kind kb r ka NC Hkb Hka (Ob r Hr) (Oa NC Hin) Er) as K. destruct r; try contradiction. split; [exact Hr | now symmetry]. }
    assert (Hdec : In NC c1 \/ ~ In NC c1).
    { destruct (existsb (nref_eqb NC) c1) eqn:Enc; [left; now apply existsb_nc|].
      right. intros H. apply existsb_nc in H. congruence. }
    destruct Hdec as [Hin1|Hnin1].
    - (* interior face: same parent, same node set *)
      destruct (NCside k1 c1 k2 c2 Hk1 Hk2 O1 O2 (fun v => proj1 (Hset v)) Hin1) as [Hin2 <-].
      apply dih_map. apply dihedral_nref_spec.
      pose proof Hsame as H0. unfold hex_same_parent_ok in H0. rewrite forallb_forall in H0.
      specialize (H0 c1 (in_all_child_faces tpl1 s1 Ht1 Hs1)). rewrite forallb_forall in H0.
      specialize (H0 c2 (in_all_child_faces tpl2 s2 Ht2 Hs2)).
      assert (Hss : same_setb c1 c2 = true).
      { unfold same_setb. apply andb_true_iff. split; apply forallb_forall; intros r Hr; apply existsb_exists.
        - assert (Hv : In (res k1 r) (map (res k1) c2)) by (apply Hset, in_map, Hr).
          apply in_map_iff in Hv. destruct Hv as [r' [Er Hr']]. exists r'. split; [exact Hr'|].
          rewrite (res_inj k1 r' r Hk1 (O2 r' Hr') (O1 r Hr) Er). apply nref_eqb_refl.
        - assert (Hv : In (res k1 r) (map (res k1) c1)) by (apply Hset, in_map, Hr).
          apply in_map_iff in Hv. destruct Hv as [r' [Er Hr']]. exists r'. split; [exact Hr'|].
          rewrite (res_inj k1 r' r Hk1 (O1 r' Hr') (O2 r Hr) Er). apply nref_eqb_refl. }
      rewrite Hss in H0. exact H0.
    - (* faces on parent faces *)
      assert (Hnin2 : ~ In NC c2).
      { intros Hin2. destruct (NCside k2 c2 k1 c1 Hk2 Hk1 O2 O1 (fun v => proj2 (Hset v)) Hin2) as [H _]. contradiction. }
      destruct (boundary_face tpl1 s1 Ht1 Hs1 Hnin1) as [a1 [j1 [Ha1 [Hj1 D1]]]].
      destruct (boundary_face tpl2 s2 Ht2 Hs2 Hnin2) as [a2 [j2 [Ha2 [Hj2 D2]]]].
      fold c1 in D1. fold c2 in D2.
      destruct (canon_resolved k1 a1 j1 Hk1 Ha1 Hj1) as [C1 [Nd1 [Lq1 Ok1]]].
      destruct (canon_resolved k2 a2 j2 Hk2 Ha2 Hj2) as [C2 [Nd2 [Lq2 Ok2]]].
      set (q1 := slotv (nth a1 rf []) (nth k1 cells [])) in *. set (q2 := slotv (nth a2 rf []) (nth k2 cells [])) in *.
      pose proof (dih_map (res k1) _ _ D1) as R1. pose proof (dih_map (res k2) _ _ D2) as R2. rewrite C1 in R1. rewrite C2 in R2.
      (* same elements in the canonical cycles *)
      assert (Hel : forall q q' : list nat, dih q q' -> forall v, In v q <-> In v q').
      { intros q q' Hd v. unfold dih in Hd. destruct q as [|a [|b [|c [|d [|x q]]]]]; simpl in Hd; try tauto.
        destruct Hd as [<-|[<-|[<-|[<-|[<-|[<-|[<-|[<-|[]]]]]]]]]; simpl; tauto. }
      assert (HsetC : forall v, In v (map (res k1) (canon_cycle rf re a1 j1)) <-> In v (map (res k2) (canon_cycle rf re a2 j2))).
      { intros v. rewrite (Hel _ _ (dih_map (res k1) _ _ D1) v), (Hel _ _ (dih_map (res k2) _ _ D2) v). apply Hset. }
      (* the face node and the corner are common *)
      assert (HF : t2f_at cells rf a1 k1 = t2f_at cells rf a2 k2).
      { assert (Hv : In (res k1 (NF a1)) (map (res k2) (canon_cycle rf re a2 j2))).
        { apply HsetC. apply in_map. unfold canon_cycle. simpl. auto. }
        apply in_map_iff in Hv. destruct Hv as [r [Er Hr]].
        pose proof (res_kind k2 r k1 (NF a1) Hk2 Hk1 (Ok2 r Hr) (Ok1 (NF a1) ltac:(unfold canon_cycle; simpl; auto)) Er) as K.
        unfold canon_cycle in Hr. destruct Hr as [<-|[<-|[<-|[<-|[]]]]]; try contradiction. now symmetry. }
      assert (HV : nth j1 q1 0 = nth j2 q2 0).
      { assert (Hv : In (res k1 (NV (nth j1 (nth a1 rf []) 0))) (map (res k2) (canon_cycle rf re a2 j2))).
        { apply HsetC. apply in_map. unfold canon_cycle. simpl. auto. }
        apply in_map_iff in Hv. destruct Hv as [r [Er Hr]].
        pose proof (res_kind k2 r k1 (NV (nth j1 (nth a1 rf []) 0)) Hk2 Hk1 (Ok2 r Hr)
                              (Ok1 (NV (nth j1 (nth a1 rf []) 0)) ltac:(unfold canon_cycle; simpl; auto)) Er) as K.
        unfold canon_cycle in Hr. destruct Hr as [<-|[<-|[<-|[<-|[]]]]]; try contradiction.
        unfold q1, q2, slotv. rewrite (nth_map' _ _ 0 0) by (rewrite <- (map_length (fun i => nth i (nth k1 cells []) 0)); fold (slotv (nth a1 rf []) (nth k1 cells [])); fold q1; lia).
        rewrite (nth_map' _ _ 0 0) by (rewrite <- (map_length (fun i => nth i (nth k2 cells []) 0)); fold (slotv (nth a2 rf []) (nth k2 cells [])); fold q2; lia).
        now symmetry. }
      (* the parents list the common face in the same cycle *)
      assert (Dq : dih q1 q2).
      { apply Hconf; try assumption. apply (t2f_eq_iff cells rf a1 k1 a2 k2 Ha1 Hk1 Ha2 Hk2). exact HF. }
      destruct (dih_neighbours q1 q2 j1 j2 Nd1 Lq1 Dq Hj1 Hj2 HV) as [[Hn Hp]|[Hn Hp]]; rewrite Hn, Hp, <- HV, <- HF in R2.
      + eapply dih_trans; [apply dih_sym; exact R1 | exact R2].
      + eapply dih_trans; [apply dih_sym; exact R1|]. eapply dih_trans; [|exact R2].
        rewrite (M_symm (nth j1 q1 0) (nth ((j1 + 3) mod 4) q1 0)), (M_symm (nth ((j1 + 1) mod 4) q1 0) (nth j1 q1 0)).
        unfold dih. simpl. auto 10.
  Qed.
End HexStep.

(* induction over refined(k) with the pair (distinct vertices, cyclic-order conformity) as invariant *)
Section RefinedConf.
  Variables (step : list point -> tables -> list point * list (list nat)) (tabs : list (list nat) -> tables) (nn : nat)
            (rf : list (list nat)).
  Hypothesis step_ok : forall p t, cells_ok nn (length p) t -> conf t rf ->
    cells_ok nn (length (fst (step p (tabs t)))) (snd (step p (tabs t))) /\ conf (snd (step p (tabs t))) rf.

  Theorem refined_k_conf k : forall p t, cells_ok nn (length p) t -> conf t rf ->
    cells_ok nn (length (fst (refined_k step tabs k p t))) (snd (refined_k step tabs k p t)) /\
    conf (snd (refined_k step tabs k p t)) rf.
  Proof.
    induction k as [|k IH]; intros p t H1 H2; simpl; [split; assumption|].
    destruct (step p (tabs t)) as [p' t'] eqn:E. pose proof (step_ok p t H1 H2) as H'. rewrite E in H'. simpl in H'.
    destruct H' as [A B]. now apply IH.
  Qed.
End RefinedConf.
