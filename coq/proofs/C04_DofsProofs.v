(* C04 — proofs about Model.C04_Dofs.dofs_init, for every topology and every count vector. *)
From Coq Require Import List Arith Lia Bool.
Import ListNotations.
Require Import Base.C11_Unique Model.C11_Topo Model.C04_Dofs Proofs.C11_TopoProofs.

(* ------------------------------------------------------------------ blocks and gathers *)
Lemma block_length k n o : length (block k n o) = k.
Proof. unfold block. now rewrite map_length, seq_length. Qed.

Lemma block_row k n o r : r < k -> nth r (block k n o) [] = map (fun c => r + k * c + o) (seq 0 n).
Proof. intros H. unfold block. now rewrite nth_seq_map. Qed.

Lemma block_entry k n o r c : r < k -> c < n -> nth c (nth r (block k n o) []) 0 = r + k * c + o.
Proof. intros Hr Hc. rewrite block_row by exact Hr. now rewrite nth_seq_map. Qed.

Lemma block_zero n o : block 0 n o = [].
Proof. reflexivity. Qed.

Lemma gather_length blk idx : length (gather blk idx) = length blk.
Proof. unfold gather. now rewrite map_length. Qed.

Lemma gather_row blk idx r : r < length blk ->
  nth r (gather blk idx) [] = map (fun j => nth j (nth r blk []) 0) idx.
Proof. intros H. unfold gather. now rewrite (nth_map_d _ blk r [] []). Qed.

Lemma gather_rows_length blk T : length (gather_rows blk T) = length T * length blk.
Proof.
  unfold gather_rows. induction T as [|ix T IH]; simpl; [reflexivity|].
  now rewrite app_length, gather_length, IH.
Qed.

Lemma gather_rows_nth blk : forall T s j, s < length T -> j < length blk ->
  nth (s * length blk + j) (gather_rows blk T) [] = map (fun c => nth c (nth j blk []) 0) (nth s T []).
Proof.
  unfold gather_rows. induction T as [|ix T IH]; intros s j Hs Hj; simpl in Hs; [lia|].
  simpl flat_map. destruct s as [|s].
  - simpl. rewrite app_nth1 by (now rewrite gather_length). now apply gather_row.
  - rewrite app_nth2 by (rewrite gather_length; simpl; lia). rewrite gather_length.
    replace (S s * length blk + j - length blk) with (s * length blk + j) by (simpl; lia).
    simpl nth. apply IH; [lia | exact Hj].
Qed.

Lemma gather_rows_nil T : gather_rows [] T = [].
Proof. unfold gather_rows. induction T as [|ix T IH]; simpl; [reflexivity | exact IH]. Qed.

(* entry of a gathered group: row (slot s, component j), column e *)
Lemma group_entry k n o T s j e :
  s < length T -> j < k -> e < length (nth s T []) -> nth e (nth s T []) 0 < n ->
  nth e (nth (s * k + j) (gather_rows (block k n o) T) []) 0 = j + k * nth e (nth s T []) 0 + o.
Proof.
  intros Hs Hj He Hn. pose proof (gather_rows_nth (block k n o) T s j) as G. rewrite block_length in G.
  rewrite G by assumption. rewrite (nth_map_d _ (nth s T []) e 0 0) by exact He. now apply block_entry.
Qed.

Lemma in_gather_rows blk T row : In row (gather_rows blk T) ->
  exists idx brow, In idx T /\ In brow blk /\ row = map (fun j => nth j brow 0) idx.
Proof.
  unfold gather_rows, gather. rewrite in_flat_map. intros [idx [Hi Hr]]. apply in_map_iff in Hr.
  destruct Hr as [brow [Heq Hb]]. exists idx, brow. now repeat split.
Qed.

Lemma in_block k n o brow : In brow (block k n o) -> exists r, r < k /\ brow = map (fun c => r + k * c + o) (seq 0 n).
Proof.
  unfold block. rewrite in_map_iff. intros [r [Heq Hr]]. apply in_seq in Hr. exists r. split; [lia | now symmetry].
Qed.

(* every entry of a gathered group lies in the block's range *)
Lemma group_range k n o T x :
  (forall idx j, In idx T -> In j idx -> j < n) ->
  In x (concat (gather_rows (block k n o) T)) -> o <= x < o + k * n.
Proof.
  intros Hb Hx. apply in_concat in Hx. destruct Hx as [row [Hrow Hx]].
  apply in_gather_rows in Hrow. destruct Hrow as [idx [brow [Hidx [Hbrow ->]]]].
  apply in_block in Hbrow. destruct Hbrow as [r [Hr ->]].
  apply in_map_iff in Hx. destruct Hx as [j [Hxj Hj]]. specialize (Hb idx j Hidx Hj).
  rewrite nth_seq_map in Hxj by exact Hb. subst x. nia.
Qed.

Lemma block_range k n o x : In x (concat (block k n o)) -> o <= x < o + k * n.
Proof.
  intros Hx. apply in_concat in Hx. destruct Hx as [row [Hrow Hx]].
  apply in_block in Hrow. destruct Hrow as [r [Hr ->]].
  apply in_map_iff in Hx. destruct Hx as [c [Hxc Hc]]. apply in_seq in Hc. subst x. nia.
Qed.

(* ------------------------------------------------------------------ the code (kind, entity, k) <-> number *)
Section Code.
  Variables dim nd ed fd id off nv ne nf nt : nat.
  Notation cnt' := (cnt dim nd ed fd id).
  Notation nent' := (nent nv ne nf nt).
  Notation koff' := (koff dim nd ed fd id off nv ne nf nt).
  Notation enc := (encode dim nd ed fd id off nv ne nf nt).
  Notation dec := (decode dim nd ed fd id off nv ne nf nt).
  Notation tot := (total dim nd ed fd id nv ne nf nt).

  Definition valid (kd : kind) (ent k : nat) : Prop := ent < nent' kd /\ k < cnt' kd.

  Lemma encode_range kd ent k : valid kd ent k ->
    koff' kd <= enc kd ent k < koff' kd + cnt' kd * nent' kd.
  Proof. intros [He Hk]. unfold encode. nia. Qed.

  Lemma koff_chain :
    koff' Edge = koff' Nodal + cnt' Nodal * nent' Nodal /\
    koff' Facet = koff' Edge + cnt' Edge * nent' Edge /\
    koff' Interior = koff' Facet + cnt' Facet * nent' Facet /\
    off + tot = koff' Interior + cnt' Interior * nent' Interior.
  Proof. unfold koff, cnt, nent, total. repeat split; lia. Qed.

  (* gap-free bijection, part 1: every code lies in [off, off + N) *)
  Theorem encode_bounds kd ent k : valid kd ent k -> off <= enc kd ent k < off + tot.
  Proof.
    intros Hv. pose proof (encode_range kd ent k Hv) as Hr. destruct koff_chain as [A [B [C D]]].
    assert (Hn : koff' Nodal = off) by reflexivity.
    destruct kd; nia.
  Qed.

  (* part 2: different (kind, entity, k) get different numbers *)
  Theorem encode_inj kd ent k kd' ent' k' : valid kd ent k -> valid kd' ent' k' ->
    enc kd ent k = enc kd' ent' k' -> kd = kd' /\ ent = ent' /\ k = k'.
  Proof.
    intros Hv Hv' Heq.
    pose proof (encode_range kd ent k Hv) as Hr. pose proof (encode_range kd' ent' k' Hv') as Hr'.
    destruct koff_chain as [A [B [C D]]].
    assert (Hkd : kd = kd').
    { destruct kd, kd'; try reflexivity; exfalso;
        assert (N1 := Nat.le_0_l (cnt' Nodal * nent' Nodal)); assert (N2 := Nat.le_0_l (cnt' Edge * nent' Edge));
        assert (N3 := Nat.le_0_l (cnt' Facet * nent' Facet)); lia. }
    subst kd'. split; [reflexivity|]. destruct Hv as [He Hk], Hv' as [He' Hk'].
    unfold encode in Heq.
    assert (Hm : k + cnt' kd * ent = k' + cnt' kd * ent') by lia.
    assert (ent = ent') by nia. subst. split; [reflexivity | lia].
  Qed.

  (* part 3: decode inverts encode ... *)
  Theorem decode_encode kd ent k : valid kd ent k -> dec (enc kd ent k) = (kd, ent, k).
  Proof.
    intros Hv. pose proof (encode_range kd ent k Hv) as Hr. destruct koff_chain as [A [B [C D]]].
    destruct Hv as [He Hk]. unfold decode.
    assert (Hsel : (if enc kd ent k <? koff' Edge then Nodal else if enc kd ent k <? koff' Facet then Edge
                    else if enc kd ent k <? koff' Interior then Facet else Interior) = kd).
    { destruct kd.
      - destruct (Nat.ltb_spec (enc Nodal ent k) (koff' Edge)); [reflexivity | nia].
      - destruct (Nat.ltb_spec (enc Edge ent k) (koff' Edge)); [nia|].
        destruct (Nat.ltb_spec (enc Edge ent k) (koff' Facet)); [reflexivity | nia].
      - destruct (Nat.ltb_spec (enc Facet ent k) (koff' Edge)); [nia|].
        destruct (Nat.ltb_spec (enc Facet ent k) (koff' Facet)); [nia|].
        destruct (Nat.ltb_spec (enc Facet ent k) (koff' Interior)); [reflexivity | nia].
      - destruct (Nat.ltb_spec (enc Interior ent k) (koff' Edge)); [nia|].
        destruct (Nat.ltb_spec (enc Interior ent k) (koff' Facet)); [nia|].
        destruct (Nat.ltb_spec (enc Interior ent k) (koff' Interior)); [nia | reflexivity]. }
    rewrite Hsel. unfold encode.
    replace (k + cnt' kd * ent + koff' kd - koff' kd) with (k + ent * cnt' kd) by lia.
    rewrite Nat.div_add by lia. rewrite Nat.mod_add by lia.
    rewrite Nat.div_small, Nat.mod_small by exact Hk. reflexivity.
  Qed.

  (* ... and every number of [off, off + N) is the code of a valid triple: none unused, no gap *)
  Theorem encode_decode d : off <= d < off + tot ->
    let '(kd, ent, k) := dec d in valid kd ent k /\ enc kd ent k = d.
  Proof.
    intros Hd. destruct koff_chain as [A [B [C D]]]. assert (Hn : koff' Nodal = off) by reflexivity.
    unfold decode.
    set (kd := if d <? koff' Edge then Nodal else if d <? koff' Facet then Edge
               else if d <? koff' Interior then Facet else Interior).
    assert (Hin : koff' kd <= d < koff' kd + cnt' kd * nent' kd).
    { unfold kd. destruct (Nat.ltb_spec d (koff' Edge)); [lia|].
      destruct (Nat.ltb_spec d (koff' Facet)); [lia|].
      destruct (Nat.ltb_spec d (koff' Interior)); lia. }
    assert (Hc : cnt' kd <> 0) by (intros Hz; rewrite Hz in Hin; lia).
    pose proof (Nat.div_mod (d - koff' kd) (cnt' kd) Hc) as Hdm.
    pose proof (Nat.mod_upper_bound (d - koff' kd) (cnt' kd) Hc) as Hmu.
    split; [split|].
    - apply Nat.div_lt_upper_bound; [exact Hc | lia].
    - exact Hmu.
    - unfold encode. lia.
  Qed.
End Code.

(* ------------------------------------------------------------------ element_dofs of the model *)
Section Init.
  Variables dim nd ed fd id off nv ne nf nt : nat.
  Variables t t2e t2f : list (list nat).
  Notation D := (dofs_init dim nd ed fd id off nv ne nf nt t t2e t2f).
  Notation ede := (eff_ed dim ed).
  Notation koff' := (koff dim nd ed fd id off nv ne nf nt).
  Notation enc := (encode dim nd ed fd id off nv ne nf nt).
  Notation tot := (total dim nd ed fd id nv ne nf nt).

  (* the facet block is allocated whenever fd > 0 but gathered only for dim >= 2 *)
  Hypothesis Hfd : 0 < fd -> 2 <= dim.

  Definition G_nodal := gather_rows (block nd nv (koff' Nodal)) t.
  Definition G_edge := gather_rows (block ede ne (koff' Edge)) t2e.
  Definition G_facet := gather_rows (block fd nf (koff' Facet)) t2f.
  Definition G_int := block id nt (koff' Interior).

  Lemma element_groups : D_element D = G_nodal ++ G_edge ++ G_facet ++ G_int.
  Proof.
    unfold dofs_init, G_nodal, G_edge, G_facet, G_int, koff, eff_ed. cbn [D_element].
    remember ((dim =? 3) && (0 <? ed)) as ge eqn:Ege.
    remember (2 <=? dim) as g2 eqn:Eg2.
    remember (0 <? fd) as gf eqn:Egf.
    assert (Hg : gf = true -> g2 = true).
    { intros ->. symmetry in Egf. apply Nat.ltb_lt in Egf. subst g2. apply Nat.leb_le. now apply Hfd. }
    assert (Hz : gf = false -> fd = 0).
    { intros ->. symmetry in Egf. apply Nat.ltb_ge in Egf. lia. }
    destruct ge, gf, g2; cbn [andb]; cbv iota;
      try (specialize (Hg eq_refl); discriminate);
      try (rewrite (Hz eq_refl)); rewrite ?block_zero, ?gather_rows_nil, ?app_nil_r, <- ?app_assoc;
      rewrite ?Nat.mul_0_l, ?Nat.add_0_r; reflexivity.
  Qed.

  Lemma blocks_of_model :
    D_nodal D = block nd nv (koff' Nodal) /\ D_edge D = block ede ne (koff' Edge) /\
    D_facet D = block fd nf (koff' Facet) /\ D_interior D = block id nt (koff' Interior).
  Proof.
    unfold dofs_init, koff, eff_ed. cbn [D_nodal D_edge D_facet D_interior].
    remember ((dim =? 3) && (0 <? ed)) as ge eqn:Ege.
    remember (0 <? fd) as gf eqn:Egf.
    assert (Hz : gf = false -> fd = 0).
    { intros ->. symmetry in Egf. apply Nat.ltb_ge in Egf. lia. }
    destruct ge, gf; cbv iota; try (rewrite (Hz eq_refl)); rewrite ?block_zero, ?Nat.mul_0_l, ?Nat.add_0_r;
      repeat split; reflexivity.
  Qed.

  (* well-formed topology tables: rows of length nt with entries in the entity range *)
  Definition table_ok (T : list (list nat)) (n : nat) : Prop :=
    forall s, s < length T -> length (nth s T []) = nt /\ forall e, e < nt -> nth e (nth s T []) 0 < n.
  Hypothesis Ht : table_ok t nv.
  Hypothesis Ht2e : table_ok t2e ne.
  Hypothesis Ht2f : table_ok t2f nf.

  (* the entity a (kind, slot, cell) refers to, the number of slots and the row of (kind, slot, k) *)
  Definition slot_ent (kd : kind) (s e : nat) : nat :=
    match kd with Nodal => nth e (nth s t []) 0 | Edge => nth e (nth s t2e []) 0
                | Facet => nth e (nth s t2f []) 0 | Interior => e end.
  Definition nslots (kd : kind) : nat :=
    match kd with Nodal => length t | Edge => length t2e | Facet => length t2f | Interior => 1 end.
  Definition rowpos (kd : kind) (s k : nat) : nat :=
    match kd with
    | Nodal => s * nd + k
    | Edge => length t * nd + (s * ede + k)
    | Facet => length t * nd + (length t2e * ede + (s * fd + k))
    | Interior => length t * nd + (length t2e * ede + (length t2f * fd + k))
    end.

  (* rows are grouped vertex, edge, facet, interior; their number is the sum of the group sizes *)
  Theorem element_rows :
    length (D_element D) = length t * nd + length t2e * ede + length t2f * fd + id.
  Proof.
    rewrite element_groups. unfold G_nodal, G_edge, G_facet, G_int.
    rewrite !app_length, !gather_rows_length, !block_length. lia.
  Qed.

  (* THE entry formula: row of (kind, slot s, component k), column e holds the code of (kind, entity of slot s of e, k) *)
  Theorem element_entry kd s k e :
    s < nslots kd -> k < cnt dim nd ed fd id kd -> e < nt ->
    nth e (nth (rowpos kd s k) (D_element D) []) 0 = enc kd (slot_ent kd s e) k.
  Proof.
    intros Hs Hk He. rewrite element_groups.
    assert (L1 : length G_nodal = length t * nd) by (unfold G_nodal; now rewrite gather_rows_length, block_length).
    assert (L2 : length G_edge = length t2e * ede) by (unfold G_edge; now rewrite gather_rows_length, block_length).
    assert (L3 : length G_facet = length t2f * fd) by (unfold G_facet; now rewrite gather_rows_length, block_length).
    destruct kd; simpl in Hs, Hk; unfold rowpos, slot_ent, encode; simpl cnt.
    - destruct (Ht s Hs) as [Hl Hb]. rewrite app_nth1 by (rewrite L1; nia).
      unfold G_nodal. apply group_entry; try assumption; [now rewrite Hl | now apply Hb].
    - destruct (Ht2e s Hs) as [Hl Hb]. rewrite <- L1, app_nth2_plus. rewrite app_nth1 by (rewrite L2; nia).
      unfold G_edge. apply group_entry; try assumption; [now rewrite Hl | now apply Hb].
    - destruct (Ht2f s Hs) as [Hl Hb]. rewrite <- L1, app_nth2_plus, <- L2, app_nth2_plus.
      rewrite app_nth1 by (rewrite L3; nia).
      unfold G_facet. apply group_entry; try assumption; [now rewrite Hl | now apply Hb].
    - rewrite <- L1, app_nth2_plus, <- L2, app_nth2_plus, <- L3, app_nth2_plus.
      unfold G_int. now apply block_entry.
  Qed.

  Lemma slot_valid kd s k e : s < nslots kd -> k < cnt dim nd ed fd id kd -> e < nt ->
    valid dim nd ed fd id nv ne nf nt kd (slot_ent kd s e) k.
  Proof.
    intros Hs Hk He. split; [|exact Hk]. destruct kd; simpl in *.
    - now apply (Ht s Hs). - now apply (Ht2e s Hs). - now apply (Ht2f s Hs). - exact He.
  Qed.

  (* two entries of element_dofs are equal IFF same kind, same component and the SAME ENTITY (for interior DOFs: the same cell) *)
  Theorem shared_iff kd s k e kd' s' k' e' :
    s < nslots kd -> k < cnt dim nd ed fd id kd -> e < nt ->
    s' < nslots kd' -> k' < cnt dim nd ed fd id kd' -> e' < nt ->
    (nth e (nth (rowpos kd s k) (D_element D) []) 0 = nth e' (nth (rowpos kd' s' k') (D_element D) []) 0
     <-> kd = kd' /\ k = k' /\ slot_ent kd s e = slot_ent kd' s' e').
  Proof.
    intros Hs Hk He Hs' Hk' He'. rewrite !element_entry by assumption. split.
    - intros H. apply encode_inj in H; [tauto | now apply slot_valid | now apply slot_valid].
    - intros [-> [-> H]]. now rewrite H.
  Qed.

  (* every row index is the row of exactly one (kind, slot, component) *)
  Theorem row_decompose r : r < length (D_element D) ->
    exists kd s k, s < nslots kd /\ k < cnt dim nd ed fd id kd /\ r = rowpos kd s k.
  Proof.
    rewrite element_rows. intros Hr.
    assert (Hdm : forall c x n, x < n * c -> x / c < n /\ x mod c < c /\ x = (x / c) * c + x mod c).
    { intros c x n Hx. assert (c <> 0) by (intros ->; lia). split; [apply Nat.div_lt_upper_bound; lia|].
      split; [now apply Nat.mod_upper_bound|]. rewrite (Nat.div_mod x c) at 1 by assumption. lia. }
    destruct (lt_dec r (length t * nd)) as [H1|H1].
    { destruct (Hdm nd r (length t) H1) as [A [B C]]. exists Nodal, (r / nd), (r mod nd). simpl. repeat split; assumption. }
    destruct (lt_dec (r - length t * nd) (length t2e * ede)) as [H2|H2].
    { destruct (Hdm ede _ (length t2e) H2) as [A [B C]].
      exists Edge, ((r - length t * nd) / ede), ((r - length t * nd) mod ede). simpl. repeat split; try assumption. lia. }
    destruct (lt_dec (r - length t * nd - length t2e * ede) (length t2f * fd)) as [H3|H3].
    { destruct (Hdm fd _ (length t2f) H3) as [A [B C]].
      exists Facet, ((r - length t * nd - length t2e * ede) / fd), ((r - length t * nd - length t2e * ede) mod fd).
      simpl. repeat split; try assumption. lia. }
    exists Interior, 0, (r - length t * nd - length t2e * ede - length t2f * fd). simpl. repeat split; lia.
  Qed.

  (* all entries are numbers of [off, off + N) *)
  Theorem element_in_range x : In x (concat (D_element D)) -> off <= x < off + tot.
  Proof.
    rewrite element_groups, !concat_app, !in_app_iff.
    destruct (koff_chain dim nd ed fd id off nv ne nf nt) as [A [B [C E]]]. simpl cnt in *. simpl nent in *.
    assert (Hn : koff' Nodal = off) by reflexivity.
    assert (Tb : forall T n, table_ok T n -> forall idx j, In idx T -> In j idx -> j < n).
    { intros T n HT idx j Hidx Hj. destruct (In_nth _ _ [] Hidx) as [s [Hs Hn']]. destruct (HT s Hs) as [Hl Hb].
      destruct (In_nth _ _ 0 Hj) as [e [He Hne]]. rewrite <- Hn' in He, Hne. rewrite Hl in He. rewrite <- Hne. now apply Hb. }
    intros [H|[H|[H|H]]].
    - apply (group_range _ _ _ _ _ (Tb t nv Ht)) in H. nia.
    - apply (group_range _ _ _ _ _ (Tb t2e ne Ht2e)) in H. nia.
    - apply (group_range _ _ _ _ _ (Tb t2f nf Ht2f)) in H. nia.
    - apply block_range in H. nia.
  Qed.

  Lemma element_row_length kd s k : s < nslots kd -> k < cnt dim nd ed fd id kd ->
    length (nth (rowpos kd s k) (D_element D) []) = nt.
  Proof.
    intros Hs Hk. rewrite element_groups.
    assert (L1 : length G_nodal = length t * nd) by (unfold G_nodal; now rewrite gather_rows_length, block_length).
    assert (L2 : length G_edge = length t2e * ede) by (unfold G_edge; now rewrite gather_rows_length, block_length).
    assert (L3 : length G_facet = length t2f * fd) by (unfold G_facet; now rewrite gather_rows_length, block_length).
    destruct kd; simpl in Hs, Hk; unfold rowpos.
    - rewrite app_nth1 by (rewrite L1; nia). unfold G_nodal.
      pose proof (gather_rows_nth (block nd nv (koff' Nodal)) t s k) as G. rewrite block_length in G.
      rewrite G by assumption. rewrite map_length. now apply Ht.
    - rewrite <- L1, app_nth2_plus. rewrite app_nth1 by (rewrite L2; nia). unfold G_edge.
      pose proof (gather_rows_nth (block ede ne (koff' Edge)) t2e s k) as G. rewrite block_length in G.
      rewrite G by assumption. rewrite map_length. now apply Ht2e.
    - rewrite <- L1, app_nth2_plus, <- L2, app_nth2_plus. rewrite app_nth1 by (rewrite L3; nia). unfold G_facet.
      pose proof (gather_rows_nth (block fd nf (koff' Facet)) t2f s k) as G. rewrite block_length in G.
      rewrite G by assumption. rewrite map_length. now apply Ht2f.
    - rewrite <- L1, app_nth2_plus, <- L2, app_nth2_plus, <- L3, app_nth2_plus. unfold G_int.
      rewrite block_row by exact Hk. now rewrite map_length, seq_length.
  Qed.

  (* tables onto their entity ranges (C11 proves this for t2f / t2e; is_valid demands it for t) *)
  Definition table_onto (T : list (list nat)) (n : nat) : Prop :=
    forall x, x < n -> exists s e, s < length T /\ e < nt /\ nth e (nth s T []) 0 = x.
  Hypothesis Ot : 0 < nd -> table_onto t nv.
  Hypothesis Ot2e : 0 < ede -> table_onto t2e ne.
  Hypothesis Ot2f : 0 < fd -> table_onto t2f nf.

  (* none unused: every number of [off, off + N) occurs in element_dofs *)
  Theorem all_used d : off <= d < off + tot ->
    exists r e, r < length (D_element D) /\ e < nt /\ nth e (nth r (D_element D) []) 0 = d.
  Proof.
    intros Hd. pose proof (encode_decode dim nd ed fd id off nv ne nf nt d Hd) as Hdec.
    destruct (decode dim nd ed fd id off nv ne nf nt d) as [[kd ent] k]. destruct Hdec as [[Hent Hk] Henc].
    assert (Hslot : exists s e, s < nslots kd /\ e < nt /\ slot_ent kd s e = ent).
    { destruct kd; simpl in Hent, Hk |- *.
      - apply Ot; [lia | exact Hent]. - apply Ot2e; [lia | exact Hent]. - apply Ot2f; [lia | exact Hent].
      - exists 0, ent. repeat split; [lia | exact Hent]. }
    destruct Hslot as [s [e [Hs [He Hse]]]]. exists (rowpos kd s k), e. split; [|split; [exact He|]].
    - rewrite element_rows. destruct kd; simpl in *; nia.
    - rewrite element_entry by assumption. now rewrite Hse.
  Qed.

  Theorem all_used_in d : off <= d < off + tot -> In d (concat (D_element D)).
  Proof.
    intros Hd. destruct (all_used d Hd) as [r [e [Hr [He Hn]]]].
    apply in_concat. exists (nth r (D_element D) []). split; [now apply nth_In|].
    rewrite <- Hn. apply nth_In. destruct (row_decompose r Hr) as [kd [s [k [Hs [Hk ->]]]]].
    now rewrite element_row_length.
  Qed.

  (* N = max + 1 is the total count: contiguous range off .. off+N-1 *)
  Theorem N_is_total : 0 < tot -> 0 < nt -> D_N D = off + tot.
  Proof.
    intros Htot Hnt.
    assert (HN : D_N D = list_max (concat (D_element D)) + 1) by reflexivity. rewrite HN.
    assert (Hle : list_max (concat (D_element D)) <= off + tot - 1).
    { apply list_max_le. rewrite Forall_forall. intros x Hx. apply element_in_range in Hx. lia. }
    assert (Hge : off + tot - 1 <= list_max (concat (D_element D))).
    { destruct (all_used (off + tot - 1)) as [r [e [Hr [He Hn]]]]; [lia|].
      assert (Hin : In (off + tot - 1) (concat (D_element D))).
      { apply in_concat. exists (nth r (D_element D) []). split; [now apply nth_In|].
        rewrite <- Hn. apply nth_In.
        destruct (row_decompose r Hr) as [kd [s [k [Hs [Hk ->]]]]].
        assert (Hlen : length (nth (rowpos kd s k) (D_element D) []) = nt).
        { rewrite element_groups.
          assert (L1 : length G_nodal = length t * nd) by (unfold G_nodal; now rewrite gather_rows_length, block_length).
          assert (L2 : length G_edge = length t2e * ede) by (unfold G_edge; now rewrite gather_rows_length, block_length).
          assert (L3 : length G_facet = length t2f * fd) by (unfold G_facet; now rewrite gather_rows_length, block_length).
          destruct kd; simpl in Hs, Hk; unfold rowpos.
          - rewrite app_nth1 by (rewrite L1; nia). unfold G_nodal.
            pose proof (gather_rows_nth (block nd nv (koff' Nodal)) t s k) as G. rewrite block_length in G.
            rewrite G by assumption. rewrite map_length. now apply Ht.
          - rewrite <- L1, app_nth2_plus. rewrite app_nth1 by (rewrite L2; nia). unfold G_edge.
            pose proof (gather_rows_nth (block ede ne (koff' Edge)) t2e s k) as G. rewrite block_length in G.
            rewrite G by assumption. rewrite map_length. now apply Ht2e.
          - rewrite <- L1, app_nth2_plus, <- L2, app_nth2_plus. rewrite app_nth1 by (rewrite L3; nia). unfold G_facet.
            pose proof (gather_rows_nth (block fd nf (koff' Facet)) t2f s k) as G. rewrite block_length in G.
            rewrite G by assumption. rewrite map_length. now apply Ht2f.
          - rewrite <- L1, app_nth2_plus, <- L2, app_nth2_plus, <- L3, app_nth2_plus. unfold G_int.
            rewrite block_row by exact Hk. now rewrite map_length, seq_length. }
        now rewrite Hlen. }
      now apply in_le_list_max. }
    lia.
  Qed.
End Init.

Lemma eff_ed_slots dim ed n : (dim <> 3 -> n = 0) -> n * eff_ed dim ed = ed * n.
Proof.
  intros H. unfold eff_ed. destruct (Nat.eqb_spec dim 3) as [E|E]; simpl.
  - destruct (Nat.ltb_spec 0 ed); [lia | assert (ed = 0) by lia; subst; lia].
  - rewrite (H E). lia.
Qed.

(* ------------------------------------------------------------------ packaged hypotheses *)
(* well-formed input: the facet block is gathered whenever it is allocated; tables have nt columns, entries in range *)
Definition wf (dim fd nv ne nf nt : nat) (t t2e t2f : list (list nat)) : Prop :=
  (0 < fd -> 2 <= dim) /\ table_ok nt t nv /\ table_ok nt t2e ne /\ table_ok nt t2f nf.
(* tables onto their entity ranges (only needed for the kinds that carry DOFs) *)
Definition onto (dim nd ed fd nv ne nf nt : nat) (t t2e t2f : list (list nat)) : Prop :=
  (0 < nd -> table_onto nt t nv) /\ (0 < eff_ed dim ed -> table_onto nt t2e ne) /\ (0 < fd -> table_onto nt t2f nf).

(* C11 -> C04: the slot tables the library derives from a cell list satisfy both hypotheses *)
Theorem derived_table_ok cells indices :
  table_ok (length cells) (mapping cells indices) (length (entities true cells indices)) /\
  table_onto (length cells) (mapping cells indices) (length (entities true cells indices)).
Proof.
  destruct (mapping_shape cells indices) as [L R]. split.
  - intros s Hs. rewrite L in Hs. split; [now apply R|]. intros e He. now apply (t2f_bound cells indices s e).
  - intros x Hx. destruct (t2f_onto cells indices x Hx) as [s [e [Hs [He Heq]]]].
    exists s, e. rewrite L. now repeat split.
Qed.

(* ------------------------------------------------------------------ the DOF location table (abstract_basis.py 61-73) *)
Lemma set_nth_length {A} k (v : A) : forall l, length (set_nth k v l) = length l.
Proof. induction k as [|k IH]; intros [|x l]; simpl; auto. Qed.

Lemma set_nth_nth {A} k (v : A) : forall l j d, k < length l ->
  nth j (set_nth k v l) d = if j =? k then v else nth j l d.
Proof.
  induction k as [|k IH]; intros [|x l] j d H; simpl in *; try lia.
  - destruct j; reflexivity.
  - destruct j as [|j]; [reflexivity|]. simpl. apply IH. lia.
Qed.

Section Scatter.
  Variable A : Type.
  Variable loc : nat -> A.     (* the location every cell assigns to a DOF: "mapped reference locations coincide" *)

  Lemma scatter_row_spec : forall idx vals tab d0 d,
    length vals = length idx -> (forall i, In i idx -> i < length tab) ->
    (forall k, k < length idx -> nth k vals d0 = loc (nth k idx 0)) ->
    length (scatter_row tab idx vals) = length tab /\
    nth d (scatter_row tab idx vals) d0 = if existsb (Nat.eqb d) idx then loc d else nth d tab d0.
  Proof.
    unfold scatter_row. induction idx as [|i idx IH]; intros vals tab d0 d HL HB HV; simpl.
    - destruct vals; simpl; auto.
    - destruct vals as [|v vals]; [discriminate|]. simpl.
      assert (Hi : i < length tab) by (apply HB; now left).
      destruct (IH vals (set_nth i v tab) d0 d) as [L E].
      + simpl in HL. lia.
      + intros j Hj. rewrite set_nth_length. apply HB. now right.
      + intros k Hk. apply (HV (S k)). simpl. lia.
      + rewrite set_nth_length in L. split; [exact L|]. rewrite E.
        destruct (existsb (Nat.eqb d) idx) eqn:Ex; [now rewrite orb_true_r|]. rewrite orb_false_r.
        rewrite set_nth_nth by exact Hi. destruct (Nat.eqb_spec d i) as [->|Hne]; [|reflexivity].
        exact (HV 0 ltac:(simpl; lia)).
  Qed.

  Lemma scatter_rows_spec : forall edofs X tab d0 d,
    length X = length edofs ->
    (forall r, r < length edofs -> length (nth r X []) = length (nth r edofs []) /\
        (forall i, In i (nth r edofs []) -> i < length tab) /\
        (forall k, k < length (nth r edofs []) -> nth k (nth r X []) d0 = loc (nth k (nth r edofs []) 0))) ->
    nth d (fold_left (fun acc rx => scatter_row acc (fst rx) (snd rx)) (combine edofs X) tab) d0
    = if existsb (fun row => existsb (Nat.eqb d) row) edofs then loc d else nth d tab d0.
  Proof.
    induction edofs as [|row edofs IH]; intros X tab d0 d HL H; simpl.
    - destruct X; reflexivity.
    - destruct X as [|x X]; [discriminate|]. simpl.
      destruct (H 0 ltac:(simpl; lia)) as [L0 [B0 V0]]. simpl in L0, B0, V0.
      destruct (scatter_row_spec row x tab d0 d L0 B0 V0) as [Ln En].
      rewrite IH.
      + rewrite En. destruct (existsb (Nat.eqb d) row); simpl; [|reflexivity].
        now destruct (existsb (fun row0 => existsb (Nat.eqb d) row0) edofs).
      + simpl in HL. lia.
      + intros r Hr. destruct (H (S r) ltac:(simpl; lia)) as [L1 [B1 V1]]. simpl in L1, B1, V1.
        split; [exact L1|]. split; [|exact V1]. intros i Hi. rewrite Ln. now apply B1.
  Qed.

  (* the table holds loc d for every number that occurs in element_dofs, whatever the order of the writes *)
  Theorem scatter_consistent zero N edofs X d :
    length X = length edofs ->
    (forall r, r < length edofs -> length (nth r X []) = length (nth r edofs []) /\
        (forall i, In i (nth r edofs []) -> i < N) /\
        (forall k, k < length (nth r edofs []) -> nth k (nth r X []) zero = loc (nth k (nth r edofs []) 0))) ->
    In d (concat edofs) ->
    nth d (scatter_doflocs zero N edofs X) zero = loc d.
  Proof.
    intros HL H Hd. unfold scatter_doflocs. rewrite scatter_rows_spec; [| exact HL |].
    - assert (Ex : existsb (fun row => existsb (Nat.eqb d) row) edofs = true).
      { apply in_concat in Hd. destruct Hd as [row [Hrow Hin]]. apply existsb_exists. exists row. split; [exact Hrow|].
        apply existsb_exists. exists d. split; [exact Hin | apply Nat.eqb_refl]. }
      now rewrite Ex.
    - intros r Hr. destruct (H r Hr) as [L [B V]]. split; [exact L|]. split; [|exact V].
      intros i Hi. rewrite repeat_length. now apply B.
  Qed.
End Scatter.
