(* C05 — the monadic term the T2 translator emits for the (repaired) row-zeroing arithmetic of enforce

      start = Aout.indptr[D];  stop = Aout.indptr[D + 1];  count = stop - start
      offset = np.arange(count.sum()) - np.repeat(np.cumsum(count) - count, count)
      idx = np.repeat(start, count) + offset

   never raises on a valid row pointer and returns exactly the union of the row ranges — also when some
   constrained rows store no entry.  The tie lemma in coq/dyn/C05 shows the regenerated term IS this chain. *)
From Coq Require Import List ZArith Bool Arith Lia.
Import ListNotations.
Require Import Base.C05_Np Model.C05_BC Proofs.C05_IdxProofs Proofs.C05_CondenseProofs Proofs.C05_EnforceProofs.
Local Open Scope Z_scope.

Definition chain_offsets (indptr D : list Z) : option (list Z) :=
  bind (np_gather indptr D) (fun start =>
  bind (np_adds D (1)%Z) (fun t1 =>
  bind (np_gather indptr t1) (fun stop =>
  bind (np_sub stop start) (fun count =>
  bind (np_sum count) (fun t2 =>
  bind (np_arange t2) (fun t3 =>
  bind (np_cumsum count) (fun t4 =>
  bind (np_sub t4 count) (fun t5 =>
  bind (np_repeat t5 count) (fun t6 =>
  bind (np_sub t3 t6) (fun offset =>
  bind (np_repeat start count) (fun t7 =>
  bind (np_add t7 offset) (fun idx =>
  Some idx)))))))))))).

Lemma counts_nonneg n ip (D : list nat) :
  ip_valid n ip -> (forall d, In d D -> (d < n)%nat) ->
  Forall (fun c => 0 <= c)
    (map2 Z.sub (map (fun d => ipz ip (d + 1)) (map Z.of_nat D)) (map (fun d => ipz ip d) (map Z.of_nat D))).
Proof.
  intros Hv HD. rewrite map2_maps. apply Forall_forall. intros c Hc.
  apply in_map_iff in Hc. destruct Hc as (dz & <- & Hdz). apply in_map_iff in Hdz. destruct Hdz as (d & <- & Hd).
  unfold ipz. rewrite Nat2Z.id. replace (Z.to_nat (Z.of_nat d + 1)) with (S d) by lia.
  destruct Hv as (_ & _ & Hm). specialize (Hm d (HD d Hd)). lia.
Qed.

Theorem chain_offsets_correct : posf_correct chain_offsets.
Proof.
  intros n ip D Hv HD. unfold chain_offsets.
  set (Dz := map Z.of_nat D).
  assert (Hlen : length ip = S n) by apply Hv.
  assert (Hg1 : forall i, In i Dz -> 0 <= i < Z.of_nat (length ip)).
  { intros i Hi. apply in_map_iff in Hi. destruct Hi as (d & <- & Hd). specialize (HD d Hd). lia. }
  assert (Hg2 : forall i, In i (map (fun x => x + 1) Dz) -> 0 <= i < Z.of_nat (length ip)).
  { intros i Hi. apply in_map_iff in Hi. destruct Hi as (dz & <- & Hdz).
    apply in_map_iff in Hdz. destruct Hdz as (d & <- & Hd). specialize (HD d Hd). lia. }
  rewrite (np_gather_ok ip Dz 0 Hg1). cbn [bind]. unfold np_adds. cbn [bind].
  rewrite (np_gather_ok ip _ 0 Hg2). cbn [bind]. rewrite map_map.
  change (map (fun i => nth (Z.to_nat i) ip 0) Dz) with (map (fun d => ipz ip d) Dz).
  change (map (fun x => nth (Z.to_nat (x + 1)) ip 0) Dz) with (map (fun d => ipz ip (d + 1)) Dz).
  set (start := map (fun d => ipz ip d) Dz). set (stop := map (fun d => ipz ip (d + 1)) Dz).
  assert (Hls : length stop = length start) by (unfold stop, start; now rewrite !map_length).
  unfold np_sub at 1. rewrite np_zip_same by assumption. cbn [bind].
  set (count := map2 Z.sub stop start).
  assert (Hlc : length count = length start) by (unfold count; rewrite map2_length; assumption).
  assert (Hc0 : Forall (fun c => 0 <= c) count) by (apply (counts_nonneg n ip D Hv HD)).
  unfold np_sum, np_arange, np_cumsum. cbn [bind].
  unfold np_sub at 1. rewrite np_zip_same by (now rewrite cumsum_from_length). cbn [bind].
  assert (Hl5 : length (map2 Z.sub (cumsum_from 0 count) count) = length count)
    by (rewrite map2_length; now rewrite cumsum_from_length).
  rewrite repeat_each_length_ok by assumption. cbn [bind].
  unfold np_sub. rewrite np_zip_same by (rewrite seqZ_length, repeat_each_length; auto). cbn [bind].
  rewrite repeat_each_length_ok by (auto; congruence). cbn [bind].
  unfold np_add. rewrite np_zip_same.
  - cbn [bind]. f_equal. rewrite offsets_blocks by (auto; congruence). apply blocks_row_positions.
  - rewrite repeat_each_length by (auto; congruence). rewrite map2_length; rewrite seqZ_length; [reflexivity|].
    now rewrite repeat_each_length.
Qed.
