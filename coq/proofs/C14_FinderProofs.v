(* C14 — proofs about the finder / probes models (independent of generated files). *)
From Coq Require Import List Bool Arith QArith Lia.
Import ListNotations.
Local Open Scope nat_scope.
Require Import Model.C14_Finder.

(* ------------------------------------------------------------------ all_some / locate *)
Lemma all_some_Forall2 {A : Type} : forall (l : list (option A)) r,
    all_some l = Some r -> Forall2 (fun o a => o = Some a) l r.
Proof.
  induction l as [|[a|] l IH]; intros r H; simpl in H; try discriminate.
  - inversion H. constructor.
  - destruct (all_some l) as [r'|] eqn:E; [|discriminate]. inversion H; subst. constructor; [reflexivity | now apply IH].
Qed.

Lemma all_some_None {A : Type} : forall (l : list (option A)), all_some l = None <-> In None l.
Proof.
  induction l as [|[a|] l IH]; simpl.
  - split; [discriminate | intros []].
  - destruct (all_some l) as [r'|] eqn:E.
    + split; [discriminate|]. intros [H|H]; [discriminate|]. apply IH in H. discriminate.
    + split; [intros _; right; now apply IH | reflexivity].
  - split; [now left | reflexivity].
Qed.

Lemma all_some_Some {A : Type} : forall (l : list (option A)),
    (forall o, In o l -> o <> None) -> exists r, all_some l = Some r.
Proof.
  intros l H. destruct (all_some l) as [r|] eqn:E; [now exists r|].
  apply all_some_None in E. exfalso. now apply (H None).
Qed.

Lemma Forall2_weaken {A B : Type} (R S : A -> B -> Prop) : (forall a b, R a b -> S a b) ->
  forall l1 l2, Forall2 R l1 l2 -> Forall2 S l1 l2.
Proof. intros H l1 l2 F. induction F; constructor; auto. Qed.

Lemma Forall2_len {A B : Type} (R : A -> B -> Prop) : forall l1 l2, Forall2 R l1 l2 -> length l1 = length l2.
Proof. intros l1 l2 F. induction F; simpl; congruence. Qed.

Section FinderProofs.
  Variable P : Type.
  Variable inside : nat -> P -> bool.
  Variable nt : nat.

  Lemma first_inside_sound : forall cs x c, first_inside inside cs x = Some c -> In c cs /\ inside c x = true.
  Proof. intros cs x c H. unfold first_inside in H. now apply find_some in H. Qed.

  Lemma first_inside_None : forall cs x, first_inside inside cs x = None -> forall c, In c cs -> inside c x = false.
  Proof. intros cs x H c Hc. unfold first_inside in H. exact (find_none _ _ H c Hc). Qed.

  Lemma first_inside_complete : forall cs x c, In c cs -> inside c x = true -> exists c', first_inside inside cs x = Some c'.
  Proof.
    intros cs x c Hc Hi. destruct (first_inside inside cs x) as [c'|] eqn:E; [now exists c'|].
    rewrite (first_inside_None cs x E c Hc) in Hi. discriminate.
  Qed.

  (* the returned cell is the FIRST listed one that passes (what argmax of a boolean array picks) *)
  Lemma first_inside_first : forall cs x c, first_inside inside cs x = Some c ->
      exists pre post, cs = pre ++ c :: post /\ forall c', In c' pre -> inside c' x = false.
  Proof.
    induction cs as [|d cs IH]; intros x c H; [discriminate|]. unfold first_inside in *. simpl in H.
    destruct (inside d x) eqn:E.
    - inversion H; subst. exists [], cs. split; [reflexivity | intros c' []].
    - destruct (IH x c H) as [pre [post [H1 H2]]]. exists (d :: pre), post. split; [simpl; now rewrite H1|].
      intros c' [<-|Hc]; [assumption | now apply H2].
  Qed.

  Lemma locate_sound : forall cs xs r, locate inside cs xs = Some r ->
      Forall2 (fun x c => In c cs /\ inside c x = true) xs r.
  Proof.
    intros cs xs r H. unfold locate in H. apply all_some_Forall2 in H.
    remember (map (first_inside inside cs) xs) as l eqn:El. revert xs El.
    induction H as [|o a l r Hoa H IH]; intros xs El; destruct xs as [|x xs]; try discriminate; [constructor|].
    simpl in El. inversion El; subst. constructor; [now apply first_inside_sound | now apply IH].
  Qed.

  Lemma locate_None : forall cs xs, locate inside cs xs = None <->
      exists x, In x xs /\ forall c, In c cs -> inside c x = false.
  Proof.
    intros cs xs. unfold locate. rewrite all_some_None. rewrite in_map_iff. split.
    - intros [x [Hx Hin]]. exists x. split; [assumption|]. now apply first_inside_None.
    - intros [x [Hin Hx]]. exists x. split; [|assumption].
      destruct (first_inside inside cs x) as [c|] eqn:E; [|reflexivity].
      apply first_inside_sound in E. destruct E as [E1 E2]. rewrite (Hx c E1) in E2. discriminate.
  Qed.

  (* ---- finder_sound: every returned cell passes the inside test for its point (and is a cell of the mesh
          whenever the candidates are) *)
  Theorem finder_sound : forall cand xs r, finder inside nt cand xs = Some r ->
      Forall2 (fun x c => inside c x = true /\ (In c cand \/ c < nt)) xs r.
  Proof.
    intros cand xs r H. unfold finder in H. destruct (locate inside cand xs) as [r'|] eqn:E.
    - inversion H; subst. apply locate_sound in E.
      eapply Forall2_weaken; [|exact E]. intros x c [H1 H2]. split; [assumption | now left].
    - apply locate_sound in H. eapply Forall2_weaken; [|exact H]. intros x c [H1 H2]. split; [assumption|].
      right. apply in_seq in H1. lia.
  Qed.

  Theorem finder_length : forall cand xs r, finder inside nt cand xs = Some r -> length r = length xs.
  Proof. intros cand xs r H. apply finder_sound in H. symmetry. eapply Forall2_len; eassumption. Qed.

  (* ---- finder_complete: if every point of the batch lies in some cell, cells are returned — whatever the candidates *)
  Theorem finder_complete : forall cand xs,
      (forall x, In x xs -> exists c, c < nt /\ inside c x = true) -> exists r, finder inside nt cand xs = Some r.
  Proof.
    intros cand xs H. unfold finder. destruct (locate inside cand xs) as [r'|] eqn:E; [now exists r'|].
    destruct (locate inside (seq 0 nt) xs) as [r|] eqn:E2; [now exists r|].
    apply locate_None in E2. destruct E2 as [x [Hx Hn]]. destruct (H x Hx) as [c [Hc Hi]].
    rewrite (Hn c) in Hi; [discriminate|]. apply in_seq. lia.
  Qed.

  (* ---- finder_raises: if some point of the batch passes the test in no cell, the result is the error
          (candidates are cell numbers) *)
  Theorem finder_raises : forall cand xs,
      (forall c, In c cand -> c < nt) ->
      (exists x, In x xs /\ forall c, c < nt -> inside c x = false) -> finder inside nt cand xs = None.
  Proof.
    intros cand xs Hc [x [Hx Hn]]. unfold finder.
    assert (E : locate inside cand xs = None).
    { apply locate_None. exists x. split; [assumption|]. intros c Hin. apply Hn. now apply Hc. }
    rewrite E. apply locate_None. exists x. split; [assumption|]. intros c Hin. apply Hn. apply in_seq in Hin. lia.
  Qed.

  Theorem finder_raises_iff : forall cand xs,
      (forall c, In c cand -> c < nt) ->
      (finder inside nt cand xs = None <-> exists x, In x xs /\ forall c, c < nt -> inside c x = false).
  Proof.
    intros cand xs Hc. split; [|now apply finder_raises].
    intros H. unfold finder in H. destruct (locate inside cand xs); [discriminate|].
    apply locate_None in H. destruct H as [x [Hx Hn]]. exists x. split; [assumption|].
    intros c Hlt. apply Hn. apply in_seq. lia.
  Qed.
End FinderProofs.

(* ------------------------------------------------------------------ the slack *)
Lemma inside_of_spec : forall eps coords, inside_of eps coords = true <-> forall l, In l coords -> (- eps <= l)%Q.
Proof.
  intros eps coords. unfold inside_of. rewrite forallb_forall. split; intros H l Hl.
  - apply Qle_bool_iff. now apply H.
  - apply Qle_bool_iff. now apply H.
Qed.

(* ------------------------------------------------------------------ split meshes: index map of np.hstack *)
Lemma nth_concat_blocks {A : Type} (d : A) : forall (blocks : list (list A)) (n : nat),
    (forall b, In b blocks -> length b = n) -> 0 < n ->
    forall k, k < length blocks * n -> nth k (concat blocks) d = nth (k mod n) (nth (k / n) blocks []) d.
Proof.
  induction blocks as [|b blocks IH]; intros n Hlen Hn k Hk; [simpl in Hk; lia|].
  simpl concat. assert (Hb : length b = n) by (apply Hlen; now left).
  destruct (lt_dec k n) as [Hlt|Hge].
  - rewrite app_nth1 by lia. rewrite Nat.div_small, Nat.mod_small by lia. reflexivity.
  - rewrite app_nth2 by lia. rewrite Hb.
    assert (E : k = (k - n) + 1 * n) by lia.
    rewrite E at 2 3. rewrite Nat.div_add, Nat.mod_add by lia.
    replace ((k - n) / n + 1) with (S ((k - n) / n)) by lia. simpl nth.
    apply IH; [intros b' Hb'; apply Hlen; now right | assumption | simpl in Hk; lia].
Qed.

(* simplex k of the split mesh consists of vertices of cell (k mod nt): its local vertex r is
   t[sel_{k/nt}[r]][k mod nt]   (t given by its rows, sels = the local vertex selections [[0,1,3],[1,2,3]], ...) *)
Theorem split_index_map : forall (t : list (list nat)) (sels : list (list nat)) (nt : nat),
    0 < nt -> (forall row, In row t -> length row = nt) ->
    forall (r : nat), (forall sel, In sel sels -> nth r sel 0 < length t) ->
    forall k, k < length sels * nt ->
      nth k (hstack_cols (map (fun sel => nth (nth r sel 0) t []) sels)) 0
      = nth (k mod nt) (nth (nth r (nth (k / nt) sels []) 0) t []) 0.
Proof.
  intros t sels nt Hnt Hrows r Hsel k Hk. unfold hstack_cols.
  rewrite (nth_concat_blocks 0 _ nt); [| |assumption|now rewrite map_length].
  - f_equal. assert (Hq : k / nt < length sels) by (apply Nat.div_lt_upper_bound; lia).
    rewrite (nth_indep _ [] (nth (nth r [] 0) t [])) by (rewrite map_length; lia).
    now rewrite (map_nth (fun sel => nth (nth r sel 0) t [])).
  - intros b Hb. apply in_map_iff in Hb. destruct Hb as [sel [<- Hs]].
    apply Hrows. apply nth_In. now apply Hsel.
Qed.

(* ------------------------------------------------------------------ probes: index plumbing *)
Local Open Scope Q_scope.

Lemma coo_apply_app : forall r1 c1 v1 r2 c2 v2 y r,
    length r1 = length c1 -> length r1 = length v1 ->
    coo_apply (r1 ++ r2) (c1 ++ c2) (v1 ++ v2) y r == coo_apply r1 c1 v1 y r + coo_apply r2 c2 v2 y r.
Proof.
  induction r1 as [|i r1 IH]; intros c1 v1 r2 c2 v2 y r Hc Hv.
  - destruct c1; [|discriminate]. destruct v1; [|discriminate]. simpl. ring.
  - destruct c1 as [|j c1]; [discriminate|]. destruct v1 as [|v v1]; [discriminate|].
    simpl in *. rewrite IH by congruence. ring.
Qed.

Lemma coo_apply_miss : forall (cf : nat -> nat) (vf : nat -> Q) y r n s,
    (r < s \/ s + n <= r)%nat -> coo_apply (seq s n) (map cf (seq s n)) (map vf (seq s n)) y r == 0.
Proof.
  intros cf vf y r n. induction n as [|n IH]; intros s H; simpl; [reflexivity|].
  destruct (Nat.eqb s r) eqn:E; [apply Nat.eqb_eq in E; lia|]. rewrite IH by lia. ring.
Qed.

Lemma coo_apply_block : forall (cf : nat -> nat) (vf : nat -> Q) y r n s,
    (s <= r < s + n)%nat -> coo_apply (seq s n) (map cf (seq s n)) (map vf (seq s n)) y r == vf r * y (cf r).
Proof.
  intros cf vf y r n. induction n as [|n IH]; intros s H; [lia|]. simpl.
  destruct (Nat.eqb s r) eqn:E.
  - apply Nat.eqb_eq in E. subst. rewrite coo_apply_miss by lia. ring.
  - apply Nat.eqb_neq in E. rewrite IH by lia. ring.
Qed.

Lemma map_nth_seq {A : Type} (d : A) : forall l, map (fun i => nth i l d) (seq 0 (length l)) = l.
Proof.
  induction l as [|a l IH]; [reflexivity|]. simpl. f_equal. rewrite <- seq_shift, map_map. exact IH.
Qed.

Lemma seq_add_map : forall n k s, seq (n + s) k = map (fun r => (n + r)%nat) (seq s k).
Proof.
  intros n k. induction k as [|k IH]; intros s; [reflexivity|]. simpl. f_equal.
  replace (S (n + s)) with (n + S s)%nat by lia. apply IH.
Qed.

(* np.tile(cells, comp)[r] = cells[r mod npts] *)
Lemma tile_as_map {A : Type} (d : A) : forall (l : list A) (c : nat),
    (0 < length l)%nat -> tile l c = map (fun r => nth (r mod length l) l d) (seq 0 (c * length l)).
Proof.
  intros l c Hl. induction c as [|c IH]; [reflexivity|].
  simpl tile. replace (S c * length l)%nat with (length l + c * length l)%nat by lia.
  rewrite seq_app, map_app. f_equal.
  - rewrite <- (map_nth_seq d l) at 1. apply map_ext_in. intros r Hr. apply in_seq in Hr.
    now rewrite Nat.mod_small by lia.
  - rewrite IH.
    assert (E : seq (length l) (c * length l) = map (fun r => (length l + r)%nat) (seq 0 (c * length l))).
    { rewrite <- (seq_add_map (length l) (c * length l) 0). f_equal. lia. }
    rewrite Nat.add_0_l, E, map_map. apply map_ext. intros r.
    replace (length l + r)%nat with (r + 1 * length l)%nat by lia. now rewrite Nat.mod_add by lia.
Qed.

(* C-order flattening of a (comp, npts) table: entry r is (r / npts, r mod npts) *)
Lemma flat_divmod {A : Type} (f : nat -> nat -> A) : forall (n m : nat), (0 < n)%nat ->
    flat_map (fun c => map (fun p => f c p) (seq 0 n)) (seq 0 m) = map (fun r => f (r / n)%nat (r mod n)%nat) (seq 0 (m * n)).
Proof.
  intros n m Hn. induction m as [|m IH]; [reflexivity|].
  rewrite seq_S, flat_map_app, IH. simpl flat_map. rewrite app_nil_r.
  replace (S m * n)%nat with (m * n + n)%nat by lia. rewrite seq_app, map_app. f_equal.
  simpl. assert (E : seq (m * n) n = map (fun r => (m * n + r)%nat) (seq 0 n)).
  { rewrite <- (seq_add_map (m * n) n 0). f_equal. lia. }
  rewrite E, map_map. apply map_ext_in. intros p Hp. apply in_seq in Hp.
  replace (m * n + p)%nat with (p + m * n)%nat by lia.
  rewrite Nat.div_add, Nat.mod_add by lia. rewrite Nat.div_small, Nat.mod_small by lia. reflexivity.
Qed.

Lemma qsum_map_shift : forall (f : nat -> Q) n, qsum (map f (seq 1 n)) = qsum (map (fun k => f (S k)) (seq 0 n)).
Proof. intros f n. rewrite <- seq_shift, map_map. reflexivity. Qed.

Section Probes.
  Variable cells : list nat.             (* cell of every query point, any number / order / repetition *)
  Variable comp : nat.                   (* components of one basis function value *)
  Variable phi : nat -> nat -> nat -> Q. (* phi k c p : component c of local function k at the pulled-back point p *)
  Variable y : nat -> Q.                 (* coefficient vector *)
  Let npts := length cells.
  Let M := (comp * npts)%nat.
  Hypothesis Hnp : (0 < npts)%nat.

  Definition bvals (k : nat) : list Q := flat_map (fun c => map (fun p => phi k c p) (seq 0 npts)) (seq 0 comp).
  Definition term (row : list nat) (k r : nat) : Q :=
    phi k (r / npts)%nat (r mod npts)%nat * y (nth (nth (r mod npts) cells 0%nat) row 0%nat).

  Lemma probes_rows : forall (erows : list (list nat)) (s r : nat), (r < M)%nat ->
      coo_apply (tile (arange M) (length erows)) (cols_flat erows (tile cells comp))
                (flat_map bvals (seq s (length erows))) y r
      == qsum (map (fun k => term (nth k erows []) (s + k) r) (seq 0 (length erows))).
  Proof.
    induction erows as [|row erows IH]; intros s r Hr; [reflexivity|].
    simpl length. simpl tile. unfold cols_flat in *. simpl map at 1. simpl concat. simpl seq at 1. simpl flat_map.
    rewrite coo_apply_app.
    - rewrite IH by assumption. simpl seq. simpl map. simpl qsum.
      rewrite qsum_map_shift.
      assert (Eb : coo_apply (arange M) (gather 0%nat row (tile cells comp)) (bvals s) y r == term row (s + 0) r).
      { unfold gather, bvals, arange. rewrite (tile_as_map 0%nat cells comp Hnp). fold npts. fold M.
        rewrite map_map. rewrite (flat_divmod (fun c p => phi s c p) npts comp Hnp). fold M.
        rewrite (coo_apply_block (fun r0 => nth (nth (r0 mod npts) cells 0%nat) row 0%nat)
                                 (fun r0 => phi s (r0 / npts)%nat (r0 mod npts)%nat) y r M 0) by lia.
        unfold term. rewrite Nat.add_0_r. reflexivity. }
      rewrite Eb. apply Qplus_comp; [reflexivity|].
      assert (El : map (fun k => term (nth k erows []) (S (s + k)) r) (seq 0 (length erows))
                   = map (fun k => term (nth k erows []) (s + S k) r) (seq 0 (length erows))).
      { apply map_ext. intros k. now replace (S (s + k))%nat with (s + S k)%nat by lia. }
      rewrite El. reflexivity.
    - unfold arange, gather. rewrite seq_length, map_length.
      rewrite (tile_as_map 0%nat cells comp Hnp), map_length, seq_length. reflexivity.
    - unfold arange, bvals. rewrite seq_length. rewrite (flat_divmod (fun c p => phi s c p) npts comp Hnp).
      now rewrite map_length, seq_length.
  Qed.

  (* probes_spec: row r = c * npts + p of (probes(x) @ y) is  sum_k y[edofs[k][cell_p]] * phi_k^c(pt_p) *)
  Theorem probes_spec : forall (edofs : list (list nat)) (r : nat), (r < comp * npts)%nat ->
      coo_apply (tile (arange (comp * npts)) (length edofs)) (cols_flat edofs (tile cells comp))
                (phis_flat (length edofs) comp npts phi) y r
      == qsum (map (fun k => phi k (r / npts)%nat (r mod npts)%nat
                             * y (nth (nth (r mod npts) cells 0%nat) (nth k edofs []) 0%nat)) (seq 0 (length edofs))).
  Proof.
    intros edofs r Hr. unfold phis_flat. exact (probes_rows edofs 0 r Hr).
  Qed.
End Probes.

(* ------------------------------------------------------------------ separating functionals *)
(* a point given as a combination sum_k lam_k v_k (lam >= 0, sum = 1) of vertices on which a linear functional g is <= c
   has g-value <= c — stated on the list of (weight, functional value) pairs, so it applies to every coordinate system *)
Lemma weighted_le : forall (wv : list (Q * Q)) (c : Q),
    (forall p, In p wv -> 0 <= fst p /\ snd p <= c) ->
    qsum (map (fun p => fst p * snd p) wv) <= c * qsum (map fst wv).
Proof.
  induction wv as [|[w v] wv IH]; intros c H; simpl.
  - setoid_replace (c * 0) with 0 by ring. apply Qle_refl.
  - destruct (H (w, v) (or_introl eq_refl)) as [Hw Hv]. simpl in Hw, Hv.
    setoid_replace (c * (w + qsum (map fst wv))) with (w * c + c * qsum (map fst wv)) by ring.
    apply Qplus_le_compat; [| apply IH; intros p Hp; apply H; now right].
    setoid_replace (w * v) with (v * w) by ring. setoid_replace (w * c) with (c * w) by ring.
    now apply Qmult_le_compat_r.
Qed.

Lemma weighted_ge : forall (wv : list (Q * Q)) (c : Q),
    (forall p, In p wv -> 0 <= fst p /\ c <= snd p) ->
    c * qsum (map fst wv) <= qsum (map (fun p => fst p * snd p) wv).
Proof.
  induction wv as [|[w v] wv IH]; intros c H; simpl.
  - setoid_replace (c * 0) with 0 by ring. apply Qle_refl.
  - destruct (H (w, v) (or_introl eq_refl)) as [Hw Hv]. simpl in Hw, Hv.
    setoid_replace (c * (w + qsum (map fst wv))) with (w * c + c * qsum (map fst wv)) by ring.
    apply Qplus_le_compat; [| apply IH; intros p Hp; apply H; now right].
    setoid_replace (w * v) with (v * w) by ring. setoid_replace (w * c) with (c * w) by ring.
    now apply Qmult_le_compat_r.
Qed.

(* hence a point that is a convex combination of the vertices of BOTH simplices of a separated pair lies ON the
   separating hyperplane: the two simplices have disjoint interiors *)
Theorem separated_common_points_on_plane : forall (wv1 wv2 : list (Q * Q)) (c : Q),
    (forall p, In p wv1 -> 0 <= fst p /\ snd p <= c) -> qsum (map fst wv1) == 1 ->
    (forall p, In p wv2 -> 0 <= fst p /\ c <= snd p) -> qsum (map fst wv2) == 1 ->
    qsum (map (fun p => fst p * snd p) wv1) == qsum (map (fun p => fst p * snd p) wv2) ->
    qsum (map (fun p => fst p * snd p) wv1) == c.
Proof.
  intros wv1 wv2 c H1 S1 H2 S2 E. apply Qle_antisym.
  - pose proof (weighted_le wv1 c H1) as L. rewrite S1 in L. now setoid_replace (c * 1) with c in L by ring.
  - rewrite E. pose proof (weighted_ge wv2 c H2) as L. rewrite S2 in L. now setoid_replace (c * 1) with c in L by ring.
Qed.

(* ------------------------------------------------------------------ the 1-D finder (MeshLine1.element_finder) *)
(* strictly increasing list of rationals *)
Fixpoint incr (l : list Q) : Prop :=
  match l with
  | [] => True
  | a :: t => match t with [] => True | b :: _ => a < b end /\ incr t
  end.

Lemma incr_head_lt : forall a l, incr (a :: l) -> forall b, In b l -> a < b.
Proof.
  intros a l. revert a. induction l as [|c l IH]; intros a H b Hb; [destruct Hb|].
  destruct H as [Hac Hl]. destruct Hb as [<-|Hb]; [exact Hac|].
  eapply Qlt_trans; [exact Hac|]. now apply IH.
Qed.

(* digitize on a strictly increasing list: i = digitize ps x is the number of entries <= x, they form the prefix *)
Lemma digitize_spec : forall ps x, incr ps ->
    (forall j, (j < digitize ps x)%nat -> nth j ps 0 <= x) /\
    (forall j, (digitize ps x <= j < length ps)%nat -> x < nth j ps 0).
Proof.
  induction ps as [|a ps IH]; intros x Hinc; unfold digitize in *; simpl.
  - split; intros j Hj; lia.
  - destruct Hinc as [Ha Hinc]. destruct (Qle_bool a x) eqn:E; simpl.
    + destruct (IH x Hinc) as [H1 H2]. split.
      * intros [|j] Hj; [now apply Qle_bool_iff | apply H1; lia].
      * intros [|j] Hj; [lia | apply H2; lia].
    + assert (Hax : x < a). { apply Qnot_le_lt. intros H. apply Qle_bool_iff in H. congruence. }
      assert (Hnil : filter (fun p => Qle_bool p x) ps = []).
      { clear IH. induction ps as [|b ps IHp]; [reflexivity|]. simpl.
        assert (Hb : a < b) by (destruct ps; simpl in Ha; exact Ha).
        destruct (Qle_bool b x) eqn:Eb.
        - apply Qle_bool_iff in Eb. exfalso. apply (Qlt_irrefl x). eapply Qlt_le_trans; [exact Hax|].
          eapply Qle_trans; [apply Qlt_le_weak; exact Hb | exact Eb].
        - apply IHp.
          + destruct ps as [|c ps]; [exact I|]. simpl. destruct Hinc as [Hbc _]. eapply Qlt_trans; eassumption.
          + destruct Hinc as [_ Hinc]. exact Hinc. }
      rewrite Hnil. simpl. split; [intros j Hj; lia|].
      intros [|j] Hj; [exact Hax|]. simpl.
      eapply Qlt_trans; [exact Hax|]. apply (incr_head_lt a ps (conj Ha Hinc)). apply nth_In. simpl in Hj. lia.
Qed.

Lemma incr_tail : forall a l, incr (a :: l) -> incr l.
Proof. intros a l [_ H]. exact H. Qed.

Lemma incr_mono : forall ps a b, incr ps -> (a < b < length ps)%nat -> nth a ps 0 < nth b ps 0.
Proof.
  induction ps as [|p ps IH]; intros a b Hinc Hab; [simpl in Hab; lia|].
  destruct b as [|b]; [lia|]. destruct a as [|a].
  - simpl. apply (incr_head_lt p ps Hinc). apply nth_In. simpl in Hab. lia.
  - simpl. apply IH; [now apply incr_tail in Hinc | simpl in Hab; lia].
Qed.

Lemma incr_mono_le : forall ps a b, incr ps -> (a <= b < length ps)%nat -> nth a ps 0 <= nth b ps 0.
Proof.
  intros ps a b Hinc Hab. destruct (Nat.eq_dec a b) as [->|Hne]; [apply Qle_refl|].
  apply Qlt_le_weak. apply incr_mono; [assumption | lia].
Qed.

Lemma filter_len_le {A : Type} (f : A -> bool) : forall l, (length (filter f l) <= length l)%nat.
Proof. induction l as [|a l IH]; simpl; [lia|]. destruct (f a); simpl; lia. Qed.

Section Line.
  Variable lefts rights : list Q.   (* end points of the cells, cells sorted by left end *)
  Variable ixs : list nat.          (* the cell numbers in that order (any numbering) *)
  Hypothesis Hinc : incr lefts.                                      (* distinct left ends *)
  Hypothesis Hlr : length rights = length lefts.
  Hypothesis Hli : length ixs = length lefts.
  Hypothesis Hcell : forall k, (k < length lefts)%nat -> nth k lefts 0 <= nth k rights 0.
  (* cells do not overlap (they may touch, and there may be gaps between them) *)
  Hypothesis Hsep : forall k, (S k < length lefts)%nat -> nth k rights 0 <= nth (S k) lefts 0.

  Theorem line_finder1_sound : forall x c, line_finder1 lefts rights ixs x = Some c ->
      exists k, (k < length lefts)%nat /\ nth_error ixs k = Some c /\ nth k lefts 0 <= x <= nth k rights 0.
  Proof.
    intros x c H. unfold line_finder1 in H. destruct (digitize lefts x) as [|k] eqn:E; [discriminate|].
    destruct (Qle_bool x (nth k rights 0)) eqn:Er; [|discriminate]. apply Qle_bool_iff in Er.
    destruct (digitize_spec lefts x Hinc) as [D1 _]. rewrite E in D1.
    assert (Hk : (k < length ixs)%nat) by (apply nth_error_Some; congruence).
    exists k. split; [lia|]. split; [exact H|]. split; [apply D1; lia | exact Er].
  Qed.

  Lemma rights_le_later_lefts : forall j k, (j < k < length lefts)%nat -> nth j rights 0 <= nth k lefts 0.
  Proof.
    intros j k Hjk. eapply Qle_trans; [apply (Hsep j); lia|].
    destruct (Nat.eq_dec (S j) k) as [->|Hne]; [apply Qle_refl|]. apply incr_mono_le; [exact Hinc | lia].
  Qed.

  Theorem line_finder1_complete : forall x j, (j < length lefts)%nat -> nth j lefts 0 <= x <= nth j rights 0 ->
      exists c, line_finder1 lefts rights ixs x = Some c.
  Proof.
    intros x j Hj [Hlo Hhi]. unfold line_finder1.
    destruct (digitize_spec lefts x Hinc) as [D1 D2].
    destruct (digitize lefts x) as [|k] eqn:E.
    - exfalso. apply (Qlt_irrefl x). eapply Qlt_le_trans; [apply (D2 j); lia | exact Hlo].
    - assert (Hkn : (k < length lefts)%nat).
      { destruct (le_lt_dec (length lefts) k) as [Hge|Hlt]; [|exact Hlt]. exfalso.
        unfold digitize in E. pose proof (filter_len_le (fun p => Qle_bool p x) lefts). lia. }
      assert (Hjk : (j <= k)%nat).
      { destruct (le_lt_dec j k) as [H|H]; [exact H|]. exfalso. apply (Qlt_irrefl x).
        eapply Qlt_le_trans; [apply (D2 j); lia | exact Hlo]. }
      assert (Hx : x <= nth k rights 0).
      { destruct (Nat.eq_dec j k) as [->|Hne]; [exact Hhi|].
        assert (L1 : nth k lefts 0 <= x) by (apply D1; lia).
        assert (L2 : x <= nth k lefts 0) by (eapply Qle_trans; [exact Hhi | apply rights_le_later_lefts; lia]).
        eapply Qle_trans; [exact L2 | apply Hcell; exact Hkn]. }
      apply Qle_bool_iff in Hx. rewrite Hx.
      destruct (nth_error ixs k) as [c|] eqn:Ec; [now exists c|]. apply nth_error_None in Ec. lia.
  Qed.

  (* the batch: every point of some cell is located in a cell containing it; a point in no cell (outside, or in a gap)
     makes the call fail *)
  Theorem line_finder_spec : forall xs,
      ((forall x, In x xs -> exists j, (j < length lefts)%nat /\ nth j lefts 0 <= x <= nth j rights 0) ->
         exists r, line_finder lefts rights ixs xs = Some r /\
                   Forall2 (fun x c => exists k, (k < length lefts)%nat /\ nth_error ixs k = Some c /\ nth k lefts 0 <= x <= nth k rights 0) xs r) /\
      ((exists x, In x xs /\ forall j, (j < length lefts)%nat -> ~ (nth j lefts 0 <= x <= nth j rights 0)) ->
         line_finder lefts rights ixs xs = None).
  Proof.
    intros xs. split.
    - intros H. unfold line_finder.
      destruct (all_some_Some (map (line_finder1 lefts rights ixs) xs)) as [r Hr].
      + intros o Ho Hn. subst o. apply in_map_iff in Ho. destruct Ho as [x [Hx Hin]].
        destruct (H x Hin) as [j [Hj Hc]]. destruct (line_finder1_complete x j Hj Hc) as [c Hc']. congruence.
      + exists r. split; [exact Hr|]. apply all_some_Forall2 in Hr.
        remember (map (line_finder1 lefts rights ixs) xs) as l eqn:El. clear H. revert xs El.
        induction Hr as [|o a l r Hoa Hr IH]; intros xs El; destruct xs as [|x xs]; try discriminate; [constructor|].
        simpl in El. inversion El; subst. constructor; [now apply line_finder1_sound | now apply IH].
    - intros [x [Hin Hno]]. unfold line_finder. apply all_some_None. apply in_map_iff. exists x. split; [|exact Hin].
      destruct (line_finder1 lefts rights ixs x) as [c|] eqn:E; [|reflexivity]. exfalso.
      destruct (line_finder1_sound x c E) as [k [Hk [_ Hc]]]. exact (Hno k Hk Hc).
  Qed.
End Line.

(* ------------------------------------------------------------------ probes on a restricted basis *)
Local Open Scope nat_scope.

Lemma set_nth_length {A : Type} : forall (l : list A) n v, length (set_nth n v l) = length l.
Proof. induction l as [|a l IH]; intros [|n] v; simpl; auto. Qed.

Lemma nth_set_nth {A : Type} (d : A) : forall (l : list A) n v c,
    nth c (set_nth n v l) d = if Nat.eqb c n && (n <? length l) then v else nth c l d.
Proof.
  induction l as [|a l IH]; intros n v c; simpl.
  - destruct n; simpl; rewrite andb_false_r; reflexivity.
  - destruct n as [|n]; destruct c as [|c]; simpl; try reflexivity.
    rewrite IH. replace (S n <? S (length l)) with (n <? length l) by reflexivity. reflexivity.
Qed.

Lemma col_table_inv : forall (ti : list nat) (nelems : nat) (pre : list nat) (tab : list (option nat)),
    (forall c j, nth c tab None = Some j -> j < length pre /\ nth j (pre ++ ti) 0 = c) ->
    forall c j,
      nth c (fold_left (fun tab jc => set_nth (snd jc) (Some (fst jc)) tab)
                       (combine (seq (length pre) (length ti)) ti) tab) None = Some j ->
      j < length (pre ++ ti) /\ nth j (pre ++ ti) 0 = c.
Proof.
  induction ti as [|t ti IH]; intros nelems pre tab Hinv c j H; simpl in H.
  - rewrite app_nil_r in *. apply Hinv in H. tauto.
  - replace (pre ++ t :: ti) with ((pre ++ [t]) ++ ti) in * by (rewrite <- app_assoc; reflexivity).
    replace (S (length pre)) with (length (pre ++ [t])) in H by (rewrite app_length; simpl; lia).
    apply (IH nelems (pre ++ [t]) _) in H; [exact H|].
    intros c' j' H'. simpl in H'. rewrite nth_set_nth in H'.
    destruct (Nat.eqb c' t && (t <? length tab)) eqn:E.
    + inversion H'; subst j'. apply andb_true_iff in E. destruct E as [E _]. apply Nat.eqb_eq in E. subst c'.
      split; [rewrite app_length; simpl; lia|].
      rewrite <- app_assoc. rewrite app_nth2 by lia. rewrite Nat.sub_diag. reflexivity.
    + apply Hinv in H'. destruct H' as [H1 H2]. split; [rewrite app_length; simpl; lia | exact H2].
Qed.

(* every remapped cell c' is a position of tind holding the located global cell *)
Theorem restrict_cells_spec : forall nelems ti cells cells',
    restrict_cells nelems (Some ti) cells = Some cells' ->
    Forall2 (fun c c' => c' < length ti /\ nth c' ti 0 = c) cells cells'.
Proof.
  intros nelems ti cells cells' H. unfold restrict_cells in H. apply all_some_Forall2 in H.
  remember (map (fun c => nth c (col_table nelems ti) None) cells) as l eqn:El. revert cells El.
  induction H as [|o a l r Hoa H IH]; intros cells El; destruct cells as [|c cells]; try discriminate; [constructor|].
  simpl in El. inversion El; subst. constructor; [|now apply IH].
  unfold col_table in H1. symmetry in H1.
  exact (col_table_inv ti nelems [] (repeat None nelems)
           (fun c0 j0 Hc => ltac:(exfalso; revert Hc; clear; revert c0; induction nelems as [|n IHn]; intros [|c0]; simpl; try discriminate; apply IHn)) c a H1).
Qed.

(* a located cell outside tind is an error *)
Theorem restrict_cells_outside : forall nelems ti cells c,
    In c cells -> ~ In c ti -> restrict_cells nelems (Some ti) cells = None.
Proof.
  intros nelems ti cells c Hc Hn. unfold restrict_cells. apply all_some_None. apply in_map_iff. exists c. split; [|exact Hc].
  destruct (nth c (col_table nelems ti) None) as [j|] eqn:E; [|reflexivity]. exfalso.
  assert (H : restrict_cells nelems (Some ti) [c] = Some [j]) by (unfold restrict_cells; simpl; now rewrite E).
  apply restrict_cells_spec in H. inversion H as [|c0 j0 l1 l2 Hp Hrest]; subst. destruct Hp as [Hj Hnth].
  apply Hn. rewrite <- Hnth. now apply nth_In.
Qed.

Local Open Scope Q_scope.
(* probes_spec for a basis restricted to the cells tind: with the remapped columns into the restricted dof table
   element_dofs[:, tind], row r of probes(x) @ y uses the dofs of the located GLOBAL cell *)
Theorem probes_spec_restricted : forall (edofs : list (list nat)) (nelems : nat) (ti cells cells' : list nat)
    (comp : nat) (phi : nat -> nat -> nat -> Q) (y : nat -> Q) (r : nat),
    restrict_cells nelems (Some ti) cells = Some cells' -> (0 < length cells)%nat -> (r < comp * length cells)%nat ->
    coo_apply (tile (arange (comp * length cells)) (length edofs)) (cols_flat (restrict_edofs edofs ti) (tile cells' comp))
              (phis_flat (length edofs) comp (length cells) phi) y r
    == qsum (map (fun k => phi k (r / length cells)%nat (r mod length cells)%nat
                           * y (nth (nth (r mod length cells) cells 0%nat) (nth k edofs []) 0%nat)) (seq 0 (length edofs))).
Proof.
  intros edofs nelems ti cells cells' comp phi y r Hr Hn Hlt.
  pose proof (restrict_cells_spec _ _ _ _ Hr) as F.
  assert (Hlen : length cells' = length cells) by (symmetry; eapply Forall2_len; exact F).
  assert (Hle : length (restrict_edofs edofs ti) = length edofs) by (unfold restrict_edofs; now rewrite map_length).
  pose proof (probes_spec cells' comp phi y ltac:(rewrite Hlen; exact Hn) (restrict_edofs edofs ti) r ltac:(rewrite Hlen; exact Hlt)) as P.
  rewrite Hlen, Hle in P. rewrite P. clear P.
  assert (E : forall k, (k < length edofs)%nat ->
      nth (nth (r mod length cells) cells' 0%nat) (nth k (restrict_edofs edofs ti) []) 0%nat
      = nth (nth (r mod length cells) cells 0%nat) (nth k edofs []) 0%nat).
  { intros k Hk. unfold restrict_edofs.
    rewrite (nth_indep _ [] (gather 0%nat [] ti)) by (rewrite map_length; exact Hk).
    rewrite (map_nth (fun row => gather 0%nat row ti)). unfold gather.
    assert (Hp : (r mod length cells < length cells)%nat) by (apply Nat.mod_upper_bound; lia).
    assert (G : (nth (r mod length cells) cells' 0 < length ti /\ nth (nth (r mod length cells) cells' 0) ti 0 = nth (r mod length cells) cells 0)%nat).
    { clear -F Hp. revert Hp. generalize (r mod length cells)%nat as p. induction F as [|c c' cs cs' Hcc F IH]; intros p Hp; [simpl in Hp; lia|].
      destruct p as [|p]; [exact Hcc | apply IH; simpl in Hp; lia]. }
    destruct G as [G1 G2].
    rewrite (nth_indep _ 0%nat (nth 0%nat (nth k edofs []) 0%nat)) by (rewrite map_length; exact G1).
    rewrite (map_nth (fun i => nth i (nth k edofs []) 0%nat)). now rewrite G2. }
  assert (M : map (fun k => phi k (r / length cells)%nat (r mod length cells)%nat
                     * y (nth (nth (r mod length cells) cells' 0%nat) (nth k (restrict_edofs edofs ti) []) 0%nat)) (seq 0 (length edofs))
              = map (fun k => phi k (r / length cells)%nat (r mod length cells)%nat
                     * y (nth (nth (r mod length cells) cells 0%nat) (nth k edofs []) 0%nat)) (seq 0 (length edofs))).
  { apply map_ext_in. intros k Hk. apply in_seq in Hk. rewrite E by lia. reflexivity. }
  rewrite M. reflexivity.
Qed.
