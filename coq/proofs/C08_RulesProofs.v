(* C08 — proofs about Model.C08_Rules: soundness of the Z checker w.r.t. the Q specification,
   completeness of the monomial enumeration, the tensor-product theorems. *)
From Coq Require Import ZArith List QArith Qabs Bool Arith Lia Lqa.
Require Import Base.Corr Model.C08_Rules.
Import ListNotations.

(* ================================================================== small tools *)

Lemma all_b_forall {A} (f : A -> bool) l : all_b f l = true <-> (forall x, In x l -> f x = true).
Proof.
  induction l as [|a l IH]; simpl.
  - split; [intros _ x []|reflexivity].
  - destruct (f a) eqn:Ha.
    + rewrite IH. split.
      * intros H x [<-|Hx]; auto.
      * intros H x Hx. apply H. now right.
    + split; [discriminate|]. intros H. rewrite <- Ha. apply H. now left.
Qed.

Lemma all_b_app {A} (f : A -> bool) l1 l2 : all_b f (l1 ++ l2) = all_b f l1 && all_b f l2.
Proof. induction l1 as [|a l1 IH]; simpl; [reflexivity|]. destruct (f a); [exact IH|reflexivity]. Qed.

Lemma firstn_app_le {A} d (l1 l2 : list A) : (d <= length l1)%nat -> firstn d (l1 ++ l2) = firstn d l1.
Proof.
  intros H. rewrite firstn_app. replace (d - length l1)%nat with O by lia.
  simpl. apply app_nil_r.
Qed.

Lemma skipn_app_le {A} d (l1 l2 : list A) : (d <= length l1)%nat -> skipn d (l1 ++ l2) = skipn d l1 ++ l2.
Proof.
  intros H. rewrite skipn_app. replace (d - length l1)%nat with O by lia. reflexivity.
Qed.

(* ================================================================== Z sums vs the Q specification *)

Fixpoint zpw (X : Z) (e : nat) : Z := match e with O => 1%Z | S e' => (X * zpw X e')%Z end.
Fixpoint znum (Xs : list Z) (es : list nat) : Z :=
  match Xs, es with
  | X :: Xs', e :: es' => (zpw X e * znum Xs' es')%Z
  | _, _ => 1%Z
  end.
Fixpoint zsum (N : list (list Z * Z)) (es : list nat) : Z :=
  match N with [] => 0%Z | nd :: N' => (snd nd * znum (fst nd) es + zsum N' es)%Z end.

Lemma nth_powtab_from X : forall n cur e, (e <= n)%nat -> nth e (powtab_from X cur n) 0%Z = (cur * zpw X e)%Z.
Proof.
  induction n as [|n IH]; intros cur e He.
  - assert (e = O) by lia. subst. simpl. ring.
  - destruct e as [|e]; simpl; [ring|]. rewrite IH by lia. ring.
Qed.

Lemma nth_powtab n X e : (e <= n)%nat -> nth e (powtab n X) 0%Z = zpw X e.
Proof. intros H. unfold powtab. rewrite nth_powtab_from by exact H. ring. Qed.

Lemma znum_tab_eq n : forall Xs es, (forall e, In e es -> (e <= n)%nat) ->
  znum_tab (map (powtab n) Xs) es = znum Xs es.
Proof.
  induction Xs as [|X Xs IH]; intros es Hes; [reflexivity|].
  destruct es as [|e es]; [reflexivity|]. simpl.
  rewrite nth_powtab by (apply Hes; now left).
  rewrite IH by (intros; apply Hes; now right). reflexivity.
Qed.

Lemma zsum_tab_eq n es : (forall e, In e es -> (e <= n)%nat) -> forall N,
  zsum_tab (map (fun nd => (map (powtab n) (fst nd), snd nd)) N) es = zsum N es.
Proof.
  intros Hes. induction N as [|nd N IH]; [reflexivity|]. simpl.
  rewrite znum_tab_eq by exact Hes. rewrite IH. reflexivity.
Qed.

Lemma qpow_make X s e : qpow (X # s) e = zpw X e # ppow s e.
Proof. induction e as [|e IH]; [reflexivity|]. simpl. rewrite IH. reflexivity. Qed.

Lemma qmono_make s : forall Xs es, length Xs = length es ->
  qmono (map (fun X => X # s) Xs) es = znum Xs es # pden s es.
Proof.
  induction Xs as [|X Xs IH]; intros [|e es] H; try discriminate; [reflexivity|].
  simpl. rewrite qpow_make, IH by (simpl in H; lia). reflexivity.
Qed.

Lemma qrule_sum_make s w es : forall N, (forall nd, In nd N -> length (fst nd) = length es) ->
  qrule_sum (map (qnode s w) N) es == zsum N es # (w * pden s es).
Proof.
  induction N as [|nd N IH]; intros H.
  - simpl. reflexivity.
  - simpl. rewrite IH by (intros; apply H; now right).
    rewrite qmono_make by (apply H; now left).
    unfold Qeq, Qplus, Qmult. simpl. rewrite !Pos2Z.inj_mul. ring.
Qed.

(* ================================================================== enumeration is complete *)

Lemma monos_total_complete : forall d n es, length es = d -> (list_sum es <= n)%nat -> In es (monos_total d n).
Proof.
  induction d as [|d IH]; intros n es Hl Hs.
  - destruct es; [now left|discriminate].
  - destruct es as [|a es]; [discriminate|]. simpl in Hl, Hs.
    change (In (a :: es) (flat_map (fun a => map (cons a) (monos_total d (n - a))) (seq 0 (S n)))).
    apply in_flat_map. exists a. split.
    + apply in_seq. lia.
    + apply in_map. apply IH; lia.
Qed.

Lemma monos_complete : forall s n es, length es = dim s -> deg_ok s n es -> In es (monos s n).
Proof.
  induction s as [|d s IH]; intros n es Hl Hd.
  - destruct es; [now left|discriminate].
  - simpl in Hd. destruct Hd as [H1 H2].
    unfold dim in Hl. simpl in Hl.
    change (In es (flat_map (fun m => map (app m) (monos s n)) (monos_total d n))).
    apply in_flat_map. exists (firstn d es). split.
    + apply monos_total_complete; [|exact H1]. rewrite firstn_length. lia.
    + rewrite <- (firstn_skipn d es) at 1. apply in_map. apply IH; [|exact H2].
      rewrite skipn_length. unfold dim. lia.
Qed.

(* ================================================================== nodes in the cell *)

Lemma in_cellb_sound : forall s pt, in_cellb s pt = true -> in_cellQ s pt.
Proof.
  induction s as [|d s IH]; intros pt H; simpl in *; [exact I|].
  apply andb_true_iff in H. destruct H as [H H3]. apply andb_true_iff in H. destruct H as [H1 H2].
  split; [|split].
  - apply Forall_forall. intros x Hx. apply Qle_bool_iff.
    exact (proj1 (all_b_forall _ _) H1 x Hx).
  - apply Qle_bool_iff. exact H2.
  - apply IH. exact H3.
Qed.

(* ================================================================== soundness of check_rule *)

Definition check_part (s : shape) (r : drule) (n : nat) (tol : Q) (ms : list (list nat)) : bool :=
  let T := map (fun nd => (map (powtab n) (fst nd), snd nd)) (nodes r) in
  all_b (mono_ok s r n tol T) ms.

Lemma check_rule_parts s r n tol : check_rule s r n tol = nodes_ok s r && check_part s r n tol (monos s n).
Proof. reflexivity. Qed.

Lemma nodes_ok_sound s r : nodes_ok s r = true ->
  forall nd, In nd (toQ r) -> length (fst nd) = dim s /\ in_cellQ s (fst nd).
Proof.
  intros H nd Hnd. unfold toQ in Hnd. apply in_map_iff in Hnd. destruct Hnd as [zn [<- Hzn]].
  pose proof (proj1 (all_b_forall _ _) H zn Hzn) as Hz. simpl in Hz.
  apply andb_true_iff in Hz. destruct Hz as [Hl Hc].
  apply Nat.eqb_eq in Hl. unfold qnode. simpl. rewrite map_length. split; [exact Hl|].
  apply in_cellb_sound. exact Hc.
Qed.

Lemma nodes_ok_len s r : nodes_ok s r = true -> forall nd, In nd (nodes r) -> length (fst nd) = dim s.
Proof.
  intros H nd Hnd. pose proof (proj1 (all_b_forall _ _) H nd Hnd) as Hz. simpl in Hz.
  apply andb_true_iff in Hz. destruct Hz as [Hl _]. now apply Nat.eqb_eq in Hl.
Qed.

Lemma mono_ok_sound s r n tol es : nodes_ok s r = true ->
  mono_ok s r n tol (map (fun nd => (map (powtab n) (fst nd), snd nd)) (nodes r)) es = true ->
  Qabs (qrule_sum (toQ r) es - exactQ s es) <= tol.
Proof.
  intros Hn H. unfold mono_ok in H.
  apply andb_true_iff in H. destruct H as [H H3]. apply andb_true_iff in H. destruct H as [H1 H2].
  apply Nat.eqb_eq in H2. apply Qle_bool_iff in H3.
  rewrite zsum_tab_eq in H3.
  2:{ intros e He. apply Nat.leb_le. exact (proj1 (all_b_forall _ _) H1 e He). }
  unfold toQ. rewrite qrule_sum_make.
  - exact H3.
  - intros nd Hnd. rewrite H2. apply (nodes_ok_len s r Hn nd Hnd).
Qed.

(* a rule may be checked in several parts (one vm_compute each, in parallel) *)
Theorem check_parts_sound s r n tol (parts : list (list (list nat))) :
  nodes_ok s r = true -> monos s n = concat parts ->
  Forall (fun ms => check_part s r n tol ms = true) parts ->
  rule_okQ s (toQ r) n tol.
Proof.
  intros Hn Hm Hp. split; [apply nodes_ok_sound; exact Hn|].
  intros es Hl Hd. pose proof (monos_complete s n es Hl Hd) as Hin.
  rewrite Hm in Hin. apply in_concat in Hin. destruct Hin as [ms [Hms Hes]].
  rewrite Forall_forall in Hp. specialize (Hp ms Hms). unfold check_part in Hp.
  apply (mono_ok_sound s r n tol es Hn). exact (proj1 (all_b_forall _ _) Hp es Hes).
Qed.

Theorem check_rule_sound s r n tol : check_rule s r n tol = true -> rule_okQ s (toQ r) n tol.
Proof.
  intros H. rewrite check_rule_parts in H. apply andb_true_iff in H. destruct H as [Hn Hp].
  apply (check_parts_sound s r n tol [monos s n]); [exact Hn| |].
  - simpl. now rewrite app_nil_r.
  - constructor; [exact Hp|constructor].
Qed.

(* a rule good for degree n is good for every smaller degree and every larger tolerance *)
Lemma deg_ok_mono : forall s m n es, (m <= n)%nat -> deg_ok s m es -> deg_ok s n es.
Proof.
  induction s as [|d s IH]; intros m n es Hmn H; simpl in *; [exact I|].
  destruct H as [H1 H2]. split; [lia|]. exact (IH m n _ Hmn H2).
Qed.

Theorem rule_ok_weaken s R m n tol tol' : (m <= n)%nat -> tol <= tol' ->
  rule_okQ s R n tol -> rule_okQ s R m tol'.
Proof.
  intros Hmn Ht [H1 H2]. split; [exact H1|]. intros es Hl Hd.
  apply Qle_trans with tol; [|exact Ht]. apply H2; [exact Hl|]. exact (deg_ok_mono s m n es Hmn Hd).
Qed.

(* ================================================================== the behaviour table *)

Lemma cell_eqb_eq a b : cell_eqb a b = true -> a = b.
Proof. destruct a, b; simpl; intros H; try reflexivity; discriminate. Qed.

Lemma lookup_ok ex tol : forall t, Forall (entry_ok_ex ex tol) t ->
  forall c n b, lookup t c n = Some b -> excluded_b ex c n = false -> entry_ok tol (c, n, b).
Proof.
  induction t as [|[[c' n'] b'] t IH]; intros HF c n b Hl Hx; [discriminate|].
  inversion HF as [|? ? He Ht]; subst. simpl in Hl.
  destruct (cell_eqb c c' && Z.eqb n n') eqn:Hcn.
  - apply andb_true_iff in Hcn. destruct Hcn as [Hc Hn].
    apply cell_eqb_eq in Hc. apply Z.eqb_eq in Hn. subst. inversion Hl; subst.
    unfold entry_ok_ex in He. simpl in He. rewrite Hx in He. exact He.
  - exact (IH Ht c n b Hl Hx).
Qed.

Lemma zrange_in : forall len lo n, (lo <= n < lo + Z.of_nat len)%Z -> In n (zrange lo len).
Proof.
  induction len as [|len IH]; intros lo n H; [lia|]. simpl.
  destruct (Z.eq_dec lo n) as [->|Hne]; [now left|right]. apply IH. lia.
Qed.

Lemma covered_sound t c lo hi : covered t c lo hi = true ->
  forall n, (lo <= n <= hi)%Z -> exists b, lookup t c n = Some b.
Proof.
  intros H n Hn. unfold covered in H.
  pose proof (proj1 (all_b_forall _ _) H n) as Hx.
  assert (Hin : In n (zrange lo (Z.to_nat (hi - lo + 1)))) by (apply zrange_in; lia).
  specialize (Hx Hin). simpl in Hx. destruct (lookup t c n) as [b|]; [now exists b|discriminate].
Qed.

Theorem table_delivers (t : qtable) ex tol c lo hi :
  Forall (entry_ok_ex ex tol) t -> covered t c lo hi = true ->
  forall n, (lo <= n <= hi)%Z -> excluded_b ex c n = false ->
  exists b, lookup t c n = Some b /\ entry_ok tol (c, n, b).
Proof.
  intros HF Hc n Hn Hx. destruct (covered_sound t c lo hi Hc n Hn) as [b Hb].
  exists b. split; [exact Hb|]. exact (lookup_ok ex tol t HF c n b Hb Hx).
Qed.

(* ================================================================== the weights sum to the measure *)

Lemma qmono_zeros : forall pt k, qmono pt (repeat O k) == 1.
Proof.
  induction pt as [|x pt IH]; intros [|k]; simpl; try reflexivity. rewrite IH. ring.
Qed.

Lemma qrule_sum_zeros R k : qrule_sum R (repeat O k) == qweight_sum R.
Proof. induction R as [|nd R IH]; simpl; [reflexivity|]. rewrite IH, qmono_zeros. ring. Qed.

Lemma list_sum_firstn_zeros : forall d k, list_sum (firstn d (repeat O k)) = O.
Proof. induction d as [|d IH]; intros [|k]; simpl; auto. Qed.

Lemma skipn_zeros : forall d k, skipn d (repeat O k) = repeat O (k - d).
Proof. induction d as [|d IH]; intros [|k]; simpl; auto. Qed.

Lemma deg_ok_zeros : forall s n k, deg_ok s n (repeat O k).
Proof.
  induction s as [|d s IH]; intros n k; simpl; [exact I|].
  rewrite list_sum_firstn_zeros, skipn_zeros. split; [lia|apply IH].
Qed.

Theorem rule_ok_weights s R n tol : rule_okQ s R n tol -> Qabs (qweight_sum R - measureQ s) <= tol.
Proof.
  intros [_ H]. unfold measureQ. rewrite <- (qrule_sum_zeros R (dim s)).
  apply H; [apply repeat_length|apply deg_ok_zeros].
Qed.

Theorem table_weights (t : qtable) ex tol : Forall (entry_ok_ex ex tol) t ->
  forall c n r, lookup t c n = Some (Rule r) -> excluded_b ex c n = false ->
  Qabs (qweight_sum (toQ r) - measureQ (cshape c)) <= tol.
Proof.
  intros HF c n r Hl Hx. pose proof (lookup_ok ex tol t HF c n (Rule r) Hl Hx) as H.
  simpl in H. exact (rule_ok_weights _ _ _ _ H).
Qed.
