(* C15 — proofs about the cache / closure models (independent of generated files). *)
From Coq Require Import List Bool Arith ZArith Lia.
Import ListNotations.
Require Import Base.Corr Base.C15_Memo Model.C15_Caches.

(* ------------------------------------------------------------------ decidable equality of keys *)
Lemma katom_eqb_eq : forall x y, katom_eqb x y = true <-> x = y.
Proof.
  intros x y; destruct x, y; simpl; split; intros H; try discriminate; try reflexivity;
    try (apply Nat.eqb_eq in H; now subst);
    try (apply nats_eqb_eq in H; now subst);
    try (apply zs_eqb_eq in H; now subst);
    try (inversion H; subst; first [apply Nat.eqb_refl | now apply nats_eqb_eq | now apply zs_eqb_eq]).
Qed.

Lemma key_eqb_eq : forall x y, key_eqb x y = true <-> x = y.
Proof. apply list_eqb_eq. exact katom_eqb_eq. Qed.

Lemma keys_eqb_eq : forall x y, keys_eqb x y = true <-> x = y.
Proof. apply list_eqb_eq. exact key_eqb_eq. Qed.

(* ------------------------------------------------------------------ caches keyed by [keys] *)
Section Keyed.
  Variables A D V : Type.
  Variable keyf : A -> keys.          (* what the guard compares *)
  Variable dep : A -> D.              (* everything the computation reads *)
  Variable F : D -> V.                (* the computation itself: ANY function of what it reads *)
  Variable evict : A -> list (keys * V) -> list (keys * V).
  Hypothesis evict_incl : forall a s, incl (evict a s) s.

  Theorem keyed_transparent :
    (forall a b, keyf a = keyf b -> dep a = dep b) ->
    forall h, results keys_eqb keyf (fun a => F (dep a)) evict h = map (fun a => F (dep a)) h.
  Proof.
    intros Hk h. apply (transparent A keys V keys_eqb keys_eqb_eq keyf _ evict evict_incl).
    intros a b Hab. f_equal. now apply Hk.
  Qed.

  (* the refutation: the model returns the FIRST call's value to the second call *)
  Theorem keyed_stale :
    forall a b, keyf a = keyf b ->
      results keys_eqb keyf (fun a => F (dep a)) evict [a; b] = [F (dep a); F (dep a)].
  Proof. intros a b Hk. now apply (stale_two_step A keys V keys_eqb keys_eqb_eq). Qed.
End Keyed.

(* ------------------------------------------------------------------ keys that are hashed part by part
   (generic_utils.hash_args: tuple(hash(part) for part in parts)); transparency needs that Python's hash does not
   collide on the parts that occur in the history — a named assumption, local to the history *)
Section Hashed.
  Variables A V : Type.
  Variable hash : key -> Z.
  Variable keyf : A -> keys.
  Variable compute : A -> V.
  Variable evict : A -> list (list Z * V) -> list (list Z * V).
  Hypothesis evict_incl : forall a s, incl (evict a s) s.

  Definition hkey (a : A) : list Z := map hash (keyf a).

  Lemma map_hash_inj : forall (P : key -> Prop),
      (forall p q, P p -> P q -> hash p = hash q -> p = q) ->
      forall l1 l2, Forall P l1 -> Forall P l2 -> map hash l1 = map hash l2 -> l1 = l2.
  Proof.
    intros P Hinj l1. induction l1 as [|x l1 IH]; intros [|y l2] H1 H2 H; simpl in H; try discriminate; [reflexivity|].
    inversion H; inversion H1; inversion H2; subst. f_equal; [now apply Hinj | now apply IH].
  Qed.

  Theorem hashed_transparent_on : forall h,
      (forall a b p q, In a h -> In b h -> In p (keyf a) -> In q (keyf b) -> hash p = hash q -> p = q) ->
      (forall a b, keyf a = keyf b -> compute a = compute b) ->
      results zs_eqb hkey compute evict h = map compute h.
  Proof.
    intros h Hcol Hk.
    apply (transparent_on A (list Z) V zs_eqb zs_eqb_eq hkey compute evict evict_incl).
    intros a b Ha Hb Hab. apply Hk. unfold hkey in Hab.
    apply (map_hash_inj (fun p => exists c, In c h /\ In p (keyf c))); auto.
    - intros p q [c [Hc Hp]] [d [Hd Hq]]. now apply (Hcol c d).
    - apply Forall_forall. intros p Hp. now exists a.
    - apply Forall_forall. intros p Hp. now exists b.
  Qed.
End Hashed.

(* ------------------------------------------------------------------ solver-factory closures *)
Lemma exec1_pure_cap : forall dflt stk A s cap loc,
    stmt_pure s = true -> fst (exec1 dflt stk A s (cap, loc)) = cap.
Proof. intros dflt stk A s cap loc H. destruct s as [[|] e|e|[|] k]; simpl in *; try discriminate; reflexivity. Qed.

Lemma fold_pure_cap : forall dflt stk A body cap loc,
    forallb stmt_pure body = true ->
    fst (fold_left (fun cl s => exec1 dflt stk A s cl) body (cap, loc)) = cap.
Proof.
  intros dflt stk A body. induction body as [|s body IH]; intros cap loc H; [reflexivity|].
  cbn [forallb] in H. apply andb_true_iff in H. destruct H as [Hs Hb].
  cbn [fold_left].
  pose proof (exec1_pure_cap dflt stk A s cap loc Hs) as Hc.
  destruct (exec1 dflt stk A s (cap, loc)) as [cap' loc'].
  cbn [fst] in Hc. subst cap'. now apply IH.
Qed.

(* a closure whose body never writes the captured dictionary hands it on unchanged ... *)
Theorem pure_preserves_captured : forall dflt p,
    prog_pure p = true -> forall stk A cap, fst (exec dflt stk A p cap) = cap.
Proof. intros dflt p H stk A cap. unfold exec. simpl. now apply fold_pure_cap. Qed.

(* ... so every call of any history sees the dictionary the factory was given:
   each result is what a FRESH closure would return for the same call *)
Theorem closure_history_independent : forall dflt p,
    (forall stk A cap, fst (exec dflt stk A p cap) = cap) ->
    forall cap h, run_closure dflt p cap h = map (fun c => snd (exec dflt (fst c) (snd c) p cap)) h.
Proof.
  intros dflt p Hp cap h. induction h as [|[stk A] h IH]; [reflexivity|].
  cbn [run_closure map fst snd]. rewrite Hp. now rewrite IH.
Qed.

(* ------------------------------------------------------------------ lazily initialised attributes *)
Lemma lazy_ok_spec : forall l, lazy_ok l = true ->
    In (l_guard l) (l_stored l) /\ In (l_ret l) (l_stored l) /\ l_other_writers l = 0
    /\ l_uses_args l = false /\ l_reads_mutable l = false.
Proof.
  intros l H. unfold lazy_ok in H. repeat (apply andb_true_iff in H; destruct H as [H ?]).
  repeat split.
  - apply existsb_exists in H. destruct H as [x [Hx E]]. apply Nat.eqb_eq in E. now subst.
  - apply existsb_exists in H3. destruct H3 as [x [Hx E]]. apply Nat.eqb_eq in E. now subst.
  - now apply Nat.eqb_eq.
  - now apply negb_true_iff.
  - now apply negb_true_iff.
Qed.

(* ------------------------------------------------------------------ list plumbing for the J key *)
Lemma map_eq_In {X Y : Type} (f g : X -> Y) : forall l, map f l = map g l -> forall x, In x l -> f x = g x.
Proof.
  induction l as [|y l IH]; intros H x Hx; [destruct Hx|]. simpl in H. inversion H.
  destruct Hx as [->|Hx]; [assumption | now apply IH].
Qed.

(* if hashing an argument is injective and every position handed to the computation is part of the key,
   equal keys mean equal computation arguments *)
Theorem J_tie_generic : forall (hashf : jarg -> key) (kp dp : list nat),
    (forall x y, hashf x = hashf y -> x = y) ->
    forallb (fun p => existsb (Nat.eqb p) kp) dp = true ->
    forall a b, map (fun pos => hashf (jparam a pos)) kp = map (fun pos => hashf (jparam b pos)) kp ->
                map (jparam a) dp = map (jparam b) dp.
Proof.
  intros hashf kp dp Hinj Hincl a b H. apply map_ext_in. intros p Hp.
  rewrite forallb_forall in Hincl. specialize (Hincl p Hp). apply existsb_exists in Hincl.
  destruct Hincl as [q [Hq E]]. apply Nat.eqb_eq in E. subst q.
  apply Hinj. exact (map_eq_In _ _ kp H p Hq).
Qed.

(* ------------------------------------------------------------------ the pool *)
Section PoolProofs.
  Variables d_linepp d_quadp_ : farr -> farr.
  Variables key_linepp key_quadp : farr -> key.
  Variable key_global : nat -> key.
  Variable key_J : jargs -> keys.
  Variable dep_J : jargs -> list jarg.
  Hypothesis tie_linepp : forall X Y, key_linepp X = key_linepp Y -> d_linepp X = d_linepp Y.
  Hypothesis tie_quadp : forall X Y, key_quadp X = key_quadp Y -> d_quadp_ X = d_quadp_ Y.
  Hypothesis tie_global : forall m m', key_global m = key_global m' -> m = m'.
  Hypothesis tie_J : forall a b, key_J a = key_J b -> dep_J a = dep_J b.

  Let pkey := pool_key key_linepp key_quadp key_global key_J.
  Let pdep := pool_dep d_linepp d_quadp_ dep_J.

  Lemma pool_key_determines : forall a b, pkey a = pkey b -> pdep a = pdep b.
  Proof.
    intros a b H. destruct a, b; unfold pkey, pdep in *; simpl in H; try discriminate;
      inversion H; subst; simpl; f_equal; auto.
  Qed.

  Lemma pool_evict_incl : forall (V : Type) (o : op) (s : list (keys * V)),
      incl (pool_evict key_linepp key_quadp key_global key_J o s) s.
  Proof. intros V o s. unfold pool_evict. destruct (single_slot o); [apply drop_owner_incl | apply incl_refl]. Qed.

  (* history independence over the whole pool: whatever the cached computations are (ANY function F of what they
     read), after ANY sequence of accesses to any of the pool's objects every access returns F of its own arguments *)
  Theorem pool_history_independent : forall (V : Type) (F : deps -> V) (h : list op),
      results keys_eqb pkey (fun o => F (pdep o)) (pool_evict key_linepp key_quadp key_global key_J) h
      = map (fun o => F (pdep o)) h.
  Proof.
    intros V F h. apply keyed_transparent; [apply pool_evict_incl | exact pool_key_determines].
  Qed.
End PoolProofs.
