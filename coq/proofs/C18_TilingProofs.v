(* C18 — tiling of the reference hexahedron / prism by the tetrahedra of MeshHex1.to_meshtet / MeshWedge1.to_meshtet.
   Points are given in homogeneous integer coordinates (X, Y, Z, W), W > 0, standing for the rational point
   (X/W, Y/W, Z/W): the theorems quantify over ALL rational points.  Barycentric coordinates are W-scaled. *)
From Coq Require Import List Arith Bool ZArith Lia.
Import ListNotations.
Require Import Base.Corr Model.C18_Surgery.
Local Open Scope Z_scope.

(* the literals the theorems are about (Dyn.C18_Tie proves the regenerated tables equal to them) *)
Definition hex_split_lit : mat nat :=
  [[0; 1; 3; 4]; [0; 3; 2; 4]; [2; 3; 4; 6]; [3; 4; 6; 7]; [3; 4; 5; 7]; [1; 3; 4; 5]]%nat.
Definition refhex_lit : list pt3 :=
  [(1, 1, 1); (1, 1, 0); (1, 0, 1); (0, 1, 1); (1, 0, 0); (0, 1, 0); (0, 0, 1); (0, 0, 0)].
Definition wedge_split_lit : mat nat := [[0; 1; 2; 3]; [1; 2; 3; 4]; [2; 3; 4; 5]]%nat.
Definition refwedge_lit : list pt3 := [(0, 0, 0); (1, 0, 0); (0, 1, 0); (0, 0, 1); (1, 0, 1); (0, 1, 1)].

Definition hpt := (Z * Z * Z * Z)%type.     (* (X, Y, Z, W) *)
Definition hx (q : hpt) := fst (fst (fst q)).
Definition hy (q : hpt) := snd (fst (fst q)).
Definition hz (q : hpt) := snd (fst q).
Definition hw (q : hpt) := snd q.
Definition hom (v : pt3) : hpt := (x3 v, y3 v, z3 v, 1).

(* 4x4 determinant of homogeneous rows, expanded along the last column *)
Definition det3r (a b c : hpt) : Z :=
  hx a * (hy b * hz c - hz b * hy c) - hy a * (hx b * hz c - hz b * hx c) + hz a * (hx b * hy c - hy b * hx c).
Definition det4 (a b c d : hpt) : Z :=
  - hw a * det3r b c d + hw b * det3r a c d - hw c * det3r a b d + hw d * det3r a b c.

(* W-scaled barycentric coordinates of q in the tetrahedron T of the point table P (Cramer; the reference tetrahedra
   have determinant +-1, so multiplying by the determinant D is dividing by it) *)
Definition bary (P : list pt3) (T : list nat) (q : hpt) : list Z :=
  let v i := hom (nth (nth i T 0%nat) P (0, 0, 0)) in
  let D := det4 (v 0%nat) (v 1%nat) (v 2%nat) (v 3%nat) in
  [D * det4 q (v 1%nat) (v 2%nat) (v 3%nat); D * det4 (v 0%nat) q (v 2%nat) (v 3%nat);
   D * det4 (v 0%nat) (v 1%nat) q (v 3%nat); D * det4 (v 0%nat) (v 1%nat) (v 2%nat) q].
Definition all_nonneg (l : list Z) : Prop := 0 <= nth 0 l 0 /\ 0 <= nth 1 l 0 /\ 0 <= nth 2 l 0 /\ 0 <= nth 3 l 0.
Definition all_pos (l : list Z) : Prop := 0 < nth 0 l 0 /\ 0 < nth 1 l 0 /\ 0 < nth 2 l 0 /\ 0 < nth 3 l 0.
(* sum_i lam_i * v_i, componentwise, and sum_i lam_i *)
Definition comb (P : list pt3) (T : list nat) (lam : list Z) : hpt :=
  let v i := nth (nth i T 0%nat) P (0, 0, 0) in
  let l i := nth i lam 0 in
  (l 0%nat * x3 (v 0%nat) + l 1%nat * x3 (v 1%nat) + l 2%nat * x3 (v 2%nat) + l 3%nat * x3 (v 3%nat),
   l 0%nat * y3 (v 0%nat) + l 1%nat * y3 (v 1%nat) + l 2%nat * y3 (v 2%nat) + l 3%nat * y3 (v 3%nat),
   l 0%nat * z3 (v 0%nat) + l 1%nat * z3 (v 1%nat) + l 2%nat * z3 (v 2%nat) + l 3%nat * z3 (v 3%nat),
   l 0%nat + l 1%nat + l 2%nat + l 3%nat).

(* image of a homogeneous point under x -> o + A x (A by columns c1 c2 c3) *)
Definition himage (o c1 c2 c3 : pt3) (q : hpt) : hpt :=
  (hw q * x3 o + hx q * x3 c1 + hy q * x3 c2 + hz q * x3 c3,
   hw q * y3 o + hx q * y3 c1 + hy q * y3 c2 + hz q * y3 c3,
   hw q * z3 o + hx q * z3 c1 + hy q * z3 c2 + hz q * z3 c3, hw q).

Ltac red_bary := cbv [bary comb hom det4 det3r hx hy hz hw x3 y3 z3 nth fst snd hex_split_lit refhex_lit
                           wedge_split_lit refwedge_lit all_nonneg all_pos himage affine3 map].
Ltac each_template H tac := simpl in H; repeat (destruct H as [<-|H]; [tac|]); try contradiction.
Ltac try_tets n :=
  first [ apply Exists_cons_hd; red_bary; lia
        | match n with S ?m => apply Exists_cons_tl; try_tets m end ].

(* ================= reference hexahedron ================= *)
Lemma hex_bary_correct : forall T, In T hex_split_lit -> forall X Y Z W,
  comb refhex_lit T (bary refhex_lit T (X, Y, Z, W)) = (X, Y, Z, W).
Proof. intros T HT X Y Z W. each_template HT ltac:(red_bary; repeat f_equal; ring). Qed.

(* barycentric coordinates are unique: any coefficients that combine to q are bary q *)
Lemma hex_bary_unique : forall T, In T hex_split_lit -> forall l0 l1 l2 l3,
  bary refhex_lit T (comb refhex_lit T [l0; l1; l2; l3]) = [l0; l1; l2; l3].
Proof. intros T HT l0 l1 l2 l3. each_template HT ltac:(red_bary; repeat f_equal; ring). Qed.

(* every point of the closed unit cube lies in at least one of the six tetrahedra *)
Theorem hex_split_covers_unit_cube : forall X Y Z W, 0 < W -> 0 <= X <= W -> 0 <= Y <= W -> 0 <= Z <= W ->
  Exists (fun T => all_nonneg (bary refhex_lit T (X, Y, Z, W))) hex_split_lit.
Proof.
  intros X Y Z W HW HX HY HZ.
  destruct (Z_le_gt_dec (W - X) Y), (Z_le_gt_dec (W - X) Z), (Z_le_gt_dec Y Z); unfold hex_split_lit; try_tets 6%nat.
Qed.

(* ... and a point in the interior of one tetrahedron lies in no other (not even on its boundary) *)
Theorem hex_split_disjoint_interiors : forall i j q, (i < 6)%nat -> (j < 6)%nat -> i <> j ->
  all_pos (bary refhex_lit (nth i hex_split_lit []) q) -> all_nonneg (bary refhex_lit (nth j hex_split_lit []) q) -> False.
Proof.
  intros i j [[[X Y] Z] W] Hi Hj Hne.
  do 6 (destruct i as [|i]; [do 6 (destruct j as [|j]; [try (exfalso; apply Hne; reflexivity); red_bary; lia|]); lia|]); lia.
Qed.

(* the tetrahedra stay inside the cube *)
Theorem hex_split_inside_unit_cube : forall T, In T hex_split_lit -> forall X Y Z W,
  all_nonneg (bary refhex_lit T (X, Y, Z, W)) -> 0 <= X <= W /\ 0 <= Y <= W /\ 0 <= Z <= W /\ 0 <= W.
Proof. intros T HT X Y Z W. each_template HT ltac:(red_bary; lia). Qed.

(* ================= reference prism  x, y >= 0, x + y <= 1, 0 <= z <= 1 ================= *)
Lemma wedge_bary_correct : forall T, In T wedge_split_lit -> forall X Y Z W,
  comb refwedge_lit T (bary refwedge_lit T (X, Y, Z, W)) = (X, Y, Z, W).
Proof. intros T HT X Y Z W. each_template HT ltac:(red_bary; repeat f_equal; ring). Qed.

Lemma wedge_bary_unique : forall T, In T wedge_split_lit -> forall l0 l1 l2 l3,
  bary refwedge_lit T (comb refwedge_lit T [l0; l1; l2; l3]) = [l0; l1; l2; l3].
Proof. intros T HT l0 l1 l2 l3. each_template HT ltac:(red_bary; repeat f_equal; ring). Qed.

Theorem wedge_split_covers_prism : forall X Y Z W, 0 < W -> 0 <= X -> 0 <= Y -> X + Y <= W -> 0 <= Z <= W ->
  Exists (fun T => all_nonneg (bary refwedge_lit T (X, Y, Z, W))) wedge_split_lit.
Proof.
  intros X Y Z W HW HX HY HXY HZ.
  destruct (Z_le_gt_dec (X + Y + Z) W), (Z_le_gt_dec (Y + Z) W); unfold wedge_split_lit; try_tets 3%nat.
Qed.

Theorem wedge_split_disjoint_interiors : forall i j q, (i < 3)%nat -> (j < 3)%nat -> i <> j ->
  all_pos (bary refwedge_lit (nth i wedge_split_lit []) q) -> all_nonneg (bary refwedge_lit (nth j wedge_split_lit []) q) -> False.
Proof.
  intros i j [[[X Y] Z] W] Hi Hj Hne.
  do 3 (destruct i as [|i]; [do 3 (destruct j as [|j]; [try (exfalso; apply Hne; reflexivity); red_bary; lia|]); lia|]); lia.
Qed.

Theorem wedge_split_inside_prism : forall T, In T wedge_split_lit -> forall X Y Z W,
  all_nonneg (bary refwedge_lit T (X, Y, Z, W)) -> 0 <= X /\ 0 <= Y /\ X + Y <= W /\ 0 <= Z <= W.
Proof. intros T HT X Y Z W. each_template HT ltac:(red_bary; lia). Qed.

(* ================= affine images: barycentric coordinates are affine invariants ================= *)
Lemma himage_inj o c1 c2 c3 r r' :
  det3 c1 c2 c3 <> 0 -> hw r = hw r' -> himage o c1 c2 c3 r = himage o c1 c2 c3 r' -> r = r'.
Proof.
  destruct r as [[[X Y] Z] W], r' as [[[X' Y'] Z'] W'], o as [[ox oy] oz], c1 as [[a11 a21] a31],
           c2 as [[a12 a22] a32], c3 as [[a13 a23] a33].
  cbv [himage hx hy hz hw x3 y3 z3 det3 fst snd]. intros Hd HW He. subst W'.
  injection He as H1 H2 H3.
  set (D := a11 * (a22 * a33 - a32 * a23) - a21 * (a12 * a33 - a32 * a13) + a31 * (a12 * a23 - a22 * a13)) in *.
  set (u := X - X'). set (v := Y - Y'). set (w := Z - Z').
  assert (E1 : a11 * u + a12 * v + a13 * w = 0) by (unfold u, v, w; lia).
  assert (E2 : a21 * u + a22 * v + a23 * w = 0) by (unfold u, v, w; lia).
  assert (E3 : a31 * u + a32 * v + a33 * w = 0) by (unfold u, v, w; lia).
  assert (Hx : D * u = 0).
  { replace (D * u) with ((a22 * a33 - a23 * a32) * (a11 * u + a12 * v + a13 * w)
                          - (a12 * a33 - a13 * a32) * (a21 * u + a22 * v + a23 * w)
                          + (a12 * a23 - a13 * a22) * (a31 * u + a32 * v + a33 * w)) by (unfold D; ring).
    rewrite E1, E2, E3. ring. }
  assert (Hy : D * v = 0).
  { replace (D * v) with (- (a21 * a33 - a23 * a31) * (a11 * u + a12 * v + a13 * w)
                          + (a11 * a33 - a13 * a31) * (a21 * u + a22 * v + a23 * w)
                          - (a11 * a23 - a13 * a21) * (a31 * u + a32 * v + a33 * w)) by (unfold D; ring).
    rewrite E1, E2, E3. ring. }
  assert (Hz : D * w = 0).
  { replace (D * w) with ((a21 * a32 - a22 * a31) * (a11 * u + a12 * v + a13 * w)
                          - (a11 * a32 - a12 * a31) * (a21 * u + a22 * v + a23 * w)
                          + (a11 * a22 - a12 * a21) * (a31 * u + a32 * v + a33 * w)) by (unfold D; ring).
    rewrite E1, E2, E3. ring. }
  apply Z.mul_eq_0 in Hx, Hy, Hz.
  destruct Hx as [?|Hx]; [contradiction|]. destruct Hy as [?|Hy]; [contradiction|]. destruct Hz as [?|Hz]; [contradiction|].
  unfold u, v, w in *. repeat f_equal; lia.
Qed.

Lemma hex_comb_affine : forall T, In T hex_split_lit -> forall o c1 c2 c3 l0 l1 l2 l3,
  comb (map (affine3 o c1 c2 c3) refhex_lit) T [l0; l1; l2; l3]
  = himage o c1 c2 c3 (comb refhex_lit T [l0; l1; l2; l3]).
Proof.
  intros T HT [[ox oy] oz] [[a11 a21] a31] [[a12 a22] a32] [[a13 a23] a33] l0 l1 l2 l3.
  each_template HT ltac:(red_bary; repeat (apply pair_equal_spec; split); ring).
Qed.

Lemma wedge_comb_affine : forall T, In T wedge_split_lit -> forall o c1 c2 c3 l0 l1 l2 l3,
  comb (map (affine3 o c1 c2 c3) refwedge_lit) T [l0; l1; l2; l3]
  = himage o c1 c2 c3 (comb refwedge_lit T [l0; l1; l2; l3]).
Proof.
  intros T HT [[ox oy] oz] [[a11 a21] a31] [[a12 a22] a32] [[a13 a23] a33] l0 l1 l2 l3.
  each_template HT ltac:(red_bary; repeat (apply pair_equal_spec; split); ring).
Qed.

Lemma bary_as_list P T q : bary P T q = [nth 0 (bary P T q) 0; nth 1 (bary P T q) 0; nth 2 (bary P T q) 0; nth 3 (bary P T q) 0].
Proof. reflexivity. Qed.

Section Lift.
  Variables (ref : list pt3) (split : mat nat).
  Hypothesis Hcorrect : forall T, In T split -> forall X Y Z W, comb ref T (bary ref T (X, Y, Z, W)) = (X, Y, Z, W).
  Hypothesis Hunique : forall T, In T split -> forall l0 l1 l2 l3, bary ref T (comb ref T [l0; l1; l2; l3]) = [l0; l1; l2; l3].
  Hypothesis Haffine : forall T, In T split -> forall o c1 c2 c3 l0 l1 l2 l3,
    comb (map (affine3 o c1 c2 c3) ref) T [l0; l1; l2; l3] = himage o c1 c2 c3 (comb ref T [l0; l1; l2; l3]).

  (* a point of the reference cell with nonnegative coordinates in T: its image has the SAME coordinates in the image of T *)
  Lemma lift_member o c1 c2 c3 T q : In T split ->
    comb (map (affine3 o c1 c2 c3) ref) T (bary ref T q) = himage o c1 c2 c3 q.
  Proof.
    intros HT. destruct q as [[[X Y] Z] W]. rewrite (bary_as_list ref T), (Haffine T HT).
    rewrite <- (bary_as_list ref T), (Hcorrect T HT). reflexivity.
  Qed.

  (* two coefficient vectors with the same image point in two image tetrahedra come from ONE reference point *)
  Lemma lift_disjoint o c1 c2 c3 Ti Tj l0 l1 l2 l3 m0 m1 m2 m3 :
    det3 c1 c2 c3 <> 0 -> In Ti split -> In Tj split ->
    comb (map (affine3 o c1 c2 c3) ref) Ti [l0; l1; l2; l3] = comb (map (affine3 o c1 c2 c3) ref) Tj [m0; m1; m2; m3] ->
    exists q, bary ref Ti q = [l0; l1; l2; l3] /\ bary ref Tj q = [m0; m1; m2; m3].
  Proof.
    intros Hd Hi Hj He. rewrite (Haffine Ti Hi), (Haffine Tj Hj) in He.
    assert (Hw : hw (comb ref Ti [l0; l1; l2; l3]) = hw (comb ref Tj [m0; m1; m2; m3])).
    { apply (f_equal hw) in He. exact He. }
    apply (himage_inj _ _ _ _ _ _ Hd Hw) in He.
    exists (comb ref Ti [l0; l1; l2; l3]). split; [apply Hunique; exact Hi|]. rewrite He. apply Hunique. exact Hj.
  Qed.
End Lift.

(* hexahedron -> 6 tetrahedra tiles EVERY parallelepiped  o + A [0,1]^3 : each of its points (image of a point of the unit
   cube) is a convex combination of the vertices of some image tetrahedron, and when det A <> 0 no point is interior to one
   image tetrahedron and contained in another *)
Theorem hex_split_tiles_parallelepiped : forall o c1 c2 c3 : pt3,
  (forall X Y Z W, 0 < W -> 0 <= X <= W -> 0 <= Y <= W -> 0 <= Z <= W ->
     Exists (fun T => exists lam, all_nonneg lam /\ nth 0 lam 0 + nth 1 lam 0 + nth 2 lam 0 + nth 3 lam 0 = W /\
                       comb (map (affine3 o c1 c2 c3) refhex_lit) T lam = himage o c1 c2 c3 (X, Y, Z, W)) hex_split_lit) /\
  (det3 c1 c2 c3 <> 0 -> forall i j l0 l1 l2 l3 m0 m1 m2 m3, (i < 6)%nat -> (j < 6)%nat -> i <> j ->
     all_pos [l0; l1; l2; l3] -> all_nonneg [m0; m1; m2; m3] ->
     comb (map (affine3 o c1 c2 c3) refhex_lit) (nth i hex_split_lit []) [l0; l1; l2; l3]
     = comb (map (affine3 o c1 c2 c3) refhex_lit) (nth j hex_split_lit []) [m0; m1; m2; m3] -> False).
Proof.
  intros o c1 c2 c3. split.
  - intros X Y Z W HW HX HY HZ.
    assert (Hc := hex_split_covers_unit_cube X Y Z W HW HX HY HZ).
    apply Exists_exists in Hc. destruct Hc as [T [HT Hn]]. apply Exists_exists. exists T. split; [exact HT|].
    exists (bary refhex_lit T (X, Y, Z, W)). split; [exact Hn|]. split.
    + assert (H := hex_bary_correct T HT X Y Z W). apply (f_equal hw) in H. exact H.
    + apply (lift_member refhex_lit hex_split_lit hex_bary_correct hex_comb_affine). exact HT.
  - intros Hd i j l0 l1 l2 l3 m0 m1 m2 m3 Hi Hj Hne Hp Hn He.
    assert (Hini : In (nth i hex_split_lit []) hex_split_lit) by (apply nth_In; simpl; lia).
    assert (Hinj : In (nth j hex_split_lit []) hex_split_lit) by (apply nth_In; simpl; lia).
    destruct (lift_disjoint refhex_lit hex_split_lit hex_bary_unique hex_comb_affine o c1 c2 c3 _ _ _ _ _ _ _ _ _ _ Hd Hini Hinj He)
      as [q [H1 H2]].
    apply (hex_split_disjoint_interiors i j q Hi Hj Hne); [rewrite H1; exact Hp | rewrite H2; exact Hn].
Qed.

Theorem wedge_split_tiles_affine_prism : forall o c1 c2 c3 : pt3,
  (forall X Y Z W, 0 < W -> 0 <= X -> 0 <= Y -> X + Y <= W -> 0 <= Z <= W ->
     Exists (fun T => exists lam, all_nonneg lam /\ nth 0 lam 0 + nth 1 lam 0 + nth 2 lam 0 + nth 3 lam 0 = W /\
                       comb (map (affine3 o c1 c2 c3) refwedge_lit) T lam = himage o c1 c2 c3 (X, Y, Z, W)) wedge_split_lit) /\
  (det3 c1 c2 c3 <> 0 -> forall i j l0 l1 l2 l3 m0 m1 m2 m3, (i < 3)%nat -> (j < 3)%nat -> i <> j ->
     all_pos [l0; l1; l2; l3] -> all_nonneg [m0; m1; m2; m3] ->
     comb (map (affine3 o c1 c2 c3) refwedge_lit) (nth i wedge_split_lit []) [l0; l1; l2; l3]
     = comb (map (affine3 o c1 c2 c3) refwedge_lit) (nth j wedge_split_lit []) [m0; m1; m2; m3] -> False).
Proof.
  intros o c1 c2 c3. split.
  - intros X Y Z W HW HX HY HXY HZ.
    assert (Hc := wedge_split_covers_prism X Y Z W HW HX HY HXY HZ).
    apply Exists_exists in Hc. destruct Hc as [T [HT Hn]]. apply Exists_exists. exists T. split; [exact HT|].
    exists (bary refwedge_lit T (X, Y, Z, W)). split; [exact Hn|]. split.
    + assert (H := wedge_bary_correct T HT X Y Z W). apply (f_equal hw) in H. exact H.
    + apply (lift_member refwedge_lit wedge_split_lit wedge_bary_correct wedge_comb_affine). exact HT.
  - intros Hd i j l0 l1 l2 l3 m0 m1 m2 m3 Hi Hj Hne Hp Hn He.
    assert (Hini : In (nth i wedge_split_lit []) wedge_split_lit) by (apply nth_In; simpl; lia).
    assert (Hinj : In (nth j wedge_split_lit []) wedge_split_lit) by (apply nth_In; simpl; lia).
    destruct (lift_disjoint refwedge_lit wedge_split_lit wedge_bary_unique wedge_comb_affine o c1 c2 c3 _ _ _ _ _ _ _ _ _ _ Hd Hini Hinj He)
      as [q [H1 H2]].
    apply (wedge_split_disjoint_interiors i j q Hi Hj Hne); [rewrite H1; exact Hp | rewrite H2; exact Hn].
Qed.
