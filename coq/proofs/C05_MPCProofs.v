(* C05 — mpc (multipoint constraints x[S] = T x[M] + g): for every ring, every sparse A and T given by their stored
   entries, every duplicate-free disjoint S, M in any order: if u solves the reduced system B u = y that mpc returns,
   the vector produced by the expansion of solve_linear (np.add.at on zeros over U, M, S) satisfies the constraint
   exactly and the rows U and M of A x = b. *)
From Coq Require Import List ZArith Bool Arith Lia Ring.
Import ListNotations.
Require Import Base.C05_Np Model.C05_BC Model.C05_MPC Proofs.C05_IdxProofs Proofs.C05_CondenseProofs Proofs.C05_EnforceProofs.

Lemma NoDup_app_disjoint {X} (l1 l2 : list X) :
  NoDup l1 -> NoDup l2 -> (forall x, In x l1 -> ~ In x l2) -> NoDup (l1 ++ l2).
Proof.
  induction l1 as [|a l1 IH]; intros N1 N2 H; simpl; [assumption|]. inversion N1 as [|a' l' Ha N1']; subst.
  constructor.
  - intros Hin. apply in_app_or in Hin. destruct Hin as [Hin|Hin]; [tauto|]. apply (H a); [now left | assumption].
  - apply IH; auto. intros x Hx. apply H. now right.
Qed.

Lemma NoDup_app_inv {X} (l1 l2 : list X) :
  NoDup (l1 ++ l2) -> NoDup l1 /\ NoDup l2 /\ (forall x, In x l1 -> ~ In x l2).
Proof.
  induction l1 as [|a l1 IH]; simpl; intros H.
  - repeat split; [constructor | assumption | tauto].
  - inversion H as [|a' l' Ha H']; subst. destruct (IH H') as (N1 & N2 & D). repeat split; auto.
    + constructor; [|assumption]. intros Hin. apply Ha, in_or_app. now left.
    + intros x [<-|Hx]; [|now apply D]. intros Hin. apply Ha, in_or_app. now right.
Qed.

Section MPC.
  Context {R : Type} (o : ring_ops R).
  Hypothesis Rth : ring_theory (r0 o) (r1 o) (radd o) (rmul o) (rsub o) (ropp o) (@eq R).
  Add Ring Rring5 : Rth.
  Local Notation "a [+] b" := (radd o a b) (at level 50, left associativity).
  Local Notation "a [*] b" := (rmul o a b) (at level 40, left associativity).
  Local Notation "a [-] b" := (rsub o a b) (at level 50, left associativity).
  Local Notation zero := (r0 o).

  (* ---------------------------------------------------------------- row algebra *)
  Lemma positions_lt c J : forall p0 p, In p (positions_from p0 c J) -> p0 <= p < p0 + length J.
  Proof.
    induction J as [|j J IH]; intros p0 p H; simpl in *; [tauto|].
    destruct (Nat.eqb j c); [destruct H as [<-|H]; [lia|]|]; apply IH in H; lia.
  Qed.
  Lemma sel_cols_lt J (r : list (nat * R)) cv : In cv (sel_cols_row J r) -> fst cv < length J.
  Proof.
    unfold sel_cols_row. intros H. apply in_flat_map in H. destruct H as (cw & _ & H).
    apply in_map_iff in H. destruct H as (p & <- & Hp). apply positions_lt in Hp. simpl. lia.
  Qed.

  Lemma vnth_app_l (a b : list R) c : c < length a -> vnth o (a ++ b) c = vnth o a c.
  Proof. intros H. unfold vnth. now apply app_nth1. Qed.
  Lemma vnth_app_r (a b : list R) c : vnth o (a ++ b) (length a + c) = vnth o b c.
  Proof. unfold vnth. apply app_nth2_plus. Qed.

  Lemma row_dot_app_l (r : list (nat * R)) (a b : list R) :
    (forall cv, In cv r -> fst cv < length a) -> row_dot o r (a ++ b) = row_dot o r a.
  Proof.
    induction r as [|cv r IH]; intros H; simpl; [reflexivity|].
    rewrite vnth_app_l by (apply H; now left). rewrite IH; [reflexivity|]. intros c Hc. apply H. now right.
  Qed.
  Lemma row_dot_shift (r : list (nat * R)) (a b : list R) : row_dot o (shift_cols (length a) r) (a ++ b) = row_dot o r b.
  Proof. induction r as [|cv r IH]; simpl; [reflexivity|]. now rewrite vnth_app_r, IH. Qed.
  Lemma row_dot_scale v (tr : list (nat * R)) w :
    row_dot o (map (fun ct => (fst ct, v [*] snd ct)) tr) w = v [*] row_dot o tr w.
  Proof. induction tr as [|ct tr IH]; simpl; [ring | rewrite IH; ring]. Qed.
  (* (A @ T) w = A (T w), row by row *)
  Lemma row_dot_times (r : list (nat * R)) T w : row_dot o (row_times o r T) w = row_dot o r (matvec o T w).
  Proof.
    induction r as [|cv r IH]; simpl; [reflexivity|].
    rewrite (row_dot_app o Rth), row_dot_scale, IH, vnth_matvec. reflexivity.
  Qed.
  Lemma vnth_vadd (a g : list R) c : length a = length g -> vnth o (vadd o a g) c = vnth o a c [+] vnth o g c.
  Proof.
    unfold vnth, vadd. revert g c; induction a as [|x a IH]; intros [|y g] c H; simpl in H; try discriminate.
    - destruct c; simpl; ring.
    - destruct c as [|c]; simpl; [reflexivity|]. apply IH. congruence.
  Qed.
  Lemma row_dot_vadd (r : list (nat * R)) (a g : list R) :
    length a = length g -> row_dot o r (vadd o a g) = row_dot o r a [+] row_dot o r g.
  Proof. intros H. induction r as [|cv r IH]; simpl; [ring|]. rewrite vnth_vadd, IH by assumption. ring. Qed.

  (* ---------------------------------------------------------------- three-way split of the columns *)
  Definition part3 (n : nat) (U M S : list nat) : Prop :=
    NoDup U /\ NoDup M /\ NoDup S /\
    (forall c, In c U -> c < n) /\ (forall c, In c M -> c < n) /\ (forall c, In c S -> c < n) /\
    forall c, c < n -> (In c U /\ ~ In c M /\ ~ In c S) \/ (~ In c U /\ In c M /\ ~ In c S) \/ (~ In c U /\ ~ In c M /\ In c S).

  Lemma mpc_part3 n M S :
    NoDup (M ++ S) -> (forall c, In c (M ++ S) -> c < n) -> part3 n (mpc_U n M S) M S.
  Proof.
    intros ND B. unfold mpc_U.
    destruct (NoDup_app_inv M S ND) as (NM & NS & Hdis0).
    assert (Hdis : forall c, In c M -> In c S -> False) by (intros c HM HS; exact (Hdis0 c HM HS)).
    repeat split; auto using complement_NoDup.
    - intros c Hc. now apply in_complement in Hc.
    - intros c Hc. apply B, in_or_app. now left.
    - intros c Hc. apply B, in_or_app. now right.
    - intros c Hc. destruct (In_dec_nat c M) as [HM|HM]; destruct (In_dec_nat c S) as [HS|HS].
      + exfalso. eauto.
      + right. left. repeat split; auto. intros H. apply in_complement in H. apply (proj2 H), in_or_app. now left.
      + right. right. repeat split; auto. intros H. apply in_complement in H. apply (proj2 H), in_or_app. now right.
      + left. repeat split; auto. apply in_complement. split; [assumption|]. intros H. apply in_app_or in H. tauto.
  Qed.

  Lemma row_dot_split3 n U M S (r : list (nat * R)) y :
    part3 n U M S -> (forall cv, In cv r -> fst cv < n) ->
    row_dot o r y = row_dot o (sel_cols_row U r) (vsel o y U) [+] row_dot o (sel_cols_row M r) (vsel o y M)
                    [+] row_dot o (sel_cols_row S r) (vsel o y S).
  Proof.
    intros (NU & NM & NS & _ & _ & _ & P) Hr. rewrite !(row_dot_sel_cols o Rth) by assumption.
    induction r as [|[c v] r IH]; simpl; [ring|].
    rewrite IH by (intros cv Hcv; apply Hr; now right).
    specialize (P c (Hr (c, v) (or_introl eq_refl))). simpl in P.
    destruct (memb c U) eqn:EU; destruct (memb c M) eqn:EM; destruct (memb c S) eqn:ES; try ring; exfalso;
      repeat match goal with
             | H : memb _ _ = true |- _ => apply memb_In in H
             | H : memb _ _ = false |- _ => apply memb_false in H
             end; tauto.
  Qed.

  (* ---------------------------------------------------------------- np.add.at with a duplicate-free index array *)
  Lemma vadd_at_length (y : list R) idx vals : length (vadd_at o y idx vals) = length y.
  Proof.
    unfold vadd_at. revert y vals; induction idx as [|i idx IH]; intros y [|v vals]; simpl; auto.
    rewrite IH. apply upd_length.
  Qed.
  Lemma vadd_at_notin (y : list R) idx vals c : ~ In c idx -> vnth o (vadd_at o y idx vals) c = vnth o y c.
  Proof.
    unfold vadd_at. revert y vals; induction idx as [|i idx IH]; intros y [|v vals] H; simpl; auto.
    rewrite IH by (simpl in H; tauto). unfold vnth at 1. rewrite nth_upd.
    destruct (Nat.eqb c i) eqn:E; [|reflexivity]. apply Nat.eqb_eq in E. subst. simpl in H. tauto.
  Qed.
  Lemma vadd_at_at (y : list R) idx vals p :
    NoDup idx -> length vals = length idx -> (forall i, In i idx -> i < length y) -> p < length idx ->
    vnth o (vadd_at o y idx vals) (nth p idx 0) = vnth o y (nth p idx 0) [+] vnth o vals p.
  Proof.
    revert y vals p; induction idx as [|i idx IH]; intros y vals p ND Hl Hb Hp; simpl in Hp; [lia|].
    destruct vals as [|v vals]; simpl in Hl; [discriminate|]. inversion ND as [|i' l' Hi ND']; subst.
    change (vadd_at o y (i :: idx) (v :: vals)) with (vadd_at o (upd y i (vnth o y i [+] v)) idx vals).
    destruct p as [|p]; simpl nth.
    - rewrite vadd_at_notin by assumption. unfold vnth at 1. rewrite nth_upd, Nat.eqb_refl.
      assert (Hlt : i < length y) by (apply Hb; now left). apply Nat.ltb_lt in Hlt. now rewrite Hlt.
    - change (vnth o (v :: vals) (S p)) with (vnth o vals p).
      rewrite IH; auto; try lia.
      + f_equal. unfold vnth at 1. rewrite nth_upd.
        destruct (Nat.eqb (nth p idx 0) i) eqn:E; [|reflexivity].
        apply Nat.eqb_eq in E. exfalso. apply Hi. rewrite <- E. apply nth_In. lia.
      + intros j Hj. rewrite upd_length. apply Hb. now right.
  Qed.

  (* ---------------------------------------------------------------- the reduced system, row by row *)
  Definition mpc_row (A T : list (list (nat * R))) (U M S : list nat) (i : nat) : list (nat * R) :=
    sel_cols_row U (mrow A i) ++
    shift_cols (length U) (sel_cols_row M (mrow A i) ++ row_times o (sel_cols_row S (mrow A i)) T).

  Lemma mpc_B_rows A T U M S : mpc_B o A T U M S = map (mpc_row A T U M S) (U ++ M).
  Proof.
    unfold mpc_B, mvstack, mhstack, madd, mmul, msel_cols, msel_rows. rewrite map_app.
    f_equal; rewrite !map_map, !map2_maps; reflexivity.
  Qed.
  Lemma mpc_y_rows A b g U M S :
    mpc_y o A b g U M S = map (fun i => vnth o b i [-] row_dot o (sel_cols_row S (mrow A i)) g) (U ++ M).
  Proof.
    unfold mpc_y, vsub, vsel, matvec, msel_cols, msel_rows. rewrite map_app.
    f_equal; rewrite !map_map, map2_maps; reflexivity.
  Qed.

  Lemma mpc_row_dot A T U M S i (uU uM : list R) :
    length uU = length U ->
    row_dot o (mpc_row A T U M S i) (uU ++ uM)
    = row_dot o (sel_cols_row U (mrow A i)) uU [+] row_dot o (sel_cols_row M (mrow A i)) uM
      [+] row_dot o (sel_cols_row S (mrow A i)) (matvec o T uM).
  Proof.
    intros Hl. unfold mpc_row. rewrite (row_dot_app o Rth).
    rewrite row_dot_app_l by (intros cv Hcv; rewrite Hl; now apply sel_cols_lt in Hcv).
    rewrite <- Hl, row_dot_shift, (row_dot_app o Rth), row_dot_times. ring.
  Qed.

  (* ---------------------------------------------------------------- main theorem *)
  Theorem mpc_sound n (A T : list (list (nat * R))) (b g u : list R) (M S : list nat) :
    length A = n -> length b = n -> rows_in_range n A ->
    NoDup (M ++ S) -> (forall c, In c (M ++ S) -> c < n) ->
    length T = length S -> length g = length S ->
    let U := mpc_U n M S in
    length u = length U + length M ->
    matvec o (mpc_B o A T U M S) u = mpc_y o A b g U M S ->
    let x := expand_tuple o (map (fun _ => zero) b) (mpc_perm U M S) (mpc_expand o T g (length U)) u in
    length x = n /\
    vsel o x S = vadd o (matvec o T (vsel o x M)) g /\
    (forall i, In i (U ++ M) -> vnth o (matvec o A x) i = vnth o b i).
  Proof.
    intros HlA Hlb HA ND HB HT Hg U Hu Hsolve x.
    pose proof (mpc_part3 n M S ND HB) as HP. fold U in HP.
    pose proof HP as (NU & NM & NS & BU & BM & BS & P).
    set (uU := firstn (length U) u). set (uM := skipn (length U) u).
    assert (Eu : u = uU ++ uM) by (symmetry; apply firstn_skipn).
    assert (HluU : length uU = length U) by (unfold uU; rewrite firstn_length; lia).
    assert (HluM : length uM = length M) by (unfold uM; rewrite skipn_length; lia).
    set (w := vadd o (matvec o T uM) g).
    assert (HlTu : length (matvec o T uM) = length g).
    { unfold matvec. rewrite map_length. transitivity (length S); [exact HT | symmetry; exact Hg]. }
    assert (Hlw : length w = length S).
    { unfold w, vadd. rewrite map2_length by exact HlTu. rewrite HlTu. exact Hg. }
    (* the expanded vector *)
    assert (Ex : x = vadd_at o (map (fun _ => zero) b) (U ++ M ++ S) (u ++ w)).
    { unfold x, expand_tuple, mpc_perm, mpc_expand. reflexivity. }
    assert (NDperm : NoDup (U ++ M ++ S)).
    { apply NoDup_app_disjoint; [assumption | assumption|].
      intros c Hc Hc'. unfold U, mpc_U in Hc. apply in_complement in Hc. tauto. }
    assert (Hzero : forall c, vnth o (map (fun _ : R => zero) b) c = zero) by (intros c; unfold vnth; apply nth_const_map).
    assert (Hbnd : forall i, In i (U ++ M ++ S) -> i < length (map (fun _ : R => zero) b)).
    { intros i Hi. rewrite map_length, Hlb. apply in_app_or in Hi. destruct Hi as [Hi|Hi]; [auto|].
      apply in_app_or in Hi. destruct Hi; auto. }
    assert (Hlv : length (u ++ w) = length (U ++ M ++ S)) by (rewrite !app_length; lia).
    assert (HxU : forall p, p < length U -> vnth o x (nth p U 0) = vnth o u p).
    { intros p Hp. pose proof (vadd_at_at (map (fun _ => zero) b) (U ++ M ++ S) (u ++ w) p NDperm Hlv Hbnd) as H.
      rewrite app_nth1 in H by assumption. rewrite Ex, H by (rewrite !app_length; lia).
      rewrite Hzero, vnth_app_l by lia. ring. }
    assert (HxM : forall p, p < length M -> vnth o x (nth p M 0) = vnth o u (length U + p)).
    { intros p Hp. pose proof (vadd_at_at (map (fun _ => zero) b) (U ++ M ++ S) (u ++ w) (length U + p) NDperm Hlv Hbnd) as H.
      rewrite app_nth2_plus, app_nth1 in H by assumption. rewrite Ex, H by (rewrite !app_length; lia).
      rewrite Hzero, vnth_app_l by lia. ring. }
    assert (HxS : forall p, p < length S -> vnth o x (nth p S 0) = vnth o w p).
    { intros p Hp.
      pose proof (vadd_at_at (map (fun _ => zero) b) (U ++ M ++ S) (u ++ w) (length U + (length M + p)) NDperm Hlv Hbnd) as H.
      rewrite app_nth2_plus, app_nth2_plus in H. rewrite Ex, H by (rewrite !app_length; lia).
      rewrite Hzero. replace (length U + (length M + p)) with (length u + p) by lia. rewrite vnth_app_r. ring. }
    assert (EU : vsel o x U = uU).
    { apply (nth_ext _ _ zero zero); [now rewrite vsel_length|]. rewrite vsel_length. intros p Hp.
      change (vnth o (vsel o x U) p = vnth o uU p). rewrite vnth_vsel, HxU by assumption.
      unfold uU, vnth. now rewrite nth_firstn_lt. }
    assert (EM : vsel o x M = uM).
    { apply (nth_ext _ _ zero zero); [now rewrite vsel_length|]. rewrite vsel_length. intros p Hp.
      change (vnth o (vsel o x M) p = vnth o uM p). rewrite vnth_vsel, HxM by assumption.
      unfold uM, vnth. now rewrite nth_skipn. }
    assert (ES : vsel o x S = w).
    { apply (nth_ext _ _ zero zero); [now rewrite vsel_length|]. rewrite vsel_length. intros p Hp.
      change (vnth o (vsel o x S) p = vnth o w p). now rewrite vnth_vsel, HxS. }
    split; [|split].
    - rewrite Ex, vadd_at_length, map_length. exact Hlb.
    - rewrite ES, EM. reflexivity.
    - intros i Hi. rewrite vnth_matvec.
      rewrite (row_dot_split3 n U M S) by (auto; eapply mrow_in_range; eauto).
      rewrite EU, EM, ES. unfold w. rewrite row_dot_vadd by exact HlTu.
      rewrite mpc_B_rows, mpc_y_rows in Hsolve. unfold matvec in Hsolve. rewrite map_map in Hsolve.
      pose proof (proj1 (@map_ext_in_iff _ _ _ _ _) Hsolve i Hi) as Hrow. simpl in Hrow.
      rewrite Eu, mpc_row_dot in Hrow by assumption.
      transitivity ((row_dot o (sel_cols_row U (mrow A i)) uU [+] row_dot o (sel_cols_row M (mrow A i)) uM
                     [+] row_dot o (sel_cols_row S (mrow A i)) (matvec o T uM))
                    [+] row_dot o (sel_cols_row S (mrow A i)) g); [ring|].
      rewrite Hrow. ring.
  Qed.
End MPC.
