(* C13 — proofs about the adaptive-refinement model, independent of the generated templates:
   termination and least-fixpoint property of the facet-marking loop for EVERY mesh and EVERY marked
   set, position of every child in the grouped connectivity, coordinates of the new nodes. *)
From Coq Require Import List Arith Bool Lia ZArith QArith.
Import ListNotations.
Require Import Model.C12_Refine Model.C12_Geom Model.C13_Adaptive Proofs.C12_RefineProofs Proofs.C12_GeomProofs.
Local Open Scope nat_scope.

(* ------------------------------------------------------------------ marks *)
Definition le_marks (F G : marks) : Prop := forall f, mk F f = true -> mk G f = true.

Lemma le_marks_refl F : le_marks F F. Proof. intros f H; exact H. Qed.
Lemma le_marks_trans F G H : le_marks F G -> le_marks G H -> le_marks F H.
Proof. intros A B f Hf. apply B, A, Hf. Qed.

Lemma set_true_length F f : length (set_true F f) = length F.
Proof. revert f; induction F as [|b F IH]; intros [|f]; simpl; auto. Qed.

Lemma set_all_length fs : forall F, length (set_all F fs) = length F.
Proof. induction fs as [|f fs IH]; intros F; simpl; [reflexivity|]. now rewrite IH, set_true_length. Qed.

Lemma mk_set_true F f g : mk (set_true F f) g = mk F g || (Nat.eqb g f && (f <? length F)).
Proof.
  unfold mk. revert f g; induction F as [|b F IH]; intros f g; simpl.
  - destruct g, f; simpl; rewrite ?andb_false_r; reflexivity.
  - destruct f as [|f], g as [|g]; simpl.
    + now rewrite orb_true_r.
    + now rewrite orb_false_r.
    + now rewrite orb_false_r.
    + rewrite IH. reflexivity.
Qed.

Lemma mk_set_all fs : forall F g, mk (set_all F fs) g = true <-> mk F g = true \/ (In g fs /\ g < length F).
Proof.
  induction fs as [|f fs IH]; intros F g; simpl.
  - intuition.
  - rewrite IH, mk_set_true, set_true_length, orb_true_iff, andb_true_iff, Nat.eqb_eq, Nat.ltb_lt. split.
    + intros [[H|[-> H]]|[H1 H2]]; auto.
    + intros [H|[[->|H1] H2]]; auto.
Qed.

Lemma count_le_length F : count F <= length F.
Proof. unfold count. induction F as [|[] F IH]; simpl; lia. Qed.

Lemma le_marks_tail a b F G : le_marks (a :: F) (b :: G) -> (a = true -> b = true) /\ le_marks F G.
Proof. intros H. split; [exact (H 0) | intros f; exact (H (S f))]. Qed.

Lemma count_le F : forall G, length F = length G -> le_marks F G ->
  count F <= count G /\ (count G <= count F -> F = G).
Proof.
  unfold count. induction F as [|a F IH]; intros [|b G] Hl H; simpl in Hl; try discriminate.
  - split; auto.
  - injection Hl as Hl. apply le_marks_tail in H. destruct H as [Hab HFG].
    destruct (IH G Hl HFG) as [H1 H2].
    destruct a, b; simpl; try (specialize (Hab eq_refl); discriminate).
    + split; [lia|]. intros Hc. f_equal. apply H2. lia.
    + split; [lia|]. intros Hc. exfalso. lia.
    + split; [lia|]. intros Hc. f_equal. apply H2. lia.
Qed.

(* ------------------------------------------------------------------ an inflationary monotone operator *)
Section Closure.
  Variable op : marks -> marks.
  Hypothesis op_length : forall F, length (op F) = length F.
  Hypothesis op_infl : forall F, le_marks F (op F).
  Hypothesis op_mono : forall F G, length F = length G -> le_marks F G -> le_marks (op F) (op G).

  Fixpoint closure_gen (fuel : nat) (F : marks) : option marks :=
    match fuel with
    | 0 => None
    | S n => let F' := op F in if count F <? count F' then closure_gen n F' else Some F'
    end.

  Lemma closure_gen_spec fuel : forall F, length F - count F < fuel ->
    exists R, closure_gen fuel F = Some R /\ length R = length F /\ le_marks F R /\ op R = R /\
              forall G, length G = length F -> le_marks F G -> le_marks (op G) G -> le_marks R G.
  Proof.
    induction fuel as [|n IH]; intros F Hm; [lia|]. simpl.
    destruct (count_le F (op F) (eq_sym (op_length F)) (op_infl F)) as [Hc1 Hc2].
    destruct (count F <? count (op F)) eqn:E.
    - apply Nat.ltb_lt in E.
      pose proof (count_le_length (op F)) as Hb. rewrite op_length in Hb.
      destruct (IH (op F)) as [R [HR [HlR [HleR [Hfix Hleast]]]]].
      { rewrite op_length. lia. }
      exists R. split; [exact HR|]. split; [now rewrite HlR, op_length|]. split.
      { eapply le_marks_trans; [apply op_infl | exact HleR]. }
      split; [exact Hfix|]. intros G HlG HFG HG. apply Hleast.
      + now rewrite op_length.
      + eapply le_marks_trans; [apply op_mono; [now rewrite HlG | exact HFG] | exact HG].
      + exact HG.
    - apply Nat.ltb_ge in E. pose proof (Hc2 E) as Heq.
      exists (op F). split; [reflexivity|]. split; [apply op_length|]. split; [apply op_infl|]. split.
      + now rewrite <- Heq.
      + intros G HlG HFG HG. eapply le_marks_trans; [apply op_mono; [now rewrite HlG | exact HFG] | exact HG].
  Qed.
End Closure.

(* ------------------------------------------------------------------ the sweep of _adaptive_find_facets *)
Lemma existsb_mono {A} (f g : A -> bool) l :
  (forall x, f x = true -> g x = true) -> existsb f l = true -> existsb g l = true.
Proof.
  intros H. rewrite !existsb_exists. intros [x [Hx Hf]]. exists x. auto.
Qed.

Lemma sweep_length srcs dst t2f F : length (sweep srcs dst t2f F) = length F.
Proof. apply set_all_length. Qed.

Lemma sweep_infl srcs dst t2f F : le_marks F (sweep srcs dst t2f F).
Proof. intros f H. unfold sweep. apply mk_set_all. now left. Qed.

Lemma sweep_mono srcs dst t2f F G :
  length F = length G -> le_marks F G -> le_marks (sweep srcs dst t2f F) (sweep srcs dst t2f G).
Proof.
  intros Hl H f Hf. unfold sweep in *. apply mk_set_all in Hf. apply mk_set_all.
  destruct Hf as [Hf|[Hin Hlt]]; [left; now apply H|]. right. split; [|lia].
  apply in_flat_map in Hin. destruct Hin as [c [Hc Hin]]. apply in_flat_map. exists c. split; [exact Hc|].
  unfold cell_new in *. destruct (existsb (fun i => mk F (nth i c 0)) srcs) eqn:E; [|destruct Hin].
  rewrite (existsb_mono _ (fun i => mk G (nth i c 0)) srcs (fun i => H (nth i c 0)) E). exact Hin.
Qed.

Lemma closure_is_gen fuel srcs dst t2f F :
  closure fuel srcs dst t2f F = closure_gen (sweep srcs dst t2f) fuel F.
Proof. revert F; induction fuel as [|n IH]; intros F; simpl; [reflexivity|]. now rewrite IH. Qed.

(* closure_terminates: for every mesh (any t2f, any number of facets) and every initial marking the loop
   stops within nfacets + 1 sweeps (fuel not exhausted) at the LEAST marking that contains the initial one
   and is stable under the rule *)
Theorem closure_terminates srcs dst t2f F0 :
  exists R, closure (S (length F0)) srcs dst t2f F0 = Some R /\ length R = length F0 /\ le_marks F0 R /\
            sweep srcs dst t2f R = R /\
            forall G, length G = length F0 -> le_marks F0 G -> le_marks (sweep srcs dst t2f G) G -> le_marks R G.
Proof.
  rewrite closure_is_gen.
  apply (closure_gen_spec (sweep srcs dst t2f) (sweep_length srcs dst t2f) (sweep_infl srcs dst t2f)
                          (sweep_mono srcs dst t2f) (S (length F0)) F0).
  pose proof (count_le_length F0). lia.
Qed.

(* stable under a sweep = closed under the rule, for cells whose facet ids are in range *)
Lemma sweep_fix_closed srcs dst t2f R c :
  sweep srcs dst t2f R = R -> In c t2f -> nth dst c 0 < length R ->
  existsb (fun i => mk R (nth i c 0)) srcs = true -> mk R (nth dst c 0) = true.
Proof.
  intros Hfix Hc Hr He. rewrite <- Hfix. unfold sweep. apply mk_set_all. right. split; [|exact Hr].
  apply in_flat_map. exists c. split; [exact Hc|]. unfold cell_new. rewrite He. now left.
Qed.

Lemma init_marks_length nf t2f marked : length (init_marks nf t2f marked) = nf.
Proof. unfold init_marks. now rewrite set_all_length, repeat_length. Qed.

(* every facet of a marked cell is marked initially *)
Lemma init_marks_marked nf t2f marked k f :
  In k marked -> In f (nth k t2f []) -> f < nf -> mk (init_marks nf t2f marked) f = true.
Proof.
  intros Hk Hf Hlt. unfold init_marks. apply mk_set_all. right. rewrite repeat_length. split; [|exact Hlt].
  apply in_flat_map. exists k. auto.
Qed.

(* ------------------------------------------------------------------ patterns *)
Lemma all_patterns_complete n : forall q : list bool, length q = n -> In q (all_patterns n).
Proof.
  induction n as [|n IH]; intros [|b q] H; simpl in *; try discriminate; auto.
  injection H as H. apply in_flat_map. exists q. split; [now apply IH|]. destruct b; simpl; auto.
Qed.

Lemma pattern_length F c : length (pattern F c) = length c.
Proof. unfold pattern. now rewrite map_length. Qed.

Lemma nth_pattern F c i : i < length c -> nth i (pattern F c) false = mk F (nth i c 0).
Proof. intros H. unfold pattern. now rewrite (nth_map' _ _ 0 false) by exact H. Qed.

(* patterns_exhaustive: after the closure every cell (3 facets, ids in range) falls in one of the classes *)
Theorem patterns_exhaustive srcs dst pats t2f R c :
  patterns_ok srcs dst pats = true ->
  Forall (fun i => i < 3) srcs -> dst < 3 ->
  sweep srcs dst t2f R = R -> In c t2f -> length c = 3 -> nth dst c 0 < length R ->
  class_of pats (pattern R c) < length pats.
Proof.
  intros Hok Hs Hd Hfix Hc Hl Hr.
  unfold patterns_ok in Hok. rewrite forallb_forall in Hok.
  assert (Hpl : length (pattern R c) = 3) by (rewrite pattern_length; exact Hl).
  specialize (Hok (pattern R c) (all_patterns_complete 3 _ Hpl)).
  assert (Hcl : closed_pat srcs dst (pattern R c) = true).
  { unfold closed_pat. destruct (existsb (fun i => nth i (pattern R c) false) srcs) eqn:E; [|reflexivity].
    simpl. rewrite nth_pattern by lia.
    apply (sweep_fix_closed srcs dst t2f R c Hfix Hc Hr).
    rewrite existsb_exists in *. destruct E as [i [Hi Hn]]. exists i. split; [exact Hi|].
    rewrite Forall_forall in Hs. rewrite nth_pattern in Hn by (specialize (Hs i Hi); lia). exact Hn. }
  rewrite Hcl in Hok. simpl in Hok. now apply Nat.ltb_lt.
Qed.

(* ------------------------------------------------------------------ grouped connectivity *)
Lemma grouped_length res flat cls cs :
  length cls = length cs ->
  length (grouped res flat cls cs) = list_sum (map (fun ct => count_cls cls (fst ct)) flat).
Proof.
  intros Hl. unfold grouped. rewrite length_concat_map. apply f_equal, map_ext. intros ct.
  now rewrite map_length, cls_filter_length.
Qed.

(* the cell produced from old cell k by flat block b sits at grouped_index b k *)
Theorem grouped_nth res flat cls cs b k dc d :
  length cls = length cs -> b < length flat -> k < length cs -> fst (nth b flat d) = nth k cls 0 ->
  nth (grouped_index flat cls b k) (grouped res flat cls cs) [] = res (nth k cs dc) (snd (nth b flat d)).
Proof.
  intros Hl Hb Hk Hc. unfold grouped, grouped_index.
  set (g := fun ct : nat * list nref => map (fun c => res c (snd ct)) (cls_filter cls (fst ct) cs)).
  assert (Hpre : list_sum (map (fun ct => count_cls cls (fst ct)) (firstn b flat))
                 = length (concat (firstn b (map g flat)))).
  { rewrite firstn_map, length_concat_map. apply f_equal, map_ext. intros ct. unfold g.
    now rewrite map_length, cls_filter_length. }
  rewrite Hpre.
  assert (Hnb : nth b (map g flat) [] = g (nth b flat d)) by (apply nth_map'; exact Hb).
  pose proof (rank_lt_count cls k ltac:(lia)) as Hrank.
  rewrite nth_concat_at.
  - rewrite Hnb. unfold g. rewrite Hc.
    rewrite (nth_map' _ _ dc []) by (rewrite cls_filter_length by exact Hl; exact Hrank).
    f_equal. now apply cls_filter_nth.
  - rewrite Hnb. unfold g. rewrite map_length, cls_filter_length, Hc by exact Hl. exact Hrank.
Qed.

(* ------------------------------------------------------------------ the new nodes *)
Lemma count_firstn_combine (F : marks) {A} (l : list A) f :
  length F = length l ->
  count (firstn f F) = length (filter (fun bf : bool * A => fst bf) (firstn f (combine F l))).
Proof.
  unfold count. revert l f; induction F as [|b F IH]; intros [|x l] f H; simpl in *; try discriminate.
  - destruct f; reflexivity.
  - destruct f as [|f]; simpl; [reflexivity|]. injection H as H. destruct b; simpl; now rewrite (IH l f H).
Qed.

(* the node created for a marked facet f has index nv + #(marked facets below f) and is the midpoint of f *)
Theorem adaptive_new_node dim p facets F f :
  length F = length facets -> f < length facets -> mk F f = true ->
  nth (node_of F (length p) f) (p ++ new_points dim p facets F) [] = midpoint dim p (nth f facets []).
Proof.
  intros Hl Hf Hm. unfold node_of. rewrite app_nth2 by lia.
  replace (length p + count (firstn f F) - length p) with (count (firstn f F)) by lia.
  unfold new_points. rewrite (count_firstn_combine F facets f Hl).
  set (P := fun bf : bool * list nat => fst bf).
  assert (Hn : nth f (combine F facets) (false, []) = (nth f F false, nth f facets [])) by apply combine_nth, Hl.
  assert (Hlen : f < length (combine F facets)) by (rewrite combine_length; lia).
  assert (HP : P (nth f (combine F facets) (false, [])) = true) by (rewrite Hn; exact Hm).
  rewrite (nth_map' (fun bf : bool * list nat => midpoint dim p (snd bf)) (filter P (combine F facets))
             (false, @nil nat) (@nil Q))
    by (apply (filter_rank_lt P (false, [])); assumption).
  rewrite (nth_filter_rank P (false, [])) by assumption. now rewrite Hn.
Qed.

Lemma old_points_kept dim p facets F i : i < length p -> nth i (p ++ new_points dim p facets F) [] = nth i p [].
Proof. intros H. now rewrite app_nth1. Qed.

(* ------------------------------------------------------------------ traces: both neighbours agree *)
(* what the children leave on facet f of the old mesh depends on f alone *)
Definition sort2 (a b : nat) : nat * nat := if a <=? b then (a, b) else (b, a).
Definition facet_trace (F : marks) (nv : nat) (facets : list (list nat)) (f : nat) : list (nat * nat) :=
  let e := nth f facets [] in let u := nth 0 e 0 in let v := nth 1 e 0 in
  if mk F f then [sort2 u (node_of F nv f); sort2 (node_of F nv f) v] else [sort2 u v].

(* the pieces of parent facet a resolved in a cell whose local facet a is facet f = {u, v} of the mesh *)
Definition resolved_pieces (rf : list (list nat)) (F : marks) (nv : nat) (c : cctx) (a : nat) : list (nat * nat) :=
  let lf := nth a rf [] in
  let u := nth (nth 0 lf 0) (cv c) 0 in let v := nth (nth 1 lf 0) (cv c) 0 in
  let f := nth a (cf c) 0 in
  if mk F f then [sort2 u (node_of F nv f); sort2 (node_of F nv f) v] else [sort2 u v].

Lemma sort2_comm a b : sort2 a b = sort2 b a.
Proof.
  unfold sort2. destruct (a <=? b) eqn:E1, (b <=? a) eqn:E2; try reflexivity.
  - apply Nat.leb_le in E1, E2. assert (a = b) by lia. now subst.
  - apply Nat.leb_gt in E1, E2. lia.
Qed.

(* the two neighbours of a facet cut it into the same pieces (as sets): the pieces depend only on the facet *)
Theorem traces_agree rf F nv facets c a :
  let f := nth a (cf c) 0 in
  let lf := nth a rf [] in
  (* coherence of the tables (C11): the local facet's vertices are the facet's vertices, in some order *)
  (nth (nth 0 lf 0) (cv c) 0 = nth 0 (nth f facets []) 0 /\ nth (nth 1 lf 0) (cv c) 0 = nth 1 (nth f facets []) 0) \/
  (nth (nth 0 lf 0) (cv c) 0 = nth 1 (nth f facets []) 0 /\ nth (nth 1 lf 0) (cv c) 0 = nth 0 (nth f facets []) 0) ->
  forall e, In e (resolved_pieces rf F nv c a) <-> In e (facet_trace F nv facets f).
Proof.
  intros f lf H e. unfold resolved_pieces, facet_trace. fold f lf.
  destruct H as [[-> ->]|[-> ->]]; [reflexivity|].
  destruct (mk F f); simpl.
  - rewrite (sort2_comm (node_of F nv f) (nth 0 (nth f facets []) 0)),
            (sort2_comm (node_of F nv f) (nth 1 (nth f facets []) 0)). tauto.
  - rewrite sort2_comm. reflexivity.
Qed.

(* ------------------------------------------------------------------ tiles *)
Lemma Qabs'_pos q : ~ (q == 0)%Q -> (0 < Qabs' q)%Q.
Proof.
  intros H. unfold Qabs'. destruct (Qle_bool 0 q) eqn:E.
  - apply Qle_bool_iff in E. destruct (Qlt_le_dec 0 q) as [?|Hle]; [assumption|].
    exfalso. apply H. apply Qle_antisym; assumption.
  - destruct (Qlt_le_dec q 0) as [Hlt|Hle].
    + apply Qopp_lt_compat in Hlt. exact Hlt.
    + apply Qle_bool_iff in Hle. congruence.
Qed.

Theorem tri_tiles_sound W tpls :
  tri_tiles_ok W tpls = true ->
  (forall tpl, In tpl tpls ->
     convex_rows (W tpl) /\
     exists s, tri_child_check (W tpl) = Some s /\ ~ (s == 0)%Q /\
       forall x0 x1 x2 y0 y1 y2 : Q,
         (tri_det_l (comb (W tpl) [x0; x1; x2]) (comb (W tpl) [y0; y1; y2]) == s * tri_det x0 y0 x1 y1 x2 y2)%Q) /\
  (fold_right (fun d acc => match d with Some s => (Qabs' s + acc)%Q | None => acc end) 0%Q (tri_dets W tpls) == 1)%Q /\
  all_pairs_ok (fun a b => separable 3 (W a) (W b)) tpls = true.
Proof.
  unfold tri_tiles_ok, dets_tile. rewrite !andb_true_iff. intros [[Hnz Hsum] Hsep]. split; [|split].
  - intros tpl Hin. rewrite forallb_forall in Hnz.
    specialize (Hnz (tri_child_check (W tpl))). unfold tri_dets in Hnz.
    specialize (Hnz (in_map (fun t => tri_child_check (W t)) tpls tpl Hin)).
    destruct (tri_child_check (W tpl)) as [s|] eqn:E; [|discriminate].
    destruct (tri_child_sound _ _ E) as [Hc Hd]. split; [exact Hc|]. exists s. split; [reflexivity|]. split; [|exact Hd].
    intros H0. apply negb_true_iff in Hnz. apply Qeq_bool_iff in H0. congruence.
  - now apply Qeq_bool_iff.
  - exact Hsep.
Qed.

Theorem tet_tiles_sound W tpls :
  tet_tiles_ok W tpls = true ->
  (forall tpl, In tpl tpls ->
     convex_rows (W tpl) /\
     exists s, tet_child_check (W tpl) = Some s /\ ~ (s == 0)%Q /\
       forall x0 x1 x2 x3 y0 y1 y2 y3 z0 z1 z2 z3 : Q,
         (tet_det_l (comb (W tpl) [x0; x1; x2; x3]) (comb (W tpl) [y0; y1; y2; y3]) (comb (W tpl) [z0; z1; z2; z3])
          == s * tet_det x0 y0 z0 x1 y1 z1 x2 y2 z2 x3 y3 z3)%Q) /\
  (fold_right (fun d acc => match d with Some s => (Qabs' s + acc)%Q | None => acc end) 0%Q (tet_dets W tpls) == 1)%Q /\
  all_pairs_ok (fun a b => separable 4 (W a) (W b)) tpls = true.
Proof.
  unfold tet_tiles_ok, dets_tile. rewrite !andb_true_iff. intros [[Hnz Hsum] Hsep]. split; [|split].
  - intros tpl Hin. rewrite forallb_forall in Hnz.
    specialize (Hnz (tet_child_check (W tpl))). unfold tet_dets in Hnz.
    specialize (Hnz (in_map (fun t => tet_child_check (W t)) tpls tpl Hin)).
    destruct (tet_child_check (W tpl)) as [s|] eqn:E; [|discriminate].
    destruct (tet_child_sound _ _ E) as [Hc Hd]. split; [exact Hc|]. exists s. split; [reflexivity|]. split; [|exact Hd].
    intros H0. apply negb_true_iff in Hnz. apply Qeq_bool_iff in H0. congruence.
  - now apply Qeq_bool_iff.
  - exact Hsep.
Qed.

(* ------------------------------------------------------------------ MeshLine1._adaptive *)
Lemma index_of_nth x l i : index_of x l = Some i -> nth i l 0 = x /\ i < length l.
Proof.
  revert i; induction l as [|y l IH]; intros i H; simpl in H; [discriminate|].
  destruct (Nat.eqb x y) eqn:E.
  - injection H as <-. apply Nat.eqb_eq in E. simpl. split; [auto | lia].
  - destruct (index_of x l) as [j|]; [|discriminate]. injection H as <-. destruct (IH j eq_refl). simpl. split; [auto | lia].
Qed.

Lemma nth_combine_seq {A} (l : list A) (f : nat -> nat) i d :
  i < length l -> nth i (combine l (map f (seq 0 (length l)))) (d, 0) = (nth i l d, f i).
Proof.
  intros H. rewrite combine_nth by now rewrite map_length, seq_length.
  f_equal. rewrite (nth_map' f _ 0 0) by now rewrite seq_length. now rewrite seq_nth.
Qed.

(* a marked cell k (position i in the marked list) is replaced by [t0, mid_i] and [mid_i, t1] at the positions
   nn + i and nn + nm + i, and mid_i = nv + i carries the mean of the cell's vertices *)
Theorem line_adaptive_marked base p t marked k i :
  index_of k marked = Some i ->
  let nn := length (nonmarked (length t) marked) in
  let r := line_adaptive base p t marked in
  let mid := base + i in
  nth (nn + i) (snd r) [] = [nth 0 (nth k t []) 0; mid] /\
  nth (nn + length marked + i) (snd r) [] = [mid; nth 1 (nth k t []) 0] /\
  (base = length p -> nth mid (fst r) [] = ent_mean 1 p (nth k t [])).
Proof.
  intros Hi nn r mid. destruct (index_of_nth _ _ _ Hi) as [Hk Hlt].
  unfold r, line_adaptive. cbn [fst snd]. fold nn.
  assert (Hnn : length (map (fun k0 => nth k0 t []) (nonmarked (length t) marked)) = nn) by now rewrite map_length.
  assert (Hc : nth i (combine marked (map (fun i0 => base + i0) (seq 0 (length marked)))) (0, 0)
               = (k, mid)).
  { rewrite (nth_combine_seq marked (fun i0 => base + i0) i 0 Hlt). now rewrite Hk. }
  assert (Hcl : length (combine marked (map (fun i0 => base + i0) (seq 0 (length marked)))) = length marked).
  { rewrite combine_length, map_length, seq_length. lia. }
  split; [|split].
  - rewrite app_nth2 by lia. rewrite Hnn. replace (nn + i - nn) with i by lia.
    rewrite app_nth1 by (rewrite map_length, Hcl; exact Hlt).
    rewrite (nth_map' _ _ (0, 0) []) by (rewrite Hcl; exact Hlt). now rewrite Hc.
  - rewrite app_nth2 by lia. rewrite Hnn. replace (nn + length marked + i - nn) with (length marked + i) by lia.
    rewrite app_nth2 by (rewrite map_length, Hcl; lia). rewrite map_length, Hcl.
    replace (length marked + i - length marked) with i by lia.
    rewrite (nth_map' _ _ (0, 0) []) by (rewrite Hcl; exact Hlt). now rewrite Hc.
  - intros Hnv. unfold mid. rewrite Hnv. rewrite app_nth2 by lia.
    replace (length p + i - length p) with i by lia.
    rewrite (nth_map' (fun k0 : nat => ent_mean 1 p (nth k0 t [])) marked 0 (@nil Q)) by exact Hlt. now rewrite Hk.
Qed.

Lemma filter_lt_rank (l : list nat) k :
  forall d, In k l -> NoDup l -> (forall a b, a < b < length l -> nth a l d < nth b l d) ->
  nth (length (filter (fun k' => k' <? k) l)) l d = k.
Proof.
  induction l as [|x l IH]; intros d Hin Hnd Hs; [destruct Hin|].
  simpl. destruct (x <? k) eqn:E.
  - simpl. destruct Hin as [->|Hin]; [apply Nat.ltb_lt in E; lia|].
    apply IH; [exact Hin | now inversion Hnd|].
    intros a b Hab. apply (Hs (S a) (S b)). simpl. lia.
  - apply Nat.ltb_ge in E. destruct Hin as [->|Hin].
    + (* nothing below x in the strictly increasing tail *)
      assert (Hnone : filter (fun k' => k' <? k) l = []).
      { assert (Hall : forall y, In y l -> k < y).
        { intros y Hy. destruct (In_nth l y d Hy) as [j [Hj <-]]. apply (Hs 0 (S j)). simpl. lia. }
        clear - Hall. induction l as [|y l IH]; [reflexivity|]. simpl.
        pose proof (Hall y (or_introl eq_refl)) as Hy. destruct (y <? k) eqn:E; [apply Nat.ltb_lt in E; lia|].
        apply IH. intros z Hz. apply Hall. now right. }
      rewrite Hnone. reflexivity.
    + exfalso. destruct (In_nth l k d Hin) as [j [Hj Hjk]].
      pose proof (Hs 0 (S j) ltac:(simpl; lia)) as Hlt. simpl in Hlt. rewrite Hjk in Hlt. lia.
Qed.

Lemma nonmarked_sorted nt marked : forall a b d, a < b < length (nonmarked nt marked) ->
  nth a (nonmarked nt marked) d < nth b (nonmarked nt marked) d.
Proof.
  unfold nonmarked. generalize 0 as s. induction nt as [|n IH]; intros s a b d H; simpl in *; [lia|].
  assert (Hge : forall l j, (forall y, In y l -> s < y) -> j < length l -> s < nth j l d).
  { intros l j Hall Hj. apply Hall, nth_In, Hj. }
  assert (Htail : forall y, In y (filter (fun k => negb (memb k marked)) (seq (S s) n)) -> s < y).
  { intros y Hy. apply filter_In in Hy. destruct Hy as [Hy _]. apply in_seq in Hy. lia. }
  destruct (negb (memb s marked)); simpl in *.
  - destruct a as [|a], b as [|b]; try lia.
    + apply Hge; [exact Htail | lia].
    + apply IH. lia.
  - apply IH. exact H.
Qed.

Lemma filter_length_le' {A} (P : A -> bool) l : length (filter P l) <= length l.
Proof. induction l as [|x l IH]; simpl; [lia|]. destruct (P x); simpl; lia. Qed.

Lemma nonmarked_NoDup nt marked : NoDup (nonmarked nt marked).
Proof. unfold nonmarked. apply NoDup_filter, seq_NoDup. Qed.

(* an unmarked cell keeps its vertices and moves to its rank among the unmarked cells *)
Theorem line_adaptive_unmarked base p t marked k :
  k < length t -> index_of k marked = None ->
  match line_children (length t) marked k with
  | [c] => nth c (snd (line_adaptive base p t marked)) [] = nth k t []
  | _ => False
  end.
Proof.
  intros Hk Hi. unfold line_children. rewrite Hi. unfold line_adaptive. cbn [snd].
  set (nm := nonmarked (length t) marked).
  assert (Hin : In k nm).
  { unfold nm, nonmarked. apply filter_In. split; [apply in_seq; lia|]. unfold memb. now rewrite Hi. }
  assert (Hlt : length (filter (fun k' => k' <? k) nm) < length nm).
  { clear - Hin. induction nm as [|x l IH]; [destruct Hin|]. simpl.
    destruct (x <? k) eqn:E; simpl.
    - destruct Hin as [->|Hin]; [apply Nat.ltb_lt in E; lia|]. specialize (IH Hin). lia.
    - pose proof (filter_length_le' (fun k' => k' <? k) l). lia. }
  rewrite app_nth1 by (rewrite map_length; exact Hlt).
  rewrite (nth_map' _ _ 0 []) by exact Hlt. f_equal.
  apply filter_lt_rank; [exact Hin | apply nonmarked_NoDup | intros a b Hab; apply nonmarked_sorted; exact Hab].
Qed.

(* ------------------------------------------------------------------ assembled: _adaptive_find_facets *)
Theorem find_facets_spec srcs dst nf t2f marked :
  exists R, find_facets srcs dst nf t2f marked = Some R /\ length R = nf /\
            le_marks (init_marks nf t2f marked) R /\ sweep srcs dst t2f R = R /\
            forall G, length G = nf -> le_marks (init_marks nf t2f marked) G ->
                      le_marks (sweep srcs dst t2f G) G -> le_marks R G.
Proof.
  unfold find_facets.
  destruct (closure_terminates srcs dst t2f (init_marks nf t2f marked)) as [R [H1 [H2 [H3 [H4 H5]]]]].
  rewrite init_marks_length in *. exists R. repeat split; auto.
Qed.

(* every marked cell has all its facets marked after the closure (it will be split into four) *)
Theorem marked_cell_all_marked srcs dst nf t2f marked R k :
  find_facets srcs dst nf t2f marked = Some R -> In k marked ->
  (forall f, In f (nth k t2f []) -> f < nf) ->
  pattern R (nth k t2f []) = map (fun _ => true) (nth k t2f []).
Proof.
  intros HR Hk Hr. destruct (find_facets_spec srcs dst nf t2f marked) as [R' [H1 [_ [H3 _]]]].
  rewrite HR in H1. injection H1 as <-. unfold pattern. apply map_ext_in. intros f Hf.
  apply H3. apply (init_marks_marked nf t2f marked k f Hk Hf (Hr f Hf)).
Qed.

(* the connectivity produced by _adaptive_split_elements: position of each child *)
Theorem split_children blocks p tb F b k :
  let s := split_elements blocks p tb F in
  let flat := flat_blocks blocks in
  b < length flat -> k < length (tb_t tb) -> fst (nth b flat (0, [])) = nth k (as_cls s) 0 ->
  nth (grouped_index flat (as_cls s) b k) (as_t s) []
  = child_a F (length p) (cell_ctx tb k) (snd (nth b flat (0, []))).
Proof.
  intros s flat Hb Hk Hc. unfold s, split_elements in *. cbn [as_t as_cls] in *.
  set (cs := mk_ctxs (tb_t tb) (tb_t2e tb) (tb_t2f tb)) in *.
  assert (Hl : length (map (fun c => class_of (map fst blocks) (pattern F (cf c))) cs) = length cs) by apply map_length.
  assert (Hk' : k < length cs) by (unfold cs; now rewrite mk_ctxs_length).
  rewrite (grouped_nth _ flat _ cs b k (cell_ctx tb k) (0, []) Hl Hb Hk' Hc).
  unfold cs. now rewrite mk_ctxs_nth_eq by exact Hk.
Qed.

(* the arithmetic form in which MeshLine1._adaptive writes the children of cell k *)
Lemma line_children_alt nt marked k :
  (let nonm := nonmarked nt marked in
   match index_of k marked with
   | Some i => [i + length nonm; length marked + i + length nonm]
   | None => [length (filter (fun k' => k' <? k) nonm)]
   end) = line_children nt marked k.
Proof.
  unfold line_children. cbv zeta. destruct (index_of k marked) as [i|]; [|reflexivity].
  f_equal; [lia | f_equal; lia].
Qed.

(* ------------------------------------------------------------------ histories *)
(* any sequence of uniform and adaptive steps (with whatever tables / markings each step uses):
   the vertices of the initial mesh keep their indices and positions *)
Inductive rstep : Type :=
| SUniform (s : spec) (dim : nat) (tb : tables)
| SAdaptive (blocks : list (list bool * list (list nref))) (tb : tables) (F : marks).

Definition apply_rstep (p : list point) (st : rstep) : list point :=
  match st with
  | SUniform s dim tb => fst (uniform_block s dim p tb)
  | SAdaptive blocks tb F => as_p (split_elements blocks p tb F)
  end.

Lemma apply_rstep_prefix p st : firstn (length p) (apply_rstep p st) = p.
Proof.
  destruct st as [s dim tb | blocks tb F]; simpl.
  - apply refine_p_prefix.
  - rewrite firstn_app, Nat.sub_diag, firstn_all. simpl. now rewrite app_nil_r.
Qed.

Theorem history_old_vertices steps : forall p, firstn (length p) (fold_left apply_rstep steps p) = p.
Proof.
  induction steps as [|st steps IH]; intros p; simpl; [apply firstn_all|].
  pose proof (apply_rstep_prefix p st) as H1. pose proof (IH (apply_rstep p st)) as H2.
  exact (firstn_prefix_trans p (apply_rstep p st) _ H1 H2).
Qed.

(* ------------------------------------------------------------------ adaptive_subdomains *)
Lemma dedup_sorted_In x l : In x (dedup_sorted l) <-> In x l.
Proof.
  induction l as [|a l IH]; [reflexivity|].
  destruct l as [|b l']; [reflexivity|].
  change (dedup_sorted (a :: b :: l')) with (if Nat.eqb a b then dedup_sorted (b :: l') else a :: dedup_sorted (b :: l')).
  destruct (Nat.eqb a b) eqn:E.
  - apply Nat.eqb_eq in E. subst b. rewrite IH. simpl. tauto.
  - simpl In at 1. rewrite IH. simpl. tauto.
Qed.

(* the propagated tag setdiff1d(unique(new_t[:, ixs]), [-1]) is exactly the set of the children of the tagged cells *)
Theorem propagate_adaptive_spec blocks submap cls ixs c :
  In c (propagate_adaptive blocks submap cls ixs) <->
  exists k j, In k ixs /\ j < class_size blocks (nth k cls 0) /\
              c = submap (count_cls cls) (nth k cls 0) j (rank_in_cls cls k).
Proof.
  unfold propagate_adaptive. rewrite dedup_sorted_In, sort_nat_In, in_flat_map. unfold adaptive_children. split.
  - intros [k [Hk Hc]]. apply in_map_iff in Hc. destruct Hc as [j [<- Hj]]. apply in_seq in Hj.
    exists k, j. repeat split; auto; lia.
  - intros [k [j [Hk [Hj ->]]]]. exists k. split; [exact Hk|]. apply in_map_iff. exists j. split; [reflexivity|].
    apply in_seq. lia.
Qed.

(* ------------------------------------------------------------------ the tiling principle made explicit *)
(* What is NOT formalised is measure theory: "simplices contained in the parent, with pairwise disjoint interiors, whose volumes
   add up to the parent's, cover the parent (up to a null set)".  [Covers] stands for that conclusion; the principle is a
   hypothesis of the theorems below, everything else (containment, disjointness, volumes) is proved. *)
Definition abs_det_sum (ds : list (option Q)) : Q :=
  fold_right (fun d acc => match d with Some s => (Qabs' s + acc)%Q | None => acc end) 0%Q ds.

Definition tri_tiling_principle (Covers : list (list (list Q)) -> Prop) : Prop :=
  forall Ws : list (list (list Q)),
    (forall W, In W Ws -> convex_rows W /\ exists s, tri_child_check W = Some s /\ ~ (s == 0)%Q) ->   (* inside the parent, non-degenerate *)
    all_pairs_ok (fun A B => separable 3 A B) Ws = true ->                                          (* interiors pairwise disjoint *)
    (abs_det_sum (map tri_child_check Ws) == 1)%Q ->                                                (* volumes add up *)
    Covers Ws.
Definition tet_tiling_principle (Covers : list (list (list Q)) -> Prop) : Prop :=
  forall Ws : list (list (list Q)),
    (forall W, In W Ws -> convex_rows W /\ exists s, tet_child_check W = Some s /\ ~ (s == 0)%Q) ->
    all_pairs_ok (fun A B => separable 4 A B) Ws = true ->
    (abs_det_sum (map tet_child_check Ws) == 1)%Q ->
    Covers Ws.

Lemma all_pairs_ok_map {X Y} (f : X -> Y) (ok : Y -> Y -> bool) l :
  all_pairs_ok ok (map f l) = all_pairs_ok (fun a b => ok (f a) (f b)) l.
Proof.
  induction l as [|x l IH]; simpl; [reflexivity|]. rewrite IH. f_equal.
  clear IH. induction l as [|y l IHl]; simpl; [reflexivity|]. now rewrite IHl.
Qed.

Theorem tri_tiles_cover Covers W tpls :
  tri_tiling_principle Covers -> tri_tiles_ok W tpls = true -> Covers (map W tpls).
Proof.
  intros HP Hok. destruct (tri_tiles_sound W tpls Hok) as [H1 [H2 H3]]. apply HP.
  - intros M HM. apply in_map_iff in HM. destruct HM as [tpl [<- Ht]]. destruct (H1 tpl Ht) as [Hc [s [Hs [Hnz _]]]].
    split; [exact Hc | exists s; split; assumption].
  - now rewrite all_pairs_ok_map.
  - unfold abs_det_sum. rewrite map_map. exact H2.
Qed.

Theorem tet_tiles_cover Covers W tpls :
  tet_tiling_principle Covers -> tet_tiles_ok W tpls = true -> Covers (map W tpls).
Proof.
  intros HP Hok. destruct (tet_tiles_sound W tpls Hok) as [H1 [H2 H3]]. apply HP.
  - intros M HM. apply in_map_iff in HM. destruct HM as [tpl [<- Ht]]. destruct (H1 tpl Ht) as [Hc [s [Hs [Hnz _]]]].
    split; [exact Hc | exists s; split; assumption].
  - now rewrite all_pairs_ok_map.
  - unfold abs_det_sum. rewrite map_map. exact H2.
Qed.

(* ------------------------------------------------------------------ adaptive_theta *)
Lemma Qltb_lt a b : Qltb a b = true <-> (a < b)%Q.
Proof. unfold Qltb, Qlt. apply Z.ltb_lt. Qed.

Theorem theta_select_spec est theta mx k :
  In k (theta_select est theta mx) <->
  k < length est /\ (theta * match mx with Some v => v | None => qmax est end < nth k est 0%Q)%Q.
Proof.
  unfold theta_select. rewrite filter_In, in_seq, Qltb_lt. split; intros [H1 H2]; split; auto; lia.
Qed.

Lemma filter_seq_sorted (P : nat -> bool) n : forall s a b, a < b < length (filter P (seq s n)) ->
  nth a (filter P (seq s n)) 0 < nth b (filter P (seq s n)) 0.
Proof.
  induction n as [|n IH]; intros s a b H; simpl in *; [lia|].
  assert (Htail : forall y, In y (filter P (seq (S s) n)) -> s < y).
  { intros y Hy. apply filter_In in Hy. destruct Hy as [Hy _]. apply in_seq in Hy. lia. }
  destruct (P s); simpl in *.
  - destruct a as [|a], b as [|b]; try lia.
    + apply Htail, nth_In. lia.
    + apply IH. lia.
  - apply IH. exact H.
Qed.

Theorem theta_select_sorted est theta mx : NoDup (theta_select est theta mx) /\
  forall a b, a < b < length (theta_select est theta mx) -> nth a (theta_select est theta mx) 0 < nth b (theta_select est theta mx) 0.
Proof. unfold theta_select. split; [apply NoDup_filter, seq_NoDup | apply filter_seq_sorted]. Qed.
