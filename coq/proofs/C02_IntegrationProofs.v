(* C02 — sums in a commutative ring: total of dx, partition-of-unity mass-sum theorem *)
From Coq Require Import List Arith Ring Lia.
Require Import Base.C02_Ops Model.C02_Integration.
Import ListNotations.

Section SumFacts.
  Variable R : Type.
  Variable O : ops R.
  Hypothesis Rth : ring_theory (o0 O) (o1 O) (oadd O) (omul O) (osub O) (oopp O) (@eq R).
  Add Ring Rring : Rth.
  Local Notation "a + b" := (oadd O a b).
  Local Notation "a * b" := (omul O a b).
  Local Notation "0" := (o0 O).
  Local Notation "1" := (o1 O).

  Lemma rsum_ext {A} (l : list A) (f g : A -> R) :
    (forall a, In a l -> f a = g a) -> rsum O l f = rsum O l g.
  Proof.
    induction l as [|a l IH]; intros H; simpl; [reflexivity|].
    rewrite (H a (or_introl eq_refl)), IH; [reflexivity|]. intros b Hb. apply H. now right.
  Qed.

  Lemma rsum_add {A} (l : list A) (f g : A -> R) :
    rsum O l (fun a => f a + g a) = rsum O l f + rsum O l g.
  Proof. induction l as [|a l IH]; simpl; [ring|]. rewrite IH. ring. Qed.

  Lemma rsum_zero {A} (l : list A) : rsum O l (fun _ => 0) = 0.
  Proof. induction l as [|a l IH]; simpl; [reflexivity|]. rewrite IH. ring. Qed.

  Lemma rsum_mul_l {A} (l : list A) (c : R) (f : A -> R) :
    rsum O l (fun a => c * f a) = c * rsum O l f.
  Proof. induction l as [|a l IH]; simpl; [ring|]. rewrite IH. ring. Qed.

  Lemma rsum_mul_r {A} (l : list A) (c : R) (f : A -> R) :
    rsum O l (fun a => f a * c) = rsum O l f * c.
  Proof. induction l as [|a l IH]; simpl; [ring|]. rewrite IH. ring. Qed.

  Lemma rsum_swap {A B} (l1 : list A) (l2 : list B) (f : A -> B -> R) :
    rsum O l1 (fun a => rsum O l2 (fun b => f a b)) = rsum O l2 (fun b => rsum O l1 (fun a => f a b)).
  Proof.
    induction l1 as [|a l1 IH]; simpl.
    - symmetry. apply rsum_zero.
    - rewrite IH. symmetry. apply rsum_add.
  Qed.

  (* every cell contributes |det A_e| * (sum of the reference weights) *)
  Theorem affine_dx_total (absdet : nat -> R) (W : nat -> R) (ne nq : nat) :
    measure O ne nq (affine_dx O absdet W)
    = rsum O (seq 0 ne) (fun e => absdet e * rsum O (seq 0 nq) W).
  Proof.
    unfold measure, affine_dx. apply rsum_ext. intros e _. apply rsum_mul_l.
  Qed.

  (* partition of unity: the entries of the mass matrix sum to the measure of the integration domain *)
  Theorem mass_sum_is_measure (nb ne nq : nat) (phi : nat -> nat -> nat -> R) (dx : nat -> nat -> R) :
    (forall e q, e < ne -> q < nq -> rsum O (seq 0 nb) (fun i => phi i e q) = 1) ->
    mass_total O nb ne nq phi dx = measure O ne nq dx.
  Proof.
    intros PU. unfold mass_total, mass_entry, integrate, measure.
    (* bring the sums over cells and points outside *)
    transitivity (rsum O (seq 0 nb) (fun i => rsum O (seq 0 ne) (fun e => rsum O (seq 0 nq) (fun q =>
                    rsum O (seq 0 nb) (fun j => phi i e q * phi j e q * dx e q))))).
    { apply rsum_ext. intros i _. rewrite rsum_swap. apply rsum_ext. intros e _. apply rsum_swap. }
    rewrite rsum_swap. apply rsum_ext. intros e He. rewrite rsum_swap. apply rsum_ext. intros q Hq.
    apply in_seq in He. apply in_seq in Hq.
    transitivity (rsum O (seq 0 nb) (fun i => phi i e q * (rsum O (seq 0 nb) (fun j => phi j e q) * dx e q))).
    { apply rsum_ext. intros i _. rewrite <- rsum_mul_r, <- rsum_mul_l. apply rsum_ext. intros j _. ring. }
    rewrite rsum_mul_r. rewrite (PU e q) by lia. ring.
  Qed.

  Corollary mass_sum_affine (nb ne nq : nat) phi (absdet : nat -> R) (W : nat -> R) :
    (forall e q, e < ne -> q < nq -> rsum O (seq 0 nb) (fun i => phi i e q) = 1) ->
    mass_total O nb ne nq phi (affine_dx O absdet W)
    = rsum O (seq 0 ne) (fun e => absdet e * rsum O (seq 0 nq) W).
  Proof. intros PU. rewrite mass_sum_is_measure by exact PU. apply affine_dx_total. Qed.
  (* affine cells, the same reference shape functions phi_i(x_q) on every cell: the mass entry summed over the
     cells is  sum_e |detA_e| * (sum_q phi_i(x_q) phi_j(x_q) W_q)  — the reference (quadrature) mass entry
     scaled by the Jacobian factor of each cell *)
  Theorem affine_mass_factorises (ne nq : nat) (phi : nat -> nat -> R) (absdet : nat -> R) (W : nat -> R) i j :
    mass_entry O ne nq (fun i e q => phi i q) (affine_dx O absdet W) i j
    = rsum O (seq 0 ne) (fun e => absdet e * rsum O (seq 0 nq) (fun q => phi i q * phi j q * W q)).
  Proof.
    unfold mass_entry, integrate, affine_dx. apply rsum_ext. intros e _.
    rewrite <- rsum_mul_l. apply rsum_ext. intros q _. ring.
  Qed.
  (* ---------- stiffness on a general affine cell: contraction of the reference tensor with G = B B^T *)
  Lemma rsum_pull2 {A B C} (lq : list A) (lk : list B) (ll : list C) (G : B -> C -> R) (t : B -> C -> A -> R) :
    rsum O lq (fun q => rsum O lk (fun k => rsum O ll (fun l => G k l * t k l q)))
    = rsum O lk (fun k => rsum O ll (fun l => G k l * rsum O lq (fun q => t k l q))).
  Proof.
    rewrite rsum_swap. apply rsum_ext. intros k _. rewrite rsum_swap. apply rsum_ext. intros l _.
    apply rsum_mul_l.
  Qed.

  Ltac pointwise := intros; unfold gdot, gramB; cbn [rsum seq]; ring.
  Lemma gdot_pointwise1 B gi gj q : gdot O 1%nat B gi gj q
    = rsum O (seq 0 1%nat) (fun k => rsum O (seq 0 1%nat) (fun l => gramB O 1%nat B k l * (gi k q * gj l q))).
  Proof. pointwise. Qed.
  Lemma gdot_pointwise2 B gi gj q : gdot O 2%nat B gi gj q
    = rsum O (seq 0 2%nat) (fun k => rsum O (seq 0 2%nat) (fun l => gramB O 2%nat B k l * (gi k q * gj l q))).
  Proof. pointwise. Qed.
  Lemma gdot_pointwise3 B gi gj q : gdot O 3%nat B gi gj q
    = rsum O (seq 0 3%nat) (fun k => rsum O (seq 0 3%nat) (fun l => gramB O 3%nat B k l * (gi k q * gj l q))).
  Proof. pointwise. Qed.

  (* sum_q (grad phi_i . grad phi_j)(x_q) * (|detA| W_q)
     = |detA| * sum_{k,l} G_kl * (sum_q d_k phi_i(x_q) d_l phi_j(x_q) W_q)   for d = 1, 2, 3 *)
  Theorem stiffness_contraction (d : nat) (B gi gj : nat -> nat -> R) (c : R) (W : nat -> R) (nq : nat) :
    (d = 1 \/ d = 2 \/ d = 3)%nat ->
    rsum O (seq 0 nq) (fun q => gdot O d B gi gj q * (c * W q))
    = c * rsum O (seq 0 d) (fun k => rsum O (seq 0 d) (fun l =>
            gramB O d B k l * rsum O (seq 0 nq) (fun q => gi k q * gj l q * W q))).
  Proof.
    intros Hd.
    transitivity (rsum O (seq 0 nq) (fun q => c * rsum O (seq 0 d) (fun k => rsum O (seq 0 d) (fun l =>
                    gramB O d B k l * (gi k q * gj l q * W q))))).
    { apply rsum_ext. intros q _.
      transitivity (c * (rsum O (seq 0 d) (fun k => rsum O (seq 0 d) (fun l => gramB O d B k l * (gi k q * gj l q))) * W q)).
      - destruct Hd as [->|[->| ->]]; [rewrite gdot_pointwise1|rewrite gdot_pointwise2|rewrite gdot_pointwise3]; ring.
      - f_equal. rewrite <- rsum_mul_r. apply rsum_ext. intros k _. rewrite <- rsum_mul_r. apply rsum_ext. intros l _. ring. }
    rewrite rsum_mul_l. f_equal. apply rsum_pull2.
  Qed.
End SumFacts.

Lemma exp_add_sum : forall a b, length a = length b -> list_sum (exp_add a b) = list_sum a + list_sum b.
Proof.
  induction a as [|x a IH]; intros [|y b] H; try discriminate; [reflexivity|].
  simpl. rewrite IH by (simpl in H; lia). lia.
Qed.
