(* C02 — sums in a commutative ring: total of dx, partition-of-unity mass-sum theorem *)
From Coq Require Import List Arith Ring Lia.
Require Import Base.C02_Ops Model.C02_Integration.
Import ListNotations.

Section SumFacts.
  Variable R : Type.
  Variable O : ops R.
  Hypothesis Rth : ring_theory (o0 O) (o1 O) (oadd O) (omul O) (osub O) (oopp O) (@eq R).
  Add Ring Rring : Rth.
  Local Notation "a + b" := (oadd O a b).
  Local Notation "a * b" := (omul O a b).
  Local Notation "0" := (o0 O).
  Local Notation "1" := (o1 O).

  Lemma rsum_ext {A} (l : list A) (f g : A -> R) :
    (forall a, In a l -> f a = g a) -> rsum O l f = rsum O l g.
  Proof.
    induction l as [|a l IH]; intros H; simpl; [reflexivity|].
    rewrite (H a (or_introl eq_refl)), IH; [reflexivity|]. intros b Hb. apply H. now right.
  Qed.

  Lemma rsum_add {A} (l : list A) (f g : A -> R) :
    rsum O l (fun a => f a + g a) = rsum O l f + rsum O l g.
  Proof. induction l as [|a l IH]; simpl; [ring|]. rewrite IH. ring. Qed.

  Lemma rsum_zero {A} (l : list A) : rsum O l (fun _ => 0) = 0.
  Proof. induction l as [|a l IH]; simpl; [reflexivity|]. rewrite IH. ring. Qed.

  Lemma rsum_mul_l {A} (l : list A) (c : R) (f : A -> R) :
    rsum O l (fun a => c * f a) = c * rsum O l f.
  Proof. induction l as [|a l IH]; simpl; [ring|]. rewrite IH. ring. Qed.

  Lemma rsum_mul_r {A} (l : list A) (c : R) (f : A -> R) :
    rsum O l (fun a => f a * c) = rsum O l f * c.
  Proof. induction l as [|a l IH]; simpl; [ring|]. rewrite IH. ring. Qed.

  Lemma rsum_swap {A B} (l1 : list A) (l2 : list B) (f : A -> B -> R) :
    rsum O l1 (fun a => rsum O l2 (fun b => f a b)) = rsum O l2 (fun b => rsum O l1 (fun a => f a b)).
  Proof.
    induction l1 as [|a l1 IH]; simpl.
    - symmetry. apply rsum_zero.
    - rewrite IH. symmetry. apply rsum_add.
  Qed.

  (* every cell contributes |det A_e| * (sum of the reference weights) *)
  Theorem affine_dx_total (absdet : nat -> R) (W : nat -> R) (ne nq : nat) :
    measure O ne nq (affine_dx O absdet W)
    = rsum O (seq 0 ne) (fun e => absdet e * rsum O (seq 0 nq) W).
  Proof.
    unfold measure, affine_dx. apply rsum_ext. intros e _. apply rsum_mul_l.
  Qed.

  (* partition of unity: the entries of the mass matrix sum to the measure of the integration domain *)
  Theorem mass_sum_is_measure (nb ne nq : nat) (phi : nat -> nat -> nat -> R) (dx : nat -> nat -> R) :
    (forall e q, e < ne -> q < nq -> rsum O (seq 0 nb) (fun i => phi i e q) = 1) ->
    mass_total O nb ne nq phi dx = measure O ne nq dx.
  Proof.
    intros PU. unfold mass_total, mass_entry, integrate, measure.
    (* bring the sums over cells and points outside *)
    transitivity (rsum O (seq 0 nb) (fun i => rsum O (seq 0 ne) (fun e => rsum O (seq 0 nq) (fun q =>
                    rsum O (seq 0 nb) (fun j => phi i e q * phi j e q * dx e q))))).
    { apply rsum_ext. intros i _. rewrite rsum_swap. apply rsum_ext. intros e _. apply rsum_swap. }
    rewrite rsum_swap. apply rsum_ext. intros e He. rewrite rsum_swap. apply rsum_ext. intros q Hq.
    apply in_seq in He. apply in_seq in Hq.
    transitivity (rsum O (seq 0 nb) (fun i => phi i e q * (rsum O (seq 0 nb) (fun j => phi j e q) * dx e q))).
    { apply rsum_ext. intros i _. rewrite <- rsum_mul_r, <- rsum_mul_l. apply rsum_ext. intros j _. ring. }
    rewrite rsum_mul_r. rewrite (PU e q) by lia. ring.
  Qed.

  Corollary mass_sum_affine (nb ne nq : nat) phi (absdet : nat -> R) (W : nat -> R) :
    (forall e q, e < ne -> q < nq -> rsum O (seq 0 nb) (fun i => phi i e q) = 1) ->
    mass_total O nb ne nq phi (affine_dx O absdet W)
    = rsum O (seq 0 ne) (fun e => absdet e * rsum O (seq 0 nq) W).
  Proof. intros PU. rewrite mass_sum_is_measure by exact PU. apply affine_dx_total. Qed.
  (* affine cells, the same reference shape functions phi_i(x_q) on every cell: the mass entry summed over the
     cells is  sum_e |detA_e| * (sum_q phi_i(x_q) phi_j(x_q) W_q)  — the reference (quadrature) mass entry
     scaled by the Jacobian factor of each cell *)
  Theorem affine_mass_factorises (ne nq : nat) (phi : nat -> nat -> R) (absdet : nat -> R) (W : nat -> R) i j :
    mass_entry O ne nq (fun i e q => phi i q) (affine_dx O absdet W) i j
    = rsum O (seq 0 ne) (fun e => absdet e * rsum O (seq 0 nq) (fun q => phi i q * phi j q * W q)).
  Proof.
    unfold mass_entry, integrate, affine_dx. apply rsum_ext. intros e _.
    rewrite <- rsum_mul_l. apply rsum_ext. intros q _. ring.
  Qed.
End SumFacts.

Lemma exp_add_sum : forall a b, length a = length b -> list_sum (exp_add a b) = list_sum a + list_sum b.
Proof.
  induction a as [|x a IH]; intros [|y b] H; try discriminate; [reflexivity|].
  simpl. rewrite IH by (simpl in H; lia). lia.
Qed.
