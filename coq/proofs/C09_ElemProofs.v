(* C09_ElemProofs — soundness of the boolean checkers of Model.C09_Elem: a checker that evaluates to true
   (by vm_compute on the polynomials regenerated from the source) yields the stated identity at EVERY point
   of EVERY commutative ring that receives Q (Section Sound; instantiated at Q and, in C09_PolyReal, at R). *)
From Coq Require Import List Arith ZArith QArith Qfield Bool Lia Ring Ring_theory Setoid Morphisms.
Import ListNotations.
Require Import Base.C09_Poly Base.C09_PolyQ Model.C09_Elem.

Lemma forallb_seq (f : nat -> bool) n : forallb f (seq 0 n) = true -> forall k, (k < n)%nat -> f k = true.
Proof. intros H k Hk. rewrite forallb_forall in H. apply H. apply in_seq. lia. Qed.

Lemma forallb_combine_nth {A B} (f : A * B -> bool) (a : list A) (b : list B) da db :
  length a = length b -> forallb f (combine a b) = true ->
  forall n, (n < length a)%nat -> f (nth n a da, nth n b db) = true.
Proof.
  intros Hl H n Hn. rewrite forallb_forall in H. apply H.
  rewrite <- (combine_nth a b n da db Hl). apply nth_In. rewrite combine_length. lia.
Qed.

Lemma poly_vars_le_sound n p : poly_vars_le n p = true -> forall t, In t p -> (length (snd t) <= n)%nat.
Proof. unfold poly_vars_le. intros H t Ht. rewrite forallb_forall in H. apply Nat.leb_le. now apply H. Qed.

Lemma vars_ok_sound e : vars_ok e = true ->
  forall b, In b (e_basis e) -> forall p, In p (bfun_polys b) -> forall t, In t p -> (length (snd t) <= e_dim e)%nat.
Proof.
  unfold vars_ok. intros H b Hb p Hp. rewrite forallb_forall in H. specialize (H b Hb).
  rewrite forallb_forall in H. apply poly_vars_le_sound. now apply H.
Qed.

Section Sound.
  Variable R : Type.
  Variables (rO rI : R) (radd rmul rsub : R -> R -> R) (ropp : R -> R) (req : R -> R -> Prop).
  Variable phi : Q -> R.
  Hypothesis Rsth : Equivalence req.
  Hypothesis Reqe : ring_eq_ext radd rmul ropp req.
  Hypothesis Rth : ring_theory rO rI radd rmul rsub ropp req.
  Hypothesis Rphi : ring_morph rO rI radd rmul rsub ropp req 0%Q 1%Q Qplus Qmult Qminus Qopp Qeq_bool phi.

  Add Ring Rring2 : Rth (setoid Rsth Reqe).

  Notation "a == b" := (req a b) (at level 70, no associativity).
  Notation "a + b" := (radd a b).
  Notation "a * b" := (rmul a b).
  Notation "- a" := (ropp a).
  Notation pev := (peval R rO rI radd rmul phi).

  Local Instance req_equiv2 : Equivalence req := Rsth.
  Local Instance radd_proper2 : Proper (req ==> req ==> req) radd := Radd_ext Reqe.
  Local Instance rmul_proper2 : Proper (req ==> req ==> req) rmul := Rmul_ext Reqe.
  Local Instance ropp_proper2 : Proper (req ==> req) ropp := Ropp_ext Reqe.

  Let peqb_s := peqb_sound R rO rI radd rmul rsub ropp req phi Rsth Reqe Rth Rphi.
  Let ev_app := peval_app R rO rI radd rmul rsub ropp req phi Rsth Reqe Rth.
  Let ev_psub := peval_psub R rO rI radd rmul rsub ropp req phi Rsth Reqe Rth Rphi.
  Let ev_pscale := peval_pscale R rO rI radd rmul rsub ropp req phi Rsth Reqe Rth Rphi.
  Let ev_pconst := peval_pconst R rO rI radd rmul rsub ropp req phi Rsth Reqe Rth.
  Let ev_psubst := peval_psubstn R rO rI radd rmul rsub ropp req phi Rsth Reqe Rth Rphi.

  (* finite sums *)
  Definition rsum (f : nat -> R) (l : list nat) : R := fold_right (fun k acc => f k + acc) rO l.

  Lemma pev_psum_map (f : nat -> poly) l pt : pev (psum (map f l)) pt == rsum (fun k => pev (f k) pt) l.
  Proof.
    induction l as [|k l IH]; simpl; [reflexivity|].
    unfold psum in *; simpl. rewrite ev_app, IH. reflexivity.
  Qed.

  (* ---- what "the delivered derivative fields are the derivatives of the delivered value" means ---- *)
  Definition bfun_spec (d : nat) (b : bfun) : Prop :=
    match b with
    | BH1 p grad =>
        length grad = d /\ forall k, (k < d)%nat -> forall pt, pev (nthp grad k) pt == pev (pderiv k p) pt
    | BHdiv p dv =>
        length p = d /\ forall pt, pev dv pt == rsum (fun k => pev (pderiv k (nthp p k)) pt) (seq 0 d)
    | BHcurl2 p cl =>
        d = 2%nat /\ length p = 2%nat /\
        forall pt, pev cl pt == pev (pderiv 0 (nthp p 1)) pt + - pev (pderiv 1 (nthp p 0)) pt
    | BHcurl3 p cl =>
        d = 3%nat /\ length p = 3%nat /\ length cl = 3%nat /\
        forall pt, pev (nthp cl 0) pt == pev (pderiv 1 (nthp p 2)) pt + - pev (pderiv 2 (nthp p 1)) pt /\
                   pev (nthp cl 1) pt == pev (pderiv 2 (nthp p 0)) pt + - pev (pderiv 0 (nthp p 2)) pt /\
                   pev (nthp cl 2) pt == pev (pderiv 0 (nthp p 1)) pt + - pev (pderiv 1 (nthp p 0)) pt
    | BMat p => length p = d /\ Forall (fun r => length r = d) p
    end.

  Theorem bfun_ok_sound d b : bfun_ok d b = true -> bfun_spec d b.
  Proof.
    destruct b as [p grad|p dv|p cl|p cl|p]; simpl; intros H.
    - unfold grad_ok in H. apply andb_true_iff in H. destruct H as [Hl Hf].
      apply Nat.eqb_eq in Hl. split; [exact Hl|]. intros k Hk pt.
      apply peqb_s. exact (forallb_seq _ _ Hf k Hk).
    - unfold div_ok in H. apply andb_true_iff in H. destruct H as [Hl He].
      apply Nat.eqb_eq in Hl. split; [exact Hl|]. intros pt.
      rewrite (peqb_s _ _ He pt). unfold divergence. apply pev_psum_map.
    - apply andb_true_iff in H. destruct H as [Hd H]. apply Nat.eqb_eq in Hd.
      unfold curl2_ok in H. apply andb_true_iff in H. destruct H as [Hl He]. apply Nat.eqb_eq in Hl.
      split; [exact Hd|]. split; [exact Hl|]. intros pt.
      rewrite (peqb_s _ _ He pt). unfold curl2. apply ev_psub.
    - apply andb_true_iff in H. destruct H as [Hd H]. apply Nat.eqb_eq in Hd.
      unfold curl3_ok in H. apply andb_true_iff in H. destruct H as [H Hf].
      apply andb_true_iff in H. destruct H as [Hl Hc]. apply Nat.eqb_eq in Hl. apply Nat.eqb_eq in Hc.
      split; [exact Hd|]. split; [exact Hl|]. split; [exact Hc|]. intros pt.
      assert (H0 := forallb_seq _ _ Hf 0%nat (Nat.lt_0_succ 2)).
      assert (H1 := forallb_seq _ _ Hf 1%nat (proj1 (Nat.succ_lt_mono 0 2) (Nat.lt_0_succ 1))).
      assert (H2 := forallb_seq _ _ Hf 2%nat (Nat.lt_succ_diag_r 2)). cbv beta in H0, H1, H2.
      change (nthp (curl3 p) 0) with (psub (pderiv 1 (nthp p 2)) (pderiv 2 (nthp p 1))) in H0.
      change (nthp (curl3 p) 1) with (psub (pderiv 2 (nthp p 0)) (pderiv 0 (nthp p 2))) in H1.
      change (nthp (curl3 p) 2) with (psub (pderiv 0 (nthp p 1)) (pderiv 1 (nthp p 0))) in H2.
      rewrite (peqb_s _ _ H0 pt), (peqb_s _ _ H1 pt), (peqb_s _ _ H2 pt).
      rewrite !ev_psub. repeat split; reflexivity.
    - apply andb_true_iff in H. destruct H as [Hl Hf]. apply Nat.eqb_eq in Hl. split; [exact Hl|].
      apply Forall_forall. intros r Hr. rewrite forallb_forall in Hf. apply Nat.eqb_eq. now apply Hf.
  Qed.

  Definition deriv_spec (e : elem) : Prop := forall b, In b (e_basis e) -> bfun_spec (e_dim e) b.

  Theorem deriv_ok_sound e : deriv_ok e = true -> deriv_spec e.
  Proof.
    unfold deriv_ok. intros H b Hb. rewrite forallb_forall in H. apply bfun_ok_sound. now apply H.
  Qed.

  (* ---- partition of unity ---- *)
  Definition pou_spec (e : elem) : Prop :=
    forall pt, rsum (fun j => pev (nthp (values e) j) pt) (located (e_doflocs e) (nbfun e)) == rI.

  Theorem pou_ok_sound e : pou_ok e = true -> pou_spec e.
  Proof.
    unfold pou_ok. intros H pt. apply andb_true_iff in H. destruct H as [_ H].
    pose proof (peqb_s _ _ H pt) as E. unfold pou_sum in E. rewrite pev_psum_map in E.
    rewrite E, ev_pconst. apply (morph1 Rphi).
  Qed.

  (* ---- nodal duality with formal parameters: for EVERY value of the parameters ---- *)
  Definition duality_param_spec (e : elem) : Prop :=
    length (e_doflocs e) = nbfun e /\
    (exists j x, (j < nbfun e)%nat /\ nth j (e_doflocs e) None = Some x) /\
    forall j x, (j < nbfun e)%nat -> nth j (e_doflocs e) None = Some x ->
      forall i, (i < nbfun e)%nat -> forall pt : nat -> R,
        pev (nthp (values e) i) (fun k => if Nat.ltb k (e_dim e) then phi (nth k x 0%Q) else pt k) == phi (delta i j).

  Theorem duality_param_ok_sound e : duality_param_ok e = true -> duality_param_spec e.
  Proof.
    unfold duality_param_ok. intros H.
    apply andb_true_iff in H. destruct H as [H Hd].
    apply andb_true_iff in H. destruct H as [H Hne].
    apply andb_true_iff in H. destruct H as [_ Hl]. apply Nat.eqb_eq in Hl.
    split; [exact Hl|]. split.
    - destruct (located (e_doflocs e) (nbfun e)) as [|j l] eqn:E; [discriminate|].
      assert (Hj : In j (located (e_doflocs e) (nbfun e))) by (rewrite E; now left).
      unfold located in Hj. apply filter_In in Hj. destruct Hj as [Hs Hx]. apply in_seq in Hs.
      destruct (nth j (e_doflocs e) None) as [x|] eqn:Ex; [|discriminate].
      exists j, x. split; [lia | exact Ex].
    - intros j x Hj Hx i Hi pt.
      pose proof (forallb_seq _ _ Hd j Hj) as Hjx. cbv beta in Hjx. rewrite Hx in Hjx.
      pose proof (forallb_seq _ _ Hjx i Hi) as E. cbv beta in E.
      pose proof (peqb_s _ _ E pt) as E2. rewrite ev_psubst, ev_pconst in E2. rewrite <- E2.
      apply (peval_ext R rO rI radd rmul ropp req phi Rsth Reqe). intros k. unfold at_coords.
      destruct (Nat.ltb k (e_dim e)).
      + symmetry. apply ev_pconst.
      + symmetry. apply (peval_pvar R rO rI radd rmul rsub ropp req phi Rsth Reqe Rth Rphi).
  Qed.

  (* ---- Piola identity of a polynomial cell map, at every point ---- *)
  Definition piola_identity_spec (d : nat) (F : list poly) : Prop :=
    length F = d /\ forall i, (i < d)%nat -> forall pt, rsum (fun k => pev (pderiv k (adjp d F k i)) pt) (seq 0 d) == rO.

  Theorem piola_identity_sound d F : piola_identity_ok d F = true -> piola_identity_spec d F.
  Proof.
    unfold piola_identity_ok. intros H. apply andb_true_iff in H. destruct H as [H Hf].
    apply andb_true_iff in H. destruct H as [Hl _]. apply Nat.eqb_eq in Hl. split; [exact Hl|].
    intros i Hi pt. pose proof (forallb_seq _ _ Hf i Hi) as E. cbv beta in E.
    rewrite <- pev_psum_map. exact (pis_zero_sound R rO rI radd rmul rsub ropp req phi Rsth Reqe Rth Rphi _ E pt).
  Qed.

  (* ---- traces of vector fields ---- *)
  Definition rdot (v : list poly) (c : list Q) (pt : nat -> R) : R :=
    fold_right (fun vc acc => phi (snd vc) * pev (fst vc) pt + acc) rO (combine v c).

  Lemma pev_pdotc v c pt : pev (pdotc v c) pt == rdot v c pt.
  Proof.
    unfold pdotc, rdot. induction (combine v c) as [|vc l IH]; simpl; [reflexivity|].
    unfold psum in *; simpl. rewrite ev_app, ev_pscale, IH. reflexivity.
  Qed.

  (* the point F(s) of the entity parametrised by F *)
  Definition at_param (F : list poly) (s : nat -> R) : nat -> R := fun m => pev (nthp F m) s.

  Lemma pev_trace_dot F v c s : pev (trace_dot F v c) s == rdot v c (at_param F s).
  Proof. unfold trace_dot. rewrite ev_psubst, pev_pdotc. reflexivity. Qed.

  (* (phi_i . c_j) restricted to entity j is the constant delta_ij * s_j (s_j = +-1), at every parameter value *)
  Definition trace_duality_spec (signs : list Q) (fs : list functional) (bs : list bfun) : Prop :=
    length fs = length bs /\ length signs = length bs /\
    (forall s, In s signs -> Qeq s 1%Q \/ Qeq s (Qopp 1%Q)) /\
    forall i j, (i < length bs)%nat -> (j < length bs)%nat -> forall s,
      rdot (vec_of (nth i bs (BMat []))) (f_vec (nth j fs (mkFun [] []))) (at_param (f_param (nth j fs (mkFun [] []))) s)
      == phi (delta i j * nth j signs 0)%Q.

  Lemma is_sign_spec signs : forallb is_sign signs = true -> forall s, In s signs -> Qeq s 1%Q \/ Qeq s (Qopp 1%Q).
  Proof.
    intros H s Hs. rewrite forallb_forall in H. specialize (H s Hs). unfold is_sign in H.
    apply orb_true_iff in H. destruct H as [H|H]; [left|right]; now apply Qeq_bool_eq.
  Qed.

  Theorem trace_duality_sound signs fs bs : trace_duality_ok signs fs bs = true -> trace_duality_spec signs fs bs.
  Proof.
    unfold trace_duality_ok. intros H. apply andb_true_iff in H. destruct H as [H Hf].
    apply andb_true_iff in H. destruct H as [H Hs]. apply andb_true_iff in H. destruct H as [Hl Hl2].
    apply Nat.eqb_eq in Hl. apply Nat.eqb_eq in Hl2.
    split; [exact Hl|]. split; [exact Hl2|]. split; [exact (is_sign_spec _ Hs)|]. intros i j Hi Hj s.
    pose proof (forallb_seq _ _ (forallb_seq _ _ Hf i Hi) j Hj) as E. cbv zeta in E.
    pose proof (peqb_s _ _ E s) as E2. rewrite pev_trace_dot, ev_pconst in E2. exact E2.
  Qed.

  (* ---- derivative tables of the global family ---- *)
  Definition dtable_spec (t : dtable) : Prop :=
    forall diff ps, In (diff, ps) t -> forall d k, diff = d ++ [k] ->
      exists base, lookup_diff t d = Some base /\ length base = length ps /\
                   forall n pt, pev (nthp ps n) pt == pev (pderiv k (nthp base n)) pt.

  Theorem dtable_ok_sound t : dtable_ok t = true -> dtable_spec t.
  Proof.
    unfold dtable_ok. intros H diff ps Hin d k Hd. rewrite forallb_forall in H.
    specialize (H _ Hin). unfold dtable_entry_ok in H. simpl fst in H; simpl snd in H.
    subst diff. rewrite rev_app_distr in H. simpl in H. rewrite rev_involutive in H.
    destruct (lookup_diff t d) as [base|]; [|discriminate].
    apply andb_true_iff in H. destruct H as [Hl Hf]. apply Nat.eqb_eq in Hl.
    exists base. split; [reflexivity|]. split; [exact Hl|]. intros n pt.
    destruct (Nat.lt_ge_cases n (length ps)) as [Hn|Hn].
    - pose proof (forallb_combine_nth _ ps base [] [] (eq_sym Hl) Hf n Hn) as E. simpl in E.
      exact (peqb_s _ _ E pt).
    - unfold nthp. rewrite (nth_overflow ps) by lia. rewrite (nth_overflow base) by lia. reflexivity.
  Qed.

End Sound.

(* ---------------------------------------------------------------- instance: rational points *)
Definition q_bfun_spec := bfun_spec Q 0%Q 1%Q Qplus Qmult Qopp Qeq (fun x => x).
Definition q_deriv_spec := deriv_spec Q 0%Q 1%Q Qplus Qmult Qopp Qeq (fun x => x).
Definition q_pou_spec := pou_spec Q 0%Q 1%Q Qplus Qmult Qeq (fun x => x).
Definition q_deriv_ok_sound := deriv_ok_sound Q 0%Q 1%Q Qplus Qmult Qminus Qopp Qeq (fun x => x) Q_Setoid Qreqe Qsrt Qidmorph.
Definition q_pou_ok_sound := pou_ok_sound Q 0%Q 1%Q Qplus Qmult Qminus Qopp Qeq (fun x => x) Q_Setoid Qreqe Qsrt Qidmorph.
Definition q_trace_duality_spec := trace_duality_spec Q 0%Q 1%Q Qplus Qmult Qeq (fun x => x).
Definition q_trace_duality_sound := trace_duality_sound Q 0%Q 1%Q Qplus Qmult Qminus Qopp Qeq (fun x => x) Q_Setoid Qreqe Qsrt Qidmorph.
Definition q_dtable_spec := dtable_spec Q 0%Q 1%Q Qplus Qmult Qeq (fun x => x).
Definition q_dtable_ok_sound := dtable_ok_sound Q 0%Q 1%Q Qplus Qmult Qminus Qopp Qeq (fun x => x) Q_Setoid Qreqe Qsrt Qidmorph.

(* ---- nodal duality (rational points: the DOF locations) ---- *)
Definition duality_spec (e : elem) : Prop :=
  length (e_doflocs e) = nbfun e /\
  (exists j x, (j < nbfun e)%nat /\ nth j (e_doflocs e) None = Some x) /\
  forall j x, (j < nbfun e)%nat -> nth j (e_doflocs e) None = Some x ->
    forall i, (i < nbfun e)%nat -> qeval (nthp (values e) i) (lpt x) == delta i j.

Theorem duality_ok_sound e : duality_ok e = true -> duality_spec e.
Proof.
  unfold duality_ok. intros H.
  apply andb_true_iff in H. destruct H as [H Hd].
  apply andb_true_iff in H. destruct H as [H Hne].
  apply andb_true_iff in H. destruct H as [_ Hl]. apply Nat.eqb_eq in Hl.
  split; [exact Hl|]. split.
  - destruct (located (e_doflocs e) (nbfun e)) as [|j l] eqn:E; [discriminate|].
    assert (Hj : In j (located (e_doflocs e) (nbfun e))) by (rewrite E; now left).
    unfold located in Hj. apply filter_In in Hj. destruct Hj as [Hs Hx]. apply in_seq in Hs.
    destruct (nth j (e_doflocs e) None) as [x|] eqn:Ex; [|discriminate].
    exists j, x. split; [lia | exact Ex].
  - intros j x Hj Hx i Hi. unfold duality_on in Hd.
    pose proof (forallb_seq _ _ Hd j Hj) as Hjx. cbv beta in Hjx. rewrite Hx in Hjx.
    unfold duality_at in Hjx. pose proof (forallb_seq _ _ Hjx i Hi) as E. cbv beta in E.
    now apply Qeq_bool_eq.
Qed.

(* ---- duality of the lowest-order H(div)/H(curl) functionals, integral form ---- *)
Definition functional_duality_spec (cube : bool) (n : nat) (signs : list Q) (fs : list functional) (bs : list bfun) : Prop :=
  length fs = length bs /\ length signs = length bs /\
  (forall s, In s signs -> Qeq s 1%Q \/ Qeq s (Qopp 1%Q)) /\
  forall i j, (i < length bs)%nat -> (j < length bs)%nat ->
    exists q, dual_entry cube n (nth j fs (mkFun [] [])) (nth i bs (BMat [])) = Some q /\
              q == delta i j * nth j signs 0 * ref_measure cube n.

Theorem functional_duality_sound cube n signs fs bs :
  functional_duality_ok cube n signs fs bs = true -> functional_duality_spec cube n signs fs bs.
Proof.
  unfold functional_duality_ok. intros H. apply andb_true_iff in H. destruct H as [H Hf].
  apply andb_true_iff in H. destruct H as [H Hs]. apply andb_true_iff in H. destruct H as [Hl Hl2].
  apply Nat.eqb_eq in Hl. apply Nat.eqb_eq in Hl2.
  split; [exact Hl|]. split; [exact Hl2|]. split.
  { intros s Hin. rewrite forallb_forall in Hs. specialize (Hs s Hin). unfold is_sign in Hs.
    apply orb_true_iff in Hs. destruct Hs as [Hs|Hs]; [left|right]; now apply Qeq_bool_eq. }
  intros i j Hi Hj.
  pose proof (forallb_seq _ _ (forallb_seq _ _ Hf i Hi) j Hj) as E. cbv beta in E.
  unfold optq_eqb in E. destruct (dual_entry cube n _ _) as [q|]; [|discriminate].
  exists q. split; [reflexivity | now apply Qeq_bool_eq].
Qed.

(* ---- the defining functionals of the global family agree with their names, layout and doflocs ---- *)
Lemma qs_eqb_sound a : forall b, qs_eqb a b = true -> Forall2 Qeq a b.
Proof.
  induction a as [|x a IH]; intros [|y b] H; simpl in H; try discriminate; constructor.
  - apply andb_true_iff in H. now apply Qeq_bool_eq.
  - apply andb_true_iff in H. now apply IH.
Qed.

Definition gdof_spec (g : gelem) : Prop :=
  g_got g <> [] /\
  Forall2 (fun a b : gdof_entry => fst a = fst b /\ Forall2 Qeq (snd a) (snd b)) (g_got g) (g_want g) /\
  Forall2 (fun (w : gdof_entry) x => Forall2 Qeq (comb_point (g_dim g) (g_refp g) (snd w)) x) (g_want g) (g_doflocs g).

Theorem gdof_ok_sound g : gdof_ok g = true -> gdof_spec g.
Proof.
  unfold gdof_ok. intros H. apply andb_true_iff in H. destruct H as [H Hl].
  apply andb_true_iff in H. destruct H as [Hne He]. split; [|split].
  - destruct (g_got g); [discriminate | discriminate].
  - clear Hne Hl. revert He. generalize (g_got g) (g_want g). intros a.
    induction a as [|x a IH]; intros [|y b] H; simpl in H; try discriminate; constructor.
    + apply andb_true_iff in H. destruct H as [H _]. unfold gdof_eqb in H. apply andb_true_iff in H. destruct H as [H1 H2].
      split; [now apply String.eqb_eq | now apply qs_eqb_sound].
    + apply andb_true_iff in H. now apply IH.
  - clear Hne He. revert Hl. generalize (g_want g) (g_doflocs g). intros a.
    induction a as [|x a IH]; intros [|y b] H; simpl in H; try discriminate; constructor.
    + apply andb_true_iff in H. destruct H as [H _]. now apply qs_eqb_sound.
    + apply andb_true_iff in H. now apply IH.
Qed.
