(* C06 — integration by parts per direction on the reference cell (certificate) and the algebra of the affine lift of
   Green's identity.
   ibp a b :  pint K (d_a p * d_b phi) = - pint K (d_b d_a p * phi) + sum_s nu_{s,b} pint_s ((d_a p * phi) o F_s)
   (the divergence theorem for the field (d_a p) phi e_b).  Green's identity with ANY constant coefficient matrix, hence on
   ANY affine image of the reference cell, is a linear combination of these. *)
From Coq Require Import List Arith ZArith QArith Qfield Bool Lia Setoid Morphisms.
Import ListNotations.
Require Import Base.C05_Np Base.C09_Poly Base.C09_PolyQ Model.C08_Rules Model.C02_PolyInt Proofs.C02_PolyIntProofs
               Proofs.C06_CompleteProofs Proofs.C06_GreenProofs Proofs.C06_LinearProofs.
Local Open Scope Q_scope.

Definition facet_pull (f : rfacet) (g : poly) : Q := pint (rf_shape f) (psubstn (subst_map (rf_map f)) g).
Definition ibp_lhs (s : shape) (a b : nat) (p phi : poly) : Q := pint s (pmul (pderiv a p) (pderiv b phi)).
Definition ibp_rhs (s : shape) (facets : list rfacet) (a b : nat) (p phi : poly) : Q :=
  - pint s (pmul (pderiv b (pderiv a p)) phi)
  + qsum (map (fun f => nth b (rf_nu f) 0 * facet_pull f (pmul (pderiv a p) phi)) facets).
Definition ibp_cert (s : shape) (facets : list rfacet) (basis : list poly) (ms : list mono) : bool :=
  forallb (fun phi => forallb (fun m => forallb (fun a => forallb (fun b =>
     Qeq_bool (ibp_lhs s a b (pmono m) phi) (ibp_rhs s facets a b (pmono m) phi)) (seq 0 (dim s))) (seq 0 (dim s))) ms) basis.
Definition ge_ibp_ok (e : gelem) : bool :=
  ibp_cert (rc_shape (ge_cell e)) (rc_facets (ge_cell e)) (ge_basis e) (ge_monos e).

Lemma good_ibp_lhs s a b phi : good (fun p => ibp_lhs s a b p phi).
Proof. exact (good_pderiv (fun q => pint s (pmul q (pderiv b phi))) a (good_pmul_l (pint s) (pderiv b phi) (good_pint s))). Qed.
Lemma good_facet_pull f : good (facet_pull f).
Proof. apply good_psubstn. Qed.
Lemma good_ibp_rhs s facets a b phi : good (fun p => ibp_rhs s facets a b p phi).
Proof.
  unfold ibp_rhs. apply good_plus.
  - apply good_opp. exact (good_pderiv (fun q => pint s (pmul (pderiv b q) phi)) a
                             (good_pderiv (fun q => pint s (pmul q phi)) b (good_pmul_l (pint s) phi (good_pint s)))).
  - apply (good_qsum (fun f p => nth b (rf_nu f) 0 * facet_pull f (pmul (pderiv a p) phi))). intros f _.
    apply good_cmul. exact (good_pderiv (fun q => facet_pull f (pmul q phi)) a (good_pmul_l (facet_pull f) phi (good_facet_pull f))).
Qed.

(* integration by parts for EVERY polynomial p of the class's degree and every pair of directions *)
Theorem ibp_all_polynomials (e : gelem) :
  ge_ibp_ok e = true ->
  forall phi, In phi (ge_basis e) -> forall p, gpoly_within e p ->
  forall a b, (a < dim (rc_shape (ge_cell e)))%nat -> (b < dim (rc_shape (ge_cell e)))%nat ->
    ibp_lhs (rc_shape (ge_cell e)) a b p phi == ibp_rhs (rc_shape (ge_cell e)) (rc_facets (ge_cell e)) a b p phi.
Proof.
  intros H phi Hphi p Hp a b Ha Hb.
  apply (good_agree_on_monomials _ _ (ge_monos e) (good_ibp_lhs _ a b phi) (good_ibp_rhs _ _ a b phi)).
  - intros m Hm. unfold ge_ibp_ok, ibp_cert in H. rewrite forallb_forall in H. specialize (H phi Hphi).
    rewrite forallb_forall in H. specialize (H m Hm). rewrite forallb_forall in H.
    specialize (H a (proj2 (in_seq _ _ _) (conj (Nat.le_0_l a) Ha))). rewrite forallb_forall in H.
    specialize (H b (proj2 (in_seq _ _ _) (conj (Nat.le_0_l b) Hb))). now apply Qeq_bool_iff.
  - intros t Ht. destruct (Hp t Ht) as [Hl Hd]. unfold ge_monos. destruct (ge_box e); [now apply in_monos_box | now apply in_monos_le].
Qed.

(* ---- finite sums *)
Definition S (d : nat) (f : nat -> Q) : Q := qsum (map f (seq 0 d)).
Lemma qsum_ext {X} (f g : X -> Q) l : (forall x, In x l -> f x == g x) -> qsum (map f l) == qsum (map g l).
Proof. induction l as [|x l IH]; intros H; simpl; [reflexivity|]. rewrite (H x) by now left. rewrite IH; [reflexivity|]. intros; apply H; now right. Qed.
Lemma qsum_plus {X} (f g : X -> Q) l : qsum (map (fun x => f x + g x) l) == qsum (map f l) + qsum (map g l).
Proof. induction l as [|x l IH]; simpl; [ring | rewrite IH; ring]. Qed.
Lemma qsum_scale {X} c (f : X -> Q) l : qsum (map (fun x => c * f x) l) == c * qsum (map f l).
Proof. induction l as [|x l IH]; simpl; [ring | rewrite IH; ring]. Qed.
Lemma qsum_opp {X} (f : X -> Q) l : qsum (map (fun x => - f x) l) == - qsum (map f l).
Proof. induction l as [|x l IH]; simpl; [ring | rewrite IH; ring]. Qed.
Lemma qsum_exchange {X Y} (F : X -> Y -> Q) lx ly :
  qsum (map (fun x => qsum (map (fun y => F x y) ly)) lx) == qsum (map (fun y => qsum (map (fun x => F x y) lx)) ly).
Proof.
  induction lx as [|x lx IH]; simpl.
  - induction ly; simpl; [reflexivity | rewrite <- IHly; ring].
  - rewrite IH, <- qsum_plus. reflexivity.
Qed.
Lemma S_ext d f g : (forall i, (i < d)%nat -> f i == g i) -> S d f == S d g.
Proof. intros H. apply qsum_ext. intros i Hi. apply in_seq in Hi. apply H. lia. Qed.

(* a good functional of a linear combination *)
Lemma good_lincomb Phi (c : nat -> Q) (P : nat -> poly) d : good Phi ->
  Phi (concat (map (fun a => pscale (c a) (P a)) (seq 0 d))) == S d (fun a => c a * Phi (P a)).
Proof.
  intros G. unfold S. induction (seq 0 d) as [|a l IH]; simpl; [now apply good_nil|].
  rewrite (g_add _ G), (g_scale _ G), IH. reflexivity.
Qed.

Lemma good_concat_sum {X} Phi (g : X -> poly) l : good Phi -> Phi (concat (map g l)) == qsum (map (fun x => Phi (g x)) l).
Proof. intros G. induction l as [|x l IH]; simpl; [now apply good_nil | rewrite (g_add _ G), IH; reflexivity]. Qed.
Lemma qsum_mul {X Y} (x : X -> Q) (y : Y -> Q) lx ly :
  qsum (map x lx) * qsum (map y ly) == qsum (map (fun a => qsum (map (fun b => x a * y b) ly)) lx).
Proof. induction lx as [|a lx IH]; simpl; [ring|]. rewrite <- IH, qsum_scale. ring. Qed.
Lemma S_mul d x y : S d x * S d y == S d (fun a => S d (fun b => x a * y b)).
Proof. apply qsum_mul. Qed.
Lemma S_scale d c f : S d (fun a => c * f a) == c * S d f.
Proof. apply qsum_scale. Qed.
Lemma S_plus d f g : S d (fun a => f a + g a) == S d f + S d g.
Proof. apply qsum_plus. Qed.
Lemma S_exchange d F : S d (fun a => S d (fun b => F a b)) == S d (fun b => S d (fun a => F a b)).
Proof. apply qsum_exchange. Qed.

(* pint (P * .) is a good functional of the SECOND factor too *)
Lemma goodterm_tmul_r t : goodterm (fun u => [((fst t * fst u)%Q, mono_mul (snd t) (snd u))]).
Proof.
  constructor.
  - intros c u. simpl. constructor; [split; simpl; [ring | reflexivity] | constructor].
  - intros u v [H1 H2]. constructor; [split; simpl; [now rewrite H1 | now rewrite H2] | constructor].
Qed.
Lemma tmul_flat_map t q : tmul t q = flat_map (fun u => [((fst t * fst u)%Q, mono_mul (snd t) (snd u))]) q.
Proof. unfold tmul. induction q; simpl; congruence. Qed.
Lemma good_pmul_r Phi P : good Phi -> good (fun q => Phi (pmul P q)).
Proof.
  intros G. induction P as [|t P IH].
  - simpl. apply (good_ext (fun _ => 0)); [intros; symmetry; now apply good_nil | apply good_zero].
  - apply (good_ext (fun q => Phi (tmul t q) + Phi (pmul P q))).
    + intros q. simpl. symmetry. apply (g_add _ G).
    + apply good_plus; [|exact IH].
      apply (good_ext (fun q => Phi (flat_map (fun u => [((fst t * fst u)%Q, mono_mul (snd t) (snd u))]) q))).
      * intros q. now rewrite tmul_flat_map.
      * exact (good_flat_map Phi _ G (goodterm_tmul_r t)).
Qed.

(* ---- the affine cell.  x = A X + b;  Ainv a j = (A^{-1})_{a j};  adet = |det A|.
   Pulled back to reference coordinates, the physical derivative is  (d/dx_j u) o F = sum_a Ainv a j * d_a (u o F)
   (chain rule, C09_ChainProofs) and n_j dS = adet * (sum_c Ainv c j nu_c) dt on a facet (Nanson; C10_normals, C10_detB_gram).
   The physical integrals are ABSTRACT; the only facts assumed about them are the two change-of-variables rules. *)
Section AffineCell.
  Variable e : gelem.
  Let s := rc_shape (ge_cell e).
  Let d := dim s.
  Let facets := rc_facets (ge_cell e).
  Hypothesis cert : ge_ibp_ok e = true.
  Variable Ainv : nat -> nat -> Q.
  Variable adet : Q.
  Variable Icell : poly -> Q.                      (* int over the physical cell of g, g given pulled back (g o F) *)
  Variable Ifacet : rfacet -> nat -> poly -> Q.    (* int over the physical facet of g n_j dS, g given pulled back *)
  Hypothesis cv_cell : forall g, Icell g == adet * pint s g.
  Hypothesis cv_facet : forall f j g, In f facets ->
    Ifacet f j g == adet * S d (fun c => Ainv c j * nth c (rf_nu f) 0) * facet_pull f g.

  (* pulled-back physical derivative d/dx_j *)
  Definition Dphys (j : nat) (u : poly) : poly := concat (map (fun a => pscale (Ainv a j) (pderiv a u)) (seq 0 d)).
  Definition grad_dot_phys (p phi : poly) : poly := concat (map (fun j => pmul (Dphys j p) (Dphys j phi)) (seq 0 d)).
  Definition lap_phys (p : poly) : poly := concat (map (fun j => Dphys j (Dphys j p)) (seq 0 d)).

  Let L a b p phi := ibp_lhs s a b p phi.
  Let V a b (p phi : poly) := pint s (pmul (pderiv b (pderiv a p)) phi).
  Let FP f a (p phi : poly) := facet_pull f (pmul (pderiv a p) phi).

  Lemma expand_lhs p phi :
    pint s (grad_dot_phys p phi) == S d (fun j => S d (fun a => S d (fun b => Ainv a j * Ainv b j * L a b p phi))).
  Proof.
    unfold grad_dot_phys. rewrite (good_concat_sum (pint s) _ _ (good_pint s)). apply S_ext. intros j _.
    unfold Dphys at 1. rewrite (good_lincomb (fun q => pint s (pmul q (Dphys j phi))) _ _ d (good_pmul_l (pint s) _ (good_pint s))).
    apply S_ext. intros a _. unfold Dphys. rewrite (good_lincomb (fun q => pint s (pmul (pderiv a p) q)) _ _ d (good_pmul_r (pint s) _ (good_pint s))).
    rewrite <- S_scale. apply S_ext. intros b _. unfold L, ibp_lhs. ring.
  Qed.
  Lemma expand_vol p phi :
    pint s (pmul (lap_phys p) phi) == S d (fun j => S d (fun a => S d (fun b => Ainv a j * Ainv b j * V a b p phi))).
  Proof.
    unfold lap_phys. set (Phi := fun q => pint s (pmul q phi)). assert (G : good Phi) by exact (good_pmul_l (pint s) phi (good_pint s)).
    change (Phi (concat (map (fun j => Dphys j (Dphys j p)) (seq 0 d))) == S d (fun j => S d (fun a => S d (fun b => Ainv a j * Ainv b j * V a b p phi)))).
    rewrite (good_concat_sum Phi _ _ G). apply S_ext. intros j _.
    unfold Dphys at 1. rewrite (good_lincomb Phi _ _ d G).
    rewrite (S_ext d _ (fun b => S d (fun a => Ainv a j * Ainv b j * V a b p phi))).
    - apply S_exchange.
    - intros b _. unfold Dphys. rewrite (good_lincomb (fun q => Phi (pderiv b q)) _ _ d (good_pderiv Phi b G)).
      rewrite <- S_scale. apply S_ext. intros a _. unfold V, Phi. ring.
  Qed.
  Lemma expand_facet f j p phi :
    facet_pull f (pmul (Dphys j p) phi) == S d (fun a => Ainv a j * FP f a p phi).
  Proof.
    unfold Dphys. exact (good_lincomb (fun q => facet_pull f (pmul q phi)) _ _ d (good_pmul_l (facet_pull f) phi (good_facet_pull f))).
  Qed.

  (* Green's identity on the physical affine cell, from the reference-cell certificates and the two change-of-variables rules *)
  Theorem green_affine_cell p phi :
    In phi (ge_basis e) -> gpoly_within e p ->
    Icell (grad_dot_phys p phi)
    == - Icell (pmul (lap_phys p) phi)
       + qsum (map (fun f => S d (fun j => Ifacet f j (pmul (Dphys j p) phi))) facets).
  Proof.
    intros Hphi Hp. rewrite !cv_cell, expand_lhs, expand_vol.
    (* integration by parts, direction by direction *)
    assert (HL : forall a b, (a < d)%nat -> (b < d)%nat ->
              L a b p phi == - V a b p phi + qsum (map (fun f => nth b (rf_nu f) 0 * FP f a p phi) facets)).
    { intros a b Ha Hb. exact (ibp_all_polynomials e cert phi Hphi p Hp a b Ha Hb). }
    rewrite (S_ext d _ (fun j => S d (fun a => S d (fun b => Ainv a j * Ainv b j * - V a b p phi))
                              + S d (fun a => S d (fun b => Ainv a j * Ainv b j * qsum (map (fun f => nth b (rf_nu f) 0 * FP f a p phi) facets))))).
    2:{ intros j _. rewrite <- S_plus. apply S_ext. intros a Ha. rewrite <- S_plus. apply S_ext. intros b Hb. rewrite (HL a b Ha Hb). ring. }
    rewrite S_plus.
    assert (E1 : S d (fun j => S d (fun a => S d (fun b => Ainv a j * Ainv b j * - V a b p phi)))
                 == - S d (fun j => S d (fun a => S d (fun b => Ainv a j * Ainv b j * V a b p phi)))).
    { unfold S. rewrite <- qsum_opp. apply qsum_ext. intros j _. rewrite <- qsum_opp. apply qsum_ext. intros a _.
      rewrite <- qsum_opp. apply qsum_ext. intros b _. ring. }
    assert (E2 : qsum (map (fun f => S d (fun j => Ifacet f j (pmul (Dphys j p) phi))) facets)
                 == adet * S d (fun j => S d (fun a => S d (fun b => Ainv a j * Ainv b j * qsum (map (fun f => nth b (rf_nu f) 0 * FP f a p phi) facets))))).
    { rewrite (qsum_ext _ (fun f => adet * S d (fun j => S d (fun a => S d (fun b => Ainv a j * Ainv b j * (nth b (rf_nu f) 0 * FP f a p phi)))))).
      - rewrite qsum_scale. apply Qmult_comp; [reflexivity|].
        (* pull the facet sum inside *)
        unfold S. rewrite qsum_exchange. apply qsum_ext. intros j _. rewrite qsum_exchange. apply qsum_ext. intros a _.
        rewrite qsum_exchange. apply qsum_ext. intros b _. rewrite <- qsum_scale. reflexivity.
      - intros f Hf. rewrite <- S_scale. apply S_ext. intros j _. rewrite (cv_facet f j _ Hf), expand_facet.
        rewrite <- Qmult_assoc, S_mul. apply Qmult_comp; [reflexivity|].
        rewrite S_exchange. apply S_ext. intros a _. apply S_ext. intros b _. ring. }
    rewrite E1, E2. ring.
  Qed.
End AffineCell.
