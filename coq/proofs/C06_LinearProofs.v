(* C06 — linearity of the exact-integration functionals in the polynomial argument, used to lift certificate-checked
   identities from monomials to EVERY polynomial: a functional Phi on polynomials (lists of terms) is `good` if it is
   additive over concatenation, homogeneous under pscale, and respects coefficient-wise rational equality; pint is good,
   and goodness is preserved by pre-composition with the term-wise operators (pmul . phi, pderiv k, the substitution
   underlying psubstn) and by sums. *)
From Coq Require Import List Arith ZArith QArith Qfield Bool Lia Setoid Morphisms.
Import ListNotations.
Require Import Base.C05_Np Base.C09_Poly Base.C09_PolyQ Model.C08_Rules Model.C02_PolyInt Proofs.C02_PolyIntProofs
               Proofs.C06_CompleteProofs Proofs.C06_GreenProofs.
Local Open Scope Q_scope.

(* same monomials, rationally equal coefficients *)
Definition teq (t u : term) : Prop := fst t == fst u /\ snd t = snd u.
Definition ceq (p q : poly) : Prop := Forall2 teq p q.

Lemma ceq_refl p : ceq p p.
Proof. induction p; constructor; [split; reflexivity | assumption]. Qed.
Lemma ceq_app p p' q q' : ceq p p' -> ceq q q' -> ceq (p ++ q) (p' ++ q').
Proof. intros H1 H2. induction H1; simpl; [assumption | constructor; assumption]. Qed.
Lemma ceq_trans p q r : ceq p q -> ceq q r -> ceq p r.
Proof.
  intros H; revert r; induction H as [|t u p q [H1 H2] H IH]; intros r Hr; inversion Hr as [|u' v q' r' [H3 H4] Hr']; subst; constructor.
  - split; [now rewrite H1 | congruence].
  - now apply IH.
Qed.
Lemma ceq_pscale c c' p q : c == c' -> ceq p q -> ceq (pscale c p) (pscale c' q).
Proof. intros Hc H. induction H as [|t u p q [H1 H2] H IH]; simpl; constructor; [split; simpl; [now rewrite Hc, H1 | assumption] | assumption]. Qed.
Lemma ceq_pscale_pscale c d p : ceq (pscale (c * d) p) (pscale c (pscale d p)).
Proof. induction p as [|t p IH]; simpl; constructor; [split; simpl; [ring | reflexivity] | assumption]. Qed.

Record good (Phi : poly -> Q) : Prop := {
  g_add : forall a b, Phi (a ++ b) == Phi a + Phi b;
  g_scale : forall c p, Phi (pscale c p) == c * Phi p;
  g_cong : forall p q, ceq p q -> Phi p == Phi q }.

Lemma good_nil Phi : good Phi -> Phi [] == 0.
Proof. intros G. pose proof (g_scale Phi G 0 []) as H. simpl in H. rewrite H. ring. Qed.

Lemma good_pint s : good (pint s).
Proof.
  constructor.
  - apply pint_app.
  - apply pint_pscale.
  - intros p q H. induction H as [|t u p q [H1 H2] H IH]; simpl; [reflexivity|]. rewrite H1, H2, IH. reflexivity.
Qed.

Lemma good_ext Phi Psi : (forall p, Phi p == Psi p) -> good Phi -> good Psi.
Proof.
  intros E G. constructor.
  - intros a b. rewrite <- !E. apply (g_add _ G).
  - intros c p. rewrite <- !E. apply (g_scale _ G).
  - intros p q H. rewrite <- !E. now apply (g_cong _ G).
Qed.
Lemma good_plus Phi Psi : good Phi -> good Psi -> good (fun p => Phi p + Psi p).
Proof.
  intros G1 G2. constructor.
  - intros a b. rewrite (g_add _ G1), (g_add _ G2). ring.
  - intros c p. rewrite (g_scale _ G1), (g_scale _ G2). ring.
  - intros p q H. now rewrite (g_cong _ G1 p q H), (g_cong _ G2 p q H).
Qed.
Lemma good_opp Phi : good Phi -> good (fun p => - Phi p).
Proof.
  intros G. constructor.
  - intros a b. rewrite (g_add _ G). ring.
  - intros c p. rewrite (g_scale _ G). ring.
  - intros p q H. now rewrite (g_cong _ G p q H).
Qed.
Lemma good_cmul k Phi : good Phi -> good (fun p => k * Phi p).
Proof.
  intros G. constructor.
  - intros a b. rewrite (g_add _ G). ring.
  - intros c p. rewrite (g_scale _ G). ring.
  - intros p q H. now rewrite (g_cong _ G p q H).
Qed.
Lemma good_zero : good (fun _ => 0).
Proof. constructor; intros; ring. Qed.
Lemma good_qsum {X} (F : X -> poly -> Q) (l : list X) :
  (forall x, In x l -> good (F x)) -> good (fun p => qsum (map (fun x => F x p) l)).
Proof.
  induction l as [|x l IH]; intros H; simpl; [apply good_zero|].
  apply (good_plus (F x) (fun p => qsum (map (fun x0 => F x0 p) l))); [apply H; now left | apply IH; intros; apply H; now right].
Qed.

(* ---- term-wise operators T = flat_map h *)
Record goodterm (h : term -> poly) : Prop := {
  h_scale : forall c t, ceq (h ((c * fst t)%Q, snd t)) (pscale c (h t));
  h_cong : forall t u, teq t u -> ceq (h t) (h u) }.

Lemma pscale_app c a b : pscale c (a ++ b) = pscale c a ++ pscale c b.
Proof. unfold pscale. apply map_app. Qed.

Lemma good_flat_map Phi h : good Phi -> goodterm h -> good (fun p => Phi (flat_map h p)).
Proof.
  intros G H. constructor.
  - intros a b. rewrite flat_map_app. apply (g_add _ G).
  - intros c p. rewrite <- (g_scale _ G). apply (g_cong _ G).
    induction p as [|t p IH]; simpl; [constructor|]. rewrite pscale_app. apply ceq_app; [apply (h_scale _ H) | exact IH].
  - intros p q E. apply (g_cong _ G). induction E as [|t u p q Ht E IH]; simpl; [constructor|].
    apply ceq_app; [now apply (h_cong _ H) | exact IH].
Qed.

Lemma goodterm_tmul phi : goodterm (fun t => tmul t phi).
Proof.
  constructor.
  - intros c t. unfold tmul, pscale. rewrite map_map. simpl. induction phi as [|u phi IH]; simpl; constructor; [split; simpl; [ring | reflexivity] | assumption].
  - intros t u [H1 H2]. unfold tmul. induction phi as [|v phi IH]; simpl; constructor; [split; simpl; [now rewrite H1 | now rewrite H2] | assumption].
Qed.
Lemma goodterm_tderiv k : goodterm (tderiv k).
Proof.
  constructor.
  - intros c t. unfold tderiv. simpl. destruct (mono_dec k (snd t)) as [[n m']|]; simpl; constructor; [split; simpl; [ring | reflexivity] | constructor].
  - intros t u [H1 H2]. unfold tderiv. rewrite H2. destruct (mono_dec k (snd u)) as [[n m']|]; constructor; [split; simpl; [now rewrite H1 | reflexivity] | constructor].
Qed.
Lemma goodterm_subst (F : nat -> poly) : goodterm (fun t => pscale (fst t) (mono_substn F (snd t) 0)).
Proof.
  constructor.
  - intros c t. simpl. apply ceq_pscale_pscale.
  - intros t u [H1 H2]. rewrite H2. apply ceq_pscale; [assumption | apply ceq_refl].
Qed.

Lemma good_pmul_l Phi phi : good Phi -> good (fun p => Phi (pmul p phi)).
Proof. intros G. exact (good_flat_map Phi _ G (goodterm_tmul phi)). Qed.
Lemma good_pderiv Phi k : good Phi -> good (fun p => Phi (pderiv k p)).
Proof. intros G. exact (good_flat_map Phi _ G (goodterm_tderiv k)). Qed.
Lemma good_pscale Phi c : good Phi -> good (fun p => Phi (pscale c p)).
Proof.
  intros G. apply (good_ext (fun p => c * Phi p)); [intros p; symmetry; apply (g_scale _ G) | now apply good_cmul].
Qed.
(* psubstn = pnorm o (flat_map of the substituted terms); pint does not see pnorm *)
Lemma good_psubstn s F : good (fun p => pint s (psubstn F p)).
Proof.
  apply (good_ext (fun p => pint s (flat_map (fun t => pscale (fst t) (mono_substn F (snd t) 0)) p))).
  - intros p. unfold psubstn. symmetry. apply pint_pnorm.
  - exact (good_flat_map (pint s) _ (good_pint s) (goodterm_subst F)).
Qed.
Lemma good_concat {X} Phi (T : X -> poly -> poly) (l : list X) :
  good Phi -> (forall x, In x l -> good (fun p => Phi (T x p))) -> good (fun p => Phi (concat (map (fun x => T x p) l))).
Proof.
  intros G H. induction l as [|x l IH]; simpl; [apply (good_ext (fun _ => 0)); [intros; symmetry; now apply good_nil | apply good_zero]|].
  apply (good_ext (fun p => Phi (T x p) + Phi (concat (map (fun x0 => T x0 p) l)))).
  - intros p. symmetry. apply (g_add _ G).
  - apply good_plus; [apply H; now left | apply IH; intros; apply H; now right].
Qed.

(* ---- from monomials to every polynomial *)
Theorem good_agree_on_monomials Phi Psi (ms : list mono) :
  good Phi -> good Psi -> (forall m, In m ms -> Phi (pmono m) == Psi (pmono m)) ->
  forall p, (forall t, In t p -> In (snd t) ms) -> Phi p == Psi p.
Proof.
  intros G1 G2 H p. induction p as [|[c m] p IH]; intros Hp.
  - now rewrite (good_nil _ G1), (good_nil _ G2).
  - change ((c, m) :: p) with ([(c, m)] ++ p). rewrite (g_add _ G1), (g_add _ G2), IH by (intros t Ht; apply Hp; now right).
    assert (E : ceq [(c, m)] (pscale c (pmono m))) by (unfold pmono; simpl; constructor; [split; simpl; [ring | reflexivity] | constructor]).
    rewrite (g_cong _ G1 _ _ E), (g_cong _ G2 _ _ E), (g_scale _ G1), (g_scale _ G2), (H m) by (apply (Hp (c, m)); now left).
    reflexivity.
Qed.

(* ---- both sides of the reference-cell Green identity are good functionals of p *)
Lemma map2_combine {X Y Z} (f : X -> Y -> Z) a b : map2 f a b = map (fun xy => f (fst xy) (snd xy)) (combine a b).
Proof. revert b; induction a as [|x a IH]; intros [|y b]; simpl; auto. now rewrite IH. Qed.

Lemma good_green_lhs s phi : good (fun p => green_lhs s p phi).
Proof.
  unfold green_lhs, grad_dot.
  apply (good_concat (pint s) (fun k p => pmul (pderiv k p) (pderiv k phi)) (seq 0 (dim s)) (good_pint s)).
  intros k _. exact (good_pderiv (fun q => pint s (pmul q (pderiv k phi))) k (good_pmul_l (pint s) (pderiv k phi) (good_pint s))).
Qed.

Lemma good_facet_int d f phi : good (fun p => facet_int d f p phi).
Proof.
  unfold facet_int, flux_poly.
  set (Phi := fun q => pint (rf_shape f) (psubstn (subst_map (rf_map f)) (pmul q phi))).
  assert (GPhi : good Phi) by (exact (good_pmul_l (fun r => pint (rf_shape f) (psubstn (subst_map (rf_map f)) r)) phi (good_psubstn _ _))).
  apply (good_ext (fun p => Phi (concat (map (fun ck => pscale (fst ck) (pderiv (snd ck) p)) (combine (rf_nu f) (seq 0 d)))))).
  - intros p. unfold Phi. now rewrite map2_combine.
  - apply (good_concat Phi (fun ck p => pscale (fst ck) (pderiv (snd ck) p)) _ GPhi).
    intros [c k] _. simpl. exact (good_pderiv (fun q => Phi (pscale c q)) k (good_pscale Phi c GPhi)).
Qed.

Lemma good_green_rhs s facets phi : good (fun p => green_rhs s facets p phi).
Proof.
  unfold green_rhs. apply good_plus.
  - apply good_opp. unfold lap.
    apply (good_concat (fun q => pint s (pmul q phi)) (fun k p => pderiv k (pderiv k p)) (seq 0 (dim s)) (good_pmul_l (pint s) phi (good_pint s))).
    intros k _. exact (good_pderiv (fun q => pint s (pmul (pderiv k q) phi)) k
                                   (good_pderiv (fun q => pint s (pmul q phi)) k (good_pmul_l (pint s) phi (good_pint s)))).
  - apply (good_qsum (fun f p => facet_int (dim s) f p phi)). intros f _. apply good_facet_int.
Qed.

(* Green's identity on the reference cell for EVERY polynomial p of the class's degree *)
Definition gpoly_within (e : gelem) (p : poly) : Prop :=
  forall t, In t p -> length (snd t) = dim (rc_shape (ge_cell e)) /\
    (if ge_box e then Forall (fun a => (a <= ge_deg e)%nat) (snd t) else (msum (snd t) <= ge_deg e)%nat).

Theorem green_reference_cells_all_polynomials (l : list gelem) :
  forallb ge_ok l = true ->
  forall e, In e l -> forall phi, In phi (ge_basis e) -> forall p, gpoly_within e p ->
    green_lhs (rc_shape (ge_cell e)) p phi == green_rhs (rc_shape (ge_cell e)) (rc_facets (ge_cell e)) p phi.
Proof.
  intros H e He phi Hphi p Hp.
  assert (Hc : green_cert (rc_shape (ge_cell e)) (rc_facets (ge_cell e)) (ge_basis e) (ge_monos e) = true).
  { rewrite forallb_forall in H. specialize (H e He). unfold ge_ok in H. apply andb_true_iff in H. apply H. }
  apply (good_agree_on_monomials (fun q => green_lhs (rc_shape (ge_cell e)) q phi)
                                 (fun q => green_rhs (rc_shape (ge_cell e)) (rc_facets (ge_cell e)) q phi) (ge_monos e)).
  - apply good_green_lhs.
  - apply good_green_rhs.
  - intros m Hm. exact (green_cert_sound _ _ _ _ Hc phi Hphi m Hm).
  - intros t Ht. destruct (Hp t Ht) as [Hl Hd]. unfold ge_monos. destruct (ge_box e).
    + now apply in_monos_box.
    + now apply in_monos_le.
Qed.
