(* C20 — proofs about the model of NonlinearForm._assemble (Model.C20_Nonlin) with the standard
   index expressions [std_pieces] (Dyn.C20_NonlinTie shows that the expressions regenerated from the
   source are these):
     nl_jacobian_entries : position nt*(Nb*j+i)+e of the Jacobian triplets is
                           (edofs i e, edofs j e, D (U |-> g e U phi_i) X_e phi_j)       (rows = test, cols = trial)
     nl_residual_entries : position nt*i+e of the residual triplets is (edofs i e, - g e X_e phi_i)
     linear_reduces      : if g e U V = a e U V - l e V with a additive and homogeneous in U, and the
                           differentiation oracle returns a e W V for such functions, then the assembled
                           pair is (A, b - A x) with A, b the ordinary assembly of a and l. *)
From Coq Require Import List Arith Bool Lia Ring.
Import ListNotations.
Require Import Base.C20_Ring Model.C20_Nonlin.

(* ------------------------------------------------------------------ folds of array writes *)
Lemma fold_proj {S A K : Type} (proj : S -> A) (step : S -> K -> S) (upd : A -> K -> A) :
  (forall s k, proj (step s k) = upd (proj s) k) ->
  forall ks s, proj (fold_left step ks s) = fold_left upd ks (proj s).
Proof. intros H ks. induction ks as [|k ks IH]; intros s; simpl; [reflexivity|]. rewrite IH, H. reflexivity. Qed.

Lemma fold_const {S A K : Type} (proj : S -> A) (step : S -> K -> S) :
  (forall s k, proj (step s k) = proj s) -> forall ks s, proj (fold_left step ks s) = proj s.
Proof. intros H ks. induction ks as [|k ks IH]; intros s; simpl; [reflexivity|]. rewrite IH, H. reflexivity. Qed.

Lemma fold_map_pair {A : Type} (f : A -> nat * nat -> A) (i : nat) (l : list nat) (a : A) :
  fold_left f (map (fun j => (i, j)) l) a = fold_left (fun a j => f a (i, j)) l a.
Proof. revert a. induction l as [|j l IH]; intros a; simpl; [reflexivity | apply IH]. Qed.

Lemma fold_nested {A : Type} (f : A -> nat * nat -> A) (l1 l2 : list nat) (a : A) :
  fold_left (fun a i => fold_left (fun a j => f a (i, j)) l2 a) l1 a = fold_left f (list_prod l1 l2) a.
Proof.
  revert a. induction l1 as [|i l1 IH]; intros a; simpl; [reflexivity|].
  rewrite fold_left_app, fold_map_pair. apply IH.
Qed.

Lemma fold_set_slice_get {K T : Type} (lo hi : K -> nat) (src : K -> nat -> T) (ks : list K)
      (a : nat -> T) (p : nat) (v : T) :
  ((exists k, In k ks /\ lo k <= p < hi k) \/ a p = v) ->
  (forall k, In k ks -> lo k <= p < hi k -> src k (p - lo k) = v) ->
  fold_left (fun a k => set_slice (lo k) (hi k) (src k) a) ks a p = v.
Proof.
  revert a. induction ks as [|k0 ks IH]; intros a H1 H2; simpl.
  - destruct H1 as [[k [[] _]]|H]; exact H.
  - apply IH; [|intros k Hk; apply H2; right; exact Hk].
    destruct ((lo k0 <=? p) && (p <? hi k0)) eqn:E.
    + right. unfold set_slice. rewrite E. apply H2; [left; reflexivity|].
      apply andb_true_iff in E. destruct E as [E1 E2]. apply Nat.leb_le in E1. apply Nat.ltb_lt in E2. lia.
    + destruct H1 as [[k [[Hk|Hk] Hp]]|H].
      * subst k0. exfalso. apply andb_false_iff in E. destruct E as [E|E];
          [apply Nat.leb_gt in E | apply Nat.ltb_ge in E]; lia.
      * left. exists k. split; assumption.
      * right. unfold set_slice. rewrite E. exact H.
Qed.

Lemma fold_set2_get {K T : Type} (slot : K -> nat * nat) (val : K -> T) (ks : list K)
      (d : nat -> nat -> T) (x y : nat) (v : T) :
  ((exists k, In k ks /\ slot k = (x, y)) \/ d x y = v) ->
  (forall k, In k ks -> slot k = (x, y) -> val k = v) ->
  fold_left (fun d k => set2 (slot k) (val k) d) ks d x y = v.
Proof.
  revert d. induction ks as [|k0 ks IH]; intros d H1 H2; simpl.
  - destruct H1 as [[k [[] _]]|H]; exact H.
  - apply IH; [|intros k Hk; apply H2; right; exact Hk].
    destruct ((x =? fst (slot k0)) && (y =? snd (slot k0))) eqn:E.
    + right. unfold set2. rewrite E. apply H2; [left; reflexivity|].
      apply andb_true_iff in E. destruct E as [E1 E2]. apply Nat.eqb_eq in E1. apply Nat.eqb_eq in E2.
      destruct (slot k0) as [s1 s2]. simpl in *. subst. reflexivity.
    + destruct H1 as [[k [[Hk|Hk] Hp]]|H].
      * subst k0. rewrite Hp in E. simpl in E. rewrite !Nat.eqb_refl in E. discriminate E.
      * left. exists k. split; assumption.
      * right. unfold set2. rewrite E. exact H.
Qed.

(* ------------------------------------------------------------------ index arithmetic of the layout *)
Lemma decode_pos (Nb nt i j e : nat) : i < Nb -> e < nt ->
  (nt * (Nb * j + i) + e) / nt = Nb * j + i /\ (nt * (Nb * j + i) + e) mod nt = e /\
  (Nb * j + i) / Nb = j /\ (Nb * j + i) mod Nb = i.
Proof.
  intros Hi He. repeat split.
  - symmetry. apply Nat.div_unique with e; [exact He | reflexivity].
  - symmetry. apply Nat.mod_unique with (Nb * j + i); [exact He | reflexivity].
  - symmetry. apply Nat.div_unique with i; [exact Hi | reflexivity].
  - symmetry. apply Nat.mod_unique with j; [exact Hi | reflexivity].
Qed.

Lemma slice_unique (Nb nt i j i2 j2 e : nat) : i < Nb -> i2 < Nb -> e < nt ->
  nt * (Nb * j2 + i2) <= nt * (Nb * j + i) + e < nt * (Nb * j2 + i2 + 1) -> i2 = i /\ j2 = j.
Proof.
  intros Hi Hi2 He [H1 H2].
  assert (Hk : Nb * j2 + i2 = Nb * j + i) by nia.
  assert (Hj : j2 = j) by nia. subst j2. split; [lia | reflexivity].
Qed.

Lemma pos_bound (Nb nt i j e : nat) : j < Nb -> i < Nb -> e < nt -> nt * (Nb * j + i) + e < Nb * Nb * nt.
Proof.
  intros Hj Hi He.
  assert (H1 : Nb * (j + 1) <= Nb * Nb) by (apply Nat.mul_le_mono_l; lia).
  assert (H2 : nt * (Nb * j + i + 1) <= nt * (Nb * Nb)) by (apply Nat.mul_le_mono_l; lia).
  lia.
Qed.

Lemma pos1_bound (nt Nb i e : nat) : i < Nb -> e < nt -> nt * i + e < Nb * nt.
Proof.
  intros Hi He. assert (H : nt * (i + 1) <= nt * Nb) by (apply Nat.mul_le_mono_l; lia). lia.
Qed.

Lemma slice1_unique (nt i i2 e : nat) : e < nt -> nt * i2 <= nt * i + e < nt * (i2 + 1) -> i2 = i.
Proof. intros He [H1 H2]. nia. Qed.

(* ------------------------------------------------------------------ entries of the triplets *)
Section Entries.
  Context {R : Type} {ops : FOps R}.
  Variable F : Type.
  Variables Nb nt : nat.
  Variable edofs : nat -> nat -> nat.
  Variable phi : nat -> nat -> F.
  Variable X : nat -> F.
  Variable g : nat -> F -> F -> R.
  Variable D : (F -> R) -> F -> F -> R.
  Notation P := std_pieces.
  Notation final := (final F P Nb nt edofs phi X g D).

  Lemma rows_fold :
    s_rows final = fold_left (fun a k => set_slice (nt * (Nb * snd k + fst k)) (nt * (Nb * snd k + fst k + 1))
                                                    (edofs (fst k)) a)
                             (list_prod (seq 0 Nb) (seq 0 Nb)) (fun _ => 0%nat).
  Proof.
    unfold C20_Nonlin.final.
    rewrite (fold_proj (@s_rows R) (outer F P Nb nt edofs phi X g D)
               (fun a i => fold_left (fun a j => set_slice (nt * (Nb * j + i)) (nt * (Nb * j + i + 1)) (edofs i) a) (seq 0 Nb) a)).
    - rewrite (fold_nested (fun a k => set_slice (nt * (Nb * snd k + fst k)) (nt * (Nb * snd k + fst k + 1)) (edofs (fst k)) a)).
      reflexivity.
    - intros s i. unfold outer. simpl.
      apply (fold_proj (@s_rows R) (inner F P Nb nt edofs phi X g D i)). intros s' j. reflexivity.
  Qed.

  Lemma cols_fold :
    s_cols final = fold_left (fun a k => set_slice (nt * (Nb * snd k + fst k)) (nt * (Nb * snd k + fst k + 1))
                                                    (edofs (snd k)) a)
                             (list_prod (seq 0 Nb) (seq 0 Nb)) (fun _ => 0%nat).
  Proof.
    unfold C20_Nonlin.final.
    rewrite (fold_proj (@s_cols R) (outer F P Nb nt edofs phi X g D)
               (fun a i => fold_left (fun a j => set_slice (nt * (Nb * j + i)) (nt * (Nb * j + i + 1)) (edofs j) a) (seq 0 Nb) a)).
    - rewrite (fold_nested (fun a k => set_slice (nt * (Nb * snd k + fst k)) (nt * (Nb * snd k + fst k + 1)) (edofs (snd k)) a)).
      reflexivity.
    - intros s i. unfold outer. simpl.
      apply (fold_proj (@s_cols R) (inner F P Nb nt edofs phi X g D i)). intros s' j. reflexivity.
  Qed.

  Lemma data_fold :
    s_data final = fold_left (fun d k => set2 (snd k, fst k) (dfu F P phi X g D (fst k) (snd k)) d)
                             (list_prod (seq 0 Nb) (seq 0 Nb)) (fun _ _ _ => 0%F).
  Proof.
    unfold C20_Nonlin.final.
    rewrite (fold_proj (@s_data R) (outer F P Nb nt edofs phi X g D)
               (fun d i => fold_left (fun d j => set2 (j, i) (dfu F P phi X g D i j) d) (seq 0 Nb) d)).
    - rewrite (fold_nested (fun d k => set2 (snd k, fst k) (dfu F P phi X g D (fst k) (snd k)) d)).
      reflexivity.
    - intros s i. unfold outer. simpl.
      apply (fold_proj (@s_data R) (inner F P Nb nt edofs phi X g D i)). intros s' j. reflexivity.
  Qed.

  Lemma in_pairs (i j : nat) : i < Nb -> j < Nb -> In (i, j) (list_prod (seq 0 Nb) (seq 0 Nb)).
  Proof. intros Hi Hj. apply in_prod; apply in_seq; lia. Qed.

  Lemma pairs_bound (k : nat * nat) : In k (list_prod (seq 0 Nb) (seq 0 Nb)) -> fst k < Nb /\ snd k < Nb.
  Proof. destruct k as [i j]. intros H. apply in_prod_iff in H. destruct H as [H1 H2].
         apply in_seq in H1. apply in_seq in H2. simpl. lia. Qed.

  Theorem nl_jacobian_entries (j i e : nat) : j < Nb -> i < Nb -> e < nt ->
    let p := nt * (Nb * j + i) + e in
    p < jac_len Nb nt /\
    jac_rows F P Nb nt edofs phi X g D p = edofs i e /\
    jac_cols F P Nb nt edofs phi X g D p = edofs j e /\
    jac_data F P Nb nt edofs phi X g D p = D (fun U => g e U (phi i e)) (X e) (phi j e).
  Proof.
    intros Hj Hi He p. split; [unfold jac_len, p; apply pos_bound; assumption|]. split; [|split].
    - unfold jac_rows. rewrite rows_fold. apply fold_set_slice_get.
      + left. exists (i, j). split; [apply in_pairs; assumption | simpl; unfold p; lia].
      + intros [i2 j2] Hk Hr. simpl in *. apply pairs_bound in Hk. simpl in Hk.
        destruct (slice_unique Nb nt i j i2 j2 e) as [E1 E2]; try lia. subst i2 j2.
        f_equal. unfold p. lia.
    - unfold jac_cols. rewrite cols_fold. apply fold_set_slice_get.
      + left. exists (i, j). split; [apply in_pairs; assumption | simpl; unfold p; lia].
      + intros [i2 j2] Hk Hr. simpl in *. apply pairs_bound in Hk. simpl in Hk.
        destruct (slice_unique Nb nt i j i2 j2 e) as [E1 E2]; try lia. subst i2 j2.
        f_equal. unfold p. lia.
    - unfold jac_data. simpl. destruct (decode_pos Nb nt i j e Hi He) as [E1 [E2 [E3 E4]]].
      fold p in E1, E2. rewrite E1, E2, E3, E4. rewrite data_fold.
      rewrite (fold_set2_get (fun k : nat * nat => (snd k, fst k))
                 (fun k => dfu F P phi X g D (fst k) (snd k)) _ _ j i (dfu F P phi X g D i j)).
      + reflexivity.
      + left. exists (i, j). split; [apply in_pairs; assumption | reflexivity].
      + intros [i2 j2] _ Hs. simpl in Hs. injection Hs as E5 E6. subst i2 j2. reflexivity.
  Qed.

  Lemma rows1_fold :
    s_rows1 final = fold_left (fun a i => set_slice (nt * i) (nt * (i + 1)) (edofs i) a) (seq 0 Nb) (fun _ => 0%nat).
  Proof.
    unfold C20_Nonlin.final.
    apply (fold_proj (@s_rows1 R) (outer F P Nb nt edofs phi X g D)
             (fun a i => set_slice (nt * i) (nt * (i + 1)) (edofs i) a)).
    intros s i. unfold outer. simpl.
    rewrite (fold_const (@s_rows1 R) (inner F P Nb nt edofs phi X g D i)); [reflexivity | intros; reflexivity].
  Qed.

  Lemma data1_fold :
    s_data1 final = fold_left (fun a i => set_slice (nt * i) (nt * (i + 1)) (resid F P phi X g i) a) (seq 0 Nb) (fun _ => 0%F).
  Proof.
    unfold C20_Nonlin.final.
    apply (fold_proj (@s_data1 R) (outer F P Nb nt edofs phi X g D)
             (fun a i => set_slice (nt * i) (nt * (i + 1)) (resid F P phi X g i) a)).
    intros s i. unfold outer. simpl.
    rewrite (fold_const (@s_data1 R) (inner F P Nb nt edofs phi X g D i)); [reflexivity | intros; reflexivity].
  Qed.

  Theorem nl_residual_entries (i e : nat) : i < Nb -> e < nt ->
    let p := nt * i + e in
    p < rhs_len Nb nt /\
    rhs_rows F P Nb nt edofs phi X g D p = edofs i e /\
    rhs_data F P Nb nt edofs phi X g D p = (- g e (X e) (phi i e))%F.
  Proof.
    intros Hi He p. split; [unfold rhs_len, p; apply pos1_bound; assumption|]. split.
    - unfold rhs_rows. rewrite rows1_fold. apply fold_set_slice_get.
      + left. exists i. split; [apply in_seq; lia | unfold p; lia].
      + intros i2 _ Hr. rewrite (slice1_unique nt i i2 e He Hr). f_equal. unfold p. lia.
    - unfold rhs_data. simpl. f_equal. rewrite data1_fold. apply fold_set_slice_get.
      + left. exists i. split; [apply in_seq; lia | unfold p; lia].
      + intros i2 _ Hr. rewrite (slice1_unique nt i i2 e He Hr). unfold resid. simpl.
        replace (p - nt * i) with e by (unfold p; lia). reflexivity.
  Qed.
End Entries.

(* ------------------------------------------------------------------ finite sums in a commutative ring *)
Section Sums.
  Context {R : Type} {ops : FOps R}.
  Hypothesis Rth : ring_theory f0 f1 fadd fmul fsub fopp (@eq R).
  Add Ring Rring20s : Rth.
  Open Scope F_scope.

  Lemma fsum_ext (n : nat) (f h : nat -> R) : (forall k, k < n -> f k = h k) -> fsum n f = fsum n h.
  Proof. induction n as [|n IH]; intros H; simpl; [reflexivity|]. rewrite IH, (H n); [reflexivity | lia |].
         intros k Hk. apply H. lia. Qed.
  Lemma fsum_zero (n : nat) : fsum n (fun _ => 0) = (0 : R).
  Proof. induction n as [|n IH]; simpl; [reflexivity|]. rewrite IH. ring. Qed.
  Lemma fsum_plus (n : nat) (f h : nat -> R) : fsum n (fun k => f k + h k) = fsum n f + fsum n h.
  Proof. induction n as [|n IH]; simpl; [ring|]. rewrite IH. ring. Qed.
  Lemma fsum_minus (n : nat) (f h : nat -> R) : fsum n (fun k => f k - h k) = fsum n f - fsum n h.
  Proof. induction n as [|n IH]; simpl; [ring|]. rewrite IH. ring. Qed.
  Lemma fsum_opp (n : nat) (f : nat -> R) : fsum n (fun k => - f k) = - fsum n f.
  Proof. induction n as [|n IH]; simpl; [ring|]. rewrite IH. ring. Qed.
  Lemma fsum_scale_r (n : nat) (f : nat -> R) (c : R) : fsum n f * c = fsum n (fun k => f k * c).
  Proof. induction n as [|n IH]; simpl; [ring|]. rewrite <- IH. ring. Qed.
  Lemma fsum_exchange (n m : nat) (f : nat -> nat -> R) :
    fsum n (fun x => fsum m (fun y => f x y)) = fsum m (fun y => fsum n (fun x => f x y)).
  Proof. induction n as [|n IH]; simpl; [symmetry; apply fsum_zero|]. rewrite IH, <- fsum_plus. reflexivity. Qed.
  Lemma fsum_add (n m : nat) (f : nat -> R) : fsum (n + m) f = fsum n f + fsum m (fun k => f (n + k)%nat).
  Proof. induction m as [|m IH]; [rewrite Nat.add_0_r; simpl; ring|].
         rewrite Nat.add_succ_r. simpl. rewrite IH. ring. Qed.
  Lemma fsum_mul_split (a b : nat) (f : nat -> R) :
    fsum (a * b) f = fsum a (fun x => fsum b (fun y => f (x * b + y)%nat)).
  Proof. induction a as [|a IH]; [reflexivity|]. simpl fsum at 2. rewrite <- IH.
         replace (S a * b)%nat with (a * b + b)%nat by lia. apply fsum_add. Qed.
  (* sum_{c < N} [k = c] * v * w c = v * w k for k < N *)
  Lemma fsum_delta (N k : nat) (v : R) (w : nat -> R) : k < N ->
    fsum N (fun c => (if k =? c then v else 0) * w c) = v * w k.
  Proof.
    induction N as [|N IH]; intros Hk; [lia|]. simpl.
    destruct (Nat.eq_dec k N) as [E|E].
    - subst k. rewrite Nat.eqb_refl.
      rewrite (fsum_ext N _ (fun _ => 0)); [rewrite fsum_zero; ring|].
      intros c Hc. destruct (N =? c) eqn:E; [apply Nat.eqb_eq in E; lia | ring].
    - rewrite IH by lia. destruct (k =? N) eqn:E2; [apply Nat.eqb_eq in E2; lia | ring].
  Qed.
End Sums.

(* ------------------------------------------------------------------ dense form and linear_reduces *)
Section Linear.
  Context {R : Type} {ops : FOps R}.
  Hypothesis Rth : ring_theory f0 f1 fadd fmul fsub fopp (@eq R).
  Add Ring Rring20l : Rth.
  Variable F : Type.
  Variables (fzero : F) (fplus : F -> F -> F) (fscale : R -> F -> F).
  Variables Nb nt N : nat.
  Variable edofs : nat -> nat -> nat.
  Variable phi : nat -> nat -> F.
  Variable a : nat -> F -> F -> R.
  Variable l : nat -> F -> R.
  Variable x : nat -> R.
  Variable D : (F -> R) -> F -> F -> R.
  Notation P := std_pieces.

  (* the integrand is linear in the unknown *)
  Hypothesis a_add : forall e U W V, a e (fplus U W) V = (a e U V + a e W V)%F.
  Hypothesis a_hom : forall e c U V, a e (fscale c U) V = (c * a e U V)%F.
  Hypothesis a_zero : forall e V, a e fzero V = 0%F.
  (* the differentiation oracle is exact on (affine) functions h U - k with h additive and homogeneous *)
  Hypothesis D_affine : forall (h : F -> R) (k : R) (X0 W : F),
    (forall U V, h (fplus U V) = (h U + h V)%F) -> (forall c U, h (fscale c U) = (c * h U)%F) ->
    D (fun U => (h U - k)%F) X0 W = h W.
  Hypothesis edofs_bound : forall j e, j < Nb -> e < nt -> edofs j e < N.

  Let g := fun e U V => (a e U V - l e V)%F.
  Let X := interp F fzero fplus fscale Nb edofs phi x.

  Lemma a_fsumF (n e : nat) (V : F) (f : nat -> F) :
    a e (fsumF F fzero fplus n f) V = fsum n (fun j => a e (f j) V).
  Proof. induction n as [|n IH]; simpl; [apply a_zero|]. rewrite a_add, IH. reflexivity. Qed.

  Lemma a_interp (e : nat) (V : F) :
    a e (X e) V = fsum Nb (fun j => (x (edofs j e) * a e (phi j e) V)%F).
  Proof. unfold X, interp. rewrite a_fsumF. apply (fsum_ext Nb). intros j _. apply a_hom. Qed.

  (* the Jacobian triplets are the triplets of the bilinear form a: same rows, cols and data *)
  Theorem linear_jacobian_triplets (j i e : nat) : j < Nb -> i < Nb -> e < nt ->
    let p := nt * (Nb * j + i) + e in
    jac_rows F P Nb nt edofs phi X g D p = edofs i e /\ jac_cols F P Nb nt edofs phi X g D p = edofs j e /\
    jac_data F P Nb nt edofs phi X g D p = a e (phi j e) (phi i e).
  Proof.
    intros Hj Hi He p. destruct (nl_jacobian_entries F Nb nt edofs phi X g D j i e Hj Hi He) as [_ [H1 [H2 H3]]].
    split; [exact H1 | split; [exact H2|]]. fold p in H3. rewrite H3. unfold g.
    apply (D_affine (fun U => a e U (phi i e)) (l e (phi i e))); intros; [apply a_add | apply a_hom].
  Qed.

  Lemma dense_jacobian (r c : nat) :
    dense_mat (jac_len Nb nt) (jac_rows F P Nb nt edofs phi X g D) (jac_cols F P Nb nt edofs phi X g D)
              (jac_data F P Nb nt edofs phi X g D) r c = asm_mat F Nb nt edofs phi a r c.
  Proof.
    unfold dense_mat, jac_len, asm_mat.
    rewrite (fsum_mul_split Rth (Nb * Nb) nt), (fsum_mul_split Rth Nb Nb).
    apply (fsum_ext Nb); intros j Hj. apply (fsum_ext Nb); intros i Hi. apply (fsum_ext nt); intros e He.
    destruct (linear_jacobian_triplets j i e Hj Hi He) as [H1 [H2 H3]].
    replace ((j * Nb + i) * nt + e)%nat with (nt * (Nb * j + i) + e)%nat by lia.
    rewrite H1, H2, H3. reflexivity.
  Qed.

  Lemma dense_residual (r : nat) :
    dense_vec (rhs_len Nb nt) (rhs_rows F P Nb nt edofs phi X g D) (rhs_data F P Nb nt edofs phi X g D) r
    = fsum Nb (fun i => fsum nt (fun e => if edofs i e =? r then (- g e (X e) (phi i e))%F else 0%F)).
  Proof.
    unfold dense_vec, rhs_len. rewrite (fsum_mul_split Rth Nb nt).
    apply (fsum_ext Nb); intros i Hi. apply (fsum_ext nt); intros e He.
    destruct (nl_residual_entries F Nb nt edofs phi X g D i e Hi He) as [_ [H1 H2]].
    replace (i * nt + e)%nat with (nt * i + e)%nat by lia. rewrite H1, H2. reflexivity.
  Qed.

  Lemma matvec_asm (r : nat) :
    matvec N (asm_mat F Nb nt edofs phi a) x r
    = fsum Nb (fun i => fsum nt (fun e => if edofs i e =? r
                                          then fsum Nb (fun j => (x (edofs j e) * a e (phi j e) (phi i e))%F) else 0%F)).
  Proof.
    unfold matvec, asm_mat.
    (* push x c inside, then move the sum over c innermost *)
    rewrite (fsum_ext N _ (fun c => fsum Nb (fun j => fsum Nb (fun i => fsum nt (fun e =>
               ((if (edofs i e =? r) && (edofs j e =? c) then a e (phi j e) (phi i e) else 0) * x c)%F))))).
    2:{ intros c _. rewrite (fsum_scale_r Rth). apply (fsum_ext Nb); intros j _.
        rewrite (fsum_scale_r Rth). apply (fsum_ext Nb); intros i _. apply (fsum_scale_r Rth). }
    rewrite (fsum_exchange Rth N Nb).
    rewrite (fsum_ext Nb _ (fun j => fsum Nb (fun i => fsum nt (fun e =>
               if edofs i e =? r then (x (edofs j e) * a e (phi j e) (phi i e))%F else 0%F)))).
    2:{ intros j Hj. rewrite (fsum_exchange Rth N Nb). apply (fsum_ext Nb); intros i _.
        rewrite (fsum_exchange Rth N nt). apply (fsum_ext nt); intros e He.
        destruct (edofs i e =? r); simpl.
        - rewrite (fsum_delta Rth N (edofs j e) (a e (phi j e) (phi i e)) x); [ring | apply edofs_bound; assumption].
        - rewrite (fsum_ext N _ (fun _ => 0%F)); [apply (fsum_zero Rth) | intros; ring]. }
    rewrite (fsum_exchange Rth Nb Nb). apply (fsum_ext Nb); intros i _.
    rewrite (fsum_exchange Rth Nb nt). apply (fsum_ext nt); intros e _.
    destruct (edofs i e =? r); [reflexivity | apply (fsum_zero Rth)].
  Qed.

  (* the assembled pair is (A, b - A x) *)
  Theorem linear_reduces :
    (forall r c, dense_mat (jac_len Nb nt) (jac_rows F P Nb nt edofs phi X g D) (jac_cols F P Nb nt edofs phi X g D)
                           (jac_data F P Nb nt edofs phi X g D) r c = asm_mat F Nb nt edofs phi a r c) /\
    (forall r, dense_vec (rhs_len Nb nt) (rhs_rows F P Nb nt edofs phi X g D) (rhs_data F P Nb nt edofs phi X g D) r
               = (asm_vec F Nb nt edofs phi l r - matvec N (asm_mat F Nb nt edofs phi a) x r)%F).
  Proof.
    split; [exact dense_jacobian|]. intros r. rewrite dense_residual, matvec_asm. unfold asm_vec.
    rewrite <- (fsum_minus Rth). apply (fsum_ext Nb); intros i _.
    rewrite <- (fsum_minus Rth). apply (fsum_ext nt); intros e _.
    destruct (edofs i e =? r); [|ring]. unfold g. rewrite a_interp. ring.
  Qed.
End Linear.
