(* C08 — soundness of the fast checker (outward-rounded fixed-point powers) w.r.t. the same
   specification over Q as the exact checker. *)
From Coq Require Import ZArith List QArith Qabs Bool Arith Lia Lqa.
Require Import Base.Corr Model.C08_Rules Proofs.C08_RulesProofs.
Import ListNotations.
Local Open Scope Z_scope.

Lemma zpw_pos P e : 0 < P -> 0 < zpw P e.
Proof. intros H. induction e as [|e IH]; simpl; [lia|]. apply Z.mul_pos_pos; assumption. Qed.

Lemma zpw_nonneg X e : 0 <= X -> 0 <= zpw X e.
Proof. intros H. induction e as [|e IH]; simpl; [lia|]. apply Z.mul_nonneg_nonneg; assumption. Qed.

Lemma pstep_lo_le P X v : 0 < P -> pstep_lo P X v * P <= v * X.
Proof. intros H. unfold pstep_lo. pose proof (Z.mul_div_le (v * X) P H). lia. Qed.

Lemma pstep_hi_ge P X v : 0 < P -> v * X <= pstep_hi P X v * P.
Proof.
  intros H. unfold pstep_hi. pose proof (Z.mul_succ_div_gt (v * X + P - 1) P H) as G.
  rewrite Z.mul_succ_r in G. lia.
Qed.

Lemma pstep_lo_nonneg P X v : 0 < P -> 0 <= X -> 0 <= v -> 0 <= pstep_lo P X v.
Proof. intros. unfold pstep_lo. apply Z.div_pos; [apply Z.mul_nonneg_nonneg; assumption|assumption]. Qed.

Lemma mul_le_4 a b c d : 0 <= a -> 0 <= c -> a <= b -> c <= d -> a * c <= b * d.
Proof. intros. apply Z.mul_le_mono_nonneg; assumption. Qed.

(* entry e of the table started at (lo, hi) ~ c / p bounds c X^e / (p P^e) *)
Lemma itab_from_spec P X : 0 < P -> 0 <= X -> forall n lo hi c p e,
  0 <= lo -> 0 < p -> lo * p <= c -> c <= hi * p -> (e <= n)%nat ->
  0 <= fst (nth e (itab_from P X lo hi n) (0, 0)) /\
  fst (nth e (itab_from P X lo hi n) (0, 0)) * (p * zpw P e) <= c * zpw X e /\
  c * zpw X e <= snd (nth e (itab_from P X lo hi n) (0, 0)) * (p * zpw P e).
Proof.
  intros HP HX. induction n as [|n IH]; intros lo hi c p e Hlo Hp Hl Hh He.
  - assert (e = O) by lia. subst. simpl. repeat split; lia.
  - destruct e as [|e].
    + simpl. repeat split; lia.
    + simpl nth.
      assert (A1 : 0 <= pstep_lo P X lo) by (apply pstep_lo_nonneg; assumption).
      assert (A2 : pstep_lo P X lo * (p * P) <= c * X).
      { pose proof (pstep_lo_le P X lo HP) as G.
        apply Z.le_trans with (lo * X * p).
        - replace (pstep_lo P X lo * (p * P)) with (pstep_lo P X lo * P * p) by ring.
          apply Z.mul_le_mono_nonneg_r; lia.
        - replace (lo * X * p) with (lo * p * X) by ring. apply Z.mul_le_mono_nonneg_r; lia. }
      assert (A3 : c * X <= pstep_hi P X hi * (p * P)).
      { pose proof (pstep_hi_ge P X hi HP) as G.
        apply Z.le_trans with (hi * X * p).
        - replace (hi * X * p) with (hi * p * X) by ring. apply Z.mul_le_mono_nonneg_r; lia.
        - replace (pstep_hi P X hi * (p * P)) with (pstep_hi P X hi * P * p) by ring.
          apply Z.mul_le_mono_nonneg_r; lia. }
      assert (Hp' : 0 < p * P) by (apply Z.mul_pos_pos; assumption).
      destruct (IH (pstep_lo P X lo) (pstep_hi P X hi) (c * X) (p * P) e A1 Hp' A2 A3 ltac:(lia))
        as [B1 [B2 B3]].
      simpl zpw. split; [exact B1|]. split.
      * replace (p * (P * zpw P e)) with (p * P * zpw P e) by ring.
        replace (c * (X * zpw X e)) with (c * X * zpw X e) by ring. exact B2.
      * replace (p * (P * zpw P e)) with (p * P * zpw P e) by ring.
        replace (c * (X * zpw X e)) with (c * X * zpw X e) by ring. exact B3.
Qed.

Lemma itab_spec P B n X e : 0 < P -> 0 < B -> 0 <= X -> (e <= n)%nat ->
  0 <= fst (nth e (itab P B n X) (0, 0)) /\
  fst (nth e (itab P B n X) (0, 0)) * zpw P e <= B * zpw X e /\
  B * zpw X e <= snd (nth e (itab P B n X) (0, 0)) * zpw P e.
Proof.
  intros HP HB HX He. unfold itab.
  destruct (itab_from_spec P X HP HX n B B B 1 e ltac:(lia) ltac:(lia) ltac:(lia) ltac:(lia) He)
    as [A1 [A2 A3]].
  rewrite Z.mul_1_l in A2, A3. auto.
Qed.

Fixpoint zden (P : Z) (es : list nat) : Z :=
  match es with [] => 1 | e :: es' => zpw P e * zden P es' end.

Lemma zden_pos P es : 0 < P -> 0 < zden P es.
Proof. intros H. induction es as [|e es IH]; simpl; [lia|]. apply Z.mul_pos_pos; [apply zpw_pos|]; assumption. Qed.

Lemma iprod_spec P B n : 0 < P -> 0 < B -> forall Xs es, length Xs = length es ->
  (forall X, In X Xs -> 0 <= X) -> (forall e, In e es -> (e <= n)%nat) ->
  0 <= fst (iprod (map (itab P B n) Xs) es) /\
  fst (iprod (map (itab P B n) Xs) es) * zden P es <= zpw B (length es) * znum Xs es /\
  zpw B (length es) * znum Xs es <= snd (iprod (map (itab P B n) Xs) es) * zden P es.
Proof.
  intros HP HB. induction Xs as [|X Xs IH]; intros [|e es] Hl HX He; try discriminate.
  - simpl. repeat split; lia.
  - simpl in Hl.
    destruct (IH es ltac:(lia) (fun x Hx => HX x (or_intror Hx)) (fun x Hx => He x (or_intror Hx)))
      as [B1 [B2 B3]].
    destruct (itab_spec P B n X e HP HB (HX X (or_introl eq_refl)) (He e (or_introl eq_refl)))
      as [A1 [A2 A3]].
    change (iprod (map (itab P B n) (X :: Xs)) (e :: es)) with
      (fst (nth e (itab P B n X) (0, 0)) * fst (iprod (map (itab P B n) Xs) es),
       snd (nth e (itab P B n X) (0, 0)) * snd (iprod (map (itab P B n) Xs) es)).
    set (l := fst (nth e (itab P B n X) (0, 0))) in *.
    set (h := snd (nth e (itab P B n X) (0, 0))) in *.
    set (L := fst (iprod (map (itab P B n) Xs) es)) in *.
    set (H := snd (iprod (map (itab P B n) Xs) es)) in *.
    pose proof (zpw_pos P e HP) as Pe. pose proof (zden_pos P es HP) as De.
    simpl fst. simpl snd. simpl length. simpl zpw. simpl znum. simpl zden.
    split; [apply Z.mul_nonneg_nonneg; assumption|]. split.
    + replace (l * L * (zpw P e * zden P es)) with ((l * zpw P e) * (L * zden P es)) by ring.
      replace (B * zpw B (length es) * (zpw X e * znum Xs es))
        with ((B * zpw X e) * (zpw B (length es) * znum Xs es)) by ring.
      apply mul_le_4; try assumption; apply Z.mul_nonneg_nonneg; lia.
    + replace (h * H * (zpw P e * zden P es)) with ((h * zpw P e) * (H * zden P es)) by ring.
      replace (B * zpw B (length es) * (zpw X e * znum Xs es))
        with ((B * zpw X e) * (zpw B (length es) * znum Xs es)) by ring.
      apply mul_le_4; try assumption.
      * apply Z.le_trans with (l * zpw P e); [apply Z.mul_nonneg_nonneg; lia|assumption].
      * apply Z.le_trans with (L * zden P es); [apply Z.mul_nonneg_nonneg; lia|assumption].
Qed.

Lemma isum_spec P B n es : 0 < P -> 0 < B -> (forall e, In e es -> (e <= n)%nat) -> forall N,
  (forall nd, In nd N -> length (fst nd) = length es /\ (forall X, In X (fst nd) -> 0 <= X)) ->
  fst (isum (map (fun nd => (map (itab P B n) (fst nd), snd nd)) N) es) * zden P es
    <= zpw B (length es) * zsum N es /\
  zpw B (length es) * zsum N es
    <= snd (isum (map (fun nd => (map (itab P B n) (fst nd), snd nd)) N) es) * zden P es.
Proof.
  intros HP HB He. induction N as [|nd N IH]; intros HN.
  - simpl. lia.
  - destruct (IH (fun x Hx => HN x (or_intror Hx))) as [I1 I2].
    destruct (HN nd (or_introl eq_refl)) as [Hl HX].
    destruct (iprod_spec P B n HP HB (fst nd) es Hl HX He) as [_ [P1 P2]].
    simpl map. simpl isum. simpl zsum. cbn [fst snd].
    set (LH := iprod (map (itab P B n) (fst nd)) es) in *.
    set (S := isum (map (fun nd0 => (map (itab P B n) (fst nd0), snd nd0)) N) es) in *.
    set (D := zden P es) in *. set (Bd := zpw B (length es)) in *.
    set (zn := znum (fst nd) es) in *. set (zs := zsum N es) in *. set (W := snd nd) in *.
    destruct (0 <=? W) eqn:HW; cbn [fst snd].
    + apply Z.leb_le in HW. split.
      * replace ((W * fst LH + fst S) * D) with (W * (fst LH * D) + fst S * D) by ring.
        replace (Bd * (W * zn + zs)) with (W * (Bd * zn) + Bd * zs) by ring.
        apply Z.add_le_mono; [apply Z.mul_le_mono_nonneg_l; assumption|assumption].
      * replace ((W * snd LH + snd S) * D) with (W * (snd LH * D) + snd S * D) by ring.
        replace (Bd * (W * zn + zs)) with (W * (Bd * zn) + Bd * zs) by ring.
        apply Z.add_le_mono; [apply Z.mul_le_mono_nonneg_l; assumption|assumption].
    + apply Z.leb_gt in HW. split.
      * replace ((W * snd LH + fst S) * D) with (W * (snd LH * D) + fst S * D) by ring.
        replace (Bd * (W * zn + zs)) with (W * (Bd * zn) + Bd * zs) by ring.
        apply Z.add_le_mono; [apply Z.mul_le_mono_nonpos_l; [lia|assumption]|assumption].
      * replace ((W * fst LH + snd S) * D) with (W * (fst LH * D) + snd S * D) by ring.
        replace (Bd * (W * zn + zs)) with (W * (Bd * zn) + Bd * zs) by ring.
        apply Z.add_le_mono; [apply Z.mul_le_mono_nonpos_l; [lia|assumption]|assumption].
Qed.

Lemma Zpos_ppow s e : Zpos (ppow s e) = zpw (Zpos s) e.
Proof. induction e as [|e IH]; [reflexivity|]. simpl. rewrite Pos2Z.inj_mul, IH. reflexivity. Qed.

Lemma Zpos_pden s es : Zpos (pden s es) = zden (Zpos s) es.
Proof. induction es as [|e es IH]; [reflexivity|]. simpl. rewrite Pos2Z.inj_mul, IH, Zpos_ppow. reflexivity. Qed.

Lemma stab_from_eq k P X : 0 <= k -> P = 2 ^ k -> forall n lo hi,
  stab_from k P X lo hi n = itab_from P X lo hi n.
Proof.
  intros Hk HP. induction n as [|n IH]; intros lo hi; [reflexivity|]. simpl.
  rewrite IH. unfold sstep_lo, sstep_hi, pstep_lo, pstep_hi.
  rewrite !Z.shiftr_div_pow2 by exact Hk. rewrite <- HP. reflexivity.
Qed.

Lemma itab_fast_eq P B n X : 0 < P -> itab_fast P B n X = itab P B n X.
Proof.
  intros HP. unfold itab_fast. destruct (2 ^ Z.log2 P =? P) eqn:E; [|reflexivity].
  apply Z.eqb_eq in E. unfold itab. apply stab_from_eq; [apply Z.log2_nonneg|now symmetry].
Qed.

Lemma nodes_nonneg_sound r : nodes_nonneg r = true ->
  forall nd, In nd (nodes r) -> forall X, In X (fst nd) -> 0 <= X.
Proof.
  intros H nd Hnd X HX. unfold nodes_nonneg in H.
  pose proof (proj1 (all_b_forall _ _) H nd Hnd) as H1. simpl in H1.
  pose proof (proj1 (all_b_forall _ _) H1 X HX) as H2. simpl in H2. now apply Z.leb_le.
Qed.

Lemma imono_ok_sound s r n tol Bp es : nodes_ok s r = true -> nodes_nonneg r = true ->
  imono_ok s r n tol Bp
    (map (fun nd => (map (itab (Zpos (sx r)) (Zpos Bp) n) (fst nd), snd nd)) (nodes r)) es = true ->
  (Qabs (qrule_sum (toQ r) es - exactQ s es) <= tol)%Q.
Proof.
  intros Hn Hnn H. unfold imono_ok in H.
  apply andb_true_iff in H. destruct H as [H H3]. apply andb_true_iff in H. destruct H as [H1 H2].
  apply Nat.eqb_eq in H2. apply andb_true_iff in H3. destruct H3 as [HL HU].
  apply Qle_bool_iff in HL. apply Qle_bool_iff in HU.
  assert (He : forall e, In e es -> (e <= n)%nat)
    by (intros e Hin; apply Nat.leb_le; exact (proj1 (all_b_forall _ _) H1 e Hin)).
  assert (HN : forall nd, In nd (nodes r) -> length (fst nd) = length es /\ (forall X, In X (fst nd) -> 0 <= X)).
  { intros nd Hnd. split; [rewrite H2; apply (nodes_ok_len s r Hn nd Hnd)|].
    apply (nodes_nonneg_sound r Hnn nd Hnd). }
  destruct (isum_spec (Zpos (sx r)) (Zpos Bp) n es ltac:(lia) ltac:(lia) He (nodes r) HN) as [S1 S2].
  set (S := isum (map (fun nd => (map (itab (Zpos (sx r)) (Zpos Bp) n) (fst nd), snd nd)) (nodes r)) es) in *.
  rewrite <- Zpos_pden in S1, S2. rewrite <- Zpos_ppow in S1, S2.
  assert (E : (qrule_sum (toQ r) es == zsum (nodes r) es # (sw r * pden (sx r) es))%Q).
  { unfold toQ. apply qrule_sum_make. intros nd Hnd. apply (HN nd Hnd). }
  rewrite E.
  set (zs := zsum (nodes r) es) in *. set (pd := pden (sx r) es) in *.
  set (Bd := ppow Bp (length es)) in *.
  assert (Q1 : (fst S # (sw r * Bd) <= zs # (sw r * pd))%Q).
  { unfold Qle. simpl. rewrite !Pos2Z.inj_mul.
    replace (fst S * (Zpos (sw r) * Zpos pd)) with (Zpos (sw r) * (fst S * Zpos pd)) by ring.
    replace (zs * (Zpos (sw r) * Zpos Bd)) with (Zpos (sw r) * (Zpos Bd * zs)) by ring.
    apply Z.mul_le_mono_nonneg_l; [lia|exact S1]. }
  assert (Q2 : (zs # (sw r * pd) <= snd S # (sw r * Bd))%Q).
  { unfold Qle. simpl. rewrite !Pos2Z.inj_mul.
    replace (snd S * (Zpos (sw r) * Zpos pd)) with (Zpos (sw r) * (snd S * Zpos pd)) by ring.
    replace (zs * (Zpos (sw r) * Zpos Bd)) with (Zpos (sw r) * (Zpos Bd * zs)) by ring.
    apply Z.mul_le_mono_nonneg_l; [lia|exact S2]. }
  apply Qabs_Qle_condition.
  set (sigma := (zs # (sw r * pd))%Q) in *. set (a := (fst S # (sw r * Bd))%Q) in *.
  set (b := (snd S # (sw r * Bd))%Q) in *. set (I := exactQ s es) in *.
  split; lra.
Qed.

Theorem icheck_parts_sound s r n tol Bp (parts : list (list (list nat))) :
  nodes_ok s r = true -> nodes_nonneg r = true -> monos s n = concat parts ->
  Forall (fun ms => icheck_part s r n tol Bp ms = true) parts ->
  rule_okQ s (toQ r) n tol.
Proof.
  intros Hn Hnn Hm Hp. split; [apply nodes_ok_sound; exact Hn|].
  intros es Hl Hd. pose proof (monos_complete s n es Hl Hd) as Hin.
  rewrite Hm in Hin. apply in_concat in Hin. destruct Hin as [ms [Hms Hes]].
  rewrite Forall_forall in Hp. specialize (Hp ms Hms). unfold icheck_part in Hp.
  apply (imono_ok_sound s r n tol Bp es Hn Hnn).
  pose proof (proj1 (all_b_forall _ _) Hp es Hes) as Hq. simpl in Hq.
  erewrite map_ext; [exact Hq|]. intros nd. simpl. f_equal. apply map_ext. intros X.
  symmetry. apply itab_fast_eq. lia.
Qed.

Theorem icheck_rule_sound s r n tol Bp : icheck_rule s r n tol Bp = true -> rule_okQ s (toQ r) n tol.
Proof.
  intros H. unfold icheck_rule in H. apply andb_true_iff in H. destruct H as [H Hp].
  apply andb_true_iff in H. destruct H as [Hn Hnn].
  apply (icheck_parts_sound s r n tol Bp [monos s n]); [exact Hn|exact Hnn| |].
  - simpl. now rewrite app_nil_r.
  - constructor; [exact Hp|constructor].
Qed.
