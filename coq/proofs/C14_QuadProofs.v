(* C14 — the diagonal split of a strictly convex quadrilateral tiles it (ordered-field reasoning over Q).
   orient a b c is twice the signed area of the triangle (a, b, c); a point p is in the closed quadrilateral
   v0 v1 v2 v3 (cyclic order, orientation sign s) iff the four edge functionals s * orient vi vi+1 p are >= 0. *)
From Coq Require Import QArith Lia.
Local Open Scope Q_scope.

Definition orient (ax ay bx by_ cx cy : Q) : Q := (bx - ax) * (cy - ay) - (by_ - ay) * (cx - ax).

Lemma pos_mul_nonneg : forall d e : Q, 0 < d -> 0 <= d * e -> 0 <= e.
Proof.
  intros d e Hd H. apply (Qmult_lt_0_le_reg_r 0 e d Hd).
  setoid_replace (0 * d) with 0 by ring. setoid_replace (e * d) with (d * e) by ring. exact H.
Qed.

Lemma nonneg_sum_prod : forall a b c d : Q, 0 <= a -> 0 <= b -> 0 <= c -> 0 <= d -> 0 <= a * b + c * d.
Proof.
  intros a b c d Ha Hb Hc Hd.
  setoid_replace 0 with (0 + 0) by ring. apply Qplus_le_compat; apply Qmult_le_0_compat; assumption.
Qed.

Section Quad.
  Variables x0 y0 x1 y1 x2 y2 x3 y3 : Q.     (* the vertices in cyclic order *)
  Variable s : Q.                            (* orientation: 1 (counter-clockwise) or -1 *)
  Hypothesis Hs : s * s == 1.
  (* strict convexity: the four corner triangles have the orientation s *)
  Hypothesis H012 : 0 < s * orient x0 y0 x1 y1 x2 y2.
  Hypothesis H013 : 0 < s * orient x0 y0 x1 y1 x3 y3.
  Hypothesis H023 : 0 < s * orient x0 y0 x2 y2 x3 y3.
  Hypothesis H123 : 0 < s * orient x1 y1 x2 y2 x3 y3.

  Definition in_quad (px py : Q) : Prop :=
    0 <= s * orient x0 y0 x1 y1 px py /\ 0 <= s * orient x1 y1 x2 y2 px py /\
    0 <= s * orient x2 y2 x3 y3 px py /\ 0 <= s * orient x3 y3 x0 y0 px py.
  (* the two triangles of to_meshtri: local vertices [0, 1, 3] and [1, 2, 3] *)
  Definition in_T013 (px py : Q) : Prop :=
    0 <= s * orient x0 y0 x1 y1 px py /\ 0 <= s * orient x1 y1 x3 y3 px py /\ 0 <= s * orient x3 y3 x0 y0 px py.
  Definition in_T123 (px py : Q) : Prop :=
    0 <= s * orient x1 y1 x2 y2 px py /\ 0 <= s * orient x2 y2 x3 y3 px py /\ 0 <= s * orient x3 y3 x1 y1 px py.

  Lemma ss (a b : Q) : (s * a) * (s * b) == a * b.
  Proof. setoid_replace ((s * a) * (s * b)) with ((s * s) * (a * b)) by ring. rewrite Hs. ring. Qed.

  Lemma T013_in_quad : forall px py, in_T013 px py -> in_quad px py.
  Proof.
    intros px py [E01 [D13 E30]]. unfold in_quad. split; [exact E01|]. split; [|split; [|exact E30]].
    - apply (pos_mul_nonneg _ _ H013).
      assert (I : (s * orient x0 y0 x1 y1 x3 y3) * (s * orient x1 y1 x2 y2 px py)
                  == (s * orient x1 y1 x3 y3 px py) * (s * orient x0 y0 x1 y1 x2 y2)
                     + (s * orient x0 y0 x1 y1 px py) * (s * orient x1 y1 x2 y2 x3 y3)).
      { rewrite !ss. unfold orient. ring. }
      rewrite I. apply nonneg_sum_prod; try assumption; apply Qlt_le_weak; assumption.
    - apply (pos_mul_nonneg _ _ H013).
      assert (I : (s * orient x0 y0 x1 y1 x3 y3) * (s * orient x2 y2 x3 y3 px py)
                  == (s * orient x1 y1 x3 y3 px py) * (s * orient x0 y0 x2 y2 x3 y3)
                     + (s * orient x3 y3 x0 y0 px py) * (s * orient x1 y1 x2 y2 x3 y3)).
      { rewrite !ss. unfold orient. ring. }
      rewrite I. apply nonneg_sum_prod; try assumption; apply Qlt_le_weak; assumption.
  Qed.

  Lemma T123_in_quad : forall px py, in_T123 px py -> in_quad px py.
  Proof.
    intros px py [E12 [E23 D31]]. unfold in_quad. split; [|split; [exact E12|split; [exact E23|]]].
    - apply (pos_mul_nonneg _ _ H123).
      assert (I : (s * orient x1 y1 x2 y2 x3 y3) * (s * orient x0 y0 x1 y1 px py)
                  == (s * orient x3 y3 x1 y1 px py) * (s * orient x0 y0 x1 y1 x2 y2)
                     + (s * orient x1 y1 x2 y2 px py) * (s * orient x0 y0 x1 y1 x3 y3)).
      { rewrite !ss. unfold orient. ring. }
      rewrite I. apply nonneg_sum_prod; try assumption; apply Qlt_le_weak; assumption.
    - apply (pos_mul_nonneg _ _ H123).
      assert (I : (s * orient x1 y1 x2 y2 x3 y3) * (s * orient x3 y3 x0 y0 px py)
                  == (s * orient x2 y2 x3 y3 px py) * (s * orient x0 y0 x1 y1 x3 y3)
                     + (s * orient x3 y3 x1 y1 px py) * (s * orient x0 y0 x2 y2 x3 y3)).
      { rewrite !ss. unfold orient. ring. }
      rewrite I. apply nonneg_sum_prod; try assumption; apply Qlt_le_weak; assumption.
  Qed.

  Lemma orient_swap_13 : forall px py, s * orient x3 y3 x1 y1 px py == - (s * orient x1 y1 x3 y3 px py).
  Proof. intros. unfold orient. ring. Qed.

  (* the two triangles cover the quadrilateral ... *)
  Theorem quad_split_covers : forall px py, in_quad px py <-> in_T013 px py \/ in_T123 px py.
  Proof.
    intros px py. split.
    - intros [E01 [E12 [E23 E30]]].
      destruct (Qlt_le_dec (s * orient x1 y1 x3 y3 px py) 0) as [Hneg|Hpos].
      + right. repeat split; try assumption. rewrite orient_swap_13.
        apply Qlt_le_weak. setoid_replace 0 with (- 0) by ring. now apply Qopp_lt_compat.
      + left. repeat split; assumption.
    - intros [H|H]; [now apply T013_in_quad | now apply T123_in_quad].
  Qed.

  (* ... and meet only in the diagonal v1 v3 *)
  Theorem quad_split_overlap_on_diagonal : forall px py,
      in_T013 px py -> in_T123 px py -> orient x1 y1 x3 y3 px py == 0.
  Proof.
    intros px py [_ [D13 _]] [_ [_ D31]]. rewrite orient_swap_13 in D31.
    assert (Z : s * orient x1 y1 x3 y3 px py == 0).
    { apply Qle_antisym; [|exact D13]. setoid_replace 0 with (- 0) by ring.
      setoid_replace (s * orient x1 y1 x3 y3 px py) with (- - (s * orient x1 y1 x3 y3 px py)) by ring.
      now apply Qopp_le_compat. }
    setoid_replace (orient x1 y1 x3 y3 px py) with ((s * s) * orient x1 y1 x3 y3 px py) by (rewrite Hs; ring).
    setoid_replace (s * s * orient x1 y1 x3 y3 px py) with (s * (s * orient x1 y1 x3 y3 px py)) by ring.
    rewrite Z. ring.
  Qed.

  Theorem quad_split_tiles : forall px py,
      (in_quad px py <-> in_T013 px py \/ in_T123 px py) /\
      (in_T013 px py -> in_T123 px py -> orient x1 y1 x3 y3 px py == 0).
  Proof. intros px py. split; [apply quad_split_covers | apply quad_split_overlap_on_diagonal]. Qed.
End Quad.

(* a triangle (a, b, c) of orientation s: the point is a convex combination of the vertices iff the three edge
   functionals are >= 0 (barycentric coordinates = s*orient / (s*D)) *)
Section Tri.
  Variables ax ay bx by_ cx cy s : Q.
  Hypothesis Hs : s * s == 1.
  Hypothesis HD : 0 < s * orient ax ay bx by_ cx cy.

  Lemma tri_comb_to_orient : forall l0 l1 l2 px py,
      0 <= l0 -> 0 <= l1 -> 0 <= l2 -> l0 + l1 + l2 == 1 ->
      px == l0 * ax + l1 * bx + l2 * cx -> py == l0 * ay + l1 * by_ + l2 * cy ->
      0 <= s * orient ax ay bx by_ px py /\ 0 <= s * orient bx by_ cx cy px py /\ 0 <= s * orient cx cy ax ay px py.
  Proof.
    intros l0 l1 l2 px py G0 G1 G2 Gs Ex Ey.
    assert (E0 : l0 == 1 - l1 - l2) by (rewrite <- Gs; ring).
    assert (A : s * orient ax ay bx by_ px py == l2 * (s * orient ax ay bx by_ cx cy)).
    { unfold orient. rewrite Ex, Ey, E0. ring. }
    assert (B : s * orient bx by_ cx cy px py == l0 * (s * orient ax ay bx by_ cx cy)).
    { unfold orient. rewrite Ex, Ey. setoid_replace l1 with (1 - l0 - l2) by (rewrite <- Gs; ring). ring. }
    assert (C : s * orient cx cy ax ay px py == l1 * (s * orient ax ay bx by_ cx cy)).
    { unfold orient. rewrite Ex, Ey, E0. ring. }
    rewrite A, B, C. repeat split; apply Qmult_le_0_compat; try assumption; apply Qlt_le_weak; exact HD.
  Qed.

  Lemma tri_orient_to_comb : forall px py,
      0 <= s * orient ax ay bx by_ px py -> 0 <= s * orient bx by_ cx cy px py -> 0 <= s * orient cx cy ax ay px py ->
      exists l0 l1 l2, 0 <= l0 /\ 0 <= l1 /\ 0 <= l2 /\ l0 + l1 + l2 == 1 /\
        px == l0 * ax + l1 * bx + l2 * cx /\ py == l0 * ay + l1 * by_ + l2 * cy.
  Proof.
    intros px py A B C. set (D := s * orient ax ay bx by_ cx cy) in *.
    assert (Dnz : ~ D == 0) by (intros E; rewrite E in HD; discriminate HD).
    assert (Hinv : 0 < / D) by (now apply Qinv_lt_0_compat).
    exists (s * orient bx by_ cx cy px py / D), (s * orient cx cy ax ay px py / D), (s * orient ax ay bx by_ px py / D).
    assert (Hnn : forall e, 0 <= e -> 0 <= e / D) by (intros e He; apply Qmult_le_0_compat; [exact He | now apply Qlt_le_weak]).
    split; [now apply Hnn|]. split; [now apply Hnn|]. split; [now apply Hnn|].
    assert (Snz : ~ s == 0) by (intros E; rewrite E in Hs; discriminate Hs).
    assert (Onz : ~ orient ax ay bx by_ cx cy == 0).
    { intros E. apply Dnz. unfold D. rewrite E. ring. }
    unfold D. unfold orient in *. repeat split; field; split; assumption.
  Qed.
End Tri.
