(* C05 extensions, proofs: repeated indices denote a set; enforce / penalize are right on CSR storage with duplicate
   entries (no assumption on the rows at all), at the level of the dense semantics. *)
From Coq Require Import List ZArith Bool Arith Lia Ring.
Import ListNotations.
Require Import Base.C05_Np Model.C05_BC Model.C05_Ext Proofs.C05_IdxProofs Proofs.C05_CondenseProofs Proofs.C05_EnforceProofs
               Proofs.C05_PenalizeProofs.

(* ------------------------------------------------------------------ dedup_first *)
Lemma in_dedup_aux seen l x : In x (dedup_first_aux seen l) <-> In x l /\ ~ In x seen.
Proof.
  revert seen; induction l as [|y l IH]; intros seen; simpl; [tauto|].
  destruct (memb y seen) eqn:E.
  - apply memb_In in E. rewrite IH. split; [tauto|]. intros [[->|H] Hn]; tauto.
  - apply memb_false in E. simpl. rewrite IH. simpl. split.
    + intros [->|[H1 H2]]; tauto.
    + intros [[->|H] Hn]; [tauto|]. destruct (Nat.eq_dec y x) as [->|Hne]; [tauto|]. right. split; [assumption|]. intros [H'|H']; tauto.
Qed.
Lemma dedup_aux_NoDup seen l : NoDup (dedup_first_aux seen l).
Proof.
  revert seen; induction l as [|y l IH]; intros seen; simpl; [constructor|].
  destruct (memb y seen); [apply IH|]. constructor; [|apply IH].
  rewrite in_dedup_aux. simpl. tauto.
Qed.
Theorem dedup_first_set n S :
  (forall c, In c S -> c < n) -> given_ok n (dedup_first S) /\ forall c, In c (dedup_first S) <-> In c S.
Proof.
  intros HB. assert (E : forall c, In c (dedup_first S) <-> In c S).
  { intros c. unfold dedup_first. rewrite in_dedup_aux. simpl. tauto. }
  split; [|exact E]. split; [apply dedup_aux_NoDup|]. intros c Hc. apply HB, E, Hc.
Qed.

Section Ext.
  Context {R : Type} (o : ring_ops R).
  Hypothesis Rth : ring_theory (r0 o) (r1 o) (radd o) (rmul o) (rsub o) (ropp o) (@eq R).
  Add Ring Rring7 : Rth.
  Local Notation "a [+] b" := (radd o a b) (at level 50, left associativity).
  Local Notation "a [*] b" := (rmul o a b) (at level 40, left associativity).
  Local Notation "a [-] b" := (rsub o a b) (at level 50, left associativity).
  Local Notation zero := (r0 o).

  (* ---------------------------------------------------------------- any index list: the set it denotes *)
  Variable flat : list nat -> list nat.     (* the array branch of _flatten_dofs, regenerated from the source *)
  Definition flat_correct : Prop :=
    forall n S, (forall c, In c S -> c < n) -> given_ok n (flat S) /\ forall c, In c (flat S) <-> In c S.
  Hypothesis flat_ok : flat_correct.
  Definition sel_bounded (n : nat) (s : option (list nat)) : Prop := forall S, s = Some S -> forall c, In c S -> c < n.

  Lemma flat_given n (s : option (list nat)) : sel_bounded n s -> forall S, option_map flat s = Some S -> given_ok n S.
  Proof.
    intros Hb S E. destruct s as [S0|]; simpl in E; [|discriminate]. injection E as <-. apply (flat_ok n S0). now apply Hb.
  Qed.

  Theorem init_bc_any n Iraw Draw I D :
    sel_bounded n Iraw -> sel_bounded n Draw ->
    init_bc n (option_map flat Iraw) (option_map flat Draw) = Some (I, D) ->
    split_ok n I D /\
    (forall S, Iraw = Some S -> forall c, In c I <-> In c S) /\
    (forall S, Draw = Some S -> forall c, In c D <-> In c S).
  Proof.
    intros HI HD E. split; [|split].
    - eapply init_bc_split; eauto using flat_given.
    - intros S -> c. destruct Draw; simpl in E; [discriminate|]. injection E as <- _. apply (flat_ok n S). now apply (HI S).
    - intros S -> c. destruct Iraw; simpl in E; [discriminate|]. injection E as _ <-. apply (flat_ok n S). now apply (HD S).
  Qed.

  Theorem condense_expand_sound_any (A : list (list (nat * R))) (b x : list R) Iraw Draw I D z :
    length x = length A -> rows_in_range (length A) A ->
    sel_bounded (length A) Iraw -> sel_bounded (length A) Draw ->
    init_bc (length A) (option_map flat Iraw) (option_map flat Draw) = Some (I, D) ->
    length z = length I ->
    matvec o (condense_A A I) z = condense_b o A b x I D ->
    (forall S, Iraw = Some S -> forall c, In c I <-> In c S) /\
    (forall S, Draw = Some S -> forall c, In c D <-> In c S) /\
    split_ok (length A) I D /\
    length (expand x I z) = length A /\
    (forall d, In d D -> vnth o (expand x I z) d = vnth o x d) /\
    (forall i, In i I -> vnth o (matvec o A (expand x I z)) i = vnth o b i).
  Proof.
    intros Hx HA HI HD E Hz Hs. destruct (init_bc_any (length A) Iraw Draw I D HI HD E) as (HS & E1 & E2).
    split; [exact E1|]. split; [exact E2|]. split; [exact HS|].
    exact (condense_expand_sound_core o Rth (length A) A b x I D z Hx HA HS Hz Hs).
  Qed.

  (* ---------------------------------------------------------------- setdiag on arbitrary storage *)
  Lemma row_dot_filter_out (r : list (nat * R)) i y :
    row_dot o (filter (fun cv => negb (Nat.eqb (fst cv) i)) r) y = row_dot o r y [-] dense_entry o r i [*] vnth o y i.
  Proof.
    induction r as [|[c v] r IH]; simpl; [ring|]. destruct (Nat.eqb c i) eqn:E; simpl; rewrite IH.
    - apply Nat.eqb_eq in E. subst. ring.
    - ring.
  Qed.
  (* for EVERY row (duplicates, explicit zeros, any order): new row = old row - a_ii e_i + v e_i *)
  Lemma row_dot_setdiag_sum (r : list (nat * R)) i v y :
    row_dot o (setdiag_row_sum i v r) y = v [*] vnth o y i [+] (row_dot o r y [-] dense_entry o r i [*] vnth o y i).
  Proof. unfold setdiag_row_sum. rewrite (row_dot_app o Rth), row_dot_filter_out. simpl. ring. Qed.

  Lemma dense_entry_zero_row (r : list (nat * R)) i : dense_entry o (zero_row o r) i = zero.
  Proof. rewrite (dense_entry_as_dot o Rth). apply (row_dot_zero_row o Rth). Qed.

  Lemma mrow_msetdiag_sum (M : list (list (nat * R))) d i :
    i < length M -> length d = length M -> mrow (msetdiag_sum o M d) i = setdiag_row_sum i (vnth o d i) (mrow M i).
  Proof.
    intros H Hd. unfold mrow, msetdiag_sum. rewrite (nth_map2_seq _ M 0 i []) by assumption. simpl.
    assert (E : (i <? length d) = true) by (apply Nat.ltb_lt; lia). now rewrite E.
  Qed.
  Lemma msetdiag_sum_length (M : list (list (nat * R))) d : length (msetdiag_sum o M d) = length M.
  Proof. apply map2_seq_length. Qed.

  Variable posf : list Z -> list Z -> option (list Z).
  Hypothesis posf_ok : posf_correct posf.

  (* enforce on CSR storage with arbitrary (also duplicate) entries: the dense semantics of the result *)
  Theorem enforce_any_storage n (A : csr R) D diag :
    csr_valid0 n A -> (forall d, In d D -> d < n) ->
    exists M', enforce_matrix_sum o posf A D diag = Some M' /\ length M' = n /\
      (forall d, In d D -> forall y, row_dot o (mrow M' d) y = diag [*] vnth o y d) /\
      (forall i, i < n -> ~ In i D -> forall y, row_dot o (mrow M' i) y = row_dot o (csr_row A i) y).
  Proof.
    intros HA HD.
    assert (Hn : csr_nrows (zeroed_csr o A D) = n) by (unfold csr_nrows; simpl; apply (csr_nrows_valid n A HA)).
    assert (Hlen : @length (list (nat * R)) (csr_rows (zeroed_csr o A D)) = n)
      by (unfold csr_rows; now rewrite map_length, seq_length, Hn).
    eexists. split; [|split; [|split]].
    - unfold enforce_matrix_sum. rewrite (enforce_zeroed_ok o posf posf_ok n) by assumption. reflexivity.
    - now rewrite msetdiag_sum_length.
    - intros d Hd y. pose proof (HD d Hd) as Hdn.
      rewrite mrow_msetdiag_sum by (rewrite ?vset_const_length, ?mdiag_length; lia).
      rewrite vset_const_in by (rewrite ?mdiag_length; auto; lia).
      rewrite mrow_csr_rows by lia. rewrite (zeroed_row_in o n) by auto.
      rewrite row_dot_setdiag_sum. change (map (fun cv : nat * R => (fst cv, zero)) (csr_row A d)) with (zero_row o (csr_row A d)).
      rewrite (row_dot_zero_row o Rth), dense_entry_zero_row. ring.
    - intros i Hi Hni y.
      rewrite mrow_msetdiag_sum by (rewrite ?vset_const_length, ?mdiag_length; lia).
      rewrite vset_const_notin by assumption. rewrite (vnth_mdiag o) by lia.
      rewrite mrow_csr_rows by lia. rewrite (zeroed_row_out o n) by assumption.
      rewrite row_dot_setdiag_sum. ring.
  Qed.

  Theorem penalize_any_storage (M : list (list (nat * R))) D w (y : list R) :
    (forall d, In d D -> d < length M) ->
    length (penalize_matrix_sum o M D w) = length M /\
    (forall d, In d D ->
       row_dot o (mrow (penalize_matrix_sum o M D w) d) y
       = w [*] vnth o y d [+] (row_dot o (mrow M d) y [-] dense_entry o (mrow M d) d [*] vnth o y d)) /\
    (forall i, i < length M -> ~ In i D -> row_dot o (mrow (penalize_matrix_sum o M D w) i) y = row_dot o (mrow M i) y).
  Proof.
    intros HD. unfold penalize_matrix_sum. split; [apply msetdiag_sum_length|]. split.
    - intros d Hd. pose proof (HD d Hd).
      rewrite mrow_msetdiag_sum by (rewrite ?vset_const_length, ?mdiag_length; lia).
      rewrite vset_const_in by (rewrite ?mdiag_length; auto). apply row_dot_setdiag_sum.
    - intros i Hi Hni.
      rewrite mrow_msetdiag_sum by (rewrite ?vset_const_length, ?mdiag_length; lia).
      rewrite vset_const_notin by assumption. rewrite (vnth_mdiag o) by assumption.
      rewrite row_dot_setdiag_sum. ring.
  Qed.
End Ext.
