(* C13 — invariants of the model of the work-list loop of MeshTet1._adaptive (any re-ordering of the marked cells).
   Termination and conformity of the final mesh are NOT proved. *)
From Coq Require Import List Arith Bool Lia ZArith QArith.
Import ListNotations.
Require Import Model.C12_Refine Model.C13_Adaptive Model.C13_TetLoop Proofs.C12_RefineProofs.
Local Open Scope nat_scope.

Lemma set_nth_length {A} k (x : A) l : length (set_nth k x l) = length l.
Proof. revert k; induction l as [|y l IH]; intros [|k]; simpl; auto. Qed.

Lemma set_many_length {A} (kx : list (nat * A)) : forall l, length (set_many l kx) = length l.
Proof.
  unfold set_many. induction kx as [|a kx IH]; intros l; simpl; [reflexivity|]. now rewrite IH, set_nth_length.
Qed.

Lemma index_of_In x l : (exists i, index_of x l = Some i) <-> In x l.
Proof.
  induction l as [|y l IH]; simpl; [split; [intros [i H]; discriminate | intros []]|].
  destruct (Nat.eqb x y) eqn:E.
  - apply Nat.eqb_eq in E. subst. split; [now left | intros _; now exists 0].
  - apply Nat.eqb_neq in E. rewrite <- IH. split.
    + intros [i H]. destruct (index_of x l) as [j|]; [right; now exists j | discriminate].
    + intros [H|[j H]]; [congruence|]. rewrite H. now exists (S j).
Qed.

Lemma memb_In x l : memb x l = true <-> In x l.
Proof.
  unfold memb. rewrite <- index_of_In. destruct (index_of x l) as [i|]; split; try discriminate; auto.
  - intros _. now exists i.
  - intros [i H]. discriminate.
Qed.

Section Iter.
  Variables (tpls : list (list nref)) (st : tstate) (marked : list nat) (perm : list (list nat)).
  Hypothesis Hperm : length perm = length marked.
  Let st' := tet_iter tpls st marked perm.

  (* each sweep adds exactly one cell per marked cell (the marked cell itself is overwritten by the other half) *)
  Theorem tet_iter_cells : length (ts_t st') = length (ts_t st) + length marked.
  Proof.
    unfold st', tet_iter. cbn [ts_t]. rewrite app_length, !set_many_length, map_length, combine_length, map_length, map_length.
    rewrite Hperm. lia.
  Qed.

  Theorem tet_iter_parent_length : length (ts_par st') = length (ts_par st) + length marked.
  Proof. unfold st', tet_iter. cbn [ts_par]. now rewrite app_length, map_length. Qed.

  (* parent array (fix 4dd9939): old entries unchanged; the cell appended for the i-th marked cell inherits the (original)
     parent of that cell *)
  Theorem tet_iter_parent k :
    (k < length (ts_par st) -> nth k (ts_par st') 0 = nth k (ts_par st) 0) /\
    (k < length marked -> nth (length (ts_par st) + k) (ts_par st') 0 = nth (nth k marked 0) (ts_par st) 0).
  Proof.
    unfold st', tet_iter. cbn [ts_par]. split; intros H.
    - now rewrite app_nth1.
    - rewrite app_nth2 by lia. replace (length (ts_par st) + k - length (ts_par st)) with k by lia.
      now rewrite (nth_map' _ _ 0 0) by exact H.
  Qed.

  (* old vertices keep index and position; the new nodes are midpoints of edges of the old point set *)
  Theorem tet_iter_old_vertices : firstn (length (ts_p st)) (ts_p st') = ts_p st.
  Proof.
    unfold st', tet_iter. cbn [ts_p]. rewrite firstn_app, Nat.sub_diag, firstn_all. simpl. now rewrite app_nil_r.
  Qed.

  Theorem tet_iter_new_nodes q : In q (skipn (length (ts_p st)) (ts_p st')) ->
    exists a b, q = midpoint 3 (ts_p st) [a; b].
  Proof.
    unfold st', tet_iter. cbn [ts_p]. rewrite skipn_app, Nat.sub_diag, skipn_all. simpl. intros H.
    apply in_map_iff in H. destruct H as [e [<- _]]. now exists (fst e), (snd e).
  Qed.

  (* the cell appended for the i-th marked cell is the second child of the bisection of the re-ordered cell along its
     edge (0, 1), at the node recorded for that edge *)
  Theorem tet_iter_appended_child i : i < length marked ->
    exists m, nth (length (ts_t st) + i) (ts_t st') [] = bis_child (nth i perm []) m (nth 1 tpls []).
  Proof.
    intros Hi. unfold st', tet_iter. cbn [ts_t].
    set (edges := map (fun c => edge_key (nth 0 c 0) (nth 1 c 0)) perm).
    match goal with |- context [combine perm ?tn] => set (tnew := tn) end.
    assert (Hl : length tnew = length perm) by (unfold tnew, edges; now rewrite !map_length).
    rewrite app_nth2 by (rewrite !set_many_length; lia). rewrite !set_many_length.
    replace (length (ts_t st) + i - length (ts_t st)) with i by lia.
    exists (nth i tnew 0).
    rewrite (nth_map' _ _ ([], 0) []) by (rewrite combine_length; lia).
    rewrite combine_nth by (symmetry; exact Hl). reflexivity.
  Qed.
End Iter.

(* the next work list is recomputed from vertex/cell incidence: exactly the cells that contain both end points of an edge
   that has been split (a hanging node sits on that edge of the cell) *)
Theorem nonconforming_spec st k :
  In k (nonconforming st) <->
  k < length (ts_t st) /\ exists a b m, In (a, b, m) (ts_sp st) /\ In a (nth k (ts_t st) []) /\ In b (nth k (ts_t st) []).
Proof.
  unfold nonconforming. rewrite filter_In, in_seq, existsb_exists. split.
  - intros [Hk [[[a b] m] [Hin Hm]]]. apply andb_true_iff in Hm. destruct Hm as [Ha Hb].
    split; [lia|]. exists a, b, m. rewrite <- !memb_In. auto.
  - intros [Hk [a [b [m [Hin [Ha Hb]]]]]]. split; [lia|]. exists (a, b, m). split; [exact Hin|].
    apply andb_true_iff. rewrite !memb_In. auto.
Qed.

(* whatever the loop returns (for ANY recorded re-orderings of matching lengths) the parent array has one entry per cell
   and the initial vertices are a prefix of the final ones *)
Definition tinv (p0 : list point) (st : tstate) : Prop :=
  length (ts_par st) = length (ts_t st) /\ firstn (length p0) (ts_p st) = p0.

Lemma tet_iter_inv tpls p0 st marked perm : length perm = length marked -> tinv p0 st -> tinv p0 (tet_iter tpls st marked perm).
Proof.
  intros Hp [H1 H2]. split.
  - rewrite tet_iter_cells, tet_iter_parent_length by exact Hp. lia.
  - eapply firstn_prefix_trans; [exact H2 | apply tet_iter_old_vertices].
Qed.
