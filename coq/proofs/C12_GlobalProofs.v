(* C12/C13 — global conformity (2-D).  With the facet tables computed by Mesh.build_entities (C11: facets are keyed by
   their sorted vertex tuple, t2f[k][a] numbers the tuple of local facet a of cell k) the pieces that the children of a
   cell leave on its local facet a are a function of the facet NUMBER alone.  Hence EVERY cell containing facet f cuts
   it in the same way — at the node created for f iff f is marked — and two cells sharing an old facet share its
   pieces: no hanging node anywhere in the mesh.  All meshes whose cells have pairwise distinct vertices. *)
From Coq Require Import List Arith Bool Lia.
Import ListNotations.
Require Import Base.C11_Unique Model.C11_Topo Proofs.C11_TopoProofs.
Require Import Model.C12_Refine Model.C12_Global Model.C13_Adaptive Proofs.C12_RefineProofs Proofs.C13_AdaptiveProofs.
Local Open Scope nat_scope.

Lemma c11_t2f_entry cells rf k a : k < length cells -> a < length rf ->
  nth a (nth k (tb_t2f (c11_tables cells rf)) []) 0 = t2f_at cells rf a k.
Proof.
  intros Hk Ha. unfold c11_tables, t2f_at. cbn [tb_t2f].
  rewrite (nth_seq_map _ (length cells) k []) by exact Hk.
  now rewrite (nth_seq_map _ (length rf) a 0) by exact Ha.
Qed.

Lemma isort2 x y : isort [x; y] = if x <=? y then [x; y] else [y; x].
Proof. reflexivity. Qed.

(* slot table of a 2-D cell type: every local facet is a pair of different local vertices *)
Definition rf2_ok (nn : nat) (rf : list (list nat)) : Prop :=
  forall a, a < length rf -> exists i j, nth a rf [] = [i; j] /\ i <> j /\ i < nn /\ j < nn.

Section Global.
  Variables (cells rf : list (list nat)) (nn : nat).
  Hypothesis Hrf : rf2_ok nn rf.
  Hypothesis Hcells : Forall (fun c => NoDup c /\ length c = nn) cells.
  Let tb := c11_tables cells rf.

  (* C11: the facet with the number t2f[k][a] is the sorted pair of the end points of local facet a of cell k *)
  Lemma facet_of_slot k a : k < length cells -> a < length rf ->
    let f := nth a (cf (cell_ctx tb k)) 0 in
    let lf := nth a rf [] in
    let u := nth (nth 0 lf 0) (cv (cell_ctx tb k)) 0 in let v := nth (nth 1 lf 0) (cv (cell_ctx tb k)) 0 in
    f < length (tb_facets tb) /\ u <> v /\
    nth f (tb_facets tb) [] = (if u <=? v then [u; v] else [v; u]).
  Proof.
    intros Hk Ha f lf u v.
    assert (Ef : f = t2f_at cells rf a k) by (unfold f, cell_ctx; cbn [cf]; apply c11_t2f_entry; assumption).
    assert (Efac : tb_facets tb = entities true cells rf) by reflexivity.
    assert (Ecv : cv (cell_ctx tb k) = nth k cells []) by reflexivity.
    rewrite Efac, Ef.
    split; [now apply t2f_bound|].
    destruct (Hrf a Ha) as [i [j [Elf [Hij [Hi Hj]]]]].
    rewrite Forall_forall in Hcells. destruct (Hcells (nth k cells []) (nth_In _ _ Hk)) as [Hnd Hlen].
    assert (Eu : u = nth i (nth k cells []) 0) by (unfold u, lf; rewrite Elf, Ecv; reflexivity).
    assert (Ev : v = nth j (nth k cells []) 0) by (unfold v, lf; rewrite Elf, Ecv; reflexivity).
    assert (Huv : u <> v).
    { rewrite Eu, Ev. intros E. apply Hij. apply (proj1 (NoDup_nth (nth k cells []) 0) Hnd); [lia | lia | exact E]. }
    split; [exact Huv|].
    rewrite (t2f_slotwise cells rf a k Ha Hk). unfold key.
    assert (Esl : slotv (nth a rf []) (nth k cells []) = [u; v]) by (rewrite Elf, Eu, Ev; reflexivity).
    rewrite Esl. rewrite sort_entity_nodup; [apply isort2|].
    constructor; [intros [E|[]]; now apply Huv | constructor; [intros [] | constructor]].
  Qed.

  (* for EVERY cell k and local facet a: the pieces left on that facet are the trace of the facet number f = t2f[k][a]:
     the two halves around node_of F nv f if f is marked, the whole facet otherwise *)
  Theorem global_facet_trace F nv k a : k < length cells -> a < length rf ->
    forall e, In e (resolved_pieces rf F nv (cell_ctx tb k) a)
              <-> In e (facet_trace F nv (tb_facets tb) (nth a (cf (cell_ctx tb k)) 0)).
  Proof.
    intros Hk Ha. destruct (facet_of_slot k a Hk Ha) as [_ [Huv Hf]]. cbv zeta in Hf.
    apply traces_agree. cbv zeta. rewrite Hf.
    destruct (_ <=? _); cbn [nth]; [left | right]; split; reflexivity.
  Qed.

  (* two cells sharing a facet cut it into the same pieces *)
  Theorem shared_facet_same_pieces F nv k1 a1 k2 a2 :
    k1 < length cells -> a1 < length rf -> k2 < length cells -> a2 < length rf ->
    nth a1 (cf (cell_ctx tb k1)) 0 = nth a2 (cf (cell_ctx tb k2)) 0 ->
    forall e, In e (resolved_pieces rf F nv (cell_ctx tb k1) a1) <-> In e (resolved_pieces rf F nv (cell_ctx tb k2) a2).
  Proof.
    intros H1 H2 H3 H4 Heq e. rewrite (global_facet_trace F nv k1 a1 H1 H2), (global_facet_trace F nv k2 a2 H3 H4).
    now rewrite Heq.
  Qed.

  (* ... and they share the facet number exactly when they have the same two end points (C11) *)
  Theorem same_endpoints_same_facet k1 a1 k2 a2 :
    k1 < length cells -> a1 < length rf -> k2 < length cells -> a2 < length rf ->
    (nth a1 (cf (cell_ctx tb k1)) 0 = nth a2 (cf (cell_ctx tb k2)) 0 <->
     sort_entity (slotv (nth a1 rf []) (nth k1 cells [])) = sort_entity (slotv (nth a2 rf []) (nth k2 cells []))).
  Proof.
    intros H1 H2 H3 H4. unfold cell_ctx. cbn [cf]. fold tb. unfold tb.
    rewrite !c11_t2f_entry by assumption. apply (t2f_eq_iff cells rf a1 k1 a2 k2 H2 H1 H4 H3).
  Qed.
End Global.

(* uniform refinement: every facet is marked and the node created on facet f is nv + f *)
Lemma count_repeat_true n : count (repeat true n) = n.
Proof. unfold count. induction n as [|n IH]; simpl; [reflexivity | now rewrite IH]. Qed.

Lemma node_of_all_marked n nv f : f <= n -> node_of (repeat true n) nv f = nv + f.
Proof.
  intros H. unfold node_of. f_equal.
  replace (firstn f (repeat true n)) with (repeat true f); [apply count_repeat_true|].
  revert n H. induction f as [|f IH]; intros [|n] H; simpl; try lia; [reflexivity | reflexivity |].
  f_equal. apply IH. lia.
Qed.

Lemma mk_all_marked n f : f < n -> mk (repeat true n) f = true.
Proof. intros H. unfold mk. revert n H. induction f as [|f IH]; intros [|n] H; simpl; try lia; auto. apply IH. lia. Qed.

(* uniform refinement of a 2-D mesh: EVERY cell containing the old facet f = {e0, e1} leaves on it exactly the two
   halves {e0, c} and {c, e1} with c = nv + f *)
Theorem uniform_halves_everywhere cells rf nn nv k a :
  rf2_ok nn rf -> Forall (fun c => NoDup c /\ length c = nn) cells -> k < length cells -> a < length rf ->
  let tb := c11_tables cells rf in
  let f := nth a (cf (cell_ctx tb k)) 0 in
  let e0 := nth 0 (nth f (tb_facets tb) []) 0 in let e1 := nth 1 (nth f (tb_facets tb) []) 0 in
  forall e, In e (resolved_pieces rf (all_marked cells rf) nv (cell_ctx tb k) a)
            <-> e = sort2 e0 (nv + f) \/ e = sort2 (nv + f) e1.
Proof.
  intros Hrf Hc Hk Ha. cbv zeta. intros e.
  rewrite (global_facet_trace cells rf nn Hrf Hc (all_marked cells rf) nv k a Hk Ha).
  destruct (facet_of_slot cells rf nn Hrf Hc k a Hk Ha) as [Hlt _]. cbv zeta in Hlt.
  set (f := nth a (cf (cell_ctx (c11_tables cells rf) k)) 0) in *.
  unfold facet_trace, all_marked. change (tb_facets (c11_tables cells rf)) with (entities true cells rf) in *.
  rewrite mk_all_marked by exact Hlt. rewrite node_of_all_marked by lia.
  simpl. intuition.
Qed.
