(* C08 / C02 — tensor-product rules: the product of two rules that are exact (to within e1, e2)
   on two cells is exact (to within e1 + e2 + e1 e2) on the product cell, for ALL rules and ALL
   degrees; and a dumped rule that has the nodes of such a product and weights within delta in
   total inherits the bound + delta. *)
From Coq Require Import ZArith List QArith Qabs Bool Arith Lia Lqa.
Require Import Base.Corr Model.C08_Rules Proofs.C08_RulesProofs.
Import ListNotations.

(* ================================================================== sums of a tensor rule factor *)

Lemma qmono_app : forall p1 es1 p2 es2, length p1 = length es1 ->
  qmono (p1 ++ p2) (es1 ++ es2) == qmono p1 es1 * qmono p2 es2.
Proof.
  induction p1 as [|x p1 IH]; intros [|e es1] p2 es2 H; try discriminate.
  - simpl. ring.
  - simpl. rewrite IH by (simpl in H; lia). ring.
Qed.

Lemma qrule_sum_app R R' es : qrule_sum (R ++ R') es == qrule_sum R es + qrule_sum R' es.
Proof. induction R as [|nd R IH]; simpl; [ring|]. rewrite IH. ring. Qed.

Lemma tensor_inner w1 p1 es1 es2 : length p1 = length es1 -> forall R2,
  qrule_sum (map (fun n2 => (p1 ++ fst n2, w1 * snd n2)) R2) (es1 ++ es2)
  == w1 * qmono p1 es1 * qrule_sum R2 es2.
Proof.
  intros H. induction R2 as [|n2 R2 IH]; simpl; [ring|].
  rewrite IH, qmono_app by exact H. ring.
Qed.

Theorem tensorQ_sum R1 R2 es1 es2 : (forall nd, In nd R1 -> length (fst nd) = length es1) ->
  qrule_sum (tensorQ R1 R2) (es1 ++ es2) == qrule_sum R1 es1 * qrule_sum R2 es2.
Proof.
  unfold tensorQ. induction R1 as [|n1 R1 IH]; intros H; simpl; [ring|].
  rewrite qrule_sum_app, tensor_inner by (apply H; now left).
  rewrite IH by (intros; apply H; now right). ring.
Qed.

(* ================================================================== blockwise definitions on s1 ++ s2 *)

Lemma dim_app s1 s2 : dim (s1 ++ s2) = (dim s1 + dim s2)%nat.
Proof. unfold dim. apply list_sum_app. Qed.

Lemma exactQ_app : forall s1 s2 es1 es2, length es1 = dim s1 ->
  exactQ (s1 ++ s2) (es1 ++ es2) == exactQ s1 es1 * exactQ s2 es2.
Proof.
  induction s1 as [|d s1 IH]; intros s2 es1 es2 H.
  - destruct es1; [|discriminate]. simpl. ring.
  - unfold dim in H. simpl in H.
    change (simplexQ d (firstn d (es1 ++ es2)) * exactQ (s1 ++ s2) (skipn d (es1 ++ es2))
            == simplexQ d (firstn d es1) * exactQ s1 (skipn d es1) * exactQ s2 es2).
    rewrite firstn_app_le, skipn_app_le by lia.
    rewrite IH by (rewrite skipn_length; unfold dim; lia). ring.
Qed.

Lemma deg_ok_app : forall s1 s2 n es1 es2, length es1 = dim s1 ->
  (deg_ok (s1 ++ s2) n (es1 ++ es2) <-> deg_ok s1 n es1 /\ deg_ok s2 n es2).
Proof.
  induction s1 as [|d s1 IH]; intros s2 n es1 es2 H.
  - destruct es1; [|discriminate]. simpl. tauto.
  - unfold dim in H. simpl in H.
    change ((list_sum (firstn d (es1 ++ es2)) <= n)%nat /\ deg_ok (s1 ++ s2) n (skipn d (es1 ++ es2))
            <-> ((list_sum (firstn d es1) <= n)%nat /\ deg_ok s1 n (skipn d es1)) /\ deg_ok s2 n es2).
    rewrite firstn_app_le, skipn_app_le by lia.
    rewrite IH by (rewrite skipn_length; unfold dim; lia). tauto.
Qed.

Lemma in_cellQ_app : forall s1 s2 p1 p2, length p1 = dim s1 ->
  in_cellQ s1 p1 -> in_cellQ s2 p2 -> in_cellQ (s1 ++ s2) (p1 ++ p2).
Proof.
  induction s1 as [|d s1 IH]; intros s2 p1 p2 H H1 H2.
  - destruct p1; [|discriminate]. exact H2.
  - unfold dim in H. simpl in H. destruct H1 as [Ha [Hb Hc]].
    change (Forall (fun x => 0 <= x) (firstn d (p1 ++ p2)) /\ qlist_sum (firstn d (p1 ++ p2)) <= 1
            /\ in_cellQ (s1 ++ s2) (skipn d (p1 ++ p2))).
    rewrite firstn_app_le, skipn_app_le by lia.
    split; [exact Ha|]. split; [exact Hb|].
    apply IH; [rewrite skipn_length; unfold dim; lia|exact Hc|exact H2].
Qed.

(* ================================================================== bounds: monomials and integrals in [0,1] *)

Lemma qlist_sum_nonneg l : Forall (fun x => 0 <= x) l -> 0 <= qlist_sum l.
Proof.
  induction 1 as [|x l Hx _ IH]; simpl; [apply Qle_refl|].
  apply Qle_trans with (0 + 0); [apply Qle_refl|]. apply Qplus_le_compat; assumption.
Qed.

Lemma block01 l : Forall (fun x => 0 <= x) l -> qlist_sum l <= 1 -> Forall (fun x => 0 <= x <= 1) l.
Proof.
  induction 1 as [|x l Hx Hl IH]; intros Hs; [constructor|]. simpl in Hs.
  pose proof (qlist_sum_nonneg l Hl) as Hn.
  constructor.
  - split; [exact Hx|]. lra.
  - apply IH. lra.
Qed.

Lemma coords01 : forall s pt, length pt = dim s -> in_cellQ s pt -> Forall (fun x => 0 <= x <= 1) pt.
Proof.
  induction s as [|d s IH]; intros pt H Hc.
  - destruct pt; [constructor|discriminate].
  - unfold dim in H. simpl in H. destruct Hc as [Ha [Hb Hc]].
    rewrite <- (firstn_skipn d pt). apply Forall_app. split.
    + apply block01; assumption.
    + apply IH; [rewrite skipn_length; unfold dim; lia|exact Hc].
Qed.

Lemma qpow01 x e : 0 <= x <= 1 -> 0 <= qpow x e <= 1.
Proof.
  intros Hx. induction e as [|e IH]; simpl; [split; [discriminate|apply Qle_refl]|].
  destruct IH as [IH1 IH2]. destruct Hx as [Hx1 Hx2]. split; nra.
Qed.

Lemma qmono01 : forall pt es, Forall (fun x => 0 <= x <= 1) pt -> 0 <= qmono pt es <= 1.
Proof.
  induction pt as [|x pt IH]; intros es H.
  - simpl. split; [discriminate|apply Qle_refl].
  - destruct es as [|e es]; simpl; [split; [discriminate|apply Qle_refl]|].
    inversion H as [|? ? Hx Hp]; subst.
    destruct (qpow01 x e Hx) as [A1 A2]. destruct (IH es Hp) as [B1 B2]. split; nra.
Qed.

Lemma pfact_succ k : Zpos (pfact (S k)) = (Z.of_nat (S k) * Zpos (pfact k))%Z.
Proof. simpl pfact. rewrite Pos2Z.inj_mul, Zpos_P_of_succ_nat. lia. Qed.

Lemma pfact_mul_le a b : (Zpos (pfact a) * Zpos (pfact b) <= Zpos (pfact (a + b)))%Z.
Proof.
  induction a as [|a IH]; [simpl; lia|].
  change (S a + b)%nat with (S (a + b)). rewrite !pfact_succ.
  pose proof (Pos2Z.is_pos (pfact a)). pose proof (Pos2Z.is_pos (pfact b)).
  pose proof (Pos2Z.is_pos (pfact (a + b))). nia.
Qed.

Lemma pfact_mono m d : (Zpos (pfact m) <= Zpos (pfact (m + d)))%Z.
Proof.
  induction d as [|d IH]; [rewrite Nat.add_0_r; lia|].
  rewrite Nat.add_succ_r, pfact_succ. pose proof (Pos2Z.is_pos (pfact (m + d))). nia.
Qed.

Lemma pfacts_le es : (Zpos (pfacts es) <= Zpos (pfact (list_sum es)))%Z.
Proof.
  induction es as [|e es IH]; [simpl; lia|]. simpl pfacts. simpl list_sum.
  rewrite Pos2Z.inj_mul. pose proof (pfact_mul_le e (list_sum es)).
  pose proof (Pos2Z.is_pos (pfact e)). nia.
Qed.

Lemma simplexQ01 d es : 0 <= simplexQ d es <= 1.
Proof.
  unfold simplexQ. split.
  - unfold Qle. simpl. lia.
  - unfold Qle. simpl. pose proof (pfacts_le es). pose proof (pfact_mono (list_sum es) d). lia.
Qed.

Lemma exactQ01 : forall s es, 0 <= exactQ s es <= 1.
Proof.
  induction s as [|d s IH]; intros es; simpl.
  - split; [discriminate|apply Qle_refl].
  - destruct (simplexQ01 d (firstn d es)) as [A1 A2]. destruct (IH (skipn d es)) as [B1 B2].
    split; nra.
Qed.

(* ================================================================== exactness of the tensor rule *)

Lemma prod_err S1 S2 I1 I2 e1 e2 :
  Qabs (S1 - I1) <= e1 -> Qabs (S2 - I2) <= e2 -> 0 <= I1 <= 1 -> 0 <= I2 <= 1 ->
  Qabs (S1 * S2 - I1 * I2) <= e1 + e2 + e1 * e2.
Proof.
  intros H1 H2 [A1 A2] [B1 B2].
  apply Qabs_Qle_condition in H1. apply Qabs_Qle_condition in H2. apply Qabs_Qle_condition.
  destruct H1 as [H1l H1u]. destruct H2 as [H2l H2u].
  set (a := S1 - I1) in *. set (b := S2 - I2) in *.
  assert (E : S1 * S2 - I1 * I2 == a * b + I1 * b + a * I2) by (unfold a, b; ring).
  rewrite E.
  assert (0 <= e1) by lra. assert (0 <= e2) by lra.
  assert (- (e1 * e2) <= a * b <= e1 * e2) by (split; nra).
  assert (- e2 <= I1 * b <= e2) by (split; nra).
  assert (- e1 <= a * I2 <= e1) by (split; nra).
  split; lra.
Qed.

Lemma split_es (s1 s2 : shape) (es : list nat) : length es = dim (s1 ++ s2) ->
  exists es1 es2, es = es1 ++ es2 /\ length es1 = dim s1 /\ length es2 = dim s2.
Proof.
  intros H. rewrite dim_app in H.
  exists (firstn (dim s1) es), (skipn (dim s1) es). split; [symmetry; apply firstn_skipn|].
  rewrite firstn_length, skipn_length. lia.
Qed.

(* the tensor product of two rules, each within e1 / e2 of the exact integrals of the monomials of
   degree <= n of its cell, is within e1 + e2 + e1 e2 on the product cell *)
Theorem tensor_rule_exact_eps (R1 R2 : qrule) (s1 s2 : shape) (n : nat) (e1 e2 : Q) :
  (forall nd, In nd R1 -> length (fst nd) = dim s1) ->
  (forall es, length es = dim s1 -> deg_ok s1 n es -> Qabs (qrule_sum R1 es - exactQ s1 es) <= e1) ->
  (forall es, length es = dim s2 -> deg_ok s2 n es -> Qabs (qrule_sum R2 es - exactQ s2 es) <= e2) ->
  forall es, length es = dim (s1 ++ s2) -> deg_ok (s1 ++ s2) n es ->
    Qabs (qrule_sum (tensorQ R1 R2) es - exactQ (s1 ++ s2) es) <= e1 + e2 + e1 * e2.
Proof.
  intros HL H1 H2 es Hl Hd.
  destruct (split_es s1 s2 es Hl) as [es1 [es2 [-> [L1 L2]]]].
  apply deg_ok_app in Hd; [|exact L1]. destruct Hd as [D1 D2].
  rewrite tensorQ_sum by (intros nd Hnd; rewrite L1; apply HL; exact Hnd).
  rewrite exactQ_app by exact L1.
  apply prod_err; [apply H1; assumption|apply H2; assumption|apply exactQ01|apply exactQ01].
Qed.

(* the exact version: a tensor product of exact rules is exact (all rules, all degrees) *)
Theorem tensor_rule_exact (R1 R2 : qrule) (s1 s2 : shape) (n : nat) :
  (forall nd, In nd R1 -> length (fst nd) = dim s1) ->
  (forall es, length es = dim s1 -> deg_ok s1 n es -> qrule_sum R1 es == exactQ s1 es) ->
  (forall es, length es = dim s2 -> deg_ok s2 n es -> qrule_sum R2 es == exactQ s2 es) ->
  forall es, length es = dim (s1 ++ s2) -> deg_ok (s1 ++ s2) n es ->
    qrule_sum (tensorQ R1 R2) es == exactQ (s1 ++ s2) es.
Proof.
  intros HL H1 H2 es Hl Hd.
  destruct (split_es s1 s2 es Hl) as [es1 [es2 [-> [L1 L2]]]].
  apply deg_ok_app in Hd; [|exact L1]. destruct Hd as [D1 D2].
  rewrite tensorQ_sum by (intros nd Hnd; rewrite L1; apply HL; exact Hnd).
  rewrite exactQ_app by exact L1. rewrite H1, H2 by assumption. reflexivity.
Qed.

Lemma tensorQ_nodes R1 R2 s1 s2 :
  (forall nd, In nd R1 -> length (fst nd) = dim s1 /\ in_cellQ s1 (fst nd)) ->
  (forall nd, In nd R2 -> length (fst nd) = dim s2 /\ in_cellQ s2 (fst nd)) ->
  forall nd, In nd (tensorQ R1 R2) -> length (fst nd) = dim (s1 ++ s2) /\ in_cellQ (s1 ++ s2) (fst nd).
Proof.
  intros H1 H2 nd Hnd. unfold tensorQ in Hnd. apply in_flat_map in Hnd.
  destruct Hnd as [n1 [Hn1 Hnd]]. apply in_map_iff in Hnd. destruct Hnd as [n2 [<- Hn2]].
  destruct (H1 n1 Hn1) as [A1 A2]. destruct (H2 n2 Hn2) as [B1 B2]. simpl. split.
  - rewrite app_length, dim_app. lia.
  - apply in_cellQ_app; assumption.
Qed.

Theorem tensor_rule_ok (R1 R2 : qrule) s1 s2 n e1 e2 :
  rule_okQ s1 R1 n e1 -> rule_okQ s2 R2 n e2 -> rule_okQ (s1 ++ s2) (tensorQ R1 R2) n (e1 + e2 + e1 * e2).
Proof.
  intros [N1 E1] [N2 E2]. split.
  - apply tensorQ_nodes; assumption.
  - apply tensor_rule_exact_eps; [intros nd Hnd; apply N1; exact Hnd|exact E1|exact E2].
Qed.

(* ================================================================== dumped rule vs tensor of dumped rules *)

Lemma toQ_tensorD r1 r2 : sx r1 = sx r2 -> toQ (tensorD r1 r2) = tensorQ (toQ r1) (toQ r2).
Proof.
  intros Hs. unfold toQ, tensorD, tensorQ. simpl. rewrite <- Hs.
  induction (nodes r1) as [|n1 N1 IH]; simpl; [reflexivity|].
  rewrite map_app, IH. f_equal. clear IH.
  induction (nodes r2) as [|n2 N2 IH2]; simpl; [reflexivity|].
  rewrite IH2. f_equal. unfold qnode. simpl. rewrite map_app. reflexivity.
Qed.

Lemma Qmake_plus a b d : (a + b)%Z # d == (a # d) + (b # d).
Proof. unfold Qeq, Qplus. simpl. rewrite !Pos2Z.inj_mul. ring. Qed.

Lemma wdiff_term wc wt sc st :
  Qabs ((wc # sc) - (wt # st)) <= Z.abs (wc * Zpos st - wt * Zpos sc) # (sc * st).
Proof.
  apply Qabs_Qle_condition. unfold Qle, Qminus, Qplus, Qopp. simpl. rewrite !Pos2Z.inj_mul.
  pose proof (Pos2Z.is_pos sc). pose proof (Pos2Z.is_pos st).
  set (P := (Z.pos sc * Z.pos st)%Z). assert (0 < P)%Z by (unfold P; apply Z.mul_pos_pos; lia).
  replace (wc * Z.pos st + - wt * Z.pos sc)%Z with (wc * Z.pos st - wt * Z.pos sc)%Z by ring.
  split; apply Z.mul_le_mono_nonneg_r; lia.
Qed.

Lemma wdiff_sound sc st s es : forall C T a, wdiffZ sc st C T = Some a ->
  (forall nd, In nd T -> 0 <= qmono (map (fun X => X # s) (fst nd)) es <= 1) ->
  map fst C = map fst T /\
  Qabs (qrule_sum (map (qnode s sc) C) es - qrule_sum (map (qnode s st) T) es) <= a # (sc * st).
Proof.
  induction C as [|c C IH]; intros [|t T] a H Hm; simpl in H; try discriminate.
  - inversion H; subst. split; [reflexivity|]. simpl. discriminate.
  - destruct (list_eqb Z.eqb (fst c) (fst t)) eqn:He; [|discriminate].
    destruct (wdiffZ sc st C T) as [a'|] eqn:Hr; [|discriminate].
    inversion H; subst; clear H.
    apply zs_eqb_eq in He.
    destruct (IH T a' Hr (fun nd Hnd => Hm nd (or_intror Hnd))) as [IH1 IH2].
    split; [simpl; now rewrite He, IH1|].
    cbn [qrule_sum map qnode fst snd]. rewrite He.
    pose proof (Hm t (or_introl eq_refl)) as [M1 M2].
    set (m := qmono (map (fun X => X # s) (fst t)) es) in *.
    pose proof (wdiff_term (snd c) (snd t) sc st) as Hw.
    rewrite Qmake_plus.
    set (D := Z.abs (snd c * Zpos st - snd t * Zpos sc) # (sc * st)) in *.
    set (A := a' # (sc * st)) in *.
    set (qc := snd c # sc) in *. set (qt := snd t # st) in *.
    set (SC := qrule_sum (map (qnode s sc) C) es) in *.
    set (ST := qrule_sum (map (qnode s st) T) es) in *.
    apply Qabs_Qle_condition in Hw. apply Qabs_Qle_condition in IH2. apply Qabs_Qle_condition.
    destruct Hw as [W1 W2]. destruct IH2 as [I1 I2].
    assert (- D <= (qc - qt) * m <= D) by (split; nra).
    split; lra.
Qed.

Lemma same_points (s : positive) w1 w2 (C T : list (list Z * Z)) (P : list Q -> Prop) :
  map fst C = map fst T ->
  (forall nd, In nd (map (qnode s w2) T) -> P (fst nd)) ->
  forall nd, In nd (map (qnode s w1) C) -> P (fst nd).
Proof.
  intros Hf H nd Hnd. apply in_map_iff in Hnd. destruct Hnd as [c [<- Hc]].
  assert (Hin : In (fst c) (map fst T)) by (rewrite <- Hf; apply in_map; exact Hc).
  apply in_map_iff in Hin. destruct Hin as [t [Ht HtT]].
  specialize (H (qnode s w2 t) (in_map _ _ _ HtT)). unfold qnode in *. simpl in *.
  rewrite <- Ht. exact H.
Qed.

(* THE combination theorem used for the quadrilateral, hexahedron and prism rules *)
Theorem tensor_close_ok s1 s2 r1 r2 C n e1 e2 delta tol :
  rule_okQ s1 (toQ r1) n e1 -> rule_okQ s2 (toQ r2) n e2 ->
  tensor_check C r1 r2 delta = true -> tol_combine e1 e2 delta tol = true ->
  rule_okQ (s1 ++ s2) (toQ C) n tol.
Proof.
  intros O1 O2 Hc Ht.
  unfold tensor_check in Hc. apply andb_true_iff in Hc. destruct Hc as [Hs Hc].
  apply Pos.eqb_eq in Hs. unfold close in Hc. apply andb_true_iff in Hc. destruct Hc as [Hsx Hw].
  apply Pos.eqb_eq in Hsx.
  destruct (wdiffZ (sw C) (sw (tensorD r1 r2)) (nodes C) (nodes (tensorD r1 r2))) as [a|] eqn:Hd;
    [|discriminate].
  apply Qle_bool_iff in Hw.
  unfold tol_combine in Ht. apply andb_true_iff in Ht. destruct Ht as [Ht Ht3].
  apply andb_true_iff in Ht. destruct Ht as [Ht1 Ht2].
  apply Qle_bool_iff in Ht1. apply Qle_bool_iff in Ht2. apply Qle_bool_iff in Ht3.
  pose proof (tensor_rule_ok (toQ r1) (toQ r2) s1 s2 n e1 e2 O1 O2) as [TN TE].
  rewrite <- (toQ_tensorD r1 r2 Hs) in TN, TE.
  set (T := tensorD r1 r2) in *.
  assert (Hmono : forall es nd, In nd (nodes T) ->
            0 <= qmono (map (fun X => X # sx C) (fst nd)) es <= 1).
  { intros es nd Hnd. apply qmono01.
    destruct (TN (qnode (sx T) (sw T) nd) (in_map _ _ _ Hnd)) as [L I].
    rewrite Hsx. apply (coords01 (s1 ++ s2)); [exact L|exact I]. }
  split.
  - unfold toQ. rewrite Hsx.
    pose proof (wdiff_sound (sw C) (sw T) (sx C) [] (nodes C) (nodes T) a Hd (Hmono [])) as [Hf _].
    apply (same_points (sx T) (sw C) (sw T) (nodes C) (nodes T)
             (fun p => length p = dim (s1 ++ s2) /\ in_cellQ (s1 ++ s2) p) Hf).
    exact TN.
  - intros es Hl Hdeg.
    pose proof (wdiff_sound (sw C) (sw T) (sx C) es (nodes C) (nodes T) a Hd (Hmono es)) as [_ Hq].
    specialize (TE es Hl Hdeg). unfold toQ in *. rewrite <- Hsx in TE.
    set (SC := qrule_sum (map (qnode (sx C) (sw C)) (nodes C)) es) in *.
    set (ST := qrule_sum (map (qnode (sx C) (sw T)) (nodes T)) es) in *.
    set (I := exactQ (s1 ++ s2) es) in *.
    set (A := a # (sw C * sw T)) in *.
    apply Qabs_Qle_condition in Hq. apply Qabs_Qle_condition in TE. apply Qabs_Qle_condition.
    destruct Hq as [Q1 Q2]. destruct TE as [E1 E2]. split; lra.
Qed.
