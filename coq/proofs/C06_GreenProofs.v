(* C06 — Green's identity on the reference cell, in exact polynomial arithmetic.
   For a polynomial p and a basis polynomial phi on the reference cell K (segment, triangle, tetrahedron, square, cube):
       int_K grad p . grad phi  =  - int_K (laplace p) phi  +  sum_s int_{facet s} (grad p . n_s) phi
   with  int_K = group A's exact integral `pint` (closed form on monomials, proved linear), derivatives = the formal
   derivative `pderiv`, and every facet integral pulled back to the reference parameter domain of the facet:
       int_{facet s} g n_s dS = int_{param domain} g(F_s(t)) nu_s dt ,   nu_s = outward normal scaled by the area factor
   (for an affine facet map F_s: the rotated edge vector in 2-D, the cross product of the two edge vectors in 3-D,
   the sign in 1-D).  The facet data (F_s, nu_s) are regenerated from skfem.refdom and CHECKED here: nu_s is
   orthogonal to the tangents dF_s/dt_j, has the Gram length, and points away from the cell's centroid. *)
From Coq Require Import List Arith ZArith QArith Bool Lia.
Import ListNotations.
Require Import Base.Corr Base.C05_Np Base.C09_Poly Base.C09_PolyQ Model.C08_Rules Model.C02_PolyInt Proofs.C06_CompleteProofs.
Local Open Scope Q_scope.

Definition lap (d : nat) (p : poly) : poly := concat (map (fun k => pderiv k (pderiv k p)) (seq 0 d)).
(* (grad p . nu) * phi *)
Definition flux_poly (d : nat) (nu : list Q) (p phi : poly) : poly :=
  pmul (concat (map2 (fun c k => pscale c (pderiv k p)) nu (seq 0 d))) phi.
Record rfacet := { rf_shape : shape; rf_map : list poly; rf_nu : list Q }.
Definition subst_map (F : list poly) : nat -> poly := fun i => nth i F [].
Definition facet_int (d : nat) (f : rfacet) (p phi : poly) : Q :=
  pint (rf_shape f) (psubstn (subst_map (rf_map f)) (flux_poly d (rf_nu f) p phi)).
Definition qsum (l : list Q) : Q := fold_right Qplus 0 l.
Definition green_lhs (s : shape) (p phi : poly) : Q := pint s (grad_dot (dim s) p phi).
Definition green_rhs (s : shape) (facets : list rfacet) (p phi : poly) : Q :=
  - pint s (pmul (lap (dim s) p) phi) + qsum (map (fun f => facet_int (dim s) f p phi) facets).
Definition green_cert (s : shape) (facets : list rfacet) (basis : list poly) (ms : list mono) : bool :=
  forallb (fun phi => forallb (fun m => Qeq_bool (green_lhs s (pmono m) phi) (green_rhs s facets (pmono m) phi)) ms) basis.

(* ---- the facet data are geometrically right *)
Definition qdot (a b : list Q) : Q := qsum (map2 Qmult a b).
Definition pconst_of (p : poly) : Q := qeval p (fun _ => 0).          (* value at the origin of the parameter domain *)
(* tangent j of the affine facet map: (d F_k / d t_j)_k, constant polynomials *)
Definition tangent (F : list poly) (j : nat) : list Q := map (fun Fk => pconst_of (pderiv j Fk)) F.
Definition affine_map (F : list poly) (npar : nat) : bool :=
  forallb (fun Fk => forallb (fun j => forallb (fun i => pis_zero (pderiv i (pderiv j Fk))) (seq 0 npar)) (seq 0 npar)) F.
Definition gram (F : list poly) (npar : nat) : Q :=
  match npar with
  | 0%nat => 1
  | 1%nat => qdot (tangent F 0) (tangent F 0)
  | _ => qdot (tangent F 0) (tangent F 0) * qdot (tangent F 1) (tangent F 1) - qdot (tangent F 0) (tangent F 1) * qdot (tangent F 0) (tangent F 1)
  end.
Definition facet_ok (centroid : list Q) (f : rfacet) : bool :=
  let npar := dim (rf_shape f) in
  affine_map (rf_map f) npar
  && forallb (fun j => Qeq_bool (qdot (rf_nu f) (tangent (rf_map f) j)) 0) (seq 0 npar)       (* orthogonal to the facet *)
  && Qeq_bool (qdot (rf_nu f) (rf_nu f)) (gram (rf_map f) npar)                                (* |nu| = area factor *)
  && negb (Qle_bool (qdot (rf_nu f) (map2 Qminus (map pconst_of (rf_map f)) centroid)) 0).          (* outward *)
Record rcell := { rc_shape : shape; rc_centroid : list Q; rc_facets : list rfacet }.
Definition rcell_ok (c : rcell) : bool := forallb (facet_ok (rc_centroid c)) (rc_facets c).

(* one element class on its reference cell *)
Record gelem := { ge_name : String.string; ge_cell : rcell; ge_deg : nat; ge_box : bool; ge_basis : list poly }.
Definition ge_monos (e : gelem) : list mono :=
  if ge_box e then monos_box (dim (rc_shape (ge_cell e))) (ge_deg e) else monos_le (dim (rc_shape (ge_cell e))) (ge_deg e).
Definition ge_ok (e : gelem) : bool :=
  rcell_ok (ge_cell e) && green_cert (rc_shape (ge_cell e)) (rc_facets (ge_cell e)) (ge_basis e) (ge_monos e).

Theorem green_cert_sound s facets basis ms :
  green_cert s facets basis ms = true ->
  forall phi, In phi basis -> forall m, In m ms -> green_lhs s (pmono m) phi == green_rhs s facets (pmono m) phi.
Proof.
  unfold green_cert. intros H phi Hphi m Hm. rewrite forallb_forall in H. specialize (H phi Hphi).
  rewrite forallb_forall in H. apply Qeq_bool_iff. exact (H m Hm).
Qed.

(* readable form: for every class of the list, every basis function and every monomial of the class's degree *)
Theorem green_reference_cells (l : list gelem) :
  forallb ge_ok l = true ->
  forall e, In e l ->
    rcell_ok (ge_cell e) = true /\
    forall phi, In phi (ge_basis e) -> forall m, length m = dim (rc_shape (ge_cell e)) ->
      (if ge_box e then Forall (fun a => (a <= ge_deg e)%nat) m else (msum m <= ge_deg e)%nat) ->
      green_lhs (rc_shape (ge_cell e)) (pmono m) phi == green_rhs (rc_shape (ge_cell e)) (rc_facets (ge_cell e)) (pmono m) phi.
Proof.
  intros H e He. rewrite forallb_forall in H. specialize (H e He). unfold ge_ok in H. apply andb_true_iff in H.
  destruct H as [H1 H2]. split; [exact H1|]. intros phi Hphi m Hl Hd.
  apply (green_cert_sound _ _ _ _ H2 phi Hphi). unfold ge_monos. destruct (ge_box e).
  - now apply in_monos_box.
  - now apply in_monos_le.
Qed.
