(* C09_ChainProofs — the chain rule for affine maps, for EVERY polynomial (structural induction on the
   normal form): with F_j(x) = b_j + sum_k A_jk x_k,
       d/dx_k (p o F) (x)  =  sum_j A_jk * (d_j p)(F x)            i.e.  grad (p o F) = A^T (grad p) o F.
   Any commutative ring that receives Q. *)
From Coq Require Import List Arith ZArith QArith Bool Lia Ring Ring_theory Setoid Morphisms.
Import ListNotations.
Require Import Base.C09_Poly.

(* the linear part sum_{k<d} row_(k0+k) x_(k0+k) and the affine form *)
Fixpoint aff_lin (row : nat -> Q) (d k0 : nat) : poly :=
  match d with
  | O => []
  | S d' => pscale (row k0) (pvar k0) ++ aff_lin row d' (S k0)
  end.
Definition aff (row : nat -> Q) (b : Q) (d : nat) : poly := pconst b ++ aff_lin row d 0.
(* the affine map x |-> b + A x of a d-dimensional space, as a substitution *)
Definition aff_map (A : nat -> nat -> Q) (b : nat -> Q) (d : nat) : nat -> poly := fun j => aff (A j) (b j) d.

Definition mono_len_le (n : nat) (p : poly) : Prop := forall t, In t p -> (length (snd t) <= n)%nat.

Section Chain.
  Variable R : Type.
  Variables (rO rI : R) (radd rmul rsub : R -> R -> R) (ropp : R -> R) (req : R -> R -> Prop).
  Variable phi : Q -> R.
  Hypothesis Rsth : Equivalence req.
  Hypothesis Reqe : ring_eq_ext radd rmul ropp req.
  Hypothesis Rth : ring_theory rO rI radd rmul rsub ropp req.
  Hypothesis Rphi : ring_morph rO rI radd rmul rsub ropp req 0%Q 1%Q Qplus Qmult Qminus Qopp Qeq_bool phi.

  Add Ring Rring4 : Rth (setoid Rsth Reqe).
  Notation "a == b" := (req a b) (at level 70, no associativity).
  Notation "a + b" := (radd a b).
  Notation "a * b" := (rmul a b).
  Notation pev := (peval R rO rI radd rmul phi).
  Notation mev := (meval R rI rmul).
  Notation mdv := (mdval R rO rI rmul phi).
  Notation rpw := (rpow R rI rmul).
  Notation dpw := (dpow R rO rI rmul phi).
  Local Instance req_equiv4 : Equivalence req := Rsth.
  Local Instance radd_proper4 : Proper (req ==> req ==> req) radd := Radd_ext Reqe.
  Local Instance rmul_proper4 : Proper (req ==> req ==> req) rmul := Rmul_ext Reqe.

  Let ev_app := peval_app R rO rI radd rmul rsub ropp req phi Rsth Reqe Rth.
  Let ev_pscale := peval_pscale R rO rI radd rmul rsub ropp req phi Rsth Reqe Rth Rphi.
  Let ev_pconst := peval_pconst R rO rI radd rmul rsub ropp req phi Rsth Reqe Rth.
  Let ev_pvar := peval_pvar R rO rI radd rmul rsub ropp req phi Rsth Reqe Rth Rphi.
  Let ev_pmul := peval_pmul R rO rI radd rmul rsub ropp req phi Rsth Reqe Rth Rphi.
  Let ev_ppow := peval_ppow R rO rI radd rmul rsub ropp req phi Rsth Reqe Rth Rphi.
  Let ev_msubst := peval_mono_subst R rO rI radd rmul rsub ropp req phi Rsth Reqe Rth Rphi.
  Let dv_app := peval_pderiv_app R rO rI radd rmul rsub ropp req phi Rsth Reqe Rth.
  Let dv_pscale := peval_pderiv_pscale R rO rI radd rmul rsub ropp req phi Rsth Reqe Rth Rphi.
  Let dv_pconst := peval_pderiv_pconst R rO rI radd rmul req phi Rsth.
  Let dv_pvar := peval_pderiv_pvar R rO rI radd rmul rsub ropp req phi Rsth Reqe Rth Rphi.
  Let dv_pmul := peval_pderiv_pmul R rO rI radd rmul rsub ropp req phi Rsth Reqe Rth Rphi.
  Let dv_ppow := peval_pderiv_ppow R rO rI radd rmul rsub ropp req phi Rsth Reqe Rth Rphi.
  Let dv_tderiv := peval_tderiv R rO rI radd rmul rsub ropp req phi Rsth Reqe Rth Rphi.

  (* sum_{j<n} f j *)
  Fixpoint sumn (f : nat -> R) (n : nat) : R :=
    match n with O => rO | S n' => f 0%nat + sumn (fun j => f (S j)) n' end.

  Lemma sumn_ext n : forall f g, (forall j, (j < n)%nat -> f j == g j) -> sumn f n == sumn g n.
  Proof.
    induction n as [|n IH]; intros f g H; simpl; [reflexivity|].
    rewrite (H 0%nat) by lia. rewrite (IH (fun j => f (S j)) (fun j => g (S j))); [reflexivity|].
    intros j Hj. apply H. lia.
  Qed.

  Lemma sumn_zero n : forall f, (forall j, (j < n)%nat -> f j == rO) -> sumn f n == rO.
  Proof.
    induction n as [|n IH]; intros f H; simpl; [reflexivity|].
    rewrite (H 0%nat) by lia. rewrite IH; [ring|]. intros j Hj. apply H. lia.
  Qed.

  Lemma sumn_add n : forall f g, sumn (fun j => f j + g j) n == sumn f n + sumn g n.
  Proof. induction n as [|n IH]; intros f g; simpl; [ring|]. rewrite IH. ring. Qed.

  Lemma sumn_scale n : forall c f, sumn (fun j => c * f j) n == c * sumn f n.
  Proof. induction n as [|n IH]; intros c f; simpl; [ring|]. rewrite IH. ring. Qed.

  (* sum_j f j * [j = k]  =  f k  for k < n *)
  Lemma sumn_delta n : forall (f : nat -> R) k, (k < n)%nat ->
      sumn (fun j => f j * (if Nat.eqb j k then rI else rO)) n == f k.
  Proof.
    induction n as [|n IH]; intros f k Hk; [lia|]. simpl sumn. destruct k as [|k].
    - simpl. rewrite sumn_zero; [ring|]. intros j _. simpl. ring.
    - simpl. rewrite (IH (fun j => f (S j)) k) by lia. ring.
  Qed.

  (* ---- the affine forms ---- *)
  Lemma ev_aff_lin row d : forall k0 pt,
      pev (aff_lin row d k0) pt == sumn (fun j => phi (row (k0 + j)%nat) * pt (k0 + j)%nat) d.
  Proof.
    induction d as [|d IH]; intros k0 pt; [reflexivity|].
    change (aff_lin row (S d) k0) with (pscale (row k0) (pvar k0) ++ aff_lin row d (S k0)).
    rewrite ev_app, ev_pscale, ev_pvar, IH. simpl sumn. replace (k0 + 0)%nat with k0 by lia.
    apply (Radd_ext Reqe); [reflexivity|]. apply sumn_ext. intros j _.
    replace (k0 + S j)%nat with (S k0 + j)%nat by lia. reflexivity.
  Qed.

  Lemma dv_aff_lin row d : forall k0 k pt,
      pev (pderiv k (aff_lin row d k0)) pt == if (k0 <=? k)%nat && (k <? k0 + d)%nat then phi (row k) else rO.
  Proof.
    induction d as [|d IH]; intros k0 k pt.
    - simpl. destruct (k0 <=? k)%nat eqn:E1; simpl; [|reflexivity].
      destruct (k <? k0 + 0)%nat eqn:E2; [|reflexivity].
      apply Nat.leb_le in E1. apply Nat.ltb_lt in E2. lia.
    - change (aff_lin row (S d) k0) with (pscale (row k0) (pvar k0) ++ aff_lin row d (S k0)).
      rewrite dv_app, dv_pscale, dv_pvar, IH.
      destruct (Nat.eqb_spec k0 k) as [->|Hne].
      + rewrite Nat.leb_refl. replace (k <? k + S d)%nat with true by (symmetry; apply Nat.ltb_lt; lia).
        replace (S k <=? k)%nat with false by (symmetry; apply Nat.leb_gt; lia). simpl. ring.
      + destruct (k0 <=? k)%nat eqn:E1.
        * apply Nat.leb_le in E1. replace (S k0 <=? k)%nat with true by (symmetry; apply Nat.leb_le; lia).
          replace (S k0 + d)%nat with (k0 + S d)%nat by lia. simpl. destruct (k <? k0 + S d)%nat; ring.
        * apply Nat.leb_gt in E1. replace (S k0 <=? k)%nat with false by (symmetry; apply Nat.leb_gt; lia).
          simpl. ring.
  Qed.

  Lemma dv_aff row b d k pt : (k < d)%nat -> pev (pderiv k (aff row b d)) pt == phi (row k).
  Proof.
    intros Hk. unfold aff. rewrite dv_app, dv_pconst, dv_aff_lin. simpl.
    replace (k <? d)%nat with true by (symmetry; apply Nat.ltb_lt; lia). ring.
  Qed.

  Lemma ev_aff row b d pt : pev (aff row b d) pt == phi b + sumn (fun j => phi (row j) * pt j) d.
  Proof. unfold aff. rewrite ev_app, ev_pconst, ev_aff_lin. reflexivity. Qed.

  (* ---- chain rule ---- *)
  Variable A : nat -> nat -> Q.
  Variable b : nat -> Q.
  Variable d : nat.
  Notation F := (aff_map A b d).
  Definition image (pt : nat -> R) : nat -> R := fun j => pev (F j) pt.

  Lemma dv_pow_aff k pt i e : (k < d)%nat ->
    pev (pderiv k (ppow (F i) e)) pt == dpw (image pt i) e * phi (A i k).
  Proof.
    intros Hk. destruct e as [|e].
    - simpl ppow. rewrite dv_pconst. simpl. ring.
    - rewrite dv_ppow. unfold aff_map at 2. rewrite (dv_aff (A i) (b i) d k pt Hk). unfold image, dpow. reflexivity.
  Qed.

  Lemma mdval_beyond m : forall j pt i, (length m <= j)%nat -> mdv j m pt i == rO.
  Proof.
    induction m as [|e m IH]; intros j pt i Hj; simpl; [reflexivity|].
    simpl in Hj. destruct j as [|j]; [lia|]. rewrite IH by lia. ring.
  Qed.

  Lemma chain_mono k pt (Hk : (k < d)%nat) m : forall i n, (length m <= n)%nat ->
    pev (pderiv k (mono_subst F m i)) pt ==
    sumn (fun j => phi (A (i + j)%nat k) * mdv j m (image pt) i) n.
  Proof.
    induction m as [|e m IH]; intros i n Hn.
    - simpl mono_subst. rewrite dv_pconst. symmetry. apply sumn_zero. intros j _. simpl. ring.
    - simpl in Hn. destruct n as [|n]; [lia|].
      simpl mono_subst. rewrite dv_pmul, (dv_pow_aff k pt i e Hk), ev_ppow, ev_msubst, (IH (S i) n) by lia.
      simpl sumn. replace (i + 0)%nat with i by lia. simpl mdv.
      fold (image pt).
      assert (E : sumn (fun j => phi (A (i + S j)%nat k) * (rpw (image pt i) e * mdv j m (image pt) (S i))) n
                  == rpw (image pt i) e * sumn (fun j => phi (A (S i + j)%nat k) * mdv j m (image pt) (S i)) n).
      { rewrite <- sumn_scale. apply sumn_ext. intros j _. replace (i + S j)%nat with (S i + j)%nat by lia. ring. }
      rewrite E. simpl Nat.add. generalize (sumn (fun j : nat => phi (A (S (i + j)) k) * mdv j m (image pt) (S i)) n). intros S1. unfold image. ring.
  Qed.

  (* grad (p o F) = A^T (grad p) o F, for every polynomial p in at most n variables and every k < d *)
  Theorem chain_rule_affine (p : poly) (n k : nat) (pt : nat -> R) :
    (k < d)%nat -> mono_len_le n p ->
    pev (pderiv k (psubst F p)) pt == sumn (fun j => phi (A j k) * pev (pderiv j p) (image pt)) n.
  Proof.
    intros Hk. induction p as [|t p IH]; intros Hlen.
    - simpl. symmetry. apply sumn_zero. intros j _. simpl. ring.
    - assert (Ht : (length (snd t) <= n)%nat) by (apply Hlen; now left).
      assert (Hp : mono_len_le n p) by (intros u Hu; apply Hlen; now right).
      change (psubst F (t :: p)) with (pscale (fst t) (mono_subst F (snd t) 0) ++ psubst F p).
      rewrite dv_app, dv_pscale, (chain_mono k pt Hk (snd t) 0%nat n Ht), (IH Hp).
      rewrite <- sumn_scale, <- sumn_add. apply sumn_ext. intros j _.
      change (pderiv j (t :: p)) with (tderiv j t ++ pderiv j p).
      rewrite ev_app, dv_tderiv. simpl plus. ring.
  Qed.

  (* and the value: (p o F)(x) = p(F x) *)
  Theorem subst_is_composition (p : poly) (pt : nat -> R) : pev (psubst F p) pt == pev p (image pt).
  Proof. apply (peval_psubst R rO rI radd rmul rsub ropp req phi Rsth Reqe Rth Rphi). Qed.

  Theorem image_is_affine (pt : nat -> R) (j : nat) :
    image pt j == phi (b j) + sumn (fun k => phi (A j k) * pt k) d.
  Proof. unfold image, aff_map. apply ev_aff. Qed.

End Chain.
