(* C05 — condense / expand: for every ring, every sparse matrix given by its stored entries (duplicates,
   explicit zeros, empty rows, any column order), every duplicate-free split in any order:
   A y = A[:,I] y_I + A[:,D] y_D, hence solving the condensed system and expanding solves the original
   equations on I and carries x on D, and conversely. *)
From Coq Require Import List ZArith Bool Arith Lia Ring.
Import ListNotations.
Require Import Base.C05_Np Model.C05_BC.

Section Condense.
  Context {R : Type} (o : ring_ops R).
  Hypothesis Rth : ring_theory (r0 o) (r1 o) (radd o) (rmul o) (rsub o) (ropp o) (@eq R).
  Add Ring Rring : Rth.
  Local Notation "a [+] b" := (radd o a b) (at level 50, left associativity).
  Local Notation "a [*] b" := (rmul o a b) (at level 40, left associativity).
  Local Notation "a [-] b" := (rsub o a b) (at level 50, left associativity).
  Local Notation zero := (r0 o).

  Definition psum (f : nat -> R) (l : list nat) : R := fold_right (fun p acc => f p [+] acc) zero l.

  (* ---------------------------------------------------------------- membership / complement *)
  Lemma memb_In x l : memb x l = true <-> In x l.
  Proof.
    unfold memb. rewrite existsb_exists. split.
    - intros (y & Hy & E). apply Nat.eqb_eq in E. now subst.
    - intros H. exists x. split; [assumption | apply Nat.eqb_refl].
  Qed.
  Lemma memb_false x l : memb x l = false <-> ~ In x l.
  Proof. rewrite <- memb_In. destruct (memb x l); split; congruence. Qed.

  Lemma in_complement n S c : In c (complement n S) <-> c < n /\ ~ In c S.
  Proof.
    unfold complement. rewrite filter_In, in_seq, negb_true_iff, memb_false.
    split; intros [H1 H2]; split; auto; lia.
  Qed.
  Lemma complement_NoDup n S : NoDup (complement n S).
  Proof. apply NoDup_filter, seq_NoDup. Qed.

  (* a split of [0,n) : what _init_bc produces from either call form *)
  Definition split_ok (n : nat) (I D : list nat) : Prop :=
    NoDup I /\ NoDup D /\ (forall c, In c I -> c < n) /\ (forall c, In c D -> c < n) /\
    (forall c, c < n -> (In c I <-> ~ In c D)).

  Definition given_ok (n : nat) (S : list nat) : Prop := NoDup S /\ forall c, In c S -> c < n.

  Lemma In_dec_nat (c : nat) l : In c l \/ ~ In c l.
  Proof. destruct (in_dec Nat.eq_dec c l); auto. Qed.

  Theorem init_bc_split n Isel Dsel I D :
    init_bc n Isel Dsel = Some (I, D) ->
    (forall S, Isel = Some S -> given_ok n S) -> (forall S, Dsel = Some S -> given_ok n S) ->
    split_ok n I D.
  Proof.
    intros H HI HD. destruct Isel as [i|], Dsel as [d|]; simpl in H; try discriminate; inversion H; subst; clear H.
    - destruct (HI _ eq_refl) as [N B]. repeat split; auto using complement_NoDup.
      + intros c Hc. now apply in_complement in Hc.
      + intros Hc Hc'. apply in_complement in Hc'. tauto.
      + intros Hc. destruct (In_dec_nat c I); [assumption|]. exfalso. apply Hc. apply in_complement. tauto.
    - destruct (HD _ eq_refl) as [N B]. repeat split; auto using complement_NoDup.
      + intros c Hc. now apply in_complement in Hc.
      + intros Hc. now apply in_complement in Hc.
      + intros Hc. apply in_complement. tauto.
  Qed.

  (* ---------------------------------------------------------------- sums over positions *)
  Lemma psum_shift f p c J : psum f (positions_from (S p) c J) = psum (fun q => f (S q)) (positions_from p c J).
  Proof.
    revert p; induction J as [|j J IH]; intros p; simpl; [reflexivity|].
    destruct (Nat.eqb j c); simpl; rewrite IH; reflexivity.
  Qed.

  Lemma psum_positions (g : nat -> R) c J : forall f,
    NoDup J -> (forall p, p < length J -> f p = g (nth p J 0)) ->
    psum f (positions_from 0 c J) = if memb c J then g c else zero.
  Proof.
    induction J as [|j J IH]; intros f ND Hf; [reflexivity|].
    inversion ND as [|j' J' Hj ND']; subst. simpl positions_from.
    assert (IH' : psum (fun q => f (S q)) (positions_from 0 c J) = if memb c J then g c else zero).
    { apply IH; [assumption|]. intros p Hp. apply (Hf (S p)). simpl. lia. }
    simpl memb. destruct (Nat.eqb j c) eqn:E.
    - apply Nat.eqb_eq in E. subst j. rewrite Nat.eqb_refl. simpl.
      rewrite psum_shift, IH'. apply memb_false in Hj. rewrite Hj.
      rewrite (Hf 0) by (simpl; lia). simpl. ring.
    - rewrite Nat.eqb_sym, E. simpl. rewrite psum_shift. exact IH'.
  Qed.

  (* ---------------------------------------------------------------- row_dot *)
  Lemma row_dot_app r1 r2 y : row_dot o (r1 ++ r2) y = row_dot o r1 y [+] row_dot o r2 y.
  Proof. induction r1 as [|cv r1 IH]; simpl; [ring | rewrite IH; ring]. Qed.

  Lemma row_dot_single v ps w : row_dot o (map (fun p => (p, v)) ps) w = v [*] psum (vnth o w) ps.
  Proof. induction ps as [|p ps IH]; simpl; [ring | rewrite IH; ring]. Qed.

  Lemma vnth_vsel y J p : p < length J -> vnth o (vsel o y J) p = vnth o y (nth p J 0).
  Proof.
    intros Hp. unfold vsel, vnth at 1. rewrite (nth_indep _ _ (vnth o y 0)) by now rewrite map_length.
    apply map_nth.
  Qed.

  Lemma row_dot_sel_cols r J y :
    NoDup J ->
    row_dot o (sel_cols_row J r) (vsel o y J)
    = fold_right (fun cv acc => (if memb (fst cv) J then snd cv [*] vnth o y (fst cv) else zero) [+] acc) zero r.
  Proof.
    intros ND. induction r as [|[c v] r IH]; [reflexivity|].
    unfold sel_cols_row in *. simpl flat_map. rewrite row_dot_app, IH, row_dot_single. simpl fold_right.
    rewrite (psum_positions (vnth o y)); auto using vnth_vsel.
    simpl. destruct (memb c J); ring.
  Qed.

  (* A y = A[:, I] y_I + A[:, D] y_D, row by row *)
  Theorem row_dot_split n I D r y :
    split_ok n I D -> (forall cv, In cv r -> fst cv < n) ->
    row_dot o r y = row_dot o (sel_cols_row I r) (vsel o y I) [+] row_dot o (sel_cols_row D r) (vsel o y D).
  Proof.
    intros (NI & ND & BI & BD & P) Hr. rewrite !row_dot_sel_cols by assumption.
    induction r as [|[c v] r IH]; simpl; [ring|].
    rewrite IH by (intros cv Hcv; apply Hr; now right).
    specialize (P c (Hr (c, v) (or_introl eq_refl))). simpl in P.
    destruct (memb c I) eqn:EI; destruct (memb c D) eqn:ED; try ring.
    - apply memb_In in EI, ED. tauto.
    - apply memb_false in EI, ED. tauto.
  Qed.

  (* ---------------------------------------------------------------- y = x.copy(); y[I] = z *)
  Lemma vset_length (x : list R) I z : length (vset x I z) = length x.
  Proof.
    unfold vset. revert x z; induction I as [|i I IH]; intros x [|v z]; simpl; auto.
    rewrite IH. apply upd_length.
  Qed.

  Lemma vset_notin (x : list R) I z c : ~ In c I -> vnth o (vset x I z) c = vnth o x c.
  Proof.
    unfold vset, vnth. revert x z; induction I as [|i I IH]; intros x [|v z] H; simpl; auto.
    rewrite IH by (simpl in H; tauto). rewrite nth_upd.
    destruct (Nat.eqb c i) eqn:E; [|reflexivity]. apply Nat.eqb_eq in E. subst. simpl in H. tauto.
  Qed.

  Lemma vset_at (x : list R) I z p :
    NoDup I -> length z = length I -> (forall i, In i I -> i < length x) -> p < length I ->
    vnth o (vset x I z) (nth p I 0) = vnth o z p.
  Proof.
    revert x z p; induction I as [|i I IH]; intros x z p ND Hl Hb Hp; simpl in Hp; [lia|].
    destruct z as [|v z]; simpl in Hl; [discriminate|]. inversion ND as [|i' I' Hi ND']; subst.
    change (vset x (i :: I) (v :: z)) with (vset (upd x i v) I z).
    destruct p as [|p]; simpl nth.
    - rewrite vset_notin by assumption. unfold vnth. rewrite nth_upd, Nat.eqb_refl.
      assert (Hlt : i < length x) by (apply Hb; now left). apply Nat.ltb_lt in Hlt. now rewrite Hlt.
    - change (vnth o (v :: z) (S p)) with (vnth o z p). apply IH; auto; try lia.
      intros j Hj. rewrite upd_length. apply Hb. now right.
  Qed.

  Lemma vsel_vset_same (x : list R) I z :
    NoDup I -> length z = length I -> (forall i, In i I -> i < length x) -> vsel o (vset x I z) I = z.
  Proof.
    intros ND Hl Hb. apply (nth_ext _ _ zero zero).
    - unfold vsel. rewrite map_length. auto.
    - unfold vsel at 1. rewrite map_length. intros p Hp.
      change (vnth o (vsel o (vset x I z) I) p = vnth o z p). rewrite vnth_vsel by assumption. now apply vset_at.
  Qed.

  Lemma vsel_length (y : list R) J : length (vsel o y J) = length J.
  Proof. unfold vsel. apply map_length. Qed.

  Lemma vsel_ext y y' J : (forall c, In c J -> vnth o y c = vnth o y' c) -> vsel o y J = vsel o y' J.
  Proof. intros H. unfold vsel. apply map_ext_in. exact H. Qed.

  (* ---------------------------------------------------------------- the condensed system, row by row *)
  Definition rows_in_range (n : nat) (A : list (list (nat * R))) : Prop := forall r, In r A -> forall cv, In cv r -> fst cv < n.

  Lemma mrow_in_range n A i : rows_in_range n A -> forall cv, In cv (mrow A i) -> fst cv < n.
  Proof.
    intros H cv Hcv. unfold mrow in Hcv. destruct (Nat.lt_ge_cases i (length A)) as [Hi|Hi].
    - apply (H (nth i A [])); [now apply nth_In | assumption].
    - rewrite nth_overflow in Hcv by assumption. destruct Hcv.
  Qed.

  Lemma vnth_matvec A y i : vnth o (matvec o A y) i = row_dot o (mrow A i) y.
  Proof. unfold vnth, matvec, mrow. change zero with (row_dot o [] y). apply map_nth. Qed.

  Lemma condensed_rows A b x I D z :
    matvec o (condense_A A I) z = condense_b o A b x I D <->
    forall i, In i I ->
      row_dot o (sel_cols_row I (mrow A i)) z = vnth o b i [-] row_dot o (sel_cols_row D (mrow A i)) (vsel o x D).
  Proof.
    unfold condense_A, condense_b, matvec, msel_cols, msel_rows, vsub, vsel.
    rewrite !map_map. rewrite map2_maps. rewrite <- map_ext_in_iff. reflexivity.
  Qed.

  (* ---------------------------------------------------------------- main theorems *)
  (* the block identity behind everything:  (A · expand x I z)_i = (A[I][:,I] z)_p + (A[I][:,D] x_D)_p *)
  Theorem expand_block_identity n A (x : list R) I D z i :
    length x = n -> rows_in_range n A -> split_ok n I D -> length z = length I ->
    vnth o (matvec o A (expand x I z)) i
    = row_dot o (sel_cols_row I (mrow A i)) z [+] row_dot o (sel_cols_row D (mrow A i)) (vsel o x D).
  Proof.
    intros Hx HA HS Hz. rewrite vnth_matvec. unfold expand.
    rewrite (row_dot_split n I D) by (auto; eapply mrow_in_range; eauto).
    destruct HS as (NI & ND & BI & BD & P).
    rewrite vsel_vset_same by (auto; intros j Hj; rewrite Hx; auto).
    rewrite (vsel_ext (vset x I z) x D); [reflexivity|].
    intros d Hd. apply vset_notin. intros Hd'. apply (P d (BD d Hd)) in Hd'. tauto.
  Qed.

  Theorem condense_expand_sound_core n A b (x : list R) I D z :
    length x = n -> rows_in_range n A -> split_ok n I D -> length z = length I ->
    matvec o (condense_A A I) z = condense_b o A b x I D ->
    length (expand x I z) = n /\
    (forall d, In d D -> vnth o (expand x I z) d = vnth o x d) /\
    (forall i, In i I -> vnth o (matvec o A (expand x I z)) i = vnth o b i).
  Proof.
    intros Hx HA HS Hz Hsolve. split; [|split].
    - unfold expand. now rewrite vset_length.
    - intros d Hd. unfold expand. apply vset_notin. destruct HS as (NI & ND & BI & BD & P).
      intros Hd'. apply (P d (BD d Hd)) in Hd'. tauto.
    - intros i Hi. rewrite (expand_block_identity n A x I D z i) by assumption.
      rewrite condensed_rows in Hsolve. rewrite (Hsolve i Hi). ring.
  Qed.

  (* conversely: every vector with the prescribed values that satisfies the kept equations comes from a
     solution of the condensed system (so the condensed system loses no solution) *)
  Theorem condense_complete_core n A b (x y : list R) I D :
    length y = n -> rows_in_range n A -> split_ok n I D ->
    (forall d, In d D -> vnth o y d = vnth o x d) ->
    (forall i, In i I -> vnth o (matvec o A y) i = vnth o b i) ->
    matvec o (condense_A A I) (vsel o y I) = condense_b o A b x I D.
  Proof.
    intros Hy HA HS HD HI. apply condensed_rows. intros i Hi.
    specialize (HI i Hi). rewrite vnth_matvec in HI.
    rewrite (row_dot_split n I D) in HI by (auto; eapply mrow_in_range; eauto).
    rewrite (vsel_ext y x D) in HI by assumption. rewrite <- HI. ring.
  Qed.

  (* both call forms of condense (I given or D given), as returned by the model of the whole function *)
  Theorem condense_expand_sound A b (x : list R) Isel Dsel A' b' x' I' z :
    length x = length A -> rows_in_range (length A) A ->
    (forall S, Isel = Some S -> given_ok (length A) S) -> (forall S, Dsel = Some S -> given_ok (length A) S) ->
    condense o A b x Isel Dsel = Some (A', b', x', I') ->
    length z = length I' -> matvec o A' z = b' ->
    exists D', init_bc (length A) Isel Dsel = Some (I', D') /\ split_ok (length A) I' D' /\
      length (expand x' I' z) = length A /\
      (forall d, In d D' -> vnth o (expand x' I' z) d = vnth o x d) /\
      (forall i, In i I' -> vnth o (matvec o A (expand x' I' z)) i = vnth o b i).
  Proof.
    intros Hx HA HI HD Hc Hz Hs. unfold condense in Hc.
    match type of Hc with bind ?e _ = _ => destruct e as [[I D]|] eqn:E end; simpl in Hc; [|discriminate Hc].
    simpl in Hc. injection Hc as EA Eb Ex EI. subst A' b' x' I'. exists D. split; [exact E|].
    assert (HS : split_ok (length A) I D) by (eapply init_bc_split; eauto).
    split; [assumption|]. now apply (condense_expand_sound_core (length A) A b x I D z).
  Qed.

  (* matrix right-hand sides: with homogeneous data on D the reduced pencil is consistent with the full one *)
  Lemma row_dot_sel_zero r (x : list R) D :
    NoDup D -> (forall d, In d D -> vnth o x d = zero) -> row_dot o (sel_cols_row D r) (vsel o x D) = zero.
  Proof.
    intros ND H0. rewrite row_dot_sel_cols by assumption.
    induction r as [|[c v] r IH]; simpl; [reflexivity|]. rewrite IH.
    destruct (memb c D) eqn:E; [|ring]. apply memb_In in E. rewrite (H0 c E). ring.
  Qed.

  Theorem condense_eig_consistent n A B (x : list R) I D z lam :
    length x = n -> rows_in_range n A -> rows_in_range n B -> split_ok n I D -> length z = length I ->
    (forall d, In d D -> vnth o x d = zero) ->
    matvec o (condense_A A I) z = map (fun t => lam [*] t) (matvec o (condense_A B I) z) ->
    forall i, In i I ->
      vnth o (matvec o A (expand x I z)) i = lam [*] vnth o (matvec o B (expand x I z)) i.
  Proof.
    intros Hx HA HB HS Hz H0 He i Hi.
    rewrite (expand_block_identity n A x I D z i), (expand_block_identity n B x I D z i) by assumption.
    destruct HS as (NI & ND & BI & BD & P). rewrite !row_dot_sel_zero by assumption.
    unfold condense_A, matvec, msel_cols, msel_rows in He. rewrite !map_map in He.
    pose proof (proj1 (@map_ext_in_iff _ _ _ _ _) He i Hi) as Hrow. simpl in Hrow. rewrite Hrow. ring.
  Qed.
End Condense.
