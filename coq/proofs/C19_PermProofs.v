(* C19 — the matrix of a coupling form on the CompositeBasis of the component bases equals the matrix on the ElementComposite
   basis permuted by concatenate(split_indices): in weak form, for coefficient vectors related by that permutation. *)
From Coq Require Import List Arith Bool Lia Ring Ring_theory.
Import ListNotations.
Require Import Base.C01_Sums Model.C01_Assembly Proofs.C01_AssemblyProofs Model.C19_Blocks Model.C19_Composite.
Require Import Proofs.C19_BlocksProofs Proofs.C19_CompositeProofs Model.C19_CompBasis Proofs.C19_CompBasisProofs.

Section Perm.
  Variable R : Type.
  Variables (rO rI : R) (radd rmul rsub : R -> R -> R) (ropp : R -> R).
  Variable Rth : ring_theory rO rI radd rmul rsub ropp (@eq R).
  Add Ring RingC19Perm : Rth.
  Notation Sn := (sumn rO radd).
  Variables V VC W : Type.
  Variables (vadd : V -> V -> V) (vscale : R -> V -> V) (vaddC : VC -> VC -> VC) (vscaleC : R -> VC -> VC).
  Variable inj : nat -> V -> VC.
  (* the ElementComposite basis with its Dofs tables (as in composite_interp_sum) *)
  Variable tp : topo.
  Variable ref : layout.
  Variable ls : list layout.
  Hypothesis Href : forall K, K < 4 -> kcount ref K = length (conn tp K).
  Hypothesis Hconn : forall K itr e, K < 4 -> itr < length (conn tp K) -> e < ncells tp ->
    e < length (nth itr (conn tp K) []) /\ nth e (nth itr (conn tp K) []) 0 < G tp K.
  Variable CE : basis R VC.
  Variable b : nat -> basis R V.
  Hypothesis HC : bedofs CE = element_dofs_of tp (D_of ls) /\ bNbfun CE = base_of ref (D_of ls) 4.
  Hypothesis Hb : forall n, n < length ls -> bedofs (b n) = element_dofs_of tp (lay ls n) /\ bNbfun (b n) = base_of ref (lay ls n) 4.
  Hypothesis HB : forall i e q, i < bNbfun CE ->
    bB CE i e q = inj (fst (deduce_bfun ref ls i)) (bB (b (fst (deduce_bfun ref ls i))) (snd (deduce_bfun ref ls i)) e q).
  (* the CompositeBasis of the same component bases *)
  Variable b0 : basis R V.
  Variable rest : list (basis R V).
  Notation bs := (b0 :: rest).
  Notation M := (length bs).
  Notation NN := (fun n => bN (nth n bs b0)).
  Hypothesis Hlist : M = length ls /\ forall n, n < M -> nth n bs b0 = b n.
  Hypothesis Hwf : forall n, n < M -> wf_basis (nth n bs b0) /\ bnelems (nth n bs b0) = bnelems b0 /\ bnq (nth n bs b0) = bnq b0.
  Hypothesis HCE : wf_basis CE /\ bnelems CE = bnelems b0 /\ bnq CE = bnq b0 /\ ncells tp = bnelems b0 /\
                   (forall e q, e < bnelems b0 -> q < bnq b0 -> bdx CE e q = bdx b0 e q).

  (* x in the numbering of the ElementComposite basis, y in the numbering of the CompositeBasis: x[split_indices[n][k]] = y[off_n + k] *)
  Definition permuted (x y : nat -> R) : Prop :=
    forall n k, n < M -> k < NN n -> x (nth k (composite_split tp ls n) 0) = y (psum NN n + k).

  Lemma interp_permuted (CB : basis R VC) (g : VC -> R) x y e q :
    composite_basis R V VC inj b0 rest false = Some CB -> e < bnelems b0 -> permuted x y ->
    (forall a c, g (vaddC a c) = radd (g a) (g c)) -> (forall s a, g (vscaleC s a) = rmul s (g a)) ->
    g (interp R rO VC vaddC vscaleC CE x e q) = g (interp R rO VC vaddC vscaleC CB y e q).
  Proof.
    intros ECB He Hp Hga Hgs. destruct Hlist as [HM Hnth]. destruct HCE as [_ [_ [_ [Hcells _]]]].
    rewrite (composite_interp_sum R rO rI radd rmul rsub ropp Rth V VC vaddC vscaleC inj tp ref ls Href Hconn CE b HC Hb HB g x e q
               ltac:(now rewrite Hcells) Hga Hgs).
    rewrite (cbg_interp_sum R rO rI radd rmul rsub ropp Rth V VC vaddC vscaleC inj b0 rest false Hwf CB g y e q ECB He Hga Hgs).
    rewrite <- HM. apply sumn_ext. intros n Hn. rewrite (Hnth n Hn). apply sumn_ext. intros j Hj.
    f_equal. change (cb_offset R V b0 bs false n) with (psum NN n).
    destruct (Hwf n Hn) as [[_ Hrow] [Hnt _]]. rewrite (Hnth n Hn) in Hrow, Hnt. destruct (Hrow j Hj) as [_ Hlt].
    apply Hp; [exact Hn|]. rewrite (Hnth n Hn). apply Hlt. now rewrite Hnt.
  Qed.

  Variable form : VC -> VC -> W -> R.
  Hypothesis form_add_u : forall x y v w, form (vaddC x y) v w = radd (form x v w) (form y v w).
  Hypothesis form_scale_u : forall s x v w, form (vscaleC s x) v w = rmul s (form x v w).
  Hypothesis form_add_v : forall u x y w, form u (vaddC x y) w = radd (form u x w) (form u y w).
  Hypothesis form_scale_v : forall s u x w, form u (vscaleC s x) w = rmul s (form u x w).

  Theorem compositebasis_is_permuted_elementcomposite (w : nat -> nat -> W) (uE vE uB vB : nat -> R) :
    permuted uE uB -> permuted vE vB ->
    exists CB cE AE cB AB,
      composite_basis R V VC inj b0 rest false = Some CB /\
      bilinear_assemble R rO radd rmul VC W form w CE None = Some cE /\ to_dense2 R rO radd cE = Some AE /\
      bilinear_assemble R rO radd rmul VC W form w CB None = Some cB /\ to_dense2 R rO radd cB = Some AB /\
      vAu R rO radd rmul vE AE uE (bN CE) (bN CE) = vAu R rO radd rmul vB AB uB (bN CB) (bN CB).
  Proof.
    intros Hpu Hpv.
    destruct (cb_init_ok R V VC inj b0 rest Hwf) as [CB [ECB [HN [HNb [Hnt [Hnq [Hdx _]]]]]]].
    pose proof (cb_wf R V VC inj b0 rest Hwf CB ECB) as WB.
    destruct HCE as [WE [Ent [Enq [Hcells Edx]]]].
    destruct (bilinear_weak_form R rO rI radd rmul rsub ropp Rth VC W vaddC vscaleC form
                form_add_u form_scale_u form_add_v form_scale_v w CE None uE vE WE WE eq_refl eq_refl) as [cE [AE [E1 [E2 H1]]]].
    destruct (bilinear_weak_form R rO rI radd rmul rsub ropp Rth VC W vaddC vscaleC form
                form_add_u form_scale_u form_add_v form_scale_v w CB None uB vB WB WB eq_refl eq_refl) as [cB [AB [E3 [E4 H2]]]].
    exists CB, cE, AE, cB, AB. repeat (split; [assumption|]).
    cbv zeta in H1, H2. rewrite H1, H2, Ent, Enq, Hnt, Hnq, Hdx.
    unfold integrate. apply sumn_ext. intros e He. apply sumn_ext. intros q Hq. rewrite (Edx e q He Hq). f_equal.
    rewrite (interp_permuted CB (fun X => form X (interp R rO VC vaddC vscaleC CE vE e q) (w e q)) uE uB e q ECB He Hpu)
      by (intros; first [apply form_add_u | apply form_scale_u]).
    apply (interp_permuted CB (fun Y => form (interp R rO VC vaddC vscaleC CB uB e q) Y (w e q)) vE vB e q ECB He Hpv);
      intros; first [apply form_add_v | apply form_scale_v].
  Qed.
End Perm.
