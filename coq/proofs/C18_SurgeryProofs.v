(* C18 — proofs about Model.C18_Surgery: _reix, restrict retagging, facet order under monotone relabelling,
   hstack layout of the splits.  No dependence on generated files. *)
From Coq Require Import List Arith Bool ZArith Lia Sorted Permutation.
Import ListNotations.
Require Import Base.Corr Model.C18_Surgery.

(* ------------------------------------------------------------------ generic *)

Lemma memb_In v l : memb v l = true <-> In v l.
Proof.
  unfold memb. rewrite existsb_exists. split.
  - intros [x [Hx He]]. apply Nat.eqb_eq in He. now subst.
  - intros H. exists v. split; [exact H | apply Nat.eqb_refl].
Qed.

Lemma filter_seq_sorted (f : nat -> bool) s n : StronglySorted lt (filter f (seq s n)).
Proof.
  revert s. induction n as [|n IH]; intros s; simpl; [constructor|].
  destruct (f s); [|apply IH]. constructor; [apply IH|].
  apply Forall_forall. intros x Hx. apply filter_In in Hx. destruct Hx as [Hx _]. apply in_seq in Hx. lia.
Qed.

Lemma In_le_list_max v l : In v l -> v <= list_max l.
Proof.
  intros H. assert (Hf : Forall (fun k => k <= list_max l) l) by (apply list_max_le; lia).
  rewrite Forall_forall in Hf. apply Hf. exact H.
Qed.

Lemma unique_nat_In v l : In v (unique_nat l) <-> In v l.
Proof.
  unfold unique_nat. rewrite filter_In, in_seq, memb_In. split; [tauto|].
  intros H. split; [|exact H]. apply In_le_list_max in H. lia.
Qed.

Lemma unique_nat_sorted l : StronglySorted lt (unique_nat l).
Proof. apply filter_seq_sorted. Qed.

Lemma sorted_lt_NoDup l : StronglySorted lt l -> NoDup l.
Proof.
  induction 1 as [|a l Hs IH Hall]; constructor; [|exact IH].
  intros Hin. rewrite Forall_forall in Hall. specialize (Hall a Hin). lia.
Qed.

Lemma sorted_nth {A} (R : A -> A -> Prop) (d : A) l :
  StronglySorted R l -> forall i j, i < j -> j < length l -> R (nth i l d) (nth j l d).
Proof.
  induction 1 as [|a l Hs IH Hall]; intros i j Hij Hj; simpl in Hj; [lia|].
  destruct j as [|j]; [lia|]. destruct i as [|i]; simpl.
  - rewrite Forall_forall in Hall. apply Hall. apply nth_In. lia.
  - apply IH; lia.
Qed.

Lemma sorted_lt_nth_mono l : StronglySorted lt l ->
  forall i j, i < length l -> j < length l -> (i < j <-> nth i l 0 < nth j l 0).
Proof.
  intros Hs i j Hi Hj. split.
  - intros Hij. apply (sorted_nth lt 0 l Hs); assumption.
  - intros Hn. destruct (Nat.lt_trichotomy i j) as [H|[H|H]]; [exact H | subst; lia |].
    assert (nth j l 0 < nth i l 0) by (apply (sorted_nth lt 0 l Hs); assumption). lia.
Qed.

(* ------------------------------------------------------------------ scatter *)

Lemma set_nth_length {A} i (v : A) l : length (set_nth i v l) = length l.
Proof. revert i; induction l as [|x l IH]; intros [|i]; simpl; try reflexivity. now rewrite IH. Qed.

Lemma nth_set_nth_eq {A} i (v d : A) l : i < length l -> nth i (set_nth i v l) d = v.
Proof. revert i; induction l as [|x l IH]; intros [|i] H; simpl in *; try lia; [reflexivity | apply IH; lia]. Qed.

Lemma nth_set_nth_neq {A} i j (v d : A) l : i <> j -> nth j (set_nth i v l) d = nth j l d.
Proof.
  revert i j; induction l as [|x l IH]; intros [|i] [|j] H; simpl; try reflexivity; try lia.
  apply IH. lia.
Qed.

Lemma scatter_cons {A} i idx (v : A) vals arr :
  scatter (i :: idx) (v :: vals) arr = scatter idx vals (set_nth i v arr).
Proof. reflexivity. Qed.

Lemma scatter_length {A} idx (vals : list A) arr : length (scatter idx vals arr) = length arr.
Proof.
  revert vals arr; induction idx as [|i idx IH]; intros [|v vals] arr; try reflexivity.
  rewrite scatter_cons, IH. apply set_nth_length.
Qed.

Lemma scatter_untouched {A} idx (vals : list A) arr j d :
  ~ In j idx -> nth j (scatter idx vals arr) d = nth j arr d.
Proof.
  revert vals arr; induction idx as [|i idx IH]; intros [|v vals] arr Hn; try reflexivity.
  rewrite scatter_cons, IH by (intros H; apply Hn; right; exact H).
  apply nth_set_nth_neq. intros He. apply Hn. left. exact He.
Qed.

(* a[idx] = vals with duplicate-free idx: position idx[k] holds vals[k] afterwards *)
Lemma scatter_hit {A} idx (vals : list A) arr k d :
  NoDup idx -> length vals = length idx -> k < length idx -> nth k idx 0 < length arr ->
  nth (nth k idx 0) (scatter idx vals arr) d = nth k vals d.
Proof.
  revert vals arr k; induction idx as [|i idx IH]; intros [|v vals] arr k Hn Hl Hk Hb; simpl in Hl, Hk; try lia.
  inversion Hn as [|? ? Hni Hn']; subst. rewrite scatter_cons. destruct k as [|k]; simpl.
  - rewrite scatter_untouched by exact Hni. apply nth_set_nth_eq. exact Hb.
  - apply IH; try assumption; try lia. rewrite set_nth_length. exact Hb.
Qed.

Lemma index_of_nth l k : NoDup l -> k < length l -> index_of (nth k l 0) l = k.
Proof.
  revert k; induction l as [|x l IH]; intros k Hn Hk; simpl in Hk; [lia|].
  inversion Hn as [|? ? Hx Hn']; subst. destruct k as [|k]; simpl.
  - rewrite Nat.eqb_refl. reflexivity.
  - destruct (Nat.eqb_spec (nth k l 0) x) as [He|_].
    + exfalso. apply Hx. rewrite <- He. apply nth_In. lia.
    + f_equal. apply IH; [exact Hn' | lia].
Qed.

(* ------------------------------------------------------------------ _reix *)

Section Reix.
  Variable ix : mat nat.
  Let flat := concat ix.
  Let u := reix_uniq ix.
  Let tab := reix_table ix.

  Lemma reix_uniq_sorted : StronglySorted lt u.
  Proof. apply unique_nat_sorted. Qed.

  Lemma reix_uniq_In v : In v u <-> In v flat.
  Proof. apply unique_nat_In. Qed.

  Lemma reix_table_at k : k < length u -> nth (nth k u 0) tab 0 = k.
  Proof.
    intros Hk. unfold tab, reix_table. fold u. fold flat.
    rewrite scatter_hit.
    - apply seq_nth. exact Hk.
    - apply sorted_lt_NoDup, reix_uniq_sorted.
    - apply seq_length.
    - exact Hk.
    - rewrite repeat_length.
      assert (In (nth k u 0) flat) by (apply reix_uniq_In, nth_In; exact Hk).
      apply In_le_list_max in H. lia.
  Qed.

  (* the index map returned by _reix relates new to old numbering *)
  Lemma reix_table_inverse v : In v flat -> nth v tab 0 < length u /\ nth (nth v tab 0) u 0 = v.
  Proof.
    intros Hv. apply reix_uniq_In in Hv. destruct (In_nth _ _ 0 Hv) as [k [Hk He]].
    rewrite <- He. rewrite reix_table_at by exact Hk. split; [exact Hk | reflexivity].
  Qed.

  (* monotone: the relabelling preserves the order of the vertices in use *)
  Lemma reix_table_monotone v w : In v flat -> In w flat -> (v < w <-> nth v tab 0 < nth w tab 0).
  Proof.
    intros Hv Hw. destruct (reix_table_inverse v Hv) as [Hv1 Hv2]. destruct (reix_table_inverse w Hw) as [Hw1 Hw2].
    rewrite <- Hv2 at 1. rewrite <- Hw2 at 1. symmetry. apply sorted_lt_nth_mono; [apply reix_uniq_sorted | |]; assumption.
  Qed.

  Lemma in_flat r c : r < length ix -> c < length (nth r ix []) -> In (nth c (nth r ix []) 0) flat.
  Proof.
    intros Hr Hc. unfold flat. apply in_concat. exists (nth r ix []). split; apply nth_In; assumption.
  Qed.

  Lemma reix_t_nth r c : r < length ix -> c < length (nth r ix []) ->
    nth c (nth r (reix_t ix) []) 0 = nth (nth c (nth r ix []) 0) tab 0.
  Proof.
    intros Hr Hc. unfold reix_t. fold tab.
    rewrite (nth_indep _ [] (map (fun v => nth v tab 0) [])) by (rewrite map_length; exact Hr).
    rewrite (map_nth (map (fun v => nth v tab 0)) ix [] r).
    rewrite (nth_indep _ 0 ((fun v => nth v tab 0) 0)) by (rewrite map_length; exact Hc).
    apply (map_nth (fun v => nth v tab 0)).
  Qed.

  (* reix_spec, geometry: the vertex in slot (r, c) of the new connectivity has the coordinates of the
     vertex in slot (r, c) of ix *)
  Theorem reix_geometry {P} (d : P) (p : list P) r c : r < length ix -> c < length (nth r ix []) ->
    nth (nth c (nth r (reix_t ix) []) 0) (reix_p d p ix) d = nth (nth c (nth r ix []) 0) p d.
  Proof.
    intros Hr Hc. rewrite reix_t_nth by assumption.
    destruct (reix_table_inverse _ (in_flat r c Hr Hc)) as [H1 H2]. fold u in H1, H2.
    unfold reix_p, gather. fold u.
    rewrite (nth_indep _ d ((fun i => nth i p d) 0)) by (rewrite map_length; exact H1).
    rewrite (map_nth (fun i => nth i p d) u 0). rewrite H2. reflexivity.
  Qed.

  (* reix_spec, range: new indices are below |uniq| and every new index is used (no unused vertex) *)
  Theorem reix_range r c : r < length ix -> c < length (nth r ix []) ->
    nth c (nth r (reix_t ix) []) 0 < length u.
  Proof. intros Hr Hc. rewrite reix_t_nth by assumption. apply reix_table_inverse, in_flat; assumption. Qed.

  Theorem reix_onto k : k < length u ->
    exists r c, r < length ix /\ c < length (nth r ix []) /\ nth c (nth r (reix_t ix) []) 0 = k.
  Proof.
    intros Hk. assert (Hin : In (nth k u 0) flat) by (apply reix_uniq_In, nth_In; exact Hk).
    unfold flat in Hin. apply in_concat in Hin. destruct Hin as [row [Hrow Hv]].
    destruct (In_nth _ _ [] Hrow) as [r [Hr Her]]. subst row.
    destruct (In_nth _ _ 0 Hv) as [c [Hc Hec]].
    exists r, c. split; [exact Hr|]. split; [exact Hc|].
    rewrite reix_t_nth by assumption. rewrite Hec. apply reix_table_at. exact Hk.
  Qed.
End Reix.

(* ------------------------------------------------------------------ restrict: retagging *)

Lemma intersect1d_In c a b : In c (intersect1d a b) <-> In c a /\ In c b.
Proof. unfold intersect1d. rewrite filter_In, unique_nat_In, memb_In. tauto. Qed.

Lemma map_nth_in {A B} (f : A -> B) l k dA dB : k < length l -> nth k (map f l) dB = f (nth k l dA).
Proof.
  intros Hk. rewrite (nth_indep _ dB (f dA)) by (rewrite map_length; exact Hk). apply map_nth.
Qed.

(* newt[elements[i]] = i *)
Lemma rank_table_hit (n : nat) (els : list nat) i :
  NoDup els -> Forall (fun e => e < n) els -> i < length els ->
  nth (nth i els 0) (scatter els (map Z.of_nat (seq 0 (length els))) (repeat (- 1)%Z n)) (- 1)%Z = Z.of_nat i.
Proof.
  intros Hn Hall Hi. rewrite scatter_hit.
  - rewrite (map_nth_in Z.of_nat _ i 0) by (rewrite seq_length; exact Hi). rewrite seq_nth by exact Hi. reflexivity.
  - exact Hn.
  - rewrite map_length, seq_length. reflexivity.
  - exact Hi.
  - rewrite repeat_length. rewrite Forall_forall in Hall. apply Hall, nth_In. exact Hi.
Qed.

Lemma rank_table_miss (n : nat) (els : list nat) f :
  ~ In f els -> nth f (scatter els (map Z.of_nat (seq 0 (length els))) (repeat (- 1)%Z n)) (- 1)%Z = (- 1)%Z.
Proof.
  intros Hn. rewrite scatter_untouched by exact Hn.
  destruct (Nat.lt_ge_cases f n) as [H|H].
  - apply nth_repeat.
  - apply nth_overflow. rewrite repeat_length. exact H.
Qed.

Lemma rank_table_index (n : nat) (els : list nat) f :
  NoDup els -> Forall (fun e => e < n) els -> In f els ->
  nth f (scatter els (map Z.of_nat (seq 0 (length els))) (repeat (- 1)%Z n)) (- 1)%Z = Z.of_nat (index_of f els).
Proof.
  intros Hn Hall Hin. destruct (In_nth _ _ 0 Hin) as [i [Hi He]]. rewrite <- He.
  rewrite rank_table_hit by assumption. rewrite index_of_nth by assumption. reflexivity.
Qed.

(* restrict_subdomains: the new tag holds exactly the POSITIONS (in the given order of `elements`) of the
   kept cells that were tagged; in particular no -1 and nothing of a removed cell *)
Theorem restrict_subdomain_spec nt elements sub :
  NoDup elements -> Forall (fun e => e < nt) elements ->
  restrict_subdomain nt elements sub
  = map (fun c => Z.of_nat (index_of c elements)) (intersect1d sub elements) /\
  forall i, In (Z.of_nat i) (restrict_subdomain nt elements sub) <->
            i < length elements /\ In (nth i elements 0) sub.
Proof.
  intros Hn Hall.
  assert (Heq : restrict_subdomain nt elements sub
                = map (fun c => Z.of_nat (index_of c elements)) (intersect1d sub elements)).
  { unfold restrict_subdomain. apply map_ext_in. intros c Hc. apply intersect1d_In in Hc.
    apply rank_table_index; tauto. }
  split; [exact Heq|]. intros i. rewrite Heq, in_map_iff. split.
  - intros [c [He Hc]]. apply intersect1d_In in Hc. destruct Hc as [Hs Hel].
    apply Nat2Z.inj in He. subst i.
    destruct (In_nth _ _ 0 Hel) as [k [Hk Hek]]. rewrite <- Hek. rewrite index_of_nth by assumption.
    split; [exact Hk | rewrite Hek; exact Hs].
  - intros [Hi Hs]. exists (nth i elements 0). split.
    + rewrite index_of_nth by assumption. reflexivity.
    + apply intersect1d_In. split; [exact Hs | apply nth_In; exact Hi].
Qed.

Lemma filter_map_comm {A B} (f : A -> B) (g : B -> bool) l : filter g (map f l) = map f (filter (fun x => g (f x)) l).
Proof. induction l as [|x l IH]; simpl; [reflexivity|]. destruct (g (f x)); simpl; rewrite IH; reflexivity. Qed.

(* restrict_boundaries, index level: the new tag lists, in the order of the old tag, the RANK among the kept
   facets of every tagged facet that belongs to a kept cell; facets of removed cells only disappear *)
Theorem restrict_boundary_spec nf t2f elements b :
  Forall (fun f => f < nf) (kept_facets t2f elements) ->
  restrict_boundary nf t2f elements b
  = map (fun f => Z.of_nat (index_of f (kept_facets t2f elements)))
        (filter (fun f => memb f (kept_facets t2f elements)) b).
Proof.
  intros Hall. unfold restrict_boundary. set (K := kept_facets t2f elements) in *.
  assert (HK : NoDup K) by apply sorted_lt_NoDup, unique_nat_sorted.
  rewrite filter_map_comm. 
  transitivity (map (fun f => nth f (scatter K (map Z.of_nat (seq 0 (length K))) (repeat (- 1)%Z nf)) (- 1)%Z)
                    (filter (fun f => memb f K) b)).
  - f_equal. apply filter_ext_in. intros f _.
    destruct (memb f K) eqn:Hm.
    + apply memb_In in Hm. rewrite rank_table_index by assumption. apply Z.leb_le. lia.
    + assert (~ In f K) by (intros H; apply memb_In in H; congruence).
      rewrite rank_table_miss by assumption. reflexivity.
  - apply map_ext_in. intros f Hf. apply filter_In in Hf. destruct Hf as [_ Hm]. apply memb_In in Hm.
    apply rank_table_index; assumption.
Qed.

(* remove_elements = restrict to the complement *)
Lemma setdiff_range_spec n b v : In v (setdiff_range n b) <-> v < n /\ ~ In v b.
Proof.
  unfold setdiff_range. rewrite filter_In, in_seq, negb_true_iff. split.
  - intros [H Hm]. split; [lia|]. intros Hin. apply memb_In in Hin. congruence.
  - intros [H Hn]. split; [lia|]. destruct (memb v b) eqn:Hm; [|reflexivity]. apply memb_In in Hm. contradiction.
Qed.

Lemma setdiff_range_sorted n b : StronglySorted lt (setdiff_range n b).
Proof. apply filter_seq_sorted. Qed.

(* ------------------------------------------------------------------ facet order under a monotone relabelling *)

Definition lex_lt (a b : list nat) : Prop := lex_ltb a b = true.

Lemma lex_ltb_irrefl a : lex_ltb a a = false.
Proof. induction a as [|x a IH]; simpl; [reflexivity|]. rewrite Nat.ltb_irrefl, Nat.eqb_refl, IH. reflexivity. Qed.

Lemma lex_ltb_asym a b : lex_ltb a b = true -> lex_ltb b a = false.
Proof.
  revert b; induction a as [|x a IH]; intros [|y b]; simpl; intros H; try reflexivity; try discriminate.
  apply orb_true_iff in H. destruct H as [H|H].
  - apply Nat.ltb_lt in H. replace (y <? x) with false by (symmetry; apply Nat.ltb_ge; lia).
    replace (y =? x) with false by (symmetry; apply Nat.eqb_neq; lia). reflexivity.
  - apply andb_true_iff in H. destruct H as [He Hl]. apply Nat.eqb_eq in He. subst y.
    rewrite Nat.ltb_irrefl, Nat.eqb_refl. simpl. apply IH. exact Hl.
Qed.

(* rho strictly increasing on the entries of a and b: lexicographic order is preserved *)
Lemma lex_ltb_map (rho : nat -> nat) a b :
  (forall x y, In x (a ++ b) -> In y (a ++ b) -> x < y -> rho x < rho y) ->
  lex_ltb a b = true -> lex_ltb (map rho a) (map rho b) = true.
Proof.
  revert b; induction a as [|x a IH]; intros [|y b] Hm H; simpl in *; try discriminate; try reflexivity.
  apply orb_true_iff in H. apply orb_true_iff. destruct H as [H|H].
  - left. apply Nat.ltb_lt in H. apply Nat.ltb_lt. apply Hm; [left; reflexivity | right; apply in_or_app; right; left; reflexivity | exact H].
  - right. apply andb_true_iff in H. destruct H as [He Hl]. apply Nat.eqb_eq in He. subst y.
    rewrite Nat.eqb_refl. simpl. apply IH; [|exact Hl].
    intros u w Hu Hw. apply Hm; right; apply in_app_or in Hu; apply in_app_or in Hw; apply in_or_app.
    + destruct Hu; [left; assumption | right; right; assumption].
    + destruct Hw; [left; assumption | right; right; assumption].
Qed.

(* two lists sorted by an asymmetric relation and holding the same elements are equal *)
Lemma sorted_same_set_eq {A} (R : A -> A -> Prop) :
  (forall x y, R x y -> ~ R y x) ->
  forall l1 l2, StronglySorted R l1 -> StronglySorted R l2 -> (forall x, In x l1 <-> In x l2) -> l1 = l2.
Proof.
  intros Hasym. induction l1 as [|a1 t1 IH]; intros l2 H1 H2 Hio.
  - destruct l2 as [|a2 t2]; [reflexivity|]. exfalso. apply (proj2 (Hio a2)). left. reflexivity.
  - destruct l2 as [|a2 t2]; [exfalso; apply (proj1 (Hio a1)); left; reflexivity|].
    inversion H1 as [|? ? H1' Hall1]; subst. inversion H2 as [|? ? H2' Hall2]; subst.
    rewrite Forall_forall in Hall1, Hall2.
    assert (Hirr : forall x, ~ R x x) by (intros x Hx; exact (Hasym x x Hx Hx)).
    assert (Heq : a1 = a2).
    { destruct (proj1 (Hio a1) (or_introl eq_refl)) as [He|Hin1]; [now symmetry|].
      destruct (proj2 (Hio a2) (or_introl eq_refl)) as [He|Hin2]; [exact He|].
      exfalso. exact (Hasym _ _ (Hall2 _ Hin1) (Hall1 _ Hin2)). }
    subst a2. f_equal. apply IH; [exact H1' | exact H2'|].
    intros x. split; intros Hx.
    + destruct (proj1 (Hio x) (or_intror Hx)) as [He|H]; [|exact H].
      subst x. exfalso. exact (Hirr _ (Hall1 _ Hx)).
    + destruct (proj2 (Hio x) (or_intror Hx)) as [He|H]; [|exact H].
      subst x. exfalso. exact (Hirr _ (Hall2 _ Hx)).
Qed.

Lemma sorted_gather {A} (R : A -> A -> Prop) (d : A) (F : list A) (K : list nat) :
  StronglySorted R F -> StronglySorted lt K -> Forall (fun k => k < length F) K ->
  StronglySorted R (map (fun k => nth k F d) K).
Proof.
  intros HF HK Hb. induction HK as [|k K HK IH Hall]; simpl; [constructor|].
  inversion Hb as [|? ? Hk Hb']; subst. constructor; [apply IH; exact Hb'|].
  apply Forall_forall. intros x Hx. apply in_map_iff in Hx. destruct Hx as [k' [<- Hk']].
  rewrite Forall_forall in Hall, Hb'. apply (sorted_nth R d F HF); [apply Hall; exact Hk' | apply Hb'; exact Hk'].
Qed.

(* restrict_boundaries, geometric level.  F = facet table of the old mesh (columns as index tuples, strictly
   increasing in lexicographic order, as np.unique(axis=1) delivers), K = kept facet numbers (increasing),
   tab = a vertex relabelling that is strictly increasing on the vertices of the kept facets (reix_table is).
   Then the relabelled kept facets are again strictly increasing, hence ANY strictly increasing facet table F'
   holding exactly these tuples — the facet table of the restricted mesh — lists them in the same order:
   the facet with new number (rank of k in K) is the relabelled old facet k. *)
Theorem relabel_facets_order (F : mat nat) (K : list nat) (tab : list nat) :
  StronglySorted lex_lt F -> StronglySorted lt K -> Forall (fun k => k < length F) K ->
  (forall x y, (exists k, In k K /\ In x (nth k F [])) -> (exists k, In k K /\ In y (nth k F [])) ->
               x < y -> nth x tab 0 < nth y tab 0) ->
  StronglySorted lex_lt (relabel_facets F K tab) /\
  forall F', StronglySorted lex_lt F' -> (forall c, In c F' <-> In c (relabel_facets F K tab)) ->
             F' = relabel_facets F K tab /\
             forall i, i < length K -> nth i F' [] = map (fun v => nth v tab 0) (nth (nth i K 0) F []).
Proof.
  intros HF HK Hb Hmono.
  assert (Hs : StronglySorted lex_lt (relabel_facets F K tab)).
  { unfold relabel_facets.
    assert (Hg := sorted_gather lex_lt [] F K HF HK Hb).
    clear HF. induction K as [|k K IH]; simpl; [constructor|].
    simpl in Hg. inversion Hg as [|? ? Hg' Hall]; subst.
    inversion HK as [|? ? HK' HallK]; subst. inversion Hb as [|? ? Hk Hb']; subst.
    constructor.
    - apply IH; try assumption. intros x y [k1 [Hk1 Hx]] [k2 [Hk2 Hy]]. apply Hmono; [exists k1 | exists k2]; split; try (right; assumption); assumption.
    - apply Forall_forall. intros c Hc. apply in_map_iff in Hc. destruct Hc as [k' [<- Hk']].
      rewrite Forall_forall in Hall. unfold lex_lt. apply lex_ltb_map.
      + intros x y Hx Hy. apply Hmono.
        * apply in_app_or in Hx. destruct Hx as [Hx|Hx]; [exists k; split; [left; reflexivity | exact Hx] | exists k'; split; [right; exact Hk' | exact Hx]].
        * apply in_app_or in Hy. destruct Hy as [Hy|Hy]; [exists k; split; [left; reflexivity | exact Hy] | exists k'; split; [right; exact Hk' | exact Hy]].
      + apply Hall. apply in_map_iff. exists k'. split; [reflexivity | exact Hk']. }
  split; [exact Hs|]. intros F' HF' Hset.
  assert (He : F' = relabel_facets F K tab).
  { apply (sorted_same_set_eq lex_lt); [|exact HF' | exact Hs | exact Hset].
    intros x y Hxy Hyx. unfold lex_lt in *. apply lex_ltb_asym in Hxy. congruence. }
  split; [exact He|]. intros i Hi. rewrite He. unfold relabel_facets.
  rewrite (map_nth_in _ K i 0) by exact Hi. reflexivity.
Qed.

(* ------------------------------------------------------------------ hstack layout of the splits *)

Lemma nth_concat_blocks {A} (d : A) n (blocks : list (list A)) j k :
  Forall (fun b => length b = n) blocks -> j < length blocks -> k < n ->
  nth (k + j * n) (concat blocks) d = nth k (nth j blocks []) d.
Proof.
  revert j; induction blocks as [|b blocks IH]; intros j Hall Hj Hk; simpl in Hj; [lia|].
  inversion Hall as [|? ? Hb Hall']; subst. destruct j as [|j]; simpl.
  - rewrite Nat.add_0_r. apply app_nth1. lia.
  - rewrite app_nth2 by lia. replace (k + (length b + j * length b) - length b) with (k + j * length b) by lia.
    apply IH; [exact Hall' | lia | exact Hk].
Qed.

(* split_spec, index map: column k + j*nt of the split connectivity is child j of parent k, and its i-th vertex
   is the parent's vertex number templates[j][i] *)
Theorem split_rows_spec (t templates : mat nat) (nt i j k : nat) :
  Forall (fun row => length row = nt) t ->
  Forall (fun T => length T = length (nth 0 templates []) /\ Forall (fun r => r < length t) T) templates ->
  i < length (nth 0 templates []) -> j < length templates -> k < nt ->
  nth (k + j * nt) (nth i (split_rows t templates) []) 0
  = nth k (nth (nth i (nth j templates []) 0) t []) 0.
Proof.
  intros Ht HT Hi Hj Hk. destruct templates as [|T0 rest]; [simpl in Hj; lia|]. simpl nth in Hi.
  unfold split_rows.
  rewrite (map_nth_in _ (seq 0 (length T0)) i 0) by (rewrite seq_length; exact Hi).
  rewrite seq_nth by exact Hi. simpl Nat.add.
  rewrite (nth_concat_blocks 0 nt).
  - rewrite (map_nth_in _ (T0 :: rest) j []) by exact Hj. reflexivity.
  - apply Forall_forall. intros b Hb. apply in_map_iff in Hb. destruct Hb as [T [<- HTin]].
    rewrite Forall_forall in HT. destruct (HT T HTin) as [Hlen Hr].
    rewrite Forall_forall in Ht. apply Ht. apply nth_In.
    rewrite Forall_forall in Hr. apply Hr. apply nth_In. simpl in Hlen. lia.
  - rewrite map_length. exact Hj.
  - exact Hk.
Qed.

(* split_spec, subdomains: child c is tagged iff it is one of the nchild children (c / nt) of a tagged parent
   (c mod nt) *)
Theorem split_subdomain_spec nt nchild s c :
  0 < nt -> Forall (fun v => v < nt) s ->
  (In c (split_subdomain nt nchild s) <-> c / nt < nchild /\ In (c mod nt) s).
Proof.
  intros Hnt Hs. rewrite Forall_forall in Hs. unfold split_subdomain. rewrite in_concat. split.
  - intros [blk [Hblk Hc]]. apply in_map_iff in Hblk. destruct Hblk as [j [<- Hj]]. apply in_seq in Hj.
    apply in_map_iff in Hc. destruct Hc as [v [<- Hv]]. specialize (Hs v Hv).
    rewrite Nat.div_add by lia. rewrite Nat.mod_add by lia.
    rewrite Nat.div_small, Nat.mod_small by exact Hs. split; [lia | exact Hv].
  - intros [Hj Hv]. exists (map (fun v => v + (c / nt) * nt) s). split.
    + apply in_map_iff. exists (c / nt). split; [reflexivity | apply in_seq; lia].
    + apply in_map_iff. exists (c mod nt). split; [|exact Hv].
      rewrite (Nat.div_mod c nt) at 3 by lia. lia.
Qed.

(* ------------------------------------------------------------------ transform_spec: determinants under the coordinate maps *)
Local Open Scope Z_scope.

(* scaled: the determinant of the edge vectors is multiplied by the product of the factors *)
Lemma det2_scaled (s0 s1 : Z) (a b c : pt2) :
  let S (p : pt2) := (s0 * fst p, s1 * snd p) in
  det2 (sub2 (S b) (S a)) (sub2 (S c) (S a)) = s0 * s1 * det2 (sub2 b a) (sub2 c a).
Proof. destruct a, b, c. unfold det2, sub2. simpl. ring. Qed.

Lemma det3_scaled (s0 s1 s2 : Z) (a b c d : pt3) :
  let S (p : pt3) := (s0 * x3 p, s1 * y3 p, s2 * z3 p) in
  det3 (sub3 (S b) (S a)) (sub3 (S c) (S a)) (sub3 (S d) (S a))
  = s0 * s1 * s2 * det3 (sub3 b a) (sub3 c a) (sub3 d a).
Proof. destruct a as [[a_1 a_2] a_3], b as [[b_1 b_2] b_3], c as [[c_1 c_2] c_3], d as [[d_1 d_2] d_3]. unfold det3, sub3, x3, y3, z3. simpl. ring. Qed.

(* translated: unchanged *)
Lemma det2_translated (v a b c : pt2) :
  let T (p : pt2) := (fst p + fst v, snd p + snd v) in
  det2 (sub2 (T b) (T a)) (sub2 (T c) (T a)) = det2 (sub2 b a) (sub2 c a).
Proof. destruct v, a, b, c. unfold det2, sub2. simpl. ring. Qed.

Lemma det3_translated (v a b c d : pt3) :
  let T (p : pt3) := (x3 p + x3 v, y3 p + y3 v, z3 p + z3 v) in
  det3 (sub3 (T b) (T a)) (sub3 (T c) (T a)) (sub3 (T d) (T a)) = det3 (sub3 b a) (sub3 c a) (sub3 d a).
Proof. destruct v as [[v_1 v_2] v_3], a as [[a_1 a_2] a_3], b as [[b_1 b_2] b_3], c as [[c_1 c_2] c_3], d as [[d_1 d_2] d_3]. unfold det3, sub3, x3, y3, z3. simpl. ring. Qed.

(* mirrored: p - 2 (n.(p - p0)) n multiplies the determinant by (1 - 2 n.n), i.e. by -1 for a unit normal
   (the code normalises n in floating point: that square root is the runtime part) *)
Lemma det2_mirrored (n p0 a b c : pt2) :
  let M (p : pt2) := let s := fst n * (fst p - fst p0) + snd n * (snd p - snd p0) in
                     (fst p - 2 * s * fst n, snd p - 2 * s * snd n) in
  det2 (sub2 (M b) (M a)) (sub2 (M c) (M a))
  = (1 - 2 * (fst n * fst n + snd n * snd n)) * det2 (sub2 b a) (sub2 c a).
Proof. destruct n as [n1 n2], p0 as [q1 q2], a as [a1 a2], b as [b1 b2], c as [c1 c2]. cbv [det2 sub2 fst snd]. ring. Qed.

Lemma det3_mirrored (n p0 a b c d : pt3) :
  let M (p : pt3) := let s := x3 n * (x3 p - x3 p0) + y3 n * (y3 p - y3 p0) + z3 n * (z3 p - z3 p0) in
                     (x3 p - 2 * s * x3 n, y3 p - 2 * s * y3 n, z3 p - 2 * s * z3 n) in
  det3 (sub3 (M b) (M a)) (sub3 (M c) (M a)) (sub3 (M d) (M a))
  = (1 - 2 * (x3 n * x3 n + y3 n * y3 n + z3 n * z3 n)) * det3 (sub3 b a) (sub3 c a) (sub3 d a).
Proof.
  destruct n as [[n_1 n_2] n_3], p0 as [[p0_1 p0_2] p0_3], a as [[a_1 a_2] a_3], b as [[b_1 b_2] b_3], c as [[c_1 c_2] c_3], d as [[d_1 d_2] d_3].
  cbv [affine3 det3 sub3 x3 y3 z3 fst snd]. ring.
Qed.

(* affine images: the determinant of a child simplex is det(A) times its determinant in the reference cell *)
Lemma det3_affine (o c1 c2 c3 a b c d : pt3) :
  let G := affine3 o c1 c2 c3 in
  det3 (sub3 (G b) (G a)) (sub3 (G c) (G a)) (sub3 (G d) (G a))
  = det3 c1 c2 c3 * det3 (sub3 b a) (sub3 c a) (sub3 d a).
Proof.
  destruct o as [[o_1 o_2] o_3], c1 as [[c1_1 c1_2] c1_3], c2 as [[c2_1 c2_2] c2_3], c3 as [[c3_1 c3_2] c3_3],
           a as [[a_1 a_2] a_3], b as [[b_1 b_2] b_3], c as [[c_1 c_2] c_3], d as [[d_1 d_2] d_3].
  unfold affine3, det3, sub3, x3, y3, z3. simpl. ring.
Qed.

(* every child tetrahedron of an affine image of a reference cell: determinant = det(A) * reference determinant *)
Lemma tet_det_affine (o c1 c2 c3 : pt3) (ref : list pt3) (T : list nat) :
  length T = 4%nat -> Forall (fun r => (r < length ref)%nat) T ->
  tet_det (map (affine3 o c1 c2 c3) ref) T = det3 c1 c2 c3 * tet_det ref T.
Proof.
  intros HT Hall. unfold tet_det.
  assert (Hn : forall i, (i < 4)%nat ->
            nth (nth i T 0%nat) (map (affine3 o c1 c2 c3) ref) (0, 0, 0)
            = affine3 o c1 c2 c3 (nth (nth i T 0%nat) ref (0, 0, 0))).
  { intros i Hi. apply map_nth_in. rewrite Forall_forall in Hall. apply Hall, nth_In. lia. }
  rewrite !Hn by lia. apply det3_affine.
Qed.

Lemma Forall_tet_det_affine (o c1 c2 c3 : pt3) (ref : list pt3) (templates : mat nat) :
  forallb (fun T => (length T =? 4)%nat && forallb (fun r => (r <? length ref)%nat) T) templates = true ->
  Forall (fun T => tet_det (map (affine3 o c1 c2 c3) ref) T = det3 c1 c2 c3 * tet_det ref T) templates.
Proof.
  intros H. apply Forall_forall. intros T HT. rewrite forallb_forall in H. specialize (H T HT).
  apply andb_true_iff in H. destruct H as [H4 Hr]. apply Nat.eqb_eq in H4.
  apply tet_det_affine; [exact H4|]. apply Forall_forall. intros r Hin.
  rewrite forallb_forall in Hr. apply Nat.ltb_lt. apply Hr. exact Hin.
Qed.

(* ------------------------------------------------------------------ extrusion *)
Local Close Scope Z_scope.
(* extrude_spec: prism k + l*nt of MeshTri1 * MeshLine1 has the triangle k of layer l (vertices v + l*nv) as its
   first rows and the same triangle of layer l+1 as its last rows *)
Theorem extrude_t_spec (nv nlayers nt : nat) (t : mat nat) (i l k : nat) :
  Forall (fun row => length row = nt) t -> i < 2 * length t -> l < nlayers - 1 -> k < nt ->
  nth (k + l * nt) (nth i (extrude_t nv nlayers t) []) 0
  = if i <? length t then nth k (nth i t []) 0 + l * nv
    else nth k (nth (i - length t) t []) 0 + nv + l * nv.
Proof.
  intros Ht Hi Hl Hk. unfold extrude_t.
  rewrite (map_nth_in _ (seq 0 (2 * length t)) i 0) by (rewrite seq_length; exact Hi).
  rewrite seq_nth by exact Hi. simpl Nat.add.
  set (B := fun l0 => map (map (fun v => v + l0 * nv)) t ++ map (map (fun v => v + nv + l0 * nv)) t).
  assert (Hrow : forall l0, length (nth i (B l0) []) = nt).
  { intros l0. unfold B. rewrite Forall_forall in Ht. destruct (Nat.lt_ge_cases i (length t)) as [Hlt|Hge].
    - rewrite app_nth1 by (rewrite map_length; exact Hlt).
      rewrite (map_nth_in _ t i []) by exact Hlt. rewrite map_length. apply Ht, nth_In. exact Hlt.
    - rewrite app_nth2 by (rewrite map_length; exact Hge). rewrite map_length.
      rewrite (map_nth_in _ t (i - length t) []) by lia. rewrite map_length. apply Ht, nth_In. lia. }
  rewrite map_map. rewrite (nth_concat_blocks 0 nt).
  - rewrite (map_nth_in _ (seq 0 (nlayers - 1)) l 0) by (rewrite seq_length; exact Hl).
    rewrite seq_nth by exact Hl. simpl Nat.add. fold (B l). unfold B.
    destruct (Nat.ltb_spec i (length t)) as [Hlt|Hge].
    + rewrite app_nth1 by (rewrite map_length; exact Hlt).
      rewrite (map_nth_in _ t i []) by exact Hlt.
      rewrite Forall_forall in Ht.
      rewrite (map_nth_in _ (nth i t []) k 0) by (rewrite (Ht (nth i t [])) by (apply nth_In; exact Hlt); exact Hk).
      reflexivity.
    + rewrite app_nth2 by (rewrite map_length; exact Hge). rewrite map_length.
      rewrite (map_nth_in _ t (i - length t) []) by lia.
      rewrite Forall_forall in Ht.
      rewrite (map_nth_in _ (nth (i - length t) t []) k 0)
        by (rewrite (Ht (nth (i - length t) t [])) by (apply nth_In; lia); exact Hk).
      reflexivity.
  - apply Forall_forall. intros b Hb. apply in_map_iff in Hb. destruct Hb as [l0 [<- _]]. apply Hrow.
  - rewrite map_length, seq_length. exact Hl.
  - exact Hk.
Qed.

(* ------------------------------------------------------------------ facet carry-over of to_meshtri (one shared iterator) *)
Lemma nats_same_eq a b : nats_same a b = true <-> a = b.
Proof.
  unfold nats_same. revert b. induction a as [|x a IH]; intros [|y b]; simpl; split; intros H; try reflexivity; try discriminate.
  - apply andb_true_iff in H. destruct H as [Hl H]. apply andb_true_iff in H. destruct H as [Hxy H].
    apply Nat.eqb_eq in Hxy. simpl in Hxy. subst y. f_equal. apply IH. apply andb_true_iff. split; [exact Hl | exact H].
  - inversion H; subst. rewrite Nat.eqb_refl. simpl. rewrite Nat.eqb_refl. simpl.
    assert (H' : (length b =? length b) && forallb (fun xy => fst xy =? snd xy) (combine b b) = true) by (apply IH; reflexivity).
    apply andb_true_iff in H'. exact (proj2 H').
Qed.

Lemma lex_ltb_trans a b c : lex_ltb a b = true -> lex_ltb b c = true -> lex_ltb a c = true.
Proof.
  revert b c; induction a as [|x a IH]; intros [|y b] [|z c]; simpl; intros H1 H2; try discriminate; try reflexivity.
  apply orb_true_iff in H1. apply orb_true_iff in H2. apply orb_true_iff.
  destruct H1 as [H1|H1], H2 as [H2|H2].
  - left. apply Nat.ltb_lt in H1. apply Nat.ltb_lt in H2. apply Nat.ltb_lt. lia.
  - apply andb_true_iff in H2. destruct H2 as [He _]. apply Nat.eqb_eq in He. subst. left. exact H1.
  - apply andb_true_iff in H1. destruct H1 as [He _]. apply Nat.eqb_eq in He. subst. left. exact H2.
  - apply andb_true_iff in H1. apply andb_true_iff in H2. destruct H1 as [He1 Hl1], H2 as [He2 Hl2].
    apply Nat.eqb_eq in He1. apply Nat.eqb_eq in He2. subst. right. rewrite Nat.eqb_refl. simpl. exact (IH _ _ Hl1 Hl2).
Qed.

(* the shared-iterator scan finds every target when targets and slots are both strictly increasing in lexicographic
   order and every target occurs among the slots: the j-th result is the slot number of the j-th target *)
Lemma scan_all_sorted (targets L : mat nat) (s : nat) :
  StronglySorted lex_lt targets -> StronglySorted lex_lt L -> (forall f, In f targets -> In f L) ->
  exists idx, scan_all targets (combine (seq s (length L)) L) = Some idx /\ length idx = length targets /\
              forall j, j < length targets -> s <= nth j idx 0 /\ nth (nth j idx 0 - s) L [] = nth j targets [].
Proof.
  revert L s. induction targets as [|f fs IH]; intros L s Ht HL Hin.
  - exists []. repeat split; simpl in *; lia.
  - inversion Ht as [|? ? Ht' Hall]; subst. rewrite Forall_forall in Hall.
    (* find f in L *)
    revert s. induction L as [|x L IHL]; intros s.
    + exfalso. exact (Hin f (or_introl eq_refl)).
    + inversion HL as [|? ? HL' HallL]; subst. rewrite Forall_forall in HallL.
      simpl. destruct (nats_same f x) eqn:Hs.
      * apply nats_same_eq in Hs. subst x.
        assert (Hin' : forall g, In g fs -> In g L).
        { intros g Hg. destruct (Hin g (or_intror Hg)) as [He|H]; [|exact H].
          subst g. specialize (Hall f Hg). unfold lex_lt in Hall. rewrite lex_ltb_irrefl in Hall. discriminate. }
        destruct (IH L (S s) Ht' HL' Hin') as [idx [Hsc [Hlen Hidx]]].
        exists (s :: idx). rewrite Hsc. split; [reflexivity|]. split; [simpl; lia|].
        intros [|j] Hj; simpl.
        -- split; [lia|]. rewrite Nat.sub_diag. reflexivity.
        -- simpl in Hj. destruct (Hidx j ltac:(lia)) as [Hge He]. split; [lia|].
           replace (nth j idx 0 - s) with (S (nth j idx 0 - S s)) by lia. exact He.
      * assert (Hne : f <> x) by (intros He; subst; assert (nats_same x x = true) by (apply nats_same_eq; reflexivity); congruence).
        assert (HfL : In f L) by (destruct (Hin f (or_introl eq_refl)) as [He|H]; [congruence | exact H]).
        assert (Hxf : lex_lt x f) by (apply HallL; exact HfL).
        assert (Hin' : forall g, In g (f :: fs) -> In g L).
        { intros g [<-|Hg]; [exact HfL|]. destruct (Hin g (or_intror Hg)) as [He|H]; [|exact H].
          subst g. specialize (Hall x Hg). unfold lex_lt in *. apply lex_ltb_asym in Hall. congruence. }
        destruct (IHL HL' Hin' (S s)) as [idx [Hsc [Hlen Hidx]]].
        exists idx. simpl in Hsc. rewrite Hsc. split; [reflexivity|]. split; [exact Hlen|].
        intros j Hj. destruct (Hidx j Hj) as [Hge He]. split; [lia|].
        replace (nth j idx 0 - s) with (S (nth j idx 0 - S s)) by lia. exact He.
Qed.

Lemma insert_nat_perm x l : Permutation (insert_nat x l) (x :: l).
Proof.
  induction l as [|y l IH]; simpl; [reflexivity|]. destruct (x <=? y); [reflexivity|]. rewrite IH. apply perm_swap.
Qed.
Lemma sort_nat_perm l : Permutation (sort_nat l) l.
Proof. induction l as [|x l IH]; simpl; [reflexivity|]. rewrite insert_nat_perm. constructor. exact IH. Qed.
Lemma insert_nat_sorted x l : StronglySorted le l -> StronglySorted le (insert_nat x l).
Proof.
  induction l as [|y l IH]; intros Hs; simpl; [repeat constructor|].
  inversion Hs as [|? ? Hs' Hall]; subst. destruct (Nat.leb_spec x y) as [Hle|Hgt].
  - constructor; [exact Hs|]. constructor; [exact Hle|]. eapply Forall_impl; [|exact Hall]. intros z Hz. simpl in Hz. lia.
  - constructor; [apply IH; exact Hs'|].
    apply (Permutation_Forall (Permutation_sym (insert_nat_perm x l))). constructor; [lia | exact Hall].
Qed.
Lemma sort_nat_sorted_lt l : NoDup l -> StronglySorted lt (sort_nat l).
Proof.
  intros Hn.
  assert (Hle : StronglySorted le (sort_nat l)) by (induction l as [|x l IH]; simpl; [constructor | apply insert_nat_sorted, IH; inversion Hn; assumption]).
  assert (Hnd : NoDup (sort_nat l)) by (eapply Permutation_NoDup; [apply Permutation_sym, sort_nat_perm | exact Hn]).
  clear Hn. induction Hle as [|a t Hs IH Hall]; [constructor|].
  inversion Hnd as [|? ? Hna Hnt]; subst. constructor; [apply IH; exact Hnt|].
  rewrite Forall_forall in *. intros y Hy. specialize (Hall y Hy).
  destruct (Nat.eq_dec a y) as [->|Hne]; [contradiction | lia].
Qed.

(* split_spec, facet carry-over of to_meshtri.  OF / NF = facet tables of the quadrilateral mesh and of the triangle
   mesh (strictly increasing in lexicographic order), b = a named boundary (any order, duplicate-free) all of whose
   facets are still facets of the triangle mesh.  The scan over ONE shared iterator then succeeds (no StopIteration)
   and the j-th returned number designates the facet with the same vertex pair as the j-th smallest tagged facet. *)
Theorem carry_boundary_spec (OF NF : mat nat) (b : list nat) :
  StronglySorted lex_lt OF -> StronglySorted lex_lt NF -> NoDup b -> Forall (fun k => k < length OF) b ->
  (forall k, In k b -> In (nth k OF []) NF) ->
  exists idx, carry_boundary OF NF b = Some idx /\ length idx = length b /\
              forall j, j < length b -> nth (nth j idx 0) NF [] = nth (nth j (sort_nat b) 0) OF [].
Proof.
  intros HOF HNF Hnd Hb Hin. unfold carry_boundary.
  assert (Hp := sort_nat_perm b).
  assert (Hs : StronglySorted lex_lt (map (fun k => nth k OF []) (sort_nat b))).
  { apply sorted_gather; [exact HOF | apply sort_nat_sorted_lt; exact Hnd|].
    apply (Permutation_Forall (Permutation_sym Hp)). exact Hb. }
  assert (Hmem : forall f, In f (map (fun k => nth k OF []) (sort_nat b)) -> In f NF).
  { intros f Hf. apply in_map_iff in Hf. destruct Hf as [k [<- Hk]]. apply Hin. eapply Permutation_in; [exact Hp | exact Hk]. }
  destruct (scan_all_sorted _ NF 0 Hs HNF Hmem) as [idx [Hsc [Hlen Hidx]]].
  exists idx. split; [exact Hsc|]. rewrite map_length in Hlen, Hidx.
  rewrite (Permutation_length Hp) in Hlen, Hidx. split; [exact Hlen|].
  intros j Hj. destruct (Hidx j Hj) as [_ He]. rewrite Nat.sub_0_r in He. rewrite He.
  apply (map_nth_in (fun k => nth k OF []) (sort_nat b) j 0 []). rewrite (Permutation_length Hp). exact Hj.
Qed.

(* ------------------------------------------------------------------ join / remove_duplicate_nodes *)
Definition lexz_lt (a b : key) : Prop := lexz_ltb a b = true.

Lemma lexz_irrefl a : lexz_ltb a a = false.
Proof. induction a as [|x a IH]; simpl; [reflexivity|]. rewrite Z.ltb_irrefl, Z.eqb_refl, IH. reflexivity. Qed.

Lemma lexz_trans a b c : lexz_ltb a b = true -> lexz_ltb b c = true -> lexz_ltb a c = true.
Proof.
  revert b c; induction a as [|x a IH]; intros [|y b] [|z c]; simpl; intros H1 H2; try discriminate; try reflexivity.
  apply orb_true_iff in H1. apply orb_true_iff in H2. apply orb_true_iff.
  destruct H1 as [H1|H1], H2 as [H2|H2].
  - left. apply Z.ltb_lt in H1. apply Z.ltb_lt in H2. apply Z.ltb_lt. lia.
  - apply andb_true_iff in H2. destruct H2 as [He _]. apply Z.eqb_eq in He. subst. left. exact H1.
  - apply andb_true_iff in H1. destruct H1 as [He _]. apply Z.eqb_eq in He. subst. left. exact H2.
  - apply andb_true_iff in H1. apply andb_true_iff in H2. destruct H1 as [He1 Hl1], H2 as [He2 Hl2].
    apply Z.eqb_eq in He1. apply Z.eqb_eq in He2. subst. right. rewrite Z.eqb_refl. simpl. exact (IH _ _ Hl1 Hl2).
Qed.

Lemma lexz_asym a b : lexz_ltb a b = true -> lexz_ltb b a = false.
Proof.
  intros H. destruct (lexz_ltb b a) eqn:Hb; [|reflexivity].
  assert (Hc := lexz_trans _ _ _ H Hb). rewrite lexz_irrefl in Hc. discriminate.
Qed.

Lemma lexz_total a b : lexz_ltb a b = false -> zs_eqb a b = false -> lexz_ltb b a = true.
Proof.
  revert b; induction a as [|x a IH]; intros [|y b]; simpl; intros H1 H2; try discriminate; try reflexivity.
  apply orb_false_iff in H1. destruct H1 as [Hlt H1]. apply Z.ltb_ge in Hlt.
  destruct (Z.eqb_spec x y) as [->|Hne].
  - simpl in H1. rewrite Z.ltb_irrefl, Z.eqb_refl. simpl. apply IH; [exact H1|].
    unfold zs_eqb in *. simpl in H2. rewrite Z.eqb_refl in H2. exact H2.
  - apply orb_true_iff. left. apply Z.ltb_lt. lia.
Qed.

Lemma zs_eqb_refl a : zs_eqb a a = true.
Proof. apply zs_eqb_eq. reflexivity. Qed.

Lemma insert_key_In k l y : In y (insert_key k l) <-> y = k \/ In y l.
Proof.
  induction l as [|x l IH]; simpl; [intuition|].
  destruct (lexz_ltb k x); simpl; [intuition|].
  destruct (zs_eqb k x) eqn:He.
  - apply zs_eqb_eq in He. subst. simpl. intuition.
  - simpl. rewrite IH. intuition.
Qed.

Lemma insert_key_sorted k l : StronglySorted lexz_lt l -> StronglySorted lexz_lt (insert_key k l).
Proof.
  induction l as [|x l IH]; intros Hs; simpl; [repeat constructor|].
  inversion Hs as [|? ? Hs' Hall]; subst.
  destruct (lexz_ltb k x) eqn:Hlt.
  - constructor; [exact Hs|]. constructor; [exact Hlt|].
    eapply Forall_impl; [|exact Hall]. intros z Hz. exact (lexz_trans _ _ _ Hlt Hz).
  - destruct (zs_eqb k x) eqn:He; [exact Hs|].
    constructor; [apply IH; exact Hs'|].
    apply Forall_forall. intros y Hy. apply insert_key_In in Hy. destruct Hy as [->|Hy].
    + exact (lexz_total _ _ Hlt He).
    + rewrite Forall_forall in Hall. exact (Hall y Hy).
Qed.

Lemma unique_keys_sorted ks : StronglySorted lexz_lt (unique_keys ks).
Proof. induction ks as [|k ks IH]; simpl; [constructor | apply insert_key_sorted, IH]. Qed.

Lemma unique_keys_In ks y : In y (unique_keys ks) <-> In y ks.
Proof. induction ks as [|k ks IH]; simpl; [tauto|]. rewrite insert_key_In, IH. intuition. Qed.

Lemma lexz_sorted_NoDup l : StronglySorted lexz_lt l -> NoDup l.
Proof.
  induction 1 as [|a l Hs IH Hall]; constructor; [|exact IH].
  intros Hin. rewrite Forall_forall in Hall. specialize (Hall a Hin). unfold lexz_lt in Hall.
  rewrite lexz_irrefl in Hall. discriminate.
Qed.

Lemma index_key_hit k l : In k l -> index_key k l < length l /\ nth (index_key k l) l [] = k.
Proof.
  induction l as [|x l IH]; intros Hin; [contradiction|]. simpl.
  destruct (zs_eqb k x) eqn:He.
  - apply zs_eqb_eq in He. subst. simpl. split; [lia | reflexivity].
  - destruct Hin as [->|Hin]; [rewrite zs_eqb_refl in He; discriminate|].
    destruct (IH Hin) as [H1 H2]. simpl. split; [lia | exact H2].
Qed.

(* p[:, ixa] is the strictly increasing list of the distinct coordinate tuples *)
Lemma dedupe_p_eq p : dedupe_p p = unique_keys p.
Proof.
  unfold dedupe_p, gather. rewrite map_map.
  transitivity (map (fun k : key => k) (unique_keys p)); [|apply map_id].
  apply map_ext_in. intros k Hk. apply (proj1 (unique_keys_In p k)) in Hk. apply index_key_hit. exact Hk.
Qed.

(* join_spec / remove_duplicate_nodes: (1) the new point table has pairwise distinct columns and exactly the old
   coordinate tuples; (2) every vertex keeps its coordinates; (3) two vertices are merged iff coordinate-equal *)
Theorem dedupe_spec (p : list key) :
  NoDup (dedupe_p p) /\ (forall k, In k (dedupe_p p) <-> In k p) /\
  (forall v, v < length p -> nth v (dedupe_inverse p) 0 < length (dedupe_p p) /\
                             nth (nth v (dedupe_inverse p) 0) (dedupe_p p) [] = nth v p []) /\
  (forall v w, v < length p -> w < length p ->
     (nth v (dedupe_inverse p) 0 = nth w (dedupe_inverse p) 0 <-> nth v p [] = nth w p [])).
Proof.
  rewrite dedupe_p_eq.
  assert (Hinv : forall v, v < length p -> nth v (dedupe_inverse p) 0 = index_key (nth v p []) (unique_keys p)).
  { intros v Hv. unfold dedupe_inverse. apply (map_nth_in (fun k => index_key k (unique_keys p)) p v [] 0). exact Hv. }
  assert (Hhit : forall v, v < length p -> index_key (nth v p []) (unique_keys p) < length (unique_keys p) /\
                                         nth (index_key (nth v p []) (unique_keys p)) (unique_keys p) [] = nth v p []).
  { intros v Hv. apply index_key_hit. apply unique_keys_In. apply nth_In. exact Hv. }
  split; [apply lexz_sorted_NoDup, unique_keys_sorted|].
  split; [apply unique_keys_In|].
  split.
  - intros v Hv. rewrite (Hinv v Hv). apply Hhit. exact Hv.
  - intros v w Hv Hw. rewrite (Hinv v Hv), (Hinv w Hw). split.
    + intros He. destruct (Hhit v Hv) as [_ H1]. destruct (Hhit w Hw) as [_ H2]. rewrite <- H1, <- H2, He. reflexivity.
    + intros He. rewrite He. reflexivity.
Qed.

(* cells keep their vertex coordinates *)
Theorem dedupe_cells (p : list key) (t : mat nat) r c :
  r < length t -> c < length (nth r t []) -> nth c (nth r t []) 0 < length p ->
  nth (nth c (nth r (dedupe_t p t) []) 0) (dedupe_p p) [] = nth (nth c (nth r t []) 0) p [].
Proof.
  intros Hr Hc Hv. unfold dedupe_t.
  rewrite (map_nth_in _ t r [] []) by exact Hr.
  rewrite (map_nth_in _ (nth r t []) c 0 0) by exact Hc.
  apply (proj1 (proj2 (proj2 (dedupe_spec p)))). exact Hv.
Qed.

Lemma hstack2_nth t1 t2 r : r < length t1 -> r < length t2 ->
  nth r (hstack2 t1 t2) [] = nth r t1 [] ++ nth r t2 [].
Proof.
  revert t2 r; induction t1 as [|r1 t1 IH]; intros [|r2 t2] r H1 H2; simpl in *; try lia.
  destruct r as [|r]; [reflexivity | apply IH; lia].
Qed.
Lemma hstack2_length t1 t2 : length (hstack2 t1 t2) = Nat.min (length t1) (length t2).
Proof. revert t2; induction t1 as [|r1 t1 IH]; intros [|r2 t2]; simpl; try reflexivity. now rewrite IH. Qed.

(* join_spec: in m1 + m2 the cells of m1 come first and keep their vertex coordinates, the cells of m2 follow
   and keep theirs (vertex numbers shifted by |p1| before the merge) *)
Theorem join_cells (p1 p2 : list key) (t1 t2 : mat nat) (nt1 : nat) r c :
  length t1 = length t2 -> r < length t1 -> Forall (fun row => length row = nt1) t1 ->
  (c < nt1 -> nth c (nth r t1 []) 0 < length p1 ->
     nth (nth c (nth r (join_t p1 p2 t1 t2) []) 0) (join_p p1 p2) [] = nth (nth c (nth r t1 []) 0) p1 []) /\
  (forall c2, c = nt1 + c2 -> c2 < length (nth r t2 []) -> nth c2 (nth r t2 []) 0 < length p2 ->
     nth (nth c (nth r (join_t p1 p2 t1 t2) []) 0) (join_p p1 p2) [] = nth (nth c2 (nth r t2 []) 0) p2 []).
Proof.
  intros Hlen Hr Hrows. unfold join_t, join_p.
  set (t2s := map (map (fun v => v + length p1)) t2).
  assert (Hr2 : r < length t2s) by (unfold t2s; rewrite map_length; lia).
  assert (Hrow : nth r (hstack2 t1 t2s) [] = nth r t1 [] ++ nth r t2s []) by (apply hstack2_nth; assumption).
  assert (Hl1 : length (nth r t1 []) = nt1) by (rewrite Forall_forall in Hrows; apply Hrows, nth_In; exact Hr).
  assert (Hrs : nth r t2s [] = map (fun v => v + length p1) (nth r t2 [])).
  { unfold t2s. apply (map_nth_in (map (fun v => v + length p1)) t2 r [] []). lia. }
  assert (HrH : r < length (hstack2 t1 t2s)) by (rewrite hstack2_length; lia).
  split.
  - intros Hc Hv. rewrite dedupe_cells; rewrite ?Hrow.
    + rewrite (app_nth1 (nth r t1 []) (nth r t2s []) 0) by lia. apply app_nth1. exact Hv.
    + exact HrH.
    + rewrite app_length. lia.
    + rewrite (app_nth1 (nth r t1 []) (nth r t2s []) 0) by lia. rewrite app_length. lia.
  - intros c2 -> Hc2 Hv.
    assert (Hn : nth (nt1 + c2) (nth r t1 [] ++ nth r t2s []) 0 = nth c2 (nth r t2 []) 0 + length p1).
    { rewrite (app_nth2 (nth r t1 []) (nth r t2s []) 0) by lia. rewrite Hl1. replace (nt1 + c2 - nt1) with c2 by lia. rewrite Hrs.
      apply (map_nth_in (fun v => v + length p1) (nth r t2 []) c2 0 0). exact Hc2. }
    rewrite dedupe_cells; rewrite ?Hrow.
    + rewrite Hn. rewrite (app_nth2 p1 p2 []) by lia. f_equal. lia.
    + exact HrH.
    + rewrite app_length, Hl1, Hrs, map_length. lia.
    + rewrite Hn, app_length. lia.
Qed.

(* ------------------------------------------------------------------ remove_duplicate_nodes: boundary remapping *)
Section Remap.
  Variable canon : list nat -> list nat.
  Variables (nslots : nat) (newp : list nat) (F F' : mat nat) (t2f' : mat nat) (f2t0 : list nat).
  Local Notation matches := (matches canon newp F F' t2f' f2t0).
  Local Notation newf := (newf canon nslots newp F F' t2f' f2t0).
  Local Notation cand := (cand t2f' f2t0).
  Lemma first_true_spec g n k :
    (exists s, k <= s < k + n /\ g s = true) ->
    k <= first_true g n k < k + n /\ g (first_true g n k) = true /\
    forall s, k <= s < first_true g n k -> g s = false.
  Proof.
    revert k. induction n as [|n IH]; intros k [s [Hs Hg]]; [lia|]. simpl.
    destruct (g k) eqn:Hk.
    - split; [lia|]. split; [exact Hk|]. intros s' Hs'. lia.
    - assert (Hex : exists s0, S k <= s0 < S k + n /\ g s0 = true).
      { exists s. split; [|exact Hg]. destruct (Nat.eq_dec s k) as [->|]; [congruence | lia]. }
      destruct (IH (S k) Hex) as [H1 [H2 H3]]. split; [lia|]. split; [exact H2|].
      intros s' Hs'. destruct (Nat.eq_dec s' k) as [->|]; [exact Hk | apply H3; lia].
  Qed.


  (* remap_spec: if the relabelled facet f is a facet of its owner cell in the new mesh (some slot matches), the
     number found designates a new facet with the same canonical (merged) vertex tuple, and it is one of the facets
     of that cell *)
  Theorem newf_spec (f : nat) :
    (exists s, s < nslots /\ matches s f = true) ->
    canon (nth (newf f) F' []) = canon (map (fun v => nth v newp 0) (nth f F [])) /\
    exists s, s < nslots /\ newf f = cand s f.
  Proof.
    intros [s [Hs Hm]].
    assert (Hex : exists s0, 0 <= s0 < 0 + nslots /\ (fun s => matches s f) s0 = true) by (exists s; split; [lia | exact Hm]).
    destruct (first_true_spec _ nslots 0 Hex) as [Hr [Hg _]].
    unfold C18_Surgery.newf, argmax_slot. set (r := first_true (fun s0 => matches s0 f) nslots 0) in *.
    replace (r <? nslots) with true by (symmetry; apply Nat.ltb_lt; lia).
    split; [|exists r; split; [lia | reflexivity]].
    unfold C18_Surgery.matches in Hg. apply nats_same_eq in Hg. exact Hg.
  Qed.
End Remap.
(* plain boundaries: np.unique(newf[ixs]) — increasing, exactly the images of the tagged facets *)
Theorem remap_plain_spec (nf : nat -> nat) (ixs : list nat) :
  StronglySorted lt (unique_nat (map nf ixs)) /\
  forall g, In g (unique_nat (map nf ixs)) <-> exists f, In f ixs /\ g = nf f.
Proof.
  split; [apply unique_nat_sorted|]. intros g. rewrite unique_nat_In, in_map_iff. split.
  - intros [f [He Hf]]. exists f. split; [exact Hf | now symmetry].
  - intros [f [Hf He]]. exists f. split; [now symmetry | exact Hf].
Qed.


(* oriented boundaries: if the old owner cell c of the tagged side is one of the two (distinct) cells of the new facet,
   the new flag again selects c: the boundary keeps its side *)
Theorem remap_oriented_keeps_side (f2t0' f2t1' : list Z) (g : nat) (c : Z) :
  nth g f2t0' (- 1)%Z <> nth g f2t1' (- 1)%Z ->
  (c = nth g f2t0' (- 1)%Z \/ c = nth g f2t1' (- 1)%Z) ->
  nth g (if remap_flag f2t1' g c then f2t1' else f2t0') (- 1)%Z = c.
Proof.
  intros Hne Hc. unfold remap_flag. destruct (Z.eqb_spec (nth g f2t1' (- 1)%Z) c) as [He|Hn].
  - exact He.
  - destruct Hc as [Hc|Hc]; [now symmetry | congruence].
Qed.

(* newp = zeros; newp[self.t] = t' : a scatter with repeated indices whose values agree *)
Lemma scatter_consistent {A} (idx : list nat) (vals arr : list A) (i : nat) (v d : A) :
  length vals = length idx -> i < length arr ->
  (forall k, k < length idx -> nth k idx 0 = i -> nth k vals d = v) ->
  (In i idx \/ nth i arr d = v) -> nth i (scatter idx vals arr) d = v.
Proof.
  revert vals arr. induction idx as [|i0 idx IH]; intros vals arr Hl Hi Hc Hor.
  - destruct vals; [|discriminate]. destruct Hor as [[]|H]. exact H.
  - destruct vals as [|v0 vals]; [discriminate|]. rewrite scatter_cons. apply IH.
    + simpl in Hl. lia.
    + rewrite set_nth_length. exact Hi.
    + intros k Hk He. apply (Hc (S k)); simpl; [lia | exact He].
    + destruct (Nat.eq_dec i0 i) as [->|Hne].
      * right. rewrite nth_set_nth_eq by exact Hi. apply (Hc 0); simpl; [lia | reflexivity].
      * destruct Hor as [[He|Hin]|Harr]; [contradiction | left; exact Hin | right].
        rewrite nth_set_nth_neq by exact Hne. exact Harr.
Qed.


(* newp really is the vertex relabelling: every vertex in use gets the number all its occurrences got *)
Theorem remap_newp_spec (npts : nat) (g : nat -> nat) (t : mat nat) (v : nat) :
  In v (concat t) -> v < npts -> nth v (remap_newp npts t (map (map g) t)) 0 = g v.
Proof.
  intros Hin Hv. unfold remap_newp.
  assert (Hc : concat (map (map g) t) = map g (concat t)) by (rewrite concat_map; reflexivity).
  rewrite Hc. apply scatter_consistent.
  - apply map_length.
  - rewrite repeat_length. exact Hv.
  - intros k Hk He. rewrite (map_nth_in g (concat t) k 0 0) by exact Hk. rewrite He. reflexivity.
  - left. exact Hin.
Qed.

(* ------------------------------------------------------------------ morphed *)
Lemma morphed_fold {R} (orig : list R) (args : list (option (list R -> R))) (st : list R) (k : nat) (d : R) i :
  length st = length orig -> k + length args <= length orig ->
  (k <= i < k + length args ->
     nth i (fst (fold_left (morph_step orig) args (st, k))) d
     = match nth (i - k) args None with Some f => f orig | None => nth i st d end) /\
  (~ (k <= i < k + length args) -> nth i (fst (fold_left (morph_step orig) args (st, k))) d = nth i st d).
Proof.
  revert st k. induction args as [|a args IH]; intros st k Hl Hb; simpl in *.
  - split; [lia | reflexivity].
  - set (st' := match a with Some f => set_nth k (f orig) st | None => st end).
    assert (Hl' : length st' = length orig) by (unfold st'; destruct a; [rewrite set_nth_length|]; exact Hl).
    change (fold_left (morph_step orig) args (morph_step orig (st, k) a))
      with (fold_left (morph_step orig) args (st', S k)).
    destruct (IH st' (S k) Hl' ltac:(lia)) as [Hin Hout].
    assert (Hne : i <> k -> nth i st' d = nth i st d)
      by (intros H; unfold st'; destruct a; [apply nth_set_nth_neq; lia | reflexivity]).
    split.
    + intros Hi. destruct (Nat.eq_dec i k) as [->|Hik].
      * rewrite Hout by lia. rewrite Nat.sub_diag. simpl. unfold st'.
        destruct a as [f|]; [apply nth_set_nth_eq; lia | reflexivity].
      * rewrite Hin by lia. replace (i - k) with (S (i - S k)) by lia. simpl.
        destruct (nth (i - S k) args None); [reflexivity | apply Hne; exact Hik].
    + intros Hi. rewrite Hout by lia. apply Hne. lia.
Qed.

(* morphed_spec: row i of the result is arg_i applied to the ORIGINAL coordinates (or the old row if arg_i is None or
   absent) — no coordinate function ever sees a coordinate that another one has already replaced *)
Theorem morphed_rows_spec {R} (p : list R) (args : list (option (list R -> R))) (d : R) (i : nat) :
  length args <= length p -> i < length p ->
  nth i (morphed_rows p args) d = match nth i args None with Some f => f p | None => nth i p d end.
Proof.
  intros Ha Hi. unfold morphed_rows.
  destruct (morphed_fold p args p 0 d i eq_refl ltac:(simpl; lia)) as [Hin Hout].
  destruct (Nat.lt_ge_cases i (length args)) as [H|H].
  - rewrite Hin by lia. rewrite Nat.sub_0_r. reflexivity.
  - rewrite Hout by lia. rewrite (nth_overflow args None) by lia. reflexivity.
Qed.


(* ------------------------------------------------------------------ oriented *)
Theorem swap_rows01_spec (flip : list bool) (r0 r1 : list nat) (rest : mat nat) (e : nat) :
  length flip = length r0 -> length r1 = length r0 -> e < length r0 ->
  let t' := swap_rows01 flip (r0 :: r1 :: rest) in
  nth e (nth 0 t' []) 0 = (if nth e flip false then nth e r1 0 else nth e r0 0) /\
  nth e (nth 1 t' []) 0 = (if nth e flip false then nth e r0 0 else nth e r1 0) /\
  (forall r, 2 <= r -> nth r t' [] = nth r (r0 :: r1 :: rest) []).
Proof.
  intros Hf H1 He. simpl.
  assert (Hc : nth e (combine flip (combine r0 r1)) (false, (0, 0)) = (nth e flip false, (nth e r0 0, nth e r1 0))).
  { rewrite combine_nth by (rewrite combine_length; lia). rewrite combine_nth by lia. reflexivity. }
  assert (Hlen : e < length (combine flip (combine r0 r1))) by (rewrite !combine_length; lia).
  split; [|split].
  - rewrite (map_nth_in _ _ e (false, (0, 0)) 0) by exact Hlen. rewrite Hc. reflexivity.
  - rewrite (map_nth_in _ _ e (false, (0, 0)) 0) by exact Hlen. rewrite Hc. reflexivity.
  - intros r Hr. destruct r as [|[|r]]; try lia. reflexivity.
Qed.

Local Open Scope Z_scope.
(* exchanging the first two vertices of a simplex negates its determinant: flipping exactly the negatively oriented
   cells makes every cell positive *)
Lemma det2_swap (a b c : pt2) : det2 (sub2 a b) (sub2 c b) = - det2 (sub2 b a) (sub2 c a).
Proof. destruct a as [a1 a2], b as [b1 b2], c as [c1 c2]. cbv [det2 sub2 fst snd]. ring. Qed.
Lemma det3_swap (a b c d : pt3) :
  det3 (sub3 a b) (sub3 c b) (sub3 d b) = - det3 (sub3 b a) (sub3 c a) (sub3 d a).
Proof.
  destruct a as [[a1 a2] a3], b as [[b1 b2] b3], c as [[c1 c2] c3], d as [[d1 d2] d3].
  cbv [det3 sub3 x3 y3 z3 fst snd]. ring.
Qed.
(* morphed by a shear / any affine map of the plane multiplies determinants by the map's determinant *)
Lemma det2_affine (m11 m12 m21 m22 : Z) (a b c : pt2) :
  let G (p : pt2) := (m11 * fst p + m12 * snd p, m21 * fst p + m22 * snd p) in
  det2 (sub2 (G b) (G a)) (sub2 (G c) (G a)) = (m11 * m22 - m12 * m21) * det2 (sub2 b a) (sub2 c a).
Proof. destruct a as [a1 a2], b as [b1 b2], c as [c1 c2]. cbv [det2 sub2 fst snd]. ring. Qed.

Local Close Scope Z_scope.
Lemma nth_repeat_lt {A} (x d : A) n j : j < n -> nth j (repeat x n) d = x.
Proof. revert j; induction n as [|n IH]; intros [|j] H; simpl; try lia; [reflexivity | apply IH; lia]. Qed.

(* ------------------------------------------------------------------ m0 @ [m1, m2, ...] *)
Lemma nth_concat_offset {A} (d : A) (ls : list (list A)) j v :
  j < length ls -> v < length (nth j ls []) ->
  nth (v + list_sum (firstn j (map (@length A) ls))) (concat ls) d = nth v (nth j ls []) d /\
  v + list_sum (firstn j (map (@length A) ls)) < length (concat ls).
Proof.
  revert j. induction ls as [|l ls IH]; intros j Hj Hv; simpl in Hj; [lia|].
  destruct j as [|j]; simpl.
  - rewrite Nat.add_0_r. simpl in Hv. split; [apply app_nth1; exact Hv | rewrite app_length; lia].
  - simpl in Hv. destruct (IH j ltac:(lia) Hv) as [H1 H2].
    split.
    + rewrite app_nth2 by lia. replace (v + (length l + list_sum (firstn j (map (@length A) ls))) - length l)
        with (v + list_sum (firstn j (map (@length A) ls))) by lia. exact H1.
    + rewrite app_length. lia.
Qed.

(* join_spec for m0 @ [m1, m2, ...]: every cell slot of every mesh of the list keeps its vertex coordinates in the
   shared merged point table *)
Theorem matmul_cells (ps : list (list key)) (j : nat) (t : mat nat) r c :
  j < length ps -> r < length t -> c < length (nth r t []) -> nth c (nth r t []) 0 < length (nth j ps []) ->
  nth (nth c (nth r (matmul_t ps j t) []) 0) (matmul_p ps) [] = nth (nth c (nth r t []) 0) (nth j ps []) [].
Proof.
  intros Hj Hr Hc Hv. unfold matmul_t, matmul_p, matmul_offset.
  set (off := list_sum (firstn j (map (@length key) ps))).
  set (ts := map (map (fun v => v + off)) t).
  assert (Hrow : nth r ts [] = map (fun v => v + off) (nth r t [])) by (apply (map_nth_in _ t r [] []); exact Hr).
  assert (Hent : nth c (nth r ts []) 0 = nth c (nth r t []) 0 + off)
    by (rewrite Hrow; apply (map_nth_in (fun v => v + off) (nth r t []) c 0 0); exact Hc).
  destruct (nth_concat_offset [] ps j _ Hj Hv) as [H1 H2]. fold off in H1, H2.
  rewrite dedupe_cells.
  - rewrite Hent. exact H1.
  - unfold ts. rewrite map_length. exact Hr.
  - rewrite Hrow, map_length. exact Hc.
  - rewrite Hent. exact H2.
Qed.

(* ------------------------------------------------------------------ to_meshtri(style='x'): the centre nodes *)
(* numbering the centres from |p| makes row `centre_row |p| nt nchild` point at the appended centres (also when p has
   unused trailing points), and leaves every old vertex number pointing at its old point *)
Theorem quad_x_centres {P} (d : P) (p centres : list P) (nt nchild j k : nat) :
  length centres = nt -> j < nchild -> k < nt ->
  nth (nth (k + j * nt) (centre_row (length p) nt nchild) 0) (quad_x_points p centres) d = nth k centres d /\
  forall v, v < length p -> nth v (quad_x_points p centres) d = nth v p d.
Proof.
  intros Hc Hj Hk. split.
  - unfold centre_row. rewrite (nth_concat_blocks 0 nt).
    + rewrite nth_repeat_lt by exact Hj. rewrite seq_nth by exact Hk. unfold quad_x_points.
      rewrite app_nth2 by lia. f_equal. lia.
    + apply Forall_forall. intros b Hb. apply repeat_spec in Hb. subst b. apply seq_length.
    + rewrite repeat_length. exact Hj.
    + exact Hk.
  - intros v Hv. unfold quad_x_points. apply app_nth1. exact Hv.
Qed.

(* ------------------------------------------------------------------ to_meshtri: boundary lookup by searchsorted *)
Definition pair_ok (nv : nat) (f : list nat) : Prop := length f = 2 /\ nth 0 f 0 < nv /\ nth 1 f 0 < nv.

Lemma facet_key_mono nv a b : pair_ok nv a -> pair_ok nv b -> lex_lt a b -> facet_key nv a < facet_key nv b.
Proof.
  intros [Ha [Ha0 Ha1]] [Hb [Hb0 Hb1]] Hl. unfold facet_key.
  destruct a as [|a0 [|a1 [|? ?]]]; try discriminate. destruct b as [|b0 [|b1 [|? ?]]]; try discriminate.
  simpl in *. unfold lex_lt in Hl. simpl in Hl.
  apply orb_true_iff in Hl. destruct Hl as [Hl|Hl].
  - apply Nat.ltb_lt in Hl. nia.
  - apply andb_true_iff in Hl. destruct Hl as [He Hl]. apply Nat.eqb_eq in He. subst.
    apply orb_true_iff in Hl. destruct Hl as [Hl|Hl]; [apply Nat.ltb_lt in Hl; lia|].
    apply andb_true_iff in Hl. destruct Hl as [_ Hf]. discriminate.
Qed.

Lemma searchsorted_sorted (L : list nat) m : StronglySorted lt L -> m < length L ->
  searchsorted L (nth m L 0) = m.
Proof.
  unfold searchsorted. revert m. induction L as [|x L IH]; intros m Hs Hm; simpl in Hm; [lia|].
  inversion Hs as [|? ? Hs' Hall]; subst. rewrite Forall_forall in Hall. destruct m as [|m]; simpl.
  - rewrite Nat.ltb_irrefl.
    assert (Hf : filter (fun k => k <? x) L = []).
    { clear -Hall. induction L as [|y L IH]; [reflexivity|]. simpl.
      replace (y <? x) with false by (symmetry; apply Nat.ltb_ge; specialize (Hall y (or_introl eq_refl)); lia).
      apply IH. intros z Hz. apply Hall. right. exact Hz. }
    rewrite Hf. reflexivity.
  - assert (Hx : x < nth m L 0) by (apply Hall, nth_In; lia).
    replace (x <? nth m L 0) with true by (symmetry; apply Nat.ltb_lt; exact Hx). simpl.
    f_equal. apply IH; [exact Hs' | lia].
Qed.

(* split_spec, facet carry-over of to_meshtri by independent lookup: for a strictly lexicographically sorted facet
   table NF of vertex pairs below nv and ANY tag (any order, repeated entries allowed) all of whose facets are still
   facets of the triangle mesh, the j-th number returned designates the new facet with the same vertex pair as the
   j-th smallest tagged facet; nothing is dropped and repeated entries stay repeated *)
Theorem lookup_boundary_spec (nv : nat) (OF NF : mat nat) (ixs : list nat) :
  StronglySorted lex_lt NF -> Forall (pair_ok nv) NF ->
  (forall k, In k ixs -> In (nth k OF []) NF) ->
  length (lookup_boundary nv OF NF ixs) = length ixs /\
  forall j, j < length ixs ->
    nth (nth j (lookup_boundary nv OF NF ixs) 0) NF [] = nth (nth j (sort_nat ixs) 0) OF [].
Proof.
  intros HNF Hok Hin. assert (Hp := sort_nat_perm ixs).
  assert (Hkeys : StronglySorted lt (map (facet_key nv) NF)).
  { clear Hin. induction HNF as [|a l Hs IH Hall]; simpl; constructor.
    - apply IH. inversion Hok; assumption.
    - inversion Hok as [|? ? Ha Hl]; subst. rewrite Forall_forall in *. intros y Hy.
      apply in_map_iff in Hy. destruct Hy as [b [<- Hb]]. apply facet_key_mono; [exact Ha | apply Hl; exact Hb | apply Hall; exact Hb]. }
  unfold lookup_boundary. split; [rewrite map_length; apply (Permutation_length Hp)|].
  intros j Hj. assert (Hj' : j < length (sort_nat ixs)) by (rewrite (Permutation_length Hp); exact Hj).
  rewrite (map_nth_in _ (sort_nat ixs) j 0 0) by exact Hj'.
  set (i := nth j (sort_nat ixs) 0).
  assert (Hi : In i ixs) by (eapply Permutation_in; [exact Hp | apply nth_In; exact Hj']).
  destruct (In_nth _ _ [] (Hin i Hi)) as [m [Hm Hnm]].
  rewrite <- Hnm. f_equal.
  rewrite <- (map_nth_in (facet_key nv) NF m [] 0) by exact Hm.
  apply searchsorted_sorted; [exact Hkeys | rewrite map_length; exact Hm].
Qed.

(* orientation carry-over: the flag selects the cell of the new facet that is a child of the tagged quadrilateral c
   (children of c are the triangles k with k mod nt = c), whenever one of the two cells of the new facet is such a child *)
Theorem lookup_flag_spec (nt : nat) (f2t0' f2t1' : list nat) (g : nat) (c : Z) :
  (Z.of_nat (nth g f2t0' 0 mod nt) = c \/ Z.of_nat (nth g f2t1' 0 mod nt) = c) ->
  Z.of_nat (nth g (if lookup_flag nt f2t0' g c then f2t1' else f2t0') 0 mod nt) = c.
Proof.
  intros H. unfold lookup_flag. destruct (Z.eqb_spec (Z.of_nat (nth g f2t0' 0 mod nt)) c) as [He|Hne]; simpl.
  - exact He.
  - destruct H as [H|H]; [contradiction | exact H].
Qed.

(* ------------------------------------------------------------------ extrusion over the cells of the line mesh *)
Lemma searchsorted_In (L : list nat) v : StronglySorted lt L -> In v L ->
  searchsorted L v < length L /\ nth (searchsorted L v) L 0 = v.
Proof.
  intros Hs Hin. destruct (In_nth _ _ 0 Hin) as [m [Hm He]]. rewrite <- He.
  rewrite (searchsorted_sorted L m Hs Hm). split; [exact Hm | reflexivity].
Qed.

(* a level i carries a layer iff some element of the line mesh spans exactly the consecutive levels x_i, x_{i+1} *)
Theorem line_iscell_spec (pz t0 t1 : list nat) (i : nat) :
  length t0 = length t1 -> i < length (line_levels pz t0 t1) ->
  (nth i (line_iscell pz t0 t1) false = true <->
   exists e, e < length t0 /\
     let a := nth (nth e t0 0) pz 0 in let b := nth (nth e t1 0) pz 0 in
     nth i (line_levels pz t0 t1) 0 = Nat.min a b /\ nth (i + 1) (line_levels pz t0 t1) 0 = Nat.max a b /\
     i + 1 < length (line_levels pz t0 t1)).
Proof.
  intros Hlen Hi. set (x := line_levels pz t0 t1) in *.
  assert (Hs : StronglySorted lt x) by apply unique_nat_sorted.
  assert (Hin : forall e, e < length t0 -> In (nth (nth e t0 0) pz 0) x /\ In (nth (nth e t1 0) pz 0) x).
  { intros e He. unfold x, line_levels. rewrite !unique_nat_In. split; apply in_map_iff.
    - exists (nth e t0 0). split; [reflexivity | apply in_or_app; left; apply nth_In; exact He].
    - exists (nth e t1 0). split; [reflexivity | apply in_or_app; right; apply nth_In; lia]. }
  unfold line_iscell. fold x.
  rewrite (map_nth_in _ (seq 0 (length x)) i 0 false) by (rewrite seq_length; exact Hi).
  rewrite seq_nth by exact Hi. simpl Nat.add. rewrite existsb_exists. split.
  - intros [[u v] [Huv Hb]]. destruct (In_nth _ _ (0, 0) Huv) as [e [He Hnth]].
    rewrite combine_length in He. rewrite combine_nth in Hnth by exact Hlen. injection Hnth as Hu Hv. subst u v.
    simpl in Hb. apply andb_true_iff in Hb. destruct Hb as [H1 H2]. apply Nat.eqb_eq in H1, H2.
    assert (He' : e < length t0) by lia. destruct (Hin e He') as [Ha Hb].
    set (a := nth (nth e t0 0) pz 0) in *. set (b := nth (nth e t1 0) pz 0) in *.
    assert (Hmin : In (Nat.min a b) x) by (destruct (Nat.min_spec a b) as [[_ ->]|[_ ->]]; assumption).
    assert (Hmax : In (Nat.max a b) x) by (destruct (Nat.max_spec a b) as [[_ ->]|[_ ->]]; assumption).
    destruct (searchsorted_In x _ Hs Hmin) as [_ E1]. destruct (searchsorted_In x _ Hs Hmax) as [L2 E2].
    exists e. split; [exact He'|]. rewrite H1 in E1. rewrite H2 in E2, L2. repeat split; assumption.
  - intros [e [He [E1 [E2 L2]]]]. exists (nth e t0 0, nth e t1 0). split.
    + rewrite <- (combine_nth t0 t1 e 0 0 Hlen). apply nth_In. rewrite combine_length. lia.
    + simpl. rewrite <- E1, <- E2.
      rewrite (searchsorted_sorted x i Hs Hi), (searchsorted_sorted x (i + 1) Hs L2). rewrite !Nat.eqb_refl. reflexivity.
Qed.

(* extrude_spec over the cells of the line mesh: the l-th layer (l-th level i with iscell[i]) consists of the prisms
   k + l*nt, whose first rows are triangle k on level i and whose last rows are triangle k on level i+1 *)
Theorem extrude_cells_t_spec (nv nt : nat) (cells : list nat) (t : mat nat) (i l k : nat) :
  Forall (fun row => length row = nt) t -> i < 2 * length t -> l < length cells -> k < nt ->
  nth (k + l * nt) (nth i (extrude_cells_t nv cells t) []) 0
  = if i <? length t then nth k (nth i t []) 0 + nth l cells 0 * nv
    else nth k (nth (i - length t) t []) 0 + nv + nth l cells 0 * nv.
Proof.
  intros Ht Hi Hl Hk. unfold extrude_cells_t.
  rewrite (map_nth_in _ (seq 0 (2 * length t)) i 0) by (rewrite seq_length; exact Hi).
  rewrite seq_nth by exact Hi. simpl Nat.add.
  set (B := fun l0 => map (map (fun v => v + l0 * nv)) t ++ map (map (fun v => v + nv + l0 * nv)) t).
  assert (Hrow : forall l0, length (nth i (B l0) []) = nt).
  { intros l0. unfold B. rewrite Forall_forall in Ht. destruct (Nat.lt_ge_cases i (length t)) as [Hlt|Hge].
    - rewrite app_nth1 by (rewrite map_length; exact Hlt).
      rewrite (map_nth_in _ t i []) by exact Hlt. rewrite map_length. apply Ht, nth_In. exact Hlt.
    - rewrite app_nth2 by (rewrite map_length; exact Hge). rewrite map_length.
      rewrite (map_nth_in _ t (i - length t) []) by lia. rewrite map_length. apply Ht, nth_In. lia. }
  rewrite map_map. rewrite (nth_concat_blocks 0 nt).
  - rewrite (map_nth_in _ cells l 0) by exact Hl. fold (B (nth l cells 0)). unfold B.
    destruct (Nat.ltb_spec i (length t)) as [Hlt|Hge].
    + rewrite app_nth1 by (rewrite map_length; exact Hlt).
      rewrite (map_nth_in _ t i []) by exact Hlt.
      rewrite Forall_forall in Ht.
      rewrite (map_nth_in _ (nth i t []) k 0) by (rewrite (Ht (nth i t [])) by (apply nth_In; exact Hlt); exact Hk).
      reflexivity.
    + rewrite app_nth2 by (rewrite map_length; exact Hge). rewrite map_length.
      rewrite (map_nth_in _ t (i - length t) []) by lia.
      rewrite Forall_forall in Ht.
      rewrite (map_nth_in _ (nth (i - length t) t []) k 0)
        by (rewrite (Ht (nth (i - length t) t [])) by (apply nth_In; lia); exact Hk).
      reflexivity.
  - apply Forall_forall. intros b Hb. apply in_map_iff in Hb. destruct Hb as [l0 [<- _]]. apply Hrow.
  - rewrite map_length. exact Hl.
  - exact Hk.
Qed.

Lemma cell_levels_spec (iscell : list bool) i :
  In i (cell_levels iscell) <-> i < length iscell /\ nth i iscell false = true.
Proof. unfold cell_levels. rewrite filter_In, in_seq. intuition lia. Qed.

(* ------------------------------------------------------------------ to_meshtri: the machine keys are the exact keys *)
(* hypothesis under which v0 * nv + v1 does not wrap (hence is injective on vertex pairs below nv): nv * nv < 2^(bits-1) *)
Theorem facet_key_machine_exact (bits nv : nat) (f : list nat) :
  0 < bits -> pair_ok nv f -> (Z.of_nat (nv * nv) < 2 ^ Z.of_nat (bits - 1))%Z ->
  facet_key_machine bits nv f = Z.of_nat (facet_key nv f).
Proof.
  intros Hb [_ [H0 H1]] Hn. unfold facet_key_machine, wrap_signed.
  assert (Hk : facet_key nv f < nv * nv) by (unfold facet_key; nia).
  assert (Hp : (2 ^ Z.of_nat bits = 2 * 2 ^ Z.of_nat (bits - 1))%Z).
  { replace (Z.of_nat bits) with (Z.succ (Z.of_nat (bits - 1))) by lia. apply Z.pow_succ_r. lia. }
  rewrite Z.mod_small by lia. lia.
Qed.

Corollary facet_key_machine_exact_64 (nv : nat) (f : list nat) :
  pair_ok nv f -> (Z.of_nat (nv * nv) < 2 ^ 63)%Z -> facet_key_machine 64 nv f = Z.of_nat (facet_key nv f).
Proof. intros Hf Hn. apply facet_key_machine_exact; [lia | exact Hf | exact Hn]. Qed.
