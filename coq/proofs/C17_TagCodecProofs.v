(* C17 — proofs about Model.C17_TagCodec: bit packing, sorting of (facet, cell) pairs, the encode/decode
   round trip of oriented boundaries, subdomain indicators, node-row permutations, npz key scheme.
   No dependence on generated files. *)
From Coq Require Import List Arith Bool ZArith NArith Lia Permutation Sorted.
Import ListNotations.
Require Import Base.Corr Model.C17_TagCodec.

Lemma bitpack_lt n m : (bitpack n m < 2 ^ N.of_nat n)%N.
Proof.
  induction n as [|k IH]; simpl bitpack.
  - simpl. lia.
  - replace (N.of_nat (S k)) with (N.succ (N.of_nat k)) by lia.
    rewrite N.pow_succ_r'. destruct (m k); lia.
Qed.

Lemma testbit_add_pow2 a k r : (a < 2 ^ k)%N ->
  N.testbit (a + 2 ^ k) r = xorb (N.testbit a r) (N.eqb k r).
Proof.
  intros Ha.
  assert (Hl : N.land a (2 ^ k) = 0%N).
  { apply N.bits_inj. intros i. rewrite N.land_spec, N.bits_0, N.pow2_bits_eqb.
    destruct (N.eqb_spec k i) as [->|Hne]; [|apply andb_false_r].
    rewrite <- (N.mod_small a (2 ^ i)) by exact Ha.
    rewrite N.mod_pow2_bits_high by lia. reflexivity. }
  rewrite (N.add_nocarry_lxor _ _ Hl), N.lxor_spec, N.pow2_bits_eqb. reflexivity.
Qed.

Lemma testbit_small a k r : (a < 2 ^ k)%N -> (k <= r)%N -> N.testbit a r = false.
Proof.
  intros Ha Hr. rewrite <- (N.mod_small a (2 ^ k)) by exact Ha.
  apply N.mod_pow2_bits_high. exact Hr.
Qed.

(* bitmask_roundtrip: bit r of sum_{s<n, m s} 2^s is set iff r<n and m r *)
Theorem testbit_bitpack n m r :
  N.testbit (bitpack n m) (N.of_nat r) = (r <? n) && m r.
Proof.
  induction n as [|k IH]; simpl bitpack.
  - reflexivity.
  - destruct (m k) eqn:Hk.
    + rewrite testbit_add_pow2 by apply bitpack_lt. rewrite IH.
      destruct (Nat.eqb_spec k r) as [->|Hne].
      * replace (N.of_nat r =? N.of_nat r)%N with true by (symmetry; apply N.eqb_refl).
        rewrite Nat.ltb_irrefl. simpl. rewrite Hk.
        replace (r <? S r) with true by (symmetry; apply Nat.ltb_lt; lia). reflexivity.
      * replace (N.of_nat k =? N.of_nat r)%N with false by (symmetry; apply N.eqb_neq; lia).
        rewrite xorb_false_r.
        destruct (Nat.ltb_spec r k), (Nat.ltb_spec r (S k)); try lia; reflexivity.
    + rewrite N.add_0_r, IH.
      destruct (Nat.ltb_spec r k), (Nat.ltb_spec r (S k)); try lia; try reflexivity.
      assert (r = k) by lia. subst. rewrite Hk. reflexivity.
Qed.

(* ------------------------------------------------------------------ generic list facts *)

Lemma map_nth_seq {A} (d : A) (l : list A) : map (fun i => nth i l d) (seq 0 (length l)) = l.
Proof.
  induction l as [|a l IH]; simpl; [reflexivity|].
  f_equal. rewrite <- seq_shift, map_map. exact IH.
Qed.

Lemma combine_map_r {A B C} (g : B -> C) (a : list A) (b : list B) :
  combine a (map g b) = map (fun kv => (fst kv, g (snd kv))) (combine a b).
Proof.
  revert b; induction a as [|x a IH]; intros [|y b]; simpl; try reflexivity. f_equal. apply IH.
Qed.

Lemma combine_map_same {A B C} (f : A -> B) (g : A -> C) (l : list A) :
  combine (map f l) (map g l) = map (fun x => (f x, g x)) l.
Proof. induction l as [|x l IH]; simpl; [reflexivity|]. f_equal. exact IH. Qed.

Lemma map_fst_combine {A B} (a : list A) (b : list B) :
  length a = length b -> map fst (combine a b) = a.
Proof.
  revert b; induction a as [|x a IH]; intros [|y b] H; simpl in *; try reflexivity; try discriminate.
  f_equal. apply IH. lia.
Qed.

Lemma map_snd_combine {A B} (a : list A) (b : list B) :
  length a = length b -> map snd (combine a b) = b.
Proof.
  revert b; induction a as [|x a IH]; intros [|y b] H; simpl in *; try reflexivity; try discriminate.
  f_equal. apply IH. lia.
Qed.

Lemma NoDup_app_intro {A} (l1 l2 : list A) :
  NoDup l1 -> NoDup l2 -> (forall x, In x l1 -> ~ In x l2) -> NoDup (l1 ++ l2).
Proof.
  induction l1 as [|a l1 IH]; intros H1 H2 Hd; simpl; [exact H2|].
  inversion H1 as [|? ? Hna Hn1]; subst. constructor.
  - intros Hin. apply in_app_or in Hin. destruct Hin as [Hin|Hin]; [exact (Hna Hin)|].
    exact (Hd a (or_introl eq_refl) Hin).
  - apply IH; [exact Hn1 | exact H2 |]. intros x Hx. apply Hd. right. exact Hx.
Qed.

Lemma NoDup_flat_map {A B} (f : A -> list B) (l : list A) :
  NoDup l -> (forall x, In x l -> NoDup (f x)) ->
  (forall x y z, In x l -> In y l -> In z (f x) -> In z (f y) -> x = y) ->
  NoDup (flat_map f l).
Proof.
  induction l as [|a l IH]; intros Hl Hf Hd; simpl; [constructor|].
  inversion Hl as [|? ? Hna Hnl]; subst.
  apply NoDup_app_intro.
  - apply Hf. left. reflexivity.
  - apply IH; [exact Hnl | |].
    + intros x Hx. apply Hf. right. exact Hx.
    + intros x y z Hx Hy. apply Hd; right; assumption.
  - intros z Hz Hin. apply in_flat_map in Hin. destruct Hin as [y [Hy Hzy]].
    assert (a = y) by (apply (Hd a y z); [left; reflexivity | right; exact Hy | exact Hz | exact Hzy]).
    subst. exact (Hna Hy).
Qed.

Lemma NoDup_map_inj_in {A B} (f : A -> B) (l : list A) :
  (forall x y, In x l -> In y l -> f x = f y -> x = y) -> NoDup l -> NoDup (map f l).
Proof.
  induction l as [|a l IH]; intros Hinj Hl; simpl; [constructor|].
  inversion Hl as [|? ? Hna Hnl]; subst. constructor.
  - intros Hin. apply in_map_iff in Hin. destruct Hin as [y [Hy Hyl]].
    assert (y = a) by (apply Hinj; [right; exact Hyl | left; reflexivity | exact Hy]).
    subst. exact (Hna Hyl).
  - apply IH; [|exact Hnl]. intros x y Hx Hy. apply Hinj; right; assumption.
Qed.

Lemma NoDup_of_map {A B} (f : A -> B) (l : list A) : NoDup (map f l) -> NoDup l.
Proof. apply NoDup_map_inv. Qed.

(* ------------------------------------------------------------------ sorting *)

Lemma insert_nat_perm x l : Permutation (insert_nat x l) (x :: l).
Proof.
  induction l as [|y l IH]; simpl; [reflexivity|].
  destruct (x <=? y); [reflexivity|].
  rewrite IH. apply perm_swap.
Qed.

Lemma sort_nat_perm l : Permutation (sort_nat l) l.
Proof.
  induction l as [|x l IH]; simpl; [reflexivity|].
  rewrite insert_nat_perm. constructor. exact IH.
Qed.

Section KV.
  Context {A : Type}.
  Implicit Types (l : list (nat * A)) (x : nat * A).

  Definition lek (x y : nat * A) := fst x <= fst y.
  Definition ltk (x y : nat * A) := fst x < fst y.

  Lemma insert_kv_perm x l : Permutation (insert_kv x l) (x :: l).
  Proof.
    induction l as [|y l IH]; simpl; [reflexivity|].
    destruct (fst x <=? fst y); [reflexivity|].
    rewrite IH. apply perm_swap.
  Qed.

  Lemma sort_kv_perm l : Permutation (sort_kv l) l.
  Proof.
    induction l as [|x l IH]; simpl; [reflexivity|].
    rewrite insert_kv_perm. constructor. exact IH.
  Qed.

  Lemma insert_kv_sorted x l : StronglySorted lek l -> StronglySorted lek (insert_kv x l).
  Proof.
    induction l as [|y l IH]; intros Hs; simpl.
    - constructor; constructor.
    - inversion Hs as [|? ? Hs' Hall]; subst.
      destruct (Nat.leb_spec (fst x) (fst y)) as [Hle|Hgt].
      + constructor; [exact Hs|]. constructor; [exact Hle|].
        eapply Forall_impl; [|exact Hall]. intros z Hz. unfold lek in *. lia.
      + constructor; [apply IH; exact Hs'|].
        assert (Hp := insert_kv_perm x l).
        apply (Permutation_Forall (Permutation_sym Hp)).
        constructor; [unfold lek; lia | exact Hall].
  Qed.

  Lemma sort_kv_sorted l : StronglySorted lek (sort_kv l).
  Proof.
    induction l as [|x l IH]; simpl; [constructor|]. apply insert_kv_sorted. exact IH.
  Qed.

  Lemma sorted_le_nodup_lt l :
    StronglySorted lek l -> NoDup (map fst l) -> StronglySorted ltk l.
  Proof.
    induction l as [|x l IH]; intros Hs Hn; [constructor|].
    inversion Hs as [|? ? Hs' Hall]; subst. simpl in Hn.
    inversion Hn as [|? ? Hnx Hnl]; subst.
    constructor; [apply IH; assumption|].
    rewrite Forall_forall in *. intros y Hy.
    assert (Hle := Hall y Hy). unfold lek, ltk in *.
    destruct (Nat.eq_dec (fst x) (fst y)) as [He|Hne]; [|lia].
    exfalso. apply Hnx. rewrite He. apply in_map. exact Hy.
  Qed.

  Lemma strict_sorted_perm_eq l1 l2 :
    StronglySorted ltk l1 -> StronglySorted ltk l2 -> Permutation l1 l2 -> l1 = l2.
  Proof.
    revert l2; induction l1 as [|a1 t1 IH]; intros l2 H1 H2 Hp.
    - apply Permutation_nil in Hp. now subst.
    - destruct l2 as [|a2 t2]; [apply Permutation_sym, Permutation_nil in Hp; discriminate|].
      inversion H1 as [|? ? H1' Hall1]; subst. inversion H2 as [|? ? H2' Hall2]; subst.
      rewrite Forall_forall in Hall1, Hall2.
      assert (Heq : a1 = a2).
      { assert (Hin1 : In a1 (a2 :: t2)) by (eapply Permutation_in; [exact Hp | left; reflexivity]).
        assert (Hin2 : In a2 (a1 :: t1)) by (eapply Permutation_in; [exact (Permutation_sym Hp) | left; reflexivity]).
        destruct Hin1 as [He|Hin1]; [now symmetry|].
        destruct Hin2 as [He|Hin2]; [exact He|].
        apply Hall2 in Hin1. apply Hall1 in Hin2. unfold ltk in *. lia. }
      subst. f_equal. apply IH; [exact H1' | exact H2' |].
      eapply Permutation_cons_inv. exact Hp.
  Qed.

  (* permuting the input of a sort with distinct keys does not change the result *)
  Lemma sort_kv_perm_invariant l1 l2 :
    NoDup (map fst l1) -> Permutation l1 l2 -> sort_kv l1 = sort_kv l2.
  Proof.
    intros Hn Hp.
    assert (Hp12 : Permutation (sort_kv l1) (sort_kv l2)).
    { rewrite (sort_kv_perm l1), (sort_kv_perm l2). exact Hp. }
    apply strict_sorted_perm_eq; [| |exact Hp12].
    - apply sorted_le_nodup_lt; [apply sort_kv_sorted|].
      eapply Permutation_NoDup; [|exact Hn]. apply Permutation_map, Permutation_sym, sort_kv_perm.
    - apply sorted_le_nodup_lt; [apply sort_kv_sorted|].
      eapply Permutation_NoDup; [|exact Hn]. apply Permutation_map.
      rewrite (sort_kv_perm l2). exact Hp.
  Qed.

  Lemma insert_kv_fst x l : map fst (insert_kv x l) = insert_nat (fst x) (map fst l).
  Proof.
    induction l as [|y l IH]; simpl; [reflexivity|].
    destruct (fst x <=? fst y); simpl; [reflexivity|]. f_equal. exact IH.
  Qed.

  (* the key column of a key/value sort is the sorted key column *)
  Lemma sort_kv_fst l : map fst (sort_kv l) = sort_nat (map fst l).
  Proof.
    induction l as [|x l IH]; simpl; [reflexivity|]. rewrite insert_kv_fst, IH. reflexivity.
  Qed.
End KV.

(* values that are a function of the (key, value) pair ride along with the sort *)
Lemma insert_kv_map {A B} (h : nat * A -> B) (x : nat * A) (l : list (nat * A)) :
  insert_kv (fst x, h x) (map (fun kv => (fst kv, h kv)) l)
  = map (fun kv => (fst kv, h kv)) (insert_kv x l).
Proof.
  induction l as [|y l IH]; simpl; [reflexivity|].
  destruct (fst x <=? fst y); simpl; [reflexivity|]. f_equal. exact IH.
Qed.

Lemma sort_kv_map {A B} (h : nat * A -> B) (l : list (nat * A)) :
  sort_kv (map (fun kv => (fst kv, h kv)) l) = map (fun kv => (fst kv, h kv)) (sort_kv l).
Proof.
  induction l as [|x l IH]; simpl; [reflexivity|]. rewrite IH. apply insert_kv_map.
Qed.

(* a[argsort keys] for a parallel array a is the value column of the key/value sort *)
Lemma gather_argsort {A} (d : A) (keys : list nat) (vals : list A) :
  length vals = length keys ->
  gather d vals (argsort keys) = map snd (sort_kv (combine keys vals)).
Proof.
  intros Hlen. unfold gather, argsort. rewrite map_map.
  transitivity (map snd (map (fun kv : nat * nat => (fst kv, nth (snd kv) vals d))
                             (sort_kv (combine keys (seq 0 (length keys)))))).
  { rewrite map_map. reflexivity. }
  rewrite <- (sort_kv_map (fun kv : nat * nat => nth (snd kv) vals d)).
  rewrite <- (combine_map_r (fun i => nth i vals d)).
  rewrite <- Hlen, map_nth_seq. reflexivity.
Qed.

Lemma gather_argsort_keys (keys : list nat) :
  gather 0 keys (argsort keys) = sort_nat keys.
Proof.
  rewrite gather_argsort by reflexivity.
  assert (Hall : Forall (fun kv : nat * nat => snd kv = fst kv) (sort_kv (combine keys keys))).
  { apply (Permutation_Forall (Permutation_sym (sort_kv_perm _))).
    clear. induction keys as [|k l IH]; simpl; constructor; [reflexivity | exact IH]. }
  transitivity (map fst (sort_kv (combine keys keys))).
  - apply map_ext_in. intros kv Hin. rewrite Forall_forall in Hall. apply Hall. exact Hin.
  - rewrite sort_kv_fst, map_fst_combine by reflexivity. reflexivity.
Qed.

(* ------------------------------------------------------------------ masks *)

Lemma in_mask_pairs nslots nt (m : mask) r c :
  In (r, c) (mask_pairs nslots nt m) <-> r < nslots /\ c < nt /\ m r c = true.
Proof.
  unfold mask_pairs. rewrite in_flat_map. split.
  - intros [r' [Hr Hin]]. apply in_flat_map in Hin. destruct Hin as [c' [Hc Hin]].
    apply in_seq in Hr. apply in_seq in Hc.
    destruct (m r' c') eqn:Hm; [|contradiction].
    destruct Hin as [He|[]]. inversion He; subst. repeat split; try lia. exact Hm.
  - intros [Hr [Hc Hm]]. exists r. split; [apply in_seq; lia|].
    apply in_flat_map. exists c. split; [apply in_seq; lia|]. rewrite Hm. left. reflexivity.
Qed.

Lemma mask_pairs_NoDup nslots nt (m : mask) : NoDup (mask_pairs nslots nt m).
Proof.
  unfold mask_pairs. apply NoDup_flat_map.
  - apply seq_NoDup.
  - intros r _. apply NoDup_flat_map.
    + apply seq_NoDup.
    + intros c _. destruct (m r c); constructor; [intros []|constructor].
    + intros c c' z _ _ Hz Hz'. destruct (m r c); [|contradiction]. destruct (m r c'); [|contradiction].
      destruct Hz as [<-|[]]. destruct Hz' as [He|[]]. now inversion He.
  - intros r r' z _ _ Hz Hz'.
    apply in_flat_map in Hz. destruct Hz as [c [_ Hz]]. apply in_flat_map in Hz'. destruct Hz' as [c' [_ Hz']].
    destruct (m r c); [|contradiction]. destruct (m r' c'); [|contradiction].
    destruct Hz as [<-|[]]. destruct Hz' as [He|[]]. now inversion He.
Qed.

Lemma flat_map_ext_in {A B} (f g : A -> list B) l :
  (forall x, In x l -> f x = g x) -> flat_map f l = flat_map g l.
Proof.
  induction l as [|a l IH]; intros H; simpl; [reflexivity|].
  rewrite (H a (or_introl eq_refl)), IH; [reflexivity|]. intros x Hx. apply H. right. exact Hx.
Qed.

Lemma mask_pairs_ext nslots nt (m m' : mask) :
  (forall r c, r < nslots -> c < nt -> m r c = m' r c) -> mask_pairs nslots nt m = mask_pairs nslots nt m'.
Proof.
  intros H. unfold mask_pairs. apply flat_map_ext_in. intros r Hr. apply in_seq in Hr.
  apply flat_map_ext_in. intros c Hc. apply in_seq in Hc. rewrite H by lia. reflexivity.
Qed.

Lemma nth_map_seq {A} (f : nat -> A) (d : A) n c : c < n -> nth c (map f (seq 0 n)) d = f c.
Proof.
  intros Hc. rewrite (nth_indep _ d (f 0)) by (rewrite map_length, seq_length; exact Hc).
  rewrite (map_nth f (seq 0 n) 0 c), seq_nth by exact Hc. reflexivity.
Qed.

(* decoding the bit-packed integers gives back the mask (bitmask_roundtrip, array form) *)
Lemma bitmask_of_bitpack_cols nslots nt (m : mask) r c :
  r < nslots -> c < nt -> bitmask_of (bitpack_cols nslots nt m) r c = m r c.
Proof.
  intros Hr Hc. unfold bitmask_of, bitpack_cols.
  rewrite (nth_map_seq (fun c => bitpack nslots (fun r => m r c))) by exact Hc.
  rewrite testbit_bitpack. apply Nat.ltb_lt in Hr. rewrite Hr. reflexivity.
Qed.

(* ------------------------------------------------------------------ boundary round trip *)

Section Roundtrip.
  Variables (nslots nt : nat) (t2f : mat nat) (f2t : mat Z).

  (* f2t[o][f] *)
  Definition side_cell (o : bool) (f : nat) : Z := get2 (- 1)%Z f2t (if o then 1 else 0) f.

  (* what the round trip needs from (t2f, f2t) at one tagged facet f with orientation flag o:
     the cell on side o exists, lists f in exactly one of its facet slots, and (for o = 0) differs from
     the cell on the other side *)
  Record coherent1 (f : nat) (o : bool) : Prop := {
    c_valid : (0 <= side_cell o f < Z.of_nat nt)%Z;
    c_slot : exists r, r < nslots /\ get2 0 t2f r (Z.to_nat (side_cell o f)) = f;
    c_uniq : forall r r', r < nslots -> r' < nslots ->
             get2 0 t2f r (Z.to_nat (side_cell o f)) = f ->
             get2 0 t2f r' (Z.to_nat (side_cell o f)) = f -> r = r';
    c_two : o = false -> side_cell true f <> side_cell false f
  }.

  Lemma f2t_pick_combine ori b :
    f2t_pick f2t ori b = map (fun fo => side_cell (snd fo) (fst fo)) (combine b ori).
  Proof.
    unfold f2t_pick. revert b. induction ori as [|o ori IH]; intros [|f b]; simpl; try reflexivity.
    f_equal. apply IH.
  Qed.

  Variables (ori : list bool) (b : list nat).
  Hypothesis Hlen : length ori = length b.
  Hypothesis Hnd : NoDup b.
  Hypothesis Hcoh : forall f o, In (f, o) (combine b ori) -> coherent1 f o.

  Let L := combine b ori.
  Let bk k := nth k b 0.
  Let ok k := nth k ori false.
  Let ck k := side_cell (ok k) (bk k).
  Let cols := f2t_pick f2t ori b.

  Lemma L_length : length L = length b.
  Proof. unfold L. rewrite combine_length. lia. Qed.

  Lemma L_nth k : nth k L (0, false) = (bk k, ok k).
  Proof. unfold L. apply combine_nth. symmetry. exact Hlen. Qed.

  Lemma L_in k : k < length b -> In (bk k, ok k) L.
  Proof. intros Hk. rewrite <- L_nth. apply nth_In. rewrite L_length. exact Hk. Qed.

  Lemma cols_nth k : k < length b -> nth k cols 0%Z = ck k.
  Proof.
    intros Hk. unfold cols. rewrite f2t_pick_combine. fold L.
    rewrite (nth_indep _ 0%Z ((fun fo => side_cell (snd fo) (fst fo)) (0, false)))
      by (rewrite map_length, L_length; exact Hk).
    rewrite (map_nth (fun fo : nat * bool => side_cell (snd fo) (fst fo))), L_nth. reflexivity.
  Qed.

  Lemma wrap_valid z : (0 <= z)%Z -> wrap nt z = Z.to_nat z.
  Proof. intros Hz. unfold wrap. destruct (Z.ltb_spec z 0); [lia | reflexivity]. Qed.

  Lemma ck_valid k : k < length b -> (0 <= ck k < Z.of_nat nt)%Z.
  Proof. intros Hk. exact (c_valid _ _ (Hcoh _ _ (L_in k Hk))). Qed.

  Let rc := nonzero_cols_eq nslots nt t2f cols b.
  Let M : mask := mask_set1 nt zeros_mask (map fst rc) (gather_z cols (map snd rc)).

  (* the mask built by encode_boundary: bit (r, c) is set iff some tagged facet sits in slot r of its
     owner cell c *)
  Lemma M_spec r c :
    M r c = true <-> exists k, k < length b /\ r < nslots /\
                               get2 0 t2f r (Z.to_nat (ck k)) = bk k /\ Z.to_nat (ck k) = c.
  Proof.
    unfold M, mask_set1, zeros_mask. simpl. rewrite existsb_exists.
    unfold gather_z, gather. rewrite map_map, combine_map_same.
    split.
    - intros [[r' z] [Hin Heq]]. apply in_map_iff in Hin. destruct Hin as [[r'' k] [He Hin]].
      simpl in He. inversion He; subst r' z. clear He.
      unfold rc, nonzero_cols_eq in Hin. apply in_flat_map in Hin. destruct Hin as [r0 [Hr0 Hin]].
      apply in_flat_map in Hin. destruct Hin as [k0 [Hk0 Hin]].
      apply in_seq in Hr0. apply in_seq in Hk0.
      destruct (Nat.eqb_spec (get2 0 t2f r0 (wrap nt (nth k0 cols 0%Z))) (nth k0 b 0)) as [Hhit|]; [|contradiction].
      destruct Hin as [He|[]]. inversion He; subst r'' k. clear He.
      simpl in Heq. apply andb_true_iff in Heq. destruct Heq as [Hr Hc].
      apply Nat.eqb_eq in Hr. apply Nat.eqb_eq in Hc. subst r0.
      assert (Hk : k0 < length b) by lia.
      rewrite cols_nth in Hhit, Hc by exact Hk.
      rewrite wrap_valid in Hhit, Hc by (apply ck_valid; exact Hk).
      exists k0. repeat split; try lia; assumption.
    - intros [k [Hk [Hr [Hhit Hc]]]].
      exists (r, nth k cols 0%Z). split.
      + apply in_map_iff. exists (r, k). split; [reflexivity|].
        unfold rc, nonzero_cols_eq. apply in_flat_map. exists r. split; [apply in_seq; lia|].
        apply in_flat_map. exists k. split; [apply in_seq; lia|].
        rewrite cols_nth by exact Hk. rewrite wrap_valid by (apply ck_valid; exact Hk).
        fold (bk k). rewrite Hhit, Nat.eqb_refl. left. reflexivity.
      + simpl. rewrite cols_nth by exact Hk. rewrite wrap_valid by (apply ck_valid; exact Hk).
        rewrite Hc, !Nat.eqb_refl. reflexivity.
  Qed.

  Let data := encode_boundary nslots nt t2f f2t ori b.
  Let h (fo : nat * bool) : nat := Z.to_nat (side_cell (snd fo) (fst fo)).
  Let E : list (nat * nat) := map (fun fo => (fst fo, h fo)) L.
  Let G : list (nat * nat) :=
    combine (gather_mask nslots nt t2f (bitmask_of data)) (mask_cols nslots nt (bitmask_of data)).

  Lemma G_eq : G = map (fun p => (get2 0 t2f (fst p) (snd p), snd p)) (mask_pairs nslots nt M).
  Proof.
    unfold G, gather_mask, mask_cols.
    rewrite (mask_pairs_ext nslots nt (bitmask_of data) M).
    - apply combine_map_same.
    - intros r c Hr Hc. unfold data, encode_boundary. fold cols. fold rc. fold M.
      apply bitmask_of_bitpack_cols; assumption.
  Qed.

  Lemma in_G f c : In (f, c) G <-> In (f, c) E.
  Proof.
    rewrite G_eq. split.
    - intros Hin. apply in_map_iff in Hin. destruct Hin as [[r c'] [He Hin]]. simpl in He.
      inversion He; subst f c'. clear He.
      apply in_mask_pairs in Hin. destruct Hin as [Hr [Hc Hm]]. apply M_spec in Hm.
      destruct Hm as [k [Hk [_ [Hhit Hck]]]].
      unfold E. apply in_map_iff. exists (bk k, ok k). split; [|apply L_in; exact Hk].
      unfold h. simpl. fold (ck k). rewrite Hck in *. rewrite Hhit. reflexivity.
    - intros Hin. unfold E in Hin. apply in_map_iff in Hin. destruct Hin as [[f' o] [He HinL]].
      simpl in He. inversion He; subst f' c. clear He.
      destruct (In_nth _ _ (0, false) HinL) as [k [Hk Hnth]]. rewrite L_length in Hk.
      rewrite L_nth in Hnth. injection Hnth as Hf Ho.
      destruct (c_slot _ _ (Hcoh _ _ HinL)) as [r [Hr Hhit]].
      apply in_map_iff. exists (r, h (f, o)). simpl. split.
      + unfold h. simpl. rewrite Hhit. reflexivity.
      + apply in_mask_pairs. split; [exact Hr|]. split.
        * unfold h. simpl. destruct (c_valid _ _ (Hcoh _ _ HinL)). lia.
        * apply M_spec. exists k. unfold ck. rewrite Hf, Ho. unfold h. simpl. repeat split; try assumption.
  Qed.

  Lemma E_keys : map fst E = b.
  Proof.
    unfold E. rewrite map_map. simpl. change (map (fun x : nat * bool => fst x) L) with (map fst L).
    unfold L. apply map_fst_combine. symmetry. exact Hlen.
  Qed.

  Lemma E_NoDup : NoDup E.
  Proof. apply (NoDup_of_map fst). rewrite E_keys. exact Hnd. Qed.

  Lemma G_NoDup : NoDup G.
  Proof.
    rewrite G_eq. apply NoDup_map_inj_in; [|apply mask_pairs_NoDup].
    intros [r c] [r' c'] Hin Hin' He. simpl in He. inversion He as [[Hf Hc]]. subst c'.
    apply in_mask_pairs in Hin. apply in_mask_pairs in Hin'.
    destruct Hin as [Hr [_ Hm]]. destruct Hin' as [Hr' [_ Hm']].
    apply M_spec in Hm. apply M_spec in Hm'.
    destruct Hm as [k [Hk [_ [Hhit Hck]]]]. destruct Hm' as [k' [Hk' [_ [Hhit' Hck']]]].
    assert (Hkk : k = k').
    { apply (proj1 (NoDup_nth b 0) Hnd); try assumption. fold (bk k). fold (bk k').
      rewrite <- Hhit, <- Hhit', Hck, Hck'. exact Hf. }
    subst k'. f_equal.
    apply (c_uniq _ _ (Hcoh _ _ (L_in k Hk))); try assumption.
  Qed.

  Lemma decode_pairs_eq : decode_pairs nslots nt t2f data = map (fun fo => (fst fo, h fo)) (sort_kv L).
  Proof.
    unfold decode_pairs. fold G. rewrite <- (sort_kv_map h). fold E.
    symmetry. apply sort_kv_perm_invariant; [rewrite E_keys; exact Hnd|].
    apply NoDup_Permutation; [apply E_NoDup | apply G_NoDup|].
    intros [f c]. symmetry. apply in_G.
  Qed.

  Theorem boundary_roundtrip_model :
    decode_boundary nslots nt t2f f2t (encode_boundary nslots nt t2f f2t ori b)
    = (map fst (sort_kv (combine b ori)), map snd (sort_kv (combine b ori))).
  Proof.
    unfold decode_boundary. fold data. rewrite decode_pairs_eq. fold L.
    apply pair_equal_spec. split.
    - rewrite map_map. reflexivity.
    - unfold ori_of. rewrite combine_map_same, !map_map.
      apply map_ext_in. intros [f o] Hin. simpl.
      assert (HinL : In (f, o) L) by (eapply Permutation_in; [apply sort_kv_perm | exact Hin]).
      destruct (Hcoh _ _ HinL) as [Hv _ _ Htwo]. unfold h. simpl.
      rewrite Z2Nat.id by lia.
      destruct o.
      + apply Z.eqb_refl.
      + apply Z.eqb_neq. apply Htwo. reflexivity.
  Qed.
End Roundtrip.

(* ------------------------------------------------------------------ the repaired source form: argsort applied to both arrays *)

Lemma gather_mask_cols_length nslots nt t2f (m : mask) :
  length (mask_cols nslots nt m) = length (gather_mask nslots nt t2f m).
Proof. unfold mask_cols, gather_mask. rewrite !map_length. reflexivity. Qed.

Lemma decode_via_argsort nslots nt t2f f2t data :
  let m := bitmask_of data in
  let F := gather_mask nslots nt t2f m in
  let C := mask_cols nslots nt m in
  let ix := argsort F in
  (gather 0 F ix, ori_of f2t (gather 0 F ix) (gather 0 C ix)) = decode_boundary nslots nt t2f f2t data.
Proof.
  intros m F C ix. unfold decode_boundary, decode_pairs. fold m. fold F. fold C.
  assert (Hlen : length C = length F) by apply gather_mask_cols_length.
  assert (HF : gather 0 F ix = map fst (sort_kv (combine F C))).
  { unfold ix. rewrite gather_argsort_keys, sort_kv_fst, map_fst_combine by (symmetry; exact Hlen). reflexivity. }
  assert (HC : gather 0 C ix = map snd (sort_kv (combine F C))).
  { unfold ix. apply gather_argsort. exact Hlen. }
  rewrite HF, HC. reflexivity.
Qed.

(* ------------------------------------------------------------------ consequences of the round trip *)

Lemma sort_nat_sorted_lt l : NoDup l -> StronglySorted lt (sort_nat l).
Proof.
  intros Hn.
  assert (Hs : StronglySorted (@ltk unit) (sort_kv (map (fun x => (x, tt)) l))).
  { apply sorted_le_nodup_lt; [apply sort_kv_sorted|].
    eapply Permutation_NoDup; [apply Permutation_map, Permutation_sym, sort_kv_perm|].
    rewrite map_map. simpl. rewrite map_id. exact Hn. }
  assert (He : sort_nat l = map fst (sort_kv (map (fun x => (x, tt)) l))).
  { rewrite sort_kv_fst, map_map. simpl. rewrite map_id. reflexivity. }
  rewrite He. clear He. induction Hs as [|a t Hs IH Hall]; simpl; constructor; [exact IH|].
  rewrite Forall_forall in *. intros y Hy. apply in_map_iff in Hy. destruct Hy as [z [<- Hz]].
  exact (Hall z Hz).
Qed.

Lemma roundtrip_facets_sorted b (ori : list bool) :
  length ori = length b -> NoDup b ->
  map fst (sort_kv (combine b ori)) = sort_nat b /\ StronglySorted lt (sort_nat b) /\
  (forall f, In f (sort_nat b) <-> In f b).
Proof.
  intros Hlen Hn. split; [|split].
  - rewrite sort_kv_fst, map_fst_combine by (symmetry; exact Hlen). reflexivity.
  - apply sort_nat_sorted_lt. exact Hn.
  - intros f. split; apply Permutation_in; [apply sort_nat_perm | apply Permutation_sym, sort_nat_perm].
Qed.

(* every (facet, flag) pair of the input is a pair of the output and conversely *)
Lemma roundtrip_pairs b (ori : list bool) f o :
  In (f, o) (sort_kv (combine b ori)) <-> In (f, o) (combine b ori).
Proof. split; apply Permutation_in; [apply sort_kv_perm | apply Permutation_sym, sort_kv_perm]. Qed.

(* ------------------------------------------------------------------ subdomains *)

Lemma in_nonzero_n data c : In c (nonzero_n data) <-> c < length data /\ nth c data 0%N <> 0%N.
Proof.
  unfold nonzero_n. rewrite in_flat_map. split.
  - intros [c' [Hc Hin]]. apply in_seq in Hc.
    destruct (N.eqb_spec (nth c' data 0%N) 0); [contradiction|]. destruct Hin as [<-|[]]. split; [lia|assumption].
  - intros [Hc Hnz]. exists c. split; [apply in_seq; lia|].
    destruct (N.eqb_spec (nth c data 0%N) 0); [contradiction|]. left. reflexivity.
Qed.

Lemma flat_map_seq_sorted (f : nat -> bool) s n :
  StronglySorted lt (flat_map (fun c => if f c then [] else [c]) (seq s n)) /\
  Forall (fun x => s <= x) (flat_map (fun c => if f c then [] else [c]) (seq s n)).
Proof.
  revert s; induction n as [|n IH]; intros s; simpl; [split; constructor|].
  destruct (IH (S s)) as [Hs Hall]. destruct (f s); simpl.
  - split; [exact Hs|]. eapply Forall_impl; [|exact Hall]. intros; simpl in *; lia.
  - split.
    + constructor; [exact Hs|]. eapply Forall_impl; [|exact Hall]. intros; simpl in *; lia.
    + constructor; [lia|]. eapply Forall_impl; [|exact Hall]. intros; simpl in *; lia.
Qed.

Lemma nonzero_n_sorted data : StronglySorted lt (nonzero_n data).
Proof. unfold nonzero_n. apply (flat_map_seq_sorted (fun c => N.eqb (nth c data 0%N) 0)). Qed.

Lemma encode_subdomain_nth nt s c : c < nt ->
  nth c (encode_subdomain nt s) 0%N = if existsb (Nat.eqb c) s then 1%N else 0%N.
Proof. intros Hc. unfold encode_subdomain. apply (nth_map_seq (fun c => if existsb (Nat.eqb c) s then 1%N else 0%N)). exact Hc. Qed.

(* subdomain_roundtrip: the decoded array is strictly increasing and holds exactly the tagged cells *)
Theorem subdomain_roundtrip_model nt s :
  StronglySorted lt (decode_subdomain (encode_subdomain nt s)) /\
  forall c, In c (decode_subdomain (encode_subdomain nt s)) <-> In c s /\ c < nt.
Proof.
  split; [apply nonzero_n_sorted|].
  intros c. unfold decode_subdomain. rewrite in_nonzero_n.
  assert (Hl : length (encode_subdomain nt s) = nt) by (unfold encode_subdomain; rewrite map_length, seq_length; reflexivity).
  rewrite Hl. split.
  - intros [Hc Hnz]. rewrite encode_subdomain_nth in Hnz by exact Hc.
    destruct (existsb (Nat.eqb c) s) eqn:He; [|congruence].
    apply existsb_exists in He. destruct He as [x [Hx Heq]]. apply Nat.eqb_eq in Heq. subst. split; assumption.
  - intros [Hin Hc]. split; [exact Hc|]. rewrite encode_subdomain_nth by exact Hc.
    replace (existsb (Nat.eqb c) s) with true; [discriminate|].
    symmetry. apply existsb_exists. exists c. split; [exact Hin | apply Nat.eqb_refl].
Qed.

(* two strictly increasing lists with the same elements are equal: a sorted duplicate-free subdomain
   array comes back identically *)
Lemma sorted_lt_ext (l1 l2 : list nat) :
  StronglySorted lt l1 -> StronglySorted lt l2 -> (forall x, In x l1 <-> In x l2) -> l1 = l2.
Proof.
  intros H1 H2 Hio.
  assert (Hk : forall l, StronglySorted lt l -> StronglySorted (@ltk unit) (map (fun x => (x, tt)) l)).
  { intros l Hl. induction Hl as [|a t Hs IH Hall]; simpl; constructor; [exact IH|].
    rewrite Forall_forall in *. intros y Hy. apply in_map_iff in Hy. destruct Hy as [z [<- Hz]].
    unfold ltk. simpl. exact (Hall z Hz). }
  assert (Hnd : forall l, StronglySorted lt l -> NoDup l).
  { intros l Hl. induction Hl as [|a t Hs IH Hall]; constructor; [|exact IH].
    intros Hin. rewrite Forall_forall in Hall. specialize (Hall a Hin). lia. }
  assert (He : map (fun x => (x, tt)) l1 = map (fun x => (x, tt)) l2).
  { apply strict_sorted_perm_eq; [apply Hk; exact H1 | apply Hk; exact H2|].
    apply Permutation_map. apply NoDup_Permutation; [apply Hnd; exact H1 | apply Hnd; exact H2 | exact Hio]. }
  apply (f_equal (map fst)) in He. rewrite !map_map in He. simpl in He. rewrite !map_id in He. exact He.
Qed.

Corollary subdomain_roundtrip_sorted nt s :
  StronglySorted lt s -> Forall (fun c => c < nt) s -> decode_subdomain (encode_subdomain nt s) = s.
Proof.
  intros Hs Hall. destruct (subdomain_roundtrip_model nt s) as [Hd Hin].
  apply sorted_lt_ext; [exact Hd | exact Hs|].
  intros x. rewrite Hin. rewrite Forall_forall in Hall. split; [tauto|]. intros Hx. split; [exact Hx | apply Hall; exact Hx].
Qed.

(* ------------------------------------------------------------------ node-row permutations *)

Lemma permute_permute {A} (d : A) (p q : list nat) (t : list A) :
  Forall (fun i => i < length p) q ->
  permute_rows d q (permute_rows d p t) = permute_rows d (gather 0 p q) t.
Proof.
  intros Hq. unfold permute_rows, gather. rewrite map_map. apply map_ext_in. intros i Hi.
  rewrite Forall_forall in Hq. specialize (Hq i Hi).
  rewrite (nth_indep _ d ((fun j => nth j t d) 0)) by (rewrite map_length; exact Hq).
  apply (map_nth (fun j => nth j t d)).
Qed.

Lemma permute_id {A} (d : A) (t : list A) : permute_rows d (seq 0 (length t)) t = t.
Proof. apply map_nth_seq. Qed.

(* if q after p is the identity on n entries, permuting any n rows by p and then by q restores them *)
Lemma permute_roundtrip {A} (d : A) (p q : list nat) (n : nat) (t : list A) :
  forallb (fun i => i <? length p) q = true -> nats_eqb (gather 0 p q) (seq 0 n) = true ->
  length t = n -> permute_rows d q (permute_rows d p t) = t.
Proof.
  intros Hq He Hn. apply nats_eqb_eq in He.
  rewrite permute_permute.
  - rewrite He, <- Hn. apply permute_id.
  - apply Forall_forall. intros i Hi. rewrite forallb_forall in Hq. apply Nat.ltb_lt. apply Hq. exact Hi.
Qed.

(* ------------------------------------------------------------------ npz key scheme *)

Lemma substring_0_0 s : String.substring 0 0 s = String.EmptyString.
Proof. destruct s; reflexivity. Qed.

Lemma substring_full s : String.substring 0 (String.length s) s = s.
Proof. induction s as [|c s IH]; simpl; [reflexivity|]. rewrite IH. reflexivity. Qed.

Definition pre2 (a c : Ascii.ascii) : String.string := String.String a (String.String c String.EmptyString).

Lemma substring_prefix2 a c name : String.substring 0 2 (String.append (pre2 a c) name) = pre2 a c.
Proof. unfold pre2. simpl. rewrite substring_0_0. reflexivity. Qed.

Lemma substring_rest2 a c name :
  String.substring 2 (String.length (String.append (pre2 a c) name) - 2) (String.append (pre2 a c) name) = name.
Proof. unfold pre2. simpl. rewrite Nat.sub_0_r. apply substring_full. Qed.

Lemma strip_prefix2_hit (a c : Ascii.ascii) (name : String.string) :
  strip_prefix2 (pre2 a c) (key_with_prefix (pre2 a c) name) = Some name.
Proof.
  unfold strip_prefix2, key_with_prefix. rewrite substring_prefix2, String.eqb_refl, substring_rest2. reflexivity.
Qed.

Lemma strip_prefix2_miss (a c a' c' : Ascii.ascii) (name : String.string) :
  String.eqb (pre2 a' c') (pre2 a c) = false ->
  strip_prefix2 (pre2 a c) (key_with_prefix (pre2 a' c') name) = None.
Proof.
  intros Hne. unfold strip_prefix2, key_with_prefix. rewrite substring_prefix2, Hne. reflexivity.
Qed.

Lemma decode_keys_app pre l1 l2 : decode_keys pre (l1 ++ l2) = decode_keys pre l1 ++ decode_keys pre l2.
Proof.
  induction l1 as [|k l1 IH]; simpl; [reflexivity|].
  destruct (strip_prefix2 pre k); simpl; rewrite IH; reflexivity.
Qed.

Lemma decode_keys_hit (a c : Ascii.ascii) names :
  decode_keys (pre2 a c) (map (key_with_prefix (pre2 a c)) names) = names.
Proof.
  induction names as [|n names IH]; [reflexivity|].
  cbn [map decode_keys]. rewrite strip_prefix2_hit, IH. reflexivity.
Qed.

Lemma decode_keys_miss (a c a' c' : Ascii.ascii) names :
  String.eqb (pre2 a' c') (pre2 a c) = false ->
  decode_keys (pre2 a c) (map (key_with_prefix (pre2 a' c')) names) = [].
Proof.
  intros Hne. induction names as [|n names IH]; [reflexivity|].
  cbn [map decode_keys]. rewrite strip_prefix2_miss by exact Hne. exact IH.
Qed.

(* ------------------------------------------------------------------ boolean coherence test is sound *)

Lemma nodupb_sound l : nodupb l = true -> NoDup l.
Proof.
  induction l as [|x l IH]; simpl; intros H; [constructor|].
  apply andb_true_iff in H. destruct H as [Hx Hl]. constructor; [|apply IH; exact Hl].
  intros Hin. apply negb_true_iff in Hx.
  assert (He : existsb (Nat.eqb x) l = true) by (apply existsb_exists; exists x; split; [exact Hin | apply Nat.eqb_refl]).
  congruence.
Qed.

Lemma coherentb_sound nslots nt t2f f2t f o :
  coherentb nslots nt t2f f2t f o = true -> coherent1 nslots nt t2f f2t f o.
Proof.
  unfold coherentb. fold (side_cell f2t o f). fold (side_cell f2t true f). fold (side_cell f2t false f).
  intros H. apply andb_true_iff in H. destruct H as [H Htwo].
  apply andb_true_iff in H. destruct H as [H Hcnt].
  apply andb_true_iff in H. destruct H as [H0 H1].
  apply Z.leb_le in H0. apply Z.ltb_lt in H1. apply Nat.eqb_eq in Hcnt.
  set (c := Z.to_nat (side_cell f2t o f)) in *.
  set (fl := filter (fun r => get2 0 t2f r c =? f) (seq 0 nslots)) in *.
  assert (Hin : forall r, In r fl <-> r < nslots /\ get2 0 t2f r c = f).
  { intros r. unfold fl. rewrite filter_In, in_seq, Nat.eqb_eq. intuition lia. }
  destruct fl as [|x [|y fl']] eqn:Hfl; try discriminate.
  constructor.
  - split; assumption.
  - exists x. apply Hin. left. reflexivity.
  - intros r r' Hr Hr' Hh Hh'.
    assert (Hx : In r [x]) by (apply Hin; split; assumption).
    assert (Hx' : In r' [x]) by (apply Hin; split; assumption).
    destruct Hx as [<-|[]]. destruct Hx' as [<-|[]]. reflexivity.
  - intros Ho. subst o. simpl in Htwo. apply negb_true_iff in Htwo. apply Z.eqb_neq. exact Htwo.
Qed.

Lemma coherent_tagb_sound nslots nt t2f f2t ori b :
  coherent_tagb nslots nt t2f f2t ori b = true ->
  length ori = length b /\ NoDup b /\
  forall f o, In (f, o) (combine b ori) -> coherent1 nslots nt t2f f2t f o.
Proof.
  unfold coherent_tagb. intros H. apply andb_true_iff in H. destruct H as [H Hall].
  apply andb_true_iff in H. destruct H as [Hlen Hnd].
  split; [apply Nat.eqb_eq; exact Hlen|]. split; [apply nodupb_sound; exact Hnd|].
  intros f o Hin. rewrite forallb_forall in Hall. apply coherentb_sound. exact (Hall (f, o) Hin).
Qed.

(* ------------------------------------------------------------------ bitmask_roundtrip over an arbitrary set of distinct slots *)

Lemma testbit_add_pow2_free a k r : N.testbit a k = false ->
  N.testbit (2 ^ k + a) r = xorb (N.testbit a r) (N.eqb k r).
Proof.
  intros Ha.
  assert (Hl : N.land (2 ^ k) a = 0%N).
  { apply N.bits_inj. intros i. rewrite N.land_spec, N.bits_0, N.pow2_bits_eqb.
    destruct (N.eqb_spec k i) as [->|Hne]; [rewrite Ha; reflexivity | reflexivity]. }
  rewrite (N.add_nocarry_lxor _ _ Hl), N.lxor_spec, N.pow2_bits_eqb. apply xorb_comm.
Qed.

Theorem testbit_sum_pow2 (S : list nat) (r : nat) : NoDup S ->
  N.testbit (sum_pow2 S) (N.of_nat r) = existsb (Nat.eqb r) S.
Proof.
  revert r. induction S as [|s S IH]; intros r Hn; simpl.
  - reflexivity.
  - inversion Hn as [|? ? Hns HnS]; subst.
    assert (Hfree : N.testbit (sum_pow2 S) (N.of_nat s) = false).
    { rewrite (IH s HnS). destruct (existsb (Nat.eqb s) S) eqn:He; [|reflexivity].
      apply existsb_exists in He. destruct He as [x [Hx Hxe]]. apply Nat.eqb_eq in Hxe. subst. contradiction. }
    rewrite (testbit_add_pow2_free _ _ _ Hfree), (IH r HnS).
    destruct (Nat.eqb_spec r s) as [->|Hne].
    + rewrite N.eqb_refl. rewrite <- (IH s HnS), Hfree. reflexivity.
    + replace (N.of_nat s =? N.of_nat r)%N with false by (symmetry; apply N.eqb_neq; lia).
      rewrite xorb_false_r. reflexivity.
Qed.

Corollary bitmask_roundtrip_set (S : list nat) (r : nat) : NoDup S ->
  (N.testbit (sum_pow2 S) (N.of_nat r) = true <-> In r S).
Proof.
  intros Hn. rewrite testbit_sum_pow2 by exact Hn. rewrite existsb_exists. split.
  - intros [x [Hx He]]. apply Nat.eqb_eq in He. subst. exact Hx.
  - intros Hin. exists r. split; [exact Hin | apply Nat.eqb_refl].
Qed.

(* ------------------------------------------------------------------ F7, stated on the model: sorting the facets on their own is NOT a round trip.
   Two triangles (0,1,2), (1,2,3); tagged facets 1 = {0,2} (slot 2 of cell 0) and 2 = {1,2} (interior, flag 1 =
   owned by cell 1, slot 0).  The tag satisfies the coherence hypothesis, the paired decoding returns it, the unpaired one
   loses the flag. *)
Example unpaired_decoding_refuted :
  let t2f := [[0; 2]; [2; 4]; [1; 3]] in
  let f2t := [[0; 0; 0; 1; 1]; [-1; -1; 1; -1; -1]]%Z in
  let b := [1; 2] in let ori := [false; true] in
  coherent_tagb 3 2 t2f f2t ori b = true /\
  decode_boundary 3 2 t2f f2t (encode_boundary 3 2 t2f f2t ori b) = ([1; 2], [false; true]) /\
  decode_boundary_unpaired 3 2 t2f f2t (encode_boundary 3 2 t2f f2t ori b) = ([1; 2], [false; false]).
Proof. vm_compute. repeat split. Qed.

(* ------------------------------------------------------------------ keys with different two-character markers never collide *)
Lemma key_with_prefix_inj a c a' c' n n' :
  key_with_prefix (pre2 a c) n = key_with_prefix (pre2 a' c') n' -> pre2 a c = pre2 a' c' /\ n = n'.
Proof.
  intros H. unfold key_with_prefix in H.
  assert (H1 := f_equal (String.substring 0 2) H). rewrite !substring_prefix2 in H1.
  split; [exact H1|].
  assert (H2 : String.substring 2 (String.length (String.append (pre2 a c) n) - 2) (String.append (pre2 a c) n)
             = String.substring 2 (String.length (String.append (pre2 a' c') n') - 2) (String.append (pre2 a' c') n'))
    by (rewrite H; reflexivity).
  rewrite !substring_rest2 in H2. exact H2.
Qed.

Lemma in_prefixed_keys a c a' c' n names :
  In (key_with_prefix (pre2 a c) n) (map (key_with_prefix (pre2 a' c')) names) <->
  pre2 a c = pre2 a' c' /\ In n names.
Proof.
  rewrite in_map_iff. split.
  - intros [m [He Hm]]. apply key_with_prefix_inj in He. destruct He as [Hp Hn]. subst m. split; [now symmetry | exact Hm].
  - intros [Hp Hn]. exists n. split; [rewrite Hp; reflexivity | exact Hn].
Qed.

(* ------------------------------------------------------------------ dictionary form *)
Lemma lookup_orientations_notin k (b : bdict) : ~ In k (map fst b) -> lookup k (dict_orientations b) = None.
Proof.
  induction b as [|[k' [f o]] b IH]; intros Hn; simpl; [reflexivity|].
  simpl in Hn. destruct o as [o|]; simpl.
  - destruct (String.eqb_spec k k') as [->|Hne]; [exfalso; apply Hn; left; reflexivity|]. apply IH. tauto.
  - apply IH. tauto.
Qed.

(* dict_roundtrip: for pairwise distinct names every boundary comes back with its facets and with exactly its flags *)
Theorem dict_roundtrip_model (b : bdict) : NoDup (map fst b) -> dict_load (dict_boundaries b) (dict_orientations b) = b.
Proof.
  unfold dict_load, dict_boundaries. rewrite map_map. simpl.
  induction b as [|[k [f o]] b IH]; intros Hn; simpl; [reflexivity|].
  inversion Hn as [|? ? Hk Hn']; subst. f_equal.
  - destruct o as [o|]; simpl.
    + rewrite String.eqb_refl. reflexivity.
    + rewrite lookup_orientations_notin by exact Hk. reflexivity.
  - rewrite <- (IH Hn') at 2. apply map_ext_in. intros [k' [f' o']] Hin. simpl.
    destruct o as [o|]; simpl; [|reflexivity].
    destruct (String.eqb_spec k' k) as [->|Hne]; [|reflexivity].
    exfalso. apply Hk. apply in_map_iff. exists (k, (f', o')). split; [reflexivity | exact Hin].
Qed.

(* ------------------------------------------------------------------ cell-data key scheme *)
Lemma split_on_no_char c s : has_char c s = false -> split_on c s = [s].
Proof.
  induction s as [|a s IH]; simpl; intros H; [reflexivity|].
  apply orb_false_iff in H. destruct H as [Ha Hs]. rewrite Ha, (IH Hs). reflexivity.
Qed.

Import String Ascii.
(* cell-data key scheme: a tag name without ':' is read back unchanged together with its kind *)
Theorem key_scheme_roundtrip (name : String.string) :
  has_char colon name = false ->
  parse_key (String.append "skfem:s:"%string name) = ("skfem"%string, "s"%string, name) /\
  parse_key (String.append "skfem:b:"%string name) = ("skfem"%string, "b"%string, name).
Proof.
  intros H. unfold parse_key. simpl. rewrite (split_on_no_char _ _ H). split; reflexivity.
Qed.

Lemma split_on_max_0 c s : split_on_max c 0 s = [s].
Proof. destruct s; reflexivity. Qed.

(* with at most two splits EVERY tag name (also one containing ':') is read back unchanged *)
Theorem key_scheme_roundtrip_all (name : String.string) :
  parse_key2 (String.append "skfem:s:"%string name) = ("skfem"%string, "s"%string, name) /\
  parse_key2 (String.append "skfem:b:"%string name) = ("skfem"%string, "b"%string, name).
Proof.
  unfold parse_key2. split.
  - change (split_on_max colon 2 ("skfem:s:" ++ name)) with ("skfem"%string :: "s"%string :: split_on_max colon 0 name).
    rewrite split_on_max_0. reflexivity.
  - change (split_on_max colon 2 ("skfem:b:" ++ name)) with ("skfem"%string :: "b"%string :: split_on_max colon 0 name).
    rewrite split_on_max_0. reflexivity.
Qed.

(* ------------------------------------------------------------------ decoding against the tables of the mesh as loaded *)
(* decoding against ANOTHER neighbour table f2t' (e.g. the one of the mesh as loaded, whose rows may be exchanged where
   the loaded mesh orders the vertices of its cells differently): the facets come back sorted, and each flag says whether
   the second neighbour in f2t' is the OWNER cell f2t[flag][facet] chosen when encoding *)
Theorem boundary_roundtrip_other_f2t (nslots nt : nat) (t2f : mat nat) (f2t f2t' : mat Z) (ori : list bool) (b : list nat) :
  List.length ori = List.length b -> NoDup b ->
  (forall f o, In (f, o) (combine b ori) -> coherent1 nslots nt t2f f2t f o) ->
  decode_boundary nslots nt t2f f2t' (encode_boundary nslots nt t2f f2t ori b)
  = (map fst (sort_kv (combine b ori)),
     map (fun fo : nat * bool => Z.eqb (get2 (- 1)%Z f2t' 1 (fst fo)) (side_cell f2t (snd fo) (fst fo)))
         (sort_kv (combine b ori))).
Proof.
  intros Hlen Hnd Hcoh. unfold decode_boundary.
  rewrite (decode_pairs_eq nslots nt t2f f2t ori b Hlen Hnd Hcoh).
  apply pair_equal_spec. split.
  - rewrite map_map. reflexivity.
  - unfold ori_of. rewrite combine_map_same, !map_map. apply map_ext_in. intros [f o] Hin. simpl.
    assert (HinL : In (f, o) (combine b ori)) by (eapply Permutation_in; [apply sort_kv_perm | exact Hin]).
    destruct (Hcoh _ _ HinL) as [Hv _ _ _]. rewrite Z2Nat.id by lia. reflexivity.
Qed.

(* ... hence the tagged SIDE is kept: if the owner cell is one of the two distinct neighbours of the facet in f2t', the
   decoded flag selects it *)
Theorem decoded_flag_keeps_side (f2t' : mat Z) (f : nat) (c : Z) :
  get2 (- 1)%Z f2t' 0 f <> get2 (- 1)%Z f2t' 1 f ->
  (c = get2 (- 1)%Z f2t' 0 f \/ c = get2 (- 1)%Z f2t' 1 f) ->
  get2 (- 1)%Z f2t' (if Z.eqb (get2 (- 1)%Z f2t' 1 f) c then 1 else 0) f = c.
Proof.
  intros Hne Hc. destruct (Z.eqb_spec (get2 (- 1)%Z f2t' 1 f) c) as [He|Hn]; [exact He|].
  destruct Hc as [Hc|Hc]; [now symmetry | congruence].
Qed.

(* the optional flag comes back for every class default and every value *)
Lemma opt_flag_roundtrip default v : opt_flag_load default (opt_flag_save default v) = v.
Proof. unfold opt_flag_save, opt_flag_load. destruct v, default; reflexivity. Qed.

(* ------------------------------------------------------------------ data dictionaries of to_meshio *)
Lemma lookup_dict_set {V} k k' (v : V) d :
  lookup k (dict_set k' v d) = if String.eqb k k' then Some v else lookup k d.
Proof.
  induction d as [|[k2 v2] d IH]; simpl.
  - reflexivity.
  - destruct (String.eqb_spec k' k2) as [->|Hne]; simpl.
    + destruct (String.eqb k k2); reflexivity.
    + rewrite IH. destruct (String.eqb_spec k k2) as [->|Hne2].
      * destruct (String.eqb_spec k2 k') as [He|_]; [congruence | reflexivity].
      * reflexivity.
Qed.

(* a key the encoder does not produce keeps the caller's value *)
Lemma lookup_merge_user {V} k (a b : list (String.string * V)) :
  lookup k b = None -> lookup k (dict_merge a b) = lookup k a.
Proof.
  unfold dict_merge. revert a. induction b as [|[k' v'] b IH]; intros a H; simpl in *; [reflexivity|].
  destruct (String.eqb_spec k k') as [->|Hne]; [discriminate|].
  rewrite (IH _ H), lookup_dict_set. destruct (String.eqb_spec k k'); [contradiction | reflexivity].
Qed.

(* every key of the encoder (pairwise distinct, as in a dictionary) carries the encoder's value *)
Lemma lookup_merge_enc {V} k (v : V) (a b : list (String.string * V)) :
  NoDup (map fst b) -> lookup k b = Some v -> lookup k (dict_merge a b) = Some v.
Proof.
  unfold dict_merge. revert a. induction b as [|[k' v'] b IH]; intros a Hn H; simpl in *; [discriminate|].
  inversion Hn as [|? ? Hk Hn']; subst.
  destruct (String.eqb_spec k k') as [->|Hne].
  - injection H as ->.
    assert (Hnone : lookup k' b = None).
    { clear -Hk. induction b as [|[k2 v2] b IH]; simpl; [reflexivity|].
      destruct (String.eqb_spec k' k2) as [->|]; [exfalso; apply Hk; left; reflexivity|]. apply IH. intros Hin. apply Hk. right. exact Hin. }
    fold (dict_merge (dict_set k' v a) b). rewrite (lookup_merge_user k' _ b Hnone), lookup_dict_set, String.eqb_refl. reflexivity.
  - apply IH; assumption.
Qed.

(* forwarding theorem for the data dictionaries of to_meshio *)
Theorem data_option_spec {V} (flag : bool) (user : option (list (String.string * V))) (enc : list (String.string * V)) :
  (flag = false -> data_option flag user enc = user) /\
  (flag = true -> exists d, data_option flag user enc = Some d /\
     (forall k, lookup k enc = None -> lookup k d = match user with Some u => lookup k u | None => None end) /\
     (NoDup (map fst enc) -> forall k v, lookup k enc = Some v -> lookup k d = Some v)).
Proof.
  split; intros ->; simpl; [reflexivity|].
  eexists. split; [reflexivity|]. split.
  - intros k Hk. rewrite (lookup_merge_user k _ enc Hk). destruct user; reflexivity.
  - intros Hn k v Hk. apply lookup_merge_enc; assumption.
Qed.
