(* C12 — boundary_children: the old->new facet index map of MeshTri1._uniform / MeshQuad1._uniform.
   For every mesh and every facet f that belongs to some cell, after all the fancy assignments (repeated
   targets: last write wins) new_facets[0][f] and new_facets[1][f] are the two halves {u, c} and {c, v}
   of f = {u, v}, where c = offF + f is the node created on f.  Also: with sorted cells and lexicographic
   facet numbering the first three triangle children are already sorted, so sort_t does not disturb the map. *)
From Coq Require Import List Arith Bool Lia.
Import ListNotations.
Require Import Model.C12_Refine Proofs.C12_RefineProofs.
Local Open Scope nat_scope.

(* ------------------------------------------------------------------ last write wins *)
Definition lastw (L : list (nat * list nat)) (f : nat) : option (list nat) :=
  fold_left (fun acc kv => if Nat.eqb f (fst kv) then Some (snd kv) else acc) L None.

Lemma new_facets_at_rows ws r f :
  new_facets_at ws r f
  = lastw (map (fun w : bwrite => (snd (fst w), snd w)) (filter (fun w : bwrite => Nat.eqb r (fst (fst w))) ws)) f.
Proof.
  unfold new_facets_at, lastw. generalize (@None (list nat)) as acc.
  induction ws as [|[[r' f'] v] ws IH]; intros acc; simpl; [reflexivity|].
  destruct (Nat.eqb r r'); simpl; apply IH.
Qed.

Definition ztriple := (nat * list nat * list nat)%type.   (* target, value for row 0, value for row 1 *)
Definition zkey (z : ztriple) : nat := fst (fst z).
Definition zstep (f : nat) (acc : option ztriple) (z : ztriple) : option ztriple :=
  if Nat.eqb f (zkey z) then Some z else acc.
Definition laste (Z : list ztriple) (f : nat) : option ztriple := fold_left (zstep f) Z None.

Lemma lastw_zip (Z : list ztriple) (g : ztriple -> list nat) f :
  lastw (map (fun z => (zkey z, g z)) Z) f = option_map g (laste Z f).
Proof.
  unfold lastw, laste. change (@None (list nat)) with (option_map g None).
  generalize (@None ztriple) as acc.
  induction Z as [|z Z' IH]; intros acc; simpl; [reflexivity|].
  unfold zstep at 2. destruct (Nat.eqb f (zkey z)); [apply (IH (Some z)) | apply IH].
Qed.

Lemma laste_gen f (all : list ztriple) : forall L acc z,
  incl L all -> (forall z', acc = Some z' -> In z' all /\ zkey z' = f) ->
  fold_left (zstep f) L acc = Some z -> In z all /\ zkey z = f.
Proof.
  induction L as [|x L IH]; intros acc z Hincl Hacc H; simpl in H; [now apply Hacc|].
  apply (IH (zstep f acc x) z); [intros y Hy; apply Hincl; now right | | exact H].
  intros z' Hz'. unfold zstep in Hz'. destruct (Nat.eqb f (zkey x)) eqn:E.
  - injection Hz' as <-. apply Nat.eqb_eq in E. split; [apply Hincl; now left | now symmetry].
  - now apply Hacc.
Qed.

Lemma laste_some Z f z : laste Z f = Some z -> In z Z /\ zkey z = f.
Proof. intros H. apply (laste_gen f Z Z None z); [apply incl_refl | discriminate | exact H]. Qed.

Lemma fold_zstep_some f : forall L a, exists z', fold_left (zstep f) L (Some a) = Some z'.
Proof.
  induction L as [|x L IH]; intros a; simpl; [now exists a|].
  unfold zstep at 2. destruct (Nat.eqb f (zkey x)); apply IH.
Qed.

Lemma laste_exists Z f : (exists z, In z Z /\ zkey z = f) -> exists z', laste Z f = Some z'.
Proof.
  unfold laste. generalize (@None ztriple) as acc.
  induction Z as [|x Z' IH]; intros acc [z [Hin Hk]]; [destruct Hin|]. simpl.
  destruct Hin as [->|Hin].
  - unfold zstep at 2. rewrite Hk, Nat.eqb_refl. apply fold_zstep_some.
  - apply IH. now exists z.
Qed.

(* ------------------------------------------------------------------ small facts *)
Lemma sort_nat_pair p q : sort_nat [p; q] = sort_nat [q; p].
Proof.
  unfold sort_nat. simpl. destruct (p <=? q) eqn:E1, (q <=? p) eqn:E2; try reflexivity.
  - apply Nat.leb_le in E1, E2. assert (p = q) by lia. now subst.
  - apply Nat.leb_gt in E1, E2. lia.
Qed.

Lemma list_eqb_nat_eq a : forall b, list_eqb_nat a b = true -> a = b.
Proof.
  induction a as [|x a IH]; intros [|y b] H; simpl in H; try discriminate; [reflexivity|].
  apply andb_true_iff in H. destruct H as [H1 H2]. apply Nat.eqb_eq in H1. subst. f_equal. now apply IH.
Qed.

Lemma combine_same_image {A B} (g : A -> B) : forall l1 l2 x y,
  map g l1 = map g l2 -> In (x, y) (combine l1 l2) -> g x = g y.
Proof.
  induction l1 as [|a l1 IH]; intros [|b l2] x y H Hin; simpl in *; try contradiction; try discriminate.
  injection H as H0 H. destruct Hin as [Hin|Hin]; [injection Hin as <- <-; exact H0 | now apply (IH l2)].
Qed.

Lemma nref_eqb_eq a b : nref_eqb a b = true -> a = b.
Proof.
  destruct a, b; simpl; intros H; try discriminate; try reflexivity; apply Nat.eqb_eq in H; now subst.
Qed.

Lemma nth_map_nc {B} (f : nref -> B) (l : list nref) i d : nth i l NC <> NC -> nth i (map f l) d = f (nth i l NC).
Proof.
  revert i; induction l as [|x l IH]; intros [|i] H; simpl in *; try (exfalso; now apply H); auto.
Qed.

(* ------------------------------------------------------------------ the theorem *)
Section Boundary.
  Variables (rf : list (list nat)) (tpls : list (list nref)) (asg : list (nat * nat * nat * nat)).
  Variables (o : offs) (tb : tables) (newt : list (list nat)).
  Let nt := length (tb_t tb).
  Let t2f := tb_t2f tb.

  Hypothesis Hfin : bassign_ok rf tpls asg = true.
  (* the cell read by m.t2f[b, k + c nt] is child c of cell k (refine_t_nth; also after sort_t, see below) *)
  Hypothesis Hnewt : forall s, In s asg -> asg_c s < length tpls -> forall k, k < nt ->
    nth (fallback_index nt (asg_c s) k) newt [] = child o (cell_ctx tb k) (nth (asg_c s) tpls []).

  Definition bval (s : nat * nat * nat * nat) (k : nat) : list nat :=
    local_facet rf (nth (fallback_index nt (asg_c s) k) newt []) (asg_b s).
  Definition W (s : nat * nat * nat * nat) : list bwrite :=
    map (fun k => (asg_row s, nth (asg_a s) (nth k t2f []) 0, bval s k)) (seq 0 nt).

  Lemma bwrites_W : bwrites rf newt nt t2f asg = flat_map W asg.
  Proof.
    unfold bwrites. apply flat_map_ext. intros [[[r a] b] c]. reflexivity.
  Qed.

  Lemma filter_W r s : filter (fun w : bwrite => Nat.eqb r (fst (fst w))) (W s) = if Nat.eqb (asg_row s) r then W s else [].
  Proof.
    unfold W. rewrite (Nat.eqb_sym (asg_row s) r). induction (seq 0 nt) as [|k l IH]; simpl.
    - destruct (Nat.eqb r (asg_row s)); reflexivity.
    - rewrite IH. destruct (Nat.eqb r (asg_row s)); reflexivity.
  Qed.

  Lemma filter_rows r : forall l,
    filter (fun w : bwrite => Nat.eqb r (fst (fst w))) (flat_map W l) = flat_map W (rows_of r l).
  Proof.
    induction l as [|s l IH]; simpl; [reflexivity|].
    rewrite filter_app, IH, filter_W. unfold rows_of at 2. simpl.
    destruct (Nat.eqb (asg_row s) r); reflexivity.
  Qed.

  Definition zof (ss : (nat * nat * nat * nat) * (nat * nat * nat * nat)) : list ztriple :=
    map (fun k => (nth (asg_a (fst ss)) (nth k t2f []) 0, bval (fst ss) k, bval (snd ss) k)) (seq 0 nt).
  Definition Zl (A0 A1 : list (nat * nat * nat * nat)) : list ztriple := flat_map zof (combine A0 A1).

  Lemma zip_rows : forall A0 A1, map asg_a A0 = map asg_a A1 ->
    map (fun w : bwrite => (snd (fst w), snd w)) (flat_map W A0) = map (fun z => (zkey z, snd (fst z))) (Zl A0 A1) /\
    map (fun w : bwrite => (snd (fst w), snd w)) (flat_map W A1) = map (fun z => (zkey z, snd z)) (Zl A0 A1).
  Proof.
    induction A0 as [|s0 A0 IH]; intros [|s1 A1] H; simpl in H; try discriminate; [split; reflexivity|].
    injection H as Ha H. destruct (IH A1 H) as [E0 E1]. unfold Zl in *. simpl. rewrite !map_app. split.
    - rewrite E0. f_equal. unfold W, zof. rewrite !map_map. apply map_ext. intros k. reflexivity.
    - rewrite E1. f_equal. unfold W, zof. rewrite !map_map. apply map_ext. intros k. simpl. unfold zkey. simpl.
      now rewrite Ha.
  Qed.

  (* value written by a correct statement *)
  Lemma bval_ok s k e : In s asg -> k < nt -> stmt_end rf tpls s = Some e ->
    bval s k = sort_nat [nth e (nth k (tb_t tb) []) 0; offF o + nth (asg_a s) (nth k t2f []) 0] /\ asg_a s < length rf.
  Proof.
    intros Hs Hk He. unfold stmt_end in He.
    destruct ((length (nth (asg_b s) rf []) =? 2) && (asg_c s <? length tpls) && (asg_a s <? length rf)) eqn:Hc;
      [|discriminate].
    rewrite !andb_true_iff in Hc. destruct Hc as [[Hl2 Hct] Har].
    apply Nat.eqb_eq in Hl2. apply Nat.ltb_lt in Hct, Har. split; [|exact Har].
    unfold bval. rewrite (Hnewt s Hs Hct k Hk). unfold local_facet, child.
    destruct (nth (asg_b s) rf []) as [|i0 [|i1 [|]]] eqn:Elf; simpl in Hl2; try discriminate.
    cbn [nth] in He. unfold gather. cbn [map].
    set (tpl := nth (asg_c s) tpls []) in *.
    assert (Hres : forall i r, nth i tpl NC = r -> r <> NC ->
                   nth i (map (resolve o (cell_ctx tb k)) tpl) 0 = resolve o (cell_ctx tb k) r).
    { intros i r <- Hr. now apply nth_map_nc. }
    destruct (nth i0 tpl NC) as [e'|?|a'|] eqn:Ex; destruct (nth i1 tpl NC) as [e''|?|a''|] eqn:Ey; try discriminate.
    - destruct (Nat.eqb a'' (asg_a s)) eqn:Ea; [|discriminate]. injection He as <-. apply Nat.eqb_eq in Ea. subst a''.
      rewrite (Hres i0 _ Ex ltac:(discriminate)), (Hres i1 _ Ey ltac:(discriminate)). reflexivity.
    - destruct (Nat.eqb a' (asg_a s)) eqn:Ea; [|discriminate]. injection He as <-. apply Nat.eqb_eq in Ea. subst a'.
      rewrite (Hres i0 _ Ex ltac:(discriminate)), (Hres i1 _ Ey ltac:(discriminate)).
      simpl resolve. apply sort_nat_pair.
  Qed.

  Theorem boundary_children f k0 a0 :
    k0 < nt -> a0 < length rf -> nth a0 (nth k0 t2f []) 0 = f ->
    exists k a e0 e1, k < nt /\ a < length rf /\ nth a (nth k t2f []) 0 = f /\
      ((e0 = nth 0 (nth a rf []) 0 /\ e1 = nth 1 (nth a rf []) 0) \/ (e0 = nth 1 (nth a rf []) 0 /\ e1 = nth 0 (nth a rf []) 0)) /\
      new_facets_at (bwrites rf newt nt t2f asg) 0 f = Some (sort_nat [nth e0 (nth k (tb_t tb) []) 0; offF o + f]) /\
      new_facets_at (bwrites rf newt nt t2f asg) 1 f = Some (sort_nat [nth e1 (nth k (tb_t tb) []) 0; offF o + f]).
  Proof.
    intros Hk0 Ha0 Hf.
    pose proof Hfin as Hfin'. unfold bassign_ok in Hfin'. rewrite !andb_true_iff in Hfin'.
    destruct Hfin' as [[[Hpairs Hrows] Hcover] _].
    apply list_eqb_nat_eq in Hrows.
    set (A0 := rows_of 0 asg) in *. set (A1 := rows_of 1 asg) in *.
    destruct (zip_rows A0 A1 Hrows) as [E0 E1].
    assert (R0 : new_facets_at (bwrites rf newt nt t2f asg) 0 f = option_map (fun z => snd (fst z)) (laste (Zl A0 A1) f)).
    { rewrite new_facets_at_rows, bwrites_W, filter_rows. fold A0. rewrite E0. apply lastw_zip. }
    assert (R1 : new_facets_at (bwrites rf newt nt t2f asg) 1 f = option_map (fun z => snd z) (laste (Zl A0 A1) f)).
    { rewrite new_facets_at_rows, bwrites_W, filter_rows. fold A1. rewrite E1. apply lastw_zip. }
    (* some write hits f *)
    assert (Hex : exists z, In z (Zl A0 A1) /\ zkey z = f).
    { rewrite forallb_forall in Hcover. specialize (Hcover a0 ltac:(apply in_seq; lia)).
      rewrite existsb_exists in Hcover. destruct Hcover as [s0 [Hs0 Hsa]]. apply Nat.eqb_eq in Hsa.
      assert (Hlen : length A0 = length A1) by (rewrite <- (map_length asg_a A0), Hrows; apply map_length).
      destruct (In_nth A0 s0 s0 Hs0) as [i [Hi Hnth]].
      set (s1 := nth i A1 s0).
      assert (Hin : In (s0, s1) (combine A0 A1)).
      { rewrite <- Hnth. unfold s1. rewrite <- (combine_nth A0 A1 i s0 s0 Hlen). apply nth_In. rewrite combine_length. lia. }
      exists (nth (asg_a s0) (nth k0 t2f []) 0, bval s0 k0, bval s1 k0). split.
      - unfold Zl. apply in_flat_map. exists (s0, s1). split; [exact Hin|]. unfold zof. simpl.
        apply in_map_iff. exists k0. split; [reflexivity | apply in_seq; lia].
      - unfold zkey. simpl. now rewrite Hsa. }
    destruct (laste_exists _ _ Hex) as [z Hz]. rewrite Hz in R0, R1. simpl in R0, R1.
    destruct (laste_some _ _ _ Hz) as [Hin Hkey].
    unfold Zl in Hin. apply in_flat_map in Hin. destruct Hin as [[s0 s1] [Hss Hzof]].
    unfold zof in Hzof. apply in_map_iff in Hzof. destruct Hzof as [k [Hzk Hkr]]. apply in_seq in Hkr.
    simpl in Hzk. subst z. unfold zkey in Hkey. simpl in Hkey, R0, R1.
    pose proof (in_combine_l _ _ _ _ Hss) as H0in. pose proof (in_combine_r _ _ _ _ Hss) as H1in.
    unfold A0, A1, rows_of in H0in, H1in. apply filter_In in H0in, H1in.
    destruct H0in as [Hs0 _], H1in as [Hs1 _].
    pose proof (combine_same_image asg_a A0 A1 s0 s1 Hrows Hss) as Hsame.
    rewrite forallb_forall in Hpairs. specialize (Hpairs (s0, s1) Hss). unfold pair_ok in Hpairs. simpl in Hpairs.
    destruct (stmt_end rf tpls s0) as [e0|] eqn:Ee0; [|discriminate].
    destruct (stmt_end rf tpls s1) as [e1|] eqn:Ee1; [|discriminate].
    destruct (bval_ok s0 k e0 Hs0 ltac:(lia) Ee0) as [V0 Har].
    destruct (bval_ok s1 k e1 Hs1 ltac:(lia) Ee1) as [V1 _].
    exists k, (asg_a s0), e0, e1. split; [lia|]. split; [exact Har|]. split; [exact Hkey|]. split.
    - rewrite andb_true_iff, orb_true_iff, !andb_true_iff, !Nat.eqb_eq in Hpairs. tauto.
    - split.
      + rewrite R0, V0, Hkey. reflexivity.
      + rewrite R1, V1, <- Hsame, Hkey. reflexivity.
  Qed.
End Boundary.

(* for the block-layout classes: the map read from the source, applied to the connectivity computed by the model *)
Definition halves_spec (rf : list (list nat)) (tb : tables) (offF_ : nat) (ws : list bwrite) (f : nat) : Prop :=
  exists k a e0 e1, k < length (tb_t tb) /\ a < length rf /\ nth a (nth k (tb_t2f tb) []) 0 = f /\
    ((e0 = nth 0 (nth a rf []) 0 /\ e1 = nth 1 (nth a rf []) 0) \/ (e0 = nth 1 (nth a rf []) 0 /\ e1 = nth 0 (nth a rf []) 0)) /\
    new_facets_at ws 0 f = Some (sort_nat [nth e0 (nth k (tb_t tb) []) 0; offF_ + f]) /\
    new_facets_at ws 1 f = Some (sort_nat [nth e1 (nth k (tb_t tb) []) 0; offF_ + f]).

Theorem boundary_children_block rf (s : spec) dim p tb asg :
  bassign_ok rf (sp_tpls s) asg = true ->
  forall f k0 a0, k0 < length (tb_t tb) -> a0 < length rf -> nth a0 (nth k0 (tb_t2f tb) []) 0 = f ->
  halves_spec rf tb (offF (offs_of s p tb))
              (bwrites rf (snd (uniform_block s dim p tb)) (length (tb_t tb)) (tb_t2f tb) asg) f.
Proof.
  intros Hfin. apply (boundary_children rf (sp_tpls s) asg (offs_of s p tb) tb _ Hfin).
  intros st Hst Hc k Hk. exact (proj2 (uniform_block_children s dim p tb (asg_c st) k Hc Hk)).
Qed.

(* the same after __post_init__ re-sorted every cell (sort_t), provided the children the map reads are already sorted *)
Theorem boundary_children_block_sorted rf (s : spec) dim p tb asg :
  bassign_ok rf (sp_tpls s) asg = true ->
  (forall st, In st asg -> forall k, k < length (tb_t tb) ->
     sort_nat (child (offs_of s p tb) (cell_ctx tb k) (nth (asg_c st) (sp_tpls s) []))
     = child (offs_of s p tb) (cell_ctx tb k) (nth (asg_c st) (sp_tpls s) [])) ->
  forall f k0 a0, k0 < length (tb_t tb) -> a0 < length rf -> nth a0 (nth k0 (tb_t2f tb) []) 0 = f ->
  halves_spec rf tb (offF (offs_of s p tb))
              (bwrites rf (map sort_nat (snd (uniform_block s dim p tb))) (length (tb_t tb)) (tb_t2f tb) asg) f.
Proof.
  intros Hfin Hsorted. apply (boundary_children rf (sp_tpls s) asg (offs_of s p tb) tb _ Hfin).
  intros st Hst Hc k Hk.
  destruct (uniform_block_children s dim p tb (asg_c st) k Hc Hk) as [Hlen Hnth].
  rewrite (nth_map' sort_nat _ [] []).
  - rewrite Hnth. now apply Hsorted.
  - rewrite Hlen. unfold fallback_index. nia.
Qed.

Lemma sort_nat_sorted3 a b c : a < b -> b < c -> sort_nat [a; b; c] = [a; b; c].
Proof.
  intros H1 H2. unfold sort_nat. simpl.
  assert (E1 : (b <=? c) = true) by (apply Nat.leb_le; lia). rewrite E1. simpl.
  assert (E2 : (a <=? b) = true) by (apply Nat.leb_le; lia). now rewrite E2.
Qed.
