(* C06 — polynomial completeness of the element spaces, certificate-checked.
   The element's exact basis polynomials are regenerated from the source on every run (group F's symbolic execution of
   lbasis, Base.C09_Poly); here: the boolean certificate checkers and their soundness.
     cert_ok    : every listed monomial is the stated rational combination of the basis polynomials (polynomial identity)
     nodal_cert : the combination whose coefficients are the monomial's values at the DOF locations is the monomial
                  (the nodal interpolant of the monomial IS the monomial)
   lifted to: every monomial of total degree <= k (or per-direction degree <= k) lies in the span, and the nodal
   interpolant of EVERY polynomial of that degree is the polynomial, at every point. *)
From Coq Require Import List Arith ZArith QArith Qfield Bool Lia Setoid Morphisms.
Require Coq.Strings.String.
Import ListNotations.
Require Import Base.Corr Base.C05_Np Base.C09_Poly Base.C09_PolyQ.
Local Open Scope nat_scope.

Definition lincomb (cs : list Q) (basis : list poly) : poly := psum (map2 pscale cs basis).
Definition pmono (m : mono) : poly := [(1%Q, m)].
Definition msum (m : mono) : nat := fold_right Nat.add 0%nat m.

(* all exponent vectors of length dim with total degree <= k / with every exponent <= k *)
Fixpoint monos_le (dim k : nat) : list mono :=
  match dim with
  | O => [[]]
  | S d => flat_map (fun a => map (cons a) (monos_le d (k - a))) (seq 0 (S k))
  end.
Fixpoint monos_box (dim k : nat) : list mono :=
  match dim with
  | O => [[]]
  | S d => flat_map (fun a => map (cons a) (monos_box d k)) (seq 0 (S k))
  end.

Definition cert_ok (basis : list poly) (cert : list (mono * list Q)) : bool :=
  forallb (fun mc => peqb (lincomb (snd mc) basis) (pmono (fst mc))) cert.
Definition covers (ms : list mono) (cert : list (mono * list Q)) : bool :=
  forallb (fun m => existsb (fun mc => nats_eqb m (fst mc)) cert) ms.
Definition complete_cert (basis : list poly) (ms : list mono) (cert : list (mono * list Q)) : bool :=
  cert_ok basis cert && covers ms cert.
Definition nodal_values (p : poly) (locs : list (list Q)) : list Q := map (fun loc => qeval p (lpt loc)) locs.
Definition nodal_cert (basis : list poly) (locs : list (list Q)) (ms : list mono) : bool :=
  forallb (fun m => peqb (lincomb (nodal_values (pmono m) locs) basis) (pmono m)) ms.

(* what the certificates establish *)
Definition in_span (basis : list poly) (p : poly) : Prop :=
  exists cs, forall pt, (qeval (lincomb cs basis) pt == qeval p pt)%Q.
Definition complete_for (basis : list poly) (ms : list mono) : Prop := forall m, In m ms -> in_span basis (pmono m).

Lemma in_monos_le dim : forall k m, length m = dim -> msum m <= k -> In m (monos_le dim k).
Proof.
  induction dim as [|d IH]; intros k m Hl Hs.
  - destruct m; [now left | discriminate].
  - destruct m as [|a m]; [discriminate|]. simpl in Hl, Hs. cbn [monos_le].
    apply in_flat_map. exists a. split; [apply in_seq; lia|]. apply in_map. apply IH; lia.
Qed.
Lemma in_monos_box dim : forall k m, length m = dim -> Forall (fun e => e <= k) m -> In m (monos_box dim k).
Proof.
  induction dim as [|d IH]; intros k m Hl Hs.
  - destruct m; [now left | discriminate].
  - destruct m as [|a m]; [discriminate|]. inversion Hs; subst. simpl in Hl. cbn [monos_box].
    apply in_flat_map. exists a. split; [apply in_seq; lia|]. apply in_map. apply IH; [lia | assumption].
Qed.

Theorem complete_cert_sound basis ms cert : complete_cert basis ms cert = true -> complete_for basis ms.
Proof.
  unfold complete_cert. intros H. apply andb_true_iff in H. destruct H as [Hc Hv]. intros m Hm.
  unfold covers in Hv. rewrite forallb_forall in Hv. specialize (Hv m Hm). apply existsb_exists in Hv.
  destruct Hv as ([m' cs] & Hin & E). simpl in E. apply nats_eqb_eq in E. subst m'.
  unfold cert_ok in Hc. rewrite forallb_forall in Hc. specialize (Hc (m, cs) Hin). simpl in Hc.
  exists cs. intros pt. exact (q_peqb_sound _ _ Hc pt).
Qed.

(* ---- linearity of the evaluation of a combination *)
Local Open Scope Q_scope.
Definition dotq (cs : list Q) (vs : list Q) : Q := fold_right Qplus 0%Q (map2 Qmult cs vs).

Lemma qeval_app p q pt : qeval (p ++ q) pt == qeval p pt + qeval q pt.
Proof. unfold qeval. induction p as [|t p IH]; simpl; [ring | rewrite IH; ring]. Qed.
Lemma qeval_pscale c p pt : qeval (pscale c p) pt == c * qeval p pt.
Proof. unfold qeval, pscale. induction p as [|t p IH]; simpl; [ring|]. rewrite IH. unfold teval. simpl. ring. Qed.
Lemma qeval_lincomb cs basis pt : qeval (lincomb cs basis) pt == dotq cs (map (fun b => qeval b pt) basis).
Proof.
  unfold lincomb, psum, dotq. revert basis; induction cs as [|c cs IH]; intros [|b basis]; simpl; try reflexivity.
  rewrite qeval_app, qeval_pscale, IH. reflexivity.
Qed.

Lemma dotq_add (f g : list Q -> Q) (locs : list (list Q)) vs :
  dotq (map (fun l => f l + g l) locs) vs == dotq (map f locs) vs + dotq (map g locs) vs.
Proof.
  unfold dotq. revert vs; induction locs as [|l locs IH]; intros [|v vs]; simpl; try ring. rewrite IH. ring.
Qed.
Lemma dotq_scale c (f : list Q -> Q) (locs : list (list Q)) vs :
  dotq (map (fun l => c * f l) locs) vs == c * dotq (map f locs) vs.
Proof.
  unfold dotq. revert vs; induction locs as [|l locs IH]; intros [|v vs]; simpl; try ring. rewrite IH. ring.
Qed.
Lemma dotq_ext (f g : list Q -> Q) (locs : list (list Q)) vs :
  (forall l, f l == g l) -> dotq (map f locs) vs == dotq (map g locs) vs.
Proof.
  intros H. unfold dotq. revert vs; induction locs as [|l locs IH]; intros [|v vs]; simpl; try reflexivity.
  rewrite IH, (H l). reflexivity.
Qed.
Lemma dotq_zero (locs : list (list Q)) vs : dotq (map (fun _ => 0) locs) vs == 0.
Proof. unfold dotq. revert vs; induction locs as [|l locs IH]; intros [|v vs]; simpl; try reflexivity. rewrite IH. ring. Qed.

(* the nodal interpolant  I p = sum_i p(x_i) phi_i  of EVERY polynomial whose monomials are certified is p itself *)
Theorem nodal_cert_sound basis locs ms :
  nodal_cert basis locs ms = true ->
  forall p : poly, (forall t, In t p -> In (snd t) ms) ->
  forall pt, qeval (lincomb (nodal_values p locs) basis) pt == qeval p pt.
Proof.
  intros H p Hp pt. rewrite qeval_lincomb. unfold nodal_values.
  set (vs := map (fun b => qeval b pt) basis).
  induction p as [|[c m] p IH].
  - unfold qeval at 1. simpl. rewrite dotq_zero. reflexivity.
  - assert (Hm : In m ms) by (apply (Hp (c, m)); now left).
    unfold nodal_cert in H. rewrite forallb_forall in H. pose proof (q_peqb_sound _ _ (H m Hm) pt) as E.
    rewrite qeval_lincomb in E. fold vs in E. unfold nodal_values in E.
    rewrite (dotq_ext _ (fun l => c * qeval (pmono m) (lpt l) + qeval p (lpt l))).
    2:{ intros l. unfold qeval, pmono. simpl. unfold teval. simpl. ring. }
    rewrite dotq_add, dotq_scale, E, IH by (intros t Ht; apply Hp; now right).
    unfold qeval, pmono. simpl. unfold teval. simpl. ring.
Qed.

Corollary nodal_cert_complete basis locs ms : nodal_cert basis locs ms = true -> complete_for basis ms.
Proof.
  intros H m Hm. exists (nodal_values (pmono m) locs). intros pt.
  apply (nodal_cert_sound basis locs ms H). intros t [<-|[]]. exact Hm.
Qed.

(* packaging used by the generated file: one record per element class *)
Record celem := { ce_name : String.string; ce_dim : nat; ce_deg : nat; ce_box : bool; ce_basis : list poly }.
Definition ce_monos (e : celem) : list mono := if ce_box e then monos_box (ce_dim e) (ce_deg e) else monos_le (ce_dim e) (ce_deg e).
Definition ce_complete (e : celem) : Prop := complete_for (ce_basis e) (ce_monos e).
Record nelem := { ne_name : String.string; ne_dim : nat; ne_deg : nat; ne_box : bool; ne_basis : list poly; ne_locs : list (list Q) }.
Definition ne_monos (e : nelem) : list mono := if ne_box e then monos_box (ne_dim e) (ne_deg e) else monos_le (ne_dim e) (ne_deg e).
Definition ne_ok (e : nelem) : Prop := nodal_cert (ne_basis e) (ne_locs e) (ne_monos e) = true.

(* readable forms *)
Theorem complete_total_degree (l : list celem) :
  Forall ce_complete l -> forallb (fun e => negb (ce_box e)) l = true ->
  forall e, In e l -> forall m, length m = ce_dim e -> (msum m <= ce_deg e)%nat -> in_span (ce_basis e) (pmono m).
Proof.
  intros H Hb e He m Hl Hs. rewrite Forall_forall in H. rewrite forallb_forall in Hb.
  specialize (H e He). specialize (Hb e He). apply negb_true_iff in Hb. unfold ce_complete, ce_monos in H. rewrite Hb in H.
  apply H. now apply in_monos_le.
Qed.
Theorem complete_per_direction (l : list celem) :
  Forall ce_complete l -> forallb ce_box l = true ->
  forall e, In e l -> forall m, length m = ce_dim e -> Forall (fun a => (a <= ce_deg e)%nat) m -> in_span (ce_basis e) (pmono m).
Proof.
  intros H Hb e He m Hl Hs. rewrite Forall_forall in H. rewrite forallb_forall in Hb.
  specialize (H e He). specialize (Hb e He). unfold ce_complete, ce_monos in H. rewrite Hb in H.
  apply H. now apply in_monos_box.
Qed.
(* the nodal interpolant of EVERY polynomial p of the element's degree is p: interp (p at doflocs) = p, at every point *)
Definition poly_within (e : nelem) (p : poly) : Prop :=
  forall t, In t p -> length (snd t) = ne_dim e /\
    (if ne_box e then Forall (fun a => (a <= ne_deg e)%nat) (snd t) else (msum (snd t) <= ne_deg e)%nat).
Theorem nodal_interpolant_is_identity (l : list nelem) :
  Forall ne_ok l ->
  forall e, In e l -> forall p, poly_within e p ->
  forall pt, qeval (lincomb (nodal_values p (ne_locs e)) (ne_basis e)) pt == qeval p pt.
Proof.
  intros H e He p Hp pt. rewrite Forall_forall in H. apply (nodal_cert_sound _ _ _ (H e He)).
  intros t Ht. destruct (Hp t Ht) as [Hl Hd]. unfold ne_monos. destruct (ne_box e).
  - now apply in_monos_box.
  - now apply in_monos_le.
Qed.
