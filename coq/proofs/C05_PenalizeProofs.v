(* C05 — penalize (algebraic identity of the penalised rows) and _flatten_dofs (sorted union of views). *)
From Coq Require Import List ZArith Bool Arith Lia Ring Sorted.
Import ListNotations.
Require Import Base.C05_Np Model.C05_BC Proofs.C05_IdxProofs Proofs.C05_CondenseProofs Proofs.C05_EnforceProofs.

Section Penalize.
  Context {R : Type} (o : ring_ops R).
  Hypothesis Rth : ring_theory (r0 o) (r1 o) (radd o) (rmul o) (rsub o) (ropp o) (@eq R).
  Add Ring Rring3 : Rth.
  Local Notation "a [+] b" := (radd o a b) (at level 50, left associativity).
  Local Notation "a [*] b" := (rmul o a b) (at level 40, left associativity).
  Local Notation "a [-] b" := (rsub o a b) (at level 50, left associativity).
  Local Notation zero := (r0 o).

  Lemma row_dot_replace r i v y :
    NoDup (map fst r) ->
    row_dot o (map (fun cv : nat * R => if Nat.eqb (fst cv) i then (i, v) else cv) r) y
    = row_dot o r y [+] (if has_col r i then (v [-] dense_entry o r i) [*] vnth o y i else zero).
  Proof.
    induction r as [|[c w] r IH]; intros ND; [simpl; ring|]. inversion ND as [|c' l' Hc ND']; subst.
    simpl. rewrite IH by assumption. destruct (Nat.eqb c i) eqn:E; simpl.
    - apply Nat.eqb_eq in E. subst. pose proof Hc as Hc'. apply (has_col_false (R:=R)) in Hc. rewrite Hc.
      rewrite (dense_entry_nocol o) by assumption. ring.
    - destruct (has_col r i); ring.
  Qed.

  (* setdiag replaces the diagonal coefficient: new row = old row - a_ii e_i + v e_i *)
  Lemma row_dot_setdiag r i v y :
    NoDup (map fst r) ->
    row_dot o (setdiag_row i v r) y = v [*] vnth o y i [+] (row_dot o r y [-] dense_entry o r i [*] vnth o y i).
  Proof.
    intros ND. unfold setdiag_row. destruct (has_col r i) eqn:E.
    - rewrite row_dot_replace, E by assumption. ring.
    - rewrite (row_dot_app o Rth). apply (has_col_false (R:=R)) in E. rewrite (dense_entry_nocol o) by assumption.
      simpl. ring.
  Qed.

  Definition rows_nodup (M : list (list (nat * R))) : Prop := forall r, In r M -> NoDup (map fst r).

  Lemma mrow_nodup M i : rows_nodup M -> NoDup (map fst (mrow M i)).
  Proof.
    intros H. unfold mrow. destruct (Nat.lt_ge_cases i (length M)) as [Hi|Hi].
    - apply H. now apply nth_In.
    - rewrite nth_overflow by assumption. constructor.
  Qed.

  (* penalize with weight w = 1/epsilon: the penalised row d reads
        w * y_d + sum_{j<>d} a_dj y_j = w * x_d ,
     i.e.  w * (y_d - x_d) = -(off-diagonal part of row d applied to y):  the deviation from the prescribed
     value is epsilon times the off-diagonal residual; rows outside D and their right-hand sides are untouched *)
  Theorem penalize_identity (M : list (list (nat * R))) (b x : list R) D w (y : list R) :
    rows_nodup M -> length b = length M -> NoDup D -> (forall d, In d D -> d < length M) ->
    length (penalize_matrix o M D w) = length M /\
    (forall d, In d D ->
       row_dot o (mrow (penalize_matrix o M D w) d) y
       = w [*] vnth o y d [+] (row_dot o (mrow M d) y [-] dense_entry o (mrow M d) d [*] vnth o y d)
       /\ vnth o (penalize_rhs o b x D w) d = vnth o x d [*] w) /\
    (forall i, i < length M -> ~ In i D ->
       row_dot o (mrow (penalize_matrix o M D w) i) y = row_dot o (mrow M i) y
       /\ vnth o (penalize_rhs o b x D w) i = vnth o b i).
  Proof.
    intros HN Hb ND HD. unfold penalize_matrix. split; [apply msetdiag_length|]. split.
    - intros d Hd. pose proof (HD d Hd) as Hdn. split.
      + rewrite mrow_msetdiag by (rewrite ?vset_const_length, ?mdiag_length; lia).
        rewrite vset_const_in by (rewrite ?mdiag_length; auto).
        apply row_dot_setdiag. now apply mrow_nodup.
      + unfold penalize_rhs. destruct (In_nth D d 0 Hd) as (p & Hp & <-).
        rewrite (vset_at o);
          [ | assumption | unfold vsel; now rewrite !map_length | intros j Hj; rewrite Hb; auto | assumption].
        unfold vnth at 1. rewrite (nth_indep _ _ (rmul o zero w)) by (unfold vsel; now rewrite !map_length).
        rewrite (map_nth (fun v => rmul o v w)). f_equal. now apply vnth_vsel.
    - intros i Hi Hni. split.
      + rewrite mrow_msetdiag by (rewrite ?vset_const_length, ?mdiag_length; lia).
        rewrite vset_const_notin by assumption. rewrite vnth_mdiag by assumption.
        rewrite row_dot_setdiag by now apply mrow_nodup. ring.
      + unfold penalize_rhs. now apply vset_notin.
  Qed.
End Penalize.

(* ------------------------------------------------------------------ _flatten_dofs *)
Lemma in_insert_unique x y l : In y (insert_unique x l) <-> y = x \/ In y l.
Proof.
  induction l as [|z l IH]; simpl; [intuition congruence|].
  destruct (x <? z) eqn:E1; [simpl; intuition congruence|]. destruct (Nat.eqb x z) eqn:E2.
  - apply Nat.eqb_eq in E2. subst. simpl. intuition congruence.
  - simpl. rewrite IH. intuition congruence.
Qed.

Lemma insert_unique_sorted x l : StronglySorted lt l -> StronglySorted lt (insert_unique x l).
Proof.
  induction l as [|z l IH]; intros H; simpl; [repeat constructor|].
  inversion H as [|z' l' Hs Hf]; subst.
  destruct (x <? z) eqn:E1.
  - apply Nat.ltb_lt in E1. constructor; [assumption|]. constructor; [assumption|].
    rewrite Forall_forall in *. intros t Ht. specialize (Hf t Ht). lia.
  - destruct (Nat.eqb x z) eqn:E2; [assumption|]. apply Nat.ltb_ge in E1. apply Nat.eqb_neq in E2.
    constructor; [now apply IH|]. rewrite Forall_forall in *. intros t Ht.
    apply in_insert_unique in Ht. destruct Ht as [->|Ht]; [lia | now apply Hf].
Qed.

Lemma sort_unique_sorted l : StronglySorted lt (sort_unique l).
Proof. induction l; simpl; [constructor | now apply insert_unique_sorted]. Qed.
Lemma in_sort_unique y l : In y (sort_unique l) <-> In y l.
Proof. induction l as [|x l IH]; simpl; [tauto|]. rewrite in_insert_unique, IH. intuition. Qed.

Lemma sorted_lt_NoDup l : StronglySorted lt l -> NoDup l.
Proof.
  induction 1 as [|x l Hs IH Hf]; constructor; [|assumption].
  intros Hin. rewrite Forall_forall in Hf. specialize (Hf x Hin). lia.
Qed.

(* a dict of views denotes the union of the views, duplicate-free and ascending *)
Theorem flatten_dofs_union views d :
  In d (flatten_dofs views) <-> exists v, In v views /\ In d v.
Proof.
  unfold flatten_dofs. rewrite in_sort_unique, in_concat. split; intros (v & H1 & H2); eauto.
Qed.
Theorem flatten_dofs_given_ok n views :
  (forall v d, In v views -> In d v -> d < n) -> given_ok n (flatten_dofs views).
Proof.
  intros H. split; [apply sorted_lt_NoDup, sort_unique_sorted|].
  intros c Hc. apply flatten_dofs_union in Hc. destruct Hc as (v & Hv & Hd). eauto.
Qed.
