(* C10 — the real-number reading of the polynomial identities: true derivatives (Coquelicot is_derive through the bridge
   Base.C09_PolyReal.pderiv_is_derive) and the reals as a carrier of the generated cofactor terms.  Kept apart from
   Proofs.C10_IsoPolyProofs so that coq/props/C10.v does not depend on the axioms of the real numbers. *)
From Coq Require Import List Arith Bool Lia QArith Reals.
From Coquelicot Require Import Coquelicot.
Import ListNotations.
Require Import Base.C09_Poly Base.C09_PolyQ Base.C09_PolyReal Base.C20_Ring Model.C10_IsoPoly Proofs.C10_IsoPolyProofs.
Local Close Scope R_scope.
Local Close Scope Q_scope.

(* over the reals: the delivered J_ij is the partial derivative of the delivered F_i with respect to the reference
   coordinate X_j, at every real reference point and for every real position of the nodes *)
Definition J_true_derivative_R (d : nat) (phis : list poly) (dphis : list (list poly)) : Prop :=
  forall i j, i < d -> j < d -> forall pt : nat -> R,
    is_derive (fun t => reval (isoF_poly d phis i) (upd pt j t)) (pt j) (reval (isoJ_poly d dphis i j) pt).


Theorem derivative_sound_R d phis dphis :
  all_equal (derivative_pairs d phis dphis) = true -> J_true_derivative_R d phis dphis.
Proof.
  intros H i j Hi Hj pt.
  pose proof (pderiv_is_derive (isoF_poly d phis i) j pt) as D.
  unfold reval in *.
  rewrite (r_peqb_sound _ _ (all_equal_In _ H _ _ (derivative_pairs_In d phis dphis i j Hi Hj)) pt) in D. exact D.
Qed.


(* ------------------------------------------------------------------ the real numbers as a carrier of the generated terms *)
Definition ROps : FOps R :=
  {| f0 := 0%R; f1 := 1%R; fadd := Rplus; fmul := Rmult; fsub := Rminus; fopp := Ropp; fdiv := Rdiv; finv := Rinv |}.
Lemma R_field : field_theory (R:=R) (@f0 R ROps) (@f1 R ROps) (@fadd R ROps) (@fmul R ROps) (@fsub R ROps) (@fopp R ROps)
                             (@fdiv R ROps) (@finv R ROps) eq.
Proof. exact RealField.Rfield. Qed.
